#!/venv/bin/python
"""translate.py - regenerate coq/Gen/*.v from the CURRENT working tree of /repo.

Fail-closed: every construct it does not recognise raises TranslateError naming it; the
caller (harness/core.py) turns that into a broken-obligation report.  The repository code
is never imported: sources are read with `ast`; regular expressions are parsed with the
standard library's own regex parser (re._parser), so the Coq regex value is the parse tree
CPython itself uses.

Run with /venv/bin/python (the interpreter the implementation runs under) because the
Unicode class tables in Gen/Unicode.v are dumped from the running interpreter.
"""
import ast
import os
import re
import sys
import unicodedata  # noqa: F401  (documenting where the tables come from)

try:
    import re._parser as sre_parse
    import re._constants as sre_c
except ImportError:  # python < 3.11
    import sre_parse
    import sre_constants as sre_c

REPO = os.environ.get('VERIF_REPO', '/repo')
SRC = os.path.join(REPO, 'src', 'bare_script')
OUT = os.path.join(os.path.dirname(os.path.dirname(os.path.abspath(__file__))), 'coq', 'Gen')


class TranslateError(Exception):
    pass


# ------------------------------------------------------------------------------ helpers
def coq_str(s):
    """A python str as a Coq term of type str (see Model/Base.v, [U])."""
    out = []
    for ch in s:
        o = ord(ch)
        if 32 <= o < 127 and ch not in '"\\':
            out.append(ch)
        else:
            out.append('\\%06x' % o)
    return '(U "%s")' % ''.join(out)


def coq_comment(text):
    """make text safe inside a Coq comment (comment delimiters and string quotes are lexed there)"""
    return text.replace('"', "''").replace('(*', '( *').replace('*)', '* )')


def coq_list(items):
    return '[' + '; '.join(items) + ']'


def read_module(name):
    path = os.path.join(SRC, name)
    with open(path, encoding='utf-8') as fh:
        text = fh.read()
    try:
        return ast.parse(text, filename=path), text
    except SyntaxError as exc:
        raise TranslateError(f'{name}: does not parse: {exc}')


def module_assigns(tree):
    """name -> value node for simple module-level assignments NAME = <expr>"""
    res = {}
    for node in tree.body:
        if isinstance(node, ast.Assign) and len(node.targets) == 1 and isinstance(node.targets[0], ast.Name):
            res[node.targets[0].id] = node.value
    return res


# ------------------------------------------------------------------------------ regexes
CATS = {
    sre_c.CATEGORY_SPACE: 'CatSpace', sre_c.CATEGORY_NOT_SPACE: 'CatNotSpace',
    sre_c.CATEGORY_DIGIT: 'CatDigit', sre_c.CATEGORY_NOT_DIGIT: 'CatNotDigit',
    sre_c.CATEGORY_WORD: 'CatWord', sre_c.CATEGORY_NOT_WORD: 'CatNotWord',
}


def rx_seq(items, where):
    terms = [rx_item(op, av, where) for op, av in items]
    if not terms:
        return 'REps'
    res = terms[-1]
    for t in reversed(terms[:-1]):
        res = f'(RCat {t} {res})'
    return res


def rx_item(op, av, where):
    if op is sre_c.LITERAL:
        return f'(RLit {av})'
    if op is sre_c.NOT_LITERAL:
        return f'(RNotLit {av})'
    if op is sre_c.ANY:
        return 'RAny'
    if op is sre_c.IN:
        neg = False
        items = []
        for iop, iav in av:
            if iop is sre_c.NEGATE:
                neg = True
            elif iop is sre_c.LITERAL:
                items.append(f'CLit {iav}')
            elif iop is sre_c.RANGE:
                items.append(f'CRange {iav[0]} {iav[1]}')
            elif iop is sre_c.CATEGORY:
                if iav not in CATS:
                    raise TranslateError(f'{where}: unsupported character category {iav}')
                items.append(f'CCat {CATS[iav]}')
            else:
                raise TranslateError(f'{where}: unsupported set item {iop}')
        return f'(RIn {"true" if neg else "false"} {coq_list(items)})'
    if op is sre_c.AT:
        if av is sre_c.AT_BEGINNING:
            return 'RBol'
        if av is sre_c.AT_END:
            return 'REol'
        raise TranslateError(f'{where}: unsupported anchor {av}')
    if op is sre_c.MAX_REPEAT:
        mn, mx, sub = av
        if rx_nullable(list(sub)):
            raise TranslateError(f'{where}: repeat of a nullable body is not modelled')
        mxs = 'None' if mx is sre_c.MAXREPEAT else f'(Some {mx})'
        return f'(RRep {mn} {mxs} {rx_seq(list(sub), where)})'
    if op is sre_c.SUBPATTERN:
        group, add_flags, del_flags, sub = av
        if add_flags or del_flags:
            raise TranslateError(f'{where}: inline flags are not modelled')
        inner = rx_seq(list(sub), where)
        return inner if group is None else f'(RGroup {group} {inner})'
    if op is sre_c.BRANCH:
        _, alts = av
        terms = [rx_seq(list(a), where) for a in alts]
        res = terms[-1]
        for t in reversed(terms[:-1]):
            res = f'(RAlt {t} {res})'
        return res
    if op is sre_c.ASSERT:
        direction, sub = av
        if direction != 1:
            raise TranslateError(f'{where}: look-behind is not modelled')
        return f'(RLook {rx_seq(list(sub), where)})'
    raise TranslateError(f'{where}: unsupported regex construct {op}')


def rx_nullable(items):
    for op, av in items:
        if op in (sre_c.LITERAL, sre_c.NOT_LITERAL, sre_c.ANY, sre_c.IN):
            return False
        if op is sre_c.MAX_REPEAT:
            mn, _, sub = av
            if mn > 0 and not rx_nullable(list(sub)):
                return False
        elif op is sre_c.SUBPATTERN:
            if not rx_nullable(list(av[3])):
                return False
        elif op is sre_c.BRANCH:
            if not any(rx_nullable(list(a)) for a in av[1]):
                return False
        # AT / ASSERT consume nothing
    return True


def regexes_of(modname, tree):
    """[(python name, pattern, groupindex)] for NAME = re.compile(<str const>)"""
    res = []
    for name, val in module_assigns(tree).items():
        if not (isinstance(val, ast.Call) and isinstance(val.func, ast.Attribute) and val.func.attr == 'compile'
                and isinstance(val.func.value, ast.Name) and val.func.value.id == 're'):
            continue
        if len(val.args) != 1 or val.keywords or not (isinstance(val.args[0], ast.Constant) and isinstance(val.args[0].value, str)):
            raise TranslateError(f'{modname}:{name}: re.compile call is not a single constant pattern without flags')
        res.append((name, val.args[0].value))
    return res


# Regexes that the model uses with re.sub / re.split: must not be nullable
NON_NULLABLE_USES = {
    'R_SCRIPT_LINE_SPLIT', 'R_SCRIPT_CONTINUATION', 'R_SCRIPT_FUNCTION_ARG_SPLIT',
    'R_EXPR_STRING_ESCAPE', 'R_EXPR_STRING_DOUBLE_ESCAPE', 'R_EXPR_VARIABLE_EX_ESCAPE',
    'R_NUMBER_CLEANUP', 'R_VALUE_JSON_NUMBER_CLEANUP', 'R_DATETIME_ZULU', 'R_DATETIME_TZ_CLEANUP',
}


def gen_regexes():
    lines = ['(* GENERATED by tools/translate.py from /repo - do not edit *)',
             'From BS Require Import Model.Base Model.Regex.', '']
    seen = {}
    for modname in ('parser.py', 'value.py', 'options.py'):
        tree, _ = read_module(modname)
        for pyname, pattern in regexes_of(modname, tree):
            cname = pyname.lstrip('_')
            where = f'{modname}:{pyname}'
            try:
                parsed = sre_parse.parse(pattern)
            except re.error as exc:
                raise TranslateError(f'{where}: pattern does not compile: {exc}')
            if parsed.state.flags & ~re.UNICODE:
                raise TranslateError(f'{where}: pattern flags are not modelled')
            if cname in seen:
                if seen[cname] != pattern:
                    raise TranslateError(f'{where}: two different patterns share the name {cname}')
                continue
            seen[cname] = pattern
            if cname in NON_NULLABLE_USES and rx_nullable(list(parsed)):
                raise TranslateError(f'{where}: pattern used with sub/split can match the empty string')
            lines.append(f'(* {where} = {coq_comment(repr(pattern))} *)')
            lines.append(f'Definition {cname} : regex :=\n  {rx_seq(list(parsed), where)}.')
            for gname, gnum in sorted(parsed.state.groupdict.items(), key=lambda kv: kv[1]):
                lines.append(f'Definition {cname}__{gname} : nat := {gnum}.')
            lines.append(f'Definition {cname}__groups : nat := {parsed.state.groups - 1}.')
            lines.append('')
    return '\n'.join(lines) + '\n', seen


# ------------------------------------------------------------------------------ unicode
def ranges(pred, lo=128, hi=0x110000):
    res = []
    start = None
    for c in range(lo, hi):
        if pred(chr(c)):
            if start is None:
                start = c
        elif start is not None:
            res.append((start, c - 1))
            start = None
    if start is not None:
        res.append((start, hi - 1))
    return res


def gen_unicode():
    rs = re.compile(r'\s')
    rd = re.compile(r'\d')
    rw = re.compile(r'\w')
    sp = ranges(lambda ch: rs.match(ch) is not None)
    dg = ranges(lambda ch: rd.match(ch) is not None)
    wd = ranges(lambda ch: rw.match(ch) is not None)
    # str.strip()/str.isspace() must agree with \s (the model uses one predicate for both)
    sp2 = ranges(lambda ch: ch.isspace())
    if sp != sp2:
        raise TranslateError('unicode: str.isspace() and the regex class \\s differ in this interpreter')
    # every \d range is a run of decimal digits 0..9 (used for float()/int() of non-ASCII digits)
    for a, b in dg:
        if (b - a + 1) % 10 != 0 or any(unicodedata.digit(chr(c), -1) != (c - a) % 10 for c in range(a, b + 1)):
            raise TranslateError(f'unicode: digit range {a:x}-{b:x} is not a sequence of decimal digits')

    def tbl(name, rr):
        body = '; '.join(f'({a}, {b})' for a, b in rr)
        return f'Definition {name} : list (N * N) := [{body}]%N.'
    lines = ['(* GENERATED by tools/translate.py: Unicode classes (code points >= 128) of the running',
             f'   interpreter ({sys.version.split()[0]}, unicodedata {unicodedata.unidata_version}) - do not edit *)',
             'From BS Require Import Model.Base Model.Regex.', '',
             tbl('gen_uspace_ranges', sp), tbl('gen_udigit_ranges', dg), tbl('gen_uword_ranges', wd), '',
             'Fixpoint in_ranges (l : list (N * N)) (c : N) : bool :=',
             '  match l with [] => false | (a, b) :: t => if (c <? a)%N then false else if (c <=? b)%N then true else in_ranges t c end.',
             'Definition UC : uclass :=',
             '  {| u_space := in_ranges gen_uspace_ranges; u_digit := in_ranges gen_udigit_ranges; u_word := in_ranges gen_uword_ranges |}.',
             '(* value of a (possibly non-ASCII) decimal digit *)',
             'Fixpoint udigit_val_in (l : list (N * N)) (c : N) : option N :=',
             '  match l with [] => None | (a, b) :: t => if (c <? a)%N then None else if (c <=? b)%N then Some ((c - a) mod 10)%N else udigit_val_in t c end.',
             'Definition digit_val (c : N) : option N :=',
             '  if (c <? 128)%N then (if (48 <=? c)%N && (c <=? 57)%N then Some (c - 48)%N else None) else udigit_val_in gen_udigit_ranges c.',
             '']
    return '\n'.join(lines)


# ------------------------------------------------------------------------------ tables
def const_str(node, where):
    if isinstance(node, ast.Constant) and isinstance(node.value, str):
        return node.value
    raise TranslateError(f'{where}: expected a string constant')


def gen_tables():
    lines = ['(* GENERATED by tools/translate.py from /repo - do not edit *)',
             'From BS Require Import Model.Base.', '']
    tree, _ = read_module('parser.py')
    assigns = module_assigns(tree)

    # BINARY_REORDER : op -> set of ops
    node = assigns.get('BINARY_REORDER')
    if not isinstance(node, ast.Dict):
        raise TranslateError('parser.py: BINARY_REORDER is not a dict literal')
    rows = []
    for k, v in zip(node.keys, node.values):
        op = const_str(k, 'parser.py:BINARY_REORDER key')
        if isinstance(v, ast.Set):
            elts = [const_str(e, 'parser.py:BINARY_REORDER value') for e in v.elts]
        elif isinstance(v, ast.Call) and isinstance(v.func, ast.Name) and v.func.id == 'set' and not v.args and not v.keywords:
            elts = []
        else:
            raise TranslateError(f'parser.py: BINARY_REORDER[{op!r}] is not a set literal')
        rows.append(f'({coq_str(op)}, {coq_list([coq_str(e) for e in sorted(elts)])})')
    lines.append('Definition gen_binary_reorder : list (str * list str) :=\n  ' + coq_list(rows).replace('); (', ');\n   (') + '.')
    lines.append('')
    return '\n'.join(lines) + '\n'


# ------------------------------------------------------------------------------ main
def write_if_changed(path, text):
    try:
        with open(path, encoding='utf-8') as fh:
            if fh.read() == text:
                return False
    except FileNotFoundError:
        pass
    with open(path, 'w', encoding='utf-8') as fh:
        fh.write(text)
    return True


def main():
    os.makedirs(OUT, exist_ok=True)
    # every generator runs; the first failure is reported after writing what can be written,
    # so that the parts of the model that do not depend on the failing table still build
    errors = []
    outputs = {}
    for fname, gen in (('Unicode.v', gen_unicode), ('Regexes.v', lambda: gen_regexes()[0]), ('Tables.v', gen_tables)):
        try:
            outputs[fname] = gen()
        except TranslateError as exc:
            errors.append(str(exc))
    # plug-ins: every tools/translate_<topic>.py defines generate(ctx) -> {file name: text}; ctx gives the helpers of
    # this module (read_module, module_assigns, coq_str, coq_list, TranslateError, SRC, REPO)
    import glob
    import importlib.util
    here = os.path.dirname(os.path.abspath(__file__))
    for plug in sorted(glob.glob(os.path.join(here, 'translate_*.py'))):
        spec = importlib.util.spec_from_file_location(os.path.basename(plug)[:-3], plug)
        mod = importlib.util.module_from_spec(spec)
        try:
            spec.loader.exec_module(mod)
            outputs.update(mod.generate(sys.modules[__name__]))
        except TranslateError as exc:
            errors.append(f'{os.path.basename(plug)}: {exc}')
        except Exception as exc:  # fail closed: an unexpected source shape is a broken obligation, not a crash
            errors.append(f'{os.path.basename(plug)}: {type(exc).__name__}: {exc}')
    for fname, text in outputs.items():
        write_if_changed(os.path.join(OUT, fname), text)
    if errors:
        for e in errors:
            print('TRANSLATE-ERROR: ' + e)
        return 3
    print('translate: ok (' + ', '.join(sorted(outputs)) + ')')
    return 0


if __name__ == '__main__':
    sys.exit(main())
