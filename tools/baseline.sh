#!/bin/bash
# Run the repository's pinned test suite (guard OFF) and compare with /root/.vp/BASELINE.json stable_pass.
# exit 0 iff every stable_pass test still passes.
set -u
OUT=$(mktemp /tmp/bs_junit.XXXXXX.xml)
cd /repo && env -u BARE_SCRIPT_VERIF /venv/bin/python -m pytest -ra -q -p no:cacheprovider --timeout=900 --continue-on-collection-errors --junitxml="$OUT" >/dev/null 2>&1
/venv/bin/python - "$OUT" <<'PY'
import json, sys, xml.etree.ElementTree as ET
base = json.load(open('/root/.vp/BASELINE.json'))
want = set(base['stable_pass'])
ok = set()
for tc in ET.parse(sys.argv[1]).getroot().iter('testcase'):
    name = tc.get('classname') + '::' + tc.get('name')
    if not any(ch.tag in ('failure', 'error', 'skipped') for ch in tc):
        ok.add(name)
missing = sorted(want - ok)
print(f'baseline: {len(want & ok)}/{len(want)} stable tests pass; {len(ok)} pass in total')
for m in missing:
    print('  NOT PASSING:', m)
sys.exit(1 if missing else 0)
PY
rc=$?
rm -f "$OUT"
exit $rc
