#!/bin/bash
# validate MANIFEST.json and every evidence file against the schemas
python3-vt - <<'PY'
import json, jsonschema, glob, sys
ok = True
man = json.load(open('/verif/MANIFEST.json'))
jsonschema.validate(man, json.load(open('/root/.vp/MANIFEST.schema.json')))
sch = json.load(open('/root/.vp/EVIDENCE.schema.json'))
for f in sorted(glob.glob('/verif/evidence/*.json')):
    try:
        jsonschema.validate(json.load(open(f)), sch)
    except Exception as e:
        ok = False
        print('INVALID', f, str(e)[:300])
ids = [c['property_id'] for c in man['checks']] + [c['property_id'] for c in man.get('not_applicable', [])]
print('manifest ok; checks:', len(man['checks']), 'not_applicable:', len(man.get('not_applicable', [])), 'ids covered:', len(set(ids)))
sys.exit(0 if ok else 1)
PY
