#!/venv/bin/python
"""Import sub-agent mutants from /tmp/mut/<ID>/out/m<k>/ into /verif/seeded/<ID>-m<k>/ and VERIFY each one
in a scratch worktree: (1) patch applies, (2) the pinned suite result is unchanged (all 410 stable tests pass),
(3) the demonstration exits 1 with the change and 0 without it.  Writes meta.json.  The scratch worktree is removed."""
import json
import os
import shutil
import subprocess
import sys

BASE = json.load(open('/root/.vp/BASELINE.json'))


def sh(cmd, cwd=None, env=None, timeout=900):
    p = subprocess.run(cmd, shell=True, cwd=cwd, env=env, stdout=subprocess.PIPE, stderr=subprocess.STDOUT, text=True, timeout=timeout)
    return p.returncode, p.stdout


def suite_ok(tree):
    xml = os.path.join(tree, 'junit.xml')
    env = {**os.environ, 'PYTHONPATH': os.path.join(tree, 'src')}
    sh(f'/venv/bin/python -m pytest -q -p no:cacheprovider --timeout=900 --junitxml={xml} src/tests', cwd=tree, env=env)
    import xml.etree.ElementTree as ET
    ok = set()
    for tc in ET.parse(xml).getroot().iter('testcase'):
        name = tc.get('classname') + '::' + tc.get('name')
        if not any(ch.tag in ('failure', 'error', 'skipped') for ch in tc):
            ok.add(name)
    os.remove(xml)
    want = set(BASE['stable_pass'])
    # junit classnames from `src/tests` invocation are 'src.tests.test_x.TestX'
    missing = sorted(want - ok)
    return not missing, missing[:5], len(ok)


def main():
    ids = sys.argv[1:] or sorted(d for d in os.listdir('/tmp/mut') if d.startswith('C'))
    for pid in ids:
        for k in range(1, 21):
            src = f'/tmp/mut/{pid}/out/m{k}'
            if not os.path.isdir(src):
                continue
            sid = f'{pid}-m{k}'
            dst = f'/verif/seeded/{sid}'
            if os.path.exists(os.path.join(dst, 'meta.json')) and json.load(open(os.path.join(dst, 'meta.json'))).get('confirmed'):
                continue
            os.makedirs(dst, exist_ok=True)
            for f in ('patch.diff', 'demo.py', 'notes.md'):
                if os.path.exists(os.path.join(src, f)):
                    shutil.copy(os.path.join(src, f), os.path.join(dst, f))
            tree = f'/tmp/sv_{sid}'
            sh(f'git -C /repo worktree remove --force {tree}')
            rc, out = sh(f'git -C /repo worktree add -q --detach {tree} HEAD')
            meta = {'id': sid, 'property': pid, 'source': 'independent sub-agent given only the property text and a scratch worktree',
                    'repo_head': sh('git -C /repo rev-parse --short HEAD')[1].strip()}
            try:
                env = {**os.environ, 'PYTHONPATH': os.path.join(tree, 'src')}
                rc0, _ = sh(f'/venv/bin/python {dst}/demo.py', cwd=tree, env=env)
                rca, out = sh(f'git apply {dst}/patch.diff', cwd=tree)
                ok, missing, npass = suite_ok(tree) if rca == 0 else (False, ['patch does not apply'], 0)
                rc1, demo_out = sh(f'/venv/bin/python {dst}/demo.py', cwd=tree, env=env)
                meta.update({'patch_applies': rca == 0, 'suite_unchanged_with_change': ok, 'suite_missing': missing, 'suite_pass_count': npass,
                             'demo_exit_without_change': rc0, 'demo_exit_with_change': rc1, 'demo_output_with_change': demo_out[-600:],
                             'confirmed': bool(rca == 0 and ok and rc0 == 0 and rc1 == 1)})
                notes = open(os.path.join(dst, 'notes.md')).read() if os.path.exists(os.path.join(dst, 'notes.md')) else ''
                meta['needs_to_manifest'] = notes[:1500]
                meta['what_was_run'] = ['git apply patch.diff in a scratch worktree', 'pytest src/tests (compared with BASELINE stable_pass)',
                                        'demo.py with and without the change']
            finally:
                sh(f'git -C /repo worktree remove --force {tree}')
                shutil.rmtree(tree, ignore_errors=True)
            old = {}
            if os.path.exists(os.path.join(dst, 'meta.json')):
                old = json.load(open(os.path.join(dst, 'meta.json')))
            old.update(meta)
            json.dump(old, open(os.path.join(dst, 'meta.json'), 'w'), indent=1)
            print(sid, 'confirmed' if meta.get('confirmed') else 'NOT CONFIRMED', meta.get('suite_missing'), meta.get('demo_exit_without_change'),
                  meta.get('demo_exit_with_change'), flush=True)


main()
