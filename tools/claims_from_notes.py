#!/venv/bin/python
"""claims_from_notes.py - collect the MANIFEST proposals written by the builders in notes/Cxx.md into notes/claims.json."""
import glob
import json
import os
import re

ROOT = os.path.dirname(os.path.dirname(os.path.abspath(__file__)))


def clean(t):
    t = '\n'.join(ln.lstrip('> ').rstrip() for ln in t.strip().split('\n'))
    t = ' '.join(t.split())
    return t.strip('"').strip()


out = {}
for path in sorted(glob.glob(os.path.join(ROOT, 'notes', 'C[0-9][0-9].md'))):
    pid = os.path.basename(path)[:-3]
    s = open(path, encoding='utf-8').read()
    text = note = ''
    m = re.search(r'```json\s*(\{.*?"level_claimed".*?\})\s*```', s, re.S)
    if m:
        try:
            d = json.loads(m.group(1))
            text, note = d['level_claimed']['text'], d.get('level_note', '')
        except (ValueError, KeyError):
            pass
    if not text:
        m = re.search(r'`level_claimed\.text`\s*:\s*(.*?)(?=\n\s*\n|\n`level_note|\n##|\Z)', s, re.S)
        text = clean(m.group(1)) if m else ''
        m = re.search(r'`level_note`\s*:\s*(.*?)(?=\n\s*\n|\n##|\Z)', s, re.S)
        note = clean(m.group(1)) if m else ''
    if text:
        out[pid] = {'text': text, 'note': note or f'see notes/{pid}.md', 'ref': f'DESIGN.md section 5 {pid}; notes/{pid}.md'}
json.dump(out, open(os.path.join(ROOT, 'notes', 'claims.json'), 'w', encoding='utf-8'), indent=1)
print('claims:', sorted(out))
