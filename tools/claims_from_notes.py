#!/venv/bin/python
"""claims_from_notes.py - collect the MANIFEST proposals written by the builders in notes/Cxx.md into notes/claims.json
(level_claimed.text = the block quote after `level_claimed.text`; level_note = the paragraph after `level_note`)."""
import glob
import json
import os
import re

ROOT = os.path.dirname(os.path.dirname(os.path.abspath(__file__)))
out = {}
for path in sorted(glob.glob(os.path.join(ROOT, 'notes', 'C[0-9][0-9].md'))):
    pid = os.path.basename(path)[:-3]
    s = open(path, encoding='utf-8').read()
    m = re.search(r'level_claimed\.text`?\s*:?\s*\n((?:>.*\n?)+)', s)
    text = ' '.join(ln.lstrip('> ').strip() for ln in m.group(1).split('\n')).strip() if m else ''
    m = re.search(r'`?level_note`?\s*:\s*((?:.+\n?)+?)(?:\n\s*\n|\n##|\Z)', s)
    note = ' '.join(m.group(1).split()) if m else ''
    note = note.lstrip('> ').replace(' > ', ' ')
    if text:
        out[pid] = {'text': text, 'note': note or 'see notes/%s.md' % pid, 'ref': f'DESIGN.md section 5 {pid}; notes/{pid}.md'}
json.dump(out, open(os.path.join(ROOT, 'notes', 'claims.json'), 'w', encoding='utf-8'), indent=1)
print('claims:', sorted(out))
