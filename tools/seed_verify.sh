#!/bin/bash
# Re-verify every seeded mutant against /repo's CURRENT HEAD: patch applies, demo exits 0 without and non-zero with the change,
# pinned suite still has 410 passes with the change.  Prints one line per mutant.
cd "$(dirname "$0")/.."
for d in seeded/*/; do
  id=$(basename $d)
  W=$(mktemp -d /tmp/sv.XXXXXX); rmdir $W
  git -C /repo worktree add --detach $W HEAD >/dev/null 2>&1
  ( cd $W; PYTHONPATH=$W/src timeout 600 /venv/bin/python $OLDPWD/$d/demo.py >/dev/null 2>&1; echo -n "$id without=$? " )
  if git -C $W apply $(pwd)/$d/patch.diff 2>/dev/null; then
    ( cd $W; PYTHONPATH=$W/src timeout 600 /venv/bin/python $OLDPWD/$d/demo.py >/dev/null 2>&1; echo -n "with=$? " )
    ( cd $W; PYTHONPATH=$W/src /venv/bin/python -m pytest -q -p no:cacheprovider --timeout=900 src/tests 2>&1 | tail -1 )
  else
    echo "PATCH-DOES-NOT-APPLY"
  fi
  git -C /repo worktree remove --force $W
done
