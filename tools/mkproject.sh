#!/bin/bash
# (Re)generate coq/_CoqProject and coq/Makefile from the files present. Idempotent.
set -e
cd "$(dirname "$0")/../coq"
{
  echo "-Q . BS"
  echo "-arg -w -arg -notation-overridden,-deprecated-hint-without-locality,-deprecated-instance-without-locality,-deprecated-since-8.16"
  ls Gen/*.v Model/*.v Proofs/*.v Props/*.v 2>/dev/null | sort
} > _CoqProject.new
if ! cmp -s _CoqProject.new _CoqProject 2>/dev/null; then
  mv _CoqProject.new _CoqProject
  coq_makefile -f _CoqProject -o Makefile >/dev/null
else
  rm -f _CoqProject.new
  [ -f Makefile ] || coq_makefile -f _CoqProject -o Makefile >/dev/null
fi
