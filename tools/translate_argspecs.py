"""translate_argspecs.py - translator plug-in (C05/C12/C15/C19): the argument-validation tables of library.py.

For every function registered in SCRIPT_FUNCTIONS it extracts
  * the `value_args_model([...])` literal that the function validates its arguments against
    (name, type, nullable, default, lastArgArray, integer, lt/lte/gt/gte), and
  * the third argument of its `value_args_validate(...)` call (the value returned to the script when
    validation fails)
into coq/Gen/ArgSpecs.v as a Gallina table.  The model's `args_validate` is ONE generic function over
that table, so a changed spec changes the model.  Also generated: the keys of SCRIPT_FUNCTIONS, the
`safe=` sets of the two urllib.parse.quote calls, and - dumped from the running interpreter like the
Unicode tables - re.escape's special characters and urllib's always-safe bytes.

Fail-closed: every shape that is not recognised raises TranslateError (a broken obligation, not a crash).
Sources are read with `ast`, never imported.
"""
import ast
import math
import re
import urllib.parse

ATYPES = {'number': 'TNumber', 'string': 'TString', 'array': 'TArray', 'object': 'TObject', 'boolean': 'TBoolean',
          'datetime': 'TDatetime', 'regex': 'TRegex', 'function': 'TFunction'}
KEYS = {'name', 'type', 'nullable', 'default', 'lastArgArray', 'integer', 'lt', 'lte', 'gt', 'gte'}


def cflt(x):
    x = float(x)
    if math.isnan(x):
        return 'SpecFloat.S754_nan'
    neg = 'true' if math.copysign(1.0, x) < 0 else 'false'
    if math.isinf(x):
        return f'(SpecFloat.S754_infinity {neg})'
    if x == 0:
        return f'(SpecFloat.S754_zero {neg})'
    f, k = math.frexp(abs(x))
    m = int(f * (1 << 53))
    e = k - 53
    if e < -1074:
        sh = -1074 - e
        m >>= sh
        e = -1074
    return f'(SpecFloat.S754_finite {neg} {m}%positive ({e})%Z)'


PY_TABLE = {}        # function name -> [{'name', 'type', 'nullable', 'last', 'integer', 'has_default'}] (for the harness generators)
PY_FUNCTIONS = []    # keys of SCRIPT_FUNCTIONS


def generate(ctx):
    TE = ctx.TranslateError
    tree, _ = ctx.read_module('library.py')
    assigns = ctx.module_assigns(tree)

    def lit(node, where, numeric_only=False):
        """a python constant as a Coq `lit`"""
        if isinstance(node, ast.UnaryOp) and isinstance(node.op, ast.USub) and isinstance(node.operand, ast.Constant) \
                and type(node.operand.value) in (int, float):
            v = -node.operand.value
        elif isinstance(node, ast.Constant):
            v = node.value
        else:
            raise TE(f'{where}: not a constant')
        if type(v) is bool and not numeric_only:
            return f'(LBool {"true" if v else "false"})'
        if type(v) is int:
            return f'(LInt ({v})%Z)'
        if type(v) is float:
            return f'(LFlt {cflt(v)})'
        if type(v) is str and not numeric_only:
            return f'(LStr {ctx.coq_str(v)})'
        raise TE(f'{where}: unsupported constant {v!r}')

    def boolean(node, where):
        if isinstance(node, ast.Constant) and type(node.value) is bool:
            return node.value
        raise TE(f'{where}: expected True/False')

    # ---- the argument models:  _X_ARGS = value_args_model([ {...}, ... ])
    models = {}
    pymodels = {}
    for name, val in assigns.items():
        if not (isinstance(val, ast.Call) and isinstance(val.func, ast.Name) and val.func.id == 'value_args_model'):
            continue
        if len(val.args) != 1 or val.keywords or not isinstance(val.args[0], ast.List):
            raise TE(f'library.py:{name}: value_args_model argument is not a list literal')
        specs = []
        pyspecs = []
        for i, d in enumerate(val.args[0].elts):
            where = f'library.py:{name}[{i}]'
            if not isinstance(d, ast.Dict):
                raise TE(f'{where}: not a dict literal')
            fields = {}
            for k, v in zip(d.keys, d.values):
                key = ctx.const_str(k, where)
                if key not in KEYS:
                    raise TE(f'{where}: unknown argument-model key {key!r}')
                if key in fields:
                    raise TE(f'{where}: duplicate key {key!r}')
                fields[key] = v
            if 'name' not in fields:
                raise TE(f'{where}: no name')
            aname = ctx.const_str(fields['name'], where)
            atype = 'None'
            if 'type' in fields:
                t = ctx.const_str(fields['type'], where)
                if t not in ATYPES:
                    raise TE(f'{where}: unknown type {t!r}')
                atype = f'(Some {ATYPES[t]})'
            nullable = boolean(fields['nullable'], where) if 'nullable' in fields else False
            last = boolean(fields['lastArgArray'], where) if 'lastArgArray' in fields else False
            integer = boolean(fields['integer'], where) if 'integer' in fields else False
            default = 'None'
            if 'default' in fields:
                if isinstance(fields['default'], ast.Constant) and fields['default'].value is None:
                    raise TE(f'{where}: default of None (value_args_model rejects it)')
                default = f'(Some {lit(fields["default"], where)})'
            bounds = []
            for b in ('lt', 'lte', 'gt', 'gte'):
                bounds.append(f'(Some {lit(fields[b], where, True)})' if b in fields else 'None')
            b2c = {True: 'true', False: 'false'}
            specs.append(f'mk_argspec {ctx.coq_str(aname)} {atype} {b2c[nullable]} {default} {b2c[last]} {b2c[integer]} '
                         + ' '.join(bounds))
            pyspecs.append({'name': aname, 'type': ctx.const_str(fields['type'], where) if 'type' in fields else None,
                            'nullable': nullable, 'last': last, 'integer': integer, 'has_default': 'default' in fields})
        models[name] = specs
        pymodels[name] = pyspecs

    # ---- the functions: which model each validates against, and the failure value
    funcs = {node.name: node for node in tree.body if isinstance(node, ast.FunctionDef)}
    sf = assigns.get('SCRIPT_FUNCTIONS')
    if not isinstance(sf, ast.Dict):
        raise TE('library.py: SCRIPT_FUNCTIONS is not a dict literal')
    script_functions = []
    PY_TABLE.clear()
    PY_FUNCTIONS.clear()
    rows = []
    integer_args = []
    url_safe = []
    used_models = set()
    for k, v in zip(sf.keys, sf.values):
        fname = ctx.const_str(k, 'library.py:SCRIPT_FUNCTIONS key')
        if not isinstance(v, ast.Name) or v.id not in funcs:
            raise TE(f'library.py:SCRIPT_FUNCTIONS[{fname!r}] is not a module-level function')
        script_functions.append(fname)
        PY_FUNCTIONS.append(fname)
        fn = funcs[v.id]
        if len(fn.args.args) != 2 or fn.args.vararg or fn.args.kwarg or fn.args.kwonlyargs or fn.args.defaults:
            raise TE(f'library.py:{v.id}: signature is not (args, options)')
        args_name = fn.args.args[0].arg
        calls = [n for n in ast.walk(fn) if isinstance(n, ast.Call) and isinstance(n.func, ast.Name)
                 and n.func.id == 'value_args_validate']
        if len(calls) > 1:
            raise TE(f'library.py:{v.id}: more than one value_args_validate call')
        if calls:
            c = calls[0]
            where = f'library.py:{v.id}: value_args_validate'
            if c.keywords or len(c.args) not in (2, 3):
                raise TE(f'{where}: unexpected call shape')
            if not isinstance(c.args[0], ast.Name) or c.args[0].id not in models:
                raise TE(f'{where}: first argument is not a value_args_model table')
            if not isinstance(c.args[1], ast.Name) or c.args[1].id != args_name:
                raise TE(f'{where}: second argument is not the function\'s argument list')
            # the validation must be the first statement that can observe the arguments: it is the value of the first
            # statement of the body, or preceded only by simple assignments from args[...] (objectGet)
            fail = 'FNull'
            if len(c.args) == 3:
                a3 = c.args[2]
                if isinstance(a3, ast.Name):
                    # X = args[K] if len(args) >= K+1 else None
                    defs = [s for s in fn.body if isinstance(s, ast.Assign) and len(s.targets) == 1
                            and isinstance(s.targets[0], ast.Name) and s.targets[0].id == a3.id]
                    ok = False
                    if len(defs) == 1 and isinstance(defs[0].value, ast.IfExp):
                        e = defs[0].value
                        try:
                            kidx = e.body.slice.value
                            ok = (isinstance(e.body, ast.Subscript) and e.body.value.id == args_name and type(kidx) is int
                                  and isinstance(e.test, ast.Compare) and len(e.test.ops) == 1 and isinstance(e.test.ops[0], ast.GtE)
                                  and isinstance(e.test.left, ast.Call) and e.test.left.func.id == 'len'
                                  and e.test.left.args[0].id == args_name
                                  and e.test.comparators[0].value == kidx + 1
                                  and isinstance(e.orelse, ast.Constant) and e.orelse.value is None)
                        except AttributeError:
                            ok = False
                    if not ok:
                        raise TE(f'{where}: failure value {a3.id!r} is not of the shape args[K] if len(args) >= K+1 else None')
                    fail = f'(FArgOrNull {kidx})'
                elif isinstance(a3, ast.Constant) and a3.value is None:
                    fail = 'FNull'
                else:
                    fail = f'(FLit {lit(a3, where)})'
            mname = c.args[0].id
            used_models.add(mname)
            PY_TABLE[fname] = pymodels[mname]
            rows.append(f'({ctx.coq_str(fname)}, ({ctx.coq_list(models[mname])},\n     {fail}))')
            # integer arguments (for the C12 coverage obligation)
            lst = val_integer_args(ctx, assigns[mname])
            for aname in lst:
                integer_args.append(f'({ctx.coq_str(fname)}, {ctx.coq_str(aname)})')
        # urllib.parse.quote(x, safe=CONST)
        for n in ast.walk(fn):
            if isinstance(n, ast.Call) and isinstance(n.func, ast.Attribute) and n.func.attr == 'quote':
                kw = {k.arg: k.value for k in n.keywords}
                if len(n.args) != 1 or set(kw) != {'safe'}:
                    raise TE(f'library.py:{v.id}: urllib quote call is not quote(x, safe=CONST)')
                url_safe.append(f'({ctx.coq_str(fname)}, {ctx.coq_str(ctx.const_str(kw["safe"], v.id))})')
    unused = sorted(set(models) - used_models)
    if unused:
        raise TE(f'library.py: argument models never validated against by a SCRIPT_FUNCTIONS entry: {unused}')

    # ---- interpreter tables (stdlib behaviour the implementation delegates to)
    special = sorted(re._special_chars_map)  # pylint: disable=protected-access
    for cp in special:
        if re._special_chars_map[cp] != '\\' + chr(cp):  # pylint: disable=protected-access
            raise TE('re.escape: a special character is not escaped by a single backslash')
    for probe in ('a', 'Z', '0', '_', 'é', '中', '%', '"', '/', '<', '\U0001f600'):
        if re.escape(probe) != probe:
            raise TE(f're.escape changes the non-special character {probe!r}')
    always_safe = sorted(urllib.parse._ALWAYS_SAFE)  # pylint: disable=protected-access

    lines = ['(* GENERATED by tools/translate_argspecs.py from /repo/src/bare_script/library.py - do not edit *)',
             'From BS Require Import Model.Base Model.Num Model.LibVal.', '',
             '(* function name -> (argument model of its value_args_validate call, value returned on a validation failure) *)',
             'Definition gen_arg_specs : list (str * (list argspec * failv)) :=\n  ['
             + ';\n   '.join(rows) + '].', '',
             '(* keys of SCRIPT_FUNCTIONS, in source order *)',
             'Definition gen_script_functions : list str :=\n  ' + ctx.coq_list([ctx.coq_str(f) for f in script_functions]) + '.', '',
             '(* (function, argument) for every argument declared integer: True *)',
             'Definition gen_integer_args : list (str * str) :=\n  ' + ctx.coq_list(integer_args) + '.', '',
             '(* safe= argument of each urllib.parse.quote call *)',
             'Definition gen_url_safe : list (str * str) :=\n  ' + ctx.coq_list(url_safe) + '.', '',
             '(* dumped from the running interpreter: re._special_chars_map keys (each escaped as backslash + itself) *)',
             'Definition gen_re_special : list N :=\n  [' + '; '.join(str(c) for c in special) + ']%N.', '',
             '(* dumped from the running interpreter: urllib.parse._ALWAYS_SAFE *)',
             'Definition gen_url_always_safe : list N :=\n  [' + '; '.join(str(c) for c in always_safe) + ']%N.', '']
    return {'ArgSpecs.v': '\n'.join(lines)}


def val_integer_args(ctx, val):
    res = []
    for d in val.args[0].elts:
        fields = {k.value: v for k, v in zip(d.keys, d.values) if isinstance(k, ast.Constant)}
        if 'integer' in fields and isinstance(fields['integer'], ast.Constant) and fields['integer'].value is True:
            res.append(fields['name'].value)
    return res
