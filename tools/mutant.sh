#!/bin/bash
# tools/mutant.sh <mutant id, e.g. C07-m1> [check id] [tier]
# Apply seeded/<id>/patch.diff to a scratch worktree of /repo (never to /repo itself), run the property's check
# against that tree (VERIF_REPO), print its verdict, remove the worktree.  Evidence/replays of the run go to a
# scratch directory so that committed evidence is never touched.
set -u
cd "$(dirname "$0")/.."
MID="$1"; PID="${2:-${MID%%-*}}"; TIER="${3:-quick}"
W=$(mktemp -d /tmp/mutw.XXXXXX); OUT=$(mktemp -d /tmp/muto.XXXXXX)
rmdir "$W"
git -C /repo worktree add --detach "$W" HEAD >/dev/null 2>&1 || { echo "cannot create worktree"; exit 2; }
if ! git -C "$W" apply "$(pwd)/seeded/$MID/patch.diff"; then echo "MUTANT $MID: patch does not apply"; git -C /repo worktree remove --force "$W"; exit 2; fi
START=$(date +%s)
VERIF_REPO="$W" VERIF_OUT="$OUT" ./check "$PID" --tier "$TIER" > "$OUT/log" 2>&1
RC=$?
END=$(date +%s)
V=$(grep -m1 '^VIOLATION' "$OUT/log" | sed "s#$OUT#<out>#")
echo "MUTANT $MID check=$PID rc=$RC ($((END-START))s) ${V:-$(tail -1 "$OUT/log")}"
if [ -n "${KEEP:-}" ]; then echo "  kept: $OUT"; else rm -rf "$OUT"; fi
git -C /repo worktree remove --force "$W"
# restore the generated tables to /repo's
/venv/bin/python tools/translate.py >/dev/null 2>&1
exit 0
