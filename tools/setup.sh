#!/bin/bash
# MANIFEST.setup_cmd: build the whole Coq development from files on disk (offline).
set -e
cd "$(dirname "$0")/.."
/venv/bin/python tools/translate.py
tools/mkproject.sh
cd coq
timeout 3000 make -j16 2>&1 | tail -5
echo "setup: ok"
