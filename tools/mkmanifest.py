#!/venv/bin/python
"""mkmanifest.py - (re)generate MANIFEST.json from the table below; a property with a harness/<id>.py module AND an entry
in CLAIMS is claimed, every other property is listed under not_applicable with its reason."""
import json
import os

ROOT = os.path.dirname(os.path.dirname(os.path.abspath(__file__)))
TECH = 'machine-checked proof in Coq 8.16 over an executable model tied to the code (regenerated tables + in-Coq correspondence run)'

CLAIMS = {
    'C02': {
        'text': 'Theorems in Coq about an executable model of the expression parser: the parser is the left fold of the right-spine insertion over the '
                'token chain it reads, that fold yields a well-precedenced tree with the same token order, and every well-precedenced tree is rebuilt '
                'from its own chain (so the tree is unique); unbounded in chain length and nesting; soundness holds for EVERY successful parse (the operators a '
                'parse can produce are exactly the documented ones: C02_sound_total). The regex engine is proved equal to a fuel-free structural evaluator '
                '(Proofs/RegexEval.v) and all 12 regenerated token regexes and the 3 un-escape regexes have a proved direct reading (operator = first matching spelling after white '
                'space; string literal = left-to-right scanner closing at the first unescaped quote, else at the last quote; etc.). The precedence table and every token regex of the '
                'model are regenerated from parser.py on each run, the table obligation (lower <-> strictly lower documented level) is re-decided by '
                'vm_compute, and the model is run inside Coq against the implementation on generated texts.',
        'note': 'trusted: Coq kernel/vm_compute; translator; hand-written regex engine and parser transliteration (tied by differential runs, not proved '
                'equal to CPython); reference token parser used as direct oracle. No axioms (Closed under the global context).',
        'ref': 'DESIGN.md section 5 C02, Appendix A.1',
    },
    'C08': {
        'text': 'Theorems in Coq about the interpreter model (Model/Interp.v, a transliteration of runtime.py), for every library behaviour, options record and '
                'program: a taken jump continues after the FIRST label of that name in the SAME list (find_label characterised); the per-invocation label '
                'cache never changes a run (exec with any sound cache = cache-free exec, by induction on fuel); a jump to an undefined label is the Unknown '
                'jump label runtime error; return / end of list / function binding behave as documented; a call runs the function body as its own list '
                '(jumps never cross scopes). The model is run inside Coq against the implementation on every statement list of length <= 4 (5 in thorough) '
                'over a 13-statement alphabet and on random models; an independent cache-free reference interpreter is the direct oracle; model immutability '
                'and repeatability are checked on the implementation (deep copy, two runs).',
        'note': 'trusted: Coq kernel/vm_compute; hand transliteration of runtime.py validated by the correspondence; harness reference interpreter. '
                'Partial clause: in-place mutation of the Python model object cannot be exhibited by a Gallina model and is tested on the implementation only. '
                'No axioms (Closed under the global context).',
        'ref': 'DESIGN.md section 5 C08',
    },
    'C09': {
        'text': 'Theorems in Coq about the interpreter model, for every program, initial world and limit, and every library meeting two stated premises '
                '(it touches statementCount only through callbacks; it stays in lock step and passes the budget error on): the limit is tested at the head '
                'of every statement after counting it, so statement L+1 never runs and the abort carries exactly the budget message; every started '
                'statement (top level, script functions however invoked, included scripts) adds one and the counter never decreases; a limited run is '
                'in LOCK STEP with the unlimited run - it gives the same result/log/globals/count or is aborted at a point the unlimited run goes past '
                '(mutual induction over eval/call/exec); hence a run completing after N statements is unchanged by every limit >= N; and under a positive limit every run '
                'TERMINATES: for enough fuel the model answer no longer depends on the fuel nor on what the recursion bottoms out with '
                '(C09_terminates_partial; the designed shape `exists fuel, answer <> OFuel` is refuted by a machine-checked cyclic-compare example). The premises are '
                'proved for the modelled library INCLUDING arraySort, which really calls back into script code (Proofs/LibCall.v). The model is run inside Coq against the implementation on (program, limit) pairs; an independent '
                'reference interpreter with the same limit plus metamorphic checks (every L in 1..N+2, L = 0, log prefix, count = L+1) are the direct oracle.',
        'note': 'trusted: Coq kernel/vm_compute; transliteration of runtime.py validated by the correspondence; the library premises are hypotheses of '
                'the theorems (proved for Model/LibAll.v libfull = LibCore + arraySort with callbacks + lifted LibSeq; exercised on the real library by the oracle: '
                'includes, data helpers). Termination: proved for the combined library libfull2 itself with NO library premise from every well-formed initial world (closure-free worlds are '
                'well-formed; the invariant is preserved by the interpreter and by every library function); the earlier rank premise is refuted for that library '
                '(arraySort handed arraySort) and replaced by a measured version. The model has no recursion limit (CPython cuts chains of ~1000 closures by '
                'RecursionError, contained as null). No axioms.',
        'ref': 'DESIGN.md section 5 C09',
    },
    'C03': {
        'text': 'Theorems in Coq about the evaluator model (Model/Interp.v eval/binop, a transliteration of evaluate_expression), for every library, options and '
                'world: an operator applied to a type pair outside the documented table (written out as data) yields null; a supported arithmetic pair yields a '
                'number or null; the six relational operators are exactly the sign tests of the value comparison; && and || return an operand and do not evaluate '
                'the right operand when the left decides; every other operator evaluates left then right exactly once; if() evaluates only the selected branch; call '
                'arguments are evaluated once, left to right; an unshadowed built-in alias resolves to the library function of the GENERATED alias table and calling '
                'it is calling the target; a bound name beats the built-in. The model is run inside Coq against the implementation on the full operator x type-pair '
                'matrix and on random effect-logging trees; an independent reference evaluator (value AND log order/laziness) and an alias-vs-target probe over the '
                'whole EXPRESSION_FUNCTION_MAP are the direct oracle.',
        'note': 'trusted: Coq kernel/vm_compute; transliterations of runtime.py / value.py and Python arithmetic (Model/Arith.v on SpecFloat/Z) validated by the '
                'correspondence; payloads the model declines (libm pow on non-integral operands, long-fraction repr, JSON/ISO text inside string concatenation) are '
                'oracle-only and counted in the evidence; reference evaluator in the harness. No axioms.',
        'ref': 'DESIGN.md section 5 C03',
    },
    'C05': {
        'text': 'Theorems in Coq about the interpreter model with an outcome constructor for "any other Python exception in flight": for EVERY library behaviour (it may '
                'raise anything on any arguments), every program, options and world, that outcome never comes out of expression evaluation or statement execution '
                '(mutual induction over eval/exec; the premise that the parser does not let a host exception escape on an included text is PROVED - C06_total, '
                'C05_contained_unconditional); the operator block never raises; a failed call evaluates to null or the documented failure value, is logged in debug mode, and evaluation continues with the world the call '
                'left. The Python arithmetic that can raise (zero divisors, overflow, huge-int to float, int digit limit, complex results) is modelled in Model/Arith.v '
                'and run inside Coq against the implementation on an adversarial operand matrix; on the implementation the escaping exception class is checked for '
                'every operator x adversarial pair, EVERY library function x random arguments of every type (20k calls quick), raising host functions, '
                'evaluate_expression without options, and generated programs on adversarial globals.',
        'note': 'trusted: Coq kernel/vm_compute; transliteration validated by the correspondence; library functions are covered by the universally quantified lib on '
                'the model side and by the oracle on the code side (testing, stated as such). Outside the quantifier and only counted: CPython recursion limit (F14) and '
                'single operations that do not return, e.g. int ** huge int (F22). No axioms.',
        'ref': 'DESIGN.md section 5 C05',
    },
    'C04': {
        'text': 'Theorems in Coq about the interpreter model: bind_args gives parameter i its positional argument, null when missing, and for a trailing "..." parameter a '
                'FRESH array of the remaining arguments (empty when none), for ANY parameter list (a repeated name holds what its last position receives), any argument list, any heap; surplus '
                'arguments are ignored; reads see locals before globals; a call resolves locals, then globals, then the built-ins only in expression mode; inside a call an '
                'assignment updates the locals and leaves the globals alone, at top level it writes the globals object; library injection (a fold over the GENERATED list of '
                'SCRIPT_FUNCTIONS names) preserves every caller-supplied binding and binds every other library name to its library function; a function statement writes '
                'globals[name] unconditionally (C08). The model is run inside Coq against the implementation on generated programs whose parameter, local, global, host, '
                'library and built-in names collide on purpose, called directly, through variables, systemPartial and arraySort callbacks, under host configurations '
                'shadowing library names; an independent reference interpreter predicts result, log and final globals.',
        'note': 'trusted: Coq kernel/vm_compute; transliteration validated by the correspondence (systemPartial closures and arraySort callbacks ARE modelled: Model/LibPartial.v, Model/LibCall.v; cases needing the JSON text of a '
                'container are declined by the model and covered by the reference oracle only - counted in the evidence). No axioms.',
        'ref': 'DESIGN.md section 5 C04',
    },
    'C01': {
        'text': 'Theorems in Coq on the REAL statement type and the REAL interpreter model: (1) fuel monotonicity of eval/call/exec (mutual induction), so runs with '
                'different fuels compose; (2) forward SIMULATION for one scope: for statement trees over sequencing, assignment, expression statement, return, if/elif/'
                'else chains (with the endif retargeting of the last conditional jump), while as it is lowered (header test, loop label, footer test), break and continue, '
                'whenever the structured big-step reading (loop condition re-tested before every iteration, break/continue bound to the innermost loop, first truthy '
                'branch of a chain) ends - normally, by return or by a runtime error - the interpreter run on the lowered code ends with the same result, the same locals '
                'and (up to the statement counter) the same world, for any library, any call depth inside expressions, unbounded nesting; all compiled labels are unique; '
                '(3) an executable structured interpreter proved sound for the big-step semantics. Known finding F7 (continue inside while skips the re-test; pinned by '
                'the repository\'s own test) is the hypothesis `guard` of (2) and a machine-checked witness (C01_F7_witness). Tie: on every run the check decides inside Coq '
                'that parse_script(printed text) = compile(tree) and that the structured interpreter agrees with the implementation, on generated trees of the fragment; '
                'the whole language incl. for, functions inside blocks and every nesting shape to depth 3 is decided on the implementation against an independent '
                'structured reference interpreter (result, log, final globals), and the Coq parser+interpreter model is run against the implementation.',
        'note': 'PARTIAL (named in Props/C01.v): for-loops are outside the proved fragment; the simulation is per scope; premises on the LIBRARY only (monotone in callback termination, does not read the '
                'statement counter, touches it only through callbacks, lock step) - all proved for Model/LibAll.v libfull incl. arraySort with callbacks; the simulation holds '
                'with an unlimited budget (C01_simulation_library_premises_partial) and under any positive limit up to the budget abort (C01_simulation_under_a_limit_partial). compile = the fold of the parser\'s pure lowering step over the tree\'s line kinds is PROVED '
                '(C01_compile_is_the_parser_lowering, C01_parse_is_compile); that a printed text classifies to those kinds is decided per case inside Coq. Trusted: Coq kernel/vm_compute, transliterations validated by the correspondence, harness reference interpreter. No axioms.',
        'ref': 'DESIGN.md section 5 C01',
    },
}

PENDING = 'check under construction in this session (model and proofs in progress; see DESIGN.md section 5) - not claimed until it passes on the unchanged tree'


def main():
    props = [json.loads(l)['id'] for l in open(os.path.join(ROOT, 'properties.jsonl'), encoding='utf-8')]
    extra = {}
    notes_dir = os.path.join(ROOT, 'notes')
    claims_json = os.path.join(notes_dir, 'claims.json')
    if os.path.exists(claims_json):
        extra = json.load(open(claims_json, encoding='utf-8'))
    claims = {**extra, **CLAIMS}
    checks, na = [], []
    for pid in props:
        if pid in claims and os.path.exists(os.path.join(ROOT, 'harness', pid.lower() + '.py')):
            c = claims[pid]
            checks.append({
                'property_id': pid,
                'quick_cmd': f'./check {pid} --tier quick',
                'thorough_cmd': f'./check {pid} --tier thorough',
                'evidence_file': f'evidence/{pid}.json',
                'replay_cmd_template': f'./check {pid} --replay {{path}}',
                'engine': 'coq-model',
                'level_claimed': {'category': 'proof', 'text': c['text'], 'design_ref': c['ref']},
                'level_note': c['note'],
                'technique': c.get('technique', TECH),
            })
        else:
            na.append({'property_id': pid, 'reason': PENDING})
    man = {
        'version': 1,
        'setup_cmd': 'tools/setup.sh',
        'hooks': {
            'guard': 'BARE_SCRIPT_VERIF',
            'enable': 'no source hooks are needed: every observation point is public API (checks export BARE_SCRIPT_VERIF=1 for uniformity; nothing in /repo reads it)',
            'baseline_off_cmd': 'cd /repo && env -u BARE_SCRIPT_VERIF /venv/bin/python -m pytest -ra -q -p no:cacheprovider --timeout=900 --continue-on-collection-errors',
            'source_commits': [],
            'add_only': True,
        },
        'engines': [{
            'name': 'coq-model', 'path': 'coq/', 'serves_properties': [c['property_id'] for c in checks],
            'kind_free_text': 'Coq 8.16.1 development: Gen/ regenerated from /repo by tools/translate.py (+ plug-ins) on every run, Model/ executable Gallina, '
                              'Proofs/ lemmas, Props/ property theorems; the model is run inside Coq (vm_compute) against the implementation by harness/',
        }],
        'checks': checks,
        'not_applicable': na,
        'notes': 'Built incrementally; see DESIGN.md. Genuine defects found and repaired are listed in known_findings.json.',
    }
    with open(os.path.join(ROOT, 'MANIFEST.json'), 'w', encoding='utf-8') as fh:
        json.dump(man, fh, indent=1)
        fh.write('\n')
    print('manifest: claimed', [c['property_id'] for c in checks])


main()
