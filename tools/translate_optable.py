"""translate_optable.py - translator plug-in for C03: the operand-type guards of the binary operators of
runtime.py `evaluate_expression`.

Generates coq/Gen/OpTable.v: for every non-short-circuiting binary operator the list of (left class, right class)
guards of its branch of the `if bin_op == ...` ladder, in source order; an operator whose branch is one unconditional
`return` (the six comparisons) has no guard list.  Classes: KNum (`_is_number(x)`), KStr (`isinstance(x, str)`),
KDate (`isinstance(x, datetime.date)`), KAny (no test on that operand).
The last `else` of the ladder stands for the one binary operator of parser.py's precedence table that no other branch
tests.  Fail-closed: anything that is not of this shape raises TranslateError.  Proofs/C03gen.v proves that the
documented operator/type table of Proofs/C03.v is exactly what these guards allow.
"""
import ast


def _operand_class(test, ctx, where):
    """one conjunct -> (operand, class)"""
    if isinstance(test, ast.Call) and isinstance(test.func, ast.Name) and len(test.args) >= 1 and isinstance(test.args[0], ast.Name) \
            and test.args[0].id in ('left_value', 'right_value'):
        side = test.args[0].id
        if test.func.id == '_is_number' and len(test.args) == 1:
            return side, 'KNum'
        if test.func.id == 'isinstance' and len(test.args) == 2:
            src = ast.unparse(test.args[1]).replace(' ', '')
            if src == 'str':
                return side, 'KStr'
            if src == 'datetime.date':
                return side, 'KDate'
    raise ctx.TranslateError(f'{where}: unrecognised operand test `{ast.unparse(test)}`')


def _guard(test, ctx, where):
    conj = test.values if isinstance(test, ast.BoolOp) and isinstance(test.op, ast.And) else [test]
    g = {'left_value': 'KAny', 'right_value': 'KAny'}
    for c in conj:
        side, cls = _operand_class(c, ctx, where)
        if g[side] != 'KAny':
            raise ctx.TranslateError(f'{where}: two tests on {side}')
        g[side] = cls
    return g['left_value'], g['right_value']


def _is_number_definition(tree, ctx):
    """_is_number must be: isinstance(value, (int, float)) and not isinstance(value, bool)"""
    fn = next((n for n in tree.body if isinstance(n, ast.FunctionDef) and n.name == '_is_number'), None)
    if fn is None or len(fn.body) != 1 or not isinstance(fn.body[0], ast.Return):
        raise ctx.TranslateError('runtime.py: _is_number is not a single return')
    src = ast.unparse(fn.body[0].value).replace(' ', '')
    if src.replace('(not', 'not').replace('bool))', 'bool)') != 'isinstance(value,(int,float))andnotisinstance(value,bool)':
        raise ctx.TranslateError(f'runtime.py: _is_number is `{src}`, expected the int/float test excluding bool')


def generate(ctx):
    tree, _ = ctx.read_module('runtime.py')
    _is_number_definition(tree, ctx)
    fn = next((n for n in tree.body if isinstance(n, ast.FunctionDef) and n.name == 'evaluate_expression'), None)
    if fn is None:
        raise ctx.TranslateError('runtime.py: evaluate_expression not found')
    # the try statement whose body is the `if bin_op == '+'` ladder
    ladder = None
    for node in ast.walk(fn):
        if isinstance(node, ast.Try) and len(node.body) == 1 and isinstance(node.body[0], ast.If):
            t = node.body[0].test
            if isinstance(t, ast.Compare) and isinstance(t.left, ast.Name) and t.left.id == 'bin_op':
                if ladder is not None:
                    raise ctx.TranslateError('runtime.py: two operator ladders')
                ladder = node
    if ladder is None:
        raise ctx.TranslateError('runtime.py: operator ladder (try: if bin_op == ...) not found')
    handlers = sorted(ast.unparse(h.type).replace(' ', '') for h in ladder.handlers)
    if handlers != ['(ArithmeticError,ValueError,RecursionError)']:
        raise ctx.TranslateError(f'runtime.py: the operator ladder is guarded by {handlers}, expected (ArithmeticError, ValueError, RecursionError)')
    ops = []        # (operator or None for the final else, guards or None)
    node = ladder.body[0]
    while True:
        t = node.test
        if not (isinstance(t, ast.Compare) and len(t.ops) == 1 and isinstance(t.ops[0], ast.Eq) and isinstance(t.left, ast.Name)
                and t.left.id == 'bin_op' and isinstance(t.comparators[0], ast.Constant) and isinstance(t.comparators[0].value, str)):
            raise ctx.TranslateError(f'runtime.py: ladder test `{ast.unparse(t)}`')
        ops.append((t.comparators[0].value, _branch(node.body, ctx, t.comparators[0].value)))
        if len(node.orelse) == 1 and isinstance(node.orelse[0], ast.If) and isinstance(node.orelse[0].test, ast.Compare) \
                and isinstance(node.orelse[0].test.left, ast.Name) and node.orelse[0].test.left.id == 'bin_op':
            node = node.orelse[0]
            continue
        if node.orelse:
            ops.append((None, _branch(node.orelse, ctx, 'else')))
        break
    # the operator the final else stands for: the one operator of the precedence table not tested elsewhere
    ptree, _ = ctx.read_module('parser.py')
    order = None
    for n in ptree.body:
        if isinstance(n, ast.Assign) and len(n.targets) == 1 and isinstance(n.targets[0], ast.Name) and n.targets[0].id == 'BINARY_REORDER' \
                and isinstance(n.value, ast.Dict):
            order = sorted({c.value for c in ast.walk(n.value) if isinstance(c, ast.Constant) and isinstance(c.value, str)})
    if order is None:
        raise ctx.TranslateError('parser.py: BINARY_REORDER not found')
    named = [o for o, _ in ops if o is not None]
    rest = [o for o in order if o not in named and o not in ('&&', '||')]
    if any(o is None for o, _ in ops):
        if len(rest) != 1:
            raise ctx.TranslateError(f'runtime.py: the final else of the operator ladder stands for {rest}')
        ops = [(o if o is not None else rest[0], g) for o, g in ops]
    elif rest:
        raise ctx.TranslateError(f'runtime.py: operators {rest} have no branch')
    lines = ['(* GENERATED by tools/translate_optable.py from runtime.py evaluate_expression - do not edit *)',
             'From BS Require Import Model.Base.', '',
             'Inductive gclass := KNum | KStr | KDate | KAny.', '',
             '(* operator, guards of its branch in source order (None: the branch returns unconditionally) *)',
             'Definition gen_operator_guards : list (str * option (list (gclass * gclass))) :=']
    items = []
    for o, g in ops:
        gs = 'None' if g is None else 'Some ' + ctx.coq_list([f'({a}, {b})' for a, b in g])
        items.append(f'({ctx.coq_str(o)}, {gs})')
    lines.append('  ' + ctx.coq_list(items) + '.')
    return {'OpTable.v': '\n'.join(lines) + '\n'}


def _branch(body, ctx, op):
    """a branch: one unconditional return, or an if/elif chain of guarded blocks each ending in a return"""
    body = [n for n in body if not (isinstance(n, ast.Expr) and isinstance(n.value, ast.Constant))]
    if len(body) == 1 and isinstance(body[0], ast.Return):
        return None
    if len(body) != 1 or not isinstance(body[0], ast.If):
        raise ctx.TranslateError(f'runtime.py: branch of `{op}` is neither a return nor an if chain')
    guards = []
    node = body[0]
    while True:
        if not node.body or not any(isinstance(x, ast.Return) for x in ast.walk(ast.Module(body=node.body, type_ignores=[]))):
            raise ctx.TranslateError(f'runtime.py: a guarded block of `{op}` does not return')
        guards.append(_guard(node.test, ctx, f'runtime.py operator `{op}`'))
        if len(node.orelse) == 1 and isinstance(node.orelse[0], ast.If):
            node = node.orelse[0]
        elif not node.orelse:
            break
        else:
            raise ctx.TranslateError(f'runtime.py: branch of `{op}` has a plain else')
    return guards
