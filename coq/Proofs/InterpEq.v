(* Proofs/InterpEq.v — one-step unfolding equations of the interpreter model (all by reflexivity). *)
From BS Require Import Model.Base Model.Num Model.Arith Model.ExprParser Model.Script Model.Interp.

Section Eq.
Variable cfg : config.
Variable lib : caller -> str -> list value -> world -> lres * world.
Variable url_rel : str -> str -> str.
Variable lint_lines : script -> list str.

Notation eval := (eval cfg lib url_rel lint_lines).
Notation call := (call cfg lib url_rel lint_lines).
Notation exec := (exec cfg lib url_rel lint_lines).

Lemma eval_S f e loc bi um w :
  eval (S f) e loc bi um w = eval_body cfg (eval f) (call f) e loc bi um w.
Proof. reflexivity. Qed.

Lemma call_S f fv args um w :
  call (S f) fv args um w = call_body lib (call f) (exec f) fv args um w.
Proof. reflexivity. Qed.

Lemma exec_S f code pc cache loc um w :
  exec (S f) code pc cache loc um w = exec_body cfg url_rel lint_lines (eval f) (exec f) code pc cache loc um w.
Proof. reflexivity. Qed.

Lemma eval_O e loc bi um w : eval O e loc bi um w = (OFuel, w).
Proof. reflexivity. Qed.
Lemma call_O fv args um w : call O fv args um w = (OFuel, w).
Proof. reflexivity. Qed.
Lemma exec_O code pc cache loc um w : exec O code pc cache loc um w = (OFuel, loc, w).
Proof. reflexivity. Qed.

End Eq.
