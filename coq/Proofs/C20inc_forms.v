(* the MODEL parser (Model/Script.v over the regenerated regexes) accepts the shipped include forms.bare as it is in the
   tree now (text regenerated into Gen/Includes.v on every run); one file per include so that make -j runs them in parallel *)
From BS Require Import Model.Base Model.Script Model.Includes Gen.Inc_forms.
Lemma parses_forms : include_parses inc_forms = true.
Proof. vm_cast_no_check (eq_refl true). Qed.
