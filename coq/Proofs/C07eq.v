(* C07eq.v — Script.pstep = classify ; kstep  (the tie between the proofs of Proofs/C07.v and the
   model that the correspondence check runs against parser.py) *)
From BS Require Import Model.Base Model.Regex Model.Num Model.ExprParser Model.Script Model.Lower Gen.Regexes.

Lemma pstep_classify (ps : pstate) (n : nat) (line : str) :
  pstep ps n line = sbind (classify n line) (kstep ps n line).
Proof.
  unfold pstep, classify.
  destruct (rxm R_SCRIPT_ASSIGNMENT line); [|destruct (stmt_expr _ _ _ _); reflexivity|reflexivity].
  destruct (rxm R_SCRIPT_FUNCTION_BEGIN line); [|reflexivity|reflexivity].
  destruct (rxm R_SCRIPT_FUNCTION_END line); [|reflexivity|reflexivity].
  destruct (rxm R_SCRIPT_IF_BEGIN line); [|destruct (stmt_expr _ _ _ _); reflexivity|reflexivity].
  destruct (rxm R_SCRIPT_IF_ELSE_IF line); [|reflexivity|reflexivity].
  destruct (rxm R_SCRIPT_IF_ELSE line); [|reflexivity|reflexivity].
  destruct (rxm R_SCRIPT_IF_END line); [|reflexivity|reflexivity].
  destruct (rxm R_SCRIPT_WHILE_BEGIN line); [|destruct (stmt_expr _ _ _ _); reflexivity|reflexivity].
  destruct (rxm R_SCRIPT_WHILE_END line); [|reflexivity|reflexivity].
  destruct (rxm R_SCRIPT_FOR_BEGIN line); [|destruct (stmt_expr _ _ _ _); reflexivity|reflexivity].
  destruct (rxm R_SCRIPT_FOR_END line); [|reflexivity|reflexivity].
  destruct (rxm R_SCRIPT_BREAK line); [|reflexivity|reflexivity].
  destruct (rxm R_SCRIPT_CONTINUE line); [|reflexivity|reflexivity].
  destruct (rxm R_SCRIPT_LABEL line); [|reflexivity|reflexivity].
  destruct (rxm R_SCRIPT_JUMP line);
    [|destruct (gtext line c R_SCRIPT_JUMP__expr); [reflexivity|destruct (stmt_expr _ _ _ _); reflexivity]|reflexivity].
  destruct (rxm R_SCRIPT_RETURN line);
    [|destruct (gtext line c R_SCRIPT_RETURN__expr); [reflexivity|destruct (stmt_expr _ _ _ _); reflexivity]|reflexivity].
  destruct (rxm R_SCRIPT_INCLUDE line).
  - destruct (rxm R_SCRIPT_INCLUDE_SYSTEM line); [|reflexivity|reflexivity].
    destruct (parse_expression line); reflexivity.
  - destruct (unesc _ _); reflexivity.
  - reflexivity.
Qed.
