(* Proofs/NumSpace.v — the white space of float() / int() (Model/Num.v F_space) is part of the white space of str.strip()
   (U_space), so a text without any U_space character is left alone by both strips. *)
From Coq Require Import List Bool NArith Lia.
From BS Require Import Model.Base Model.Num.

Lemma F_space_U_space c : F_space c = true -> U_space c = true.
Proof.
  unfold F_space, U_space. destruct (c <? 128)%N; [|auto].
  intros H. apply orb_true_iff in H. destruct H as [H|H].
  - rewrite H. reflexivity.
  - apply N.eqb_eq in H. subst c. reflexivity.
Qed.

Lemma flstrip_id s : Forall (fun c => U_space c = false) s -> flstrip s = s.
Proof.
  intros F. destruct s as [|c t]; [reflexivity|]. inversion F as [|? ? Hc _]; subst. cbn [flstrip].
  destruct (F_space c) eqn:E; [|reflexivity]. apply F_space_U_space in E. congruence.
Qed.

Lemma fstrip_id s : Forall (fun c => U_space c = false) s -> fstrip s = s.
Proof.
  intros F. unfold fstrip. rewrite (flstrip_id s F). rewrite flstrip_id; [apply rev_involutive|]. apply Forall_rev. exact F.
Qed.
