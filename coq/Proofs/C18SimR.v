(* Proofs/C18SimR.v — the CONVERSE direction for pointless statements: a run of the script WITHOUT the statement is a run of the
   script WITH it.  The simulation of Proofs/C18Sim.v again (same relations, same proof), with expression statements allowed on
   the RIGHT only: statements `SExpr None e` whose expression [okr e] always evaluates to a value without changing the world
   once it has D units of fuel.  The right run gets 2f + D fuel (the deleted expression needs fuel of its own: its depth).
   Everything up to [sim_all] is Proofs/C18Sim.v with two more constructors in [drel] and the fuel offset D. *)
From Coq Require Import Lia ZArith.
From BS Require Import Model.Base Model.Num Model.Arith Model.ExprParser Model.Script Model.Interp Model.Lint
     Proofs.InterpEq Proofs.C08 Proofs.C18.
From BS Require Proofs.C18Sim Proofs.Fuel.

Section Ok.
(* [ok = true]: statements lint calls POINTLESS may also be deleted (on the left), and then a run in which the MODEL declines
   (OOracle) counts as undefined like a run out of fuel.  [ok = false]: labels only, the stronger statement. *)
Variable ok : bool.
(* expression statements that may stand on the right only (Section Sim says what is assumed of them) *)
Variable okr : expr -> Prop.

(* ================= renaming: two local names nobody reads ================= *)
(* [xo], [xn]: the old and the new name.  In a function body no expression of which mentions either of them, assignments to one
   may be turned into assignments to the other (and a parameter called one may be called the other). *)
Variables xo xn : str.
Definition ign (y : str) : bool := str_eqb y xo || str_eqb y xn.

Fixpoint mentions_ign (e : expr) : bool :=
  match e with
  | EVar y => ign y
  | ECall n args => ign n || (fix go (l : list expr) : bool := match l with [] => false | a :: t => mentions_ign a || go t end) args
  | EBin _ l r => mentions_ign l || mentions_ign r
  | EUn _ a => mentions_ign a
  | EGroup a => mentions_ign a
  | ENum _ | EStr _ => false
  end.
Definition clean (e : expr) : bool := negb (mentions_ign e).
Definition clean_stmt (s : stmt) : bool :=
  match s with
  | SExpr _ e => clean e
  | SJump _ (Some e) => clean e
  | SReturn (Some e) => clean e
  | _ => true                       (* a nested function statement has its own locals; includes run without locals *)
  end.
Definition cleanc (c : list stmt) : bool := forallb clean_stmt c.

(* locals that agree on every name but the two *)
Definition L (l l' : env) : Prop := forall y, ign y = false -> env_get y l = env_get y l'.
Definition optL (loc loc' : option env) : Prop :=
  match loc, loc' with Some l, Some l' => L l l' | None, None => True | _, _ => False end.
Definition locrel (e : expr) (loc loc' : option env) : Prop := loc = loc' \/ (clean e = true /\ optL loc loc').

(* statements of a renamed body: the same, or assignments of the same expression to two ignorable names *)
Definition rstmt (s s' : stmt) : Prop :=
  s = s' \/ exists y y' e, s = SExpr (Some y) e /\ s' = SExpr (Some y') e /\ ign y = true /\ ign y' = true.
Definition rname (p p' : str) : Prop := p = p' \/ (ign p = true /\ ign p' = true).
Definition rargs (a a' : option (list str)) : Prop :=
  match a, a' with Some l, Some l' => Forall2 rname l l' | None, None => True | _, _ => False end.

Lemma L_refl l : L l l.
Proof. intros y _. reflexivity. Qed.

Lemma env_get_set {A} y k (v : A) l : env_get y (env_set k v l) = if str_eqb y k then Some v else env_get y l.
Proof.
  unfold env_get. induction l as [|[k' v'] t IH]; cbn.
  - destruct (str_eqb y k); reflexivity.
  - destruct (str_eqb k k') eqn:E; cbn.
    + apply str_eqb_eq in E. subst k'. destruct (str_eqb y k); reflexivity.
    + destruct (str_eqb y k') eqn:E2.
      * apply str_eqb_eq in E2. subst k'. rewrite str_eqb_sym, E. reflexivity.
      * exact IH.
Qed.

Lemma L_set_same l l' y v : L l l' -> L (env_set y v l) (env_set y v l').
Proof. intros H z Hz. rewrite !env_get_set. destruct (str_eqb z y); [reflexivity|apply H; exact Hz]. Qed.

Lemma L_set_ign l l' y y' v : L l l' -> ign y = true -> ign y' = true -> L (env_set y v l) (env_set y' v l').
Proof.
  intros H Hy Hy' z Hz. rewrite !env_get_set.
  destruct (str_eqb z y) eqn:E; [apply str_eqb_eq in E; congruence|]. destruct (str_eqb z y') eqn:E'; [apply str_eqb_eq in E'; congruence|].
  apply H. exact Hz.
Qed.

Lemma L_set_r l l' y' v : L l l' -> ign y' = true -> L l (env_set y' v l').
Proof. intros H Hy' z Hz. rewrite env_get_set. destruct (str_eqb z y') eqn:E'; [apply str_eqb_eq in E'; congruence|]. apply H. exact Hz. Qed.

(* ================= related statement lists ================= *)
(* [drel SR used c c']: c and c' are the same list up to (i) SR-related statements and (ii) labels l with [used l = false]
   present on one side only; on the right such a label stands alone (it is followed by a kept statement or the end) *)
Inductive drel (SR : stmt -> stmt -> Prop) (used : str -> bool) : list stmt -> list stmt -> Prop :=
| dr_nil : drel SR used [] []
| dr_keep s s' t t' : SR s s' -> drel SR used t t' -> drel SR used (s :: t) (s' :: t')
| dr_skipl l t t' : used l = false -> drel SR used t t' -> drel SR used (SLabel l :: t) t'
| dr_skipl_pure e t t' : ok = true -> pointless e = true -> drel SR used t t' -> drel SR used (SExpr None e :: t) t'
| dr_skipr_keep l s s' t t' : used l = false -> SR s s' -> drel SR used t t' -> drel SR used (s :: t) (SLabel l :: s' :: t')
| dr_skipr_nil l : used l = false -> drel SR used [] [SLabel l]
| dr_skipr_pure_keep e s s' t t' : okr e -> SR s s' -> drel SR used t t' -> drel SR used (s :: t) (SExpr None e :: s' :: t')
| dr_skipr_pure_nil e : okr e -> drel SR used [] [SExpr None e].

(* every jump of c targets a [used] label *)
Definition covers (used : str -> bool) (c : list stmt) : Prop :=
  forall j l cond, nth_error c j = Some (SJump l cond) -> used l = true.

Definition crel (SR : stmt -> stmt -> Prop) (c c' : list stmt) : Prop := exists used, covers used c /\ drel SR used c c'.

(* function bodies: statements equal, unused labels deleted / added *)
Definition body_rel : list stmt -> list stmt -> Prop := crel eq.
(* statements of a global list: equal, or the same function header over related bodies *)
Definition stmt_rel (s s' : stmt) : Prop :=
  s = s' \/
  (exists n a b c body body', s = SFunction n a b c body /\ s' = SFunction n a b c body' /\ body_rel body body') \/
  (* a renamed function: parameters / assignment targets differ on the two names, which no expression of the body mentions *)
  (exists n a a' b c body body', s = SFunction n a b c body /\ s' = SFunction n a' b c body' /\
     rargs a a' /\ Forall2 rstmt body body' /\ cleanc body = true).
Definition code_rel : list stmt -> list stmt -> Prop := crel stmt_rel.

Lemma drel_mono (SR SR' : stmt -> stmt -> Prop) used : (forall s s', SR s s' -> SR' s s') ->
  forall c c', drel SR used c c' -> drel SR' used c c'.
Proof.
  intros H c c' D.
  induction D; [apply dr_nil|apply dr_keep; auto|apply dr_skipl; auto|apply dr_skipl_pure; auto|apply dr_skipr_keep; auto|apply dr_skipr_nil; auto|apply dr_skipr_pure_keep; auto|apply dr_skipr_pure_nil; auto].
Qed.

Lemma drel_refl (SR : stmt -> stmt -> Prop) used : (forall s, SR s s) -> forall c, drel SR used c c.
Proof. intros H c. induction c; constructor; auto. Qed.

Lemma body_rel_code_rel c c' : body_rel c c' -> code_rel c c'.
Proof. intros (used & Hc & D). exists used. split; [exact Hc|]. eapply drel_mono; [|exact D]. intros s s' ->. left; reflexivity. Qed.

Definition jumps_to (l : str) (c : list stmt) : bool :=
  existsb (fun s => match s with SJump l' _ => str_eqb l' l | _ => false end) c.

Lemma covers_jumps_to c : covers (fun l => jumps_to l c) c.
Proof.
  intros j l cond H. unfold jumps_to. apply existsb_exists. exists (SJump l cond). split; [eapply nth_error_In; exact H|apply str_eqb_refl].
Qed.

Lemma code_rel_refl c : code_rel c c.
Proof. exists (fun l => jumps_to l c). split; [apply covers_jumps_to|]. apply drel_refl. intros s. left; reflexivity. Qed.

(* a kept statement keeps its kind: labels and jumps are literally the same *)
Lemma stmt_rel_label s s' l : stmt_rel s s' -> (s = SLabel l <-> s' = SLabel l).
Proof.
  intros [->|[(n & a & b & c & body & body' & -> & -> & _)|(n & a & a' & b & c & body & body' & -> & -> & _)]];
    [tauto|split; discriminate|split; discriminate].
Qed.

(* ---- positions: [skipn pc c] is what is left to run ---- *)
Lemma nth_error_skipn {A} (c : list A) pc : nth_error c pc = match skipn pc c with [] => None | s :: _ => Some s end.
Proof. revert c. induction pc as [|pc IH]; intros [|x c]; cbn; auto. Qed.

Lemma skipn_S_tl {A} (c : list A) pc : skipn (S pc) c = match skipn pc c with [] => [] | _ :: t => t end.
Proof.
  revert c. induction pc as [|pc IH]; intros [|x c]; try reflexivity.
  change (skipn (S (S pc)) (x :: c)) with (skipn (S pc) c). change (skipn (S pc) (x :: c)) with (skipn pc c). apply IH.
Qed.

(* the label lookup in related lists: both fail, or both succeed at positions whose remainders are related *)
Lemma find_from_rel (SR : stmt -> stmt -> Prop) used l : (forall s s', SR s s' -> (s = SLabel l <-> s' = SLabel l)) -> used l = true ->
  forall t t', drel SR used t t' -> forall i i',
  (find_from l t i = None /\ find_from l t' i' = None) \/
  (exists k k', find_from l t i = Some (i + k) /\ find_from l t' i' = Some (i' + k') /\ drel SR used (skipn (S k) t) (skipn (S k') t')).
Proof.
  intros HSR Hu t t' D. 
  assert (Hne : forall l0, used l0 = false -> str_eqb l0 l = false).
  { intros l0 H0. destruct (str_eqb l0 l) eqn:E; [|reflexivity]. apply str_eqb_eq in E. congruence. }
  assert (Hhead : forall s s' t0 t0' i i', SR s s' ->
     ((find_from l t0 (S i) = None /\ find_from l t0' (S i') = None) \/
      (exists k k', find_from l t0 (S i) = Some (S i + k) /\ find_from l t0' (S i') = Some (S i' + k') /\ drel SR used (skipn (S k) t0) (skipn (S k') t0'))) ->
     drel SR used t0 t0' ->
     (find_from l (s :: t0) i = None /\ find_from l (s' :: t0') i' = None) \/
     (exists k k', find_from l (s :: t0) i = Some (i + k) /\ find_from l (s' :: t0') i' = Some (i' + k') /\
                   drel SR used (skipn (S k) (s :: t0)) (skipn (S k') (s' :: t0')))).
  { intros s s' t0 t0' i i' Hs IH D0.
    assert (Hnext : (forall n, s = SLabel n -> str_eqb n l = false) -> (forall n, s' = SLabel n -> str_eqb n l = false) ->
                    find_from l (s :: t0) i = find_from l t0 (S i) /\ find_from l (s' :: t0') i' = find_from l t0' (S i')).
    { intros H1 H2. split; [destruct s|destruct s']; cbn; try reflexivity; [rewrite (H1 _ eq_refl)|rewrite (H2 _ eq_refl)]; reflexivity. }
    destruct (HSR _ _ Hs) as [H1 H2].
    assert (Hd : s = SLabel l \/ s <> SLabel l).
    { destruct s as [| | |n| |]; try (right; discriminate). destruct (str_eqb n l) eqn:E; [left; apply str_eqb_eq in E; congruence|].
      right. intros H. injection H as ->. rewrite str_eqb_refl in E. discriminate. }
    destruct Hd as [Hd|Hd].
    - right. exists 0, 0. rewrite (H1 Hd), Hd. cbn. rewrite str_eqb_refl, !Nat.add_0_r. auto.
    - destruct Hnext as [E1 E2].
      + intros n ->. destruct (str_eqb n l) eqn:E; [|reflexivity]. apply str_eqb_eq in E. subst. exfalso; apply Hd; reflexivity.
      + intros n ->. destruct (str_eqb n l) eqn:E; [|reflexivity]. apply str_eqb_eq in E. subst. exfalso; apply Hd. apply H2. reflexivity.
      + rewrite E1, E2. destruct IH as [IH|(k & k' & Ha & Hb & Hc)]; [left; exact IH|].
        right. exists (S k), (S k'). rewrite Ha, Hb. split; [f_equal; lia|]. split; [f_equal; lia|]. exact Hc. }
  induction D as [|s s' t t' Hs D IH|l0 t t' H0 D IH|e0 t t' Hok He0 D IH|l0 s s' t t' H0 Hs D IH|l0 H0|e0 s s' t t' He0 Hs D IH|e0 He0]; intros i i'.
  - left. split; reflexivity.
  - apply Hhead; [exact Hs|apply IH|exact D].
  - cbn [find_from]. rewrite (Hne _ H0). destruct (IH (S i) i') as [IH'|(k & k' & Ha & Hb & Hc)]; [left; exact IH'|].
    right. exists (S k), k'. rewrite Ha, Hb. split; [f_equal; lia|]. split; [reflexivity|exact Hc].
  - cbn [find_from]. destruct (IH (S i) i') as [IH'|(k & k' & Ha & Hb & Hc)]; [left; exact IH'|].
    right. exists (S k), k'. rewrite Ha, Hb. split; [f_equal; lia|]. split; [reflexivity|exact Hc].
  - assert (E : find_from l (SLabel l0 :: s' :: t') i' = find_from l (s' :: t') (S i')). { cbn [find_from]. rewrite (Hne _ H0). reflexivity. }
    rewrite E. destruct (Hhead s s' t t' i (S i') Hs (IH (S i) (S (S i'))) D) as [H|(k & k' & Ha & Hb & Hc)]; [left; exact H|].
    right. exists k, (S k'). rewrite Ha, Hb. split; [reflexivity|]. split; [f_equal; lia|exact Hc].
  - left. cbn. rewrite (Hne _ H0). split; reflexivity.
  - assert (E : find_from l (SExpr None e0 :: s' :: t') i' = find_from l (s' :: t') (S i')) by reflexivity.
    rewrite E. destruct (Hhead s s' t t' i (S i') Hs (IH (S i) (S (S i'))) D) as [H|(k & k' & Ha & Hb & Hc)]; [left; exact H|].
    right. exists k, (S k'). rewrite Ha, Hb. split; [reflexivity|]. split; [f_equal; lia|exact Hc].
  - left. cbn. split; reflexivity.
Qed.

Lemma find_label_rel used l c c' : covers used c -> drel stmt_rel used c c' -> used l = true ->
  (find_label l c = None /\ find_label l c' = None) \/
  (exists k k', find_label l c = Some k /\ find_label l c' = Some k' /\ drel stmt_rel used (skipn (S k) c) (skipn (S k') c')).
Proof.
  intros _ D Hu. rewrite !find_label_unfold.
  destruct (find_from_rel stmt_rel used l (fun s s' H => stmt_rel_label s s' l H) Hu c c' D 0 0) as [H|(k & k' & H)]; [left; exact H|right; exists k, k'; exact H].
Qed.

(* ================= related worlds: everything equal except the statement counter and the BODIES of the bound script functions ================= *)
Definition fdrelA (fd fd' : fundef) : Prop :=
  fd_name fd = fd_name fd' /\ fd_args fd = fd_args fd' /\ fd_last fd = fd_last fd' /\ body_rel (fd_body fd) (fd_body fd').
(* ... or a renamed function: parameters and assignment targets differ on the two names only, which no expression of the body mentions *)
Definition fdrelB (fd fd' : fundef) : Prop :=
  fd_name fd = fd_name fd' /\ rargs (fd_args fd) (fd_args fd') /\ fd_last fd = fd_last fd' /\
  Forall2 rstmt (fd_body fd) (fd_body fd') /\ cleanc (fd_body fd) = true.
Definition fdrel (fd fd' : fundef) : Prop := fdrelA fd fd' \/ fdrelB fd fd'.

Definition wrel (w w' : world) : Prop :=
  w_globals w = w_globals w' /\ w_arrs w = w_arrs w' /\ w_objs w = w_objs w' /\ w_log w = w_log w' /\ w_fetched w = w_fetched w' /\
  Forall2 fdrel (w_funs w) (w_funs w').

Ltac wr H := let g := fresh in let a := fresh in let o := fresh in let l := fresh in let ft := fresh in let fu := fresh "Hfuns" in
  destruct H as (g & a & o & l & ft & fu).

Lemma wrel_count w w' z z' : wrel w w' -> wrel (upd_count w z) (upd_count w' z').
Proof. intros (Hg & Ha & Ho & Hl & Hft & Hfu). repeat split; assumption. Qed.
Lemma wrel_count_l w w' z : wrel w w' -> wrel (upd_count w z) w'.
Proof. intros (Hg & Ha & Ho & Hl & Hft & Hfu). repeat split; assumption. Qed.
Lemma wrel_count_r w w' z : wrel w w' -> wrel w (upd_count w' z).
Proof. intros (Hg & Ha & Ho & Hl & Hft & Hfu). repeat split; assumption. Qed.
Lemma wrel_add_log w w' s : wrel w w' -> wrel (add_log w s) (add_log w' s).
Proof. intros (Hg & Ha & Ho & Hl & Hft & Hfu). repeat split; try assumption. cbn. congruence. Qed.
Lemma wrel_log_if cfg b w w' s : wrel w w' -> wrel (log_if cfg b w s) (log_if cfg b w' s).
Proof. intros H. unfold log_if. destruct (b && c_haslog cfg)%bool; [apply wrel_add_log|]; exact H. Qed.
Lemma wrel_add_fetched w w' s : wrel w w' -> wrel (add_fetched w s) (add_fetched w' s).
Proof. intros (Hg & Ha & Ho & Hl & Hft & Hfu). repeat split; try assumption. cbn. congruence. Qed.
Lemma wrel_set_global w w' x v : wrel w w' -> wrel (upd_globals w (env_set x v (w_globals w))) (upd_globals w' (env_set x v (w_globals w'))).
Proof. intros (Hg & Ha & Ho & Hl & Hft & Hfu). repeat split; try assumption. cbn. congruence. Qed.
Lemma wrel_alloc_arr w w' l : wrel w w' -> fst (alloc_arr w l) = fst (alloc_arr w' l) /\ wrel (snd (alloc_arr w l)) (snd (alloc_arr w' l)).
Proof. intros (Hg & Ha & Ho & Hl & Hft & Hfu). unfold alloc_arr. cbn. rewrite Ha. split; [reflexivity|]. repeat split; assumption. Qed.

Lemma truthy_rel w w' v : wrel w w' -> truthy w v = truthy w' v.
Proof. intros (Hg & Ha & Ho & Hl & Hft & Hfu). destruct v; cbn; try reflexivity. rewrite Ha. reflexivity. Qed.
Lemma lookup_var_rel x loc w w' : wrel w w' -> lookup_var x loc w = lookup_var x loc w'.
Proof. intros (Hg & Ha & Ho & Hl & Hft & Hfu). unfold lookup_var. rewrite Hg. reflexivity. Qed.
Lemma lookup_fn_rel n loc bi w w' : wrel w w' -> lookup_fn n loc bi w = lookup_fn n loc bi w'.
Proof. intros (Hg & Ha & Ho & Hl & Hft & Hfu). unfold lookup_fn. rewrite Hg. reflexivity. Qed.
Lemma unop_rel op w w' v : wrel w w' -> unop op w v = unop op w' v.
Proof. intros H. unfold unop. rewrite (truthy_rel _ _ _ H). reflexivity. Qed.

Lemma vcompare_rel w w' : w_arrs w = w_arrs w' -> w_objs w = w_objs w' -> forall fuel a b, vcompare fuel w a b = vcompare fuel w' a b.
Proof.
  intros Ha Ho. induction fuel as [|f IH]; intros a b; [reflexivity|]. cbn [vcompare]. rewrite <- Ha, <- Ho.
  destruct a, b; try reflexivity.
  - destruct (nth_error (w_arrs w) l) as [lx|]; [|reflexivity]. destruct (nth_error (w_arrs w) l0) as [ly|]; [|reflexivity].
    revert ly. induction lx as [|p lx IHl]; intros [|q ly]; try reflexivity. rewrite IH. destruct (vcompare f w' p q) as [[]|]; try reflexivity. apply IHl.
  - destruct (nth_error (w_objs w) l) as [lx|]; [|reflexivity]. destruct (nth_error (w_objs w) l0) as [ly|]; [|reflexivity].
    generalize (sort_kv lx) (sort_kv ly). clear lx ly. intros lx. induction lx as [|[k1 p] lx IHl]; intros [|[k2 q] ly]; try reflexivity.
    destruct (str_compare k1 k2); try reflexivity. rewrite IH. destruct (vcompare f w' p q) as [[]|]; try reflexivity. apply IHl.
Qed.

Lemma relop_rel w w' a b t : wrel w w' -> relop w a b t = relop w' a b t.
Proof. intros (Hg & Ha & Ho & Hl & Hft & Hfu). unfold relop, cmp_fuel. rewrite (vcompare_rel w w') by assumption. rewrite Ha, Ho. reflexivity. Qed.

Lemma binop_rel op w w' a b : wrel w w' -> binop op w a b = binop op w' a b.
Proof.
  intros H. unfold binop.
  repeat match goal with |- context [if ?c then _ else _] => destruct c end; try reflexivity; apply relop_rel; exact H.
Qed.

Lemma bind_args_rel : forall names n ix last args w w' acc, wrel w w' ->
  fst (bind_args names n ix last args w acc) = fst (bind_args names n ix last args w' acc) /\
  wrel (snd (bind_args names n ix last args w acc)) (snd (bind_args names n ix last args w' acc)).
Proof.
  induction names as [|name rest IH]; intros n ix last args w w' acc H; cbn [bind_args]; [split; [reflexivity|exact H]|].
  destruct (Nat.ltb ix (length args)); destruct (last && Nat.eqb ix (n - 1))%bool.
  - destruct (wrel_alloc_arr w w' (skipn ix args) H) as [E R]. destruct (alloc_arr w (skipn ix args)) as [v w1], (alloc_arr w' (skipn ix args)) as [v' w1'].
    cbn in E, R. subst v'. apply IH. exact R.
  - apply IH. exact H.
  - destruct (wrel_alloc_arr w w' [] H) as [E R]. destruct (alloc_arr w []) as [v w1], (alloc_arr w' []) as [v' w1'].
    cbn in E, R. subst v'. apply IH. exact R.
  - apply IH. exact H.
Qed.

(* ================= "the left run, if it finishes within its fuel, is what the right run does" ================= *)
(* the left run tells nothing: it ran out of fuel, or (ok = true only) the model declined *)
Definition undef (o : outcome) : Prop := o = OFuel \/ (ok = true /\ o = OOracle).
Definition undefL (r : Interp.lres) : Prop := r = LFuel \/ (ok = true /\ r = LOracle).
Definition Sim2 (r r' : outcome * world) : Prop := undef (fst r) \/ (fst r' = fst r /\ wrel (snd r) (snd r')).
Definition Sim3 (r r' : xres) : Prop :=
  undef (fst (fst r)) \/ (fst (fst r') = fst (fst r) /\ snd (fst r') = snd (fst r) /\ wrel (snd r) (snd r')).
Definition SimL (r r' : Interp.lres * world) : Prop := undefL (fst r) \/ (fst r' = fst r /\ wrel (snd r) (snd r')).
Definition SimA (r r' : (outcome + list value) * world) : Prop :=
  (exists o, fst r = inl o /\ undef o) \/ (fst r' = fst r /\ wrel (snd r) (snd r')).
Definition SimI (r r' : option outcome * world) : Prop :=
  (exists o, fst r = Some o /\ undef o) \/ (fst r' = fst r /\ wrel (snd r) (snd r')).

Definition evsim (a b : evalT) : Prop :=
  forall e loc loc' bi um w w', wrel w w' -> locrel e loc loc' -> Sim2 (a e loc bi um w) (b e loc' bi um w').
Definition clsim (a b : callT) : Prop := forall fv x um w w', wrel w w' -> Sim2 (a fv x um w) (b fv x um w').
Definition exsim (a b : execT) : Prop :=
  forall used c c' pc pc' cache cache' loc um w w',
    covers used c -> drel stmt_rel used c c' -> drel stmt_rel used (skipn pc c) (skipn pc' c') ->
    cache_ok c cache -> cache_ok c' cache' -> wrel w w' ->
    Sim3 (a c pc cache loc um w) (b c' pc' cache' loc um w').

(* a renamed body: same positions, locals agree off the two names; the final locals are not compared (nobody reads them) *)
Definition Sim3B (r r' : xres) : Prop := undef (fst (fst r)) \/ (fst (fst r') = fst (fst r) /\ wrel (snd r) (snd r')).
Definition exsimB (a b : execT) : Prop :=
  forall c c' pc cache cache' l l' um w w',
    Forall2 rstmt c c' -> cleanc c = true -> L l l' ->
    cache_ok c cache -> cache_ok c' cache' -> wrel w w' ->
    Sim3B (a c pc cache (Some l) um w) (b c' pc cache' (Some l') um w').

Lemma evsim_same a b : evsim a b -> forall e loc bi um w w', wrel w w' -> Sim2 (a e loc bi um w) (b e loc bi um w').
Proof. intros H e loc bi um w w' Hw. apply H; [exact Hw|left; reflexivity]. Qed.

Lemma Forall2_nth_l {A B} (R : A -> B -> Prop) l l' : Forall2 R l l' -> forall i x, nth_error l i = Some x -> exists y, nth_error l' i = Some y /\ R x y.
Proof.
  intros F. induction F as [|a b t t' Hab F IH]; intros i x H; [destruct i; discriminate|].
  destruct i as [|i]; cbn in *; [injection H as <-; eauto|apply IH; exact H].
Qed.

Lemma Forall2_len {A B} (R : A -> B -> Prop) l l' : Forall2 R l l' -> length l = length l'.
Proof. intros F. induction F; cbn; congruence. Qed.

Section Sim.
Variable cfg : config.
Variable lib : caller -> str -> list value -> world -> Interp.lres * world.
Variable url_rel : str -> str -> str.
Variable lint_lines : script -> list str.

(* unlimited budget: deleting a statement changes statementCount, so the two runs are compared where the counter is not observed *)
Hypothesis Hmax : c_max cfg = 0%Z.

(* PREMISE on the library: it treats the function table and the statement counter as opaque — given related worlds and
   callbacks that preserve the relation it returns the same result in related worlds (and passes "out of fuel" on) *)
Definition lib_sim : Prop :=
  forall (cb cb' : caller), (forall fv a w w', wrel w w' -> Sim2 (cb fv a w) (cb' fv a w')) ->
  forall name args w w', wrel w w' -> SimL (lib cb name args w) (lib cb' name args w').
Hypothesis Hlib : lib_sim.

(* what is assumed of the right-only expression statements: with DR units of fuel the expression evaluates to a value and
   leaves the world as it is, whatever the locals / the world *)
Variable DR : nat.
Hypothesis Hokr : forall e, okr e -> forall f loc bi um w, DR <= f ->
  exists v, Interp.eval cfg lib url_rel lint_lines f e loc bi um w = (OVal v, w).

(* run the sub-computation [t] (left) / its counterpart: either the left one ran out of fuel (done), or both agree *)
Ltac undef_close := first
  [ left; left; reflexivity
  | left; right; split; [assumption|reflexivity]
  | left; eexists; split; [reflexivity|left; reflexivity]
  | left; eexists; split; [reflexivity|right; split; [assumption|reflexivity]] ].

Ltac sub H :=
  let Hf := fresh "Hf" in let Hk := fresh "Hk" in let Ho := fresh "Ho" in let Hr := fresh "Hr" in
  let o1 := fresh "ou" in let w1 := fresh "wu" in
  destruct H as [[Hf|[Hk Hf]]|[Ho Hr]];
  [ match type of Hf with fst ?t = _ => destruct t as [o1 w1] end; cbn [fst snd] in Hf; subst o1; cbn; try undef_close
  | match type of Hf with fst ?t = _ => destruct t as [o1 w1] end; cbn [fst snd] in Hf; subst o1; cbn; try undef_close
  | match type of Ho with fst ?t' = fst ?t => destruct t as [? ?], t' as [? ?] end; cbn [fst snd] in Ho, Hr; subst ].

Lemma lookup_var_locrel x loc loc' w w' : wrel w w' -> locrel (EVar x) loc loc' -> lookup_var x loc w = lookup_var x loc' w'.
Proof.
  intros Hw [->|[Hc HL]]; [apply lookup_var_rel; exact Hw|].
  rewrite <- (lookup_var_rel x loc' w w' Hw). unfold lookup_var. unfold clean in Hc. cbn in Hc. apply Bool.negb_true_iff in Hc.
  destruct loc as [l|], loc' as [l'|]; cbn in HL; try contradiction; [|reflexivity]. rewrite (HL x Hc). reflexivity.
Qed.

Lemma lookup_fn_locrel n args loc loc' bi w w' : wrel w w' -> locrel (ECall n args) loc loc' -> lookup_fn n loc bi w = lookup_fn n loc' bi w'.
Proof.
  intros Hw [->|[Hc HL]]; [apply lookup_fn_rel; exact Hw|].
  rewrite <- (lookup_fn_rel n loc' bi w w' Hw). unfold lookup_fn. unfold clean in Hc. cbn in Hc. apply Bool.negb_true_iff in Hc.
  apply Bool.orb_false_iff in Hc. destruct Hc as [Hc _].
  destruct loc as [l|], loc' as [l'|]; cbn in HL; try contradiction; [|reflexivity]. rewrite (HL n Hc). reflexivity.
Qed.

(* the relation on locals passes to sub-expressions *)
Lemma locrel_sub e e' loc loc' : (clean e = true -> clean e' = true) -> locrel e loc loc' -> locrel e' loc loc'.
Proof. intros H [->|[Hc HL]]; [left; reflexivity|right; auto]. Qed.

Lemma clean_bin op l r : clean (EBin op l r) = true -> clean l = true /\ clean r = true.
Proof. unfold clean. cbn. intros H. apply Bool.negb_true_iff in H. apply Bool.orb_false_iff in H. destruct H as [-> ->]. auto. Qed.

Lemma clean_call_arg n args a : In a args -> clean (ECall n args) = true -> clean a = true.
Proof.
  unfold clean. cbn. intros Hin H. apply Bool.negb_true_iff in H. apply Bool.orb_false_iff in H. destruct H as [_ H].
  induction args as [|x t IH]; [destruct Hin|]. apply Bool.orb_false_iff in H. destruct H as [Hx Ht].
  destruct Hin as [->|Hin]; [rewrite Hx; reflexivity|apply IH; assumption].
Qed.

Lemma eval_args_sim ev ev' loc loc' bi um : evsim ev ev' ->
  forall l w w' acc, wrel w w' -> (forall a, In a l -> locrel a loc loc') ->
  SimA (eval_args ev loc bi um l w acc) (eval_args ev' loc' bi um l w' acc).
Proof.
  intros Hev. induction l as [|a t IH]; intros w w' acc Hw Hl; cbn [eval_args]; [right; split; [reflexivity|exact Hw]|].
  pose proof (Hev a loc loc' bi um w w' Hw (Hl a (or_introl eq_refl))) as H. sub H.
  destruct o; try (right; split; [reflexivity|exact Hr]); try (left; reflexivity). apply IH; [exact Hr|]. intros a0 H0. apply Hl. right; exact H0.
Qed.

Lemma eval_body_sim ev ev' cl cl' : evsim ev ev' -> clsim cl cl' -> evsim (eval_body cfg ev cl) (eval_body cfg ev' cl').
Proof.
  intros Hev Hcl e loc loc' bi um w w' Hw HL. destruct e as [n|s|x|name args|op l r|op e1|e1]; cbn [eval_body].
  - right. split; [reflexivity|exact Hw].
  - right. split; [reflexivity|exact Hw].
  - right. cbn. rewrite (lookup_var_locrel _ _ _ _ _ Hw HL). split; [reflexivity|exact Hw].
  - (* ECall *)
    assert (Harg : forall a, In a args -> locrel a loc loc') by (intros a Ha; eapply locrel_sub; [apply (clean_call_arg name args a Ha)|exact HL]).
    destruct (op_is name "if").
    + cbv zeta.
      assert (Hn : forall k re, nth_error args k = Some re -> locrel re loc loc') by (intros k re Hk; apply Harg; eapply nth_error_In; exact Hk).
      destruct (nth_error args 0) as [ve|] eqn:E0.
      * pose proof (Hev ve loc loc' bi um w w' Hw (Hn _ _ E0)) as H. sub H.
        destruct o; try (right; split; [reflexivity|exact Hr]); try (left; reflexivity).
        rewrite (truthy_rel _ _ v Hr).
        destruct (if truthy w1 v then nth_error args 1 else nth_error args 2) as [re|] eqn:Er; [|right; split; [reflexivity|exact Hr]].
        apply Hev; [exact Hr|]. destruct (truthy w1 v); eapply Hn; exact Er.
      * rewrite (truthy_rel _ _ (VBool false) Hw).
        destruct (if truthy w' (VBool false) then nth_error args 1 else nth_error args 2) as [re|] eqn:Er; [|right; split; [reflexivity|exact Hw]].
        apply Hev; [exact Hw|]. destruct (truthy w' (VBool false)); eapply Hn; exact Er.
    + pose proof (eval_args_sim ev ev' loc loc' bi um Hev args w w' [] Hw Harg) as H.
      destruct H as [(ou & Hf & Hu)|[Ho Hr]].
      { destruct (eval_args ev loc bi um args w []) as [r1 wu]. cbn in Hf. subst r1. left. exact Hu. }
      destruct (eval_args ev loc bi um args w []) as [s w0], (eval_args ev' loc' bi um args w' []) as [s' w1]. cbn [fst snd] in Ho, Hr. subst s'.
      destruct s as [o|vs]; [right; split; [reflexivity|exact Hr]|].
      rewrite (lookup_fn_locrel _ _ _ _ _ _ _ Hr HL). destruct (lookup_fn name loc' bi w1) as [fv|]; [|right; split; [reflexivity|exact Hr]].
      assert (Hc : Sim2 (match cl fv vs um w0 with (OExc ret msg, w2) => (OVal ret, log_if cfg (c_debug cfg) w2 (msg_fn_failed name msg)) | other => other end)
                        (match cl' fv vs um w1 with (OExc ret msg, w2) => (OVal ret, log_if cfg (c_debug cfg) w2 (msg_fn_failed name msg)) | other => other end)).
      { pose proof (Hcl fv vs um w0 w1 Hr) as H. sub H.
        destruct o; try (left; reflexivity); right; (split; [reflexivity|]); try exact Hr0. apply wrel_log_if. exact Hr0. }
      destruct fv; try exact Hc. right. split; [reflexivity|exact Hr].
  - (* EBin *)
    assert (Hl : locrel l loc loc') by (eapply locrel_sub; [|exact HL]; intros H0; apply (clean_bin _ _ _ H0)).
    assert (Hrr : locrel r loc loc') by (eapply locrel_sub; [|exact HL]; intros H0; apply (clean_bin _ _ _ H0)).
    pose proof (Hev l loc loc' bi um w w' Hw Hl) as H. sub H.
    destruct o; try (right; split; [reflexivity|exact Hr]); try (left; reflexivity).
    rewrite (truthy_rel _ _ v Hr).
    destruct (op_is op "&&"). { destruct (truthy w1 v); [apply Hev; assumption|right; split; [reflexivity|exact Hr]]. }
    destruct (op_is op "||"). { destruct (truthy w1 v); [right; split; [reflexivity|exact Hr]|apply Hev; assumption]. }
    pose proof (Hev r loc loc' bi um w0 w1 Hr Hrr) as H. sub H.
    destruct o; try (right; split; [reflexivity|exact Hr0]); try (left; reflexivity).
    right. cbn. rewrite (binop_rel _ _ _ _ _ Hr0). split; [reflexivity|exact Hr0].
  - (* EUn *)
    assert (H1 : locrel e1 loc loc') by (eapply locrel_sub; [|exact HL]; intros H0; exact H0).
    pose proof (Hev e1 loc loc' bi um w w' Hw H1) as H. sub H.
    destruct o; try (right; split; [reflexivity|exact Hr]); try (left; reflexivity).
    right. cbn. rewrite (unop_rel _ _ _ _ Hr). split; [reflexivity|exact Hr].
  - apply Hev; [exact Hw|]. eapply locrel_sub; [|exact HL]. intros H0; exact H0.
Qed.

Lemma bind_args_L : forall names names', Forall2 rname names names' ->
  forall n ix last args w w' acc acc', wrel w w' -> L acc acc' ->
  L (fst (bind_args names n ix last args w acc)) (fst (bind_args names' n ix last args w' acc')) /\
  wrel (snd (bind_args names n ix last args w acc)) (snd (bind_args names' n ix last args w' acc')).
Proof.
  intros names names' F. induction F as [|p p' t t' Hp F IH]; intros n ix last args w w' acc acc' Hw HL; cbn [bind_args]; [split; assumption|].
  assert (Hset : forall v, L (env_set p v acc) (env_set p' v acc')).
  { intros v. destruct Hp as [->|[H1 H2]]; [apply L_set_same; exact HL|apply L_set_ign; assumption]. }
  destruct (Nat.ltb ix (length args)); destruct (last && Nat.eqb ix (n - 1))%bool.
  - destruct (wrel_alloc_arr w w' (skipn ix args) Hw) as [E R]. destruct (alloc_arr w (skipn ix args)) as [v w1], (alloc_arr w' (skipn ix args)) as [v' w1'].
    cbn in E, R. subst v'. apply IH; [exact R|apply Hset].
  - apply IH; [exact Hw|apply Hset].
  - destruct (wrel_alloc_arr w w' [] Hw) as [E R]. destruct (alloc_arr w []) as [v w1], (alloc_arr w' []) as [v' w1'].
    cbn in E, R. subst v'. apply IH; [exact R|apply Hset].
  - apply IH; [exact Hw|apply Hset].
Qed.

Lemma call_body_sim cl cl' ex ex' : clsim cl cl' -> exsim ex ex' -> exsimB ex ex' -> clsim (call_body lib cl ex) (call_body lib cl' ex').
Proof.
  intros Hcl Hex HexB fv a um w w' Hw. unfold call_body. destruct fv as [ |b|n|s|us|l|l|f|id]; try (right; split; [reflexivity|exact Hw]).
  destruct f as [name|id].
  - pose proof (Hlib (fun fv' args' w0 => cl fv' args' um w0) (fun fv' args' w0 => cl' fv' args' um w0)
                     (fun fv' a' w0 w0' H0 => Hcl fv' a' um w0 w0' H0) name a w w' Hw) as H.
    destruct H as [Hf|[Ho Hr]].
    + destruct (lib _ name a w) as [r w1]. cbn in Hf. destruct Hf as [->|[Hk ->]]; [left; left; reflexivity|left; right; split; [exact Hk|reflexivity]].
    + destruct (lib (fun fv' args' w0 => cl fv' args' um w0) name a w) as [r w1],
               (lib (fun fv' args' w0 => cl' fv' args' um w0) name a w') as [r' w1']. cbn in Ho, Hr. subst r'.
      destruct r; right; (split; [reflexivity|exact Hr]).
  - assert (Hfuns : Forall2 fdrel (w_funs w) (w_funs w')) by apply Hw.
    destruct (nth_error (w_funs w) id) as [fd|] eqn:E.
    + destruct (Forall2_nth_l _ _ _ Hfuns _ _ E) as (fd' & E' & [(Hn & Ha & Hl & Hb)|(Hn & Ha & Hl & Hb & Hcl0)]); rewrite E'.
      * (* same header, bodies related by deleted labels *)
        rewrite <- Ha, <- Hl.
        assert (Hbind : exists locals w1 w1',
           match fd_args fd with Some names => bind_args names (length names) 0 (fd_last fd) a w [] | None => ([], w) end = (locals, w1) /\
           match fd_args fd with Some names => bind_args names (length names) 0 (fd_last fd) a w' [] | None => ([], w') end = (locals, w1') /\ wrel w1 w1').
        { destruct (fd_args fd) as [names|]; [|exists [], w, w'; auto].
          destruct (bind_args_rel names (length names) 0 (fd_last fd) a w w' [] Hw) as [E1 R].
          destruct (bind_args names (length names) 0 (fd_last fd) a w []) as [lc w1], (bind_args names (length names) 0 (fd_last fd) a w' []) as [lc' w1'].
          cbn in E1, R. subst lc'. exists lc, w1, w1'. auto. }
        destruct Hbind as (locals & w1 & w1' & -> & -> & R).
        destruct Hb as (used & Hcov & D). apply (drel_mono eq stmt_rel) in D; [|intros s0 s0' ->; left; reflexivity].
        pose proof (Hex used (fd_body fd) (fd_body fd') 0 0 [] [] (Some locals) um w1 w1' Hcov D D (cache_ok_nil _) (cache_ok_nil _) R) as H.
        destruct H as [Hf|(Ho & _ & Hr)].
        -- destruct (ex (fd_body fd) 0 [] (Some locals) um w1) as [[o l1] w2]. cbn in Hf. left. exact Hf.
        -- destruct (ex (fd_body fd) 0 [] (Some locals) um w1) as [[o l1] w2], (ex' (fd_body fd') 0 [] (Some locals) um w1') as [[o' l1'] w2'].
           cbn in Ho, Hr. subst o'. right. split; [reflexivity|exact Hr].
      * (* a renamed function *)
        rewrite <- Hl.
        assert (Hbind : exists lc lc' w1 w1',
           match fd_args fd with Some names => bind_args names (length names) 0 (fd_last fd) a w [] | None => ([], w) end = (lc, w1) /\
           match fd_args fd' with Some names => bind_args names (length names) 0 (fd_last fd) a w' [] | None => ([], w') end = (lc', w1') /\
           L lc lc' /\ wrel w1 w1').
        { unfold rargs in Ha. destruct (fd_args fd) as [names|], (fd_args fd') as [names'|]; try contradiction.
          - rewrite <- (Forall2_len _ _ _ Ha).
            destruct (bind_args_L names names' Ha (length names) 0 (fd_last fd) a w w' [] [] Hw (L_refl [])) as [E1 R].
            destruct (bind_args names (length names) 0 (fd_last fd) a w []) as [lc w1], (bind_args names' (length names) 0 (fd_last fd) a w' []) as [lc' w1'].
            exists lc, lc', w1, w1'. auto.
          - exists [], [], w, w'. split; [reflexivity|split; [reflexivity|split; [apply L_refl|exact Hw]]]. }
        destruct Hbind as (lc & lc' & w1 & w1' & -> & -> & HL & R).
        pose proof (HexB (fd_body fd) (fd_body fd') 0 [] [] lc lc' um w1 w1' Hb Hcl0 HL (cache_ok_nil _) (cache_ok_nil _) R) as H.
        destruct H as [Hf|(Ho & Hr)].
        -- destruct (ex (fd_body fd) 0 [] (Some lc) um w1) as [[o l1] w2]. cbn in Hf. left. exact Hf.
        -- destruct (ex (fd_body fd) 0 [] (Some lc) um w1) as [[o l1] w2], (ex' (fd_body fd') 0 [] (Some lc') um w1') as [[o' l1'] w2'].
           cbn in Ho, Hr. subst o'. right. split; [reflexivity|exact Hr].
    + assert (E' : nth_error (w_funs w') id = None).
      { apply nth_error_None. apply nth_error_None in E. rewrite <- (Forall2_len _ _ _ Hfuns). exact E. }
      rewrite E'. right. split; [reflexivity|exact Hw].
Qed.

Lemma wrel_fold_log : forall ws w w', wrel w w' ->
  wrel (fold_left (fun acc s => add_log acc (U "BareScript:     " ++ s)) ws w) (fold_left (fun acc s => add_log acc (U "BareScript:     " ++ s)) ws w').
Proof. induction ws as [|s t IH]; intros w w' H; cbn; [exact H|]. apply IH. apply wrel_add_log. exact H. Qed.

Lemma run_incs_sim ex ex' um : exsim ex ex' ->
  forall l w w', wrel w w' -> SimI (run_incs cfg url_rel lint_lines ex um l w) (run_incs cfg url_rel lint_lines ex' um l w').
Proof.
  intros Hex. induction l as [|[u sys] t IH]; intros w w' Hw; cbn [run_incs]; [right; split; [reflexivity|exact Hw]|].
  set (url := match sys, c_sysprefix cfg with true, Some p => url_rel p u | _, _ => if has_urlfn cfg um then apply_urlfn cfg url_rel um u else u end).
  assert (Hf : exists text w1 w1', (match c_fetch cfg with Some fetch => (fetch url, add_fetched w url) | None => (None, w) end) = (text, w1) /\
                                   (match c_fetch cfg with Some fetch => (fetch url, add_fetched w' url) | None => (None, w') end) = (text, w1') /\ wrel w1 w1').
  { destruct (c_fetch cfg) as [fetch|]; [exists (fetch url), (add_fetched w url), (add_fetched w' url)|exists None, w, w'];
      (split; [reflexivity|split; [reflexivity|]]); [apply wrel_add_fetched|]; exact Hw. }
  destruct Hf as (text & w1 & w1' & -> & -> & R1).
  destruct text as [txt|]; [|right; split; [reflexivity|exact R1]].
  destruct (parse_script [txt] 1) as [sc|pe|what|]; try (right; split; [reflexivity|exact R1]).
  set (w2 := if (c_debug cfg && c_haslog cfg)%bool then _ else w1). set (w2' := if (c_debug cfg && c_haslog cfg)%bool then _ else w1').
  assert (R2 : wrel w2 w2').
  { subst w2 w2'. destruct (c_debug cfg && c_haslog cfg)%bool; [|exact R1]. destruct (lint_lines sc); [exact R1|].
    apply wrel_fold_log. apply wrel_add_log. exact R1. }
  clearbody w2 w2'.
  pose proof (Hex (fun l0 => jumps_to l0 sc) sc sc 0 0 [] [] None (UBase url) w2 w2' (covers_jumps_to sc)
                  (drel_refl _ _ (fun s0 => or_introl eq_refl) sc) (drel_refl _ _ (fun s0 => or_introl eq_refl) sc)
                  (cache_ok_nil _) (cache_ok_nil _) R2) as H.
  destruct H as [Hf|(Ho & _ & Hr)].
  - destruct (ex sc 0 [] None (UBase url) w2) as [[o l1] w3]. cbn in Hf. left. exists o.
    destruct Hf as [->|[Hk ->]]; (split; [reflexivity|]); [left; reflexivity|right; split; [exact Hk|reflexivity]].
  - destruct (ex sc 0 [] None (UBase url) w2) as [[o l1] w3], (ex' sc 0 [] None (UBase url) w2') as [[o' l1'] w3'].
    cbn in Ho, Hr. subst o'. destruct o; try (right; split; [reflexivity|exact Hr]). apply IH. exact Hr.
Qed.

(* one step of the statement loop on two related statements that are both kept *)
Lemma exec_body_keep ev ev' ex ex' : evsim ev ev' -> exsim ex ex' ->
  forall used c c' pc pc' cache cache' loc um w w' s s' t t',
    covers used c -> drel stmt_rel used c c' ->
    skipn pc c = s :: t -> skipn pc' c' = s' :: t' -> stmt_rel s s' -> drel stmt_rel used t t' ->
    cache_ok c cache -> cache_ok c' cache' -> wrel w w' ->
    Sim3 (exec_body cfg url_rel lint_lines ev ex c pc cache loc um w) (exec_body cfg url_rel lint_lines ev' ex' c' pc' cache' loc um w').
Proof.
  intros Hev Hex used c c' pc pc' cache cache' loc um w w' s s' t t' Hcov D Es Es' Hs Dt Hc Hc' Hw.
  assert (Hn : nth_error c pc = Some s) by (rewrite nth_error_skipn, Es; reflexivity).
  assert (Hn' : nth_error c' pc' = Some s') by (rewrite nth_error_skipn, Es'; reflexivity).
  assert (Dnext : drel stmt_rel used (skipn (S pc) c) (skipn (S pc') c')) by (rewrite !skipn_S_tl, Es, Es'; exact Dt).
  unfold exec_body. rewrite Hn, Hn', Hmax. cbn [andb Z.ltb Z.compare]. cbv zeta.
  set (w0 := upd_count w (w_count w + 1)). set (w0' := upd_count w' (w_count w' + 1)).
  assert (R0 : wrel w0 w0') by (apply wrel_count; exact Hw). clearbody w0 w0'.
  destruct Hs as [<-|[(n & a & b & cc & body & body' & -> & -> & Hb)|(n & a & a' & b & cc & body & body' & -> & -> & Ha & Hb & Hcb)]].
  - destruct s as [name e|label cond|re|lname|fname fargs fasync flast fbody|incs].
    + (* SExpr *)
      pose proof (evsim_same _ _ Hev e loc false um w0 w0' R0) as H. sub H.
      destruct o; try (right; split; [reflexivity|split; [reflexivity|exact Hr]]); try (left; reflexivity).
      destruct name as [x|]; [destruct loc as [lc|]|]; apply (Hex used); auto. apply wrel_set_global. exact Hr.
    + (* SJump *)
      assert (Hu : used label = true) by (eapply Hcov; exact Hn).
      assert (Hj : forall w1 w1', wrel w1 w1' -> Sim3
        (match assoc label cache with
         | Some ix => ex c (S ix) cache loc um w1
         | None => match find_label label c with
                   | Some ix => ex c (S ix) ((label, ix) :: cache) loc um w1
                   | None => (ORt (msg_unknown_label label), loc, w1) end end)
        (match assoc label cache' with
         | Some ix => ex' c' (S ix) cache' loc um w1'
         | None => match find_label label c' with
                   | Some ix => ex' c' (S ix) ((label, ix) :: cache') loc um w1'
                   | None => (ORt (msg_unknown_label label), loc, w1') end end)).
      { intros w1 w1' R1. destruct (find_label_rel used label c c' Hcov D Hu) as [[E E']|(k & k' & E & E' & Dk)].
        - destruct (assoc label cache) as [ix|] eqn:Ea; [rewrite (Hc _ _ Ea) in E; discriminate|].
          destruct (assoc label cache') as [ix'|] eqn:Ea'; [rewrite (Hc' _ _ Ea') in E'; discriminate|].
          rewrite E, E'. right; split; [reflexivity|split; [reflexivity|exact R1]].
        - assert (Hl : exists kc, (kc = cache \/ kc = (label, k) :: cache) /\
            match assoc label cache with Some ix => ex c (S ix) cache loc um w1
            | None => match find_label label c with Some ix => ex c (S ix) ((label, ix) :: cache) loc um w1 | None => (ORt (msg_unknown_label label), loc, w1) end end
            = ex c (S k) kc loc um w1).
          { destruct (assoc label cache) as [ix|] eqn:Ea.
            - rewrite (Hc _ _ Ea) in E. injection E as ->. exists cache. auto.
            - rewrite E. exists ((label, k) :: cache). auto. }
          assert (Hl' : exists kc', (kc' = cache' \/ kc' = (label, k') :: cache') /\
            match assoc label cache' with Some ix => ex' c' (S ix) cache' loc um w1'
            | None => match find_label label c' with Some ix => ex' c' (S ix) ((label, ix) :: cache') loc um w1' | None => (ORt (msg_unknown_label label), loc, w1') end end
            = ex' c' (S k') kc' loc um w1').
          { destruct (assoc label cache') as [ix|] eqn:Ea.
            - rewrite (Hc' _ _ Ea) in E'. injection E' as ->. exists cache'. auto.
            - rewrite E'. exists ((label, k') :: cache'). auto. }
          destruct Hl as (kc & Hkc & ->), Hl' as (kc' & Hkc' & ->). apply (Hex used); auto.
          + destruct Hkc as [->| ->]; [exact Hc|apply cache_ok_cons; assumption].
          + destruct Hkc' as [->| ->]; [exact Hc'|apply cache_ok_cons; assumption]. }
      destruct cond as [cnd|]; [|apply Hj; exact R0].
      pose proof (evsim_same _ _ Hev cnd loc false um w0 w0' R0) as H. sub H.
      destruct o; try (right; split; [reflexivity|split; [reflexivity|exact Hr]]); try (left; reflexivity).
      cbv beta iota. rewrite (truthy_rel _ _ v Hr). destruct (truthy w2 v); cbv beta iota; [apply Hj; exact Hr|apply (Hex used); auto].
    + (* SReturn *)
      destruct re as [e|]; [|right; split; [reflexivity|split; [reflexivity|exact R0]]].
      pose proof (evsim_same _ _ Hev e loc false um w0 w0' R0) as H. sub H. right; split; [reflexivity|split; [reflexivity|exact Hr]].
    + apply (Hex used); auto.
    + (* SFunction, same body *)
      apply (Hex used); auto.
      destruct R0 as (Hg & Ha & Ho & Hl & Hft & Hfu). repeat split; cbn; try assumption.
      * rewrite Hg, (Forall2_len _ _ _ Hfu). reflexivity.
      * apply Forall2_app; [exact Hfu|]. constructor; [|constructor]. left. repeat split. cbn. exists (fun l0 => jumps_to l0 fbody).
        split; [apply covers_jumps_to|apply drel_refl; reflexivity].
    + (* SInclude *)
      pose proof (run_incs_sim ex ex' um Hex incs w0 w0' R0) as H.
      destruct H as [Hf|[Ho Hr]].
      * destruct (run_incs cfg url_rel lint_lines ex um incs w0) as [r w1]. cbn in Hf. destruct Hf as (ou & -> & Hu). left. exact Hu.
      * destruct (run_incs cfg url_rel lint_lines ex um incs w0) as [r w1], (run_incs cfg url_rel lint_lines ex' um incs w0') as [r' w1'].
        cbn in Ho, Hr. subst r'. destruct r as [o|]; [right; split; [reflexivity|split; [reflexivity|exact Hr]]|apply (Hex used); auto].
  - (* SFunction over related bodies *)
    apply (Hex used); auto.
    destruct R0 as (Hg & Ha & Ho & Hl & Hft & Hfu). repeat split; cbn; try assumption.
    + rewrite Hg, (Forall2_len _ _ _ Hfu). reflexivity.
    + apply Forall2_app; [exact Hfu|]. constructor; [|constructor]. left. repeat split. exact Hb.
  - (* SFunction, renamed *)
    apply (Hex used); auto.
    destruct R0 as (Hg & Ha0 & Ho & Hl & Hft & Hfu). repeat split; cbn; try assumption.
    + rewrite Hg, (Forall2_len _ _ _ Hfu). reflexivity.
    + apply Forall2_app; [exact Hfu|]. constructor; [|constructor]. right. repeat split; assumption.
Qed.

(* ---- a pointless expression evaluates without effect and without raising ---- *)
Definition benign (o : outcome) : Prop := match o with OVal _ | OFuel | OOracle => True | _ => False end.

Lemma of_ares_benign r : benign (of_ares r).
Proof. destruct r; exact I. Qed.
Lemma relop_benign w a b t : benign (relop w a b t).
Proof. unfold relop. destruct (vcompare _ w a b); exact I. Qed.
Lemma concat_str_benign l r b : benign (concat_str l r b).
Proof. destruct r; exact I. Qed.
Lemma date_add_ms_benign us n : benign (date_add_ms us n).
Proof.
  unfold date_add_ms. destruct (match n with NInt z => Some z | NFlt f => sf_integral f end).
  - destruct (_ <=? _)%Z; try exact I. destruct (_ && _)%bool; exact I.
  - destruct n; try exact I. destruct (sf_is_finite f); exact I.
Qed.
Lemma date_sub_benign a b : benign (date_sub a b).
Proof. unfold date_sub. cbv zeta. destruct (sf_trunc _); exact I. Qed.

(* the operators never raise (C05 binop_no_exc) and never end the script: value, or the model's fuel / decline outcome *)
Lemma binop_benign op w a b : benign (binop op w a b).
Proof.
  unfold binop.
  repeat match goal with |- benign (if ?c then _ else _) => destruct c end;
    try apply relop_benign;
    repeat match goal with
           | |- benign (of_ares _) => apply of_ares_benign
           | |- benign (concat_str _ _ _) => apply concat_str_benign
           | |- benign (date_add_ms _ _) => apply date_add_ms_benign
           | |- benign (date_sub _ _) => apply date_sub_benign
           | |- benign (match ?x with _ => _ end) => destruct x
           | |- _ => exact I
           end.
Qed.

Notation exec := (exec cfg lib url_rel lint_lines).
Notation eval := (eval cfg lib url_rel lint_lines).
Notation call := (call cfg lib url_rel lint_lines).

Lemma pointless_eval : forall f e loc bi um w, pointless e = true ->
  exists o, eval f e loc bi um w = (o, w) /\ benign o.
Proof.
  induction f as [|f IH]; intros e loc bi um w Hp; [exists OFuel; split; [reflexivity|exact I]|].
  rewrite eval_S. destruct e as [n|s|x|name args|op l r|op e1|e1]; cbn [eval_body]; cbn in Hp; try discriminate.
  - eexists; split; [reflexivity|exact I].
  - eexists; split; [reflexivity|exact I].
  - eexists; split; [reflexivity|exact I].
  - apply andb_prop in Hp. destruct Hp as [Hl Hr].
    destruct (IH l loc bi um w Hl) as (ol & -> & Bl). destruct ol; try destruct Bl; try (eexists; split; [reflexivity|exact I]).
    destruct (IH r loc bi um w Hr) as (or' & Er & Br).
    destruct (op_is op "&&"). { destruct (truthy w v); [rewrite Er; eauto|eexists; split; [reflexivity|exact I]]. }
    destruct (op_is op "||"). { destruct (truthy w v); [eexists; split; [reflexivity|exact I]|rewrite Er; eauto]. }
    rewrite Er. destruct or'; try destruct Br; try (eexists; split; [reflexivity|exact I]).
    eexists; split; [reflexivity|apply binop_benign].
  - destruct (IH e1 loc bi um w Hp) as (o1 & -> & B1). destruct o1; try destruct B1; eexists; (split; [reflexivity|exact I]).
  - apply IH. exact Hp.
Qed.

(* a pointless expression statement: one step, no effect *)
Lemma exec_pointless_step f c pc cache loc um w e :
  nth_error c pc = Some (SExpr None e) -> pointless e = true ->
  let w0 := upd_count w (w_count w + 1) in
  exec (S f) c pc cache loc um w = exec f c (S pc) cache loc um w0 \/
  (exists o, exec (S f) c pc cache loc um w = (o, loc, w0) /\ (o = OFuel \/ o = OOracle)).
Proof.
  intros H Hp. cbv zeta. rewrite exec_S. unfold exec_body. rewrite H, Hmax. cbn [andb Z.ltb Z.compare]. cbv zeta.
  destruct (pointless_eval f e loc false um (upd_count w (w_count w + 1)) Hp) as (o & -> & B).
  destruct o; try destruct B; [left; reflexivity|right; eexists; split; [reflexivity|auto]..].
Qed.

(* ---- one step of the statement loop in a renamed body ---- *)
Lemma rstmt_label s s' l : rstmt s s' -> (s = SLabel l <-> s' = SLabel l).
Proof. intros [->|(y & y' & e & -> & -> & _)]; [tauto|split; discriminate]. Qed.

Lemma find_from_rstmt l : forall c c', Forall2 rstmt c c' -> forall i, find_from l c i = find_from l c' i.
Proof.
  intros c c' F. induction F as [|s s' t t' Hs F IH]; intros i; [reflexivity|].
  destruct Hs as [->|(y & y' & e & -> & -> & _)]; [|cbn; apply IH].
  destruct s'; cbn; try apply IH. destruct (str_eqb name l); [reflexivity|apply IH].
Qed.

Lemma find_label_rstmt l c c' : Forall2 rstmt c c' -> find_label l c = find_label l c'.
Proof. intros F. rewrite !find_label_unfold. apply find_from_rstmt. exact F. Qed.

Lemma Forall2_nth_none {A B} (R : A -> B -> Prop) l l' : Forall2 R l l' -> forall i, nth_error l i = None -> nth_error l' i = None.
Proof. intros F i H. apply nth_error_None. apply nth_error_None in H. rewrite <- (Forall2_len _ _ _ F). exact H. Qed.

Lemma fdrel_refl0 fd : fdrel fd fd.
Proof. left. repeat split. exists (fun l => jumps_to l (fd_body fd)). split; [apply covers_jumps_to|apply drel_refl; reflexivity]. Qed.

Lemma exec_body_ren ev ev' ex ex' : evsim ev ev' -> exsim ex ex' -> exsimB ex ex' ->
  forall c c' pc cache cache' l l' um w w',
    Forall2 rstmt c c' -> cleanc c = true -> L l l' -> cache_ok c cache -> cache_ok c' cache' -> wrel w w' ->
    Sim3B (exec_body cfg url_rel lint_lines ev ex c pc cache (Some l) um w) (exec_body cfg url_rel lint_lines ev' ex' c' pc cache' (Some l') um w').
Proof.
  intros Hev Hex HexB c c' pc cache cache' l l' um w w' F Hcl HL Hc Hc' Hw. unfold exec_body.
  destruct (nth_error c pc) as [s|] eqn:Hn.
  2:{ rewrite (Forall2_nth_none _ _ _ F _ Hn). right. split; [reflexivity|exact Hw]. }
  destruct (Forall2_nth_l _ _ _ F _ _ Hn) as (s' & Hn' & Hs). rewrite Hn', Hmax. cbn [andb Z.ltb Z.compare]. cbv zeta.
  assert (Hcs : clean_stmt s = true). { unfold cleanc in Hcl. rewrite forallb_forall in Hcl. apply Hcl. eapply nth_error_In. exact Hn. }
  set (w0 := upd_count w (w_count w + 1)). set (w0' := upd_count w' (w_count w' + 1)).
  assert (R0 : wrel w0 w0') by (apply wrel_count; exact Hw). clearbody w0 w0'.
  assert (HLo : forall e, clean e = true -> locrel e (Some l) (Some l')) by (intros e He; right; split; [exact He|exact HL]).
  destruct Hs as [<-|(y & y' & e & -> & -> & Hy & Hy')].
  - destruct s as [name e|label cond|re|lname|fname fargs fasync flast fbody|incs]; cbn in Hcs.
    + pose proof (Hev e (Some l) (Some l') false um w0 w0' R0 (HLo e Hcs)) as H. sub H.
      destruct o; try (right; split; [reflexivity|exact Hr]); try (left; reflexivity).
      destruct name as [x|]; apply HexB; auto. apply L_set_same. exact HL.
    + assert (Hj : forall w1 w1', wrel w1 w1' -> Sim3B
        (match assoc label cache with
         | Some ix => ex c (S ix) cache (Some l) um w1
         | None => match find_label label c with
                   | Some ix => ex c (S ix) ((label, ix) :: cache) (Some l) um w1
                   | None => (ORt (msg_unknown_label label), Some l, w1) end end)
        (match assoc label cache' with
         | Some ix => ex' c' (S ix) cache' (Some l') um w1'
         | None => match find_label label c' with
                   | Some ix => ex' c' (S ix) ((label, ix) :: cache') (Some l') um w1'
                   | None => (ORt (msg_unknown_label label), Some l', w1') end end)).
      { intros w1 w1' R1. pose proof (find_label_rstmt label c c' F) as Ef.
        destruct (assoc label cache) as [ix|] eqn:Ea; destruct (assoc label cache') as [ix'|] eqn:Ea'.
        - pose proof (Hc _ _ Ea) as E1. pose proof (Hc' _ _ Ea') as E2. rewrite Ef, E2 in E1. injection E1 as ->. apply HexB; auto.
        - pose proof (Hc _ _ Ea) as E1. rewrite Ef in E1. rewrite E1. apply HexB; auto. apply cache_ok_cons; assumption.
        - pose proof (Hc' _ _ Ea') as E2. rewrite Ef, E2. apply HexB; auto. apply cache_ok_cons; [exact Hc|]. rewrite Ef. exact E2.
        - rewrite <- Ef. destruct (find_label label c) as [ix|] eqn:E1; [|right; split; [reflexivity|exact R1]].
          apply HexB; auto; apply cache_ok_cons; auto. }
      destruct cond as [cnd|]; [|apply Hj; exact R0].
      pose proof (Hev cnd (Some l) (Some l') false um w0 w0' R0 (HLo cnd Hcs)) as H. sub H.
      destruct o; try (right; split; [reflexivity|exact Hr]); try (left; reflexivity).
      cbv beta iota. rewrite (truthy_rel _ _ v Hr). destruct (truthy w2 v); cbv beta iota; [apply Hj; exact Hr|apply HexB; auto].
    + destruct re as [e|]; [|right; split; [reflexivity|exact R0]].
      pose proof (Hev e (Some l) (Some l') false um w0 w0' R0 (HLo e Hcs)) as H. sub H. right; split; [reflexivity|exact Hr].
    + apply HexB; auto.
    + apply HexB; auto.
      destruct R0 as (Hg & Ha & Ho & Hl & Hft & Hfu). repeat split; cbn; try assumption.
      * rewrite Hg, (Forall2_len _ _ _ Hfu). reflexivity.
      * apply Forall2_app; [exact Hfu|]. constructor; [|constructor]. apply fdrel_refl0.
    + pose proof (run_incs_sim ex ex' um Hex incs w0 w0' R0) as H.
      destruct H as [Hf|[Ho Hr]].
      * destruct (run_incs cfg url_rel lint_lines ex um incs w0) as [r w1]. cbn in Hf. destruct Hf as (ou & -> & Hu). left. exact Hu.
      * destruct (run_incs cfg url_rel lint_lines ex um incs w0) as [r w1], (run_incs cfg url_rel lint_lines ex' um incs w0') as [r' w1'].
        cbn in Ho, Hr. subst r'. destruct r as [o|]; [right; split; [reflexivity|exact Hr]|apply HexB; auto].
  - (* the same expression assigned to two ignorable names *)
    cbn in Hcs. pose proof (Hev e (Some l) (Some l') false um w0 w0' R0 (HLo e Hcs)) as H. sub H.
    destruct o; try (right; split; [reflexivity|exact Hr]); try (left; reflexivity).
    apply HexB; auto. apply L_set_ign; assumption.
Qed.

(* a label step: the statement at pc is a label *)
Lemma exec_label_step f c pc cache loc um w l :
  nth_error c pc = Some (SLabel l) -> exec (S f) c pc cache loc um w = exec f c (S pc) cache loc um (upd_count w (w_count w + 1)).
Proof. intros H. rewrite exec_S. unfold exec_body. rewrite H, Hmax. reflexivity. Qed.

Lemma exec_end_step f c pc cache loc um w : skipn pc c = [] -> exec (S f) c pc cache loc um w = (OVal VNull, loc, w).
Proof. intros H. rewrite exec_S. unfold exec_body. rewrite nth_error_skipn, H. reflexivity. Qed.

(* a right-only expression statement: one step, no effect *)
Lemma exec_total_step f c pc cache loc um w e :
  nth_error c pc = Some (SExpr None e) -> okr e -> DR <= f ->
  exec (S f) c pc cache loc um w = exec f c (S pc) cache loc um (upd_count w (w_count w + 1)).
Proof.
  intros H He Hf. rewrite exec_S. unfold exec_body. rewrite H, Hmax. cbn [andb Z.ltb Z.compare]. cbv zeta.
  destruct (Hokr e He f loc false um (upd_count w (w_count w + 1)) Hf) as (v & ->). reflexivity.
Qed.

(* THE SIMULATION: with at least twice the fuel plus DR, the right run does what the left run does *)
Theorem sim_all : forall f f', 2 * f + DR <= f' ->
  evsim (eval f) (eval f') /\ clsim (call f) (call f') /\ exsimB (exec f) (exec f') /\ exsim (exec f) (exec f').
Proof.
  induction f as [|f IH]; intros f' Hle.
  - repeat split; intro; intros; left; left; reflexivity.
  - destruct f' as [|f1]; [lia|]. destruct (IH f1 ltac:(lia)) as (He & Hc & HxB & Hx). split; [|split; [|split]].
    + intros e loc loc' bi um w w' Hw HL. rewrite !eval_S. apply eval_body_sim; assumption.
    + intros fv a um w w' Hw. rewrite !call_S. apply call_body_sim; assumption.
    + intros c c' pc cache cache' l l' um w w' F Hcl HL Hcc Hcc' Hw. rewrite !exec_S. apply exec_body_ren; assumption.
    + intros used c c' pc pc' cache cache' loc um w w' Hcov D Dpc Hcc Hcc' Hw.
      remember (skipn pc c) as sc eqn:Es. remember (skipn pc' c') as sc' eqn:Es'. symmetry in Es, Es'.
      destruct Dpc as [|s s' t t' Hs Dt|l t t' Hl Dt|e0 t t' Hok He0 Dt|l s s' t t' Hl Hs Dt|l Hl|e0 s s' t t' He0 Hs Dt|e0 He0].
      * rewrite !exec_end_step by assumption. right; split; [reflexivity|split; [reflexivity|exact Hw]].
      * rewrite !exec_S. eapply exec_body_keep; eauto.
      * (* a label only the left list has *)
        rewrite (exec_label_step f c pc cache loc um w l) by (rewrite nth_error_skipn, Es; reflexivity).
        destruct (IH (S f1) ltac:(lia)) as (_ & _ & _ & Hx'). apply (Hx' used); auto; try (apply wrel_count_l; exact Hw).
        rewrite skipn_S_tl, Es, Es'. exact Dt.
      * (* a pointless statement only the left list has (ok = true) *)
        destruct (exec_pointless_step f c pc cache loc um w e0) as [E|(o & E & Ho)]; [rewrite nth_error_skipn, Es; reflexivity|exact He0| |].
        -- rewrite E. destruct (IH (S f1) ltac:(lia)) as (_ & _ & _ & Hx'). apply (Hx' used); auto; try (apply wrel_count_l; exact Hw).
           rewrite skipn_S_tl, Es, Es'. exact Dt.
        -- rewrite E. left. destruct Ho as [-> | ->]; [left; reflexivity|right; split; [exact Hok|reflexivity]].
      * (* a label only the right list has, followed by the counterpart of the left statement *)
        destruct f1 as [|f2]; [lia|]. destruct (IH f2 ltac:(lia)) as (He2 & _ & _ & Hx2).
        rewrite (exec_label_step (S f2) c' pc' cache' loc um w' l) by (rewrite nth_error_skipn, Es'; reflexivity).
        rewrite !exec_S. eapply exec_body_keep; eauto; try (apply wrel_count_r; exact Hw).
        rewrite skipn_S_tl, Es'. reflexivity.
      * destruct f1 as [|f2]; [lia|].
        rewrite (exec_label_step (S f2) c' pc' cache' loc um w' l) by (rewrite nth_error_skipn, Es'; reflexivity).
        rewrite (exec_end_step f c pc) by assumption. rewrite (exec_end_step f2 c' (S pc')) by (rewrite skipn_S_tl, Es'; reflexivity).
        right; split; [reflexivity|split; [reflexivity|]]. apply wrel_count_r. exact Hw.
      * (* an expression statement only the right list has, followed by the counterpart of the left statement *)
        destruct f1 as [|f2]; [lia|]. destruct (IH f2 ltac:(lia)) as (He2 & _ & _ & Hx2).
        rewrite (exec_total_step (S f2) c' pc' cache' loc um w' e0) by (try (rewrite nth_error_skipn, Es'; reflexivity); try exact He0; lia).
        rewrite !exec_S. eapply exec_body_keep; eauto; try (apply wrel_count_r; exact Hw).
        rewrite skipn_S_tl, Es'. reflexivity.
      * destruct f1 as [|f2]; [lia|].
        rewrite (exec_total_step (S f2) c' pc' cache' loc um w' e0) by (try (rewrite nth_error_skipn, Es'; reflexivity); try exact He0; lia).
        rewrite (exec_end_step f c pc) by assumption. rewrite (exec_end_step f2 c' (S pc')) by (rewrite skipn_S_tl, Es'; reflexivity).
        right; split; [reflexivity|split; [reflexivity|]]. apply wrel_count_r. exact Hw.
Qed.

End Sim.


Notation remove_at := C18Sim.remove_at.
Notation set_body := C18Sim.set_body.

(* the list with one right-only expression statement deleted is related to the original *)
Lemma drel_insert (SR : stmt -> stmt -> Prop) used e : (forall s, SR s s) -> okr e ->
  forall c i, nth_error c i = Some (SExpr None e) -> drel SR used (remove_at i c) c.
Proof.
  intros Hrefl He. induction c as [|x t IH]; intros i Hn; [destruct i; discriminate|].
  destruct i as [|i]; cbn in Hn.
  - injection Hn as ->. unfold C18Sim.remove_at. cbn.
    destruct t as [|s t0]; [apply dr_skipr_pure_nil; exact He|apply dr_skipr_pure_keep; [exact He|apply Hrefl|apply drel_refl; exact Hrefl]].
  - rewrite C18Sim.remove_at_cons. apply dr_keep; auto.
Qed.

Lemma covers_remove_at c i : covers (fun l => jumps_to l c) (remove_at i c).
Proof.
  intros j l0 cond Hj. unfold jumps_to. apply existsb_exists. exists (SJump l0 cond). split; [|apply str_eqb_refl].
  eapply C18Sim.in_remove_at. eapply nth_error_In. exact Hj.
Qed.

Lemma set_body_rel_r used : forall s k n a b c body body', nth_error s k = Some (SFunction n a b c body) -> body_rel body' body ->
  drel stmt_rel used (set_body s k body') s.
Proof.
  induction s as [|x t IH]; intros k n a b c body body' Hn Hb; [destruct k; discriminate|].
  destruct k as [|k]; cbn in Hn.
  - injection Hn as ->. cbn. apply dr_keep; [|apply drel_refl; intros s0; left; reflexivity].
    right; left; do 6 eexists; (split; [reflexivity|split; [reflexivity|assumption]]).
  - cbn. apply dr_keep; [left; reflexivity|]. eapply IH; eassumption.
Qed.

Section Run.
Variable cfg : config.
Variable lib : caller -> str -> list value -> world -> Interp.lres * world.
Variable url_rel : str -> str -> str.
Variable lint_lines : script -> list str.
Hypothesis Hmax : c_max cfg = 0%Z.
Hypothesis Hlib : lib_sim lib.
Variable DR : nat.
Hypothesis Hokr : forall e, okr e -> forall f loc bi um w, DR <= f ->
  exists v, Interp.eval cfg lib url_rel lint_lines f e loc bi um w = (OVal v, w).
Notation run := (execute_script cfg lib url_rel lint_lines).

Lemma fdrel_refl fd : fdrel fd fd.
Proof. apply fdrel_refl0. Qed.
Lemma wrel_refl w : wrel w w.
Proof. repeat split. induction (w_funs w); constructor; [apply fdrel_refl|assumption]. Qed.

Theorem related_scripts_run_alike : forall c c', code_rel c c' ->
  forall f w o w1, run f c w = (o, w1) -> ~ undef o ->
  exists w1', run (2 * f + DR) c' w = (o, w1') /\ wrel w1 w1'.
Proof.
  intros c c' (used & Hcov & D) f w o w1 H Ho. unfold execute_script in *.
  set (w0 := upd_count (upd_globals w (inject_library (w_globals w))) 0) in *.
  destruct (sim_all cfg lib url_rel lint_lines Hmax Hlib DR Hokr f (2 * f + DR) (le_n _)) as (_ & _ & _ & Hx).
  specialize (Hx used c c' 0 0 [] [] None UHost w0 w0 Hcov D D (cache_ok_nil _) (cache_ok_nil _) (wrel_refl w0)).
  destruct (Interp.exec cfg lib url_rel lint_lines f c 0 [] None UHost w0) as [[o1 l1] w2].
  destruct (Interp.exec cfg lib url_rel lint_lines (2 * f + DR) c' 0 [] None UHost w0) as [[o1' l1'] w2'].
  injection H as -> ->. destruct Hx as [Hf|(Ho' & _ & Hr)]; cbn [fst snd] in *; [exfalso; apply Ho; exact Hf|]. subst o1'. exists w2'. split; [reflexivity|exact Hr].
Qed.

(* a run of the script without the statement is a run of the script with it *)
Theorem expr_stmt_insert : forall s i e, nth_error s i = Some (SExpr None e) -> okr e ->
  forall f w o w1, run f (remove_at i s) w = (o, w1) -> ~ undef o -> exists w1', run (2 * f + DR) s w = (o, w1') /\ wrel w1 w1'.
Proof.
  intros s i e Hn He. apply related_scripts_run_alike. exists (fun l0 => jumps_to l0 s). split; [apply covers_remove_at|].
  apply (drel_insert stmt_rel _ e); auto. intros s0. left; reflexivity.
Qed.

Theorem expr_stmt_fn_insert : forall s k fn args a b body i e,
  nth_error s k = Some (SFunction fn args a b body) -> nth_error body i = Some (SExpr None e) -> okr e ->
  forall f w o w1, run f (set_body s k (remove_at i body)) w = (o, w1) -> ~ undef o ->
    exists w1', run (2 * f + DR) s w = (o, w1') /\ wrel w1 w1'.
Proof.
  intros s k fn args a b body i e Hn Hb He. apply related_scripts_run_alike. exists (fun l0 => jumps_to l0 s). split.
  - intros j l0 cond Hj. apply (covers_jumps_to s j l0 cond). eapply C18Sim.covers_set_body; exact Hj.
  - eapply set_body_rel_r; [exact Hn|]. exists (fun l0 => jumps_to l0 body). split; [apply covers_remove_at|].
    apply (drel_insert eq _ e); auto.
Qed.

End Run.

End Ok.

Lemma wrel_same ok okr xo xn w w' : wrel ok okr xo xn w w' -> C18Sim.same_world w w'.
Proof. intros (Hg & Ha & Ho & Hl & Hft & _). repeat split; assumption. Qed.

(* ================= a pointless expression needs no more fuel than its depth ================= *)
Fixpoint edepth (e : expr) : nat :=
  match e with
  | EBin _ l r => S (Nat.max (edepth l) (edepth r))
  | EUn _ a => S (edepth a)
  | EGroup a => S (edepth a)
  | _ => 0
  end.

Section FinalR.
Variable cfg : config.
Variable lib : caller -> str -> list value -> world -> Interp.lres * world.
Variable url_rel : str -> str -> str.
Variable lint_lines : script -> list str.
Hypothesis Hmax : c_max cfg = 0%Z.
Notation run := (execute_script cfg lib url_rel lint_lines).
Notation eval := (Interp.eval cfg lib url_rel lint_lines).

(* beyond its depth the fuel does not matter to a pointless expression (it makes no call) *)
Lemma pointless_eval_stable : forall e, pointless e = true ->
  forall f f' loc bi um w, edepth e < f -> edepth e < f' -> eval f e loc bi um w = eval f' e loc bi um w.
Proof.
  induction e as [n|s|x|name args|op l IHl r IHr|op e1 IH1|e1 IH1]; intros Hp f f' loc bi um w Hf Hf';
    (destruct f as [|f]; [lia|]); (destruct f' as [|f']; [lia|]); rewrite !eval_S; cbn [eval_body]; cbn in Hp; try discriminate; try reflexivity.
  - apply andb_prop in Hp. destruct Hp as [Hl Hr]. cbn [edepth] in Hf, Hf'.
    rewrite (IHl Hl f f' loc bi um w) by lia. destruct (eval f' l loc bi um w) as [ol w1]. destruct ol; try reflexivity.
    rewrite (IHr Hr f f' loc bi um w1) by lia. reflexivity.
  - cbn [edepth] in Hf, Hf'. rewrite (IH1 Hp f f' loc bi um w) by lia. reflexivity.
  - cbn [edepth] in Hf, Hf'. apply IH1; [exact Hp|lia|lia].
Qed.

(* ... and more fuel does not change an evaluation that did not run out of fuel (no premise on the library: no call) *)
Lemma pointless_eval_mono : forall f f' e loc bi um w, pointless e = true -> f <= f' ->
  fst (eval f e loc bi um w) <> OFuel -> eval f' e loc bi um w = eval f e loc bi um w.
Proof.
  induction f as [|f IH]; intros f' e loc bi um w Hp Hle H; [exfalso; apply H; reflexivity|].
  destruct f' as [|f']; [lia|]. rewrite !eval_S in *.
  destruct e as [n|s|x|name args|op l r|op e1|e1]; cbn [eval_body] in *; cbn in Hp; try discriminate; try reflexivity.
  - apply andb_prop in Hp. destruct Hp as [Hl Hr].
    destruct (eval f l loc bi um w) as [ol w1] eqn:El.
    assert (Nl : ol <> OFuel) by (intros ->; apply H; reflexivity).
    rewrite (IH f' l loc bi um w Hl ltac:(lia)) by (rewrite El; exact Nl). rewrite El.
    destruct ol; try reflexivity.
    destruct (op_is op "&&"). { destruct (truthy w1 v); [apply IH; auto; lia|reflexivity]. }
    destruct (op_is op "||"). { destruct (truthy w1 v); [reflexivity|apply IH; auto; lia]. }
    destruct (eval f r loc bi um w1) as [orr w2] eqn:Er.
    assert (Nr : orr <> OFuel) by (intros ->; apply H; reflexivity).
    rewrite (IH f' r loc bi um w1 Hr ltac:(lia)) by (rewrite Er; exact Nr). rewrite Er. reflexivity.
  - destruct (eval f e1 loc bi um w) as [o1 w1] eqn:E1.
    assert (N1 : o1 <> OFuel) by (intros ->; apply H; reflexivity).
    rewrite (IH f' e1 loc bi um w Hp ltac:(lia)) by (rewrite E1; exact N1). rewrite E1. reflexivity.
  - apply IH; auto; lia.
Qed.

(* [never_declines e]: whatever the locals and the world, with SOME fuel the evaluation of e neither runs out of fuel (a comparison
   of cyclic / too deep containers) nor is declined by the model (OOracle: operand types whose arithmetic / text Model/Interp.v
   does not reproduce) *)
Definition never_declines (e : expr) : Prop :=
  forall loc bi um w, exists f, fst (eval f e loc bi um w) <> OFuel /\ fst (eval f e loc bi um w) <> OOracle.

(* then it evaluates to a value, in the same world, as soon as the fuel exceeds its depth *)
Lemma pointless_total e : pointless e = true -> never_declines e ->
  forall f loc bi um w, S (edepth e) <= f -> exists v, eval f e loc bi um w = (OVal v, w).
Proof.
  intros Hp Hn f loc bi um w Hf. destruct (Hn loc bi um w) as (f0 & N1 & N2).
  assert (E1 : eval (Nat.max f0 f) e loc bi um w = eval f0 e loc bi um w) by (apply pointless_eval_mono; [exact Hp|lia|exact N1]).
  assert (E2 : eval f e loc bi um w = eval (Nat.max f0 f) e loc bi um w) by (apply pointless_eval_stable; [exact Hp|lia|lia]).
  destruct (C18Sim.final_pointless_eval cfg lib url_rel lint_lines f0 e loc bi um w Hp) as (o0 & E0 & B0).
  rewrite E2, E1, E0. rewrite E0 in N1, N2. cbn [fst] in N1, N2.
  destruct o0; try destruct B0; try congruence. eexists; reflexivity.
Qed.

(* PREMISE on the library for this direction: as [C18Sim.lib_ok], for the world relation of this file (function bodies may differ by
   right-only expression statements too) *)
Definition lib_okR (ok : bool) : Prop := forall okr xo xn, lib_sim ok okr xo xn lib.

(* [run_ge ok D c c']: every run of c that finishes is matched by the run of c' with fuel 2f + D *)
Definition run_ge (ok : bool) (D : nat) (c c' : script) : Prop :=
  forall f w o w1, run f c w = (o, w1) -> o <> OFuel -> (ok = true -> o <> OOracle) ->
  exists w1', run (2 * f + D) c' w = (o, w1') /\ C18Sim.same_world w1 w1'.

Definition okr_of (e : expr) : expr -> Prop := fun e' => e' = e.

Theorem final_pointless_insert : lib_okR false ->
  forall s i e, nth_error s i = Some (SExpr None e) -> pointless e = true -> never_declines e ->
  run_ge false (S (edepth e)) (C18Sim.remove_at i s) s.
Proof.
  intros Hlib s i e Hn Hp Hd f w o w1 H H1 _.
  destruct (expr_stmt_insert false (okr_of e) [] [] cfg lib url_rel lint_lines Hmax (Hlib _ [] []) (S (edepth e))) with (s := s) (i := i) (e := e) (f := f) (w := w) (o := o) (w1 := w1)
    as (w1' & Hr & Hw); auto.
  - intros e' -> f0 loc bi um w0 Hf. apply pointless_total; assumption.
  - reflexivity.
  - intros [Hu|[Hk _]]; [exact (H1 Hu)|discriminate Hk].
  - exists w1'. split; [exact Hr|]. eapply wrel_same. exact Hw.
Qed.

Theorem final_pointless_fn_insert : lib_okR false ->
  forall s k fn args a b body i e, nth_error s k = Some (SFunction fn args a b body) -> nth_error body i = Some (SExpr None e) ->
  pointless e = true -> never_declines e ->
  run_ge false (S (edepth e)) (C18Sim.set_body s k (C18Sim.remove_at i body)) s.
Proof.
  intros Hlib s k fn args a b body i e Hn Hb Hp Hd f w o w1 H H1 _.
  destruct (expr_stmt_fn_insert false (okr_of e) [] [] cfg lib url_rel lint_lines Hmax (Hlib _ [] []) (S (edepth e))) with
    (s := s) (k := k) (fn := fn) (args := args) (a := a) (b := b) (body := body) (i := i) (e := e) (f := f) (w := w) (o := o) (w1 := w1)
    as (w1' & Hr & Hw); auto.
  - intros e' -> f0 loc bi um w0 Hf. apply pointless_total; assumption.
  - reflexivity.
  - intros [Hu|[Hk _]]; [exact (H1 Hu)|discriminate Hk].
  - exists w1'. split; [exact Hr|]. eapply wrel_same. exact Hw.
Qed.

(* both directions, from the warning *)
Theorem final_pointless_delete : C18Sim.lib_ok lib true -> lib_okR false ->
  forall s i, In (WPointless i) (lint s) ->
  exists e, nth_error s i = Some (SExpr None e) /\ pointless e = true /\
    C18Sim.run_le cfg lib url_rel lint_lines true s (C18Sim.remove_at i s) /\
    (never_declines e -> run_ge false (S (edepth e)) (C18Sim.remove_at i s) s).
Proof.
  intros Hl1 Hl2 s i H.
  destruct (C18Sim.final_pointless_delete_partial cfg lib url_rel lint_lines Hmax Hl1 s i H) as (e & Hn & Hp & R).
  exists e. split; [exact Hn|]. split; [exact Hp|]. split; [exact R|]. intros Hd. apply final_pointless_insert; assumption.
Qed.

Theorem final_pointless_fn_delete : C18Sim.lib_ok lib true -> lib_okR false ->
  forall s fn i, In (WFnPointless fn i) (lint s) ->
  exists k args a b body e, nth_error s k = Some (SFunction fn args a b body) /\ nth_error body i = Some (SExpr None e) /\
    pointless e = true /\
    C18Sim.run_le cfg lib url_rel lint_lines true s (C18Sim.set_body s k (C18Sim.remove_at i body)) /\
    (never_declines e -> run_ge false (S (edepth e)) (C18Sim.set_body s k (C18Sim.remove_at i body)) s).
Proof.
  intros Hl1 Hl2 s fn i H.
  destruct (C18Sim.final_pointless_fn_delete_partial cfg lib url_rel lint_lines Hmax Hl1 s fn i H) as (k & args & a & b & body & e & Hn & Hb & Hp & R).
  exists k, args, a, b, body, e. split; [exact Hn|]. split; [exact Hb|]. split; [exact Hp|]. split; [exact R|].
  intros Hd. eapply final_pointless_fn_insert; eassumption.
Qed.

End FinalR.
