(* Proofs/C13Lib.v — property C13 at the level of the interpreter's LIBRARY model (Model/LibAll.v libfull):

       numberParseFloat (stringNew x) = x     for every valid finite double x,

   where stringNew on a float is value_string (Model/LibMore.v num_text_full) and numberParseFloat is the library's
   float() wrapper (argument validation from the regenerated table Gen/ArgSpecs.v, the str.strip() separator test, py_dec,
   the |exponent| <= 2000 guard of the model, dec_to_sf, the finiteness filter).  Neither call is declined (LOracle).

   Needed beyond Proofs/C13Total.v: the printed text has no separator character 0x1C-0x1F and its decimal exponent is
   small (|e| <= 2000): for the repr texts from the range of dec_exponent and the at most 17 + 20 digit positions. *)
From Coq Require Import Lia ZifyBool SpecFloat.
From BS Require Import Model.Base Model.Num Model.Regex Model.NumText Model.Arith Model.ExprParser Model.Script Model.Interp
  Model.LibCore Model.LibCall Model.LibLift Model.LibMore Model.LibAll Gen.Unicode
  Proofs.BaseFacts Proofs.FloatFacts Proofs.FloatRound Proofs.C13 Proofs.C13Ratio Proofs.C13Repr Proofs.C13NumStr Proofs.C13Total.
Local Open Scope Z_scope.

(* ------------------------------------------------------------------ the two library entries, unfolded *)
Ltac eval_closed_ops :=
  repeat match goal with |- context [op_is ?a ?b] => let v := eval vm_compute in (op_is a b) in change (op_is a b) with v end.

Lemma lib_stringNew cfg f arrs objs :
  libmore_pure cfg (U "stringNew") [VNum (NFlt f)] arrs objs = of_text cfg (num_text_full (NFlt f)) arrs objs.
Proof. unfold libmore_pure. eval_closed_ops. reflexivity. Qed.

Lemma lib_parseFloat cfg t arrs objs :
  libmore_pure cfg (U "numberParseFloat") [VStr t] arrs objs =
  if has_ascii_sep t then pval VNull arrs objs else
  match NumText.py_dec t with
  | None => pval VNull arrs objs
  | Some (_, PInf) | Some (_, PNan) => pval VNull arrs objs
  | Some (neg, PDec m e) =>
    if 2000 <? Z.abs e then poracle arrs objs
    else let f := dec_to_sf neg m e in
         if Arith.sf_is_finite f then pval (VNum (NFlt f)) arrs objs else pval VNull arrs objs
  end.
Proof.
  unfold libmore_pure. eval_closed_ops. cbv iota beta. cbn [orb andb]. unfold validated.
  match goal with |- context [Q.assoc_spec ?a ?b] => let v := eval vm_compute in (Q.assoc_spec a b) in change (Q.assoc_spec a b) with v end.
  cbv iota beta zeta. cbn. reflexivity.
Qed.

Lemma libfull_stringNew cfg cb f w :
  libfull cfg cb (U "stringNew") [VNum (NFlt f)] w = libmore cfg (U "stringNew") [VNum (NFlt f)] w.
Proof. unfold libfull, text_override. eval_closed_ops. reflexivity. Qed.

Lemma libfull_parseFloat cfg cb t w :
  libfull cfg cb (U "numberParseFloat") [VStr t] w = libmore cfg (U "numberParseFloat") [VStr t] w.
Proof.
  unfold libfull, text_override. eval_closed_ops. cbn [orb andb].
  repeat match goal with |- context [str_mem ?a ?b] => let v := eval vm_compute in (str_mem a b) in change (str_mem a b) with v end.
  reflexivity.
Qed.

(* ------------------------------------------------------------------ no separator characters in number texts *)
Lemma hs_app a b : has_ascii_sep (a ++ b) = has_ascii_sep a || has_ascii_sep b.
Proof. apply existsb_app. Qed.
Lemma hs_cons c t : has_ascii_sep (c :: t) = ((28 <=? c) && (c <=? 31))%N || has_ascii_sep t.
Proof. reflexivity. Qed.
Lemma hs_digits ds : all_d ds = true -> has_ascii_sep ds = false.
Proof.
  induction ds as [|c ds IH]; intros H; [reflexivity|]. apply all_d_cons in H. destruct H as [Hc Hd].
  rewrite hs_cons, IH by exact Hd. apply is_d_range in Hc. lia.
Qed.
Lemma hs_sgn neg : has_ascii_sep (sgn neg) = false.
Proof. destruct neg; reflexivity. Qed.

Lemma hs_ReprG s : ReprG s -> has_ascii_sep s = false.
Proof.
  intros G. inversion G as [neg I F HI DI HF DF E|neg d F es E Hd DF Hs DE HL Eq]; subst.
  - rewrite !hs_app, hs_cons, hs_sgn, (hs_digits I DI), (hs_digits F DF). reflexivity.
  - rewrite hs_app, hs_cons, hs_app, !hs_cons, hs_sgn, (hs_digits E DE).
    assert (X : has_ascii_sep (frac F) = false).
    { destruct F; [reflexivity|]. unfold frac. rewrite hs_cons, (hs_digits _ DF). reflexivity. }
    rewrite X. apply is_d_range in Hd. unfold is_sign in Hs. lia.
Qed.

(* ------------------------------------------------------------------ the decimal exponent of a repr text is small *)
Lemma strip_zeros_k fuel : forall d k d' k', strip_zeros_Z fuel d k = (d', k') -> k <= k' <= k + Z.of_nat fuel.
Proof.
  induction fuel as [|f IH]; intros d k d' k' H; cbn [strip_zeros_Z] in H.
  - injection H as <- <-. lia.
  - destruct ((d mod 10 =? 0) && negb (d =? 0)).
    + specialize (IH _ _ _ _ H). lia.
    + injection H as <- <-. lia.
Qed.

Lemma short_digits_from_k todo : forall n m e E d k, short_digits_from todo n m e E = Some (d, k) ->
  E - (n - 1) - (Z.of_nat todo - 1) <= k <= E - (n - 1) + 20.
Proof.
  induction todo as [|t IH]; intros n m e E d k H; [discriminate|].
  rewrite short_digits_from_step in H. cbv zeta in H.
  set (k0 := E - (n - 1)) in *.
  assert (S : forall c, strip_zeros_Z 20 c k0 = (d, k) -> k0 - (Z.of_nat (S t) - 1) <= k <= k0 + 20).
  { intros c X. pose proof (strip_zeros_k 20 _ _ _ _ X). lia. }
  match type of H with (if ?a && ?b then _ else _) = _ => destruct a; destruct b; cbn [andb] in H end.
  - match type of H with (if ?c then _ else if ?c2 then _ else Some (strip_zeros_Z 20 (if ?c3 then _ else _) _)) = _ =>
      destruct c; [|destruct c2; [|destruct c3]] end; apply Some_inj in H; exact (S _ H).
  - apply Some_inj in H. exact (S _ H).
  - apply Some_inj in H. exact (S _ H).
  - specialize (IH _ _ _ _ _ _ H). lia.
Qed.

Lemma dec_exponent_range m e : Zpos m < 2 ^ 53 -> -1074 <= e <= 971 -> -326 <= dec_exponent m e <= 310.
Proof.
  intros Hm He. pose proof (Z.log2_nonneg (Zpos m)) as L0.
  assert (L1 : Z.log2 (Zpos m) <= 52).
  { destruct (Z_le_gt_dec (Z.log2 (Zpos m)) 52) as [X|X]; [exact X|exfalso].
    destruct (Z.log2_spec (Zpos m) ltac:(lia)) as [Ll _].
    assert (2 ^ 53 <= 2 ^ Z.log2 (Zpos m)) by (apply Z.pow_le_mono_r; lia). lia. }
  unfold dec_exponent. cbv zeta. set (L := Z.log2 (Zpos m) + e) in *.
  assert (B : -324 <= L * 30103 / 100000 <= 308).
  { split; [apply Z.div_le_lower_bound; lia|apply Z.div_le_upper_bound; lia]. }
  set (E0 := L * 30103 / 100000) in *.
  repeat match goal with |- context [if ?c then _ else _] => destruct c end; lia.
Qed.

Lemma short_digits_k m e d k : valid_binary prec emax (S754_finite false m e) = true ->
  short_digits m e = Some (d, k) -> -342 <= k <= 330.
Proof.
  intros V H. destruct (canonical_of_valid false m e V) as (Hm & He & _).
  pose proof (dec_exponent_range m e Hm He). unfold short_digits in H.
  pose proof (short_digits_from_k _ _ _ _ _ _ _ H). lia.
Qed.

(* ------------------------------------------------------------------ what numberParseFloat needs of the printed text *)
Definition parse_ready (t : str) : Prop :=
  has_ascii_sep t = false /\ exists neg m e, NumText.py_dec t = Some (neg, PDec m e) /\ Z.abs e <= 2000.

Lemma ready_int neg ds : ds <> [] -> all_d ds = true -> parse_ready (sgn neg ++ ds).
Proof.
  intros NE AD. split; [rewrite hs_app, hs_sgn, (hs_digits ds AD); reflexivity|].
  eexists _, _, _. split; [apply (py_dec_int neg ds NE AD)|]. cbn. lia.
Qed.

Lemma repr_text_ready s m e r : valid_binary prec emax (S754_finite s m e) = true ->
  repr_float (S754_finite s m e) = ARes r -> parse_ready (cleanup r).
Proof.
  intros V R. cbn [repr_float] in R. destruct (short_digits m e) as [[d k]|] eqn:S; [|discriminate]. injection R as <-.
  destruct (short_digits_sound m e d k S) as [Pd _]. pose proof (short_digits_k m e d k V S) as Bk.
  destruct (repr_layout_shape s d k Pd) as [G (j & Hj & Cj & P)].
  pose proof (cleanup_grammar _ G) as C. remember (repr_layout s d k) as r eqn:Er. remember (cleanup r) as c eqn:Ec.
  destruct C as [neg I F HI DI HF ZF|r' G'].
  - apply ready_int; assumption.
  - split; [apply hs_ReprG; exact G|]. eexists _, _, _. split; [exact P|]. lia.
Qed.

Theorem num_text_ready f t : valid_binary prec emax f = true -> NumText.sf_is_finite f = true ->
  num_text_full (NFlt f) = ARes t -> parse_ready t.
Proof.
  intros V F. destruct f as [s|s| |s m e]; try discriminate F.
  - intros H. destruct s; vm_compute in H; injection H as <-; (split; [reflexivity|]); eexists _, _, _; (split; [vm_compute; reflexivity|]); cbn; lia.
  - unfold num_text_full. destruct (num_to_str (NFlt (S754_finite s m e))) as [r| |] eqn:N.
    + intros H. injection H as <-. cbn [num_to_str] in N.
      destruct (sf_integral (S754_finite s m e)) as [z|] eqn:I.
      * destruct (Z.abs z <? 10 ^ 16); [|discriminate]. injection N as <-.
        destruct (integral_text_shape s m e z V I) as (ds & -> & NE & AD & _). apply ready_int; assumption.
      * cbn [sf_integral] in I. destruct (Z.leb_spec 0 e) as [L|G]; [discriminate|].
        destruct (Z.eqb_spec (Zpos m mod 2 ^ (- e)) 0) as [M|M]; [discriminate|].
        destruct (dyadic_text_shape s m e r V G M N) as (ipd & fd & -> & NEi & ADi & NEf & Afd & Lf & _).
        destruct (canonical_of_valid s m e V) as (_ & He & _).
        split; [rewrite !hs_app, hs_cons, hs_sgn, (hs_digits _ ADi), (hs_digits _ Afd); reflexivity|].
        eexists _, _, _. split; [apply (py_dec_pos s ipd fd NEi ADi Afd)|]. unfold len in *. lia.
    + discriminate.
    + destruct (repr_float (S754_finite s m e)) as [r| |] eqn:R; try discriminate.
      intros H. injection H as <-. apply (repr_text_ready s m e r V R).
Qed.

(* ------------------------------------------------------------------ numberParseFloat (stringNew x) = x in the library model *)
Theorem lib_parse_of_text cfg f t arrs objs : valid_binary prec emax f = true -> NumText.sf_is_finite f = true ->
  num_text_full (NFlt f) = ARes t ->
  libmore_pure cfg (U "numberParseFloat") [VStr t] arrs objs = pval (VNum (NFlt f)) arrs objs.
Proof.
  intros V F T. destruct (num_text_ready f t V F T) as (HS & neg & m & e & P & B).
  pose proof (num_text_full_roundtrip f t V T) as RT. rewrite py_float_factors in RT. unfold float_with in RT.
  rewrite P in RT. cbn [option_map to_flt] in RT. injection RT as RT.
  rewrite lib_parseFloat, HS, P. destruct (Z.ltb_spec 2000 (Z.abs e)) as [X|_]; [lia|]. cbv zeta. rewrite RT.
  replace (Arith.sf_is_finite f) with true by (destruct f; try discriminate F; reflexivity). reflexivity.
Qed.

Theorem lib_roundtrip cfg cb f w : valid_binary prec emax f = true -> NumText.sf_is_finite f = true ->
  exists t, fst (libfull cfg cb (U "stringNew") [VNum (NFlt f)] w) = LVal (VStr t) /\
            fst (libfull cfg cb (U "numberParseFloat") [VStr t] w) = LVal (VNum (NFlt f)).
Proof.
  intros V F. destruct (num_text_full_total f V) as (t & T & _). exists t. split.
  - rewrite libfull_stringNew. unfold libmore, lift_pure. rewrite lib_stringNew, T. reflexivity.
  - rewrite libfull_parseFloat. unfold libmore, lift_pure. rewrite (lib_parse_of_text cfg f t _ _ V F T). reflexivity.
Qed.
