(* RegexComplete.v — the converse direction of Proofs/RegexFacts.v for the backtracking matcher of Model/Regex.v:
     (1) m_no_fuel / re_match_no_fuel : the fuel given by re_match is ALWAYS enough (for every regex and subject):
         re_match never answers MFuel;
     (2) m_complete / re_match_complete : for a regex without look-ahead, if the declarative relation Matches has a
         derivation from position 0 then re_match answers MYes (of SOME derivation: the engine's first one);
     (3) re_match_none : no derivation -> re_match answers MNo   (soundness + (1));
     (4) Matches_req : a character that the regex requires syntactically (req r) occurs in the subject.
   With these, questions about re_match on a family of subjects become questions about Matches. *)
From Coq Require Import Lia.
From BS Require Import Model.Base Model.Regex Proofs.RegexFacts.

Section Complete.
Variable UCL : uclass.

Lemma rsize_pos r : 1 <= rsize r.
Proof. destruct r; cbn [rsize]; lia. Qed.

(* (1) fuel: rsize r * (|rest| + 1) bounds the recursion depth; the continuation is only ever called further right *)
Lemma m_no_fuel : forall fuel r pos rest c k,
  rsize r * (length rest + 1) <= fuel ->
  (forall p r' c', pos <= p -> p + length r' = pos + length rest -> k p r' c' <> MFuel) ->
  m UCL fuel r pos rest c k <> MFuel.
Proof.
  induction fuel as [|f IH]; intros r pos rest c k F K.
  - pose proof (rsize_pos r). nia.
  - destruct r; cbn [m]; cbn [rsize] in F.
    + apply K; lia.
    + destruct rest as [|y t]; [discriminate|]. destruct (y =? c0)%N; [|discriminate]. apply K; cbn [length]; lia.
    + destruct rest as [|y t]; [discriminate|]. destruct (y =? c0)%N; [discriminate|]. apply K; cbn [length]; lia.
    + destruct rest as [|y t]; [discriminate|]. destruct (y =? 10)%N; [discriminate|]. apply K; cbn [length]; lia.
    + destruct rest as [|y t]; [discriminate|]. destruct (class_match UCL neg items y); [|discriminate]. apply K; cbn [length]; lia.
    + destruct (Nat.eqb pos 0); [|discriminate]. apply K; lia.
    + destruct rest as [|y [|z t]]; [apply K; lia| |discriminate].
      destruct (y =? 10)%N; [|discriminate]. apply K; lia.
    + (* RCat *)
      apply IH; [nia|]. intros p r' c' Hp Hl. apply IH; [nia|].
      intros p2 q2 c2 Hp2 Hl2. apply K; lia.
    + (* RAlt *)
      assert (A : m UCL f r1 pos rest c k <> MFuel) by (apply IH; [nia | exact K]).
      assert (B : m UCL f r2 pos rest c k <> MFuel) by (apply IH; [nia | exact K]).
      destruct (m UCL f r1 pos rest c k); [exact B | discriminate | congruence].
    + (* RRep *)
      set (more := match mx with
                   | Some 0 => MNo
                   | _ => m UCL f r pos rest c (fun p r' c' => if Nat.eqb p pos then MNo
                             else m UCL f (RRep (pred mn) (option_map pred mx) r) p r' c' k)
                   end).
      assert (A : more <> MFuel).
      { assert (G : m UCL f r pos rest c (fun p r' c' => if Nat.eqb p pos then MNo
                             else m UCL f (RRep (pred mn) (option_map pred mx) r) p r' c' k) <> MFuel).
        { apply IH; [nia|]. intros p r' c' Hp Hl. destruct (Nat.eqb p pos) eqn:E; [discriminate|].
          apply Nat.eqb_neq in E. apply IH; [cbn [rsize]; nia|].
          intros p2 q2 c2 Hp2 Hl2. apply K; lia. }
        subst more. destruct mx as [[|?]|]; [discriminate | exact G | exact G]. }
      destruct more; [destruct mn; [apply K; lia | discriminate] | discriminate | congruence].
    + (* RGroup *)
      apply IH; [nia|]. intros p r' c' Hp Hl. apply K; lia.
    + (* RLook *)
      assert (A : m UCL f r pos rest c (fun p _ c' => MYes p c') <> MFuel) by (apply IH; [nia | discriminate]).
      destruct (m UCL f r pos rest c (fun p _ c' => MYes p c')); [discriminate | apply K; lia | congruence].
Qed.

Lemma re_match_no_fuel r s : re_match UCL r s <> MFuel.
Proof.
  unfold re_match, fuel_for. apply m_no_fuel; [nia | discriminate].
Qed.

(* (2) completeness, look-ahead free regexes *)
Fixpoint no_look (r : regex) : bool :=
  match r with
  | RCat a b | RAlt a b => no_look a && no_look b
  | RRep _ _ a | RGroup _ a => no_look a
  | RLook _ => false
  | _ => true
  end.

(* (4) characters that every match of r has to read *)
Fixpoint req (r : regex) : list N :=
  match r with
  | RLit x => [x]
  | RCat a b => req a ++ req b
  | RGroup _ a => req a
  | RRep (S _) _ a => req a
  | _ => []
  end.

Section Subject.
Variable s : str.

Lemma nth_error_skipn_cons pos y : nth_error s pos = Some y -> skipn pos s = y :: skipn (S pos) s.
Proof.
  revert pos. generalize s. intros l. induction l as [|x l IH]; intros pos H.
  - destruct pos; discriminate.
  - destruct pos; cbn in H.
    + inversion H; subst. reflexivity.
    + apply IH in H. exact H.
Qed.

Lemma m_complete r pos p c c' : Matches UCL s r pos p c c' -> no_look r = true ->
  forall fuel k, k p (skipn p s) c' <> MNo -> m UCL fuel r pos (skipn pos s) c k <> MNo.
Proof.
  induction 1; cbn [no_look]; intros NL fuel k K; (destruct fuel as [|f]; [discriminate|]); cbn [m].
  - exact K.
  - rewrite (nth_error_skipn_cons _ _ H). rewrite N.eqb_refl. exact K.
  - rewrite (nth_error_skipn_cons _ _ H). rewrite H0. exact K.
  - rewrite (nth_error_skipn_cons _ _ H). rewrite H0. exact K.
  - rewrite (nth_error_skipn_cons _ _ H). rewrite H0. exact K.
  - cbn [Nat.eqb]. exact K.
  - destruct H as [->|[H1 H2]].
    + rewrite skipn_all in *. exact K.
    + rewrite (nth_error_skipn_cons _ _ H2) in *. rewrite H1, skipn_all in *. rewrite N.eqb_refl. exact K.
  - apply andb_true_iff in NL. destruct NL as [NA NB].
    apply IHMatches1; [exact NA|]. apply IHMatches2; [exact NB | exact K].
  - apply andb_true_iff in NL. destruct NL as [NA NB].
    destruct (m UCL f a pos (skipn pos s) c k) eqn:E; [|discriminate|discriminate].
    exfalso. revert E. apply IHMatches; [exact NA | exact K].
  - apply andb_true_iff in NL. destruct NL as [NA NB].
    destruct (m UCL f a pos (skipn pos s) c k) eqn:E; [|discriminate|discriminate].
    apply IHMatches; [exact NB | exact K].
  - destruct (match mx with
              | Some 0 => MNo
              | _ => m UCL f a pos (skipn pos s) c (fun p r' c' => if Nat.eqb p pos then MNo
                        else m UCL f (RRep (pred 0) (option_map pred mx) a) p r' c' k)
              end); [exact K | discriminate | discriminate].
  - assert (G : m UCL f a pos (skipn pos s) c (fun p r' c' => if Nat.eqb p pos then MNo
                        else m UCL f (RRep (pred mn) (option_map pred mx) a) p r' c' k) <> MNo).
    { apply IHMatches1; [exact NL|]. apply Nat.eqb_neq in H1. rewrite H1.
      apply IHMatches2; [exact NL | exact K]. }
    set (more := match mx with
                 | Some 0 => MNo
                 | _ => m UCL f a pos (skipn pos s) c (fun p r' c' => if Nat.eqb p pos then MNo
                           else m UCL f (RRep (pred mn) (option_map pred mx) a) p r' c' k)
                 end).
    assert (A : more <> MNo) by (subst more; destruct mx as [[|?]|]; [congruence | exact G | exact G]).
    destruct more; [congruence | discriminate | discriminate].
  - apply IHMatches; [exact NL | exact K].
  - discriminate.
Qed.

Lemma re_match_complete r e c : no_look r = true -> Matches UCL s r 0 e [] c ->
  exists e' c', re_match UCL r s = MYes e' c'.
Proof.
  intros NL M. pose proof (re_match_no_fuel r s) as NF.
  assert (NN : re_match UCL r s <> MNo).
  { unfold re_match. change s with (skipn 0 s) at 2. eapply m_complete; [exact M | exact NL | discriminate]. }
  destruct (re_match UCL r s) as [|e' c'|]; [congruence | eauto | congruence].
Qed.

(* (3) *)
Lemma re_match_none r : (forall e c, ~ Matches UCL s r 0 e [] c) -> re_match UCL r s = MNo.
Proof.
  intros N. pose proof (re_match_no_fuel r s) as NF.
  destruct (re_match UCL r s) as [|e c|] eqn:E; [reflexivity | | congruence].
  apply re_match_sound in E. exfalso. exact (N _ _ E).
Qed.

Lemma Matches_req r pos p c c' : Matches UCL s r pos p c c' -> forall x, In x (req r) -> In x s.
Proof.
  induction 1; cbn [req]; intros z I; try contradiction.
  - destruct I as [<-|[]]. eapply nth_error_In. exact H.
  - apply in_app_or in I. destruct I; auto.
  - destruct mn; [contradiction|]. auto.
  - auto.
Qed.

Lemma re_match_req_missing r x : In x (req r) -> ~ In x s -> re_match UCL r s = MNo.
Proof.
  intros I N. apply re_match_none. intros e c M. apply N. eapply Matches_req; eassumption.
Qed.

End Subject.
End Complete.
