(* Proofs/C15spec.v — the ABSTRACT machine of property C15 (definitions only, no proofs).
   State: a finite map  reference -> pure sequence of values | pure string-keyed association list.
   Operations: plain list / association-list functions.  No argument table, no float guards, no Python index
   arithmetic: an index is "a number whose exact value is a non-negative integer".
   A reference that is not bound (or bound to the other kind) makes the machine stuck (None): well-formed
   states never get there (Proofs/C15hist.v, history_progress). *)
From BS Require Import Model.Base Model.Num Model.LibVal Model.LibSeq.
Local Open Scope Z_scope.

Inductive acell := ASeq (xs : list value) | AMap (kv : list (str * value)).
Definition astate := list (loc * acell).

Fixpoint alookup (m : astate) (l : loc) : option acell :=
  match m with [] => None | (k, c) :: t => if Nat.eqb l k then Some c else alookup t l end.
Fixpoint aupdate (m : astate) (l : loc) (c : acell) : astate :=
  match m with [] => [] | (k, c0) :: t => if Nat.eqb l k then (k, c) :: t else (k, c0) :: aupdate t l c end.
(* references are handed out consecutively: the fresh one is the number of containers created so far *)
Definition aalloc (m : astate) (c : acell) : astate * loc := (m ++ [(length m, c)], length m).

(* ---- abstraction of the model's heap *)
Definition abs_cell (c : cell) : acell := match c with CArr xs => ASeq xs | CObj kv => AMap kv end.
Fixpoint abs_from (n : nat) (h : heap) : astate :=
  match h with [] => [] | c :: t => (n, abs_cell c) :: abs_from (S n) t end.
Definition abs (h : heap) : astate := abs_from 0 h.

(* ---- results: a value returned normally, or the documented failure value (state unchanged) *)
Inductive sres := SOk (v : value) | SFail (v : value).
Definition sres_value (s : sres) : value := match s with SOk v | SFail v => v end.
Definition sout := option (sres * astate).
Definition ok (v : value) (m : astate) : sout := Some (SOk v, m).
Definition failv (v : value) (m : astate) : sout := Some (SFail v, m).
Definition fail (m : astate) : sout := failv VNull m.
Definition with_seq (m : astate) (l : loc) (k : list value -> sout) : sout :=
  match alookup m l with Some (ASeq xs) => k xs | _ => None end.
Definition with_map (m : astate) (l : loc) (k : list (str * value) -> sout) : sout :=
  match alookup m l with Some (AMap kv) => k kv | _ => None end.
Definition alloc_ret (m : astate) (c : acell) : sout :=
  let (m', l) := aalloc m c in ok (match c with ASeq _ => VArr l | AMap _ => VObj l end) m'.

(* the integer a number denotes exactly (int or float spelling), if any *)
Definition int_of_num (n : num) : option Z :=
  match py_int n with Some z => if num_eq (NInt z) n then Some z else None | None => None end.
(* an index / bound argument: a number whose exact value is an integer >= 0 *)
Definition arg_index (v : value) : option Z :=
  match v with
  | VNum n => match int_of_num n with Some z => if z <? 0 then None else Some z | None => None end
  | _ => None
  end.

(* ---- arrays: shared mutable sequences *)
Definition sp_arrayNew (args : list value) (m : astate) : sout := alloc_ret m (ASeq args).

(* arrayNewSize(size = 0, value = 0) *)
Definition sp_arrayNewSize (args : list value) (m : astate) : sout :=
  match (match args with
         | [] => Some (vint 0, vint 0) | [s] => Some (s, vint 0) | [s; v] => Some (s, v) | _ => None
         end) with
  | Some (s, v) => match arg_index s with
                   | Some z => alloc_ret m (ASeq (repeat v (Z.to_nat z)))
                   | None => fail m
                   end
  | None => fail m
  end.

Definition sp_arrayCopy (args : list value) (m : astate) : sout :=
  match args with
  | [VArr l] => with_seq m l (fun xs => alloc_ret m (ASeq xs))
  | _ => fail m
  end.

Definition sp_arrayLength (args : list value) (m : astate) : sout :=
  match args with
  | [VArr l] => with_seq m l (fun xs => ok (vint (len xs)) m)
  | _ => failv (vint 0) m
  end.

Definition sp_arrayGet (args : list value) (m : astate) : sout :=
  match args with
  | [VArr l; vi] =>
      match arg_index vi with
      | Some z => with_seq m l (fun xs => match nth_error xs (Z.to_nat z) with Some v => ok v m | None => fail m end)
      | None => fail m
      end
  | _ => fail m
  end.

Definition sp_arraySet_at (l : loc) (vi v : value) (m : astate) : sout :=
  match arg_index vi with
  | Some z => with_seq m l (fun xs => if z <? len xs then ok v (aupdate m l (ASeq (set_nth xs (Z.to_nat z) v))) else fail m)
  | None => fail m
  end.
Definition sp_arraySet (args : list value) (m : astate) : sout :=
  match args with
  | [VArr l; vi] => sp_arraySet_at l vi VNull m           (* a missing value is null *)
  | [VArr l; vi; v] => sp_arraySet_at l vi v m
  | _ => fail m
  end.

Definition sp_arrayDelete (args : list value) (m : astate) : sout :=
  match args with
  | [VArr l; vi] =>
      match arg_index vi with
      | Some z => with_seq m l (fun xs => if z <? len xs then ok VNull (aupdate m l (ASeq (remove_nth xs (Z.to_nat z)))) else fail m)
      | None => fail m
      end
  | _ => fail m
  end.

Definition sp_arrayPush (args : list value) (m : astate) : sout :=
  match args with
  | VArr l :: vs => with_seq m l (fun xs => ok (VArr l) (aupdate m l (ASeq (xs ++ vs))))
  | _ => fail m
  end.

Definition sp_arrayPop (args : list value) (m : astate) : sout :=
  match args with
  | [VArr l] => with_seq m l (fun xs => match rev xs with
                                        | [] => fail m
                                        | v :: r => ok v (aupdate m l (ASeq (rev r)))      (* xs = rev r ++ [v] *)
                                        end)
  | _ => fail m
  end.

Definition sp_arrayShift (args : list value) (m : astate) : sout :=
  match args with
  | [VArr l] => with_seq m l (fun xs => match xs with [] => fail m | v :: t => ok v (aupdate m l (ASeq t)) end)
  | _ => fail m
  end.

(* arrayExtend(a, b): b may be a itself (both lookups happen before the update) *)
Definition sp_arrayExtend (args : list value) (m : astate) : sout :=
  match args with
  | [VArr l; VArr l2] => with_seq m l (fun xs => with_seq m l2 (fun ys => ok (VArr l) (aupdate m l (ASeq (xs ++ ys)))))
  | _ => fail m
  end.

(* arraySlice(a, start = 0, end = null -> length): a FRESH sequence, never the source *)
Definition sp_arraySlice (args : list value) (m : astate) : sout :=
  match args with
  | VArr l :: rest =>
      match (match rest with
             | [] => Some (vint 0, VNull) | [s] => Some (s, VNull) | [s; e] => Some (s, e) | _ => None
             end) with
      | None => fail m
      | Some (s, e) =>
          match arg_index s, (match e with VNull => Some None | _ => option_map Some (arg_index e) end) with
          | Some zs, Some oe =>
              with_seq m l (fun xs =>
                let ze := match oe with Some z => z | None => len xs end in
                if (len xs <? zs) || (len xs <? ze) then fail m
                else alloc_ret m (ASeq (skipn (Z.to_nat zs) (firstn (Z.to_nat ze) xs))))
          | _, _ => fail m
          end
      end
  | _ => fail m
  end.

(* ---- objects: shared string-keyed maps (insertion-ordered association lists with distinct keys) *)
Fixpoint kv_of_args (a : list value) (acc : list (str * value)) : option (list (str * value)) :=
  match a with
  | [] => Some acc
  | VStr k :: t => match t with
                   | [] => Some (dict_set acc k VNull)
                   | v :: t' => kv_of_args t' (dict_set acc k v)
                   end
  | _ => None
  end.
Definition sp_objectNew (args : list value) (m : astate) : sout :=
  match kv_of_args args [] with Some kv => alloc_ret m (AMap kv) | None => fail m end.

Definition sp_objectCopy (args : list value) (m : astate) : sout :=
  match args with
  | [VObj l] => with_map m l (fun kv => alloc_ret m (AMap kv))
  | _ => fail m
  end.

Definition sp_objectKeys (args : list value) (m : astate) : sout :=
  match args with
  | [VObj l] => with_map m l (fun kv => alloc_ret m (ASeq (map (fun p => VStr (fst p)) kv)))
  | _ => fail m
  end.

Definition sp_objectGet (args : list value) (m : astate) : sout :=
  match args with
  | [VObj l; VStr k] => with_map m l (fun kv => ok (match assoc k kv with Some v => v | None => VNull end) m)
  | [VObj l; VStr k; d] => with_map m l (fun kv => ok (match assoc k kv with Some v => v | None => d end) m)
  | _ => failv (match nth_error args 2 with Some d => d | None => VNull end) m     (* the default, when given *)
  end.

Definition sp_objectHas (args : list value) (m : astate) : sout :=
  match args with
  | [VObj l; VStr k] => with_map m l (fun kv => ok (VBool (match assoc k kv with Some _ => true | None => false end)) m)
  | _ => failv (VBool false) m
  end.

Definition sp_objectSet (args : list value) (m : astate) : sout :=
  match args with
  | [VObj l; VStr k] => with_map m l (fun kv => ok VNull (aupdate m l (AMap (dict_set kv k VNull))))
  | [VObj l; VStr k; v] => with_map m l (fun kv => ok v (aupdate m l (AMap (dict_set kv k v))))
  | _ => fail m
  end.

Definition sp_objectDelete (args : list value) (m : astate) : sout :=
  match args with
  | [VObj l; VStr k] => with_map m l (fun kv => ok VNull (aupdate m l (AMap (dict_del kv k))))
  | _ => fail m
  end.

(* objectAssign(o, p): p may be o itself *)
Definition sp_objectAssign (args : list value) (m : astate) : sout :=
  match args with
  | [VObj l; VObj l2] => with_map m l (fun kv => with_map m l2 (fun kv2 => ok (VObj l) (aupdate m l (AMap (dict_update kv kv2)))))
  | _ => fail m
  end.

(* ---- OPS: the operations of the abstract machine *)
Definition spfun := list value -> astate -> sout.
Definition spec_table : list (str * spfun) :=
  [(U "arrayNew", sp_arrayNew); (U "arrayNewSize", sp_arrayNewSize); (U "arrayCopy", sp_arrayCopy); (U "arrayLength", sp_arrayLength); (U "arrayGet", sp_arrayGet);
   (U "arraySet", sp_arraySet); (U "arrayDelete", sp_arrayDelete); (U "arrayPush", sp_arrayPush); (U "arrayPop", sp_arrayPop);
   (U "arrayShift", sp_arrayShift); (U "arrayExtend", sp_arrayExtend); (U "arraySlice", sp_arraySlice);
   (U "objectNew", sp_objectNew); (U "objectCopy", sp_objectCopy); (U "objectKeys", sp_objectKeys); (U "objectGet", sp_objectGet);
   (U "objectHas", sp_objectHas); (U "objectSet", sp_objectSet); (U "objectDelete", sp_objectDelete);
   (U "objectAssign", sp_objectAssign)].
Definition spec_call (f : str) (args : list value) (m : astate) : sout :=
  match assoc f spec_table with Some g => g args m | None => None end.
Definition in_OPS (f : str) : bool := match assoc f spec_table with Some _ => true | None => false end.

(* ---- histories on the abstract machine: same statements, same variable list *)
Definition spec_step (st : option (env * astate)) (o : op) : option (env * astate) :=
  match st with
  | None => None
  | Some (e, m) =>
    match o with
    | OAlias n => match nth_error e n with Some v => Some (e ++ [v], m) | None => None end
    | OLit v => Some (e ++ [v], m)
    | OCall f l =>
      match eval_args e l with
      | None => None
      | Some vs => match spec_call f vs m with
                   | Some (r, m') => Some (e ++ [sres_value r], m')
                   | None => None
                   end
      end
    end
  end.
Definition spec_run (ops : list op) (st : env * astate) : option (env * astate) := fold_left spec_step ops (Some st).

(* the model's outcome of one call, seen abstractly; LRaise (a Python exception other than ValueArgsError) is the
   failure value null of the call wrapper; callback / fuel / stuck outcomes have no abstract counterpart *)
Definition res_abs (r : libres) : option sres :=
  match r with LOk v => Some (SOk v) | LArgsErr v => Some (SFail v) | LRaise => Some (SFail VNull) | _ => None end.
Definition abs_call (p : libres * heap) : sout :=
  match res_abs (fst p) with Some s => Some (s, abs (snd p)) | None => None end.
Definition abs_st (st : option (env * heap)) : option (env * astate) :=
  match st with Some (e, h) => Some (e, abs h) | None => None end.

Definition op_in_OPS (o : op) : bool := match o with OCall f _ => in_OPS f | _ => true end.

(* ---- well-formedness: every reference held by a variable or stored in a container is bound to the right kind *)
Definition val_ok (h : heap) (v : value) : bool :=
  match v with
  | VArr l => match hget h l with Some (CArr _) => true | _ => false end
  | VObj l => match hget h l with Some (CObj _) => true | _ => false end
  | _ => true
  end.
Definition cell_ok (h : heap) (c : cell) : bool :=
  match c with CArr xs => forallb (val_ok h) xs | CObj kv => forallb (fun p => val_ok h (snd p)) kv end.
Definition wf_state (st : env * heap) : bool :=
  forallb (val_ok (snd st)) (fst st) && forallb (cell_ok (snd st)) (snd st).
(* a statement is admissible in a state: a function of OPS, variables that exist, literals that are scalars or
   references of the CURRENT heap *)
Definition wf_arg (st : env * heap) (a : arg) : bool :=
  match a with AVar n => Nat.ltb n (length (fst st)) | ALit v => val_ok (snd st) v end.
Definition wf_op (st : env * heap) (o : op) : bool :=
  match o with
  | OCall f l => in_OPS f && forallb (wf_arg st) l
  | OAlias n => Nat.ltb n (length (fst st))
  | OLit v => val_ok (snd st) v
  end.
(* threaded through the run: each statement is admissible in the state it executes in (the clause for a run that
   stopped is `true`: success of the run is a CONCLUSION of history_progress, not part of the hypothesis) *)
Fixpoint wf_hist (ops : list op) (st : env * heap) : bool :=
  match ops with
  | [] => true
  | o :: t => wf_op st o && match run_op (Some st) o with Some st' => wf_hist t st' | None => true end
  end.
(* a purely syntactic sufficient condition: variables refer to earlier statements, literals are scalars *)
Definition scalar_val (v : value) : bool := match v with VArr _ | VObj _ => false | _ => true end.
Fixpoint wf_syn (n : nat) (ops : list op) : bool :=
  match ops with
  | [] => true
  | o :: t => (match o with
               | OCall f l => in_OPS f && forallb (fun a => match a with AVar k => Nat.ltb k n | ALit v => scalar_val v end) l
               | OAlias k => Nat.ltb k n
               | OLit v => scalar_val v
               end) && wf_syn (S n) t
  end.
