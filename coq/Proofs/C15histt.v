(* Proofs/C15histt.v — C15 history, strings (continued): stringIndexOf, stringLastIndexOf (failure value -1, an inf / nan
   index yields null), stringFromCharCode; then the table of the 15 string functions. *)
From Coq Require Import Lia ZifyBool SpecFloat.
From BS Require Import Model.Base Model.Num Model.LibVal Gen.ArgSpecs Model.LibSeq Proofs.BaseFacts Proofs.C15 Proofs.C15spec
  Proofs.C15hist Proofs.C15spec2 Proofs.C15str Proofs.C15tac.
Local Open Scope Z_scope.

(* ---- stringIndexOf *)
Lemma sindexOf_core : forall h s sub n z, integral n z -> 0 <= z ->
  abs_call (k_stringIndexOf h [AV (VStr s); AV (VStr sub); AV (VNum n)]) =
  if len s <=? z then failv (vint (-1)) (abs h) else ok (vint (pos_or_minus1 (first_occ sub s (Z.to_nat z)))) (abs h).
Proof.
  intros h s sub n z Hi Hz. unfold k_stringIndexOf. rewrite (index_guard_integral n z _ Hi). unfold len.
  destruct (Z.leb_spec (Z.of_nat (length s)) z); [reflexivity|].
  rewrite py_find_spec by (unfold len; lia). reflexivity.
Qed.

Lemma step_stringIndexOf : refines (U "stringIndexOf") sp_stringIndexOf.
Proof.
  intros args h. destruct args as [|a1 [|a2 [|a3 [|a4 rest]]]].
  - go (U "stringIndexOf") k_stringIndexOf.
  - destruct a1; go (U "stringIndexOf") k_stringIndexOf.
  - destruct a1; try (go (U "stringIndexOf") k_stringIndexOf; fail). destruct a2; try (go (U "stringIndexOf") k_stringIndexOf; fail).
    lib_open (U "stringIndexOf") k_stringIndexOf. unfold sp_stringIndexOf, sp_indexOf_at.
    change (arg_index (vint 0)) with (Some 0). apply (sindexOf_core h s s0 (NInt 0) 0); [apply integral_int | lia].
  - destruct a1; try (go (U "stringIndexOf") k_stringIndexOf; fail). destruct a2; try (go (U "stringIndexOf") k_stringIndexOf; fail).
    destruct a3; try (go (U "stringIndexOf") k_stringIndexOf; fail).
    lib_open (U "stringIndexOf") k_stringIndexOf. unfold sp_stringIndexOf, sp_indexOf_at. num_cases2.
    + validate_step. apply sindexOf_core; auto.
    + unfold bad_index. destruct (nonfinite (VNum n)); reflexivity.
  - destruct a1; try (go (U "stringIndexOf") k_stringIndexOf; fail). destruct a2; try (go (U "stringIndexOf") k_stringIndexOf; fail).
    destruct a3; try (go (U "stringIndexOf") k_stringIndexOf; fail).
    lib_open (U "stringIndexOf") k_stringIndexOf. unfold sp_stringIndexOf, bad_index. num_cases2.
    + validate_step. rewrite (integral_finite _ _ Hi). reflexivity.
    + destruct (nonfinite (VNum n)); reflexivity.
Qed.

(* ---- stringLastIndexOf *)
Lemma slastIndexOf_core : forall h s sub ve oz,
  match oz with None => ve = VNull | Some z => exists n, ve = VNum n /\ integral n z /\ 0 <= z end ->
  abs_call (k_stringLastIndexOf h [AV (VStr s); AV (VStr sub); AV ve]) =
  (let z := match oz with Some z => z | None => len s - 1 end in
   if len s <=? z then failv (vint (-1)) (abs h) else ok (vint (pos_or_minus1 (last_occ sub s (Z.to_nat z)))) (abs h)).
Proof.
  intros h s sub ve oz Hoz. unfold k_stringLastIndexOf.
  assert (exists n z, (match ve with VNull => vint (len s - 1) | _ => ve end) = VNum n /\ integral n z /\ -1 <= z
                      /\ (z = -1 -> s = []) /\ z = match oz with Some z => z | None => len s - 1 end)
    as (n & z & -> & Hi & Hz & Hs & Ez).
  { destruct oz as [z|].
    - destruct Hoz as (n & -> & Hi & Hz). exists n, z. split; [reflexivity|]. split; [exact Hi|]. split; [lia|]. split; [intros; lia | reflexivity].
    - subst ve. exists (NInt (len s - 1)), (len s - 1). split; [reflexivity|]. split; [apply integral_int|].
      split; [unfold len; lia|]. split; [|reflexivity].
      intros E. destruct s; [reflexivity|]. unfold len in E. simpl length in E. lia. }
  cbv zeta. rewrite <- Ez. clear Ez Hoz oz.
  rewrite (index_guard_integral n z _ Hi). unfold len.
  destruct (Z.leb_spec (Z.of_nat (length s)) z); [reflexivity|].
  destruct (Z.eq_dec z (-1)) as [->|N].
  - rewrite (Hs eq_refl). change (Z.to_nat (-1)) with 0%nat. rewrite py_rfind0_empty. reflexivity.
  - rewrite py_rfind0_spec by (unfold len; lia). reflexivity.
Qed.

Lemma step_stringLastIndexOf : refines (U "stringLastIndexOf") sp_stringLastIndexOf.
Proof.
  intros args h. destruct args as [|a1 [|a2 [|a3 [|a4 rest]]]].
  - go (U "stringLastIndexOf") k_stringLastIndexOf.
  - destruct a1; go (U "stringLastIndexOf") k_stringLastIndexOf.
  - destruct a1; try (go (U "stringLastIndexOf") k_stringLastIndexOf; fail).
    destruct a2; try (go (U "stringLastIndexOf") k_stringLastIndexOf; fail).
    lib_open (U "stringLastIndexOf") k_stringLastIndexOf. unfold sp_stringLastIndexOf, sp_lastIndexOf_at.
    apply (slastIndexOf_core h s s0 VNull None). reflexivity.
  - destruct a1; try (go (U "stringLastIndexOf") k_stringLastIndexOf; fail).
    destruct a2; try (go (U "stringLastIndexOf") k_stringLastIndexOf; fail).
    destruct a3; try (go (U "stringLastIndexOf") k_stringLastIndexOf; fail).
    + lib_open (U "stringLastIndexOf") k_stringLastIndexOf. unfold sp_stringLastIndexOf, sp_lastIndexOf_at.
      apply (slastIndexOf_core h s s0 VNull None). reflexivity.
    + lib_open (U "stringLastIndexOf") k_stringLastIndexOf. unfold sp_stringLastIndexOf, sp_lastIndexOf_at, opt_index.
      num_cases2; cbn [option_map].
      * validate_step. apply (slastIndexOf_core h s s0 (VNum n) (Some z)). eauto.
      * unfold bad_index. destruct (nonfinite (VNum n)); reflexivity.
  - destruct a1; try (go (U "stringLastIndexOf") k_stringLastIndexOf; fail).
    destruct a2; try (go (U "stringLastIndexOf") k_stringLastIndexOf; fail).
    destruct a3; try (go (U "stringLastIndexOf") k_stringLastIndexOf; fail).
    lib_open (U "stringLastIndexOf") k_stringLastIndexOf. unfold sp_stringLastIndexOf, bad_index. num_cases2.
    + validate_step. rewrite (integral_finite _ _ Hi). reflexivity.
    + destruct (nonfinite (VNum n)); reflexivity.
Qed.

(* ---- stringFromCharCode (inspects its arguments by hand) *)
Fixpoint fcc_check (a : list value) : option (option (list Z)) :=
  match a with
  | [] => Some (Some [])
  | VNum n :: t =>
      match py_int n with
      | None => None
      | Some z => if negb (num_eq (NInt z) n) || num_lt n (NInt 0) then Some None
                  else match fcc_check t with Some (Some zs) => Some (Some (z :: zs)) | r => r end
      end
  | _ => Some None
  end.
Lemma fcc_check_spec : forall args,
  match code_points args with
  | Some zs => fcc_check args = Some (Some zs)
  | None => fcc_check args = None \/ fcc_check args = Some None
  end.
Proof.
  induction args as [|v t IH]; [reflexivity|]. cbn [code_points].
  destruct v; try (simpl; auto; fail).
  cbn [fcc_check]. unfold arg_index, int_of_num. destruct (py_int n) as [z|] eqn:P; [|auto].
  destruct (num_eq (NInt z) n) eqn:Q; cbn [negb orb]; [|auto].
  rewrite (num_lt_integral n z 0 (conj P Q)). destruct (z <? 0); [auto|].
  destruct (code_points t) as [zs|].
  - rewrite IH. reflexivity.
  - destruct IH as [-> | ->]; auto.
Qed.

Lemma step_stringFromCharCode : refines (U "stringFromCharCode") sp_stringFromCharCode.
Proof.
  intros args h. unfold lib. change (assoc (U "stringFromCharCode") raw_table) with (Some raw_stringFromCharCode). cbv beta iota.
  change (raw_stringFromCharCode h args) with
    (match fcc_check args with
     | None => (LRaise, h)
     | Some None => (LArgsErr VNull, h)
     | Some (Some zs) => if forallb (fun z => z <? 1114112) zs then (LOk (VStr (map Z.to_N zs)), h) else (LRaise, h)
     end).
  unfold sp_stringFromCharCode. pose proof (fcc_check_spec args) as S. destruct (code_points args) as [zs|].
  - rewrite S. destruct (forallb _ zs); reflexivity.
  - destruct S as [-> | ->]; reflexivity.
Qed.
