(* Proofs/Total.v — the parser model never reports a host exception:
       forall chunks start w, parse_script chunks start <> RHost w.
   Proofs/C06.v (parse_script_host) leaves two possible sources:
   (a) float() rejecting the text of a matched number literal — closed by Proofs/NumLit.v (number_literal_parses) and the
       induction on the fuel of parse_binary / parse_unary / parse_args below;
   (b) the `endif` of an if without else not finding the pending conditional jump it retargets — closed by an invariant of
       the fold of kstep (Model/Lower.v) that needs NO cleanliness premise on user labels (C07's PInv counts labels and is
       only preserved for programs that do not use the reserved prefix; here only the POSITIONS of the pending jumps
       matter, and user labels never move them). *)
From Coq Require Import Lia.
From BS Require Import Model.Base Model.Regex Model.Num Model.ExprParser Model.Script Model.ScriptX Model.Lower
  Gen.Unicode Gen.Regexes Proofs.RegexFacts Proofs.ExprFacts Proofs.ScriptFacts Proofs.NumLit Proofs.C06 Proofs.C07eq Proofs.C07.

(* ================= (a) the expression parser ================= *)
Definition nohost_post {A} (r : pres A) : Prop := match r with PHost _ => False | _ => True end.

Lemma parser_nohost : forall fuel,
  (forall text left, nohost_post (parse_binary fuel text left)) /\
  (forall text, nohost_post (parse_unary fuel text)) /\
  (forall text acc, nohost_post (parse_args fuel text acc)).
Proof.
  induction fuel as [|f (IHb & IHu & IHa)]; [repeat split; intros; exact I|].
  split; [|split].
  - intros text left. cbn [parse_binary].
    assert (Hleft : nohost_post (match left with Some l => POk (l, text) | None => parse_unary f text end)).
    { destruct left; [exact I | apply IHu]. }
    destruct (match left with Some l => POk (l, text) | None => parse_unary f text end) as [[le bt]|msg n|w|]; cbn [nohost_post] in Hleft |- *; auto.
    destruct (rx R_EXPR_BINARY_OP bt) as [|e c|]; cbn [nohost_post]; auto.
    pose proof (IHu (skipn e bt)) as U1.
    destruct (parse_unary f (skipn e bt)) as [[re nt]|msg n|w|]; cbn [nohost_post] in U1 |- *; auto; try apply IHb.
  - intros text. cbn [parse_unary].
    destruct (rx R_EXPR_GROUP_OPEN text) as [|e c|]; cbn [nohost_post]; auto.
    2:{ pose proof (IHb (skipn e text) None) as B1.
        destruct (parse_binary f (skipn e text) None) as [[ex nt]|msg n|w|]; cbn [nohost_post] in B1 |- *; auto.
        destruct (rx R_EXPR_GROUP_CLOSE nt) as [|e2 c2|]; cbn [nohost_post]; auto. }
    destruct (rx R_EXPR_UNARY_OP text) as [|e c|]; cbn [nohost_post]; auto.
    2:{ pose proof (IHu (skipn e text)) as U1.
        destruct (parse_unary f (skipn e text)) as [[ex nt]|msg n|w|]; cbn [nohost_post] in U1 |- *; auto. }
    destruct (rx R_EXPR_FUNCTION_OPEN text) as [|e c|]; cbn [nohost_post]; auto.
    2:{ pose proof (IHa (skipn e text) []) as A1.
        destruct (parse_args f (skipn e text) []) as [[args rest]|msg n|w|]; cbn [nohost_post] in A1 |- *; auto. }
    destruct (rx R_EXPR_NUMBER text) as [|e c|] eqn:EN; cbn [nohost_post]; auto.
    2:{ (* the only PHost in the source: float() on the matched literal *)
        pose proof (number_literal_parses text e c EN) as NL.
        destruct (py_float (grp text c 1)); cbn [nohost_post]; auto. }
    destruct (rx R_EXPR_STRING text) as [|e c|]; cbn [nohost_post]; auto.
    2:{ destruct (unescape R_EXPR_STRING_ESCAPE (grp text c 1)); cbn [nohost_post]; auto. }
    destruct (rx R_EXPR_STRING_DOUBLE text) as [|e c|]; cbn [nohost_post]; auto.
    2:{ destruct (unescape R_EXPR_STRING_DOUBLE_ESCAPE (grp text c 1)); cbn [nohost_post]; auto. }
    destruct (rx R_EXPR_VARIABLE text) as [|e c|]; cbn [nohost_post]; auto.
    destruct (rx R_EXPR_VARIABLE_EX text) as [|e c|]; cbn [nohost_post]; auto.
    destruct (unescape R_EXPR_VARIABLE_EX_ESCAPE (grp text c 1)); cbn [nohost_post]; auto.
  - intros text acc. cbn [parse_args].
    destruct (rx R_EXPR_FUNCTION_CLOSE text) as [|e c|]; cbn [nohost_post]; auto.
    assert (Hsep : nohost_post (match acc with
                | [] => POk text
                | _ :: _ => match rx R_EXPR_FUNCTION_SEPARATOR text with
                            | MNo => PErr syntax_error (length text)
                            | MYes e _ => POk (skipn e text)
                            | MFuel => PFuel
                            end
                end)).
    { destruct acc; [exact I|]. destruct (rx R_EXPR_FUNCTION_SEPARATOR text); exact I. }
    destruct (match acc with [] => POk text | _ :: _ => _ end) as [t'|msg n|w|]; cbn [nohost_post] in Hsep |- *; auto.
    pose proof (IHb t' None) as B1.
    destruct (parse_binary f t' None) as [[a nt]|msg n|w|]; cbn [nohost_post] in B1 |- *; auto; try apply IHa.
Qed.

Theorem expr_parser_no_host text w : parse_expression text <> EHost w.
Proof.
  unfold parse_expression.
  destruct (parser_nohost (expr_fuel text)) as (Hb & _ & _). specialize (Hb text None).
  destruct (parse_binary (expr_fuel text) text None) as [[e nt]|m n|w'|]; cbn in Hb; try discriminate.
  - destruct (strip nt); discriminate.
  - contradiction.
Qed.

(* no classified line carries a host exception of the expression parser *)
Lemma classify_no_kind_host line k w : ScriptX.classify line = ROk k -> ~ kind_host k w.
Proof.
  unfold ScriptX.classify.
  repeat (match goal with
          | |- context [match rxm ?r ?l with _ => _ end] => destruct (rxm r l) as [|? ?|]
          end; [ | | discriminate ]).
  all: intros H; try (inversion H; subst k; clear H; cbn [kind_host]; try (exact (fun F => F)); try apply expr_parser_no_host).
  - unfold unesc in H. destruct (re_sub _ _ _ _); inversion H. exact (fun F => F).
  - destruct (gtext line c R_SCRIPT_RETURN__expr); [exact (fun F => F) | apply expr_parser_no_host].
  - destruct (gtext line c R_SCRIPT_JUMP__expr); [exact (fun F => F) | apply expr_parser_no_host].
Qed.

(* ================= (b) the pending jump of an open if ================= *)
(* the frame of an if/elif branch without else remembers the position of a conditional jump in the statement list *)
Definition jok (o : list stmt) (f : frame) : Prop :=
  match f with
  | FIf pos _ _ false _ _ => exists p cnd, nth_error o pos = Some (SJump p cnd)
  | _ => True
  end.

(* frames = top ++ bot as in C07's PInv: top belongs to the statement list under construction, bot are the global frames
   suspended while a function is open *)
Definition JInv (ps : pstate) : Prop :=
  exists top bot,
    ps_frames ps = top ++ bot /\ length bot = depth_floor ps /\
    Forall (jok (cur_stmts ps)) top /\
    match ps_fn ps with Some _ => Forall (jok (ps_global ps)) bot | None => True end.

Lemma jok_app o add f : jok o f -> jok (o ++ add) f.
Proof.
  destruct f as [pos p d [|] ln lno| |]; cbn; auto. intros (q & cnd & H). exists q, cnd.
  rewrite nth_error_app1; [exact H|]. apply nth_error_Some. congruence.
Qed.

Lemma Forall_jok_app o add fs : Forall (jok o) fs -> Forall (jok (o ++ add)) fs.
Proof. apply Forall_impl. intros f. apply jok_app. Qed.

Lemma retarget_keeps_jumps d : forall c pos c', retarget pos d c = Some c' ->
  forall pos' p cnd, nth_error c pos' = Some (SJump p cnd) -> exists p', nth_error c' pos' = Some (SJump p' cnd).
Proof.
  induction c as [|s c IH]; intros pos c' R pos' p cnd H; [rewrite retarget_nil in R; discriminate|].
  destruct pos as [|pos].
  - rewrite retarget_0 in R. destruct s; try discriminate. inversion R; subst c'. destruct pos' as [|pos']; cbn in H |- *.
    + inversion H; subst. eauto.
    + eauto.
  - rewrite retarget_S in R. destruct (retarget pos d c) as [c1|] eqn:R1; [|discriminate]. cbn in R. inversion R; subst c'.
    destruct pos' as [|pos']; cbn in H |- *; [eauto | eapply IH; eauto].
Qed.

Lemma jok_retarget o o' pos d f : retarget pos d o = Some o' -> jok o f -> jok o' f.
Proof.
  intros R. destruct f as [pos' p d' [|] ln lno| |]; cbn; auto. intros (q & cnd & H).
  destruct (retarget_keeps_jumps d o pos o' R pos' q cnd H) as [q' H']. eauto.
Qed.

Lemma JInv_put ps top bot o' top' n' :
  ps_frames ps = top ++ bot -> length bot = depth_floor ps ->
  match ps_fn ps with Some _ => Forall (jok (ps_global ps)) bot | None => True end ->
  Forall (jok o') top' -> JInv (put ps o' (top' ++ bot) n').
Proof.
  destruct ps as [g [fo|] fd fr ix]; cbn; intros Hfr Hlen Hg HI; exists top', bot; cbn; auto.
Qed.

Lemma jok_loop o f : is_if_frame f = false -> jok o f.
Proof. destruct f; cbn; auto; discriminate. Qed.

Lemma mark_continue_loop f : is_if_frame f = false -> is_if_frame (mark_continue f) = false.
Proof. destruct f; cbn; auto. Qed.

Theorem kstep_jinv ps lineno line k ps' : JInv ps -> kstep ps lineno line k = ROk ps' -> JInv ps'.
Proof.
  intros (top & bot & Hfr & Hlen & HI & Hg) H.
  pose proof (JInv_put ps top bot) as PUT. specialize (fun o' top' n' => PUT o' top' n' Hfr Hlen Hg).
  destruct k as [nm e|nm args asy la| |e|re| | |e| |vn ixn e| | | |name|name cnd|e|url sys|e]; cbn [kstep] in H.
  - (* assignment *)
    rok H. rewrite put_emit, Hfr. apply PUT. apply Forall_jok_app. exact HI.
  - (* function begin *)
    destruct (ps_fn ps) eqn:Efn; [discriminate|]. destruct args as [a| | |]; try discriminate. rok H.
    unfold depth_floor in Hlen. rewrite Efn in Hlen. destruct bot; [|discriminate]. rewrite app_nil_r in Hfr.
    unfold cur_stmts in HI. rewrite Efn in HI.
    exists [], top. cbn. rewrite Hfr. split; [reflexivity|]. split; [reflexivity|]. split; [constructor | exact HI].
  - (* function end *)
    destruct (ps_fn ps) as [fo|] eqn:Efn; [|discriminate].
    destruct (Nat.ltb_spec (ps_fn_depth ps) (length (ps_frames ps))) as [Hlt|Hge]; [destruct (ps_frames ps); discriminate|].
    rok H. unfold depth_floor in Hlen. rewrite Efn in Hlen. rewrite Hfr, app_length in Hge.
    destruct top; [|cbn in Hge; lia]. cbn in Hfr.
    exists bot, []. cbn. rewrite app_nil_r. split; [exact Hfr|]. split; [reflexivity|]. split; [|exact I].
    apply Forall_jok_app. exact Hg.
  - (* if *)
    rok H. rewrite put_emit, put_set_frames, put_bump, Hfr.
    change (?f :: top ++ bot) with ((f :: top) ++ bot).
    apply PUT. constructor; [|apply Forall_jok_app; exact HI].
    cbn. eexists _, _. rewrite nth_error_app2 by lia. rewrite Nat.sub_diag. reflexivity.
  - (* elif *)
    rewrite (visible_top ps top bot Hfr Hlen) in H.
    destruct top as [|[pos p d [|] ln lno| |] top]; try discriminate. destruct re as [e| | |]; try discriminate. rok H.
    rewrite put_emit, put_set_frames, put_bump.
    change (?f :: top ++ bot) with ((f :: top) ++ bot).
    inversion HI; subst.
    apply PUT. constructor; [|apply Forall_jok_app; assumption].
    cbn. eexists _, _. rewrite nth_error_app2 by lia. replace (length (cur_stmts ps) + 2 - length (cur_stmts ps)) with 2 by lia. reflexivity.
  - (* else *)
    rewrite (visible_top ps top bot Hfr Hlen) in H.
    destruct top as [|[pos p d [|] ln lno| |] top]; try discriminate. rok H.
    rewrite put_emit, put_set_frames.
    change (?f :: top ++ bot) with ((f :: top) ++ bot).
    inversion HI; subst.
    apply PUT. constructor; [exact I | apply Forall_jok_app; assumption].
  - (* endif *)
    rewrite (visible_top ps top bot Hfr Hlen) in H.
    destruct top as [|[pos p d [|] ln lno| |] top]; try discriminate.
    + rok H. rewrite put_set_stmts, put_set_frames. inversion HI; subst.
      apply PUT. apply Forall_jok_app. assumption.
    + destruct (retarget pos d (cur_stmts ps)) as [o'|] eqn:R; [|discriminate]. rok H.
      rewrite put_set_stmts, put_set_frames. inversion HI; subst.
      apply PUT. apply Forall_jok_app.
      match goal with F : Forall _ top |- _ => revert F end. apply Forall_impl. intros f. eapply jok_retarget. exact R.
  - (* while *)
    rok H. rewrite put_emit, put_set_frames, put_bump, Hfr.
    change (?f :: top ++ bot) with ((f :: top) ++ bot).
    apply PUT. constructor; [exact I | apply Forall_jok_app; exact HI].
  - (* endwhile *)
    rewrite (leb_top ps top bot Hfr Hlen) in H. rewrite Hfr in H.
    destruct top as [|[|l c d e hc ln lno|] top]; try discriminate. cbn [app] in H. rok H.
    rewrite put_emit, put_set_frames. inversion HI; subst.
    apply PUT. apply Forall_jok_app. assumption.
  - (* for *)
    rok H. rewrite put_emit, put_set_frames, put_bump, Hfr.
    change (?f :: top ++ bot) with ((f :: top) ++ bot).
    apply PUT. constructor; [exact I | apply Forall_jok_app; exact HI].
  - (* endfor *)
    rewrite (leb_top ps top bot Hfr Hlen) in H. rewrite Hfr in H.
    destruct top as [|[| |l c d ix vs len v hc ln lno] top]; try discriminate. cbn [app] in H. rok H.
    rewrite put_emit, put_set_frames. inversion HI; subst.
    apply PUT. apply Forall_jok_app. assumption.
  - (* break *)
    destruct (find_loop (ps_frames ps) 0) as [[k f]|] eqn:E; [|discriminate].
    destruct (Nat.ltb_spec (length (ps_frames ps) - 1 - k) (depth_floor ps)) as [Hlt|Hge]; [discriminate|]. rok H.
    rewrite put_emit, Hfr. apply PUT. apply Forall_jok_app. exact HI.
  - (* continue *)
    destruct (find_loop (ps_frames ps) 0) as [[k f]|] eqn:E; [|discriminate].
    destruct (Nat.ltb_spec (length (ps_frames ps) - 1 - k) (depth_floor ps)) as [Hlt|Hge]; [discriminate|]. rok H.
    rewrite Hfr, find_loop_app in E. rewrite Hfr, app_length, <- Hlen in Hge.
    destruct (find_loop top 0) as [[k1 f1]|] eqn:E1.
    + injection E as <- <-. destruct (find_loop_split _ _ _ _ E1) as (pre & post & -> & Hif & ->).
      rewrite put_emit_set_frames, Hfr. cbn [plus]. rewrite <- app_assoc. cbn [app]. rewrite set_nth_frame_split.
      change (pre ++ ?g :: post ++ bot) with (pre ++ (g :: post) ++ bot). rewrite app_assoc.
      apply PUT. apply Forall_jok_app.
      apply Forall_app in HI. destruct HI as [HI1 HI2]. inversion HI2; subst.
      apply Forall_app. split; [exact HI1|]. constructor; [|assumption].
      apply jok_loop. apply mark_continue_loop. exact Hif.
    + destruct (find_loop_split _ _ _ _ E) as (pre & post & Hb & _ & Hk1). rewrite Hb, app_length in Hge. cbn in Hge, Hk1. lia.
  - (* label *)
    rok H. rewrite put_emit, Hfr. apply PUT. apply Forall_jok_app. exact HI.
  - (* jump *)
    rok H. rewrite put_emit, Hfr. apply PUT. apply Forall_jok_app. exact HI.
  - (* return *)
    rok H. rewrite put_emit, Hfr. apply PUT. apply Forall_jok_app. exact HI.
  - (* include *)
    destruct (last_is_include (cur_stmts ps)) as [[front incs]|] eqn:E; rok H.
    + apply last_is_include_spec in E. rewrite put_set_stmts, Hfr. apply PUT. rewrite E in HI.
      revert HI. apply Forall_impl. intros f. destruct f as [pos p d [|] ln lno| |]; cbn; auto.
      intros (q & cnd & Hn). exists q, cnd.
      assert (pos < length front).
      { destruct (Nat.lt_ge_cases pos (length front)) as [|Hge]; [auto|]. rewrite nth_error_app2 in Hn by lia.
        destruct (pos - length front) as [|[|z]]; cbn in Hn; discriminate. }
      rewrite nth_error_app1 in * by lia. exact Hn.
    + rewrite put_emit, Hfr. apply PUT. apply Forall_jok_app. exact HI.
  - (* expression *)
    rok H. rewrite put_emit, Hfr. apply PUT. apply Forall_jok_app. exact HI.
Qed.

Lemma JInv_init : JInv ps_init.
Proof. exists [], []. cbn. repeat split; constructor. Qed.

Lemma pstep_jinv ps n line ps' : JInv ps -> pstep ps n line = ROk ps' -> JInv ps'.
Proof.
  intros HI H. rewrite pstep_classify in H.
  destruct (Lower.classify n line) as [k| | |]; try discriminate. cbn in H. eapply kstep_jinv; eauto.
Qed.

(* the model's endif finds the jump it retargets, for EVERY program (no premise on user labels) *)
Lemma endif_finds_its_jump_always ps n line w : JInv ps -> apply_kind ps n line KEndIf <> RHost w.
Proof.
  intros (top & bot & Hfr & Hlen & HI & _) H. cbn [apply_kind] in H. rewrite (visible_top ps top bot Hfr Hlen) in H.
  destruct top as [|[pos p d [|] ln lno| |] top]; try discriminate.
  inversion HI as [|? ? Ff F']; subst. cbn in Ff. destruct Ff as (q & cnd & Hn).
  destruct (retarget_some d q cnd _ _ Hn) as [c' R]. rewrite R in H. discriminate.
Qed.

Theorem pstep_no_host ps n line w : JInv ps -> pstep ps n line <> RHost w.
Proof.
  intros HI H. rewrite pstep_is_classify_apply in H. unfold pstep2 in H.
  destruct (ScriptX.classify line) as [k| |w1|] eqn:C; try discriminate.
  - destruct (apply_kind_host _ _ _ _ _ H) as [K|[-> _]].
    + eapply classify_no_kind_host; eauto.
    + eapply endif_finds_its_jump_always; eauto.
  - eapply classify_not_host. exact C.
Qed.

Lemma pfold_no_host lls : forall ps start w, JInv ps -> pfold lls ps start <> RHost w.
Proof.
  induction lls as [|[i line] t IH]; intros ps start w HI; cbn [pfold]; [discriminate|].
  destruct (pstep ps (start + i) line) as [ps1| |w1|] eqn:E; try discriminate.
  - apply IH. eapply pstep_jinv; eauto.
  - exfalso. eapply pstep_no_host; eauto.
Qed.

Theorem parse_script_total chunks start w : parse_script chunks start <> RHost w.
Proof.
  rewrite parse_script_lines. destruct (split_chunks_cases chunks) as [[lines E]|E]; rewrite E; [|discriminate].
  rewrite parse_lines_view.
  destruct (llines_bounds lines 0 ls_init lok_init) as (_ & _ & B3).
  destruct (llines lines 0 ls_init) as [lls t] eqn:L. cbn [fst snd] in *.
  pose proof (pfold_no_host lls ps_init start) as P.
  destruct (pfold lls ps_init start) as [ps'| |w1|]; try discriminate.
  - destruct t as [ls'|r]; [apply pfinish_not_host|]. rewrite (B3 r eq_refl). discriminate.
  - exfalso. eapply P; [apply JInv_init | reflexivity].
Qed.
