(* Proofs/C01side3.v — the syntactic criterion of Proofs/C01side2.v on SOURCE trees: a program whose own names are not of the reserved
   form `__bareScript...` (and whose nested loops do not reuse or assign the index variable of an enclosing loop) satisfies
   [no_temp_assign] after [uname] has given every loop the parser's names, for every start value of the label counter. *)
From Coq Require Import Lia List Bool ZArith.
From BS Require Import Model.Base Model.Num Model.Arith Model.ExprParser Model.Script Model.Interp Model.Lower Model.RunC01
                       Proofs.BaseFacts Proofs.C07 Proofs.C01 Proofs.C01for Proofs.C01forN Proofs.C01forReal Proofs.C01u Proofs.C01uReal
                       Proofs.Fuel Proofs.Blind Proofs.C01b Proofs.C01side Proofs.C01side2 Proofs.C01sideReal.
Import ListNotations.

(* the names a SOURCE tree assigns itself: assignment targets, value variables, the index variables it names *)
Definition idx_names (idx : str) : list str := match idx with [] => [] | _ => [idx] end.
Fixpoint uassigned (s : unistmt) : list str :=
  match s with
  | NSeq a b => uassigned a ++ uassigned b
  | NAssign x _ => [x]
  | NIf _ a rest => uassigned a ++ uassigned rest
  | NElse b | NWhile _ b => uassigned b
  | NFor _ _ idx x _ body => idx_names idx ++ x :: uassigned body
  | _ => []
  end.

(* none of them is reserved; a named index variable is a plain name, differs from the value variable, and is not assigned in the body *)
Fixpoint user_ok (s : unistmt) : bool :=
  match s with
  | NSeq a b => user_ok a && user_ok b
  | NAssign x _ => negb (reserved x)
  | NIf _ a rest => user_ok a && user_ok rest
  | NElse b | NWhile _ b => user_ok b
  | NFor _ _ idx x _ body =>
    negb (reserved x) && negb (reserved idx) &&
    match idx with [] => true | _ => plainb idx && negb (str_eqb x idx) && negb (str_mem idx (uassigned body)) end &&
    user_ok body
  | _ => true
  end.

Definition TEMP_PREFIXES : list str := [L_Values; L_Length; L_Index].

Lemma temp_reserved K j : In K TEMP_PREFIXES -> reserved (lbl K j) = true.
Proof. intros H. cbn in H. destruct H as [<-|[<-|[<-|[]]]]; reflexivity. Qed.

Lemma temp_inj K j K' j' : In K TEMP_PREFIXES -> In K' TEMP_PREFIXES -> lbl K j = lbl K' j' -> j = j'.
Proof.
  intros H H' E. cbn in H, H'.
  destruct H as [<-|[<-|[<-|[]]]]; destruct H' as [<-|[<-|[<-|[]]]]; unfold lbl in E;
    try (apply app_inv_head in E; apply nat_to_str_inj in E; exact E);
    exfalso; vm_compute in E; discriminate E.
Qed.

Lemma user_names_not_reserved : forall s y, user_ok s = true -> In y (uassigned s) -> reserved y = false.
Proof.
  induction s as [ |a IHa b IHb|x e|e|e| | |c a IHa rest IHr|b IHb|c b IHb|vals len idx x e body IHb]; intros y H Hy;
    cbn [user_ok uassigned] in *; try contradiction.
  - apply andb_prop in H. destruct H. apply in_app_or in Hy. destruct Hy; eauto.
  - destruct Hy as [<-|[]]. apply negb_true_iff in H. exact H.
  - apply andb_prop in H. destruct H. apply in_app_or in Hy. destruct Hy; eauto.
  - eauto.
  - eauto.
  - repeat (apply andb_prop in H; destruct H as [H ?]). apply negb_true_iff in H. apply in_app_or in Hy. destruct Hy as [Hy|[<-|Hy]].
    + destruct idx; [contradiction|]. destruct Hy as [<-|[]]. apply negb_true_iff. assumption.
    + exact H.
    + eauto.
Qed.

Lemma uname_mono : forall s n, n <= snd (uname n s).
Proof.
  induction s as [ |a IHa b IHb|x e|e|e| | |c a IHa rest IHr|b IHb|c b IHb|vals len idx x e body IHb]; intros n; cbn [uname snd]; try lia.
  - specialize (IHa n). destruct (uname n a) as [a' n1]. specialize (IHb n1). destruct (uname n1 b) as [b' n2]. cbn [snd] in *. lia.
  - specialize (IHa (S n)). destruct (uname (S n) a) as [a' n1]. specialize (IHr n1). destruct (uname n1 rest) as [r' n2]. cbn [snd] in *. lia.
  - specialize (IHb n). destruct (uname n b) as [b' n1]. cbn [snd] in *. lia.
  - specialize (IHb (S n)). destruct (uname (S n) b) as [b' n1]. cbn [snd] in *. lia.
  - specialize (IHb (S n)). destruct (uname (S n) body) as [b' n1]. cbn [snd] in *. lia.
Qed.

(* what the named tree assigns: the source's own names, or a bookkeeping name whose number is in the counter range of the tree *)
Definition TempIn (n n' : nat) (y : str) : Prop := exists K j, In K TEMP_PREFIXES /\ y = lbl K j /\ n <= j < n'.

Lemma assigned_named : forall s n y, In y (assigned (fst (uname n s))) ->
  In y (uassigned s) \/ TempIn n (snd (uname n s)) y.
Proof.
  induction s as [ |a IHa b IHb|x e|e|e| | |c a IHa rest IHr|b IHb|c b IHb|vals len idx x e body IHb]; intros n y Hy;
    cbn [uname fst snd assigned uassigned] in *; try contradiction; try (left; exact Hy).
  - pose proof (uname_mono a n) as Ma. specialize (IHa n y). destruct (uname n a) as [a' n1].
    pose proof (uname_mono b n1) as Mb. specialize (IHb n1 y). destruct (uname n1 b) as [b' n2]. cbn [fst snd assigned] in *.
    apply in_app_or in Hy. destruct Hy as [Hy|Hy].
    + destruct (IHa Hy) as [H|(K & j & HK & -> & Hj)]; [left; apply in_or_app; auto|right; exists K, j; repeat split; auto; lia].
    + destruct (IHb Hy) as [H|(K & j & HK & -> & Hj)]; [left; apply in_or_app; auto|right; exists K, j; repeat split; auto; lia].
  - pose proof (uname_mono a (S n)) as Ma. specialize (IHa (S n) y). destruct (uname (S n) a) as [a' n1].
    pose proof (uname_mono rest n1) as Mb. specialize (IHr n1 y). destruct (uname n1 rest) as [r' n2]. cbn [fst snd assigned] in *.
    apply in_app_or in Hy. destruct Hy as [Hy|Hy].
    + destruct (IHa Hy) as [H|(K & j & HK & -> & Hj)]; [left; apply in_or_app; auto|right; exists K, j; repeat split; auto; lia].
    + destruct (IHr Hy) as [H|(K & j & HK & -> & Hj)]; [left; apply in_or_app; auto|right; exists K, j; repeat split; auto; lia].
  - specialize (IHb n y). destruct (uname n b) as [b' n1]. cbn [fst snd assigned] in *. auto.
  - pose proof (uname_mono b (S n)) as Mb. specialize (IHb (S n) y). destruct (uname (S n) b) as [b' n1]. cbn [fst snd assigned] in *.
    destruct (IHb Hy) as [H|(K & j & HK & -> & Hj)]; [left; exact H|right; exists K, j; repeat split; auto; lia].
  - pose proof (uname_mono body (S n)) as Mb. specialize (IHb (S n) y). destruct (uname (S n) body) as [b' n1]. cbn [fst snd assigned] in *.
    destruct Hy as [<-|[<-|[<-|[<-|Hy]]]].
    + right. exists L_Values, n. repeat split; [cbn; auto|lia|lia].
    + right. exists L_Length, n. repeat split; [cbn; auto|lia|lia].
    + destruct idx as [|c0 t0]; [right; exists L_Index, n; repeat split; [cbn; auto|lia|lia]|left; cbn; auto].
    + left. apply in_or_app. right. left. reflexivity.
    + destruct (IHb Hy) as [H|(K & j & HK & -> & Hj)]; [left; apply in_or_app; right; right; exact H|right; exists K, j; repeat split; auto; lia].
Qed.

Lemma reserved_neq a b : reserved a = true -> reserved b = false -> a <> b.
Proof. intros Ha Hb E. subst b. congruence. Qed.

(* THE COROLLARY *)
Theorem user_ok_no_temp_assign : forall s n, user_ok s = true -> no_temp_assign (fst (uname n s)) = true.
Proof.
  induction s as [ |a IHa b IHb|x e|e|e| | |c a IHa rest IHr|b IHb|c b IHb|vals len idx x e body IHb]; intros n H;
    cbn [user_ok uname] in *; try reflexivity.
  - apply andb_prop in H. destruct H as [Ha Hb]. specialize (IHa n Ha). destruct (uname n a) as [a' n1]. specialize (IHb n1 Hb).
    destruct (uname n1 b) as [b' n2]. cbn [fst no_temp_assign] in *. rewrite IHa, IHb. reflexivity.
  - apply andb_prop in H. destruct H as [Ha Hr]. specialize (IHa (S n) Ha). destruct (uname (S n) a) as [a' n1]. specialize (IHr n1 Hr).
    destruct (uname n1 rest) as [r' n2]. cbn [fst no_temp_assign] in *. rewrite IHa, IHr. reflexivity.
  - specialize (IHb n H). destruct (uname n b) as [b' n1]. exact IHb.
  - specialize (IHb (S n) H). destruct (uname (S n) b) as [b' n1]. exact IHb.
  - apply andb_prop in H. destruct H as [H Hb]. apply andb_prop in H. destruct H as [H Hi]. apply andb_prop in H. destruct H as [Hx Hri].
    apply negb_true_iff in Hx, Hri.
    pose proof (assigned_named body (S n)) as HA. pose proof (user_names_not_reserved body) as HU.
    specialize (IHb (S n) Hb). destruct (uname (S n) body) as [b' n1]. cbn [fst snd no_temp_assign] in *.
    (* a bookkeeping name of THIS loop (number n) is not assigned in the named body (numbers > n, or non-reserved names) *)
    assert (Hfresh : forall K, In K TEMP_PREFIXES -> ~ In (lbl K n) (assigned b')).
    { intros K HK Hin. destruct (HA _ Hin) as [Hu|(K' & j & HK' & E & Hj)].
      - pose proof (temp_reserved K n HK) as Hr. rewrite (HU _ Hb Hu) in Hr. discriminate Hr.
      - apply (temp_inj _ _ _ _ HK HK') in E. lia. }
    pose proof (reserved_names_ok n) as Hn. unfold names_okb in Hn.
    repeat (apply andb_prop in Hn; destruct Hn as [Hn ?]).
    rewrite IHb, andb_true_r. rewrite !andb_true_iff, !negb_mem. unfold names_okb. rewrite !andb_true_iff.
    assert (Hxv : x <> lbl L_Values n) by (apply not_eq_sym; apply reserved_neq; [reflexivity|exact Hx]).
    assert (Hxl : x <> lbl L_Length n) by (apply not_eq_sym; apply reserved_neq; [reflexivity|exact Hx]).
    destruct idx as [|c0 t0].
    + (* the parser's index variable *)
      assert (Hxi : x <> lbl L_Index n) by (apply not_eq_sym; apply reserved_neq; [reflexivity|exact Hx]).
      repeat split; try assumption; try (apply Hfresh; cbn; auto).
      intros [E|[E|[E|[]]]]; congruence.
    + (* the source's index variable *)
      apply andb_prop in Hi. destruct Hi as [Hi Hnb]. apply andb_prop in Hi. destruct Hi as [Hp Hxi].
      apply negb_mem in Hnb. apply str_neq in Hxi.
      assert (Eq : forall K, In K TEMP_PREFIXES -> negb (str_eqb (lbl K n) (c0 :: t0)) = true).
      { intros K HK. apply negb_true_iff. apply str_eqb_neq. apply reserved_neq; [apply temp_reserved; exact HK|exact Hri]. }
      repeat split; try assumption; try (apply Eq; cbn; auto); try (apply Hfresh; cbn; auto).
      * intros [E|[E|[E|[]]]]; congruence.
      * intros Hin. destruct (HA _ Hin) as [Hu|(K' & j & HK' & E & Hj)]; [exact (Hnb Hu)|].
        rewrite E in Hri. rewrite (temp_reserved K' j HK') in Hri. discriminate.
Qed.

Theorem user_ok_no_shadow : forall s n, user_ok s = true -> ~ In ARRLEN (uassigned s) -> ~ In ARRGET (uassigned s) ->
  no_shadow (fst (uname n s)) = true.
Proof.
  intros s n H H1 H2. apply no_shadow_iff. split; intros Hin; destruct (assigned_named s n _ Hin) as [Hu|(K & j & HK & E & _)];
    try (exact (H1 Hu)); try (exact (H2 Hu));
    pose proof (temp_reserved K j HK) as Hr; rewrite <- E in Hr; vm_compute in Hr; discriminate Hr.
Qed.

(* the whole-scope simulation for the reading without side conditions, the criterion stated on the SOURCE tree *)
Theorem total_for_rules_simulation_source : forall cfg, c_max cfg = 0%Z ->
  forall lib url_rel lint_lines, lib_fuel_monotone lib -> lib_count_blind lib ->
  arrayLength_contract lib -> arrayGet_contract lib ->
  forall len_msg get_msg, arrayLength_fail_contract lib len_msg -> arrayGet_range_contract lib get_msg ->
  forall um n s loc w o loc' w',
  XExec cfg len_msg get_msg (EvQ cfg lib url_rel lint_lines um (Keeps (protected (fscope (loc, w)) (fst (uname n s)))))
        false (fst (uname n s)) (loc, w) o (loc', w') ->
  uwf false (fst (uname n s)) = true -> uguard s = true ->
  user_ok s = true -> ~ In ARRLEN (uassigned s) -> ~ In ARRGET (uassigned s) -> LibOK (loc, w) ->
  forall wm, weq w wm ->
  exists out wm', scope_result o = Some out /\ weq w' wm' /\
    Run cfg lib url_rel lint_lines um (ucompile_real n s) 0 loc wm (out, loc', wm').
Proof.
  intros cfg Hunl lib url_rel lint_lines Hf Hb Hl Hg len_msg get_msg Hlf Hgr um n s loc w o loc' w' H Hwf Hgd HU H1 H2 HL wm Hw.
  eapply total_for_rules_simulation; try eassumption.
  - apply user_ok_no_temp_assign. exact HU.
  - apply user_ok_no_shadow; assumption.
Qed.
