(* Proofs/RegexTrail2.v — trailing white space and a statement regex that ends with  X \s*$  after a literal non-space
   character X (`:` for the block headers and labels, the closing quote / `>` of include, the last letter of a keyword):
   the engine's answer on  line ++ ws  is MNo iff it is MNo on  line,  and a match has the SAME captures (only the end of
   the whole match moves).

     m_trail2 / ev_trail2   Proofs/RegexTrail.v m_trail generalised from "equal answers" to  sim  (same kind of answer, same
                            captures), needed because the `\s*$` tail ends |ws| characters later;
     ev_eol_tail            \s*$ succeeds exactly on white subjects (with the engine's own backtracking order);
     stmt_trail             the statement. *)
From Coq Require Import Lia.
From BS Require Import Model.Base Model.Regex Model.Script Gen.Unicode Gen.Regexes Proofs.RegexFacts Proofs.RegexComplete
  Proofs.RegexShift Proofs.RegexEval Proofs.C10ws Proofs.RegexTrail.

Definition sim (a b : mres) : Prop :=
  match a, b with MNo, MNo => True | MYes _ c1, MYes _ c2 => c1 = c2 | _, _ => False end.
Definition agree2 (a b : mres) : Prop := a = MFuel \/ b = MFuel \/ sim a b.

Lemma sim_refl a : a <> MFuel -> sim a a.
Proof. destruct a; cbn; auto. Qed.

Lemma agree2_refl a : agree2 a a.
Proof. destruct a; [right; right; exact I | right; right; reflexivity | left; reflexivity]. Qed.

Section Trail2.
Variable ws : str.
Hypothesis Wws : white ws.

Lemma m_trail2 : forall f r pos rest c k k', no_look r = true -> no_eol r = true ->
  (forall p r' c', agree2 (k' p (r' ++ ws) c') (k p r' c')) ->
  (forall p u c', white u -> nf (k' p u c')) ->
  agree2 (m UC f r pos (rest ++ ws) c k') (m UC f r pos rest c k).
Proof.
  induction f as [|f IH]; intros r pos rest c k k' NL NE K1 K2; [left; reflexivity|].
  assert (AT : forall (p : N -> bool),
    agree2 (match rest ++ ws with y :: t => if p y then k' (S pos) t c else MNo | [] => MNo end)
           (match rest with y :: t => if p y then k (S pos) t c else MNo | [] => MNo end)).
  { intros p. destruct rest as [|y t]; cbn [app].
    - destruct ws as [|y u]; [right; right; exact I|]. destruct (p y); [|right; right; exact I].
      destruct (K2 (S pos) u c (white_tail _ _ Wws)) as [A|A]; rewrite A; [right; right; exact I | left; reflexivity].
    - destruct (p y); [apply K1 | right; right; exact I]. }
  destruct r; cbn [m]; cbn [no_look] in NL; cbn [no_eol] in NE.
  - apply K1.
  - exact (AT (fun y => (y =? c0)%N)).
  - pose proof (AT (fun y => negb (y =? c0)%N)) as A.
    destruct (rest ++ ws) as [|y t], rest as [|y2 t2]; try exact A;
      try (destruct (y =? c0)%N); try (destruct (y2 =? c0)%N); exact A.
  - pose proof (AT (fun y => negb (y =? 10)%N)) as A.
    destruct (rest ++ ws) as [|y t], rest as [|y2 t2]; try exact A;
      try (destruct (y =? 10)%N); try (destruct (y2 =? 10)%N); exact A.
  - exact (AT (class_match UC neg items)).
  - destruct (Nat.eqb pos 0); [apply K1 | right; right; exact I].
  - discriminate.
  - apply andb_true_iff in NL. destruct NL as [LA LB]. apply andb_true_iff in NE. destruct NE as [EA EB].
    apply IH; [exact LA | exact EA | |].
    + intros p r' c'. apply IH; assumption.
    + intros p u c' W. apply m_white_no; assumption.
  - apply andb_true_iff in NL. destruct NL as [LA LB]. apply andb_true_iff in NE. destruct NE as [EA EB].
    destruct (IH r1 pos rest c k k' LA EA K1 K2) as [A|[A|A]].
    + rewrite A. left; reflexivity.
    + rewrite A. right; left; reflexivity.
    + destruct (m UC f r1 pos (rest ++ ws) c k') as [|e1 c1|], (m UC f r1 pos rest c k) as [|e2 c2|]; cbn [sim] in A;
        try contradiction; [apply IH; assumption | right; right; exact A].
  - set (more := match mx with
                 | Some 0 => MNo
                 | _ => m UC f r pos rest c (fun p r' c' => if Nat.eqb p pos then MNo
                           else m UC f (RRep (pred mn) (option_map pred mx) r) p r' c' k)
                 end).
    set (more' := match mx with
                 | Some 0 => MNo
                 | _ => m UC f r pos (rest ++ ws) c (fun p r' c' => if Nat.eqb p pos then MNo
                           else m UC f (RRep (pred mn) (option_map pred mx) r) p r' c' k')
                 end).
    assert (A : agree2 more' more).
    { subst more more'. destruct mx as [[|?]|]; [right; right; exact I| |];
        (apply IH; [exact NL | exact NE | |];
         [ intros p r' c'; destruct (Nat.eqb p pos); [right; right; exact I|]; apply IH; assumption
         | intros p u c' W; destruct (Nat.eqb p pos); [left; reflexivity|]; apply m_white_no; assumption ]). }
    destruct A as [A|[A|A]].
    + rewrite A. left; reflexivity.
    + rewrite A. right; left; reflexivity.
    + destruct more' as [|e1 c1|], more as [|e2 c2|]; cbn [sim] in A; try contradiction;
        [destruct mn; [apply K1 | right; right; exact I] | right; right; exact A].
  - apply IH; [exact NL | exact NE | |].
    + intros p r' c'. apply K1.
    + intros p u c' W. apply K2. exact W.
  - discriminate.
Qed.

Lemma ev_trail2 r pos rest c k k' : no_look r = true -> no_eol r = true ->
  (forall p r' c', sim (k' p (r' ++ ws) c') (k p r' c')) ->
  (forall p u c', white u -> k' p u c' = MNo) ->
  (forall p r' c', k p r' c' <> MFuel) -> (forall p r' c', k' p r' c' <> MFuel) ->
  sim (ev UC r pos (rest ++ ws) c k') (ev UC r pos rest c k).
Proof.
  intros NL NE K1 K2 F F'.
  set (G := rsize r * (length (rest ++ ws) + 1)).
  assert (G1 : rsize r * (length rest + 1) <= G) by (subst G; rewrite app_length; nia).
  rewrite <- (m_ev UC G r pos (rest ++ ws) c k') by (try (intros; apply F'); subst G; lia).
  rewrite <- (m_ev UC G r pos rest c k) by (try (intros; apply F); exact G1).
  pose proof (m_no_fuel UC G r pos (rest ++ ws) c k' (le_n _) (fun p r' c' _ _ => F' p r' c')) as N1.
  pose proof (m_no_fuel UC G r pos rest c k G1 (fun p r' c' _ _ => F p r' c')) as N2.
  destruct (m_trail2 G r pos rest c k k' NL NE) as [A|[A|A]].
  - intros p r' c'. right; right. apply K1.
  - intros p u c' W. left. apply K2. exact W.
  - congruence.
  - congruence.
  - exact A.
Qed.
End Trail2.

(* ---------- the tail  \s*$ ---------- *)
Definition cmWs : N -> bool := class_match UC false [CCat CatSpace].
Definition is_sp (y : N) : bool := is_space UC y.

Lemma cmWs_is y : cmWs y = is_sp y.
Proof. unfold cmWs, class_match, is_sp. rewrite Bool.xorb_false_l. cbn [existsb item_match cat_match]. rewrite orb_false_r. reflexivity. Qed.

Lemma star_eol : forall t p c,
  star_bt cmWs (fun p r c => ev UC REol p r c kfin) p t c = if forallb is_sp t then MYes (p + length t) c else MNo.
Proof.
  induction t as [|y t IH]; intros p c; cbn [star_bt forallb length].
  - rewrite Nat.add_0_r. reflexivity.
  - rewrite cmWs_is. destruct (is_sp y) eqn:Sy; cbn [andb].
    + rewrite IH. destruct (forallb is_sp t) eqn:F.
      * replace (S p + length t) with (p + S (length t)) by lia. reflexivity.
      * cbn [ev]. destruct t as [|z t']; [discriminate F | reflexivity].
    + cbn [ev]. destruct t as [|z t']; [|reflexivity].
      destruct (y =? 10)%N eqn:E; [|reflexivity]. apply N.eqb_eq in E. subst y. discriminate Sy.
Qed.

Lemma ev_eol_tail p t c : ev UC (RCat rsp REol) p t c kfin = if forallb is_sp t then MYes (p + length t) c else MNo.
Proof. rewrite ev_cat. unfold rsp. rewrite (ev_star UC _ _ (one_in UC false _)). fold cmWs. apply star_eol. Qed.

Lemma white_forallb_sp w : white w -> forallb is_sp w = true.
Proof.
  induction w as [|y t IH]; intros W; [reflexivity|]. destruct (white_cons _ _ W) as [S Wt].
  cbn [forallb]. unfold is_sp at 1. rewrite S. exact (IH Wt).
Qed.

(* ---------- cutting a right-nested concatenation before its last three factors ---------- *)
Fixpoint cut (r : regex) : option (regex * regex) :=
  match r with
  | RCat a b =>
      match b with
      | RCat (RLit _) (RCat _ REol) => Some (a, b)
      | _ => match cut b with Some (a', t) => Some (RCat a a', t) | None => None end
      end
  | _ => None
  end.

Lemma ev_cut : forall r A T, cut r = Some (A, T) ->
  forall pos rest c k, ev UC r pos rest c k = ev UC (RCat A T) pos rest c k.
Proof.
  induction r; intros A T H pos rest cc k; cbn [cut] in H; try discriminate.
  assert (G : (Some (r1, r2) = Some (A, T)) \/
              (match cut r2 with Some (a', t) => Some (RCat r1 a', t) | None => None end = Some (A, T))).
  { destruct r2; auto. destruct r2_1; auto. destruct r2_2; auto. destruct r2_2_2; auto. }
  destruct G as [G|G].
  - inversion G; subst. reflexivity.
  - destruct (cut r2) as [[a' t]|] eqn:E; [|discriminate]. inversion G; subst. rewrite ev_cat.
    rewrite (ev_ext UC r1 pos rest cc _ (fun p r' c' => ev UC (RCat a' T) p r' c' k)).
    + reflexivity.
    + intros p r' c'. apply (IHr2 a' T eq_refl).
Qed.

Theorem stmt_trail R A q line ws :
  cut R = Some (A, RCat (RLit q) (RCat rsp REol)) -> no_look A = true -> no_eol A = true -> is_space UC q = false ->
  white ws -> sim (rxm R (line ++ ws)) (rxm R line).
Proof.
  intros H NL NE NQ W. unfold rxm. rewrite !re_match_ev, !(ev_cut R A _ H), !ev_cat.
  assert (NW : forall y u, white (y :: u) -> (y =? q)%N = false).
  { intros y u Wy. destruct (white_cons _ _ Wy) as [S _]. destruct (y =? q)%N eqn:E; [|reflexivity].
    apply N.eqb_eq in E. subst. congruence. }
  assert (T : forall p r' c', ev UC (RCat (RLit q) (RCat rsp REol)) p r' c' kfin =
                match r' with
                | y :: t => if (y =? q)%N then (if forallb is_sp t then MYes (S p + length t) c' else MNo) else MNo
                | [] => MNo
                end).
  { intros p r' c'. rewrite ev_cat. cbn [ev]. destruct r' as [|y t]; [reflexivity|].
    destruct (y =? q)%N; [|reflexivity]. exact (ev_eol_tail (S p) t c'). }
  apply ev_trail2; try assumption.
  - intros p r' c'. rewrite !T. destruct r' as [|y t]; cbn [app].
    + destruct ws as [|y u]; [exact I|]. rewrite (NW y u W). exact I.
    + destruct (y =? q)%N; [|exact I]. rewrite forallb_app, (white_forallb_sp ws W), andb_true_r.
      destruct (forallb is_sp t); [reflexivity | exact I].
  - intros p u c' Wu. rewrite T. destruct u as [|y t]; [reflexivity|]. rewrite (NW y t Wu). reflexivity.
  - intros p r' c'. rewrite T. destruct r' as [|y t]; [discriminate|]. destruct (y =? q)%N; [|discriminate].
    destruct (forallb is_sp t); discriminate.
  - intros p r' c'. rewrite T. destruct r' as [|y t]; [discriminate|]. destruct (y =? q)%N; [|discriminate].
    destruct (forallb is_sp t); discriminate.
Qed.

(* the fifteen statement regexes of that shape *)
Inductive stmt_tail_re : regex -> Prop :=
| st_function_begin : stmt_tail_re R_SCRIPT_FUNCTION_BEGIN | st_function_end : stmt_tail_re R_SCRIPT_FUNCTION_END
| st_label : stmt_tail_re R_SCRIPT_LABEL | st_include : stmt_tail_re R_SCRIPT_INCLUDE
| st_include_system : stmt_tail_re R_SCRIPT_INCLUDE_SYSTEM | st_if_begin : stmt_tail_re R_SCRIPT_IF_BEGIN
| st_if_else_if : stmt_tail_re R_SCRIPT_IF_ELSE_IF | st_if_else : stmt_tail_re R_SCRIPT_IF_ELSE
| st_if_end : stmt_tail_re R_SCRIPT_IF_END | st_for_begin : stmt_tail_re R_SCRIPT_FOR_BEGIN
| st_for_end : stmt_tail_re R_SCRIPT_FOR_END | st_while_begin : stmt_tail_re R_SCRIPT_WHILE_BEGIN
| st_while_end : stmt_tail_re R_SCRIPT_WHILE_END | st_break : stmt_tail_re R_SCRIPT_BREAK
| st_continue : stmt_tail_re R_SCRIPT_CONTINUE.

Theorem stmt_regex_trail R line ws : stmt_tail_re R -> white ws -> sim (rxm R (line ++ ws)) (rxm R line).
Proof.
  intros T W. destruct T;
    (eapply stmt_trail; [vm_compute; reflexivity | reflexivity | reflexivity | reflexivity | exact W]).
Qed.

(* what sim gives: no match stays no match, and every group keeps its text *)
Lemma sub_list_app_le2 {A} (a b : list A) st en : st <= en <= length a -> sub_list (a ++ b) st (en - st) = sub_list a st (en - st).
Proof.
  intros L. unfold sub_list. rewrite skipn_app. replace (st - length a) with 0 by lia. cbn [skipn].
  rewrite firstn_app. replace (en - st - length (skipn st a)) with 0 by (rewrite skipn_length; lia).
  cbn [firstn]. apply app_nil_r.
Qed.

Corollary stmt_regex_trail_groups R line ws : stmt_tail_re R -> white ws ->
  match rxm R line with
  | MNo => rxm R (line ++ ws) = MNo
  | MYes _ c => exists e', rxm R (line ++ ws) = MYes e' c /\
                           forall g, gtext (line ++ ws) c g = gtext line c g
  | MFuel => False
  end.
Proof.
  intros T W. pose proof (stmt_regex_trail R line ws T W) as S.
  pose proof (re_match_no_fuel UC R line) as N1. pose proof (re_match_no_fuel UC R (line ++ ws)) as N2.
  unfold rxm in *. destruct (re_match UC R line) as [|e c|] eqn:E; [| |congruence].
  - destruct (re_match UC R (line ++ ws)); cbn [sim] in S; [reflexivity | contradiction | contradiction].
  - destruct (re_match UC R (line ++ ws)) as [|e' c'|]; cbn [sim] in S; try contradiction. subst c'.
    exists e'. split; [reflexivity|]. intros g.
    destruct (re_match_bounds UC line R e c E) as [_ Ci].
    unfold gtext, group_text. destruct (cap_get g c) as [[a b]|] eqn:G; [|reflexivity].
    rewrite (sub_list_app_le2 line ws a b (Ci g a b G)). reflexivity.
Qed.
