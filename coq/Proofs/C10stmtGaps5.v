(* Proofs/C10stmtGaps5.v — INNER gaps, continued: the for line.

     classify_for_shape         classify n (w1 ++ "for" ++ w2 ++ v ++ w5 ++ "in" ++ w6 ++ T ++ ":" ++ w8)                      = ROk (KFor v [] e)
     classify_for_index_shape   classify n (w1 ++ "for" ++ w2 ++ v ++ w3 ++ "," ++ w4 ++ i ++ w5 ++ "in" ++ w6 ++ T ++ ":" ++ w8) = ROk (KFor v i e)

   for ALL white runs (w2 w5 w6 non-empty: the regex has `\s+` there), identifiers v and i, every LF-free T that starts with a
   non-space character and has parse_expression T = EOk e.  The run in front of the colon belongs to T (the greedy group
   `(.+)` takes it, the parser ignores it).  The optional group `(?:\s*,\s*(ID))?` is read by RegexEval.ev_opt: without an
   index its body fails on the `i` of `in` and the engine goes on without it; with an index the body succeeds and the rest
   of the regex succeeds after it, so the engine never falls back to the reading without the group. *)
From Coq Require Import Lia.
From BS Require Import Model.Base Model.Regex Model.Num Model.NumText Model.ExprParser Model.Script Model.Lower Gen.Unicode Gen.Regexes
  Proofs.RegexFacts Proofs.RegexComplete Proofs.RegexShift Proofs.RegexEval Proofs.C02rx Proofs.C10ws Proofs.C10wsExpr
  Proofs.C10wsFull Proofs.C10wsIndent Proofs.C10wsIndent2 Proofs.C10tokSpaced Proofs.RegexTrail Proofs.C10tokTrail Proofs.RegexTrail2
  Proofs.RegexTrail3 Proofs.C10stmtTrail Proofs.C10parseNoeq Proofs.C10classifyTrail Proofs.C10stmtGaps Proofs.C10stmtGaps2
  Proofs.C10stmtGaps3 Proofs.C10stmtGaps4.

Lemma sp44 : is_space UC 44 = false. Proof. vm_compute. reflexivity. Qed.
Lemma word44 : is_word_u 44 = false. Proof. vm_compute. reflexivity. Qed.
Lemma sp102 : is_space UC 102 = false. Proof. vm_compute. reflexivity. Qed.

Lemma idstart_sp y : idstart y = true -> is_sp y = false.
Proof. intros Y. destruct (is_sp y) eqn:E; [|reflexivity]. unfold is_sp in E. rewrite (idstart_not_space y E) in Y. discriminate. Qed.

Lemma white_hd_word w r : white w -> hd_ok is_word_u r -> hd_ok is_word_u (w ++ r).
Proof. intros W H. destruct w as [|z w']; cbn [app hd_ok]; [exact H|]. destruct (white_cons _ _ W) as [S _]. exact (space_not_word z S). Qed.

(* ---------- (.+)\s*:\s*$ with any group number and capture table ---------- *)
Lemma TAILG_read g p x T' w8 c : nolf (x :: T') -> white w8 ->
  ev UC (RCat (RGroup g (RRep 1 None RAny)) TAILC) p (x :: T' ++ 58%N :: w8) c kfin
  = MYes (p + length (x :: T') + S (length w8)) (cap_set g (p, p + length (x :: T')) c).
Proof.
  intros NT W8. rewrite ev_cat, ev_group. rewrite (ev_plus UC _ _ (one_any UC)).
  unfold nolf in NT. cbn [forallb] in NT. apply andb_true_iff in NT. destruct NT as [N1 N2]. unfold notLF in N1. rewrite N1.
  change (fun y : N => negb (y =? 10)%N) with notLF.
  rewrite star_bt_back; [| exact N2 | |].
  - rewrite KC_colon by exact W8. cbn [length]. f_equal; [lia | f_equal; f_equal; lia].
  - rewrite KC_colon by exact W8. discriminate.
  - intros b1 b2 E NE. apply KC_white. exact (is_suffix_white b1 b2 w8 _ E NE W8).
Qed.

(* ---------- an identifier group ---------- *)
Lemma IDG_read g yv nmv rest p c (k : kont) : idstart yv = true -> forallb is_word_u nmv = true -> hd_ok is_word_u rest ->
  (forall q z t c', is_word_u z = true -> k q (z :: t) c' = MNo) ->
  ev UC (IDG g) p (yv :: nmv ++ rest) c k = k (p + 1 + length nmv) rest (cap_set g (p, p + 1 + length nmv) c).
Proof.
  intros Y NM HR K. unfold IDG. rewrite ev_group, ev_cat. rewrite (ev_one UC _ _ (one_in UC false _)). fold idstart. rewrite Y.
  rewrite (ev_star UC _ _ (one_in UC false _)). fold cmWord.
  rewrite star_bt_longest.
  - rewrite span_cmWord, (span_word_stop nmv rest NM HR). cbn [fst snd]. f_equal; [lia | f_equal; f_equal; lia].
  - right. intros q z t c' Wz. rewrite cmWord_is in Wz. apply K. exact Wz.
Qed.

(* ---------- \s+in\s+(.+)\s*:\s*$ ---------- *)
Lemma FOR_IN_read p z5 w5 z6 w6 x T' w8 c : white (z5 :: w5) -> white (z6 :: w6) -> is_sp x = false -> nolf (x :: T') -> white w8 ->
  let p3 := p + length (z5 :: w5) + 2 + length (z6 :: w6) in
  ev UC FOR_IN p ((z5 :: w5) ++ 105%N :: 110%N :: (z6 :: w6) ++ x :: T' ++ 58%N :: w8) c kfin
  = MYes (p3 + length (x :: T') + S (length w8)) (cap_set 3 (p3, p3 + length (x :: T')) c).
Proof.
  intros W5 W6 X NT W8 p3. unfold FOR_IN. rewrite ev_cat. unfold plus_sp at 1. rewrite (ev_plus UC _ _ (one_in UC false _)). fold cmWs.
  cbn [app]. rewrite cmWs_is. destruct (white_cons _ _ W5) as [S5 W5']. unfold is_sp at 1. rewrite S5.
  rewrite star_bt_longest.
  2:{ right. intros q z t c' Sz. rewrite cmWs_is in Sz. rewrite ev_cat, (ev_one UC _ _ (one_lit UC _)).
      destruct (z =? 105)%N eqn:E; [|reflexivity]. apply N.eqb_eq in E. subst z. unfold is_sp in Sz. rewrite sp105 in Sz. discriminate. }
  rewrite span_cmWs, (span_sp_stop w5 105 _ W5' sp105). cbn [fst snd].
  rewrite ev_cat, (ev_one UC _ _ (one_lit UC _)), N.eqb_refl.
  rewrite ev_cat, (ev_one UC _ _ (one_lit UC _)), N.eqb_refl.
  rewrite ev_cat. unfold plus_sp. rewrite (ev_plus UC _ _ (one_in UC false _)). fold cmWs.
  rewrite cmWs_is. destruct (white_cons _ _ W6) as [S6 W6']. unfold is_sp at 1. rewrite S6.
  set (K := fun (p : nat) (r : str) (c : caps) => ev UC (RCat (RGroup 3 (RRep 1 None RAny)) TAILC) p r c kfin).
  change (fun (p0 : nat) (r' : str) (c' : caps) => ev UC (RCat (RGroup 3 (RRep 1 None RAny)) TAILC) p0 r' c' kfin) with K.
  assert (V : K p3 (x :: T' ++ 58%N :: w8) c = MYes (p3 + length (x :: T') + S (length w8)) (cap_set 3 (p3, p3 + length (x :: T')) c)).
  { subst K. cbv beta. apply TAILG_read; assumption. }
  rewrite star_bt_longest; rewrite span_cmWs, (span_sp_stop w6 x _ W6' X); cbn [fst snd];
    match goal with |- context [K ?q _ _] => replace q with p3 by (subst p3; cbn [length]; lia) end.
  - exact V.
  - left. rewrite V. discriminate.
Qed.

Lemma FOR_IN_refuses_word p z t c k : is_word_u z = true -> ev UC FOR_IN p (z :: t) c k = MNo.
Proof. intros Wz. unfold FOR_IN. apply plus_sp_refuses_word. exact Wz. Qed.

(* ---------- the optional index group ---------- *)
Definition FOR_IXB : regex := RCat rsp (RCat (RLit 44) (RCat rsp (IDG 2))).

Lemma FOR_IX_none p z5 w5 r c : white (z5 :: w5) ->
  ev UC (RCat FOR_IX FOR_IN) p ((z5 :: w5) ++ 105%N :: r) c kfin = ev UC FOR_IN p ((z5 :: w5) ++ 105%N :: r) c kfin.
Proof.
  intros W5. rewrite ev_cat. unfold FOR_IX. rewrite ev_opt.
  assert (B : forall k, ev UC (RCat rsp (RCat (RLit 44) (RCat rsp (IDG 2)))) p ((z5 :: w5) ++ 105%N :: r) c k = MNo).
  { intros k. rewrite ev_cat. unfold rsp at 1. rewrite (ev_star UC _ _ (one_in UC false _)). fold cmWs.
    rewrite star_bt_longest.
    - rewrite span_cmWs, (span_sp_stop (z5 :: w5) 105 r W5 sp105). cbn [fst snd]. rewrite ev_cat, (ev_one UC _ _ (one_lit UC _)). reflexivity.
    - right. intros q z t c' Sz. rewrite cmWs_is in Sz. rewrite ev_cat, (ev_one UC _ _ (one_lit UC _)).
      destruct (z =? 44)%N eqn:E; [|reflexivity]. apply N.eqb_eq in E. subst z. unfold is_sp in Sz. rewrite sp44 in Sz. discriminate. }
  rewrite B. reflexivity.
Qed.

Lemma FOR_IX_some p w3 w4 yi nmi r c : white w3 -> white w4 -> idstart yi = true -> forallb is_word_u nmi = true -> hd_ok is_word_u r ->
  let pi := p + length w3 + 1 + length w4 in
  ev UC FOR_IN (pi + 1 + length nmi) r (cap_set 2 (pi, pi + 1 + length nmi) c) kfin <> MNo ->
  ev UC (RCat FOR_IX FOR_IN) p (w3 ++ 44%N :: w4 ++ yi :: nmi ++ r) c kfin
  = ev UC FOR_IN (pi + 1 + length nmi) r (cap_set 2 (pi, pi + 1 + length nmi) c) kfin.
Proof.
  intros W3 W4 Y NM HR pi OK. rewrite ev_cat. unfold FOR_IX. rewrite ev_opt.
  set (k := fun (p0 : nat) (r' : str) (c' : caps) => if Nat.eqb p0 p then MNo else ev UC FOR_IN p0 r' c' kfin).
  assert (B : ev UC (RCat rsp (RCat (RLit 44) (RCat rsp (IDG 2)))) p (w3 ++ 44%N :: w4 ++ yi :: nmi ++ r) c k
              = ev UC FOR_IN (pi + 1 + length nmi) r (cap_set 2 (pi, pi + 1 + length nmi) c) kfin).
  { rewrite ev_cat. unfold rsp at 1. rewrite (ev_star UC _ _ (one_in UC false _)). fold cmWs.
    rewrite star_bt_longest.
    2:{ right. intros q z t c' Sz. rewrite cmWs_is in Sz. rewrite ev_cat, (ev_one UC _ _ (one_lit UC _)).
        destruct (z =? 44)%N eqn:E; [|reflexivity]. apply N.eqb_eq in E. subst z. unfold is_sp in Sz. rewrite sp44 in Sz. discriminate. }
    rewrite span_cmWs, (span_sp_stop w3 44 _ W3 sp44). cbn [fst snd].
    rewrite ev_cat, (ev_one UC _ _ (one_lit UC _)), N.eqb_refl.
    rewrite ev_cat. unfold rsp. rewrite (ev_star UC _ _ (one_in UC false _)). fold cmWs.
    rewrite star_bt_longest.
    2:{ right. intros q z t c' Sz. rewrite cmWs_is in Sz. unfold IDG. rewrite ev_group, ev_cat.
        rewrite (ev_one UC _ _ (one_in UC false _)). fold idstart. unfold is_sp in Sz. rewrite (idstart_not_space z Sz). reflexivity. }
    rewrite span_cmWs, (span_sp_stop w4 yi _ W4 (idstart_sp yi Y)). cbn [fst snd].
    rewrite (IDG_read 2 yi nmi r _ c k Y NM HR).
    - subst k. cbv beta.
      replace (S (p + length w3) + length w4) with pi by (subst pi; lia).
      assert (NE : Nat.eqb (pi + 1 + length nmi) p = false) by (apply Nat.eqb_neq; subst pi; lia).
      rewrite NE. reflexivity.
    - intros q z t c' Wz. subst k. cbv beta. destruct (Nat.eqb q p); [reflexivity|]. apply FOR_IN_refuses_word. exact Wz. }
  fold k. rewrite B.
  destruct (ev UC FOR_IN (pi + 1 + length nmi) r (cap_set 2 (pi, pi + 1 + length nmi) c) kfin); [congruence | reflexivity | reflexivity].
Qed.

Lemma FOR_tail_refuses_word q z t c : is_word_u z = true -> ev UC (RCat FOR_IX FOR_IN) q (z :: t) c kfin = MNo.
Proof.
  intros Wz. rewrite ev_cat. unfold FOR_IX. rewrite ev_opt.
  assert (B : forall k, ev UC (RCat rsp (RCat (RLit 44) (RCat rsp (IDG 2)))) q (z :: t) c k = MNo).
  { intros k. rewrite ev_cat. unfold rsp at 1. rewrite (ev_star UC _ _ (one_in UC false _)). fold cmWs. cbn [star_bt].
    rewrite cmWs_is. unfold is_sp. change (is_space UC z) with (is_space_u z). rewrite (word_not_space z Wz).
    rewrite ev_cat, (ev_one UC _ _ (one_lit UC _)). destruct (z =? 44)%N eqn:E; [|reflexivity].
    apply N.eqb_eq in E. subst z. rewrite word44 in Wz. discriminate. }
  rewrite B. apply FOR_IN_refuses_word. exact Wz.
Qed.

(* ---------- ^\s*KW\s+ T ---------- *)
Lemma kw_prefix_read k0 kw T w1 z2 w2 r : is_sp k0 = false -> white w1 -> white (z2 :: w2) -> hd_ok is_sp r ->
  (forall q z t c, is_sp z = true -> ev UC T q (z :: t) c kfin = MNo) ->
  ev UC (RCat RBol (RCat rsp (lits (k0 :: kw) (RCat plus_sp T)))) 0 (w1 ++ (k0 :: kw) ++ (z2 :: w2) ++ r) [] kfin
  = ev UC T (length w1 + length (k0 :: kw) + length (z2 :: w2)) r [] kfin.
Proof.
  intros K0 W1 W2 HR K. rewrite ev_cat, ev_bol. cbn [Nat.eqb]. rewrite ev_cat.
  unfold rsp at 1. rewrite (ev_star UC _ _ (one_in UC false _)). fold cmWs.
  rewrite star_bt_longest.
  2:{ right. intros q z t c Sz. rewrite cmWs_is in Sz. apply lits_refuse. intros ->. congruence. }
  rewrite span_cmWs. rewrite (span_sp_stop' w1 _ W1) by (cbn [app hd_ok]; exact K0). cbn [fst snd].
  rewrite ev_lits. rewrite ev_cat. unfold plus_sp. rewrite (ev_plus UC _ _ (one_in UC false _)). fold cmWs.
  cbn [app]. rewrite cmWs_is. destruct (white_cons _ _ W2) as [S2 W2']. unfold is_sp at 1. rewrite S2.
  rewrite star_bt_longest.
  2:{ right. intros q z t c Sz. rewrite cmWs_is in Sz. apply K. exact Sz. }
  rewrite span_cmWs, (span_sp_stop' w2 r W2' HR). cbn [fst snd]. f_equal. cbn [length]. lia.
Qed.

Lemma FORT_refuses_space q z t c : is_sp z = true -> ev UC FORT q (z :: t) c kfin = MNo.
Proof. intros Sz. unfold FORT. apply IDG_start. unfold is_sp in Sz. exact (idstart_not_space z Sz). Qed.

(* ====================================================== the for regex, read *)
Definition KW_IN : str := [105; 110]%N.

Section ForShape.
Variables (w1 : str) (z2 : N) (w2 : str) (yv : N) (nmv : str) (z5 : N) (w5 : str) (z6 : N) (w6 : str) (x : N) (T' w8 : str).
Hypothesis W1 : white w1.
Hypothesis W2 : white (z2 :: w2).
Hypothesis YV : idstart yv = true.
Hypothesis NMV : forallb is_word_u nmv = true.
Hypothesis W5 : white (z5 :: w5).
Hypothesis W6 : white (z6 :: w6).
Hypothesis X : is_sp x = false.
Hypothesis NT : nolf (x :: T').
Hypothesis W8 : white w8.

Let tailS : str := (z5 :: w5) ++ KW_IN ++ (z6 :: w6) ++ (x :: T') ++ 58%N :: w8.
Let pv : nat := length w1 + 3 + length (z2 :: w2).

Theorem rxm_for_shape :
  let p5 := pv + 1 + length nmv in
  let p3 := p5 + length (z5 :: w5) + 2 + length (z6 :: w6) in
  rxm R_SCRIPT_FOR_BEGIN (w1 ++ KW_FOR ++ (z2 :: w2) ++ (yv :: nmv) ++ tailS)
  = MYes (p3 + length (x :: T') + S (length w8))
         (cap_set 3 (p3, p3 + length (x :: T')) (cap_set 1 (pv, p5) [])).
Proof.
  intros p5 p3. unfold rxm. rewrite re_match_ev, shape_for. unfold KW_FOR.
  rewrite (kw_prefix_read 102 [111; 114]%N FORT w1 z2 w2 ((yv :: nmv) ++ tailS) sp102 W1 W2).
  2:{ cbn [app hd_ok]. exact (idstart_sp yv YV). }
  2:{ intros q z t c Sz. apply FORT_refuses_space. exact Sz. }
  change (length w1 + length (102%N :: [111; 114]%N) + length (z2 :: w2)) with pv.
  unfold FORT. rewrite ev_cat. cbn [app].
  rewrite (IDG_read 1 yv nmv tailS pv [] _ YV NMV).
  - fold p5. subst tailS. unfold KW_IN. cbn [app]. change (z5 :: w5 ++ 105%N :: 110%N :: z6 :: w6 ++ x :: T' ++ 58%N :: w8)
      with ((z5 :: w5) ++ 105%N :: (110%N :: (z6 :: w6) ++ x :: T' ++ 58%N :: w8)).
    rewrite (FOR_IX_none p5 z5 w5 _ _ W5).
    exact (FOR_IN_read p5 z5 w5 z6 w6 x T' w8 _ W5 W6 X NT W8).
  - subst tailS. cbn [app hd_ok]. destruct (white_cons _ _ W5) as [S _]. exact (space_not_word z5 S).
  - intros q z t c' Wz. apply FOR_tail_refuses_word. exact Wz.
Qed.

Variables (w3 w4 : str) (yi : N) (nmi : str).
Hypothesis W3 : white w3.
Hypothesis W4 : white w4.
Hypothesis YI : idstart yi = true.
Hypothesis NMI : forallb is_word_u nmi = true.

Theorem rxm_for_index_shape :
  let p5 := pv + 1 + length nmv in
  let pi := p5 + length w3 + 1 + length w4 in
  let p6 := pi + 1 + length nmi in
  let p3 := p6 + length (z5 :: w5) + 2 + length (z6 :: w6) in
  rxm R_SCRIPT_FOR_BEGIN (w1 ++ KW_FOR ++ (z2 :: w2) ++ (yv :: nmv) ++ w3 ++ 44%N :: w4 ++ (yi :: nmi) ++ tailS)
  = MYes (p3 + length (x :: T') + S (length w8))
         (cap_set 3 (p3, p3 + length (x :: T')) (cap_set 2 (pi, p6) (cap_set 1 (pv, p5) []))).
Proof.
  intros p5 pi p6 p3. unfold rxm. rewrite re_match_ev, shape_for. unfold KW_FOR.
  rewrite (kw_prefix_read 102 [111; 114]%N FORT w1 z2 w2 ((yv :: nmv) ++ w3 ++ 44%N :: w4 ++ (yi :: nmi) ++ tailS) sp102 W1 W2).
  2:{ cbn [app hd_ok]. exact (idstart_sp yv YV). }
  2:{ intros q z t c Sz. apply FORT_refuses_space. exact Sz. }
  change (length w1 + length (102%N :: [111; 114]%N) + length (z2 :: w2)) with pv.
  unfold FORT. rewrite ev_cat. cbn [app].
  assert (HT : hd_ok is_word_u tailS).
  { subst tailS. cbn [app hd_ok]. destruct (white_cons _ _ W5) as [S _]. exact (space_not_word z5 S). }
  assert (V : ev UC FOR_IN p6 tailS (cap_set 2 (pi, p6) (cap_set 1 (pv, p5) [])) kfin
              = MYes (p3 + length (x :: T') + S (length w8))
                     (cap_set 3 (p3, p3 + length (x :: T')) (cap_set 2 (pi, p6) (cap_set 1 (pv, p5) [])))).
  { subst tailS. unfold KW_IN. exact (FOR_IN_read p6 z5 w5 z6 w6 x T' w8 _ W5 W6 X NT W8). }
  rewrite (IDG_read 1 yv nmv (w3 ++ 44%N :: w4 ++ yi :: nmi ++ tailS) pv [] _ YV NMV).
  - fold p5. rewrite (FOR_IX_some p5 w3 w4 yi nmi tailS _ W3 W4 YI NMI HT); fold pi; fold p6.
    + exact V.
    + rewrite V. discriminate.
  - apply white_hd_word; [exact W3 | exact word44].
  - intros q z t c' Wz. apply FOR_tail_refuses_word. exact Wz.
Qed.
End ForShape.

(* ====================================================== classify *)
Lemma gtext_at line c g a b (pre mid post : str) : cap_get g c = Some (a, b) -> line = pre ++ mid ++ post ->
  a = length pre -> b = a + length mid -> gtext line c g = mid.
Proof.
  intros G -> -> ->. unfold gtext, group_text. rewrite G.
  replace (length pre + length mid - length pre) with (length mid) by lia. apply sub_list_at.
Qed.

Ltac len_solve := repeat rewrite app_length; cbn [length KW_FOR KW_IN]; repeat rewrite app_length; cbn [length]; lia.

Section ForClassify.
Variables (n : nat) (w1 w2 v w5 w6 T w8 : str) (e : expr).
Hypothesis W1 : white w1.
Hypothesis W2 : white w2.
Hypothesis N2 : w2 <> [].
Hypothesis IDV : ident v = true.
Hypothesis W5 : white w5.
Hypothesis N5 : w5 <> [].
Hypothesis W6 : white w6.
Hypothesis N6 : w6 <> [].
Hypothesis NT : nolf T.
Hypothesis HT : hd_ok is_sp T.
Hypothesis W8 : white w8.
Hypothesis PT : parse_expression T = EOk e.

(* what classify tries before the for regex rejects  w1 for w2 <identifier> ... *)
Lemma for_line_earlier r :
  let line := w1 ++ KW_FOR ++ w2 ++ v ++ r in
  rxm R_SCRIPT_ASSIGNMENT line = MNo /\ rxm R_SCRIPT_FUNCTION_BEGIN line = MNo /\ rxm R_SCRIPT_FUNCTION_END line = MNo /\
  rxm R_SCRIPT_IF_BEGIN line = MNo /\ rxm R_SCRIPT_IF_ELSE_IF line = MNo /\ rxm R_SCRIPT_IF_ELSE line = MNo /\
  rxm R_SCRIPT_IF_END line = MNo /\ rxm R_SCRIPT_WHILE_BEGIN line = MNo /\ rxm R_SCRIPT_WHILE_END line = MNo.
Proof.
  intros line. subst line.
  destruct w2 as [|z2 w2']; [congruence|]. destruct v as [|yv nmv]; [discriminate|].
  cbn [ident] in IDV. apply andb_true_iff in IDV. destruct IDV as [YV NMV].
  assert (Y61 : yv <> 61%N) by (intros ->; vm_compute in YV; discriminate).
  pose proof (assign_nomatch_kw w1 102 [111; 114]%N z2 w2' yv (nmv ++ r) W1 eq_refl eq_refl W2 (idstart_sp yv YV) Y61) as EA.
  unfold KW_FOR. cbn [app] in *.
  set (t0 := 111%N :: 114%N :: z2 :: w2' ++ yv :: nmv ++ r) in *.
  split; [exact EA|].
  split.
  { apply fn_begin_nomatch; [exact W1|]. unfold rxm. rewrite re_match_ev. subst t0. vm_compute. reflexivity. }
  split; [tokno R_SCRIPT_FUNCTION_END W1|]. split; [tokno R_SCRIPT_IF_BEGIN W1|]. split; [tokno R_SCRIPT_IF_ELSE_IF W1|].
  split; [tokno R_SCRIPT_IF_ELSE W1|]. split; [tokno R_SCRIPT_IF_END W1|]. split; [tokno R_SCRIPT_WHILE_BEGIN W1|].
  tokno R_SCRIPT_WHILE_END W1.
Qed.

Theorem classify_for_shape :
  classify n (w1 ++ KW_FOR ++ w2 ++ v ++ w5 ++ KW_IN ++ w6 ++ T ++ 58%N :: w8) = ROk (KFor v [] e).
Proof.
  destruct (for_line_earlier (w5 ++ KW_IN ++ w6 ++ T ++ 58%N :: w8))
    as (EA & EB & E1 & E2 & E3 & E4 & E5 & E6 & E7).
  destruct w2 as [|z2 w2']; [congruence|]. destruct w5 as [|z5 w5']; [congruence|]. destruct w6 as [|z6 w6']; [congruence|].
  destruct v as [|yv nmv]; [discriminate|]. destruct T as [|x T']; [exfalso; exact (parse_nil_not_ok e PT)|]. cbn [hd_ok] in HT.
  pose proof IDV as IDV'. cbn [ident] in IDV'. apply andb_true_iff in IDV'. destruct IDV' as [YV NMV].
  pose proof (rxm_for_shape w1 z2 w2' yv nmv z5 w5' z6 w6' x T' w8 W1 W2 YV NMV W5 W6 HT NT W8) as EF. cbv zeta in EF.
  set (pv := length w1 + 3 + length (z2 :: w2')) in *. set (p5 := pv + 1 + length nmv) in *.
  set (p3 := p5 + length (z5 :: w5') + 2 + length (z6 :: w6')) in *.
  set (cc := cap_set 3 (p3, p3 + length (x :: T')) (cap_set 1 (pv, p5) [])) in *.
  set (line := w1 ++ KW_FOR ++ (z2 :: w2') ++ (yv :: nmv) ++ (z5 :: w5') ++ KW_IN ++ (z6 :: w6') ++ (x :: T') ++ 58%N :: w8) in *.
  assert (G3 : gtext line cc R_SCRIPT_FOR_BEGIN__values = x :: T').
  { apply (gtext_at line cc 3 p3 (p3 + length (x :: T')) (w1 ++ KW_FOR ++ (z2 :: w2') ++ (yv :: nmv) ++ (z5 :: w5') ++ KW_IN ++ (z6 :: w6')) (x :: T') (58%N :: w8)).
    - reflexivity.
    - subst line. repeat rewrite <- app_assoc. reflexivity.
    - subst p3 p5 pv. len_solve.
    - reflexivity. }
  assert (G1 : gtext line cc R_SCRIPT_FOR_BEGIN__value = yv :: nmv).
  { apply (gtext_at line cc 1 pv p5 (w1 ++ KW_FOR ++ (z2 :: w2')) (yv :: nmv) ((z5 :: w5') ++ KW_IN ++ (z6 :: w6') ++ (x :: T') ++ 58%N :: w8)).
    - reflexivity.
    - subst line. repeat rewrite <- app_assoc. reflexivity.
    - subst pv. len_solve.
    - subst p5. cbn [length]. lia. }
  assert (G2 : gtext line cc R_SCRIPT_FOR_BEGIN__index = []) by reflexivity.
  unfold classify. rewrite EA, EB, E1, E2, E3, E4, E5, E6, E7, EF. rewrite G3, G1, G2. unfold stmt_expr. rewrite PT. reflexivity.
Qed.

Variables (w3 w4 ix : str).
Hypothesis W3 : white w3.
Hypothesis W4 : white w4.
Hypothesis IDI : ident ix = true.

Theorem classify_for_index_shape :
  classify n (w1 ++ KW_FOR ++ w2 ++ v ++ w3 ++ 44%N :: w4 ++ ix ++ w5 ++ KW_IN ++ w6 ++ T ++ 58%N :: w8) = ROk (KFor v ix e).
Proof.
  destruct (for_line_earlier (w3 ++ 44%N :: w4 ++ ix ++ w5 ++ KW_IN ++ w6 ++ T ++ 58%N :: w8))
    as (EA & EB & E1 & E2 & E3 & E4 & E5 & E6 & E7).
  destruct w2 as [|z2 w2']; [congruence|]. destruct w5 as [|z5 w5']; [congruence|]. destruct w6 as [|z6 w6']; [congruence|].
  destruct v as [|yv nmv]; [discriminate|]. destruct ix as [|yi nmi]; [discriminate|].
  destruct T as [|x T']; [exfalso; exact (parse_nil_not_ok e PT)|]. cbn [hd_ok] in HT.
  pose proof IDV as IDV'. cbn [ident] in IDV'. apply andb_true_iff in IDV'. destruct IDV' as [YV NMV].
  pose proof IDI as IDI'. cbn [ident] in IDI'. apply andb_true_iff in IDI'. destruct IDI' as [YI NMI].
  pose proof (rxm_for_index_shape w1 z2 w2' yv nmv z5 w5' z6 w6' x T' w8 W1 W2 YV NMV W5 W6 HT NT W8 w3 w4 yi nmi W3 W4 YI NMI) as EF.
  cbv zeta in EF.
  set (pv := length w1 + 3 + length (z2 :: w2')) in *. set (p5 := pv + 1 + length nmv) in *.
  set (pi := p5 + length w3 + 1 + length w4) in *. set (p6 := pi + 1 + length nmi) in *.
  set (p3 := p6 + length (z5 :: w5') + 2 + length (z6 :: w6')) in *.
  set (cc := cap_set 3 (p3, p3 + length (x :: T')) (cap_set 2 (pi, p6) (cap_set 1 (pv, p5) []))) in *.
  set (line := w1 ++ KW_FOR ++ (z2 :: w2') ++ (yv :: nmv) ++ w3 ++ 44%N :: w4 ++ (yi :: nmi) ++ (z5 :: w5') ++ KW_IN ++ (z6 :: w6') ++ (x :: T') ++ 58%N :: w8) in *.
  assert (G3 : gtext line cc R_SCRIPT_FOR_BEGIN__values = x :: T').
  { apply (gtext_at line cc 3 p3 (p3 + length (x :: T'))
             (w1 ++ KW_FOR ++ (z2 :: w2') ++ (yv :: nmv) ++ w3 ++ [44%N] ++ w4 ++ (yi :: nmi) ++ (z5 :: w5') ++ KW_IN ++ (z6 :: w6')) (x :: T') (58%N :: w8)).
    - reflexivity.
    - subst line. repeat rewrite <- app_assoc. reflexivity.
    - subst p3 p6 pi p5 pv. len_solve.
    - reflexivity. }
  assert (G2 : gtext line cc R_SCRIPT_FOR_BEGIN__index = yi :: nmi).
  { apply (gtext_at line cc 2 pi p6 (w1 ++ KW_FOR ++ (z2 :: w2') ++ (yv :: nmv) ++ w3 ++ [44%N] ++ w4) (yi :: nmi)
             ((z5 :: w5') ++ KW_IN ++ (z6 :: w6') ++ (x :: T') ++ 58%N :: w8)).
    - reflexivity.
    - subst line. repeat rewrite <- app_assoc. reflexivity.
    - subst pi p5 pv. len_solve.
    - subst p6. cbn [length]. lia. }
  assert (G1 : gtext line cc R_SCRIPT_FOR_BEGIN__value = yv :: nmv).
  { apply (gtext_at line cc 1 pv p5 (w1 ++ KW_FOR ++ (z2 :: w2')) (yv :: nmv)
             (w3 ++ 44%N :: w4 ++ (yi :: nmi) ++ (z5 :: w5') ++ KW_IN ++ (z6 :: w6') ++ (x :: T') ++ 58%N :: w8)).
    - reflexivity.
    - subst line. repeat rewrite <- app_assoc. reflexivity.
    - subst pv. len_solve.
    - subst p5. cbn [length]. lia. }
  unfold classify. rewrite EA, EB, E1, E2, E3, E4, E5, E6, E7, EF. rewrite G3, G1, G2. unfold stmt_expr. rewrite PT. reflexivity.
Qed.
End ForClassify.
