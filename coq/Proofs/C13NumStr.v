(* Proofs/C13NumStr.v — value_string on a number, as the interpreter model prints it (Model/LibMore.v num_text_full),
   reads back through float() as the same double.

   num_text_full (NFlt f) has two sources:
     * Model/Arith.v num_to_str: the EXACT decimal expansion of the double (integral below 1e16: the integer's digits;
       otherwise at most 15 significant digits in positional range: integer part '.' fraction digits).  The text denotes
       the double exactly, and a correctly rounded conversion of an exactly representable number is that number
       ([dec_to_sf_exact]; here the double must be a valid binary64: canonical mantissa/exponent);
     * otherwise cleanup (repr_float f): Proofs/C13Repr.v.
   Also nan / inf / -inf / 0 / -0 read back (by computation). *)
From Coq Require Import Lia ZifyBool SpecFloat.
From BS Require Import Model.Base Model.Num Model.Regex Model.NumText Model.Arith Model.LibMore Gen.Unicode
  Proofs.BaseFacts Proofs.FloatFacts Proofs.FloatRound Proofs.C13 Proofs.C13Ratio Proofs.C13Repr.
Local Open Scope Z_scope.

(* ------------------------------------------------------------------ exactly representable decimals *)
Lemma canonical_of_valid s m e : valid_binary prec emax (S754_finite s m e) = true ->
  Zpos m < 2 ^ 53 /\ -1074 <= e <= 971 /\ (Zpos m < 2 ^ 52 -> e = -1074).
Proof.
  intros V. destruct (valid_bounds s m e V) as (Hm & He). split; [exact Hm|]. split; [exact He|].
  unfold valid_binary, bounded, canonical_mantissa in V. rewrite andb_true_iff, Zeq_bool_is_eqb in V.
  unfold fexp, emin, prec, emax in V. destruct V as [C _]. pose proof (digits2_pos_bounds m) as B.
  intros L. destruct (Z.eq_dec e (-1074)) as [E|NE]; [exact E|exfalso].
  assert (D : Zpos (digits2_pos m) = 53) by lia. rewrite D in B. change (2 ^ (53 - 1)) with (2 ^ 52) in B. lia.
Qed.

Lemma rounds_to_exact a b m e : 0 < b -> 0 <= m < 2 ^ 53 -> -1074 <= e -> (m < 2 ^ 52 -> e = -1074) ->
  a * 2 ^ 1074 = m * 2 ^ (e + 1074) * b -> rounds_to a b m e.
Proof.
  intros Hb Hm He Hcan Eq. unfold rounds_to. rewrite Eq.
  assert (PU : 0 < 2 ^ (e + 1074)) by (apply pow2_pos; lia).
  replace (m * 2 ^ (e + 1074) * b - m * 2 ^ (e + 1074) * b) with 0 by ring. cbn [Z.abs].
  assert (0 < 2 ^ (e + 1074) * b) by nia.
  split; [exact Hm|]. split; [exact He|]. split; [exact Hcan|]. split; [lia|]. split; [intros; lia|intros; lia].
Qed.

(* a decimal d * 10^k equal to the valid double m * 2^e converts to it (j: any common denominator 10^j) *)
Theorem dec_to_sf_exact neg d k j m e : valid_binary prec emax (S754_finite neg m e) = true ->
  0 <= d -> 0 <= j -> 0 <= k + j -> d * 10 ^ (k + j) * 2 ^ 1074 = Zpos m * 2 ^ (e + 1074) * 10 ^ j ->
  dec_to_sf neg d k = S754_finite neg m e.
Proof.
  intros V Hd Hj Hkj Eq. destruct (canonical_of_valid neg m e V) as (Hm & He & Hcan).
  assert (Pj : 0 < 10 ^ j) by (apply pow10_pos; lia). assert (Pk : 0 < 10 ^ (k + j)) by (apply pow10_pos; lia).
  assert (PU : 0 < 2 ^ (e + 1074)) by (apply pow2_pos; lia). assert (PT : 0 < 2 ^ 1074) by (apply pow2_pos; lia).
  assert (Pd : 0 < d).
  { destruct (Z.eq_dec d 0) as [Z|NZ]; [|lia]. subst d. exfalso. assert (0 < Zpos m * 2 ^ (e + 1074) * 10 ^ j) by nia. lia. }
  rewrite (dec_to_sf_frac neg d k j) by lia.
  apply ratio_to_sf_of_rounds; [nia|lia| |lia].
  apply rounds_to_exact; lia.
Qed.

(* ------------------------------------------------------------------ digit strings *)
(* Z_to_str writes no leading zero *)
Lemma pos_digits_spec' fuel : forall n acc, (n < 2 ^ N.of_nat fuel)%N -> (0 < n)%N ->
  exists ds, pos_digits_fuel fuel n acc = ds ++ acc /\ ds <> [] /\ all_d ds = true /\ dval ds = Z.of_N n /\
             10 ^ (len ds - 1) <= Z.of_N n.
Proof.
  induction fuel as [|f IH]; intros n acc Hn Hp.
  - cbn in Hn. lia.
  - cbn [pos_digits_fuel]. pose proof (N.div_mod n 10 ltac:(lia)) as DM. pose proof (N.mod_lt n 10 ltac:(lia)) as ML.
    set (d := (n mod 10)%N) in *. set (q := (n / 10)%N) in *.
    assert (Dd : is_d (48 + d) = true) by (apply is_d_range; lia).
    destruct (q =? 0)%N eqn:Q.
    + exists [(48 + d)%N]. repeat split; try discriminate.
      * apply all_d_cons; split; auto.
      * unfold dval, dacc, dv. cbn [fold_left]. lia.
      * change (len [(48 + d)%N] - 1) with 0. rewrite Z.pow_0_r. lia.
    + assert (Hq : (q < 2 ^ N.of_nat f)%N).
      { rewrite Nat2N.inj_succ, N.pow_succ_r' in Hn. lia. }
      destruct (IH q ((48 + d)%N :: acc) Hq ltac:(lia)) as [ds [E [NE [AD [DV LB]]]]].
      exists (ds ++ [(48 + d)%N]). rewrite E. rewrite <- app_assoc. repeat split; auto.
      * destruct ds; discriminate.
      * apply all_d_app; split; auto. apply all_d_cons; split; auto.
      * rewrite dval_snoc, DV. unfold dv. lia.
      * rewrite len_app. change (len [(48 + d)%N]) with 1. replace (len ds + 1 - 1) with ((len ds - 1) + 1) by lia.
        assert (1 <= len ds) by (unfold len; destruct ds; [congruence|cbn [length]; lia]).
        rewrite Z.pow_add_r by lia. lia.
Qed.

Lemma Z_to_str_pos z : 0 < z -> exists ds, Z_to_str z = ds /\ ds <> [] /\ all_d ds = true /\ dval ds = z /\ 10 ^ (len ds - 1) <= z.
Proof.
  intros H. destruct z as [|p|p]; try lia. cbn [Z_to_str]. unfold N_to_str.
  destruct (pos_digits_spec' (S (N.to_nat (N.log2 (Npos p)))) (Npos p) []) as [ds [E [NE [AD [DV LB]]]]].
  - rewrite Nat2N.inj_succ, N2Nat.id. apply N.log2_spec. lia.
  - lia.
  - exists ds. rewrite E, app_nil_r. repeat split; auto.
Qed.

Lemma Z_to_str_sign z : z <> 0 -> Z_to_str z = sgn (z <? 0) ++ Z_to_str (Z.abs z).
Proof. destruct z; [congruence| |]; reflexivity. Qed.

(* trailing zeros *)
Lemma stz_cons c t : strip_trailing_zeros_rev (c :: t) = if (c =? 48)%N then strip_trailing_zeros_rev t else c :: t.
Proof. destruct c as [|p]; [reflexivity|]. do 7 (try destruct p as [p|p|]); reflexivity. Qed.

Lemma stz_spec l : exists j, l = repeat 48%N j ++ strip_trailing_zeros_rev l.
Proof.
  induction l as [|c t [j IH]]; [exists O; reflexivity|]. rewrite stz_cons.
  destruct (N.eqb_spec c 48) as [->|NE].
  - exists (S j). cbn [repeat app]. f_equal. exact IH.
  - exists O. reflexivity.
Qed.

Lemma rev_zeros n : rev (repeat 48%N n) = repeat 48%N n.
Proof.
  induction n as [|n IH]; [reflexivity|]. cbn [repeat rev]. rewrite IH. symmetry. apply repeat_cons.
Qed.

Lemma strip_fraction fd0 : exists j, fd0 = rev (strip_trailing_zeros_rev (rev fd0)) ++ repeat 48%N j.
Proof.
  destruct (stz_spec (rev fd0)) as [j E]. exists j.
  rewrite <- (rev_involutive fd0) at 1. rewrite E at 1. rewrite rev_app_distr, rev_zeros. reflexivity.
Qed.

(* ------------------------------------------------------------------ num_to_str on a finite non-zero double *)
Lemma sign_of_mant (s : bool) (m : positive) : ((if s then Zneg m else Zpos m) <? 0) = s.
Proof. destruct s; reflexivity. Qed.

(* the text of an integral double: sign and the digits of |z|, denoting the double exactly *)
Lemma integral_text_shape s m e z : valid_binary prec emax (S754_finite s m e) = true ->
  sf_integral (S754_finite s m e) = Some z ->
  exists ds, Z_to_str z = sgn s ++ ds /\ ds <> [] /\ all_d ds = true /\ dval ds * 2 ^ 1074 = Zpos m * 2 ^ (e + 1074).
Proof.
  intros V H. destruct (canonical_of_valid s m e V) as (Hm & He & _). cbn [sf_integral] in H.
  assert (PU : 0 < 2 ^ (e + 1074)) by (apply pow2_pos; lia).
  assert (X : z <> 0 /\ (z <? 0) = s /\ Z.abs z * 2 ^ 1074 = Zpos m * 2 ^ (e + 1074)).
  { destruct (Z.leb_spec 0 e) as [L|G].
    - injection H as <-. assert (P : 0 < 2 ^ e) by (apply pow2_pos; lia).
      rewrite pow2_split by lia. destruct s; cbn [Z.abs]; (split; [nia|split; [nia|]]).
      + replace (Z.abs (Z.neg m * 2 ^ e)) with (Zpos m * 2 ^ e) by nia. ring.
      + replace (Z.abs (Z.pos m * 2 ^ e)) with (Zpos m * 2 ^ e) by nia. ring.
    - set (d := 2 ^ (- e)) in *. assert (Pd : 0 < d) by (apply pow2_pos; lia).
      destruct (Z.eqb_spec (Zpos m mod d) 0) as [M|M]; [|discriminate]. injection H as <-.
      pose proof (Z.div_mod (Zpos m) d ltac:(lia)) as DM. rewrite M in DM.
      assert (Q : 0 < Zpos m / d) by nia.
      assert (ET : 2 ^ 1074 = 2 ^ (e + 1074) * d).
      { unfold d. rewrite <- pow2_split by lia. f_equal. lia. }
      destruct s; (split; [nia|split; [nia|]]).
      + replace (Z.abs (-1 * (Zpos m / d))) with (Zpos m / d) by nia. rewrite ET. nia.
      + replace (Z.abs (1 * (Zpos m / d))) with (Zpos m / d) by nia. rewrite ET. nia. }
  destruct X as (NZ & Sg & Eq).
  rewrite (Z_to_str_sign z NZ), Sg.
  destruct (Z_to_str_nonneg (Z.abs z) ltac:(lia)) as (ds & -> & NE & AD & DV).
  exists ds. rewrite DV. auto.
Qed.

Theorem integral_text_roundtrip s m e z : valid_binary prec emax (S754_finite s m e) = true ->
  sf_integral (S754_finite s m e) = Some z -> py_float (Z_to_str z) = Some (S754_finite s m e).
Proof.
  intros V H. destruct (integral_text_shape s m e z V H) as (ds & -> & NE & AD & Eq).
  rewrite py_float_factors. unfold float_with. rewrite (py_dec_int s ds NE AD). cbn [option_map to_flt]. f_equal.
  pose proof (dval_bounds ds AD).
  apply (dec_to_sf_exact s _ _ 0 m e V); lia.
Qed.

(* the exact positional text: sign, integer digits, '.', fraction digits (not empty), denoting the double exactly *)
Lemma dyadic_text_shape s m e t : valid_binary prec emax (S754_finite s m e) = true ->
  e < 0 -> Zpos m mod 2 ^ (- e) <> 0 -> dyadic_text s m e = ARes t ->
  exists ipd fd, t = sgn s ++ ipd ++ 46%N :: fd /\ ipd <> [] /\ all_d ipd = true /\ fd <> [] /\ all_d fd = true /\
    len fd <= - e /\
    (dval ipd * 10 ^ len fd + dval fd) * 2 ^ 1074 = Zpos m * 2 ^ (e + 1074) * 10 ^ len fd.
Proof.
  intros V He Hfr. unfold dyadic_text. destruct (canonical_of_valid s m e V) as (_ & Hee & _).
  set (K := - e) in *. assert (HK : 0 < K) by (unfold K; lia).
  set (den := 2 ^ K) in *. assert (Pden : 0 < den) by (apply pow2_pos; lia).
  set (ip := Zpos m / den). set (fr := Zpos m mod den) in *.
  pose proof (Z.div_mod (Zpos m) den ltac:(lia)) as DM. fold ip fr in DM.
  pose proof (Z.mod_pos_bound (Zpos m) den Pden) as FB. fold fr in FB.
  assert (Hip : 0 <= ip) by (apply Z.div_pos; lia).
  assert (P5 : 0 < 5 ^ K) by (apply Z.pow_pos_nonneg; lia).
  assert (E10 : 10 ^ K = 5 ^ K * den) by (unfold den; rewrite <- Z.pow_mul_l; reflexivity).
  assert (Hraw : 0 < fr * 5 ^ K < 10 ^ K) by (rewrite E10; nia).
  destruct (Z_to_str_pos (fr * 5 ^ K) ltac:(lia)) as (raw & -> & NEr & ADr & DVr & LBr).
  assert (Lraw : len raw <= K).
  { destruct (Z_le_gt_dec (len raw) K) as [L|G]; [exact L|exfalso].
    assert (10 ^ K <= 10 ^ (len raw - 1)) by (apply Z.pow_le_mono_r; lia). lia. }
  set (lead := (Z.to_nat K - length raw)%nat).
  set (fd0 := repeat 48%N lead ++ raw).
  assert (L0 : len fd0 = K) by (unfold fd0; rewrite len_app, zeros_len; unfold lead, len in *; lia).
  assert (D0 : dval fd0 = fr * 5 ^ K) by (unfold fd0; rewrite dval_app, zeros_dval; lia).
  assert (A0 : all_d fd0 = true) by (apply all_d_app; split; [apply zeros_all_d|exact ADr]).
  destruct (strip_fraction fd0) as [j Ej].
  set (fd := rev (strip_trailing_zeros_rev (rev fd0))) in *.
  assert (Afd : all_d fd = true) by (rewrite Ej in A0; apply all_d_app in A0; tauto).
  assert (Dfd : dval fd * 10 ^ Z.of_nat j = fr * 5 ^ K).
  { rewrite <- D0, Ej, dval_app, zeros_dval, zeros_len. lia. }
  assert (Lfd : len fd + Z.of_nat j = K) by (rewrite <- L0, Ej, len_app, zeros_len; reflexivity).
  assert (NEf : fd <> []).
  { intros X. rewrite X in Dfd. change (dval []) with 0 in Dfd. lia. }
  destruct (Z_to_str_nonneg ip Hip) as (ipd & -> & NEi & ADi & DVi).
  match goal with |- (if ?c then _ else _) = _ -> _ => destruct c end; [discriminate|].
  intros H. injection H as <-. change (if s then [45%N] else []) with (sgn s).
  replace (match fd with [] => [] | _ :: _ => 46%N :: fd end) with (46%N :: fd) by (destruct fd; [congruence|reflexivity]).
  exists ipd, fd. split; [reflexivity|]. split; [exact NEi|]. split; [exact ADi|]. split; [exact NEf|]. split; [exact Afd|].
  split; [fold K; lia|].
  set (L := len fd) in *. assert (HL : 0 <= L) by (unfold L, len; lia).
  assert (PL : 0 < 10 ^ L) by (apply pow10_pos; lia).
  assert (Pj : 0 < 10 ^ Z.of_nat j) by (apply pow10_pos; lia).
  rewrite DVi.
  assert (ET : 2 ^ 1074 = 2 ^ (e + 1074) * den).
  { unfold den, K. rewrite <- pow2_split by lia. f_equal. lia. }
  rewrite ET. set (T := 2 ^ (e + 1074)).
  (* dval fd * den = fr * 10^L, from dval fd * 10^j = fr * 5^K and 10^K = 10^L * 10^j *)
  assert (C : dval fd * den = fr * 10 ^ L).
  { apply (Z.mul_reg_r _ _ (10 ^ Z.of_nat j)); [lia|].
    replace (fr * 10 ^ L * 10 ^ Z.of_nat j) with (fr * 10 ^ K) by (rewrite <- Lfd, Z.pow_add_r by lia; ring).
    rewrite E10. replace (dval fd * den * 10 ^ Z.of_nat j) with (dval fd * 10 ^ Z.of_nat j * den) by ring. rewrite Dfd. ring. }
  rewrite DM at 1.
  replace ((ip * 10 ^ L + dval fd) * (T * den)) with (T * (ip * den * 10 ^ L + dval fd * den)) by ring. rewrite C. ring.
Qed.

Theorem dyadic_text_roundtrip s m e t : valid_binary prec emax (S754_finite s m e) = true ->
  e < 0 -> Zpos m mod 2 ^ (- e) <> 0 -> dyadic_text s m e = ARes t -> py_float t = Some (S754_finite s m e).
Proof.
  intros V He Hfr H. destruct (dyadic_text_shape s m e t V He Hfr H) as (ipd & fd & -> & NEi & ADi & NEf & Afd & _ & Eq).
  rewrite py_float_factors. unfold float_with. rewrite (py_dec_pos s ipd fd NEi ADi Afd). cbn [option_map to_flt]. f_equal.
  pose proof (dval_bounds ipd ADi). pose proof (dval_bounds fd Afd).
  assert (HL : 0 <= len fd) by (unfold len; lia). assert (PL : 0 < 10 ^ len fd) by (apply pow10_pos; lia).
  assert (Hmant : 0 <= dval ipd * 10 ^ len fd + dval fd) by nia.
  apply (dec_to_sf_exact s _ _ (len fd) m e V); try lia.
  replace (- len fd + len fd) with 0 by lia. rewrite Z.pow_0_r, Z.mul_1_r. exact Eq.
Qed.

Theorem num_to_str_roundtrip f t : valid_binary prec emax f = true ->
  num_to_str (NFlt f) = ARes t -> py_float t = Some f.
Proof.
  intros V. destruct f as [s|s| |s m e]; cbn [num_to_str].
  - intros H. injection H as <-. destruct s; vm_compute; reflexivity.
  - intros H. injection H as <-. destruct s; vm_compute; reflexivity.
  - intros H. injection H as <-. vm_compute; reflexivity.
  - destruct (sf_integral (S754_finite s m e)) as [z|] eqn:I.
    + destruct (Z.abs z <? 10 ^ 16); [|discriminate]. intros H. injection H as <-.
      apply integral_text_roundtrip; assumption.
    + cbn [sf_integral] in I. destruct (Z.leb_spec 0 e) as [L|G]; [discriminate|].
      destruct (Z.eqb_spec (Zpos m mod 2 ^ (- e)) 0) as [M|M]; [discriminate|].
      apply dyadic_text_roundtrip; assumption.
Qed.

(* ------------------------------------------------------------------ value_string's number text *)
Theorem num_text_full_roundtrip f t : valid_binary prec emax f = true ->
  num_text_full (NFlt f) = ARes t -> py_float t = Some f.
Proof.
  intros V. unfold num_text_full. destruct (num_to_str (NFlt f)) as [r| |] eqn:N.
  - intros H. injection H as <-. apply num_to_str_roundtrip; assumption.
  - discriminate.
  - destruct (repr_float f) as [r| |] eqn:R; try discriminate.
    intros H. injection H as <-. apply repr_float_cleanup_roundtrip. exact R.
Qed.

Theorem num_text_full_parse_number f t : valid_binary prec emax f = true -> NumText.sf_is_finite f = true ->
  num_text_full (NFlt f) = ARes t -> value_parse_number t = Some f.
Proof.
  intros V F H. unfold value_parse_number. rewrite (num_text_full_roundtrip f t V H). cbv beta iota. rewrite F. reflexivity.
Qed.

(* ------------------------------------------------------------------ for x >= 0 the printed text is one numeric literal *)
Lemma is_neg_text_cons c t : is_neg_text (c :: t) = (c =? 45)%N.
Proof. destruct c as [|p]; [reflexivity|]. do 7 (try destruct p as [p|p|]); reflexivity. Qed.

Lemma ReprG_sign s neg p : ReprG s -> py_dec s = Some (neg, p) -> is_neg_text s = neg.
Proof.
  intros G. inversion G as [neg' I F HI DI HF DF E|neg' d F es E Hd DF Hs DE HL Eq]; subst.
  - rewrite py_dec_pos by auto. intros H. injection H as <- _. destruct neg'; [reflexivity|].
    destruct I as [|i I']; [congruence|]. cbn [sgn app]. rewrite is_neg_text_cons.
    apply all_d_cons in DI. destruct DI as [Hi _]. apply is_d_range in Hi. lia.
  - assert (HE : E <> []) by (destruct E; [cbn in HL; lia|discriminate]).
    rewrite py_dec_exp by auto. intros H. injection H as <- _. destruct neg'; [reflexivity|].
    cbn [sgn app]. rewrite is_neg_text_cons. apply is_d_range in Hd. lia.
Qed.

Definition sf_nonneg_finite (f : flt) : bool :=
  match f with S754_zero false | S754_finite false _ _ => true | _ => false end.

Theorem num_text_full_literal f t : valid_binary prec emax f = true -> sf_nonneg_finite f = true ->
  num_text_full (NFlt f) = ARes t -> lit_match t = Some (O, length t).
Proof.
  intros V NN. destruct f as [[|]|s| |[|] m e]; try discriminate NN.
  - intros H. vm_compute in H. injection H as <-. vm_compute. reflexivity.
  - unfold num_text_full. destruct (num_to_str (NFlt (S754_finite false m e))) as [r| |] eqn:N.
    + intros H. injection H as <-. cbn [num_to_str] in N.
      destruct (sf_integral (S754_finite false m e)) as [z|] eqn:I.
      * destruct (Z.abs z <? 10 ^ 16); [|discriminate]. injection N as <-.
        destruct (integral_text_shape false m e z V I) as (ds & -> & NE & AD & _). cbn [sgn app]. apply lit_int; auto.
      * cbn [sf_integral] in I. destruct (Z.leb_spec 0 e) as [L|G]; [discriminate|].
        destruct (Z.eqb_spec (Zpos m mod 2 ^ (- e)) 0) as [M|M]; [discriminate|].
        destruct (dyadic_text_shape false m e r V G M N) as (ipd & fd & -> & NEi & ADi & NEf & Afd & _ & _).
        cbn [sgn app]. apply lit_pos; auto.
    + discriminate.
    + destruct (repr_float (S754_finite false m e)) as [r| |] eqn:R; try discriminate.
      intros H. injection H as <-. apply cleanup_is_literal; [exact (repr_float_in_grammar _ _ R)|].
      cbn [repr_float] in R. destruct (short_digits m e) as [[d k]|] eqn:S; [|discriminate]. injection R as <-.
      destruct (short_digits_sound m e d k S) as [Pd _]. destruct (repr_layout_shape false d k Pd) as [G (j & _ & _ & P)].
      exact (ReprG_sign _ _ _ G P).
Qed.
