(* Proofs/C16.v — lemmas and proofs for property C16 (datetime construction, arithmetic, ISO text). *)
From Coq Require Import ZArith List Bool Lia ZifyBool.
From BS Require Import Model.Base Model.Calendar Gen.CalendarTables Gen.Unicode.
Local Open Scope Z_scope.
Ltac dm := Z.div_mod_to_equations.

(* ------------------------------------------------------------------ the regenerated tables *)
Lemma tables_ok :
  gen_dtnew_divisors = [1000; 60; 60; 24; 12] /\
  gen_dtnew_bounds = [(Some 100, None); (None, None); (Some (-10000), Some 10000); (None, None); (None, None);
                      (None, None); (None, None)].
Proof. split; reflexivity. Qed.

Lemma args_ok_iff y mo d h mi s ms :
  dtnew_args_ok y mo d h mi s ms = true <-> (100 <= y /\ -10000 <= d <= 10000).
Proof. unfold dtnew_args_ok, bound_ok. cbn. lia. Qed.

(* ------------------------------------------------------------------ leap years and month lengths *)
Lemma div_pred y c : 0 < c -> (y - 1) / c = y / c - (if y mod c =? 0 then 1 else 0).
Proof. intros Hc. destruct (Z.eqb_spec (y mod c) 0) as [E|E]; dm; nia. Qed.

Lemma mod_100_4 y : y mod 100 = 0 -> y mod 4 = 0.
Proof. intros. dm. lia. Qed.
Lemma mod_400_100 y : y mod 400 = 0 -> y mod 100 = 0.
Proof. intros. dm. lia. Qed.

Lemma dby_succ y : dby (y + 1) = dby y + (if is_leap y then 366 else 365).
Proof.
  unfold dby, is_leap. replace (y + 1 - 1) with y by lia.
  rewrite !(div_pred y) by lia.
  pose proof (mod_100_4 y). pose proof (mod_400_100 y).
  destruct (Z.eqb_spec (y mod 4) 0), (Z.eqb_spec (y mod 100) 0), (Z.eqb_spec (y mod 400) 0); cbn [negb andb orb]; lia.
Qed.

Lemma dby_pred y : dby (y - 1) = dby y - (if is_leap (y - 1) then 366 else 365).
Proof. pose proof (dby_succ (y - 1)) as H. replace (y - 1 + 1) with y in H by lia. lia. Qed.

Lemma dby_mono_step y : dby y < dby (y + 1).
Proof. rewrite dby_succ. destruct (is_leap y); lia. Qed.

Lemma dby_mono a b : a <= b -> dby a <= dby b.
Proof.
  intros H. replace b with (a + (b - a)) by lia.
  assert (Hk : 0 <= b - a) by lia. revert Hk. generalize (b - a) as k.
  apply (natlike_ind (fun k => dby a <= dby (a + k))).
  - rewrite Z.add_0_r. lia.
  - intros k Hk IH. replace (a + Z.succ k) with (a + k + 1) by lia. pose proof (dby_mono_step (a + k)). lia.
Qed.

Lemma dby_lt_inv a b : dby a < dby b -> a < b.
Proof. intros H. destruct (Z_lt_le_dec a b) as [L|L]; [exact L|]. pose proof (dby_mono b a L). lia. Qed.

Lemma month_days_bounds y m : 28 <= month_days y m <= 31.
Proof. unfold month_days. destruct (m =? 2), (is_leap y), ((m =? 4) || (m =? 6) || (m =? 9) || (m =? 11)); lia. Qed.

(* ------------------------------------------------------------------ the spec calendar: next_day / prev_day *)
Lemma valid_date_iff y m d : valid_date (y, m, d) = true <-> (1 <= m <= 12 /\ 1 <= d <= month_days y m).
Proof. unfold valid_date. lia. Qed.

Lemma next_day_valid c : valid_date c = true -> valid_date (next_day c) = true.
Proof.
  destruct c as [[y m] d]. rewrite valid_date_iff. intros [Hm Hd]. unfold next_day.
  destruct (Z.ltb_spec d (month_days y m)).
  - apply valid_date_iff. lia.
  - destruct (Z.ltb_spec m 12); apply valid_date_iff.
    + pose proof (month_days_bounds y (m + 1)). lia.
    + pose proof (month_days_bounds (y + 1) 1). lia.
Qed.

Lemma prev_day_valid c : valid_date c = true -> valid_date (prev_day c) = true.
Proof.
  destruct c as [[y m] d]. rewrite valid_date_iff. intros [Hm Hd]. unfold prev_day.
  destruct (Z.ltb_spec 1 d).
  - apply valid_date_iff. lia.
  - destruct (Z.ltb_spec 1 m); apply valid_date_iff.
    + pose proof (month_days_bounds y (m - 1)). lia.
    + unfold month_days. cbn. lia.
Qed.

Lemma prev_next c : valid_date c = true -> prev_day (next_day c) = c.
Proof.
  destruct c as [[y m] d]. rewrite valid_date_iff. intros [Hm Hd]. unfold next_day.
  destruct (Z.ltb_spec d (month_days y m)).
  - unfold prev_day. destruct (Z.ltb_spec 1 (d + 1)); [|lia]. f_equal. lia.
  - destruct (Z.ltb_spec m 12); unfold prev_day; cbn [Z.ltb]; cbn.
    + destruct (Z.ltb_spec 1 (m + 1)); [|lia]. replace (m + 1 - 1) with m by lia. f_equal. lia.
    + assert (m = 12) by lia. subst m. replace (y + 1 - 1) with y by lia. f_equal. unfold month_days in *. cbn in *. lia.
Qed.

Lemma next_prev c : valid_date c = true -> next_day (prev_day c) = c.
Proof.
  destruct c as [[y m] d]. rewrite valid_date_iff. intros [Hm Hd]. unfold prev_day.
  destruct (Z.ltb_spec 1 d).
  - unfold next_day. destruct (Z.ltb_spec (d - 1) (month_days y m)); [|lia]. f_equal. lia.
  - destruct (Z.ltb_spec 1 m); unfold next_day.
    + rewrite Z.ltb_irrefl. destruct (Z.ltb_spec (m - 1) 12); [|lia]. replace (m - 1 + 1) with m by lia. f_equal. lia.
    + assert (m = 1) by lia. subst m. replace (month_days (y - 1) 12) with 31 by reflexivity. cbn.
      replace (y - 1 + 1) with y by lia. f_equal. lia.
Qed.

(* ------------------------------------------------------------------ shift_days is a group action on valid dates *)
Lemma iter_valid f n c : (forall x, valid_date x = true -> valid_date (f x) = true) ->
  valid_date c = true -> valid_date (Nat.iter n f c) = true.
Proof. intros Hf Hc. induction n; cbn; auto. Qed.

Lemma shift_valid k c : valid_date c = true -> valid_date (shift_days k c) = true.
Proof. intros H. unfold shift_days. destruct (0 <=? k); apply iter_valid; auto using next_day_valid, prev_day_valid. Qed.

Lemma shift_0 c : shift_days 0 c = c.
Proof. reflexivity. Qed.

Lemma shift_succ k c : valid_date c = true -> shift_days (k + 1) c = next_day (shift_days k c).
Proof.
  intros Hc. unfold shift_days.
  destruct (Z.leb_spec 0 k).
  - destruct (Z.leb_spec 0 (k + 1)); [|lia]. replace (Z.to_nat (k + 1)) with (S (Z.to_nat k)) by lia. reflexivity.
  - destruct (Z.leb_spec 0 (k + 1)).
    + assert (k = -1) by lia. subst k. cbn. symmetry. apply next_prev, Hc.
    + replace (Z.to_nat (- k)) with (S (Z.to_nat (- (k + 1)))) by lia. cbn [Nat.iter].
      symmetry. apply next_prev. apply iter_valid; auto using prev_day_valid.
Qed.

Lemma shift_pred k c : valid_date c = true -> shift_days (k - 1) c = prev_day (shift_days k c).
Proof.
  intros Hc. pose proof (shift_succ (k - 1) c Hc) as H. replace (k - 1 + 1) with k in H by lia.
  rewrite H. symmetry. apply prev_next. apply shift_valid, Hc.
Qed.

Lemma shift_add a b c : valid_date c = true -> shift_days (a + b) c = shift_days a (shift_days b c).
Proof.
  intros Hc. pose proof (shift_valid b c Hc) as Hb.
  induction a using Z.peano_ind.
  - reflexivity.
  - replace (Z.succ a + b) with (a + b + 1) by lia. replace (Z.succ a) with (a + 1) by lia.
    rewrite !shift_succ by assumption. congruence.
  - replace (Z.pred a + b) with (a + b - 1) by lia. replace (Z.pred a) with (a - 1) by lia.
    rewrite !shift_pred by assumption. congruence.
Qed.

Lemma iter_shift_in {A} (f : A -> A) n x : Nat.iter (S n) f x = Nat.iter n f (f x).
Proof. induction n; cbn in *; [reflexivity|]. rewrite IHn. reflexivity. Qed.

(* inside a month the iteration just counts the day up *)
Lemma shift_within y m d k : 0 <= k -> 1 <= d -> d + k <= month_days y m -> shift_days k (y, m, d) = (y, m, d + k).
Proof.
  intros Hk. revert d. pattern k. apply natlike_ind; [| |exact Hk].
  - intros d _ _. rewrite shift_0. f_equal. lia.
  - clear k Hk. intros k Hk IH d Hd Hle.
    replace (Z.succ k) with (k + 1) by lia.
    assert (Hadd : shift_days (k + 1) (y, m, d) = shift_days k (shift_days 1 (y, m, d))).
    { unfold shift_days at 1 2. destruct (Z.leb_spec 0 (k + 1)); [|lia]. destruct (Z.leb_spec 0 k); [|lia].
      replace (Z.to_nat (k + 1)) with (S (Z.to_nat k)) by lia. apply iter_shift_in. }
    rewrite Hadd. change (shift_days 1 (y, m, d)) with (next_day (y, m, d)). unfold next_day.
    destruct (Z.ltb_spec d (month_days y m)); [|lia]. rewrite IH by lia. f_equal. lia.
Qed.

Definition next_month (y m : Z) : Z * Z := if m =? 12 then (y + 1, 1) else (y, m + 1).
Definition prev_month (y m : Z) : Z * Z := if m =? 1 then (y - 1, 12) else (y, m - 1).

Lemma shift_month y m : 1 <= m <= 12 ->
  shift_days (month_days y m) (y, m, 1) = (fst (next_month y m), snd (next_month y m), 1).
Proof.
  intros Hm. pose proof (month_days_bounds y m) as Hb.
  assert (Hv : valid_date (y, m, 1) = true) by (apply valid_date_iff; lia).
  replace (month_days y m) with (month_days y m - 1 + 1) at 1 by lia.
  rewrite shift_succ by exact Hv. rewrite shift_within by lia.
  unfold next_day, next_month. replace (1 + (month_days y m - 1)) with (month_days y m) by lia.
  rewrite Z.ltb_irrefl. destruct (Z.eqb_spec m 12); destruct (Z.ltb_spec m 12); try lia; reflexivity.
Qed.

Lemma prev_next_month y m : 1 <= m <= 12 -> next_month (fst (prev_month y m)) (snd (prev_month y m)) = (y, m).
Proof.
  intros Hm. unfold prev_month, next_month. destruct (Z.eqb_spec m 1); cbn.
  - subst. f_equal. lia.
  - destruct (Z.eqb_spec (m - 1) 12); [lia|]. f_equal. lia.
Qed.

Lemma prev_month_range y m : 1 <= m <= 12 -> 1 <= snd (prev_month y m) <= 12.
Proof. intros. unfold prev_month. destruct (Z.eqb_spec m 1); cbn; lia. Qed.
Lemma next_month_range y m : 1 <= m <= 12 -> 1 <= snd (next_month y m) <= 12.
Proof. intros. unfold next_month. destruct (Z.eqb_spec m 12); cbn; lia. Qed.

(* ------------------------------------------------------------------ the two while loops of _datetime_new *)
Lemma monthrange_ok y m : 1 <= m <= 12 -> monthrange y m = Some (month_days y m).
Proof. intros. unfold monthrange. destruct (Z.leb_spec 1 m), (Z.leb_spec m 12); try lia. reflexivity. Qed.

Lemma dn_fwd_spec fuel : forall y m d,
  1 <= m <= 12 -> 1 <= d -> (Z.to_nat d <= fuel)%nat ->
  exists c, dn_fwd fuel y m d (month_days y m) = DOk c /\ c = shift_days (d - 1) (y, m, 1) /\ valid_date c = true.
Proof.
  induction fuel as [|f IH]; intros y m d Hm Hd Hf; [lia|].
  pose proof (month_days_bounds y m) as Hb.
  cbn [dn_fwd]. destruct (Z.ltb_spec (month_days y m) d) as [Hgt|Hle].
  - pose proof (next_month_range y m Hm) as Hr.
    assert (Hy' : (if negb (m =? 12) then y else y + 1) = fst (next_month y m)) by (unfold next_month; destruct (m =? 12); reflexivity).
    assert (Hm' : (if negb (m =? 12) then m + 1 else 1) = snd (next_month y m)) by (unfold next_month; destruct (m =? 12); reflexivity).
    rewrite Hy', Hm'.
    rewrite monthrange_ok by exact Hr.
    destruct (IH (fst (next_month y m)) (snd (next_month y m)) (d - month_days y m)) as [c [E [Hc Hv]]]; try lia.
    exists c. split; [exact E|]. split; [|exact Hv].
    rewrite Hc. rewrite <- (shift_month y m Hm).
    rewrite <- shift_add by (apply valid_date_iff; lia). f_equal. lia.
  - exists (y, m, d). split; [reflexivity|]. split.
    + rewrite shift_within by lia. f_equal. lia.
    + apply valid_date_iff. lia.
Qed.

Lemma dn_back_spec fuel : forall y m d,
  1 <= m <= 12 -> d <= month_days y m -> (Z.to_nat (1 - d) <= fuel)%nat ->
  exists c, dn_back fuel y m d = DOk c /\ c = shift_days (d - 1) (y, m, 1) /\ valid_date c = true.
Proof.
  induction fuel as [|f IH]; intros y m d Hm Hd Hf.
  - assert (1 <= d) by lia. cbn [dn_back]. destruct (Z.ltb_spec d 1); [lia|].
    exists (y, m, d). split; [reflexivity|]. split; [rewrite shift_within by lia; f_equal; lia | apply valid_date_iff; lia].
  - cbn [dn_back]. destruct (Z.ltb_spec d 1) as [Hlt|Hge].
    + pose proof (prev_month_range y m Hm) as Hr.
      assert (Hy' : (if negb (m =? 1) then y else y - 1) = fst (prev_month y m)) by (unfold prev_month; destruct (m =? 1); reflexivity).
      assert (Hm' : (if negb (m =? 1) then m - 1 else 12) = snd (prev_month y m)) by (unfold prev_month; destruct (m =? 1); reflexivity).
      rewrite Hy', Hm'.
      rewrite monthrange_ok by exact Hr.
      set (y' := fst (prev_month y m)) in *. set (m' := snd (prev_month y m)) in *.
      pose proof (month_days_bounds y' m') as Hb.
      destruct (IH y' m' (d + month_days y' m')) as [c [E [Hc Hv]]]; try lia.
      exists c. split; [exact E|]. split; [|exact Hv].
      rewrite Hc.
      assert (Hstep : shift_days (month_days y' m') (y', m', 1) = (y, m, 1)).
      { rewrite shift_month by exact Hr. unfold y', m'. rewrite prev_next_month by exact Hm. reflexivity. }
      rewrite <- Hstep. rewrite <- shift_add by (apply valid_date_iff; lia). f_equal. lia.
    + exists (y, m, d). split; [reflexivity|]. split; [rewrite shift_within by lia; f_equal; lia | apply valid_date_iff; lia].
Qed.

(* ------------------------------------------------------------------ datetimeNew = calendar arithmetic *)
(* SPEC.  The requested instant: the first of the normalised month, plus (day - 1) days and the time components,
   all as one signed count of milliseconds; days are added by stepping the calendar one day at a time. *)
Definition dn_total_ms (d h mi s ms : Z) : Z := ((((d - 1) * 24 + h) * 60 + mi) * 60 + s) * 1000 + ms.
Definition norm_year (y mo : Z) : Z := y + (mo - 1) / 12.
Definition norm_month (mo : Z) : Z := (mo - 1) mod 12 + 1.

Definition dn_spec_fields (y mo d h mi s ms : Z) : dtf :=
  let t := dn_total_ms d h mi s ms in
  let '(y', m', d') := shift_days (t / 86400000) (norm_year y mo, norm_month mo, 1) in
  let r := t mod 86400000 in
  mkf y' m' d' (r / 3600000) (r / 60000 mod 60) (r / 1000 mod 60) (r mod 1000 * 1000).

Lemma carry_eq v next base : 0 < base -> carry v next base = (v mod base, next + v / base).
Proof.
  intros Hb. unfold carry. destruct (Z.ltb_spec v 0); cbn [orb].
  - f_equal. dm. nia.
  - destruct (Z.leb_spec base v).
    + f_equal. dm. nia.
    + rewrite Z.mod_small, Z.div_small by lia. f_equal. lia.
Qed.

Lemma time_decomp d h mi s ms :
  let s1 := s + ms / 1000 in let mi1 := mi + s1 / 60 in let h1 := h + mi1 / 60 in
  let t := dn_total_ms d h mi s ms in let r := t mod 86400000 in
  t / 86400000 = d + h1 / 24 - 1 /\ r / 3600000 = h1 mod 24 /\ r / 60000 mod 60 = mi1 mod 60 /\
  r / 1000 mod 60 = s1 mod 60 /\ r mod 1000 = ms mod 1000.
Proof. cbv zeta. unfold dn_total_ms. dm. lia. Qed.

Lemma dn_rollover_spec y mo d h mi s ms :
  dn_rollover y mo d h mi s ms = DOk (dn_spec_fields y mo d h mi s ms).
Proof.
  unfold dn_rollover, dn_spec_fields.
  change BASE_MS with 1000. change BASE_S with 60. change BASE_MIN with 60. change BASE_H with 24. change BASE_MON with 12.
  rewrite (carry_eq ms) by lia. rewrite (carry_eq (s + ms / 1000)) by lia.
  rewrite (carry_eq (mi + (s + ms / 1000) / 60)) by lia. rewrite (carry_eq (h + (mi + (s + ms / 1000) / 60) / 60)) by lia.
  destruct (time_decomp d h mi s ms) as [Hd [Hh [Hmi [Hs Hms]]]].
  rewrite Hd, Hh, Hmi, Hs, Hms.
  set (day1 := d + (h + (mi + (s + ms / 1000) / 60) / 60) / 24).
  replace (day1 - 1) with (day1 - 1) by reflexivity.
  assert (Hmon : (if (mo <? 1) || (12 <? mo) then (mo - (mo - 1) / 12 * 12, y + (mo - 1) / 12) else (mo, y))
                 = (norm_month mo, norm_year y mo)).
  { unfold norm_month, norm_year. destruct (Z.ltb_spec mo 1); cbn [orb].
    - f_equal. dm. lia.
    - destruct (Z.ltb_spec 12 mo).
      + f_equal. dm. lia.
      + f_equal; dm; lia. }
  rewrite Hmon. clear Hmon.
  set (Y := norm_year y mo). set (M := norm_month mo).
  assert (HM : 1 <= M <= 12) by (unfold M, norm_month; dm; lia).
  pose proof (month_days_bounds Y M) as Hb.
  assert (Hc : exists c,
    (if day1 <? 1 then dn_back (S (Z.to_nat (Z.abs day1))) Y M day1
     else if 28 <? day1 then match monthrange Y M with None => DExc | Some md => dn_fwd (S (Z.to_nat (Z.abs day1))) Y M day1 md end
     else DOk (Y, M, day1)) = DOk c /\ c = shift_days (day1 - 1) (Y, M, 1)).
  { destruct (Z.ltb_spec day1 1).
    - destruct (dn_back_spec (S (Z.to_nat (Z.abs day1))) Y M day1) as [c [E [Hc _]]]; try lia. exists c. auto.
    - destruct (Z.ltb_spec 28 day1).
      + rewrite monthrange_ok by exact HM.
        destruct (dn_fwd_spec (S (Z.to_nat (Z.abs day1))) Y M day1) as [c [E [Hc _]]]; try lia. exists c. auto.
      + exists (Y, M, day1). split; [reflexivity|]. rewrite shift_within by lia. f_equal. lia. }
  destruct Hc as [c [E Hc]]. rewrite E. cbn [dbind]. rewrite <- Hc. destruct c as [[y' m'] d']. reflexivity.
Qed.

(* THEOREM: for every argument list that passes the validation, datetimeNew is the datetime constructor applied to
   the fields that day-by-day calendar arithmetic gives (DExc = ValueError exactly when that year leaves 1..9999) *)
Theorem new_is_calendar_arithmetic y mo d h mi s ms :
  dtnew_args_ok y mo d h mi s ms = true ->
  datetime_new y mo d h mi s ms = py_datetime (dn_spec_fields y mo d h mi s ms).
Proof. intros H. unfold datetime_new. rewrite H, dn_rollover_spec. reflexivity. Qed.

(* without the validation nothing but null comes out *)
Lemma new_rejects y mo d h mi s ms : dtnew_args_ok y mo d h mi s ms = false -> datetime_new y mo d h mi s ms = DExc.
Proof. intros H. unfold datetime_new. rewrite H. reflexivity. Qed.

(* the loops never run out of fuel and never call monthrange with an illegal month *)
Corollary new_never_fuel y mo d h mi s ms : datetime_new y mo d h mi s ms <> DFuel.
Proof.
  destruct (dtnew_args_ok y mo d h mi s ms) eqn:E.
  - rewrite new_is_calendar_arithmetic by exact E. unfold py_datetime. destruct (valid_fields _); discriminate.
  - rewrite new_rejects by exact E. discriminate.
Qed.

(* ------------------------------------------------------------------ day numbers vs. the day-by-day calendar *)
Lemma month_cases m : 1 <= m <= 12 ->
  m = 1 \/ m = 2 \/ m = 3 \/ m = 4 \/ m = 5 \/ m = 6 \/ m = 7 \/ m = 8 \/ m = 9 \/ m = 10 \/ m = 11 \/ m = 12.
Proof. lia. Qed.

Ltac month_split H := apply month_cases in H;
  repeat (destruct H as [H|H]; [subst|]); [..|subst].

Lemma dbm_succ y m : 1 <= m <= 11 -> dbm (is_leap y) (m + 1) = dbm (is_leap y) m + month_days y m.
Proof.
  intros H. assert (H' : 1 <= m <= 12) by lia. unfold month_days.
  month_split H'; try lia; destruct (is_leap y); reflexivity.
Qed.

Lemma dbm_12 y : dbm (is_leap y) 12 + 31 = if is_leap y then 366 else 365.
Proof. destruct (is_leap y); reflexivity. Qed.

Lemma dfc_next c : valid_date c = true -> days_from_civil (next_day c) = days_from_civil c + 1.
Proof.
  destruct c as [[y m] d]. rewrite valid_date_iff. intros [Hm Hd]. unfold next_day.
  destruct (Z.ltb_spec d (month_days y m)).
  - unfold days_from_civil. lia.
  - assert (d = month_days y m) by lia. destruct (Z.ltb_spec m 12).
    + unfold days_from_civil. rewrite dbm_succ by lia. lia.
    + assert (m = 12) by lia. subst m. unfold days_from_civil. rewrite dby_succ.
      pose proof (dbm_12 y). replace (month_days y 12) with 31 in * by reflexivity.
      replace (dbm (is_leap (y + 1)) 1) with 0 by (destruct (is_leap (y + 1)); reflexivity). lia.
Qed.

Lemma dfc_prev c : valid_date c = true -> days_from_civil (prev_day c) = days_from_civil c - 1.
Proof.
  intros H. pose proof (dfc_next (prev_day c) (prev_day_valid c H)) as E. rewrite next_prev in E by exact H. lia.
Qed.

(* the closed-form day number of the date reached by stepping k single days *)
Lemma dfc_shift k c : valid_date c = true -> days_from_civil (shift_days k c) = days_from_civil c + k.
Proof.
  intros H. induction k using Z.peano_ind.
  - rewrite shift_0. lia.
  - replace (Z.succ k) with (k + 1) by lia. rewrite shift_succ by exact H.
    rewrite dfc_next by (apply shift_valid, H). lia.
  - replace (Z.pred k) with (k - 1) by lia. rewrite shift_pred by exact H.
    rewrite dfc_prev by (apply shift_valid, H). lia.
Qed.

Lemma year_of_days_spec n : dby (year_of_days n) <= n < dby (year_of_days n + 1).
Proof.
  unfold year_of_days. set (q := 400 * n / 146097).
  assert (Hq : 146097 * q <= 400 * n < 146097 * q + 146097) by (unfold q; dm; lia).
  destruct (Z.ltb_spec n (dby (q + 1))) as [H1|H1].
  - replace (q + 1 - 1 + 1) with (q + 1) by lia. split; [|exact H1].
    unfold dby. dm. lia.
  - destruct (Z.leb_spec (dby (q + 1 + 1)) n) as [H2|H2].
    + split; [exact H2|]. unfold dby. dm. lia.
    + lia.
Qed.

Lemma year_of_days_unique n y : dby y <= n < dby (y + 1) -> year_of_days n = y.
Proof.
  intros H. pose proof (year_of_days_spec n) as S. set (y' := year_of_days n) in *.
  assert (y' < y + 1) by (apply dby_lt_inv; lia). assert (y < y' + 1) by (apply dby_lt_inv; lia). lia.
Qed.

Ltac eval_closed_in H :=
  match type of H with _ <= _ <= ?e => let v := eval vm_compute in e in change e with v in H end.
Ltac eval_dbm :=
  repeat match goal with |- context [dbm ?b ?m] => let v := eval vm_compute in (dbm b m) in change (dbm b m) with v end.
Ltac split_ltb :=
  repeat match goal with |- context [if ?a <? ?b then _ else _] => destruct (Z.ltb_spec a b); try lia end.

Lemma md_of_doy_dbm y m d : 1 <= m <= 12 -> 1 <= d <= month_days y m ->
  md_of_doy (is_leap y) (dbm (is_leap y) m + (d - 1)) = (m, d).
Proof.
  intros Hm Hd. unfold month_days in Hd. destruct (is_leap y);
  month_split Hm; eval_closed_in Hd; eval_dbm; unfold md_of_doy; cbv beta iota zeta; split_ltb; f_equal; lia.
Qed.

Lemma civil_of_dfc c : valid_date c = true -> civil_from_days (days_from_civil c) = c.
Proof.
  destruct c as [[y m] d]. rewrite valid_date_iff. intros [Hm Hd].
  unfold civil_from_days, days_from_civil.
  replace (dby y + dbm (is_leap y) m + (d - 1) - EPOCH_DAYS + EPOCH_DAYS) with (dby y + (dbm (is_leap y) m + (d - 1))) by lia.
  assert (Hy : year_of_days (dby y + (dbm (is_leap y) m + (d - 1))) = y).
  { apply year_of_days_unique. rewrite dby_succ.
    assert (0 <= dbm (is_leap y) m + (d - 1) < if is_leap y then 366 else 365).
    { unfold month_days in Hd. destruct (is_leap y); month_split Hm; eval_closed_in Hd; eval_dbm; lia. }
    lia. }
  rewrite Hy. replace (dby y + (dbm (is_leap y) m + (d - 1)) - dby y) with (dbm (is_leap y) m + (d - 1)) by lia.
  rewrite md_of_doy_dbm by assumption. reflexivity.
Qed.

Lemma md_of_doy_inv y k : 0 <= k < (if is_leap y then 366 else 365) ->
  1 <= fst (md_of_doy (is_leap y) k) <= 12 /\
  1 <= snd (md_of_doy (is_leap y) k) <= month_days y (fst (md_of_doy (is_leap y) k)) /\
  dbm (is_leap y) (fst (md_of_doy (is_leap y) k)) + (snd (md_of_doy (is_leap y) k) - 1) = k.
Proof.
  intros Hk. unfold month_days. destruct (is_leap y); unfold md_of_doy; cbv beta iota zeta;
  repeat match goal with |- context [if ?a <? ?b then _ else _] => destruct (Z.ltb_spec a b) end;
  cbn [fst snd]; eval_dbm;
  repeat match goal with |- context [?a =? ?b] => let v := eval vm_compute in (a =? b) in change (a =? b) with v end;
  cbn [orb]; cbv beta iota; lia.
Qed.

Lemma dfc_of_civil n : days_from_civil (civil_from_days n) = n /\ valid_date (civil_from_days n) = true.
Proof.
  unfold civil_from_days. pose proof (year_of_days_spec (n + EPOCH_DAYS)) as S.
  set (y := year_of_days (n + EPOCH_DAYS)) in *. rewrite dby_succ in S.
  pose proof (md_of_doy_inv y (n + EPOCH_DAYS - dby y)) as I.
  destruct (md_of_doy (is_leap y) (n + EPOCH_DAYS - dby y)) as [m d]. cbn [fst snd] in I.
  destruct I as [Hm [Hd Hk]]; [lia|]. split.
  - unfold days_from_civil. lia.
  - apply valid_date_iff. lia.
Qed.

(* the spec calendar and the closed forms agree: stepping k days = converting, adding k, converting back *)
Theorem shift_is_day_number k c : valid_date c = true -> shift_days k c = civil_from_days (days_from_civil c + k).
Proof. intros H. rewrite <- dfc_shift by exact H. symmetry. apply civil_of_dfc, shift_valid, H. Qed.

(* ------------------------------------------------------------------ values <-> fields; the getters *)
Lemma valid_fields_iff f : valid_fields f = true <->
  (1 <= f_year f <= 9999 /\ valid_date (f_year f, f_month f, f_day f) = true /\ 0 <= f_hour f < 24 /\
   0 <= f_minute f < 60 /\ 0 <= f_second f < 60 /\ 0 <= f_us f < 1000000).
Proof.
  unfold valid_fields. generalize (valid_date (f_year f, f_month f, f_day f)). intros b.
  rewrite !andb_true_iff. rewrite !Z.leb_le, !Z.ltb_lt. tauto.
Qed.

Lemma tod_decomp D h mi s us : 0 <= h < 24 -> 0 <= mi < 60 -> 0 <= s < 60 -> 0 <= us < 1000000 ->
  let w := D * US_DAY + ((h * 60 + mi) * 60 + s) * US_SEC + us in
  w / US_DAY = D /\ (w mod US_DAY) / US_HOUR = h /\ (w mod US_DAY) / US_MIN mod 60 = mi /\
  (w mod US_DAY) / US_SEC mod 60 = s /\ (w mod US_DAY) mod US_SEC = us.
Proof.
  intros Hh Hmi Hs Hus. cbv zeta. set (tod := ((h * 60 + mi) * 60 + s) * US_SEC + us).
  assert (Ht : 0 <= tod < US_DAY) by (unfold tod, US_DAY, US_SEC; lia).
  replace (D * US_DAY + ((h * 60 + mi) * 60 + s) * US_SEC + us) with (tod + D * US_DAY) by (unfold tod; lia).
  rewrite Z.div_add, Z_mod_plus_full by (unfold US_DAY; lia).
  rewrite Z.div_small, Z.mod_small by exact Ht.
  split; [lia|]. unfold tod, US_DAY, US_HOUR, US_MIN, US_SEC in *.
  split; [dm; lia|]. split; [dm; lia|]. split; dm; lia.
Qed.

Theorem fields_of_fields f : valid_fields f = true -> fields (of_fields f) = f.
Proof.
  rewrite valid_fields_iff. intros [Hy [Hd [Hh [Hmi [Hs Hus]]]]].
  destruct f as [y m d h mi s us]. cbn [f_year f_month f_day f_hour f_minute f_second f_us] in *.
  unfold fields, of_fields. cbn [f_year f_month f_day f_hour f_minute f_second f_us].
  destruct (tod_decomp (days_from_civil (y, m, d)) h mi s us Hh Hmi Hs Hus) as [E1 [E2 [E3 [E4 E5]]]].
  rewrite E1, E2, E3, E4, E5. rewrite civil_of_dfc by exact Hd. reflexivity.
Qed.

Theorem of_fields_fields w : of_fields (fields w) = w.
Proof.
  unfold fields. destruct (dfc_of_civil (w / US_DAY)) as [E _].
  destruct (civil_from_days (w / US_DAY)) as [[y m] d]. unfold of_fields.
  cbn [f_year f_month f_day f_hour f_minute f_second f_us]. rewrite E.
  unfold US_DAY, US_HOUR, US_MIN, US_SEC. dm. lia.
Qed.

Lemma dby_1 : dby 1 = 0. Proof. reflexivity. Qed.

Theorem in_range_fields w : in_range w = valid_fields (fields w).
Proof.
  apply eq_true_iff_eq. rewrite valid_fields_iff. unfold fields.
  destruct (dfc_of_civil (w / US_DAY)) as [E V].
  unfold civil_from_days in *. pose proof (year_of_days_spec (w / US_DAY + EPOCH_DAYS)) as S.
  set (y := year_of_days (w / US_DAY + EPOCH_DAYS)) in *.
  destruct (md_of_doy (is_leap y) (w / US_DAY + EPOCH_DAYS - dby y)) as [m d].
  cbn [f_year f_month f_day f_hour f_minute f_second f_us].
  assert (Hy : 1 <= y <= 9999 <-> dby 1 <= w / US_DAY + EPOCH_DAYS < dby 10000).
  { split.
    - intros [A B]. pose proof (dby_mono 1 y A). pose proof (dby_mono (y + 1) 10000 ltac:(lia)). lia.
    - intros [A B]. assert (1 < y + 1) by (apply dby_lt_inv; lia). assert (y < 10000) by (apply dby_lt_inv; lia). lia. }
  assert (Hr : in_range w = true <-> dby 1 <= w / US_DAY + EPOCH_DAYS < dby 10000).
  { unfold in_range, MIN_US, MAX_US. rewrite dby_1. generalize (dby 10000). intros T. unfold US_DAY, EPOCH_DAYS. dm. nia. }
  rewrite Hr, Hy. unfold US_DAY, US_HOUR, US_MIN, US_SEC. split.
  - intros H. repeat split; try tauto; try exact V; dm; lia.
  - tauto.
Qed.

Lemma py_datetime_ok f w : py_datetime f = DOk w -> valid_fields f = true /\ w = of_fields f /\ fields w = f /\ in_range w = true.
Proof.
  unfold py_datetime. destruct (valid_fields f) eqn:V; [|discriminate]. intros E. injection E as <-.
  split; [reflexivity|]. split; [reflexivity|]. split; [apply fields_of_fields, V|].
  rewrite in_range_fields, fields_of_fields by exact V. exact V.
Qed.

(* THEOREM (getters): the seven getters read back the normalised components of a datetimeNew result *)
Theorem getters_of_new y mo d h mi s ms w :
  datetime_new y mo d h mi s ms = DOk w ->
  let f := dn_spec_fields y mo d h mi s ms in
  get_year w = f_year f /\ get_month w = f_month f /\ get_day w = f_day f /\ get_hour w = f_hour f /\
  get_minute w = f_minute f /\ get_second w = f_second f /\
  get_millisecond w = dn_total_ms d h mi s ms mod 1000 /\ in_range w = true.
Proof.
  intros E. destruct (dtnew_args_ok y mo d h mi s ms) eqn:A; [|rewrite new_rejects in E by exact A; discriminate].
  rewrite new_is_calendar_arithmetic in E by exact A.
  apply py_datetime_ok in E. destruct E as [_ [_ [F R]]]. cbv zeta.
  unfold get_year, get_month, get_day, get_hour, get_minute, get_second, get_millisecond. rewrite F.
  repeat split; try exact R.
  unfold dn_spec_fields. destruct (shift_days _ _) as [[y' m'] d'].
  cbn [f_us]. dm. lia.
Qed.

(* ------------------------------------------------------------------ datetime +/- milliseconds *)
Lemma round_half_away_exact n : round_half_away_div (n * 1000) 1000 = n.
Proof. unfold round_half_away_div. destruct (Z.leb_spec 0 (n * 1000)); dm; lia. Qed.

Theorem add_sub_exact w n w' : dt_add_ms w n = DOk w' -> dt_sub_ms w' w = n.
Proof.
  unfold dt_add_ms, dt_sub_ms. destruct (in_range (w + n * 1000)); [|discriminate].
  intros E. injection E as <-. replace (w + n * 1000 - w) with (n * 1000) by lia. apply round_half_away_exact.
Qed.

Theorem add_total w n : dt_add_ms w n = DOk (w + n * 1000) \/ (dt_add_ms w n = DExc /\ in_range (w + n * 1000) = false).
Proof. unfold dt_add_ms. destruct (in_range (w + n * 1000)); auto. Qed.

(* ------------------------------------------------------------------ ISO text: printing and reading digits *)
Lemma adigit_dchar k : 0 <= k <= 9 -> adigit (dchar k) = Some k.
Proof.
  intros H. unfold adigit, dchar.
  destruct (N.leb_spec 48 (Z.to_N (48 + k))); [|lia]. destruct (N.leb_spec (Z.to_N (48 + k)) 57); [|lia].
  cbn [andb]. f_equal. lia.
Qed.

Lemma udigit_dchar k : 0 <= k <= 9 -> udigit (dchar k) = Some k.
Proof.
  intros H. unfold udigit, digit_val, dchar.
  destruct (N.ltb_spec (Z.to_N (48 + k)) 128); [|lia].
  destruct (N.leb_spec 48 (Z.to_N (48 + k))); [|lia]. destruct (N.leb_spec (Z.to_N (48 + k)) 57); [|lia].
  cbn [andb option_map]. f_equal. lia.
Qed.

Section DigitParsers.
Variable dg : N -> option Z.
Hypothesis dg_dchar : forall k, 0 <= k <= 9 -> dg (dchar k) = Some k.

Lemma take2 v r : 0 <= v < 100 -> take_digits dg 2 (pad2 v ++ r) 0 = Some (v, r).
Proof.
  intros H. unfold pad2. cbn [app take_digits].
  rewrite (dg_dchar (v / 10)) by (dm; lia). rewrite (dg_dchar (v mod 10)) by (dm; lia).
  f_equal. f_equal. dm. lia.
Qed.

Lemma take4 v r : 0 <= v < 10000 -> take_digits dg 4 (pad4 v ++ r) 0 = Some (v, r).
Proof.
  intros H. unfold pad4. cbn [app take_digits].
  rewrite (dg_dchar (v / 1000)) by (dm; lia). rewrite (dg_dchar (v / 100 mod 10)) by (dm; lia).
  rewrite (dg_dchar (v / 10 mod 10)) by (dm; lia). rewrite (dg_dchar (v mod 10)) by (dm; lia).
  f_equal. f_equal. dm. lia.
Qed.
Lemma take2_nil v : 0 <= v < 100 -> take_digits dg 2 (pad2 v) 0 = Some (v, []).
Proof. intros H. rewrite <- (app_nil_r (pad2 v)). apply take2, H. Qed.
End DigitParsers.

Lemma expect_cons c r : expect c (c :: r) = Some r.
Proof. unfold expect. rewrite N.eqb_refl. reflexivity. Qed.

Lemma frac3 v c r : 0 <= v < 1000 -> adigit c = None -> frac_digits 6 (pad3 v ++ c :: r) 0 0 = (v, 3, c :: r).
Proof.
  intros H Hc. unfold pad3. cbn [app frac_digits].
  rewrite (adigit_dchar (v / 100)) by (dm; lia). rewrite (adigit_dchar (v / 10 mod 10)) by (dm; lia).
  rewrite (adigit_dchar (v mod 10)) by (dm; lia). rewrite Hc. f_equal. f_equal. dm. lia.
Qed.

(* the fields of an in-range value print with 4/2/2/2/2/2 digits *)
Lemma fields_digit_ranges f : valid_fields f = true ->
  0 <= f_year f < 10000 /\ 0 <= f_month f < 100 /\ 0 <= f_day f < 100 /\ 0 <= f_hour f < 100 /\
  0 <= f_minute f < 100 /\ 0 <= f_second f < 100 /\ 0 <= f_us f / 1000 < 1000.
Proof.
  rewrite valid_fields_iff. intros [Hy [Hd [Hh [Hmi [Hs Hus]]]]]. apply valid_date_iff in Hd.
  pose proof (month_days_bounds (f_year f) (f_month f)). repeat split; try lia; dm; lia.
Qed.

Definition trunc_fields (f : dtf) : dtf :=
  mkf (f_year f) (f_month f) (f_day f) (f_hour f) (f_minute f) (f_second f) (f_us f / 1000 * 1000).

Lemma offset_roundtrip o : Z.abs o < 86400 -> o mod 60 = 0 ->
  let a := Z.abs o in
  0 <= a / 3600 < 100 /\ 0 <= a / 60 mod 60 < 100 /\
  (if o <? 0 then - (a / 3600 * 3600 + a / 60 mod 60 * 60) else a / 3600 * 3600 + a / 60 mod 60 * 60) = o.
Proof. intros H1 H2. cbv zeta. destruct (Z.ltb_spec o 0); dm; lia. Qed.

(* reading back what datetime_text printed: the same fields (microseconds truncated to ms) and the same offset *)
Lemma parse_datetime_text_gen f o :
  0 <= f_year f < 10000 /\ 0 <= f_month f < 100 /\ 0 <= f_day f < 100 /\ 0 <= f_hour f < 100 /\
  0 <= f_minute f < 100 /\ 0 <= f_second f < 100 /\ 0 <= f_us f / 1000 < 1000 ->
  Z.abs o < 86400 -> o mod 60 = 0 ->
  parse_date_form (datetime_text f o) = None /\
  parse_datetime_form (datetime_text f o) = Some (trunc_fields f, o).
Proof.
  intros [Ry [Rmo [Rd [Rh [Rmi [Rs Rus]]]]]] Ho Hm.
  destruct (offset_roundtrip o Ho Hm) as [Roh [Rom Eo]].
  unfold datetime_text, date_text, time_text, offset_text. rewrite <- !app_assoc. cbn [app].
  split.
  - unfold parse_date_form.
    rewrite (take4 udigit udigit_dchar) by exact Ry. cbn [obind]. rewrite expect_cons. cbn [obind].
    rewrite (take2 udigit udigit_dchar) by exact Rmo. cbn [obind]. rewrite expect_cons. cbn [obind].
    rewrite (take2 udigit udigit_dchar) by exact Rd. cbn [obind].
    unfold pad2 at 1. cbn [app]. reflexivity.
  - unfold parse_datetime_form.
    rewrite (take4 adigit adigit_dchar) by exact Ry. cbn [obind]. rewrite expect_cons. cbn [obind].
    rewrite (take2 adigit adigit_dchar) by exact Rmo. cbn [obind]. rewrite expect_cons. cbn [obind].
    rewrite (take2 adigit adigit_dchar) by exact Rd. cbn [obind]. rewrite expect_cons. cbn [obind].
    rewrite (take2 adigit adigit_dchar) by exact Rh. cbn [obind]. rewrite expect_cons. cbn [obind].
    rewrite (take2 adigit adigit_dchar) by exact Rmi. cbn [obind]. rewrite expect_cons. cbn [obind].
    rewrite (take2 adigit adigit_dchar) by exact Rs. cbn [obind].
    set (sign := if o <? 0 then C_DASH else C_PLUS).
    assert (Hsign : adigit sign = None /\ (sign =? C_DOT)%N = false /\ (sign =? C_Z)%N = false /\
                    ((sign =? C_PLUS)%N || (sign =? C_DASH)%N) = true /\ (sign =? C_DASH)%N = (o <? 0)).
    { unfold sign. destruct (o <? 0); repeat split; reflexivity. }
    destruct Hsign as [S1 [S2 [S3 [S4 S5]]]].
    set (tail := pad2 (Z.abs o / 3600) ++ C_COLON :: pad2 (Z.abs o / 60 mod 60)).
    assert (Htail : forall u, (do (us, s) <- Some (u, sign :: tail);
        match s with
        | [] => None
        | [c] => if (c =? C_Z)%N then Some (mkf (f_year f) (f_month f) (f_day f) (f_hour f) (f_minute f) (f_second f) us, 0) else None
        | c :: (_ :: _) as t =>
          if (c =? C_PLUS)%N || (c =? C_DASH)%N then
            do (oh, t) <- take_digits adigit 2 t 0;
            do t <- expect C_COLON t;
            do (om, t) <- take_digits adigit 2 t 0;
            match t with
            | [] => let o := oh * 3600 + om * 60 in
                    Some (mkf (f_year f) (f_month f) (f_day f) (f_hour f) (f_minute f) (f_second f) us, if (c =? C_DASH)%N then - o else o)
            | _ => None
            end
          else None
        end) = Some (mkf (f_year f) (f_month f) (f_day f) (f_hour f) (f_minute f) (f_second f) u, o)).
    { intros u. cbn [obind]. unfold tail at 1. unfold pad2 at 1. cbn [app]. rewrite S4.
      unfold tail.
      rewrite (take2 adigit adigit_dchar) by exact Roh. cbn [obind]. rewrite expect_cons. cbn [obind].
      rewrite (take2_nil adigit adigit_dchar) by exact Rom. cbn [obind]. rewrite S5. rewrite Eo. reflexivity. }
    unfold trunc_fields.
    destruct (Z.eqb_spec (f_us f) 0) as [E0|E0].
    + cbn [app]. fold tail. rewrite S2.
      replace (f_us f / 1000 * 1000) with 0 by (rewrite E0; reflexivity). apply Htail.
    + cbn [app]. rewrite N.eqb_refl. fold tail.
      rewrite frac3 by (lia || exact S1). change (3 =? 0) with false. cbv iota.
      change (10 ^ (6 - 3)) with 1000. apply Htail.
Qed.


Lemma parse_datetime_text f o : valid_fields f = true -> Z.abs o < 86400 -> o mod 60 = 0 ->
  parse_date_form (datetime_text f o) = None /\
  parse_datetime_form (datetime_text f o) = Some (trunc_fields f, o).
Proof. intros V. apply parse_datetime_text_gen, fields_digit_ranges, V. Qed.

(* ------------------------------------------------------------------ ISO round trip in an arbitrary zone *)
Lemma trunc_ms_range w : in_range w = true -> in_range (trunc_ms w) = true.
Proof.
  unfold in_range, trunc_ms. replace MIN_US with (-62135596800000000) by reflexivity.
  replace MAX_US with 253402300799999999 by reflexivity. intros H. dm. lia.
Qed.

Lemma trunc_ms_idem w : trunc_ms (trunc_ms w) = trunc_ms w.
Proof. unfold trunc_ms. dm. lia. Qed.

Lemma trunc_ms_shift w k : trunc_ms (w + k * 1000) = trunc_ms w + k * 1000.
Proof. unfold trunc_ms. dm. lia. Qed.

Lemma of_trunc_fields_gen f : of_fields (trunc_fields f) = of_fields f - f_us f + f_us f / 1000 * 1000.
Proof. unfold of_fields, trunc_fields. cbn [f_year f_month f_day f_hour f_minute f_second f_us]. lia. Qed.

Lemma f_us_fields w : f_us (fields w) = w mod US_DAY mod US_SEC.
Proof. unfold fields. destruct (civil_from_days (w / US_DAY)) as [[y m] d]. reflexivity. Qed.

Lemma us_trunc_arith w : w - w mod 86400000000 mod 1000000 + w mod 86400000000 mod 1000000 / 1000 * 1000 = w - w mod 1000.
Proof. dm. lia. Qed.

Lemma of_trunc_fields w : of_fields (trunc_fields (fields w)) = trunc_ms w.
Proof.
  rewrite of_trunc_fields_gen, of_fields_fields, f_us_fields. unfold trunc_ms. apply us_trunc_arith.
Qed.

Lemma trunc_fields_valid f : valid_fields f = true -> valid_fields (trunc_fields f) = true.
Proof.
  rewrite !valid_fields_iff. unfold trunc_fields. cbn [f_year f_month f_day f_hour f_minute f_second f_us].
  intros [Hy [Hd [Hh [Hmi [Hs Hus]]]]]. repeat split; try tauto; try lia; dm; lia.
Qed.

Section ZoneFacts.
Variable off_local : Z -> Z.
Variable off_utc : Z -> Z.

(* THEOREM (ISO round trip), for EVERY pair of offset functions: a wall time w that exists in the zone, whose offset is a
   whole number of minutes (and less than a day), and whose UTC instant is representable, formats to a text that
   parses back to w truncated to the millisecond.  [Hms]: the offset in force does not change inside the millisecond
   of w (trivially true when w is a whole number of milliseconds, see the corollary). *)
Theorem iso_roundtrip w :
  in_range w = true ->
  exists_in_zone off_local off_utc w = true ->
  Z.abs (off_local w) <? 86400 = true -> off_local w mod 60 =? 0 = true ->
  in_range (w - off_local w * US_SEC) = true ->
  off_utc (trunc_ms w - off_local w * US_SEC) =? off_utc (w - off_local w * US_SEC) = true ->
  exists s, iso_format off_local off_utc w = DOk s /\ iso_parse off_utc s = Some (trunc_ms w).
Proof.
  intros Hw Hex Habs Hmin Hu Hms.
  apply Z.eqb_eq in Hex, Hmin, Hms. apply Z.ltb_lt in Habs.
  set (o := off_local w) in *.
  unfold iso_format, astimezone_naive. fold o. rewrite Hu. unfold exists_in_zone in Hex. fold o in Hex. rewrite Hex.
  replace (w - o * US_SEC + o * US_SEC) with w by lia. rewrite Hw. cbn [dbind fst snd].
  eexists. split; [reflexivity|].
  assert (V : valid_fields (fields w) = true) by (rewrite <- in_range_fields; exact Hw).
  destruct (parse_datetime_text (fields w) o V Habs Hmin) as [P1 P2].
  unfold iso_parse, fromiso_to_local. rewrite P1, P2. rewrite trunc_fields_valid by exact V.
  destruct (Z.ltb_spec (Z.abs o) 86400); [|lia]. cbn [andb].
  rewrite of_trunc_fields.
  assert (Hk : o * US_SEC = (o * 1000) * 1000) by (unfold US_SEC; lia).
  assert (Hu' : in_range (trunc_ms w - o * US_SEC) = true).
  { replace (trunc_ms w - o * US_SEC) with (trunc_ms (w - o * US_SEC)).
    - apply trunc_ms_range, Hu.
    - rewrite Hk. replace (w - o * 1000 * 1000) with (w + (- (o * 1000)) * 1000) by lia. rewrite trunc_ms_shift. lia. }
  rewrite Hu'. rewrite Hms, Hex.
  replace (trunc_ms w - o * US_SEC + o * US_SEC) with (trunc_ms w) by lia.
  rewrite trunc_ms_range by exact Hw. rewrite trunc_ms_idem. reflexivity.
Qed.

(* for datetimes that are a whole number of milliseconds (everything datetimeNew and integral +/- produce) the last
   hypothesis disappears *)
Corollary iso_roundtrip_whole_ms w :
  in_range w = true -> w mod 1000 = 0 ->
  exists_in_zone off_local off_utc w = true ->
  Z.abs (off_local w) <? 86400 = true -> off_local w mod 60 =? 0 = true ->
  in_range (w - off_local w * US_SEC) = true ->
  exists s, iso_format off_local off_utc w = DOk s /\ iso_parse off_utc s = Some w.
Proof.
  intros Hw Hm Hex Habs Hmin Hu.
  assert (T : trunc_ms w = w) by (unfold trunc_ms; lia).
  destruct (iso_roundtrip w) as [s [F P]]; auto; [rewrite T; apply Z.eqb_refl|].
  exists s. rewrite T in P. auto.
Qed.

(* the formatter never invents an exception: it fails only when the UTC instant (or its local reading) leaves
   year 1..9999 *)
Theorem iso_format_total w :
  (exists s, iso_format off_local off_utc w = DOk s) \/
  (iso_format off_local off_utc w = DExc /\
   (in_range (w - off_local w * US_SEC) = false \/
    in_range (w - off_local w * US_SEC + off_utc (w - off_local w * US_SEC) * US_SEC) = false)).
Proof.
  unfold iso_format, astimezone_naive. destruct (in_range (w - off_local w * US_SEC)); [|right; auto].
  destruct (in_range (w - off_local w * US_SEC + off_utc (w - off_local w * US_SEC) * US_SEC)); [left|right; auto].
  eexists. reflexivity.
Qed.

End ZoneFacts.

Section ParseFacts.
Variable off_utc : Z -> Z.

(* THEOREM (parse is total): any text gives null or a representable whole-millisecond datetime; the result type has
   no exception constructor *)
Theorem parse_total s :
  iso_parse off_utc s = None \/ exists w, iso_parse off_utc s = Some w /\ in_range w = true /\ w mod 1000 = 0.
Proof.
  unfold iso_parse, fromiso_to_local. destruct (parse_date_form s) as [[[y m] d]|].
  - destruct (py_datetime (mkf y m d 0 0 0 0)) as [w| |] eqn:E; cbn [dres_opt]; auto.
    right. exists w. split; [reflexivity|]. apply py_datetime_ok in E. destruct E as [_ [E [_ R]]]. split; [exact R|].
    rewrite E. unfold of_fields. cbn [f_year f_month f_day f_hour f_minute f_second f_us]. unfold US_DAY, US_SEC. dm. lia.
  - destruct (parse_datetime_form s) as [[f o]|]; auto.
    destruct (valid_fields f && (Z.abs o <? 86400)); auto.
    destruct (in_range (of_fields f - o * US_SEC)); auto.
    destruct (in_range (of_fields f - o * US_SEC + off_utc (of_fields f - o * US_SEC) * US_SEC)) eqn:R; auto.
    right. eexists. split; [reflexivity|]. split; [apply trunc_ms_range, R|]. unfold trunc_ms. dm. lia.
Qed.

(* invalid field values are rejected: a well-shaped text whose fields are not a real date/time parses to null *)
Theorem parse_rejects_invalid_fields f o :
  0 <= f_year f < 10000 -> 0 <= f_month f < 100 -> 0 <= f_day f < 100 -> 0 <= f_hour f < 100 ->
  0 <= f_minute f < 100 -> 0 <= f_second f < 100 -> 0 <= f_us f < 1000000 -> Z.abs o < 86400 -> o mod 60 = 0 ->
  valid_fields f = false -> iso_parse off_utc (datetime_text f o) = None.
Proof.
  intros Ry Rmo Rd Rh Rmi Rs Rus Ho Hm V.
  destruct (parse_datetime_text_gen f o) as [P1 P2]; auto.
  { repeat split; try lia; dm; lia. }
  unfold iso_parse, fromiso_to_local. rewrite P1, P2.
  assert (V' : valid_fields (trunc_fields f) = false).
  { destruct (valid_fields (trunc_fields f)) eqn:E; [|reflexivity]. rewrite <- V. symmetry.
    apply valid_fields_iff in E. apply valid_fields_iff. unfold trunc_fields in E.
    cbn [f_year f_month f_day f_hour f_minute f_second f_us] in E. intuition lia. }
  rewrite V'. reflexivity.
Qed.
(* datetimeISOFormat(d, true) -> datetimeISOParse gives midnight of the same day, in any zone *)
Theorem iso_date_roundtrip w : in_range w = true -> iso_parse off_utc (iso_format_date w) = Some (w - w mod US_DAY).
Proof.
  intros Hw. assert (V : valid_fields (fields w) = true) by (rewrite <- in_range_fields; exact Hw).
  pose proof (fields_digit_ranges _ V) as [Ry [Rmo [Rd _]]].
  unfold iso_parse, iso_format_date, date_text. cbn [app].
  unfold parse_date_form.
  rewrite (take4 udigit udigit_dchar) by exact Ry. cbn [obind]. rewrite expect_cons. cbn [obind].
  rewrite (take2 udigit udigit_dchar) by exact Rmo. cbn [obind]. rewrite expect_cons. cbn [obind].
  rewrite (take2_nil udigit udigit_dchar) by exact Rd. cbn [obind].
  assert (V0 : valid_fields (mkf (f_year (fields w)) (f_month (fields w)) (f_day (fields w)) 0 0 0 0) = true).
  { apply valid_fields_iff in V. apply valid_fields_iff. cbn [f_year f_month f_day f_hour f_minute f_second f_us]. intuition lia. }
  unfold py_datetime. rewrite V0. cbn [dres_opt]. f_equal.
  pose proof (of_fields_fields w) as E. unfold of_fields in *.
  cbn [f_year f_month f_day f_hour f_minute f_second f_us].
  assert (Hd : days_from_civil (f_year (fields w), f_month (fields w), f_day (fields w)) = w / US_DAY).
  { unfold fields. destruct (dfc_of_civil (w / US_DAY)) as [D _]. destruct (civil_from_days (w / US_DAY)) as [[y m] d]. exact D. }
  rewrite Hd. unfold US_DAY, US_SEC. dm. lia.
Qed.
End ParseFacts.

(* the value of a datetimeNew result as a count: midnight of the first of the normalised month plus the signed total *)
Lemma tod_recompose t : let r := t mod 86400000 in
  (t / 86400000) * US_DAY + ((r / 3600000 * 60 + r / 60000 mod 60) * 60 + r / 1000 mod 60) * US_SEC + r mod 1000 * 1000 = t * 1000.
Proof. cbv zeta. unfold US_DAY, US_SEC. dm. lia. Qed.

Theorem new_value y mo d h mi s ms w :
  datetime_new y mo d h mi s ms = DOk w ->
  w = days_from_civil (norm_year y mo, norm_month mo, 1) * US_DAY + dn_total_ms d h mi s ms * 1000.
Proof.
  intros E. destruct (dtnew_args_ok y mo d h mi s ms) eqn:A; [|rewrite new_rejects in E by exact A; discriminate].
  rewrite new_is_calendar_arithmetic in E by exact A. apply py_datetime_ok in E. destruct E as [_ [E _]]. subst w.
  unfold dn_spec_fields. set (t := dn_total_ms d h mi s ms).
  assert (HM : 1 <= norm_month mo <= 12) by (unfold norm_month; dm; lia).
  assert (V : valid_date (norm_year y mo, norm_month mo, 1) = true).
  { apply valid_date_iff. pose proof (month_days_bounds (norm_year y mo) (norm_month mo)). lia. }
  pose proof (dfc_shift (t / 86400000) _ V) as D.
  destruct (shift_days (t / 86400000) (norm_year y mo, norm_month mo, 1)) as [[y' m'] d'].
  unfold of_fields. cbn [f_year f_month f_day f_hour f_minute f_second f_us]. rewrite D.
  pose proof (tod_recompose t) as R. cbv zeta in R. lia.
Qed.

Section Exists.
Variable off_local off_utc : Z -> Z.
(* "exists in the zone" is exactly: naive -> aware -> UTC -> aware -> naive gives the same wall time back *)
Theorem exists_iff_astimezone_fixpoint w :
  in_range w = true -> in_range (w - off_local w * US_SEC) = true ->
  (exists_in_zone off_local off_utc w = true <-> exists o, astimezone_naive off_local off_utc w = DOk (w, o)).
Proof.
  intros Hw Hu. unfold exists_in_zone, astimezone_naive. rewrite Hu. split.
  - intros E. apply Z.eqb_eq in E. rewrite E. replace (w - off_local w * US_SEC + off_local w * US_SEC) with w by lia.
    rewrite Hw. eauto.
  - intros [o E]. destruct (in_range (w - off_local w * US_SEC + off_utc (w - off_local w * US_SEC) * US_SEC)); [|discriminate].
    injection E as E1 E2. apply Z.eqb_eq. unfold US_SEC in *. lia.
Qed.
End Exists.

(* ------------------------------------------------------------------ the accepted texts, declaratively *)
Definition all_dg (dg : N -> option Z) (l : str) : Prop := Forall (fun c => dg c <> None) l.

(* YYYY-MM-DD in (Unicode) decimal digits, optionally followed by one newline *)
Definition is_date_text (s : str) : Prop :=
  exists y m d tl, s = y ++ [C_DASH] ++ m ++ [C_DASH] ++ d ++ tl /\
    length y = 4%nat /\ length m = 2%nat /\ length d = 2%nat /\
    all_dg udigit y /\ all_dg udigit m /\ all_dg udigit d /\ (tl = [] \/ tl = [C_NL]).

(* YYYY-MM-DDTHH:MM:SS[.f{1,6}](Z|+HH:MM|-HH:MM) in ASCII digits *)
Definition is_datetime_text (s : str) : Prop :=
  exists y mo d h mi sec frac zone,
    s = y ++ [C_DASH] ++ mo ++ [C_DASH] ++ d ++ [C_T] ++ h ++ [C_COLON] ++ mi ++ [C_COLON] ++ sec ++ frac ++ zone /\
    length y = 4%nat /\ length mo = 2%nat /\ length d = 2%nat /\ length h = 2%nat /\ length mi = 2%nat /\ length sec = 2%nat /\
    all_dg adigit y /\ all_dg adigit mo /\ all_dg adigit d /\ all_dg adigit h /\ all_dg adigit mi /\ all_dg adigit sec /\
    (frac = [] \/ exists fd, frac = C_DOT :: fd /\ (1 <= length fd <= 6)%nat /\ all_dg adigit fd) /\
    (zone = [C_Z] \/
     exists sg oh om, zone = sg :: oh ++ [C_COLON] ++ om /\ (sg = C_PLUS \/ sg = C_DASH) /\
                      length oh = 2%nat /\ length om = 2%nat /\ all_dg adigit oh /\ all_dg adigit om).

Lemma take_digits_inv dg n : forall s acc v r, take_digits dg n s acc = Some (v, r) ->
  exists ds, s = ds ++ r /\ length ds = n /\ all_dg dg ds.
Proof.
  induction n as [|n IH]; intros s acc v r H; cbn in H.
  - injection H as _ <-. exists []. repeat split. constructor.
  - destruct s as [|c t]; [discriminate|]. destruct (dg c) eqn:E; [|discriminate].
    apply IH in H. destruct H as [ds [-> [L F]]]. exists (c :: ds). repeat split; cbn; [congruence|].
    constructor; [congruence|exact F].
Qed.

Lemma expect_inv c s r : expect c s = Some r -> s = c :: r.
Proof. unfold expect. destruct s as [|x t]; [discriminate|]. destruct (N.eqb_spec x c); [|discriminate]. intros H. injection H as <-. congruence. Qed.

Lemma frac_digits_inv n : forall s acc cnt v cnt' r, frac_digits n s acc cnt = (v, cnt', r) ->
  exists fd, s = fd ++ r /\ cnt' = cnt + Z.of_nat (length fd) /\ (length fd <= n)%nat /\ all_dg adigit fd.
Proof.
  induction n as [|n IH]; intros s acc cnt v cnt' r H; cbn in H.
  - injection H as _ <- <-. exists []. cbn. repeat split; [lia|lia|constructor].
  - destruct s as [|c t].
    + injection H as _ <- <-. exists []. cbn. repeat split; [lia|lia|constructor].
    + destruct (adigit c) eqn:E.
      * apply IH in H. destruct H as [fd [-> [C [L F]]]]. exists (c :: fd). cbn. repeat split; [lia|lia|].
        constructor; [congruence|exact F].
      * injection H as _ <- <-. exists []. cbn. repeat split; [lia|lia|constructor].
Qed.

Ltac step_take H ds r v :=
  match type of H with
  | obind (take_digits ?dg ?n ?s ?a) _ = Some _ =>
    let E := fresh "E" in
    destruct (take_digits dg n s a) as [[v r]|] eqn:E;
    [cbn [obind] in H; apply take_digits_inv in E; destruct E as [ds [-> [? ?]]]|discriminate H]
  end.
Ltac step_exp H r :=
  match type of H with
  | obind (expect ?c ?s) _ = Some _ =>
    let E := fresh "E" in destruct (expect c s) as [r|] eqn:E; [cbn [obind] in H; apply expect_inv in E; subst|discriminate H]
  end.

Lemma parse_date_form_shape s c : parse_date_form s = Some c -> is_date_text s.
Proof.
  unfold parse_date_form. intros H.
  step_take H y r1 vy. step_exp H r2. step_take H m r3 vm. step_exp H r4. step_take H d tail0 vd.
  exists y, m, d, tail0. repeat split; auto.
  destruct tail0 as [|c0 [|c1 t]]; auto; try discriminate.
  destruct (N.eqb_spec c0 C_NL); [subst; auto|discriminate].
Qed.

Lemma parse_datetime_form_shape s x : parse_datetime_form s = Some x -> is_datetime_text s.
Proof.
  unfold parse_datetime_form. intros H.
  step_take H y r1 v. step_exp H r2. step_take H mo r3 v0. step_exp H r4. step_take H d r5 v1. step_exp H r6.
  step_take H h r7 v2. step_exp H r8. step_take H mi r9 v3. step_exp H r10. step_take H sec r11 v4.
  (* the optional fraction *)
  assert (F : exists frac r12 us, r11 = frac ++ r12 /\
            (frac = [] \/ exists fd, frac = C_DOT :: fd /\ (1 <= length fd <= 6)%nat /\ all_dg adigit fd) /\
            match r12 with
            | [] => None
            | [c] => if (c =? C_Z)%N then Some (mkf v v0 v1 v2 v3 v4 us, 0) else None
            | c :: (_ :: _) as t =>
              if (c =? C_PLUS)%N || (c =? C_DASH)%N then
                do (oh, t) <- take_digits adigit 2 t 0;
                do t <- expect C_COLON t;
                do (om, t) <- take_digits adigit 2 t 0;
                match t with
                | [] => let o := oh * 3600 + om * 60 in Some (mkf v v0 v1 v2 v3 v4 us, if (c =? C_DASH)%N then - o else o)
                | _ => None
                end
              else None
            end = Some x).
  { destruct r11 as [|c t]; [discriminate|].
    destruct (N.eqb_spec c C_DOT) as [->|NE].
    - destruct (frac_digits 6 t 0 0) as [[fv cnt] r] eqn:FD. apply frac_digits_inv in FD.
      destruct FD as [fd [-> [C [L A]]]]. destruct (Z.eqb_spec cnt 0); [discriminate|]. cbn [obind] in H.
      exists (C_DOT :: fd), r, (fv * 10 ^ (6 - cnt)). split; [reflexivity|]. split; [|exact H].
      right. exists fd. repeat split; auto; lia.
    - cbn [obind] in H. exists [], (c :: t), 0. split; [reflexivity|]. split; [auto|exact H]. }
  destruct F as [frac [r12 [us [-> [Hfrac Hz]]]]]. clear H.
  exists y, mo, d, h, mi, sec, frac, r12. repeat split; auto.
  destruct r12 as [|c [|c2 t]]; [discriminate| |].
  - destruct (N.eqb_spec c C_Z); [subst; auto|discriminate].
  - right. destruct (((c =? C_PLUS)%N || (c =? C_DASH)%N)) eqn:S; [|discriminate].
    step_take Hz oh q1 voh. step_exp Hz q2. step_take Hz om q3 vom. destruct q3; [|discriminate].
    exists c, oh, om. rewrite app_nil_r. repeat split; auto.
    apply orb_true_iff in S. destruct S as [S|S]; apply N.eqb_eq in S; auto.
Qed.

Section ParseGrammar.
Variable off_utc : Z -> Z.
(* THEOREM (invalid text => null): whatever parses to a datetime is a text of the ISO date or datetime grammar *)
Theorem parse_some_is_iso s w : iso_parse off_utc s = Some w -> is_date_text s \/ is_datetime_text s.
Proof.
  unfold iso_parse. destruct (parse_date_form s) as [c|] eqn:D.
  - intros _. left. eapply parse_date_form_shape, D.
  - destruct (parse_datetime_form s) as [x|] eqn:T; [|discriminate]. intros _. right. eapply parse_datetime_form_shape, T.
Qed.

Corollary parse_non_iso_is_null s : ~ (is_date_text s \/ is_datetime_text s) -> iso_parse off_utc s = None.
Proof. intros N. destruct (iso_parse off_utc s) eqn:E; [|reflexivity]. exfalso. apply N. eapply parse_some_is_iso, E. Qed.
End ParseGrammar.

Section General.
Variable off_local off_utc : Z -> Z.
(* without the existence hypothesis: parse (format w) is the zone's own normalisation of w (the wall time astimezone()
   reports, e.g. 03:30 for a 02:30 that falls into a DST gap), truncated to the millisecond *)
Theorem iso_format_parse_general w l o :
  astimezone_naive off_local off_utc w = DOk (l, o) ->
  Z.abs o <? 86400 = true -> o mod 60 =? 0 = true ->
  off_utc (trunc_ms l - o * US_SEC) =? o = true ->
  exists s, iso_format off_local off_utc w = DOk s /\ iso_parse off_utc s = Some (trunc_ms l).
Proof.
  intros A Habs Hmin Hst. apply Z.ltb_lt in Habs. apply Z.eqb_eq in Hmin, Hst.
  unfold iso_format. rewrite A. cbn [dbind fst snd]. eexists. split; [reflexivity|].
  unfold astimezone_naive in A.
  destruct (in_range (w - off_local w * US_SEC)) eqn:Hu; [|discriminate].
  destruct (in_range (w - off_local w * US_SEC + off_utc (w - off_local w * US_SEC) * US_SEC)) eqn:Hl; [|discriminate].
  injection A as El Eo. set (u := w - off_local w * US_SEC) in *. rewrite Eo in El.
  assert (Hl' : in_range l = true) by (rewrite <- El, <- Eo; exact Hl).
  assert (V : valid_fields (fields l) = true) by (rewrite <- in_range_fields; exact Hl').
  destruct (parse_datetime_text (fields l) o V Habs Hmin) as [P1 P2].
  unfold iso_parse, fromiso_to_local. rewrite P1, P2. rewrite trunc_fields_valid by exact V.
  destruct (Z.ltb_spec (Z.abs o) 86400); [|lia]. cbn [andb]. rewrite of_trunc_fields.
  assert (Hk : o * US_SEC = (o * 1000) * 1000) by (unfold US_SEC; lia).
  assert (Hu' : in_range (trunc_ms l - o * US_SEC) = true).
  { replace (trunc_ms l - o * US_SEC) with (trunc_ms u).
    - apply trunc_ms_range, Hu.
    - rewrite <- El. rewrite Hk. rewrite trunc_ms_shift. lia. }
  rewrite Hu', Hst. replace (trunc_ms l - o * US_SEC + o * US_SEC) with (trunc_ms l) by lia.
  rewrite trunc_ms_range by exact Hl'. rewrite trunc_ms_idem. reflexivity.
Qed.
End General.

(* ------------------------------------------------------------------ non-vacuity *)
(* a zone with a DST transition: UTC-5 before 2024-03-10T07:00:00Z, UTC-4 after; wall times 02:00-03:00 do not exist *)
Definition ex_T : Z := 1710054000000000.
Definition ex_off_utc (u : Z) : Z := if u <? ex_T then -18000 else -14400.
Definition ex_off_local (w : Z) : Z := if w <? ex_T - 18000 * US_SEC + 3600 * US_SEC then -18000 else -14400.
Definition ex_w_before : Z := 1710034200123456.   (* 2024-03-10T01:30:00.123456 *)
Definition ex_w_gap : Z := 1710037800000000.      (* 2024-03-10T02:30:00 *)
Definition ex_w_after : Z := 1710041400000000.    (* 2024-03-10T03:30:00 *)

Example ex_roundtrip_hyps :
  in_range ex_w_before = true /\ exists_in_zone ex_off_local ex_off_utc ex_w_before = true /\
  (Z.abs (ex_off_local ex_w_before) <? 86400) = true /\ (ex_off_local ex_w_before mod 60 =? 0) = true /\
  in_range (ex_w_before - ex_off_local ex_w_before * US_SEC) = true /\
  (ex_off_utc (trunc_ms ex_w_before - ex_off_local ex_w_before * US_SEC) =? ex_off_utc (ex_w_before - ex_off_local ex_w_before * US_SEC)) = true /\
  iso_format ex_off_local ex_off_utc ex_w_before = DOk (U "2024-03-10T01:30:00.123-05:00") /\
  iso_parse ex_off_utc (U "2024-03-10T01:30:00.123-05:00") = Some (trunc_ms ex_w_before) /\
  exists_in_zone ex_off_local ex_off_utc ex_w_gap = false /\
  iso_format ex_off_local ex_off_utc ex_w_gap = DOk (U "2024-03-10T03:30:00-04:00") /\
  exists_in_zone ex_off_local ex_off_utc ex_w_after = true.
Proof. vm_compute. repeat split; reflexivity. Qed.

Example ex_new :
  dtnew_args_ok 2022 0 15 6 30 15 250 = true /\
  option_map fields (dres_opt (datetime_new 2022 0 15 6 30 15 250)) = Some (mkf 2021 12 15 6 30 15 250000) /\
  option_map fields (dres_opt (datetime_new 2024 40 (-10000) 5000 (-5000) 5000 (-5000))) = Some (mkf 2000 6 4 22 3 15 0) /\
  datetime_new 9997 40 1 0 0 0 0 = DExc /\ datetime_new 99 1 1 0 0 0 0 = DExc.
Proof. vm_compute. repeat split; reflexivity. Qed.

Example ex_parse :
  iso_parse ex_off_utc (U "2024-02-30") = None /\ iso_parse ex_off_utc (U "2024-01-01T24:00:00Z") = None /\
  iso_parse ex_off_utc (U "2024-01-01T10:00:00") = None /\ iso_parse ex_off_utc (U "junk") = None /\
  option_map fields (iso_parse ex_off_utc (U "2024-02-29")) = Some (mkf 2024 2 29 0 0 0 0) /\
  option_map fields (iso_parse ex_off_utc (U "2024-07-01T12:00:00.5Z")) = Some (mkf 2024 7 1 8 0 0 500000).
Proof. vm_compute. repeat split; reflexivity. Qed.

