(* Proofs/C16.v — lemmas and proofs for property C16 (datetime construction, arithmetic, ISO text). *)
From Coq Require Import ZArith List Bool Lia ZifyBool.
From BS Require Import Model.Base Model.Calendar Gen.CalendarTables Gen.Unicode.
Local Open Scope Z_scope.
Ltac dm := Z.div_mod_to_equations.

(* ------------------------------------------------------------------ the regenerated tables *)
Lemma tables_ok :
  gen_dtnew_divisors = [1000; 60; 60; 24; 12] /\
  gen_dtnew_bounds = [(Some 100, None); (None, None); (Some (-10000), Some 10000); (None, None); (None, None);
                      (None, None); (None, None)].
Proof. split; reflexivity. Qed.

Lemma args_ok_iff y mo d h mi s ms :
  dtnew_args_ok y mo d h mi s ms = true <-> (100 <= y /\ -10000 <= d <= 10000).
Proof. unfold dtnew_args_ok, bound_ok. cbn. lia. Qed.

(* ------------------------------------------------------------------ leap years and month lengths *)
Lemma div_pred y c : 0 < c -> (y - 1) / c = y / c - (if y mod c =? 0 then 1 else 0).
Proof. intros Hc. destruct (Z.eqb_spec (y mod c) 0) as [E|E]; dm; nia. Qed.

Lemma mod_100_4 y : y mod 100 = 0 -> y mod 4 = 0.
Proof. intros. dm. lia. Qed.
Lemma mod_400_100 y : y mod 400 = 0 -> y mod 100 = 0.
Proof. intros. dm. lia. Qed.

Lemma dby_succ y : dby (y + 1) = dby y + (if is_leap y then 366 else 365).
Proof.
  unfold dby, is_leap. replace (y + 1 - 1) with y by lia.
  rewrite !(div_pred y) by lia.
  pose proof (mod_100_4 y). pose proof (mod_400_100 y).
  destruct (Z.eqb_spec (y mod 4) 0), (Z.eqb_spec (y mod 100) 0), (Z.eqb_spec (y mod 400) 0); cbn [negb andb orb]; lia.
Qed.

Lemma dby_pred y : dby (y - 1) = dby y - (if is_leap (y - 1) then 366 else 365).
Proof. pose proof (dby_succ (y - 1)) as H. replace (y - 1 + 1) with y in H by lia. lia. Qed.

Lemma dby_mono_step y : dby y < dby (y + 1).
Proof. rewrite dby_succ. destruct (is_leap y); lia. Qed.

Lemma dby_mono a b : a <= b -> dby a <= dby b.
Proof.
  intros H. replace b with (a + (b - a)) by lia.
  assert (Hk : 0 <= b - a) by lia. revert Hk. generalize (b - a) as k.
  apply (natlike_ind (fun k => dby a <= dby (a + k))).
  - rewrite Z.add_0_r. lia.
  - intros k Hk IH. replace (a + Z.succ k) with (a + k + 1) by lia. pose proof (dby_mono_step (a + k)). lia.
Qed.

Lemma dby_lt_inv a b : dby a < dby b -> a < b.
Proof. intros H. destruct (Z_lt_le_dec a b) as [L|L]; [exact L|]. pose proof (dby_mono b a L). lia. Qed.

Lemma month_days_bounds y m : 28 <= month_days y m <= 31.
Proof. unfold month_days. destruct (m =? 2), (is_leap y), ((m =? 4) || (m =? 6) || (m =? 9) || (m =? 11)); lia. Qed.

(* ------------------------------------------------------------------ the spec calendar: next_day / prev_day *)
Lemma valid_date_iff y m d : valid_date (y, m, d) = true <-> (1 <= m <= 12 /\ 1 <= d <= month_days y m).
Proof. unfold valid_date. lia. Qed.

Lemma next_day_valid c : valid_date c = true -> valid_date (next_day c) = true.
Proof.
  destruct c as [[y m] d]. rewrite valid_date_iff. intros [Hm Hd]. unfold next_day.
  destruct (Z.ltb_spec d (month_days y m)).
  - apply valid_date_iff. lia.
  - destruct (Z.ltb_spec m 12); apply valid_date_iff.
    + pose proof (month_days_bounds y (m + 1)). lia.
    + pose proof (month_days_bounds (y + 1) 1). lia.
Qed.

Lemma prev_day_valid c : valid_date c = true -> valid_date (prev_day c) = true.
Proof.
  destruct c as [[y m] d]. rewrite valid_date_iff. intros [Hm Hd]. unfold prev_day.
  destruct (Z.ltb_spec 1 d).
  - apply valid_date_iff. lia.
  - destruct (Z.ltb_spec 1 m); apply valid_date_iff.
    + pose proof (month_days_bounds y (m - 1)). lia.
    + unfold month_days. cbn. lia.
Qed.

Lemma prev_next c : valid_date c = true -> prev_day (next_day c) = c.
Proof.
  destruct c as [[y m] d]. rewrite valid_date_iff. intros [Hm Hd]. unfold next_day.
  destruct (Z.ltb_spec d (month_days y m)).
  - unfold prev_day. destruct (Z.ltb_spec 1 (d + 1)); [|lia]. f_equal. lia.
  - destruct (Z.ltb_spec m 12); unfold prev_day; cbn [Z.ltb]; cbn.
    + destruct (Z.ltb_spec 1 (m + 1)); [|lia]. replace (m + 1 - 1) with m by lia. f_equal. lia.
    + assert (m = 12) by lia. subst m. replace (y + 1 - 1) with y by lia. f_equal. unfold month_days in *. cbn in *. lia.
Qed.

Lemma next_prev c : valid_date c = true -> next_day (prev_day c) = c.
Proof.
  destruct c as [[y m] d]. rewrite valid_date_iff. intros [Hm Hd]. unfold prev_day.
  destruct (Z.ltb_spec 1 d).
  - unfold next_day. destruct (Z.ltb_spec (d - 1) (month_days y m)); [|lia]. f_equal. lia.
  - destruct (Z.ltb_spec 1 m); unfold next_day.
    + rewrite Z.ltb_irrefl. destruct (Z.ltb_spec (m - 1) 12); [|lia]. replace (m - 1 + 1) with m by lia. f_equal. lia.
    + assert (m = 1) by lia. subst m. replace (month_days (y - 1) 12) with 31 by reflexivity. cbn.
      replace (y - 1 + 1) with y by lia. f_equal. lia.
Qed.

(* ------------------------------------------------------------------ shift_days is a group action on valid dates *)
Lemma iter_valid f n c : (forall x, valid_date x = true -> valid_date (f x) = true) ->
  valid_date c = true -> valid_date (Nat.iter n f c) = true.
Proof. intros Hf Hc. induction n; cbn; auto. Qed.

Lemma shift_valid k c : valid_date c = true -> valid_date (shift_days k c) = true.
Proof. intros H. unfold shift_days. destruct (0 <=? k); apply iter_valid; auto using next_day_valid, prev_day_valid. Qed.

Lemma shift_0 c : shift_days 0 c = c.
Proof. reflexivity. Qed.

Lemma shift_succ k c : valid_date c = true -> shift_days (k + 1) c = next_day (shift_days k c).
Proof.
  intros Hc. unfold shift_days.
  destruct (Z.leb_spec 0 k).
  - destruct (Z.leb_spec 0 (k + 1)); [|lia]. replace (Z.to_nat (k + 1)) with (S (Z.to_nat k)) by lia. reflexivity.
  - destruct (Z.leb_spec 0 (k + 1)).
    + assert (k = -1) by lia. subst k. cbn. symmetry. apply next_prev, Hc.
    + replace (Z.to_nat (- k)) with (S (Z.to_nat (- (k + 1)))) by lia. cbn [Nat.iter].
      symmetry. apply next_prev. apply iter_valid; auto using prev_day_valid.
Qed.

Lemma shift_pred k c : valid_date c = true -> shift_days (k - 1) c = prev_day (shift_days k c).
Proof.
  intros Hc. pose proof (shift_succ (k - 1) c Hc) as H. replace (k - 1 + 1) with k in H by lia.
  rewrite H. symmetry. apply prev_next. apply shift_valid, Hc.
Qed.

Lemma shift_add a b c : valid_date c = true -> shift_days (a + b) c = shift_days a (shift_days b c).
Proof.
  intros Hc. pose proof (shift_valid b c Hc) as Hb.
  induction a using Z.peano_ind.
  - reflexivity.
  - replace (Z.succ a + b) with (a + b + 1) by lia. replace (Z.succ a) with (a + 1) by lia.
    rewrite !shift_succ by assumption. congruence.
  - replace (Z.pred a + b) with (a + b - 1) by lia. replace (Z.pred a) with (a - 1) by lia.
    rewrite !shift_pred by assumption. congruence.
Qed.

Lemma iter_shift_in {A} (f : A -> A) n x : Nat.iter (S n) f x = Nat.iter n f (f x).
Proof. induction n; cbn in *; [reflexivity|]. rewrite IHn. reflexivity. Qed.

(* inside a month the iteration just counts the day up *)
Lemma shift_within y m d k : 0 <= k -> 1 <= d -> d + k <= month_days y m -> shift_days k (y, m, d) = (y, m, d + k).
Proof.
  intros Hk. revert d. pattern k. apply natlike_ind; [| |exact Hk].
  - intros d _ _. rewrite shift_0. f_equal. lia.
  - clear k Hk. intros k Hk IH d Hd Hle.
    replace (Z.succ k) with (k + 1) by lia.
    assert (Hadd : shift_days (k + 1) (y, m, d) = shift_days k (shift_days 1 (y, m, d))).
    { unfold shift_days at 1 2. destruct (Z.leb_spec 0 (k + 1)); [|lia]. destruct (Z.leb_spec 0 k); [|lia].
      replace (Z.to_nat (k + 1)) with (S (Z.to_nat k)) by lia. apply iter_shift_in. }
    rewrite Hadd. change (shift_days 1 (y, m, d)) with (next_day (y, m, d)). unfold next_day.
    destruct (Z.ltb_spec d (month_days y m)); [|lia]. rewrite IH by lia. f_equal. lia.
Qed.

Definition next_month (y m : Z) : Z * Z := if m =? 12 then (y + 1, 1) else (y, m + 1).
Definition prev_month (y m : Z) : Z * Z := if m =? 1 then (y - 1, 12) else (y, m - 1).

Lemma shift_month y m : 1 <= m <= 12 ->
  shift_days (month_days y m) (y, m, 1) = (fst (next_month y m), snd (next_month y m), 1).
Proof.
  intros Hm. pose proof (month_days_bounds y m) as Hb.
  assert (Hv : valid_date (y, m, 1) = true) by (apply valid_date_iff; lia).
  replace (month_days y m) with (month_days y m - 1 + 1) at 1 by lia.
  rewrite shift_succ by exact Hv. rewrite shift_within by lia.
  unfold next_day, next_month. replace (1 + (month_days y m - 1)) with (month_days y m) by lia.
  rewrite Z.ltb_irrefl. destruct (Z.eqb_spec m 12); destruct (Z.ltb_spec m 12); try lia; reflexivity.
Qed.

Lemma prev_next_month y m : 1 <= m <= 12 -> next_month (fst (prev_month y m)) (snd (prev_month y m)) = (y, m).
Proof.
  intros Hm. unfold prev_month, next_month. destruct (Z.eqb_spec m 1); cbn.
  - subst. f_equal. lia.
  - destruct (Z.eqb_spec (m - 1) 12); [lia|]. f_equal. lia.
Qed.

Lemma prev_month_range y m : 1 <= m <= 12 -> 1 <= snd (prev_month y m) <= 12.
Proof. intros. unfold prev_month. destruct (Z.eqb_spec m 1); cbn; lia. Qed.
Lemma next_month_range y m : 1 <= m <= 12 -> 1 <= snd (next_month y m) <= 12.
Proof. intros. unfold next_month. destruct (Z.eqb_spec m 12); cbn; lia. Qed.

(* ------------------------------------------------------------------ the two while loops of _datetime_new *)
Lemma monthrange_ok y m : 1 <= m <= 12 -> monthrange y m = Some (month_days y m).
Proof. intros. unfold monthrange. destruct (Z.leb_spec 1 m), (Z.leb_spec m 12); try lia. reflexivity. Qed.

Lemma dn_fwd_spec fuel : forall y m d,
  1 <= m <= 12 -> 1 <= d -> (Z.to_nat d <= fuel)%nat ->
  exists c, dn_fwd fuel y m d (month_days y m) = DOk c /\ c = shift_days (d - 1) (y, m, 1) /\ valid_date c = true.
Proof.
  induction fuel as [|f IH]; intros y m d Hm Hd Hf; [lia|].
  pose proof (month_days_bounds y m) as Hb.
  cbn [dn_fwd]. destruct (Z.ltb_spec (month_days y m) d) as [Hgt|Hle].
  - pose proof (next_month_range y m Hm) as Hr.
    assert (Hy' : (if negb (m =? 12) then y else y + 1) = fst (next_month y m)) by (unfold next_month; destruct (m =? 12); reflexivity).
    assert (Hm' : (if negb (m =? 12) then m + 1 else 1) = snd (next_month y m)) by (unfold next_month; destruct (m =? 12); reflexivity).
    rewrite Hy', Hm'.
    rewrite monthrange_ok by exact Hr.
    destruct (IH (fst (next_month y m)) (snd (next_month y m)) (d - month_days y m)) as [c [E [Hc Hv]]]; try lia.
    exists c. split; [exact E|]. split; [|exact Hv].
    rewrite Hc. rewrite <- (shift_month y m Hm).
    rewrite <- shift_add by (apply valid_date_iff; lia). f_equal. lia.
  - exists (y, m, d). split; [reflexivity|]. split.
    + rewrite shift_within by lia. f_equal. lia.
    + apply valid_date_iff. lia.
Qed.

Lemma dn_back_spec fuel : forall y m d,
  1 <= m <= 12 -> d <= month_days y m -> (Z.to_nat (1 - d) <= fuel)%nat ->
  exists c, dn_back fuel y m d = DOk c /\ c = shift_days (d - 1) (y, m, 1) /\ valid_date c = true.
Proof.
  induction fuel as [|f IH]; intros y m d Hm Hd Hf.
  - assert (1 <= d) by lia. cbn [dn_back]. destruct (Z.ltb_spec d 1); [lia|].
    exists (y, m, d). split; [reflexivity|]. split; [rewrite shift_within by lia; f_equal; lia | apply valid_date_iff; lia].
  - cbn [dn_back]. destruct (Z.ltb_spec d 1) as [Hlt|Hge].
    + pose proof (prev_month_range y m Hm) as Hr.
      assert (Hy' : (if negb (m =? 1) then y else y - 1) = fst (prev_month y m)) by (unfold prev_month; destruct (m =? 1); reflexivity).
      assert (Hm' : (if negb (m =? 1) then m - 1 else 12) = snd (prev_month y m)) by (unfold prev_month; destruct (m =? 1); reflexivity).
      rewrite Hy', Hm'.
      rewrite monthrange_ok by exact Hr.
      set (y' := fst (prev_month y m)) in *. set (m' := snd (prev_month y m)) in *.
      pose proof (month_days_bounds y' m') as Hb.
      destruct (IH y' m' (d + month_days y' m')) as [c [E [Hc Hv]]]; try lia.
      exists c. split; [exact E|]. split; [|exact Hv].
      rewrite Hc.
      assert (Hstep : shift_days (month_days y' m') (y', m', 1) = (y, m, 1)).
      { rewrite shift_month by exact Hr. unfold y', m'. rewrite prev_next_month by exact Hm. reflexivity. }
      rewrite <- Hstep. rewrite <- shift_add by (apply valid_date_iff; lia). f_equal. lia.
    + exists (y, m, d). split; [reflexivity|]. split; [rewrite shift_within by lia; f_equal; lia | apply valid_date_iff; lia].
Qed.

(* ------------------------------------------------------------------ datetimeNew = calendar arithmetic *)
(* SPEC.  The requested instant: the first of the normalised month, plus (day - 1) days and the time components,
   all as one signed count of milliseconds; days are added by stepping the calendar one day at a time. *)
Definition dn_total_ms (d h mi s ms : Z) : Z := ((((d - 1) * 24 + h) * 60 + mi) * 60 + s) * 1000 + ms.
Definition norm_year (y mo : Z) : Z := y + (mo - 1) / 12.
Definition norm_month (mo : Z) : Z := (mo - 1) mod 12 + 1.

Definition dn_spec_fields (y mo d h mi s ms : Z) : dtf :=
  let t := dn_total_ms d h mi s ms in
  let '(y', m', d') := shift_days (t / 86400000) (norm_year y mo, norm_month mo, 1) in
  let r := t mod 86400000 in
  mkf y' m' d' (r / 3600000) (r / 60000 mod 60) (r / 1000 mod 60) (r mod 1000 * 1000).

Lemma carry_eq v next base : 0 < base -> carry v next base = (v mod base, next + v / base).
Proof.
  intros Hb. unfold carry. destruct (Z.ltb_spec v 0); cbn [orb].
  - f_equal. dm. nia.
  - destruct (Z.leb_spec base v).
    + f_equal. dm. nia.
    + rewrite Z.mod_small, Z.div_small by lia. f_equal. lia.
Qed.

Lemma time_decomp d h mi s ms :
  let s1 := s + ms / 1000 in let mi1 := mi + s1 / 60 in let h1 := h + mi1 / 60 in
  let t := dn_total_ms d h mi s ms in let r := t mod 86400000 in
  t / 86400000 = d + h1 / 24 - 1 /\ r / 3600000 = h1 mod 24 /\ r / 60000 mod 60 = mi1 mod 60 /\
  r / 1000 mod 60 = s1 mod 60 /\ r mod 1000 = ms mod 1000.
Proof. cbv zeta. unfold dn_total_ms. dm. lia. Qed.

Lemma dn_rollover_spec y mo d h mi s ms :
  dn_rollover y mo d h mi s ms = DOk (dn_spec_fields y mo d h mi s ms).
Proof.
  unfold dn_rollover, dn_spec_fields.
  change BASE_MS with 1000. change BASE_S with 60. change BASE_MIN with 60. change BASE_H with 24. change BASE_MON with 12.
  rewrite (carry_eq ms) by lia. rewrite (carry_eq (s + ms / 1000)) by lia.
  rewrite (carry_eq (mi + (s + ms / 1000) / 60)) by lia. rewrite (carry_eq (h + (mi + (s + ms / 1000) / 60) / 60)) by lia.
  destruct (time_decomp d h mi s ms) as [Hd [Hh [Hmi [Hs Hms]]]].
  rewrite Hd, Hh, Hmi, Hs, Hms.
  set (day1 := d + (h + (mi + (s + ms / 1000) / 60) / 60) / 24).
  replace (day1 - 1) with (day1 - 1) by reflexivity.
  assert (Hmon : (if (mo <? 1) || (12 <? mo) then (mo - (mo - 1) / 12 * 12, y + (mo - 1) / 12) else (mo, y))
                 = (norm_month mo, norm_year y mo)).
  { unfold norm_month, norm_year. destruct (Z.ltb_spec mo 1); cbn [orb].
    - f_equal. dm. lia.
    - destruct (Z.ltb_spec 12 mo).
      + f_equal. dm. lia.
      + f_equal; dm; lia. }
  rewrite Hmon. clear Hmon.
  set (Y := norm_year y mo). set (M := norm_month mo).
  assert (HM : 1 <= M <= 12) by (unfold M, norm_month; dm; lia).
  pose proof (month_days_bounds Y M) as Hb.
  assert (Hc : exists c,
    (if day1 <? 1 then dn_back (S (Z.to_nat (Z.abs day1))) Y M day1
     else if 28 <? day1 then match monthrange Y M with None => DExc | Some md => dn_fwd (S (Z.to_nat (Z.abs day1))) Y M day1 md end
     else DOk (Y, M, day1)) = DOk c /\ c = shift_days (day1 - 1) (Y, M, 1)).
  { destruct (Z.ltb_spec day1 1).
    - destruct (dn_back_spec (S (Z.to_nat (Z.abs day1))) Y M day1) as [c [E [Hc _]]]; try lia. exists c. auto.
    - destruct (Z.ltb_spec 28 day1).
      + rewrite monthrange_ok by exact HM.
        destruct (dn_fwd_spec (S (Z.to_nat (Z.abs day1))) Y M day1) as [c [E [Hc _]]]; try lia. exists c. auto.
      + exists (Y, M, day1). split; [reflexivity|]. rewrite shift_within by lia. f_equal. lia. }
  destruct Hc as [c [E Hc]]. rewrite E. cbn [dbind]. rewrite <- Hc. destruct c as [[y' m'] d']. reflexivity.
Qed.

(* THEOREM: for every argument list that passes the validation, datetimeNew is the datetime constructor applied to
   the fields that day-by-day calendar arithmetic gives (DExc = ValueError exactly when that year leaves 1..9999) *)
Theorem new_is_calendar_arithmetic y mo d h mi s ms :
  dtnew_args_ok y mo d h mi s ms = true ->
  datetime_new y mo d h mi s ms = py_datetime (dn_spec_fields y mo d h mi s ms).
Proof. intros H. unfold datetime_new. rewrite H, dn_rollover_spec. reflexivity. Qed.

(* without the validation nothing but null comes out *)
Lemma new_rejects y mo d h mi s ms : dtnew_args_ok y mo d h mi s ms = false -> datetime_new y mo d h mi s ms = DExc.
Proof. intros H. unfold datetime_new. rewrite H. reflexivity. Qed.

(* the loops never run out of fuel and never call monthrange with an illegal month *)
Corollary new_never_fuel y mo d h mi s ms : datetime_new y mo d h mi s ms <> DFuel.
Proof.
  destruct (dtnew_args_ok y mo d h mi s ms) eqn:E.
  - rewrite new_is_calendar_arithmetic by exact E. unfold py_datetime. destruct (valid_fields _); discriminate.
  - rewrite new_rejects by exact E. discriminate.
Qed.
