(* Proofs/C16.v — lemmas and proofs for property C16 (datetime construction, arithmetic, ISO text). *)
From Coq Require Import ZArith List Bool Lia ZifyBool.
From BS Require Import Model.Base Model.Calendar Gen.CalendarTables Gen.Unicode.
Local Open Scope Z_scope.
Ltac dm := Z.div_mod_to_equations.

(* ------------------------------------------------------------------ the regenerated tables *)
Lemma tables_ok :
  gen_dtnew_divisors = [1000; 60; 60; 24; 12] /\
  gen_dtnew_bounds = [(Some 100, None); (None, None); (Some (-10000), Some 10000); (None, None); (None, None);
                      (None, None); (None, None)].
Proof. split; reflexivity. Qed.

Lemma args_ok_iff y mo d h mi s ms :
  dtnew_args_ok y mo d h mi s ms = true <-> (100 <= y /\ -10000 <= d <= 10000).
Proof. unfold dtnew_args_ok, bound_ok. cbn. lia. Qed.

(* ------------------------------------------------------------------ leap years and month lengths *)
Lemma div_pred y c : 0 < c -> (y - 1) / c = y / c - (if y mod c =? 0 then 1 else 0).
Proof. intros Hc. destruct (Z.eqb_spec (y mod c) 0) as [E|E]; dm; nia. Qed.

Lemma mod_100_4 y : y mod 100 = 0 -> y mod 4 = 0.
Proof. intros. dm. lia. Qed.
Lemma mod_400_100 y : y mod 400 = 0 -> y mod 100 = 0.
Proof. intros. dm. lia. Qed.

Lemma dby_succ y : dby (y + 1) = dby y + (if is_leap y then 366 else 365).
Proof.
  unfold dby, is_leap. replace (y + 1 - 1) with y by lia.
  rewrite !(div_pred y) by lia.
  pose proof (mod_100_4 y). pose proof (mod_400_100 y).
  destruct (Z.eqb_spec (y mod 4) 0), (Z.eqb_spec (y mod 100) 0), (Z.eqb_spec (y mod 400) 0); cbn [negb andb orb]; lia.
Qed.

Lemma dby_pred y : dby (y - 1) = dby y - (if is_leap (y - 1) then 366 else 365).
Proof. pose proof (dby_succ (y - 1)) as H. replace (y - 1 + 1) with y in H by lia. lia. Qed.

Lemma dby_mono_step y : dby y < dby (y + 1).
Proof. rewrite dby_succ. destruct (is_leap y); lia. Qed.

Lemma dby_mono a b : a <= b -> dby a <= dby b.
Proof.
  intros H. replace b with (a + (b - a)) by lia.
  assert (Hk : 0 <= b - a) by lia. revert Hk. generalize (b - a) as k.
  apply (natlike_ind (fun k => dby a <= dby (a + k))).
  - rewrite Z.add_0_r. lia.
  - intros k Hk IH. replace (a + Z.succ k) with (a + k + 1) by lia. pose proof (dby_mono_step (a + k)). lia.
Qed.

Lemma dby_lt_inv a b : dby a < dby b -> a < b.
Proof. intros H. destruct (Z_lt_le_dec a b) as [L|L]; [exact L|]. pose proof (dby_mono b a L). lia. Qed.

Lemma month_days_bounds y m : 28 <= month_days y m <= 31.
Proof. unfold month_days. destruct (m =? 2), (is_leap y), ((m =? 4) || (m =? 6) || (m =? 9) || (m =? 11)); lia. Qed.

(* ------------------------------------------------------------------ the spec calendar: next_day / prev_day *)
Lemma valid_date_iff y m d : valid_date (y, m, d) = true <-> (1 <= m <= 12 /\ 1 <= d <= month_days y m).
Proof. unfold valid_date. lia. Qed.

Lemma next_day_valid c : valid_date c = true -> valid_date (next_day c) = true.
Proof.
  destruct c as [[y m] d]. rewrite valid_date_iff. intros [Hm Hd]. unfold next_day.
  destruct (Z.ltb_spec d (month_days y m)).
  - apply valid_date_iff. lia.
  - destruct (Z.ltb_spec m 12); apply valid_date_iff.
    + pose proof (month_days_bounds y (m + 1)). lia.
    + pose proof (month_days_bounds (y + 1) 1). lia.
Qed.

Lemma prev_day_valid c : valid_date c = true -> valid_date (prev_day c) = true.
Proof.
  destruct c as [[y m] d]. rewrite valid_date_iff. intros [Hm Hd]. unfold prev_day.
  destruct (Z.ltb_spec 1 d).
  - apply valid_date_iff. lia.
  - destruct (Z.ltb_spec 1 m); apply valid_date_iff.
    + pose proof (month_days_bounds y (m - 1)). lia.
    + unfold month_days. cbn. lia.
Qed.

Lemma prev_next c : valid_date c = true -> prev_day (next_day c) = c.
Proof.
  destruct c as [[y m] d]. rewrite valid_date_iff. intros [Hm Hd]. unfold next_day.
  destruct (Z.ltb_spec d (month_days y m)).
  - unfold prev_day. destruct (Z.ltb_spec 1 (d + 1)); [|lia]. f_equal. lia.
  - destruct (Z.ltb_spec m 12); unfold prev_day; cbn [Z.ltb]; cbn.
    + destruct (Z.ltb_spec 1 (m + 1)); [|lia]. replace (m + 1 - 1) with m by lia. f_equal. lia.
    + assert (m = 12) by lia. subst m. replace (y + 1 - 1) with y by lia. f_equal. unfold month_days in *. cbn in *. lia.
Qed.

Lemma next_prev c : valid_date c = true -> next_day (prev_day c) = c.
Proof.
  destruct c as [[y m] d]. rewrite valid_date_iff. intros [Hm Hd]. unfold prev_day.
  destruct (Z.ltb_spec 1 d).
  - unfold next_day. destruct (Z.ltb_spec (d - 1) (month_days y m)); [|lia]. f_equal. lia.
  - destruct (Z.ltb_spec 1 m); unfold next_day.
    + rewrite Z.ltb_irrefl. destruct (Z.ltb_spec (m - 1) 12); [|lia]. replace (m - 1 + 1) with m by lia. f_equal. lia.
    + assert (m = 1) by lia. subst m. replace (month_days (y - 1) 12) with 31 by reflexivity. cbn.
      replace (y - 1 + 1) with y by lia. f_equal. lia.
Qed.

(* ------------------------------------------------------------------ shift_days is a group action on valid dates *)
Lemma iter_valid f n c : (forall x, valid_date x = true -> valid_date (f x) = true) ->
  valid_date c = true -> valid_date (Nat.iter n f c) = true.
Proof. intros Hf Hc. induction n; cbn; auto. Qed.

Lemma shift_valid k c : valid_date c = true -> valid_date (shift_days k c) = true.
Proof. intros H. unfold shift_days. destruct (0 <=? k); apply iter_valid; auto using next_day_valid, prev_day_valid. Qed.

Lemma shift_0 c : shift_days 0 c = c.
Proof. reflexivity. Qed.

Lemma shift_succ k c : valid_date c = true -> shift_days (k + 1) c = next_day (shift_days k c).
Proof.
  intros Hc. unfold shift_days.
  destruct (Z.leb_spec 0 k).
  - destruct (Z.leb_spec 0 (k + 1)); [|lia]. replace (Z.to_nat (k + 1)) with (S (Z.to_nat k)) by lia. reflexivity.
  - destruct (Z.leb_spec 0 (k + 1)).
    + assert (k = -1) by lia. subst k. cbn. symmetry. apply next_prev, Hc.
    + replace (Z.to_nat (- k)) with (S (Z.to_nat (- (k + 1)))) by lia. cbn [Nat.iter].
      symmetry. apply next_prev. apply iter_valid; auto using prev_day_valid.
Qed.

Lemma shift_pred k c : valid_date c = true -> shift_days (k - 1) c = prev_day (shift_days k c).
Proof.
  intros Hc. pose proof (shift_succ (k - 1) c Hc) as H. replace (k - 1 + 1) with k in H by lia.
  rewrite H. symmetry. apply prev_next. apply shift_valid, Hc.
Qed.

Lemma shift_add a b c : valid_date c = true -> shift_days (a + b) c = shift_days a (shift_days b c).
Proof.
  intros Hc. pose proof (shift_valid b c Hc) as Hb.
  induction a using Z.peano_ind.
  - reflexivity.
  - replace (Z.succ a + b) with (a + b + 1) by lia. replace (Z.succ a) with (a + 1) by lia.
    rewrite !shift_succ by assumption. congruence.
  - replace (Z.pred a + b) with (a + b - 1) by lia. replace (Z.pred a) with (a - 1) by lia.
    rewrite !shift_pred by assumption. congruence.
Qed.

Lemma iter_shift_in {A} (f : A -> A) n x : Nat.iter (S n) f x = Nat.iter n f (f x).
Proof. induction n; cbn in *; [reflexivity|]. rewrite IHn. reflexivity. Qed.

(* inside a month the iteration just counts the day up *)
Lemma shift_within y m d k : 0 <= k -> 1 <= d -> d + k <= month_days y m -> shift_days k (y, m, d) = (y, m, d + k).
Proof.
  intros Hk. revert d. pattern k. apply natlike_ind; [| |exact Hk].
  - intros d _ _. rewrite shift_0. f_equal. lia.
  - clear k Hk. intros k Hk IH d Hd Hle.
    replace (Z.succ k) with (k + 1) by lia.
    assert (Hadd : shift_days (k + 1) (y, m, d) = shift_days k (shift_days 1 (y, m, d))).
    { unfold shift_days at 1 2. destruct (Z.leb_spec 0 (k + 1)); [|lia]. destruct (Z.leb_spec 0 k); [|lia].
      replace (Z.to_nat (k + 1)) with (S (Z.to_nat k)) by lia. apply iter_shift_in. }
    rewrite Hadd. change (shift_days 1 (y, m, d)) with (next_day (y, m, d)). unfold next_day.
    destruct (Z.ltb_spec d (month_days y m)); [|lia]. rewrite IH by lia. f_equal. lia.
Qed.

Definition next_month (y m : Z) : Z * Z := if m =? 12 then (y + 1, 1) else (y, m + 1).
Definition prev_month (y m : Z) : Z * Z := if m =? 1 then (y - 1, 12) else (y, m - 1).

Lemma shift_month y m : 1 <= m <= 12 ->
  shift_days (month_days y m) (y, m, 1) = (fst (next_month y m), snd (next_month y m), 1).
Proof.
  intros Hm. pose proof (month_days_bounds y m) as Hb.
  assert (Hv : valid_date (y, m, 1) = true) by (apply valid_date_iff; lia).
  replace (month_days y m) with (month_days y m - 1 + 1) at 1 by lia.
  rewrite shift_succ by exact Hv. rewrite shift_within by lia.
  unfold next_day, next_month. replace (1 + (month_days y m - 1)) with (month_days y m) by lia.
  rewrite Z.ltb_irrefl. destruct (Z.eqb_spec m 12); destruct (Z.ltb_spec m 12); try lia; reflexivity.
Qed.

Lemma prev_next_month y m : 1 <= m <= 12 -> next_month (fst (prev_month y m)) (snd (prev_month y m)) = (y, m).
Proof.
  intros Hm. unfold prev_month, next_month. destruct (Z.eqb_spec m 1); cbn.
  - subst. f_equal. lia.
  - destruct (Z.eqb_spec (m - 1) 12); [lia|]. f_equal. lia.
Qed.

Lemma prev_month_range y m : 1 <= m <= 12 -> 1 <= snd (prev_month y m) <= 12.
Proof. intros. unfold prev_month. destruct (Z.eqb_spec m 1); cbn; lia. Qed.
Lemma next_month_range y m : 1 <= m <= 12 -> 1 <= snd (next_month y m) <= 12.
Proof. intros. unfold next_month. destruct (Z.eqb_spec m 12); cbn; lia. Qed.

(* ------------------------------------------------------------------ the two while loops of _datetime_new *)
Lemma monthrange_ok y m : 1 <= m <= 12 -> monthrange y m = Some (month_days y m).
Proof. intros. unfold monthrange. destruct (Z.leb_spec 1 m), (Z.leb_spec m 12); try lia. reflexivity. Qed.

Lemma dn_fwd_spec fuel : forall y m d,
  1 <= m <= 12 -> 1 <= d -> (Z.to_nat d <= fuel)%nat ->
  exists c, dn_fwd fuel y m d (month_days y m) = DOk c /\ c = shift_days (d - 1) (y, m, 1) /\ valid_date c = true.
Proof.
  induction fuel as [|f IH]; intros y m d Hm Hd Hf; [lia|].
  pose proof (month_days_bounds y m) as Hb.
  cbn [dn_fwd]. destruct (Z.ltb_spec (month_days y m) d) as [Hgt|Hle].
  - pose proof (next_month_range y m Hm) as Hr.
    assert (Hy' : (if negb (m =? 12) then y else y + 1) = fst (next_month y m)) by (unfold next_month; destruct (m =? 12); reflexivity).
    assert (Hm' : (if negb (m =? 12) then m + 1 else 1) = snd (next_month y m)) by (unfold next_month; destruct (m =? 12); reflexivity).
    rewrite Hy', Hm'.
    rewrite monthrange_ok by exact Hr.
    destruct (IH (fst (next_month y m)) (snd (next_month y m)) (d - month_days y m)) as [c [E [Hc Hv]]]; try lia.
    exists c. split; [exact E|]. split; [|exact Hv].
    rewrite Hc. rewrite <- (shift_month y m Hm).
    rewrite <- shift_add by (apply valid_date_iff; lia). f_equal. lia.
  - exists (y, m, d). split; [reflexivity|]. split.
    + rewrite shift_within by lia. f_equal. lia.
    + apply valid_date_iff. lia.
Qed.

Lemma dn_back_spec fuel : forall y m d,
  1 <= m <= 12 -> d <= month_days y m -> (Z.to_nat (1 - d) <= fuel)%nat ->
  exists c, dn_back fuel y m d = DOk c /\ c = shift_days (d - 1) (y, m, 1) /\ valid_date c = true.
Proof.
  induction fuel as [|f IH]; intros y m d Hm Hd Hf.
  - assert (1 <= d) by lia. cbn [dn_back]. destruct (Z.ltb_spec d 1); [lia|].
    exists (y, m, d). split; [reflexivity|]. split; [rewrite shift_within by lia; f_equal; lia | apply valid_date_iff; lia].
  - cbn [dn_back]. destruct (Z.ltb_spec d 1) as [Hlt|Hge].
    + pose proof (prev_month_range y m Hm) as Hr.
      assert (Hy' : (if negb (m =? 1) then y else y - 1) = fst (prev_month y m)) by (unfold prev_month; destruct (m =? 1); reflexivity).
      assert (Hm' : (if negb (m =? 1) then m - 1 else 12) = snd (prev_month y m)) by (unfold prev_month; destruct (m =? 1); reflexivity).
      rewrite Hy', Hm'.
      rewrite monthrange_ok by exact Hr.
      set (y' := fst (prev_month y m)) in *. set (m' := snd (prev_month y m)) in *.
      pose proof (month_days_bounds y' m') as Hb.
      destruct (IH y' m' (d + month_days y' m')) as [c [E [Hc Hv]]]; try lia.
      exists c. split; [exact E|]. split; [|exact Hv].
      rewrite Hc.
      assert (Hstep : shift_days (month_days y' m') (y', m', 1) = (y, m, 1)).
      { rewrite shift_month by exact Hr. unfold y', m'. rewrite prev_next_month by exact Hm. reflexivity. }
      rewrite <- Hstep. rewrite <- shift_add by (apply valid_date_iff; lia). f_equal. lia.
    + exists (y, m, d). split; [reflexivity|]. split; [rewrite shift_within by lia; f_equal; lia | apply valid_date_iff; lia].
Qed.

(* ------------------------------------------------------------------ datetimeNew = calendar arithmetic *)
(* SPEC.  The requested instant: the first of the normalised month, plus (day - 1) days and the time components,
   all as one signed count of milliseconds; days are added by stepping the calendar one day at a time. *)
Definition dn_total_ms (d h mi s ms : Z) : Z := ((((d - 1) * 24 + h) * 60 + mi) * 60 + s) * 1000 + ms.
Definition norm_year (y mo : Z) : Z := y + (mo - 1) / 12.
Definition norm_month (mo : Z) : Z := (mo - 1) mod 12 + 1.

Definition dn_spec_fields (y mo d h mi s ms : Z) : dtf :=
  let t := dn_total_ms d h mi s ms in
  let '(y', m', d') := shift_days (t / 86400000) (norm_year y mo, norm_month mo, 1) in
  let r := t mod 86400000 in
  mkf y' m' d' (r / 3600000) (r / 60000 mod 60) (r / 1000 mod 60) (r mod 1000 * 1000).

Lemma carry_eq v next base : 0 < base -> carry v next base = (v mod base, next + v / base).
Proof.
  intros Hb. unfold carry. destruct (Z.ltb_spec v 0); cbn [orb].
  - f_equal. dm. nia.
  - destruct (Z.leb_spec base v).
    + f_equal. dm. nia.
    + rewrite Z.mod_small, Z.div_small by lia. f_equal. lia.
Qed.

Lemma time_decomp d h mi s ms :
  let s1 := s + ms / 1000 in let mi1 := mi + s1 / 60 in let h1 := h + mi1 / 60 in
  let t := dn_total_ms d h mi s ms in let r := t mod 86400000 in
  t / 86400000 = d + h1 / 24 - 1 /\ r / 3600000 = h1 mod 24 /\ r / 60000 mod 60 = mi1 mod 60 /\
  r / 1000 mod 60 = s1 mod 60 /\ r mod 1000 = ms mod 1000.
Proof. cbv zeta. unfold dn_total_ms. dm. lia. Qed.

Lemma dn_rollover_spec y mo d h mi s ms :
  dn_rollover y mo d h mi s ms = DOk (dn_spec_fields y mo d h mi s ms).
Proof.
  unfold dn_rollover, dn_spec_fields.
  change BASE_MS with 1000. change BASE_S with 60. change BASE_MIN with 60. change BASE_H with 24. change BASE_MON with 12.
  rewrite (carry_eq ms) by lia. rewrite (carry_eq (s + ms / 1000)) by lia.
  rewrite (carry_eq (mi + (s + ms / 1000) / 60)) by lia. rewrite (carry_eq (h + (mi + (s + ms / 1000) / 60) / 60)) by lia.
  destruct (time_decomp d h mi s ms) as [Hd [Hh [Hmi [Hs Hms]]]].
  rewrite Hd, Hh, Hmi, Hs, Hms.
  set (day1 := d + (h + (mi + (s + ms / 1000) / 60) / 60) / 24).
  replace (day1 - 1) with (day1 - 1) by reflexivity.
  assert (Hmon : (if (mo <? 1) || (12 <? mo) then (mo - (mo - 1) / 12 * 12, y + (mo - 1) / 12) else (mo, y))
                 = (norm_month mo, norm_year y mo)).
  { unfold norm_month, norm_year. destruct (Z.ltb_spec mo 1); cbn [orb].
    - f_equal. dm. lia.
    - destruct (Z.ltb_spec 12 mo).
      + f_equal. dm. lia.
      + f_equal; dm; lia. }
  rewrite Hmon. clear Hmon.
  set (Y := norm_year y mo). set (M := norm_month mo).
  assert (HM : 1 <= M <= 12) by (unfold M, norm_month; dm; lia).
  pose proof (month_days_bounds Y M) as Hb.
  assert (Hc : exists c,
    (if day1 <? 1 then dn_back (S (Z.to_nat (Z.abs day1))) Y M day1
     else if 28 <? day1 then match monthrange Y M with None => DExc | Some md => dn_fwd (S (Z.to_nat (Z.abs day1))) Y M day1 md end
     else DOk (Y, M, day1)) = DOk c /\ c = shift_days (day1 - 1) (Y, M, 1)).
  { destruct (Z.ltb_spec day1 1).
    - destruct (dn_back_spec (S (Z.to_nat (Z.abs day1))) Y M day1) as [c [E [Hc _]]]; try lia. exists c. auto.
    - destruct (Z.ltb_spec 28 day1).
      + rewrite monthrange_ok by exact HM.
        destruct (dn_fwd_spec (S (Z.to_nat (Z.abs day1))) Y M day1) as [c [E [Hc _]]]; try lia. exists c. auto.
      + exists (Y, M, day1). split; [reflexivity|]. rewrite shift_within by lia. f_equal. lia. }
  destruct Hc as [c [E Hc]]. rewrite E. cbn [dbind]. rewrite <- Hc. destruct c as [[y' m'] d']. reflexivity.
Qed.

(* THEOREM: for every argument list that passes the validation, datetimeNew is the datetime constructor applied to
   the fields that day-by-day calendar arithmetic gives (DExc = ValueError exactly when that year leaves 1..9999) *)
Theorem new_is_calendar_arithmetic y mo d h mi s ms :
  dtnew_args_ok y mo d h mi s ms = true ->
  datetime_new y mo d h mi s ms = py_datetime (dn_spec_fields y mo d h mi s ms).
Proof. intros H. unfold datetime_new. rewrite H, dn_rollover_spec. reflexivity. Qed.

(* without the validation nothing but null comes out *)
Lemma new_rejects y mo d h mi s ms : dtnew_args_ok y mo d h mi s ms = false -> datetime_new y mo d h mi s ms = DExc.
Proof. intros H. unfold datetime_new. rewrite H. reflexivity. Qed.

(* the loops never run out of fuel and never call monthrange with an illegal month *)
Corollary new_never_fuel y mo d h mi s ms : datetime_new y mo d h mi s ms <> DFuel.
Proof.
  destruct (dtnew_args_ok y mo d h mi s ms) eqn:E.
  - rewrite new_is_calendar_arithmetic by exact E. unfold py_datetime. destruct (valid_fields _); discriminate.
  - rewrite new_rejects by exact E. discriminate.
Qed.

(* ------------------------------------------------------------------ day numbers vs. the day-by-day calendar *)
Lemma month_cases m : 1 <= m <= 12 ->
  m = 1 \/ m = 2 \/ m = 3 \/ m = 4 \/ m = 5 \/ m = 6 \/ m = 7 \/ m = 8 \/ m = 9 \/ m = 10 \/ m = 11 \/ m = 12.
Proof. lia. Qed.

Ltac month_split H := apply month_cases in H;
  repeat (destruct H as [H|H]; [subst|]); [..|subst].

Lemma dbm_succ y m : 1 <= m <= 11 -> dbm (is_leap y) (m + 1) = dbm (is_leap y) m + month_days y m.
Proof.
  intros H. assert (H' : 1 <= m <= 12) by lia. unfold month_days.
  month_split H'; try lia; destruct (is_leap y); reflexivity.
Qed.

Lemma dbm_12 y : dbm (is_leap y) 12 + 31 = if is_leap y then 366 else 365.
Proof. destruct (is_leap y); reflexivity. Qed.

Lemma dfc_next c : valid_date c = true -> days_from_civil (next_day c) = days_from_civil c + 1.
Proof.
  destruct c as [[y m] d]. rewrite valid_date_iff. intros [Hm Hd]. unfold next_day.
  destruct (Z.ltb_spec d (month_days y m)).
  - unfold days_from_civil. lia.
  - assert (d = month_days y m) by lia. destruct (Z.ltb_spec m 12).
    + unfold days_from_civil. rewrite dbm_succ by lia. lia.
    + assert (m = 12) by lia. subst m. unfold days_from_civil. rewrite dby_succ.
      pose proof (dbm_12 y). replace (month_days y 12) with 31 in * by reflexivity.
      replace (dbm (is_leap (y + 1)) 1) with 0 by (destruct (is_leap (y + 1)); reflexivity). lia.
Qed.

Lemma dfc_prev c : valid_date c = true -> days_from_civil (prev_day c) = days_from_civil c - 1.
Proof.
  intros H. pose proof (dfc_next (prev_day c) (prev_day_valid c H)) as E. rewrite next_prev in E by exact H. lia.
Qed.

(* the closed-form day number of the date reached by stepping k single days *)
Lemma dfc_shift k c : valid_date c = true -> days_from_civil (shift_days k c) = days_from_civil c + k.
Proof.
  intros H. induction k using Z.peano_ind.
  - rewrite shift_0. lia.
  - replace (Z.succ k) with (k + 1) by lia. rewrite shift_succ by exact H.
    rewrite dfc_next by (apply shift_valid, H). lia.
  - replace (Z.pred k) with (k - 1) by lia. rewrite shift_pred by exact H.
    rewrite dfc_prev by (apply shift_valid, H). lia.
Qed.

Lemma year_of_days_spec n : dby (year_of_days n) <= n < dby (year_of_days n + 1).
Proof.
  unfold year_of_days. set (q := 400 * n / 146097).
  assert (Hq : 146097 * q <= 400 * n < 146097 * q + 146097) by (unfold q; dm; lia).
  destruct (Z.ltb_spec n (dby (q + 1))) as [H1|H1].
  - replace (q + 1 - 1 + 1) with (q + 1) by lia. split; [|exact H1].
    unfold dby. dm. lia.
  - destruct (Z.leb_spec (dby (q + 1 + 1)) n) as [H2|H2].
    + split; [exact H2|]. unfold dby. dm. lia.
    + lia.
Qed.

Lemma year_of_days_unique n y : dby y <= n < dby (y + 1) -> year_of_days n = y.
Proof.
  intros H. pose proof (year_of_days_spec n) as S. set (y' := year_of_days n) in *.
  assert (y' < y + 1) by (apply dby_lt_inv; lia). assert (y < y' + 1) by (apply dby_lt_inv; lia). lia.
Qed.

Ltac eval_closed_in H :=
  match type of H with _ <= _ <= ?e => let v := eval vm_compute in e in change e with v in H end.
Ltac eval_dbm :=
  repeat match goal with |- context [dbm ?b ?m] => let v := eval vm_compute in (dbm b m) in change (dbm b m) with v end.
Ltac split_ltb :=
  repeat match goal with |- context [if ?a <? ?b then _ else _] => destruct (Z.ltb_spec a b); try lia end.

Lemma md_of_doy_dbm y m d : 1 <= m <= 12 -> 1 <= d <= month_days y m ->
  md_of_doy (is_leap y) (dbm (is_leap y) m + (d - 1)) = (m, d).
Proof.
  intros Hm Hd. unfold month_days in Hd. destruct (is_leap y);
  month_split Hm; eval_closed_in Hd; eval_dbm; unfold md_of_doy; cbv beta iota zeta; split_ltb; f_equal; lia.
Qed.

Lemma civil_of_dfc c : valid_date c = true -> civil_from_days (days_from_civil c) = c.
Proof.
  destruct c as [[y m] d]. rewrite valid_date_iff. intros [Hm Hd].
  unfold civil_from_days, days_from_civil.
  replace (dby y + dbm (is_leap y) m + (d - 1) - EPOCH_DAYS + EPOCH_DAYS) with (dby y + (dbm (is_leap y) m + (d - 1))) by lia.
  assert (Hy : year_of_days (dby y + (dbm (is_leap y) m + (d - 1))) = y).
  { apply year_of_days_unique. rewrite dby_succ.
    assert (0 <= dbm (is_leap y) m + (d - 1) < if is_leap y then 366 else 365).
    { unfold month_days in Hd. destruct (is_leap y); month_split Hm; eval_closed_in Hd; eval_dbm; lia. }
    lia. }
  rewrite Hy. replace (dby y + (dbm (is_leap y) m + (d - 1)) - dby y) with (dbm (is_leap y) m + (d - 1)) by lia.
  rewrite md_of_doy_dbm by assumption. reflexivity.
Qed.

Lemma md_of_doy_inv y k : 0 <= k < (if is_leap y then 366 else 365) ->
  1 <= fst (md_of_doy (is_leap y) k) <= 12 /\
  1 <= snd (md_of_doy (is_leap y) k) <= month_days y (fst (md_of_doy (is_leap y) k)) /\
  dbm (is_leap y) (fst (md_of_doy (is_leap y) k)) + (snd (md_of_doy (is_leap y) k) - 1) = k.
Proof.
  intros Hk. unfold month_days. destruct (is_leap y); unfold md_of_doy; cbv beta iota zeta;
  repeat match goal with |- context [if ?a <? ?b then _ else _] => destruct (Z.ltb_spec a b) end;
  cbn [fst snd]; eval_dbm;
  repeat match goal with |- context [?a =? ?b] => let v := eval vm_compute in (a =? b) in change (a =? b) with v end;
  cbn [orb]; cbv beta iota; lia.
Qed.

Lemma dfc_of_civil n : days_from_civil (civil_from_days n) = n /\ valid_date (civil_from_days n) = true.
Proof.
  unfold civil_from_days. pose proof (year_of_days_spec (n + EPOCH_DAYS)) as S.
  set (y := year_of_days (n + EPOCH_DAYS)) in *. rewrite dby_succ in S.
  pose proof (md_of_doy_inv y (n + EPOCH_DAYS - dby y)) as I.
  destruct (md_of_doy (is_leap y) (n + EPOCH_DAYS - dby y)) as [m d]. cbn [fst snd] in I.
  destruct I as [Hm [Hd Hk]]; [lia|]. split.
  - unfold days_from_civil. lia.
  - apply valid_date_iff. lia.
Qed.

(* the spec calendar and the closed forms agree: stepping k days = converting, adding k, converting back *)
Theorem shift_is_day_number k c : valid_date c = true -> shift_days k c = civil_from_days (days_from_civil c + k).
Proof. intros H. rewrite <- dfc_shift by exact H. symmetry. apply civil_of_dfc, shift_valid, H. Qed.

(* ------------------------------------------------------------------ values <-> fields; the getters *)
Lemma valid_fields_iff f : valid_fields f = true <->
  (1 <= f_year f <= 9999 /\ valid_date (f_year f, f_month f, f_day f) = true /\ 0 <= f_hour f < 24 /\
   0 <= f_minute f < 60 /\ 0 <= f_second f < 60 /\ 0 <= f_us f < 1000000).
Proof.
  unfold valid_fields. generalize (valid_date (f_year f, f_month f, f_day f)). intros b.
  rewrite !andb_true_iff. rewrite !Z.leb_le, !Z.ltb_lt. tauto.
Qed.

Lemma tod_decomp D h mi s us : 0 <= h < 24 -> 0 <= mi < 60 -> 0 <= s < 60 -> 0 <= us < 1000000 ->
  let w := D * US_DAY + ((h * 60 + mi) * 60 + s) * US_SEC + us in
  w / US_DAY = D /\ (w mod US_DAY) / US_HOUR = h /\ (w mod US_DAY) / US_MIN mod 60 = mi /\
  (w mod US_DAY) / US_SEC mod 60 = s /\ (w mod US_DAY) mod US_SEC = us.
Proof.
  intros Hh Hmi Hs Hus. cbv zeta. set (tod := ((h * 60 + mi) * 60 + s) * US_SEC + us).
  assert (Ht : 0 <= tod < US_DAY) by (unfold tod, US_DAY, US_SEC; lia).
  replace (D * US_DAY + ((h * 60 + mi) * 60 + s) * US_SEC + us) with (tod + D * US_DAY) by (unfold tod; lia).
  rewrite Z.div_add, Z_mod_plus_full by (unfold US_DAY; lia).
  rewrite Z.div_small, Z.mod_small by exact Ht.
  split; [lia|]. unfold tod, US_DAY, US_HOUR, US_MIN, US_SEC in *.
  split; [dm; lia|]. split; [dm; lia|]. split; dm; lia.
Qed.

Theorem fields_of_fields f : valid_fields f = true -> fields (of_fields f) = f.
Proof.
  rewrite valid_fields_iff. intros [Hy [Hd [Hh [Hmi [Hs Hus]]]]].
  destruct f as [y m d h mi s us]. cbn [f_year f_month f_day f_hour f_minute f_second f_us] in *.
  unfold fields, of_fields. cbn [f_year f_month f_day f_hour f_minute f_second f_us].
  destruct (tod_decomp (days_from_civil (y, m, d)) h mi s us Hh Hmi Hs Hus) as [E1 [E2 [E3 [E4 E5]]]].
  rewrite E1, E2, E3, E4, E5. rewrite civil_of_dfc by exact Hd. reflexivity.
Qed.

Theorem of_fields_fields w : of_fields (fields w) = w.
Proof.
  unfold fields. destruct (dfc_of_civil (w / US_DAY)) as [E _].
  destruct (civil_from_days (w / US_DAY)) as [[y m] d]. unfold of_fields.
  cbn [f_year f_month f_day f_hour f_minute f_second f_us]. rewrite E.
  unfold US_DAY, US_HOUR, US_MIN, US_SEC. dm. lia.
Qed.

Lemma dby_1 : dby 1 = 0. Proof. reflexivity. Qed.

Theorem in_range_fields w : in_range w = valid_fields (fields w).
Proof.
  apply eq_true_iff_eq. rewrite valid_fields_iff. unfold fields.
  destruct (dfc_of_civil (w / US_DAY)) as [E V].
  unfold civil_from_days in *. pose proof (year_of_days_spec (w / US_DAY + EPOCH_DAYS)) as S.
  set (y := year_of_days (w / US_DAY + EPOCH_DAYS)) in *.
  destruct (md_of_doy (is_leap y) (w / US_DAY + EPOCH_DAYS - dby y)) as [m d].
  cbn [f_year f_month f_day f_hour f_minute f_second f_us].
  assert (Hy : 1 <= y <= 9999 <-> dby 1 <= w / US_DAY + EPOCH_DAYS < dby 10000).
  { split.
    - intros [A B]. pose proof (dby_mono 1 y A). pose proof (dby_mono (y + 1) 10000 ltac:(lia)). lia.
    - intros [A B]. assert (1 < y + 1) by (apply dby_lt_inv; lia). assert (y < 10000) by (apply dby_lt_inv; lia). lia. }
  assert (Hr : in_range w = true <-> dby 1 <= w / US_DAY + EPOCH_DAYS < dby 10000).
  { unfold in_range, MIN_US, MAX_US. rewrite dby_1. generalize (dby 10000). intros T. unfold US_DAY, EPOCH_DAYS. dm. nia. }
  rewrite Hr, Hy. unfold US_DAY, US_HOUR, US_MIN, US_SEC. split.
  - intros H. repeat split; try tauto; try exact V; dm; lia.
  - tauto.
Qed.

Lemma py_datetime_ok f w : py_datetime f = DOk w -> valid_fields f = true /\ w = of_fields f /\ fields w = f /\ in_range w = true.
Proof.
  unfold py_datetime. destruct (valid_fields f) eqn:V; [|discriminate]. intros E. injection E as <-.
  split; [reflexivity|]. split; [reflexivity|]. split; [apply fields_of_fields, V|].
  rewrite in_range_fields, fields_of_fields by exact V. exact V.
Qed.

(* THEOREM (getters): the seven getters read back the normalised components of a datetimeNew result *)
Theorem getters_of_new y mo d h mi s ms w :
  datetime_new y mo d h mi s ms = DOk w ->
  let f := dn_spec_fields y mo d h mi s ms in
  get_year w = f_year f /\ get_month w = f_month f /\ get_day w = f_day f /\ get_hour w = f_hour f /\
  get_minute w = f_minute f /\ get_second w = f_second f /\
  get_millisecond w = dn_total_ms d h mi s ms mod 1000 /\ in_range w = true.
Proof.
  intros E. destruct (dtnew_args_ok y mo d h mi s ms) eqn:A; [|rewrite new_rejects in E by exact A; discriminate].
  rewrite new_is_calendar_arithmetic in E by exact A.
  apply py_datetime_ok in E. destruct E as [_ [_ [F R]]]. cbv zeta.
  unfold get_year, get_month, get_day, get_hour, get_minute, get_second, get_millisecond. rewrite F.
  repeat split; try exact R.
  unfold dn_spec_fields. destruct (shift_days _ _) as [[y' m'] d'].
  cbn [f_us]. dm. lia.
Qed.

(* ------------------------------------------------------------------ datetime +/- milliseconds *)
Lemma round_half_away_exact n : round_half_away_div (n * 1000) 1000 = n.
Proof. unfold round_half_away_div. destruct (Z.leb_spec 0 (n * 1000)); dm; lia. Qed.

Theorem add_sub_exact w n w' : dt_add_ms w n = DOk w' -> dt_sub_ms w' w = n.
Proof.
  unfold dt_add_ms, dt_sub_ms. destruct (in_range (w + n * 1000)); [|discriminate].
  intros E. injection E as <-. replace (w + n * 1000 - w) with (n * 1000) by lia. apply round_half_away_exact.
Qed.

Theorem add_total w n : dt_add_ms w n = DOk (w + n * 1000) \/ (dt_add_ms w n = DExc /\ in_range (w + n * 1000) = false).
Proof. unfold dt_add_ms. destruct (in_range (w + n * 1000)); auto. Qed.
