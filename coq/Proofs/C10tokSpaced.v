(* Proofs/C10tokSpaced.v — white space BETWEEN the tokens of an expression does not change the tree.

   sp PU t1 t2  ("spaced"): t1 and t2 are the SAME sequence of token texts, each token preceded by an arbitrary (possibly
   empty) run of `\s` characters of its own in t1 and in t2, and followed by arbitrary trailing white space.  The relation
   follows the token order the grammar allows (operand position PU / position after an operand PP / position right
   after `name(` PA); that is what makes an EMPTY gap harmless: after an operand only an operator, `)`, `,` or the end can
   follow, after an operator only the start of an operand, and no such pair of neighbours merges into a longer token.
   Tokens: ( ) , ! - (unary), the fourteen binary operators, identifiers, `name (` (a call: the regex itself allows white
   space between the name and the parenthesis), number literals (a leading `+` belongs to the literal; a leading `-` is the
   unary operator, as in the parser), and OPAQUE atoms: a '...' / "..." literal or a [...] variable is any text x that the
   atom's own regenerated regex reads completely in front of both remainders with the same captured text (its interior
   is not touched).

   spaced_parse :  sp PU t1 t2 -> parse_expression t1 = EOk e -> parse_expression t2 = EOk e      (sp is symmetric)

   Part 1 (views) is about the token regexes only, through lex (Proofs/C10tokLex.v) and the direct readings of C02rx.v;
   Part 2 runs the parser on both texts in lockstep. *)
From Coq Require Import Lia.
From BS Require Import Model.Base Model.Num Model.Regex Model.NumText Model.ExprParser Gen.Unicode Gen.Regexes Gen.Tables
  Proofs.BaseFacts Proofs.RegexFacts Proofs.RegexComplete Proofs.RegexShift Proofs.RegexEval Proofs.NumLit Proofs.C13rx
  Proofs.C02 Proofs.C02rx Proofs.ExprFacts Proofs.ExprFuel Proofs.C10ws Proofs.C10wsExpr Proofs.C10tokLex.

(* ================================================================== 0. lists, characters *)
Lemma firstn_pre {A} (a r : list A) : firstn (length a) (a ++ r) = a.
Proof. induction a as [|y t IH]; [destruct r; reflexivity|]. cbn [length app firstn]. rewrite IH. reflexivity. Qed.

Lemma span_p_all p a r : forallb p a = true -> match r with y :: _ => p y = false | [] => True end ->
  span_p p (a ++ r) = (length a, r).
Proof.
  induction a as [|y t IH]; intros H Hr.
  - cbn [app length]. destruct r as [|z r']; [reflexivity|]. cbn [span_p]. rewrite Hr. reflexivity.
  - cbn [forallb] in H. apply andb_true_iff in H. destruct H as [H1 H2]. cbn [app span_p length]. rewrite H1, (IH H2 Hr). reflexivity.
Qed.

Lemma span_p_app p a r : match r with y :: _ => p y = false | [] => True end ->
  span_p p (a ++ r) = (fst (span_p p a), snd (span_p p a) ++ r).
Proof.
  intros H. induction a as [|y t IH]; cbn [app span_p].
  - destruct r as [|z r']; [reflexivity|]. cbn [span_p]. rewrite H. reflexivity.
  - destruct (p y); [|reflexivity]. rewrite IH. destruct (span_p p t) as [n q]. reflexivity.
Qed.

Lemma span_p_length p s : fst (span_p p s) + length (snd (span_p p s)) = length s.
Proof.
  induction s as [|y t IH]; [reflexivity|]. cbn [span_p]. destruct (p y); [|reflexivity].
  destruct (span_p p t) as [n q]. cbn [fst snd length] in *. lia.
Qed.

Lemma white_forallb w : white w -> forallb is_space_u w = true.
Proof.
  induction w as [|y t IH]; intros W; [reflexivity|]. destruct (white_cons _ _ W) as [S Wt].
  cbn [forallb]. unfold is_space_u at 1. rewrite S. exact (IH Wt).
Qed.

Lemma space_neq y k : is_space_u y = true -> is_space_u k = false -> (y =? k)%N = false.
Proof. intros S K. destruct (y =? k)%N eqn:E; [|reflexivity]. apply N.eqb_eq in E. subst. congruence. Qed.

Lemma space_not_word y : is_space_u y = true -> is_word_u y = false.
Proof. intros S. destruct (is_word_u y) eqn:W; [|reflexivity]. rewrite (word_not_space y W) in S. discriminate. Qed.

(* characters that can start what follows an operand: an operator, `)` or `,` *)
Definition pstartc (y : N) : bool := memN y [42; 47; 37; 43; 45; 60; 62; 61; 33; 38; 124; 41; 44]%N.

Lemma pstartc_facts y : pstartc y = true ->
  is_space_u y = false /\ is_word_u y = false /\ is_digit_u y = false /\
  (y =? 46)%N = false /\ (y =? 101)%N = false /\ (y =? 40)%N = false.
Proof.
  intros H. unfold pstartc, memN in H. cbn [existsb] in H.
  repeat (apply orb_true_iff in H; destruct H as [H|H]); try discriminate;
    apply N.eqb_eq in H; subst y; vm_compute; repeat split; reflexivity.
Qed.

Lemma idstart_facts c : idstart c = true ->
  is_space_u c = false /\ is_digit_u c = false /\ unopc c = false /\
  (c =? 40)%N = false /\ (c =? 41)%N = false /\ (c =? 42)%N = false /\ (c =? 61)%N = false /\
  (c =? 43)%N = false /\ (c =? 45)%N = false /\ (c =? 39)%N = false /\ (c =? 34)%N = false.
Proof.
  intros H. pose proof (idstart_ascii c H) as R.
  assert (NS : is_space_u c = false).
  { destruct (is_space_u c) eqn:S; [|reflexivity]. rewrite (idstart_not_space c S) in H. discriminate. }
  assert (ND : is_digit_u c = false).
  { unfold is_digit_u, is_digit. replace (c <? 128)%N with true by (symmetry; apply N.ltb_lt; lia).
    apply andb_false_iff. destruct (N.leb_spec 48 c); [right; apply N.leb_gt; lia | left; reflexivity]. }
  unfold unopc. repeat split; try assumption; try (apply N.eqb_neq; lia).
  apply orb_false_iff. split; apply N.eqb_neq; lia.
Qed.

Lemma digit_facts c : is_digit_u c = true ->
  is_space_u c = false /\ idstart c = false /\ unopc c = false /\
  (c =? 40)%N = false /\ (c =? 41)%N = false /\ (c =? 42)%N = false /\ (c =? 61)%N = false /\ (c =? 45)%N = false.
Proof.
  intros D.
  assert (NS : is_space_u c = false).
  { destruct (is_space_u c) eqn:S; [|reflexivity]. rewrite (space_not_digit_u c S) in D. discriminate. }
  assert (NI : idstart c = false).
  { destruct (idstart c) eqn:I; [|reflexivity]. destruct (idstart_facts c I) as (_ & X & _). congruence. }
  assert (K : forall k, is_digit_u k = false -> (c =? k)%N = false).
  { intros k Dk. destruct (c =? k)%N eqn:E; [|reflexivity]. apply N.eqb_eq in E. subst. congruence. }
  unfold unopc. rewrite (K 33%N eq_refl), (K 45%N eq_refl). repeat split; try assumption; apply K; reflexivity.
Qed.

(* ================================================================== 1. the tokens *)
Definition ident (x : str) : bool := match x with y :: t => idstart y && forallb is_word_u t | [] => false end.
Definition fname (x : str) : bool :=
  match x with y :: y2 :: t => idstart y && is_word_u y2 && forallb is_word_u t | _ => false end.
(* a number literal: the literal reading consumes all of x; a leading `-` is never part of the token (the parser reads it
   as the unary operator first) *)
Definition numtok (x : str) : bool :=
  match x with y :: _ => negb (y =? 45)%N | [] => false end &&
  match C13rx.lit_body x with Some n => Nat.eqb n (length x) | None => false end.

Inductive akind := AStr | AStrD | AVarEx.
Definition aregex (k : akind) : regex :=
  match k with AStr => R_EXPR_STRING | AStrD => R_EXPR_STRING_DOUBLE | AVarEx => R_EXPR_VARIABLE_EX end.
Definition aquote (k : akind) : N := match k with AStr => 39 | AStrD => 34 | AVarEx => 91 end%N.
(* x is an opaque atom of kind k in front of r: it starts with the opening delimiter and the atom's regex reads exactly
   x, capturing g *)
Definition atom_reads (k : akind) (x r g : str) : Prop :=
  (exists x', x = aquote k :: x') /\ lex (aregex k) (x ++ r) = LYes g r.

Inductive pos := PU | PA | PP.

Inductive sp : pos -> str -> str -> Prop :=
| sp_open w1 w2 r1 r2 : white w1 -> white w2 -> sp PU r1 r2 -> sp PU (w1 ++ 40%N :: r1) (w2 ++ 40%N :: r2)
| sp_unary c w1 w2 r1 r2 : white w1 -> white w2 -> unopc c = true -> sp PU r1 r2 -> sp PU (w1 ++ c :: r1) (w2 ++ c :: r2)
| sp_call x w1 w2 g1 g2 r1 r2 : white w1 -> white w2 -> white g1 -> white g2 -> fname x = true -> sp PA r1 r2 ->
    sp PU (w1 ++ x ++ g1 ++ 40%N :: r1) (w2 ++ x ++ g2 ++ 40%N :: r2)
| sp_num x w1 w2 r1 r2 : white w1 -> white w2 -> numtok x = true -> sp PP r1 r2 -> sp PU (w1 ++ x ++ r1) (w2 ++ x ++ r2)
| sp_var x w1 w2 r1 r2 : white w1 -> white w2 -> ident x = true -> sp PP r1 r2 -> sp PU (w1 ++ x ++ r1) (w2 ++ x ++ r2)
| sp_atom k x g w1 w2 r1 r2 : white w1 -> white w2 -> atom_reads k x r1 g -> atom_reads k x r2 g -> sp PP r1 r2 ->
    sp PU (w1 ++ x ++ r1) (w2 ++ x ++ r2)
| sp_noargs w1 w2 r1 r2 : white w1 -> white w2 -> sp PP r1 r2 -> sp PA (w1 ++ 41%N :: r1) (w2 ++ 41%N :: r2)
| sp_args t1 t2 : sp PU t1 t2 -> sp PA t1 t2
| sp_end w1 w2 : white w1 -> white w2 -> sp PP w1 w2
| sp_bin op w1 w2 r1 r2 : white w1 -> white w2 -> In op spec_ops -> sp PU r1 r2 -> sp PP (w1 ++ op ++ r1) (w2 ++ op ++ r2)
| sp_close w1 w2 r1 r2 : white w1 -> white w2 -> sp PP r1 r2 -> sp PP (w1 ++ 41%N :: r1) (w2 ++ 41%N :: r2)
| sp_comma w1 w2 r1 r2 : white w1 -> white w2 -> sp PU r1 r2 -> sp PP (w1 ++ 44%N :: r1) (w2 ++ 44%N :: r2).

Definition spaced (t1 t2 : str) : Prop := sp PU t1 t2.

Lemma sp_sym p t1 t2 : sp p t1 t2 -> sp p t2 t1.
Proof. induction 1; econstructor; eassumption. Qed.

(* ================================================================== 2. what follows an operand / an operator *)
Definition pnext (r : str) : Prop :=
  match snd (span_p is_space_u r) with [] => True | y :: _ => pstartc y = true end.

Lemma span_white w c r : white w -> is_space_u c = false -> span_p is_space_u (w ++ c :: r) = (length w, c :: r).
Proof. intros W C. apply span_p_all; [apply white_forallb; exact W | exact C]. Qed.

Lemma span_white_only w : white w -> span_p is_space_u w = (length w, []).
Proof. intros W. rewrite <- (app_nil_r w) at 1. apply span_p_all; [apply white_forallb; exact W | exact I]. Qed.

Lemma pnext_ws w c r : white w -> pstartc c = true -> pnext (w ++ c :: r).
Proof. intros W C. unfold pnext. rewrite span_white by (try exact W; apply pstartc_facts; exact C). exact C. Qed.

Lemma spec_ops_eq : spec_ops =
  [[42; 42]; [42]; [47]; [37]; [43]; [45]; [60; 61]; [60]; [62; 61]; [62]; [61; 61]; [33; 61]; [38; 38]; [124; 124]]%N.
Proof. vm_compute. reflexivity. Qed.

Lemma op_head op : In op spec_ops -> exists c t, op = c :: t /\ pstartc c = true.
Proof.
  rewrite spec_ops_eq. intros H. cbn [In] in H.
  repeat (destruct H as [<-|H]; [eexists; eexists; split; [reflexivity | reflexivity]|]). contradiction.
Qed.

Lemma spP_next t1 t2 : sp PP t1 t2 -> pnext t1 /\ pnext t2.
Proof.
  intros H. inversion H; subst.
  - unfold pnext. rewrite !span_white_only by assumption. split; exact I.
  - destruct (op_head op) as (c & t & -> & C); [assumption|]. cbn [app]. split; apply pnext_ws; assumption.
  - split; apply pnext_ws; try assumption; reflexivity.
  - split; apply pnext_ws; try assumption; reflexivity.
Qed.

(* the first character after an operand *)
Definition phd (r : str) : Prop :=
  match r with
  | [] => True
  | y :: _ => is_word_u y = false /\ is_digit_u y = false /\ (y =? 46)%N = false /\ (y =? 101)%N = false
  end.

Lemma pnext_hd r : pnext r -> phd r.
Proof.
  destruct r as [|y t]; [intros _; exact I|]. unfold pnext. cbn [span_p phd]. destruct (is_space_u y) eqn:S.
  - intros _. split; [apply space_not_word; exact S|]. split; [apply space_not_digit_u; exact S|].
    split; apply space_neq; try exact S; reflexivity.
  - cbn [snd]. intros P. destruct (pstartc_facts y P) as (_ & A & B & C & D & _). repeat split; assumption.
Qed.

Lemma pnext_paren r : pnext r -> paren_after_space r = None.
Proof.
  unfold pnext, paren_after_space. destruct (snd (span_p is_space_u r)) as [|y t]; [reflexivity|].
  intros P. destruct (pstartc_facts y P) as (_ & _ & _ & _ & _ & E). rewrite E. reflexivity.
Qed.

(* the first character of an operand-position text is neither `*` nor `=` nor `)` *)
Definition uhd (t : str) : Prop :=
  match t with [] => True | y :: _ => (y =? 42)%N = false /\ (y =? 61)%N = false end.

Lemma uhd_ws w c r : white w -> (c =? 42)%N = false -> (c =? 61)%N = false -> uhd (w ++ c :: r).
Proof.
  intros W A B. destruct w as [|y w']; [split; assumption|]. destruct (white_cons _ _ W) as [S _].
  cbn [app uhd]. split; apply space_neq; try exact S; reflexivity.
Qed.

Lemma numtok_head c t : numtok (c :: t) = true -> c = 43%N \/ is_digit_u c = true.
Proof.
  unfold numtok. intros H. apply andb_true_iff in H. destruct H as [H1 H2]. apply negb_true_iff in H1.
  unfold C13rx.lit_body, sign_len in H2. destruct (c =? 43)%N eqn:E3; [left; apply N.eqb_eq; exact E3|].
  rewrite H1 in H2. cbn [orb] in H2. cbn [span_p] in H2. destruct (is_digit_u c); [right; reflexivity | discriminate].
Qed.

Lemma numtok_facts c t : numtok (c :: t) = true ->
  is_space_u c = false /\ idstart c = false /\ unopc c = false /\
  (c =? 40)%N = false /\ (c =? 41)%N = false /\ (c =? 42)%N = false /\ (c =? 61)%N = false.
Proof.
  intros H. destruct (numtok_head c t H) as [->|D]; [vm_compute; repeat split; reflexivity|].
  destruct (digit_facts c D) as (A & B & C & E & F & G & I & _). repeat split; assumption.
Qed.

Lemma spU_hd t1 t2 : sp PU t1 t2 -> uhd t1 /\ uhd t2.
Proof.
  intros H. inversion H; subst.
  - split; apply uhd_ws; try assumption; reflexivity.
  - assert (A : (c =? 42)%N = false /\ (c =? 61)%N = false).
    { match goal with U : unopc c = true |- _ => unfold unopc in U; apply orb_true_iff in U; destruct U as [U|U];
        apply N.eqb_eq in U; subst c; split; reflexivity end. }
    destruct A. split; apply uhd_ws; assumption.
  - match goal with F : fname x = true |- _ => destruct x as [|y [|y2 x']]; try discriminate F;
      cbn [fname] in F; apply andb_true_iff in F; destruct F as [F _]; apply andb_true_iff in F; destruct F as [F _];
      destruct (idstart_facts y F) as (_ & _ & _ & _ & _ & A & B & _) end.
    cbn [app]. split; apply uhd_ws; assumption.
  - match goal with F : numtok x = true |- _ => destruct x as [|y x']; [discriminate F|];
      destruct (numtok_facts y x' F) as (_ & _ & _ & _ & _ & A & B) end.
    cbn [app]. split; apply uhd_ws; assumption.
  - match goal with F : ident x = true |- _ => destruct x as [|y x']; [discriminate F|];
      cbn [ident] in F; apply andb_true_iff in F; destruct F as [F _];
      destruct (idstart_facts y F) as (_ & _ & _ & _ & _ & A & B & _) end.
    cbn [app]. split; apply uhd_ws; assumption.
  - match goal with F : atom_reads k x r1 g |- _ => destruct F as [[x' ->] _] end.
    cbn [app]. split; apply uhd_ws; try assumption; destruct k; reflexivity.
Qed.

(* ================================================================== 3. token readings *)
Lemma ident_reads x r : ident x = true -> pnext r -> ident_body (x ++ r) = Some (length x).
Proof.
  intros I P. destruct x as [|y t]; [discriminate|]. cbn [ident] in I. apply andb_true_iff in I. destruct I as [I1 I2].
  cbn [app]. unfold ident_body. rewrite I1. rewrite (span_p_all is_word_u t r I2).
  - reflexivity.
  - pose proof (pnext_hd r P) as Hd. destruct r as [|z r']; [exact I|]. exact (proj1 Hd).
Qed.

Lemma ident_nocall x r : ident x = true -> pnext r -> call_body (x ++ r) = None.
Proof.
  intros I P. destruct x as [|y t]; [discriminate|]. cbn [ident] in I. apply andb_true_iff in I. destruct I as [I1 I2].
  pose proof (pnext_hd r P) as Hd.
  destruct t as [|y2 t2]; cbn [app].
  - destruct r as [|y2 t2]; [reflexivity|]. unfold call_body. destruct Hd as [W _]. rewrite W, andb_false_r. reflexivity.
  - cbn [forallb] in I2. apply andb_true_iff in I2. destruct I2 as [W2 I3].
    unfold call_body. rewrite I1, W2. cbn [andb]. rewrite (span_p_all is_word_u t2 r I3).
    + cbn [snd]. rewrite (pnext_paren r P). reflexivity.
    + destruct r as [|z r']; [exact I|]. exact (proj1 Hd).
Qed.

Lemma fname_reads x g r : fname x = true -> white g ->
  call_body (x ++ g ++ 40%N :: r) = Some (length x, length x + S (length g)).
Proof.
  intros F W. destruct x as [|y [|y2 t2]]; try discriminate. cbn [fname] in F.
  apply andb_true_iff in F. destruct F as [F I3]. apply andb_true_iff in F. destruct F as [I1 W2].
  cbn [app]. unfold call_body. rewrite I1, W2. cbn [andb].
  rewrite (span_p_all is_word_u t2 (g ++ 40%N :: r) I3).
  - cbn [snd]. unfold paren_after_space. rewrite (span_white g 40%N r W eq_refl). cbn [fst snd N.eqb Pos.eqb option_map length].
    reflexivity.
  - destruct g as [|z g']; [reflexivity|]. destruct (white_cons _ _ W) as [S _]. cbn [app]. apply space_not_word. exact S.
Qed.

(* --- number literals: what follows a complete literal does not extend it --- *)
Lemma frac_len_eq s : frac_len s =
  match s with
  | y :: t => if (y =? 46)%N then (S (fst (span_p is_digit_u t)), snd (span_p is_digit_u t)) else (O, s)
  | [] => (O, s)
  end.
Proof.
  unfold frac_len. rewrite match46. destruct s as [|y t]; [reflexivity|]. destruct (y =? 46)%N; [|reflexivity].
  destruct (span_p is_digit_u t); reflexivity.
Qed.

Lemma exp_len_eq s : exp_len s =
  match s with
  | y :: sg :: t =>
      if (y =? 101)%N then
        if ((sg =? 43) || (sg =? 45))%N then match span_p is_digit_u t with (O, _) => O | (n, _) => S (S n) end else O
      else O
  | _ => O
  end.
Proof. unfold exp_len. rewrite match101. reflexivity. Qed.

Definition nhd (r : str) : Prop :=
  match r with [] => True | y :: _ => is_digit_u y = false /\ (y =? 46)%N = false /\ (y =? 101)%N = false end.

Lemma nhd_digit r : nhd r -> match r with y :: _ => is_digit_u y = false | [] => True end.
Proof. destruct r; [intros; exact I | intros H; exact (proj1 H)]. Qed.

Lemma frac_len_app s r : nhd r -> frac_len (s ++ r) = (fst (frac_len s), snd (frac_len s) ++ r).
Proof.
  intros H. rewrite !frac_len_eq. destruct s as [|y t]; cbn [app].
  - destruct r as [|z r']; [reflexivity|]. destruct H as (_ & E & _). rewrite E. reflexivity.
  - destruct (y =? 46)%N; [|reflexivity]. rewrite (span_p_app is_digit_u t r (nhd_digit r H)). reflexivity.
Qed.

Lemma frac_len_length s : fst (frac_len s) + length (snd (frac_len s)) = length s.
Proof.
  rewrite frac_len_eq. destruct s as [|y t]; [reflexivity|]. destruct (y =? 46)%N; [|reflexivity].
  pose proof (span_p_length is_digit_u t). cbn [fst snd length]. lia.
Qed.

Lemma exp_len_app s r : exp_len s = length s -> nhd r -> exp_len (s ++ r) = exp_len s.
Proof.
  intros E H. rewrite exp_len_eq in E. rewrite !exp_len_eq. destruct s as [|y [|sg t]]; cbn [app].
  - destruct r as [|z [|z2 r']]; try reflexivity. destruct H as (_ & _ & E1). rewrite E1. reflexivity.
  - discriminate E.
  - destruct (y =? 101)%N; [|discriminate E]. destruct ((sg =? 43)%N || (sg =? 45)%N); [|discriminate E].
    rewrite (span_p_app is_digit_u t r (nhd_digit r H)). destruct (span_p is_digit_u t) as [n q]. reflexivity.
Qed.

Lemma lit_body_follow x r : C13rx.lit_body x = Some (length x) -> nhd r -> C13rx.lit_body (x ++ r) = Some (length x).
Proof.
  intros H Hr. destruct x as [|c t]; [vm_compute in H; discriminate|].
  unfold C13rx.lit_body in *.
  assert (SG : sign_len ((c :: t) ++ r) = (fst (sign_len (c :: t)), snd (sign_len (c :: t)) ++ r)).
  { unfold sign_len. cbn [app]. destruct ((c =? 43) || (c =? 45))%N; reflexivity. }
  assert (SL : fst (sign_len (c :: t)) + length (snd (sign_len (c :: t))) = length (c :: t)).
  { unfold sign_len. destruct ((c =? 43) || (c =? 45))%N; reflexivity. }
  rewrite SG. destruct (sign_len (c :: t)) as [nsg s2]. cbn [fst snd] in *.
  rewrite (span_p_app is_digit_u s2 r (nhd_digit r Hr)).
  pose proof (span_p_length is_digit_u s2) as L2.
  destruct (span_p is_digit_u s2) as [ni s3]. cbn [fst snd] in *.
  destruct ni as [|ni]; [discriminate|].
  rewrite (frac_len_app s3 r Hr). pose proof (frac_len_length s3) as L3.
  destruct (frac_len s3) as [nf s4]. cbn [fst snd] in *.
  cbn [length] in *. inversion H as [H'].
  assert (EX : exp_len s4 = length s4) by lia.
  rewrite (exp_len_app s4 r EX Hr). rewrite H'. reflexivity.
Qed.

Lemma numtok_reads x r : numtok x = true -> pnext r -> C13rx.lit_body (x ++ r) = Some (length x).
Proof.
  intros H P. unfold numtok in H. apply andb_true_iff in H. destruct H as [_ H].
  destruct (C13rx.lit_body x) as [n|] eqn:E; [|discriminate]. apply Nat.eqb_eq in H. subst n.
  apply lit_body_follow; [exact E|]. pose proof (pnext_hd r P) as Hd. destruct r as [|y r']; [exact I|].
  destruct Hd as (_ & A & B & C). repeat split; assumption.
Qed.

(* --- the first-character refusals --- *)
Lemma call_body_no c s : idstart c = false -> call_body (c :: s) = None.
Proof. intros H. unfold call_body. destruct s; [reflexivity|]. rewrite H. reflexivity. Qed.

Lemma ident_body_no c s : idstart c = false -> ident_body (c :: s) = None.
Proof. intros H. unfold ident_body. rewrite H. reflexivity. Qed.

Lemma lit_body_no c s : (c =? 43)%N = false -> (c =? 45)%N = false -> is_digit_u c = false -> C13rx.lit_body (c :: s) = None.
Proof. intros A B D. unfold C13rx.lit_body, sign_len. rewrite A, B. cbn [orb span_p]. rewrite D. reflexivity. Qed.

(* --- binary operators --- *)
Lemma op_reads op t : In op spec_ops -> uhd t -> first_prefix spec_ops (op ++ t) = Some op.
Proof.
  rewrite spec_ops_eq. intros H Hu. cbn [In] in H.
  repeat (destruct H as [<-|H];
          [destruct t as [|y t']; [reflexivity|]; destruct Hu as [U1 U2]; cbn; rewrite ?U1, ?U2; reflexivity|]).
  contradiction.
Qed.

Lemma no_op_close s : first_prefix spec_ops (41%N :: s) = None.
Proof. rewrite spec_ops_eq. reflexivity. Qed.
Lemma no_op_comma s : first_prefix spec_ops (44%N :: s) = None.
Proof. rewrite spec_ops_eq. reflexivity. Qed.

(* ================================================================== 4. views: what the token regexes answer on related texts *)
(* --- strip --- *)
Lemma lstrip_white w t : white w -> lstrip (w ++ t) = lstrip t.
Proof.
  induction w as [|y w' IH]; intros W; [reflexivity|]. destruct (white_cons _ _ W) as [S W'].
  cbn [app lstrip]. change (U_space y) with (is_space UC y). rewrite S. exact (IH W').
Qed.

Lemma strip_white w : white w -> strip w = [].
Proof. intros W. unfold strip. rewrite <- (app_nil_r w). rewrite (lstrip_white w [] W). reflexivity. Qed.

Lemma lstrip_snoc_ne a c : is_space_u c = false -> lstrip (a ++ [c]) <> [].
Proof.
  intros C. induction a as [|y a' IH]; cbn [app lstrip].
  - change (U_space c) with (is_space_u c). rewrite C. discriminate.
  - destruct (U_space y); [exact IH | discriminate].
Qed.

Lemma strip_nonwhite w c r : white w -> is_space_u c = false -> strip (w ++ c :: r) <> [].
Proof.
  intros W C. unfold strip. rewrite (lstrip_white w _ W). cbn [lstrip]. change (U_space c) with (is_space_u c). rewrite C.
  unfold rstrip. intros E. apply (f_equal (@rev N)) in E. rewrite rev_involutive in E. cbn [rev] in E.
  exact (lstrip_snoc_ne (rev r) c C E).
Qed.

(* --- the position after an operand --- *)
Definition pfacts (t : str) (b c s : lx) : Prop :=
  lex R_EXPR_BINARY_OP t = b /\ lex R_EXPR_GROUP_CLOSE t = c /\ lex R_EXPR_FUNCTION_CLOSE t = c /\
  lex R_EXPR_FUNCTION_SEPARATOR t = s.

Inductive pview (t1 t2 : str) : Prop :=
| pv_end : pfacts t1 LNo LNo LNo -> pfacts t2 LNo LNo LNo -> strip t2 = [] -> pview t1 t2
| pv_bin op r1 r2 : pfacts t1 (LYes op r1) LNo LNo -> pfacts t2 (LYes op r2) LNo LNo -> sp PU r1 r2 ->
    strip t1 <> [] -> pview t1 t2
| pv_close r1 r2 : pfacts t1 LNo (LYes [] r1) LNo -> pfacts t2 LNo (LYes [] r2) LNo -> sp PP r1 r2 ->
    strip t1 <> [] -> pview t1 t2
| pv_comma r1 r2 : pfacts t1 LNo LNo (LYes [] r1) -> pfacts t2 LNo LNo (LYes [] r2) -> sp PU r1 r2 ->
    strip t1 <> [] -> pview t1 t2.

Lemma pfacts_ws w t b c s : white w -> pfacts t b c s -> pfacts (w ++ t) b c s.
Proof.
  intros W (A & B & C & D). unfold pfacts.
  rewrite !(lex_ws _ w t) by (try exact W; constructor). repeat split; assumption.
Qed.

Lemma pfacts_end w : white w -> pfacts w LNo LNo LNo.
Proof. intros W. unfold pfacts. rewrite !lex_white_only by (try exact W; constructor). repeat split. Qed.

Lemma op_head2 op : In op spec_ops ->
  exists c t, op = c :: t /\ is_space_u c = false /\ (c =? 41)%N = false /\ (c =? 44)%N = false.
Proof.
  rewrite spec_ops_eq. intros H. cbn [In] in H.
  repeat (destruct H as [<-|H]; [eexists; eexists; split; [reflexivity | repeat split; reflexivity]|]). contradiction.
Qed.

Lemma pfacts_op op r : In op spec_ops -> uhd r -> pfacts (op ++ r) (LYes op r) LNo LNo.
Proof.
  intros I Hu. pose proof (op_reads op r I Hu) as R.
  destruct (op_head2 op I) as (c & t & -> & NS & E1 & E4). cbn [app] in *. unfold pfacts.
  rewrite (lex_binop c _ NS), R, (lex_gclose c _ NS), (lex_fclose c _ NS), (lex_fsep c _ NS), E1, E4.
  change (c :: t ++ r) with ((c :: t) ++ r). rewrite skipn_pre. repeat split.
Qed.

Lemma pfacts_close r : pfacts (41%N :: r) LNo (LYes [] r) LNo.
Proof.
  unfold pfacts. rewrite (lex_binop 41 r eq_refl), (no_op_close r).
  rewrite (lex_gclose 41 r eq_refl), (lex_fclose 41 r eq_refl), (lex_fsep 41 r eq_refl). repeat split.
Qed.

Lemma pfacts_comma r : pfacts (44%N :: r) LNo LNo (LYes [] r).
Proof.
  unfold pfacts. rewrite (lex_binop 44 r eq_refl), (no_op_comma r).
  rewrite (lex_gclose 44 r eq_refl), (lex_fclose 44 r eq_refl), (lex_fsep 44 r eq_refl). repeat split.
Qed.

Lemma spP_pview t1 t2 : sp PP t1 t2 -> pview t1 t2.
Proof.
  intros H. inversion H; subst.
  - apply pv_end; [apply pfacts_end; assumption | apply pfacts_end; assumption | apply strip_white; assumption].
  - match goal with S : sp PU r1 r2 |- _ => destruct (spU_hd r1 r2 S) as [U1 U2] end.
    apply (pv_bin _ _ op r1 r2); try assumption; try (apply pfacts_ws; [assumption | apply pfacts_op; assumption]).
    destruct (op_head2 op) as (c & t & -> & NS & _); [assumption|]. cbn [app]. apply strip_nonwhite; assumption.
  - apply (pv_close _ _ r1 r2); try assumption; try (apply pfacts_ws; [assumption | apply pfacts_close]).
    apply strip_nonwhite; [assumption | reflexivity].
  - apply (pv_comma _ _ r1 r2); try assumption; try (apply pfacts_ws; [assumption | apply pfacts_comma]).
    apply strip_nonwhite; [assumption | reflexivity].
Qed.

(* --- the operand position: the cascade of _parse_unary_expression --- *)
Inductive ures := UOpen (r : str) | UUn (g r : str) | UCall (g r : str) | UNum (g r : str) | UStr (g r : str)
  | UStrD (g r : str) | UVar (g r : str) | UVarEx (g r : str) | UNone.

Definition ucascade (t : str) : ures :=
  match lex R_EXPR_GROUP_OPEN t with LYes _ r => UOpen r | LNo =>
  match lex R_EXPR_UNARY_OP t with LYes g r => UUn g r | LNo =>
  match lex R_EXPR_FUNCTION_OPEN t with LYes g r => UCall g r | LNo =>
  match lex R_EXPR_NUMBER t with LYes g r => UNum g r | LNo =>
  match lex R_EXPR_STRING t with LYes g r => UStr g r | LNo =>
  match lex R_EXPR_STRING_DOUBLE t with LYes g r => UStrD g r | LNo =>
  match lex R_EXPR_VARIABLE t with LYes g r => UVar g r | LNo =>
  match lex R_EXPR_VARIABLE_EX t with LYes g r => UVarEx g r | LNo => UNone
  end end end end end end end end.

Lemma ucascade_ws w t : white w -> ucascade (w ++ t) = ucascade t.
Proof. intros W. unfold ucascade. rewrite !(lex_ws _ w t) by (try exact W; constructor). reflexivity. Qed.

Lemma fclose_ws_no w c r : white w -> is_space_u c = false -> (c =? 41)%N = false ->
  lex R_EXPR_FUNCTION_CLOSE (w ++ c :: r) = LNo.
Proof. intros W NS E. rewrite (lex_ws _ w _ tr_fclose W), (lex_fclose c r NS), E. reflexivity. Qed.

Lemma casc_open r : ucascade (40%N :: r) = UOpen r.
Proof. unfold ucascade. rewrite (lex_gopen 40 r eq_refl). reflexivity. Qed.

Lemma casc_unary c r : unopc c = true -> ucascade (c :: r) = UUn [c] r.
Proof.
  intros H. assert (E : c = 33%N \/ c = 45%N).
  { unfold unopc in H. apply orb_true_iff in H. destruct H as [H|H]; apply N.eqb_eq in H; auto. }
  unfold ucascade. destruct E as [->| ->].
  - rewrite (lex_gopen 33 r eq_refl), (lex_unop 33 r eq_refl). reflexivity.
  - rewrite (lex_gopen 45 r eq_refl), (lex_unop 45 r eq_refl). reflexivity.
Qed.

Lemma casc_call x g r : fname x = true -> white g -> ucascade (x ++ g ++ 40%N :: r) = UCall x r.
Proof.
  intros F W. pose proof (fname_reads x g r F W) as R.
  destruct x as [|y [|y2 t2]]; try discriminate. pose proof F as F'. cbn [fname] in F'.
  apply andb_true_iff in F'. destruct F' as [F' _]. apply andb_true_iff in F'. destruct F' as [I1 _].
  destruct (idstart_facts y I1) as (NS & _ & UN & E40 & _).
  unfold ucascade. cbn [app] in *.
  rewrite (lex_gopen y _ NS), E40, (lex_unop y _ NS), UN, (lex_fopen y _ NS), R.
  change (y :: y2 :: t2 ++ g ++ 40%N :: r) with ((y :: y2 :: t2) ++ g ++ 40%N :: r).
  rewrite firstn_pre.
  change (g ++ 40%N :: r) with (g ++ [40%N] ++ r). rewrite !app_assoc.
  replace (length (y :: y2 :: t2) + S (length g)) with (length (((y :: y2 :: t2) ++ g) ++ [40%N]))
    by (rewrite !app_length; cbn [length]; lia).
  rewrite skipn_pre. reflexivity.
Qed.

Lemma casc_num x r : numtok x = true -> pnext r -> ucascade (x ++ r) = UNum x r.
Proof.
  intros F P. pose proof (numtok_reads x r F P) as R.
  destruct x as [|y t]; [discriminate|]. destruct (numtok_facts y t F) as (NS & NI & UN & E40 & _).
  unfold ucascade. cbn [app] in *.
  rewrite (lex_gopen y _ NS), E40, (lex_unop y _ NS), UN, (lex_fopen y _ NS), (call_body_no y _ NI), (lex_number y _ NS), R.
  change (y :: t ++ r) with ((y :: t) ++ r). rewrite firstn_pre, skipn_pre. reflexivity.
Qed.

Lemma casc_var x r : ident x = true -> pnext r -> ucascade (x ++ r) = UVar x r.
Proof.
  intros F P. pose proof (ident_reads x r F P) as R. pose proof (ident_nocall x r F P) as NC.
  destruct x as [|y t]; [discriminate|]. pose proof F as F'. cbn [ident] in F'.
  apply andb_true_iff in F'. destruct F' as [I1 _].
  destruct (idstart_facts y I1) as (NS & ND & UN & E40 & _ & _ & _ & E43 & E45 & E39 & E34).
  unfold ucascade. cbn [app] in *.
  rewrite (lex_gopen y _ NS), E40, (lex_unop y _ NS), UN, (lex_fopen y _ NS), NC.
  rewrite (lex_number y _ NS), (lit_body_no y _ E43 E45 ND).
  rewrite (lex_string_no y _ NS E39), (lex_stringd_no y _ NS E34), (lex_variable y _ NS), R.
  change (y :: t ++ r) with ((y :: t) ++ r). rewrite firstn_pre, skipn_pre. reflexivity.
Qed.

Lemma casc_atom k x r g : atom_reads k x r g ->
  ucascade (x ++ r) = match k with AStr => UStr g r | AStrD => UStrD g r | AVarEx => UVarEx g r end.
Proof.
  intros [[x' ->] L]. unfold ucascade. cbn [app] in *.
  destruct k; cbn [aquote aregex] in *.
  - rewrite (lex_gopen 39 _ eq_refl), (lex_unop 39 _ eq_refl), (lex_fopen 39 _ eq_refl), (call_body_no 39 _ eq_refl).
    rewrite (lex_number 39 _ eq_refl), (lit_body_no 39 _ eq_refl eq_refl eq_refl), L. reflexivity.
  - rewrite (lex_gopen 34 _ eq_refl), (lex_unop 34 _ eq_refl), (lex_fopen 34 _ eq_refl), (call_body_no 34 _ eq_refl).
    rewrite (lex_number 34 _ eq_refl), (lit_body_no 34 _ eq_refl eq_refl eq_refl).
    rewrite (lex_string_no 34 _ eq_refl eq_refl), L. reflexivity.
  - rewrite (lex_gopen 91 _ eq_refl), (lex_unop 91 _ eq_refl), (lex_fopen 91 _ eq_refl), (call_body_no 91 _ eq_refl).
    rewrite (lex_number 91 _ eq_refl), (lit_body_no 91 _ eq_refl eq_refl eq_refl).
    rewrite (lex_string_no 91 _ eq_refl eq_refl), (lex_stringd_no 91 _ eq_refl eq_refl).
    rewrite (lex_variable 91 _ eq_refl), (ident_body_no 91 _ eq_refl), L. reflexivity.
Qed.

Inductive uview (t1 t2 : str) : Prop :=
| uv_open r1 r2 : ucascade t1 = UOpen r1 -> ucascade t2 = UOpen r2 -> sp PU r1 r2 -> uview t1 t2
| uv_un g r1 r2 : ucascade t1 = UUn g r1 -> ucascade t2 = UUn g r2 -> sp PU r1 r2 -> uview t1 t2
| uv_call g r1 r2 : ucascade t1 = UCall g r1 -> ucascade t2 = UCall g r2 -> sp PA r1 r2 -> uview t1 t2
| uv_num g r1 r2 : ucascade t1 = UNum g r1 -> ucascade t2 = UNum g r2 -> sp PP r1 r2 -> uview t1 t2
| uv_str g r1 r2 : ucascade t1 = UStr g r1 -> ucascade t2 = UStr g r2 -> sp PP r1 r2 -> uview t1 t2
| uv_strd g r1 r2 : ucascade t1 = UStrD g r1 -> ucascade t2 = UStrD g r2 -> sp PP r1 r2 -> uview t1 t2
| uv_var g r1 r2 : ucascade t1 = UVar g r1 -> ucascade t2 = UVar g r2 -> sp PP r1 r2 -> uview t1 t2
| uv_varex g r1 r2 : ucascade t1 = UVarEx g r1 -> ucascade t2 = UVarEx g r2 -> sp PP r1 r2 -> uview t1 t2.

Lemma spU_uview t1 t2 : sp PU t1 t2 -> uview t1 t2.
Proof.
  intros H. inversion H; subst.
  - apply (uv_open _ _ r1 r2); try assumption; rewrite ucascade_ws by assumption; apply casc_open.
  - apply (uv_un _ _ [c] r1 r2); try assumption; rewrite ucascade_ws by assumption; apply casc_unary; assumption.
  - apply (uv_call _ _ x r1 r2); try assumption; rewrite ucascade_ws by assumption; apply casc_call; assumption.
  - match goal with S : sp PP r1 r2 |- _ => destruct (spP_next r1 r2 S) as [P1 P2] end.
    apply (uv_num _ _ x r1 r2); try assumption; rewrite ucascade_ws by assumption; apply casc_num; assumption.
  - match goal with S : sp PP r1 r2 |- _ => destruct (spP_next r1 r2 S) as [P1 P2] end.
    apply (uv_var _ _ x r1 r2); try assumption; rewrite ucascade_ws by assumption; apply casc_var; assumption.
  - match goal with A1 : atom_reads k x r1 g, A2 : atom_reads k x r2 g |- _ =>
      pose proof (casc_atom k x r1 g A1) as C1; pose proof (casc_atom k x r2 g A2) as C2 end.
    destruct k.
    + apply (uv_str _ _ g r1 r2); try assumption; rewrite ucascade_ws by assumption; assumption.
    + apply (uv_strd _ _ g r1 r2); try assumption; rewrite ucascade_ws by assumption; assumption.
    + apply (uv_varex _ _ g r1 r2); try assumption; rewrite ucascade_ws by assumption; assumption.
Qed.

Lemma spU_noclose t1 t2 : sp PU t1 t2 -> lex R_EXPR_FUNCTION_CLOSE t1 = LNo /\ lex R_EXPR_FUNCTION_CLOSE t2 = LNo.
Proof.
  intros H. inversion H; subst.
  - split; apply fclose_ws_no; try assumption; reflexivity.
  - assert (A : is_space_u c = false /\ (c =? 41)%N = false).
    { match goal with U : unopc c = true |- _ => unfold unopc in U; apply orb_true_iff in U; destruct U as [U|U];
        apply N.eqb_eq in U; subst c; split; reflexivity end. }
    destruct A. split; apply fclose_ws_no; assumption.
  - match goal with F : fname x = true |- _ => destruct x as [|y [|y2 x']]; try discriminate F;
      cbn [fname] in F; apply andb_true_iff in F; destruct F as [F _]; apply andb_true_iff in F; destruct F as [F _];
      destruct (idstart_facts y F) as (NS & _ & _ & _ & A & _) end.
    cbn [app]. split; apply fclose_ws_no; assumption.
  - match goal with F : numtok x = true |- _ => destruct x as [|y x']; [discriminate F|];
      destruct (numtok_facts y x' F) as (NS & _ & _ & _ & A & _) end.
    cbn [app]. split; apply fclose_ws_no; assumption.
  - match goal with F : ident x = true |- _ => destruct x as [|y x']; [discriminate F|];
      cbn [ident] in F; apply andb_true_iff in F; destruct F as [F _];
      destruct (idstart_facts y F) as (NS & _ & _ & _ & A & _) end.
    cbn [app]. split; apply fclose_ws_no; assumption.
  - match goal with F : atom_reads k x r1 g |- _ => destruct F as [[x' ->] _] end.
    cbn [app]. split; apply fclose_ws_no; try assumption; destruct k; reflexivity.
Qed.

(* ================================================================== 5. the parser on both texts, in lockstep *)
Lemma parse_unary_casc f t : parse_unary (S f) t =
  match ucascade t with
  | UOpen r =>
      match parse_binary f r None with
      | POk (ex, nt) => match lex R_EXPR_GROUP_CLOSE nt with
                        | LNo => PErr unmatched_paren (length t)
                        | LYes _ r2 => POk (EGroup ex, r2)
                        end
      | PErr msg n => PErr msg n | PHost w => PHost w | PFuel => PFuel
      end
  | UUn g r => match parse_unary f r with POk (ex, nt) => POk (EUn g ex, nt) | other => other end
  | UCall g r => match parse_args f r [] with
                 | POk (args, rest) => POk (ECall g args, rest)
                 | PErr msg n => PErr msg n | PHost w => PHost w | PFuel => PFuel
                 end
  | UNum g r => match py_float g with Some x => POk (ENum (NFlt x), r) | None => PHost (U "ValueError") end
  | UStr g r => match unescape R_EXPR_STRING_ESCAPE g with Some s => POk (EStr s, r) | None => PFuel end
  | UStrD g r => match unescape R_EXPR_STRING_DOUBLE_ESCAPE g with Some s => POk (EStr s, r) | None => PFuel end
  | UVar g r => POk (EVar g, r)
  | UVarEx g r => match unescape R_EXPR_VARIABLE_EX_ESCAPE g with Some s => POk (EVar s, r) | None => PFuel end
  | UNone => PErr syntax_error (length t)
  end.
Proof.
  rewrite parse_unary_lex. unfold ucascade.
  destruct (lex R_EXPR_GROUP_OPEN t); [|reflexivity]. destruct (lex R_EXPR_UNARY_OP t); [|reflexivity].
  destruct (lex R_EXPR_FUNCTION_OPEN t); [|reflexivity]. destruct (lex R_EXPR_NUMBER t); [|reflexivity].
  destruct (lex R_EXPR_STRING t); [|reflexivity]. destruct (lex R_EXPR_STRING_DOUBLE t); [|reflexivity].
  destruct (lex R_EXPR_VARIABLE t); [|reflexivity]. destruct (lex R_EXPR_VARIABLE_EX t); reflexivity.
Qed.

(* a successful run on the first text is matched by a run on the second: same value, related remainders *)
Definition okrel {A} (a b : pres (A * str)) : Prop :=
  forall v r1, a = POk (v, r1) -> exists r2, b = POk (v, r2) /\ sp PP r1 r2.

Section Step.
Variable f : nat.
Hypothesis IHu : forall t1 t2, sp PU t1 t2 -> okrel (parse_unary f t1) (parse_unary f t2).
Hypothesis IHb : forall t1 t2, sp PU t1 t2 -> okrel (parse_binary f t1 None) (parse_binary f t2 None).
Hypothesis IHbs : forall t1 t2 l, sp PP t1 t2 -> okrel (parse_binary f t1 (Some l)) (parse_binary f t2 (Some l)).
Hypothesis IHa0 : forall t1 t2, sp PA t1 t2 -> okrel (parse_args f t1 []) (parse_args f t2 []).
Hypothesis IHa : forall t1 t2 a acc, sp PP t1 t2 -> okrel (parse_args f t1 (a :: acc)) (parse_args f t2 (a :: acc)).

Lemma step_unary t1 t2 : sp PU t1 t2 -> okrel (parse_unary (S f) t1) (parse_unary (S f) t2).
Proof.
  intros H v q1 E. rewrite parse_unary_casc in E. rewrite parse_unary_casc.
  destruct (spU_uview t1 t2 H) as [r1 r2 C1 C2 S|g r1 r2 C1 C2 S|g r1 r2 C1 C2 S|g r1 r2 C1 C2 S|g r1 r2 C1 C2 S
                                   |g r1 r2 C1 C2 S|g r1 r2 C1 C2 S|g r1 r2 C1 C2 S]; rewrite C1 in E; rewrite C2.
  - destruct (parse_binary f r1 None) as [[ex nt1]|?|?|] eqn:E1; try discriminate E.
    destruct (IHb r1 r2 S ex nt1 E1) as (nt2 & E2 & Sn). rewrite E2.
    destruct (spP_pview nt1 nt2 Sn) as [F1 F2 _|op p1 p2 F1 F2 _ _|p1 p2 F1 F2 Sp _|p1 p2 F1 F2 _ _];
      destruct F1 as (_ & G1 & _); destruct F2 as (_ & G2 & _); rewrite G1 in E; try discriminate E.
    rewrite G2. inversion E; subst. eexists. split; [reflexivity | exact Sp].
  - destruct (parse_unary f r1) as [[ex nt1]|?|?|] eqn:E1; try discriminate E.
    destruct (IHu r1 r2 S ex nt1 E1) as (nt2 & E2 & Sn). rewrite E2.
    inversion E; subst. eexists. split; [reflexivity | exact Sn].
  - destruct (parse_args f r1 []) as [[args nt1]|?|?|] eqn:E1; try discriminate E.
    destruct (IHa0 r1 r2 S args nt1 E1) as (nt2 & E2 & Sn). rewrite E2.
    inversion E; subst. eexists. split; [reflexivity | exact Sn].
  - destruct (py_float g); try discriminate E. inversion E; subst. eexists. split; [reflexivity | exact S].
  - destruct (unescape R_EXPR_STRING_ESCAPE g); try discriminate E. inversion E; subst. eexists. split; [reflexivity | exact S].
  - destruct (unescape R_EXPR_STRING_DOUBLE_ESCAPE g); try discriminate E. inversion E; subst. eexists. split; [reflexivity | exact S].
  - inversion E; subst. eexists. split; [reflexivity | exact S].
  - destruct (unescape R_EXPR_VARIABLE_EX_ESCAPE g); try discriminate E. inversion E; subst. eexists. split; [reflexivity | exact S].
Qed.

Lemma step_bin_tail le bt1 bt2 : sp PP bt1 bt2 -> okrel (bin_tail f le bt1) (bin_tail f le bt2).
Proof.
  intros H v q1 E. unfold bin_tail in *.
  destruct (spP_pview bt1 bt2 H) as [F1 F2 _|op p1 p2 F1 F2 Sp _|p1 p2 F1 F2 _ _|p1 p2 F1 F2 _ _];
    destruct F1 as (B1 & _); destruct F2 as (B2 & _); rewrite B1 in E; rewrite B2;
    try (inversion E; subst; eexists; split; [reflexivity | exact H]).
  destruct (parse_unary f p1) as [[re nt1]|?|?|] eqn:E1; try discriminate E.
  destruct (IHu p1 p2 Sp re nt1 E1) as (nt2 & E2 & Sn). rewrite E2.
  exact (IHbs nt1 nt2 _ Sn v q1 E).
Qed.

Lemma step_binary_none t1 t2 : sp PU t1 t2 -> okrel (parse_binary (S f) t1 None) (parse_binary (S f) t2 None).
Proof.
  intros H v q1 E. rewrite parse_binary_lex in E. rewrite parse_binary_lex.
  destruct (parse_unary f t1) as [[le bt1]|?|?|] eqn:E1; try discriminate E.
  destruct (IHu t1 t2 H le bt1 E1) as (bt2 & E2 & Sn). rewrite E2.
  exact (step_bin_tail le bt1 bt2 Sn v q1 E).
Qed.

Lemma step_binary_some t1 t2 l : sp PP t1 t2 -> okrel (parse_binary (S f) t1 (Some l)) (parse_binary (S f) t2 (Some l)).
Proof. intros H v q1 E. rewrite parse_binary_lex in E. rewrite parse_binary_lex. exact (step_bin_tail l t1 t2 H v q1 E). Qed.

Lemma step_args_tail t1 t2 acc : sp PU t1 t2 -> okrel (args_tail f t1 acc) (args_tail f t2 acc).
Proof.
  intros H v q1 E. unfold args_tail in *.
  destruct (parse_binary f t1 None) as [[a nt1]|?|?|] eqn:E1; try discriminate E.
  destruct (IHb t1 t2 H a nt1 E1) as (nt2 & E2 & Sn). rewrite E2.
  exact (IHa nt1 nt2 a acc Sn v q1 E).
Qed.

Lemma step_args0 t1 t2 : sp PA t1 t2 -> okrel (parse_args (S f) t1 []) (parse_args (S f) t2 []).
Proof.
  intros H v q1 E. rewrite parse_args_lex in E. rewrite parse_args_lex. inversion H; subst.
  - rewrite (lex_ws _ w1 _ tr_fclose) in E by assumption. rewrite (lex_ws _ w2 _ tr_fclose) by assumption.
    rewrite (lex_fclose 41 _ eq_refl) in E. rewrite (lex_fclose 41 _ eq_refl). cbn [N.eqb Pos.eqb] in *.
    inversion E; subst. eexists. split; [reflexivity | assumption].
  - match goal with S : sp PU t1 t2 |- _ => destruct (spU_noclose t1 t2 S) as [N1 N2]; rewrite N1 in E; rewrite N2;
      exact (step_args_tail t1 t2 [] S v q1 E) end.
Qed.

Lemma step_args t1 t2 a acc : sp PP t1 t2 -> okrel (parse_args (S f) t1 (a :: acc)) (parse_args (S f) t2 (a :: acc)).
Proof.
  intros H v q1 E. rewrite parse_args_lex in E. rewrite parse_args_lex.
  destruct (spP_pview t1 t2 H) as [F1 F2 _|op p1 p2 F1 F2 _ _|p1 p2 F1 F2 Sp _|p1 p2 F1 F2 Sp _];
    destruct F1 as (_ & _ & C1 & S1); destruct F2 as (_ & _ & C2 & S2); rewrite C1 in E; rewrite C2;
    try rewrite S1 in E; try rewrite S2; try discriminate E.
  - inversion E; subst. eexists. split; [reflexivity | exact Sp].
  - exact (step_args_tail p1 p2 (a :: acc) Sp v q1 E).
Qed.
End Step.

Lemma lockstep : forall f,
  (forall t1 t2, sp PU t1 t2 -> okrel (parse_unary f t1) (parse_unary f t2)) /\
  (forall t1 t2, sp PU t1 t2 -> okrel (parse_binary f t1 None) (parse_binary f t2 None)) /\
  (forall t1 t2 l, sp PP t1 t2 -> okrel (parse_binary f t1 (Some l)) (parse_binary f t2 (Some l))) /\
  (forall t1 t2, sp PA t1 t2 -> okrel (parse_args f t1 []) (parse_args f t2 [])) /\
  (forall t1 t2 a acc, sp PP t1 t2 -> okrel (parse_args f t1 (a :: acc)) (parse_args f t2 (a :: acc))).
Proof.
  induction f as [|f (IHu & IHb & IHbs & IHa0 & IHa)].
  - repeat split; intros; intros v q1 E; discriminate E.
  - split; [|split; [|split; [|split]]].
    + intros t1 t2 H. apply step_unary; assumption.
    + intros t1 t2 H. apply step_binary_none; assumption.
    + intros t1 t2 l H. apply step_binary_some; assumption.
    + intros t1 t2 H. apply step_args0; assumption.
    + intros t1 t2 a acc H. apply step_args; assumption.
Qed.

(* ================================================================== 6. parse_expression *)
Theorem spaced_parse t1 t2 e : spaced t1 t2 -> parse_expression t1 = EOk e -> parse_expression t2 = EOk e.
Proof.
  unfold spaced, parse_expression. intros S H.
  destruct (parse_binary (expr_fuel t1) t1 None) as [[e1 nt1]|?|?|] eqn:E1; try discriminate H.
  destruct (strip nt1) eqn:St1; [|discriminate H]. inversion H; subst e1. clear H.
  set (F := Nat.max (expr_fuel t1) (expr_fuel t2)).
  assert (M1 : parse_binary F t1 None = POk (e, nt1)).
  { rewrite (parse_binary_mono (expr_fuel t1) F t1 None); [exact E1 | apply Nat.le_max_l | congruence]. }
  destruct (lockstep F) as (_ & Lb & _). destruct (Lb t1 t2 S e nt1 M1) as (nt2 & M2 & Sn).
  assert (E2 : parse_binary (expr_fuel t2) t2 None = POk (e, nt2)).
  { rewrite <- M2. symmetry. apply parse_binary_mono; [apply Nat.le_max_r | apply parse_binary_enough_fuel]. }
  rewrite E2.
  destruct (spP_pview nt1 nt2 Sn) as [_ _ S2|? ? ? _ _ _ N1|? ? _ _ _ N1|? ? _ _ _ N1]; try congruence.
  rewrite S2. reflexivity.
Qed.

Corollary spaced_parse_iff t1 t2 e : spaced t1 t2 -> (parse_expression t1 = EOk e <-> parse_expression t2 = EOk e).
Proof. intros S. split; apply spaced_parse; [exact S | apply sp_sym; exact S]. Qed.

(* ================================================================== 7. non-vacuity *)
Definition whiteb (w : str) : bool := forallb is_space_u w.
Lemma whiteb_white w : whiteb w = true -> white w.
Proof.
  unfold whiteb. intros H c I. rewrite forallb_forall in H. exact (H c I).
Qed.

(* one expression with every token kind, written without any white space and with white space (blank, tab) at every gap *)
Definition ex_tight : str := U "fn(1,-x)+'a b'*(y<=2.5e+3)||!gg()&&[k 1]!=""q""".
Definition ex_loose : str := U " fn ( 1 , - x )  + 'a b' *\000009( y <= 2.5e+3 ) || ! gg ( ) && [k 1] != ""q"" ".

Ltac atom_step N H k x g w1 w2 W1' W2' :=
  lazymatch type of H with
  | sp PP ?a ?b =>
      let A1 := fresh "A" in let A2 := fresh "A" in
      assert (A1 : atom_reads k x a g) by (split; [eexists; reflexivity | vm_compute; reflexivity]);
      assert (A2 : atom_reads k x b g) by (split; [eexists; reflexivity | vm_compute; reflexivity]);
      pose proof (sp_atom k x g w1 w2 a b W1' W2' A1 A2 H) as N
  end.

Lemma spaced_example : spaced ex_tight ex_loose.
Proof.
  pose proof (whiteb_white [] eq_refl) as W0. pose proof (whiteb_white (U " ") eq_refl) as W1.
  pose proof (whiteb_white (U "  ") eq_refl) as W2. pose proof (whiteb_white (U "\000009") eq_refl) as WT.
  pose proof (sp_end _ _ W0 W1) as Hend.                                                    (* end *)
  atom_step H0 Hend AStrD (U """q""") (U "q") (@nil N) (U " ") W0 W1.                             (* "q" *)
  pose proof (sp_bin (U "!=") _ _ _ _ W0 W1 ltac:(vm_compute; tauto) H0) as H1.           (* != *)
  atom_step Hk H1 AVarEx (U "[k 1]") (U "k 1") (@nil N) (U " ") W0 W1.                      (* [k 1] *)
  pose proof (sp_bin (U "&&") _ _ _ _ W0 W1 ltac:(vm_compute; tauto) Hk) as H2.            (* && *)
  pose proof (sp_noargs _ _ _ _ W0 W1 H2) as H3.                                            (* ) of gg() *)
  pose proof (sp_call (U "gg") _ _ _ _ _ _ W0 W1 W0 W1 eq_refl H3) as H4.                   (* gg ( *)
  pose proof (sp_unary 33 _ _ _ _ W0 W1 eq_refl H4) as H5.                                  (* ! *)
  pose proof (sp_bin (U "||") _ _ _ _ W0 W1 ltac:(vm_compute; tauto) H5) as H6.           (* || *)
  pose proof (sp_close _ _ _ _ W0 W1 H6) as H7.                                             (* ) *)
  pose proof (sp_num (U "2.5e+3") _ _ _ _ W0 W1 eq_refl H7) as H8.                          (* 2.5e+3 *)
  pose proof (sp_bin (U "<=") _ _ _ _ W0 W1 ltac:(vm_compute; tauto) H8) as H9.           (* <= *)
  pose proof (sp_var (U "y") _ _ _ _ W0 W1 eq_refl H9) as H10.                              (* y *)
  pose proof (sp_open _ _ _ _ W0 WT H10) as H11.                                            (* ( after a tab *)
  pose proof (sp_bin (U "*") _ _ _ _ W0 W1 ltac:(vm_compute; tauto) H11) as H12.          (* * *)
  atom_step Hs H12 AStr (U "'a b'") (U "a b") (@nil N) (U " ") W0 W1.                       (* 'a b' *)
  pose proof (sp_bin (U "+") _ _ _ _ W0 W2 ltac:(vm_compute; tauto) Hs) as H13.            (* + after two blanks *)
  pose proof (sp_close _ _ _ _ W0 W1 H13) as H14.                                           (* ) of fn( *)
  pose proof (sp_var (U "x") _ _ _ _ W0 W1 eq_refl H14) as H15.                             (* x *)
  pose proof (sp_unary 45 _ _ _ _ W0 W1 eq_refl H15) as H16.                                (* unary - *)
  pose proof (sp_comma _ _ _ _ W0 W1 H16) as H17.                                           (* , *)
  pose proof (sp_num (U "1") _ _ _ _ W0 W1 eq_refl H17) as H18.                             (* 1 *)
  pose proof (sp_call (U "fn") _ _ _ _ _ _ W0 W1 W0 W1 eq_refl (sp_args _ _ H18)) as H19.   (* fn ( *)
  exact H19.
Qed.

Lemma spaced_example_parse :
  exists e, parse_expression ex_tight = EOk e /\ parse_expression ex_loose = EOk e /\ spaced ex_tight ex_loose.
Proof. eexists. split; [vm_compute; reflexivity | split; [vm_compute; reflexivity | exact spaced_example]]. Qed.

(* white space INSIDE a token is not covered by the relation, and indeed changes the result *)
Lemma spaced_counterexamples :
  parse_expression (U "a<=b") <> parse_expression (U "a< =b") /\
  parse_expression (U "a**b") <> parse_expression (U "a* *b") /\
  parse_expression (U "ab") <> parse_expression (U "a b") /\
  parse_expression (U "x+1") = parse_expression (U "x + 1") /\
  parse_expression (U "+1") <> parse_expression (U "+ 1").
Proof. repeat split; vm_compute; congruence. Qed.
