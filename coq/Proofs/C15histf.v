(* Proofs/C15histf.v — C15 history, part 6: well-formed model states stay well-formed and never get stuck on OPS
   histories (through the commuting square), and the history theorem with results. *)
From Coq Require Import Lia.
From BS Require Import Model.Base Model.Num Model.LibVal Gen.ArgSpecs Model.LibSeq Proofs.BaseFacts Proofs.C15 Proofs.C15spec
  Proofs.C15hist Proofs.C15histd Proofs.C15histe.
Local Open Scope Z_scope.

(* ---- the concrete well-formedness predicate is the abstract one on the abstraction *)
Lemma aval_ok_abs : forall h v, aval_ok (abs h) v = val_ok h v.
Proof. intros h v. destruct v; simpl; try reflexivity; rewrite alookup_abs; destruct (hget h l) as [[]|]; reflexivity. Qed.

Lemma forallb_eq : forall {A} (f g : A -> bool) l, (forall x, f x = g x) -> forallb f l = forallb g l.
Proof. intros A f g l H. induction l; simpl; [reflexivity|]. rewrite H, IHl. reflexivity. Qed.

Lemma acell_ok_abs : forall h c, acell_ok (abs h) (abs_cell c) = cell_ok h c.
Proof. intros h c. destruct c; simpl; apply forallb_eq; intros; apply aval_ok_abs. Qed.

Lemma awf_abs_from : forall M H N h0 n, (n + length h0 <= N)%nat -> (forall c, acell_ok M (abs_cell c) = cell_ok H c) ->
  forallb (fun p => (fst p <? N)%nat && acell_ok M (snd p)) (abs_from n h0) = forallb (cell_ok H) h0.
Proof.
  intros M H N h0. induction h0 as [|c h0 IH]; intros n L E; simpl; [reflexivity|].
  simpl in L. rewrite IH by (auto; lia). rewrite E.
  replace (n <? N)%nat with true by (symmetry; apply Nat.ltb_lt; lia). reflexivity.
Qed.

Lemma awf_abs : forall h, awf (abs h) = forallb (cell_ok h) h.
Proof.
  intros h. unfold awf. rewrite abs_length. unfold abs. apply awf_abs_from; [simpl; lia|]. apply acell_ok_abs.
Qed.

Lemma wf_state_split : forall e h, wf_state (e, h) = true <-> forallb (val_ok h) e = true /\ awf (abs h) = true.
Proof. intros. unfold wf_state. simpl. rewrite awf_abs. apply andb_true_iff. Qed.

(* ---- one statement *)
Lemma eval_args_ok : forall e h l, forallb (val_ok h) e = true -> forallb (wf_arg (e, h)) l = true ->
  exists vs, eval_args e l = Some vs /\ forallb (val_ok h) vs = true.
Proof.
  intros e h l E. induction l as [|a l IH]; intros H; simpl in *; [eauto|].
  apply andb_true_iff in H. destruct H as [Ha Hl]. destruct (IH Hl) as (vs & -> & V).
  destruct a as [n|v]; simpl in *.
  - apply Nat.ltb_lt in Ha. destruct (nth_error e n) as [v|] eqn:N; [|apply nth_error_None in N; lia].
    exists (v :: vs). split; [reflexivity|]. simpl. rewrite V. rewrite forallb_forall in E. rewrite (E v (nth_error_In _ _ N)). reflexivity.
  - exists (v :: vs). split; [reflexivity|]. simpl. rewrite Ha, V. reflexivity.
Qed.

Lemma val_ok_grows : forall h h' v, aext (abs h) (abs h') -> val_ok h v = true -> val_ok h' v = true.
Proof. intros h h' v X H. rewrite <- aval_ok_abs in *. eapply aval_ok_ext; eauto. Qed.

Lemma run_op_wf : forall e h o, wf_state (e, h) = true -> wf_op (e, h) o = true ->
  exists v h', run_op (Some (e, h)) o = Some (e ++ [v], h') /\ wf_state (e ++ [v], h') = true /\ (length h <= length h')%nat.
Proof.
  intros e h o W O. apply wf_state_split in W. destruct W as [We Wh]. destruct o as [f l|n|v]; simpl in O.
  - apply andb_true_iff in O. destruct O as [F L].
    destruct (eval_args_ok e h l We L) as (vs & Ev & Vs).
    assert (A : forallb (aval_ok (abs h)) vs = true) by (rewrite (forallb_eq _ (val_ok h)); [exact Vs | intros; apply aval_ok_abs]).
    destruct (spec_call_good f F vs (abs h) Wh A) as (r & m' & S & Out).
    destruct (outcome_sound _ _ _ Wh Out) as (W' & X & V' & Len).
    pose proof (spec_call_refines f F vs h) as R. rewrite S in R. unfold abs_call in R.
    destruct (lib f vs h) as [r0 h'] eqn:Lib. simpl in R. destruct (res_abs r0) as [s|] eqn:Rs; [|discriminate].
    inversion R; subst s m'. clear R.
    exists (sres_value r), h'. simpl. rewrite Ev, Lib, wrapper_res_abs, Rs. simpl. split; [reflexivity|].
    rewrite !abs_length in Len. split; [|exact Len].
    apply wf_state_split. split; [|exact W'].
    rewrite forallb_app. simpl. rewrite <- aval_ok_abs, V'. rewrite andb_true_r.
    apply forallb_forall. intros x I. rewrite forallb_forall in We. eapply val_ok_grows; eauto.
  - apply Nat.ltb_lt in O. destruct (nth_error e n) as [v|] eqn:N; [|apply nth_error_None in N; lia].
    exists v, h. simpl. rewrite N. split; [reflexivity|]. split; [|lia]. apply wf_state_split. split; [|exact Wh].
    rewrite forallb_app. simpl. rewrite We. rewrite forallb_forall in We. rewrite (We v (nth_error_In _ _ N)). reflexivity.
  - exists v, h. simpl. split; [reflexivity|]. split; [|lia]. apply wf_state_split. split; [|exact Wh].
    rewrite forallb_app. simpl. rewrite We, O. reflexivity.
Qed.

Lemma wf_op_in_OPS : forall st o, wf_op st o = true -> op_in_OPS o = true.
Proof. intros st o H. destruct o; simpl in *; auto. apply andb_true_iff in H. tauto. Qed.

(* PROGRESS + PRESERVATION over histories: a well-formed state running admissible OPS statements never gets stuck
   (no LStuck / LFuel / LOutOfModel outcome, no dangling variable), stays well-formed, appends exactly one result per
   statement, and the heap only grows *)
Theorem history_progress : forall ops e h, wf_state (e, h) = true -> wf_hist ops (e, h) = true ->
  exists rs h', run_ops ops (e, h) = Some (e ++ rs, h') /\ length rs = length ops
                /\ wf_state (e ++ rs, h') = true /\ (length h <= length h')%nat /\ forallb op_in_OPS ops = true.
Proof.
  unfold run_ops. induction ops as [|o ops IH]; intros e h W H.
  - exists [], h. rewrite app_nil_r. simpl. auto.
  - cbn [wf_hist] in H. apply andb_true_iff in H. destruct H as [O H].
    destruct (run_op_wf e h o W O) as (v & h1 & R & W1 & L1). rewrite R in H.
    destruct (IH _ _ W1 H) as (rs & h' & R' & Lr & W' & L' & Os).
    exists (v :: rs), h'.
    change (fold_left run_op (o :: ops) (Some (e, h))) with (fold_left run_op ops (run_op (Some (e, h)) o)).
    rewrite <- !app_assoc in *. cbn [app length forallb] in *.
    rewrite (wf_op_in_OPS _ _ O), Os. split; [rewrite R; exact R'|]. repeat split; auto; lia.
Qed.

(* the history theorem with results: both machines run to the end, produce the SAME list of results, and the final
   heap abstracts to the final abstract state *)
Theorem history_results : forall ops e h, wf_state (e, h) = true -> wf_hist ops (e, h) = true ->
  exists rs h', run_ops ops (e, h) = Some (e ++ rs, h') /\ spec_run ops (e, abs h) = Some (e ++ rs, abs h')
                /\ length rs = length ops /\ wf_state (e ++ rs, h') = true /\ (length h <= length h')%nat.
Proof.
  intros ops e h W H. destruct (history_progress ops e h W H) as (rs & h' & R & L & W' & G & O).
  exists rs, h'. split; [exact R|]. split; [|auto].
  rewrite <- (history_refines ops e h O), R. reflexivity.
Qed.

(* a purely syntactic sufficient condition for wf_hist: every variable refers to an earlier statement (or an initial
   variable), every literal is a scalar *)
Lemma scalar_val_ok : forall h v, scalar_val v = true -> val_ok h v = true.
Proof. intros h v H. destruct v; simpl in *; auto; discriminate. Qed.

Theorem wf_syn_hist : forall ops n e h, wf_syn n ops = true -> (n <= length e)%nat -> wf_hist ops (e, h) = true.
Proof.
  induction ops as [|o ops IH]; intros n e h H L; [reflexivity|].
  simpl in H. apply andb_true_iff in H. destruct H as [Ho H]. cbn [wf_hist].
  assert (Wo : wf_op (e, h) o = true).
  { destruct o as [f l|k|v]; simpl in *.
    - apply andb_true_iff in Ho. destruct Ho as [F A]. rewrite F. simpl. rewrite forallb_forall in *. intros a I.
      specialize (A a I). destruct a as [k|v]; simpl; [apply Nat.ltb_lt in A; apply Nat.ltb_lt; lia | apply scalar_val_ok; exact A].
    - apply Nat.ltb_lt in Ho. apply Nat.ltb_lt. lia.
    - apply scalar_val_ok. exact Ho. }
  rewrite Wo. cbn [andb]. match goal with |- context [run_op ?s o] => destruct (run_op s o) as [[e1 h1]|] eqn:R end; [|reflexivity].
  destruct (run_op_step _ _ _ _ _ R) as (_ & (v & ->) & _). apply (IH (S n)); [exact H|]. rewrite app_length. simpl. lia.
Qed.

(* ---- self-aliasing calls on the abstract machine: both lookups see the OLD contents *)
Lemma spec_self_extend : forall m l xs, alookup m l = Some (ASeq xs) ->
  spec_call (U "arrayExtend") [VArr l; VArr l] m = Some (SOk (VArr l), aupdate m l (ASeq (xs ++ xs))).
Proof. intros m l xs H. change (spec_call (U "arrayExtend")) with sp_arrayExtend. unfold sp_arrayExtend, with_seq. rewrite H. reflexivity. Qed.
Lemma spec_self_assign : forall m l kv, alookup m l = Some (AMap kv) ->
  spec_call (U "objectAssign") [VObj l; VObj l] m = Some (SOk (VObj l), aupdate m l (AMap (dict_update kv kv))).
Proof. intros m l kv H. change (spec_call (U "objectAssign")) with sp_objectAssign. unfold sp_objectAssign, with_map. rewrite H. reflexivity. Qed.

(* an alias observes a mutation made through the other name; a copy does not (abstract machine, any state) *)
Lemma spec_alias_sees_push : forall m l xs v, alookup m l = Some (ASeq xs) ->
  exists m', spec_call (U "arrayPush") [VArr l; v] m = Some (SOk (VArr l), m') /\ alookup m' l = Some (ASeq (xs ++ [v])).
Proof.
  intros m l xs v H. change (spec_call (U "arrayPush")) with sp_arrayPush. unfold sp_arrayPush, with_seq. rewrite H.
  eexists. split; [reflexivity|]. eapply alookup_aupdate_same; eauto.
Qed.
