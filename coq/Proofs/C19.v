(* Proofs/C19.v — data functions implement their relational meaning (model: Model/Data.v).

   1. rows as dicts: row_set;  filter_data, add_calculated_field
   2. buckets = groups in first-appearance order;  top_data;  aggregate_data
   3. join_data: the renaming loop terminates, its range avoids the left names and the un-renamed right names, is
      injective under the guard the proof forces; merged rows; output order
   4. grouping keys: equal key <-> equal canonical JSON value (C14), what that means for scalars *)
From Coq Require Import Lia ZifyBool SpecFloat Permutation Sorted.
From BS Require Import Model.Base Model.Num Model.Arith Model.Compare Model.Json Model.Data Proofs.BaseFacts.
From BS Require Model.NumText Proofs.C13 Proofs.C14a Proofs.C14b Proofs.C14 Proofs.C11.
Local Open Scope Z_scope.

(* ================================================================== 1. rows *)
Lemma row_set_same k v r : assoc k (row_set k v r) = Some v.
Proof.
  induction r as [|[k' v'] t IH]; cbn.
  - rewrite str_eqb_refl. reflexivity.
  - destruct (str_eqb k k') eqn:E; cbn; [rewrite str_eqb_refl; reflexivity|]. rewrite E. exact IH.
Qed.

Lemma row_set_other k v r k2 : k2 <> k -> assoc k2 (row_set k v r) = assoc k2 r.
Proof.
  intros N. induction r as [|[k' v'] t IH]; cbn.
  - assert (str_eqb k2 k = false) as -> by (apply str_eqb_neq; exact N). reflexivity.
  - destruct (str_eqb k k') eqn:E; cbn.
    + apply str_eqb_eq in E. subst k'. assert (str_eqb k2 k = false) as -> by (apply str_eqb_neq; exact N). reflexivity.
    + destruct (str_eqb k2 k'); [reflexivity|exact IH].
Qed.

Lemma row_has_In k r : row_has k r = true <-> In k (map fst r).
Proof.
  unfold row_has. induction r as [|[k' v'] t IH]; cbn; [split; [discriminate|tauto]|].
  destruct (str_eqb k k') eqn:E.
  - apply str_eqb_eq in E. subst. split; auto.
  - rewrite IH. apply str_eqb_neq in E. split; [auto|]. intros [H|H]; [congruence|exact H].
Qed.

Lemma row_set_keys k v r : map fst (row_set k v r) = if row_has k r then map fst r else map fst r ++ [k].
Proof.
  unfold row_has. induction r as [|[k' v'] t IH]; cbn; [reflexivity|].
  destruct (str_eqb k k') eqn:E; cbn.
  - apply str_eqb_eq in E. subst. reflexivity.
  - rewrite IH. destruct (assoc k t); reflexivity.
Qed.

Lemma NoDup_snoc {A} (l : list A) (k : A) : NoDup l -> ~ In k l -> NoDup (l ++ [k]).
Proof.
  induction l as [|h t IH]; cbn; intros H N; [constructor; [tauto|constructor]|].
  inversion H; subst. constructor.
  - rewrite in_app_iff. cbn. intros [X|[X|[]]]; [tauto|subst; tauto].
  - apply IH; tauto.
Qed.

Lemma row_set_nodup k v r : NoDup (map fst r) -> NoDup (map fst (row_set k v r)).
Proof.
  intros H. rewrite row_set_keys. destruct (row_has k r) eqn:E; [exact H|].
  assert (~ In k (map fst r)) by (rewrite <- row_has_In; congruence).
  apply NoDup_snoc; auto.
Qed.

(* ---- filter_data *)
Lemma filter_data_is_filter ev data : filter_data ev data = filter (fun r => truthy (ev r)) data.
Proof. induction data as [|r t IH]; cbn; [reflexivity|]. rewrite IH. reflexivity. Qed.

(* ---- add_calculated_field *)
Lemma calc_is_map ev f data : add_calculated_field ev f data = map (fun r => row_set f (ev r) r) data.
Proof. induction data as [|r t IH]; cbn; [reflexivity|]. rewrite IH. reflexivity. Qed.

Lemma calc_spec ev f data :
  length (add_calculated_field ev f data) = length data /\
  forall i r, nth_error data i = Some r ->
    exists r', nth_error (add_calculated_field ev f data) i = Some r' /\
      row_get r' f = ev r /\
      (forall k, k <> f -> assoc k r' = assoc k r) /\
      map fst r' = (if row_has f r then map fst r else map fst r ++ [f]) /\
      (NoDup (map fst r) -> NoDup (map fst r')).
Proof.
  rewrite calc_is_map. split; [apply map_length|].
  intros i r H. exists (row_set f (ev r) r). split; [exact (map_nth_error (fun r0 => row_set f (ev r0) r0) _ _ H)|].
  split; [unfold row_get; rewrite row_set_same; reflexivity|].
  split; [intros k N; apply row_set_other; exact N|].
  split; [apply row_set_keys|apply row_set_nodup].
Qed.

(* ================================================================== 2. buckets = groups in first-appearance order *)
(* the distinct keys of a list in first-appearance order *)
Fixpoint dedup (l : list str) : list str :=
  match l with
  | [] => []
  | k :: t => k :: filter (fun x => negb (str_eqb x k)) (dedup t)
  end.

Lemma dedup_In k l : In k (dedup l) <-> In k l.
Proof.
  induction l as [|h t IH]; cbn; [tauto|].
  rewrite filter_In, IH. destruct (str_eqb k h) eqn:E.
  - apply str_eqb_eq in E. subst. split; auto.
  - apply str_eqb_neq in E. split; [intros [H|[H _]]; auto|]. intros [H|H]; [congruence|]. right. split; auto.
Qed.

Lemma filter_NoDup {A} (p : A -> bool) l : NoDup l -> NoDup (filter p l).
Proof.
  induction 1 as [|x l N H IH]; cbn; [constructor|]. destruct (p x); [|exact IH].
  constructor; [|exact IH]. rewrite filter_In. tauto.
Qed.

Lemma dedup_NoDup l : NoDup (dedup l).
Proof.
  induction l as [|h t IH]; cbn; constructor.
  - rewrite filter_In. intros [_ H]. rewrite str_eqb_refl in H. discriminate.
  - apply filter_NoDup. exact IH.
Qed.

Lemma filter_id {A} (p : A -> bool) l : (forall x, In x l -> p x = true) -> filter p l = l.
Proof.
  induction l as [|h t IH]; cbn; intros H; [reflexivity|]. rewrite (H h) by auto. f_equal. apply IH. intros; apply H; auto.
Qed.

Lemma dedup_snoc l k : dedup (l ++ [k]) = if str_mem k l then dedup l else dedup l ++ [k].
Proof.
  induction l as [|h t IH]; cbn; [reflexivity|].
  rewrite IH. destruct (str_eqb k h) eqn:E; cbn.
  - apply str_eqb_eq in E. subst h. destruct (str_mem k t); [reflexivity|].
    rewrite filter_app. cbn. rewrite str_eqb_refl. cbn. rewrite app_nil_r. reflexivity.
  - destruct (str_mem k t); [reflexivity|]. rewrite filter_app. cbn. rewrite E. reflexivity.
Qed.

Section BucketFacts.
  Context {A : Type} (keyf : A -> str).
  Definition in_class (k : str) (x : A) : bool := str_eqb (keyf x) k.
  (* the specification: one entry per distinct key, in first-appearance order, holding the elements with that key in order *)
  Definition groups (l : list A) : list (str * list A) :=
    map (fun k => (k, filter (in_class k) l)) (dedup (map keyf l)).

  Lemma filter_snoc_other k l x : str_eqb (keyf x) k = false -> filter (in_class k) (l ++ [x]) = filter (in_class k) l.
  Proof. intros E. rewrite filter_app. cbn. unfold in_class at 2. rewrite E. apply app_nil_r. Qed.

  Lemma filter_snoc_same k l x : str_eqb (keyf x) k = true -> filter (in_class k) (l ++ [x]) = filter (in_class k) l ++ [x].
  Proof. intros E. rewrite filter_app. cbn. unfold in_class at 2. rewrite E. reflexivity. Qed.

  Lemma bucket_add_map ks l x : NoDup ks ->
    bucket_add (keyf x) x (map (fun k => (k, filter (in_class k) l)) ks) =
    if str_mem (keyf x) ks then map (fun k => (k, filter (in_class k) (l ++ [x]))) ks
    else map (fun k => (k, filter (in_class k) (l ++ [x]))) ks ++ [(keyf x, [x])].
  Proof.
    induction ks as [|k ks IH]; intros ND; cbn; [reflexivity|].
    inversion ND as [|? ? Nk ND']; subst.
    destruct (str_eqb (keyf x) k) eqn:E; cbn.
    - rewrite (filter_snoc_same k l x E). apply str_eqb_eq in E. f_equal.
      apply map_ext_in. intros k' Hk'. rewrite filter_snoc_other; [reflexivity|].
      apply str_eqb_neq. intros X. apply Nk. rewrite <- E, X. exact Hk'.
    - rewrite (IH ND'). rewrite (filter_snoc_other k l x E). destruct (str_mem (keyf x) ks); reflexivity.
  Qed.

  Lemma buckets_snoc l x : buckets keyf (l ++ [x]) = bucket_add (keyf x) x (buckets keyf l).
  Proof. unfold buckets. rewrite fold_left_app. reflexivity. Qed.

  Lemma buckets_are_groups l : buckets keyf l = groups l.
  Proof.
    induction l as [|x l IH] using rev_ind; [reflexivity|].
    rewrite buckets_snoc, IH. unfold groups. rewrite (bucket_add_map _ l x (dedup_NoDup _)).
    rewrite map_app. cbn [map]. rewrite dedup_snoc.
    assert (M : str_mem (keyf x) (dedup (map keyf l)) = str_mem (keyf x) (map keyf l)).
    { destruct (str_mem (keyf x) (map keyf l)) eqn:E.
      - apply (proj2 (str_mem_In _ _)). apply (proj2 (dedup_In _ _)). apply (proj1 (str_mem_In _ _)). exact E.
      - destruct (str_mem (keyf x) (dedup (map keyf l))) eqn:E2; [|reflexivity].
        apply (proj1 (str_mem_In _ _)) in E2. apply (proj1 (dedup_In _ _)) in E2. apply (proj2 (str_mem_In _ _)) in E2. congruence. }
    rewrite M. destruct (str_mem (keyf x) (map keyf l)) eqn:E; [reflexivity|].
    rewrite map_app. cbn [map]. f_equal. f_equal. f_equal.
    rewrite filter_app. cbn. unfold in_class at 2. rewrite str_eqb_refl.
    assert (filter (in_class (keyf x)) l = []) as ->; [|reflexivity].
    clear -E. induction l as [|y l IH]; cbn; [reflexivity|]. cbn in E.
    destruct (str_eqb (keyf x) (keyf y)) eqn:E1; [discriminate|]. cbn in E.
    unfold in_class at 1. assert (str_eqb (keyf y) (keyf x) = false) as ->.
    { apply str_eqb_neq. intros X. rewrite X, str_eqb_refl in E1. discriminate. }
    apply IH. exact E.
  Qed.

  (* a group is never empty, its elements all have its key, and every element is in exactly the group of its key *)
  Lemma groups_keys l : map fst (groups l) = dedup (map keyf l).
  Proof. unfold groups. rewrite map_map. cbn. apply map_id. Qed.

  Lemma in_class_excl k k' z : str_eqb k k' = false -> in_class k z = true -> in_class k' z = false.
  Proof.
    unfold in_class. intros N E. apply str_eqb_eq in E. rewrite E. exact N.
  Qed.

  Lemma filter_filter_other k k' t : str_eqb k k' = false ->
    filter (in_class k') (filter (fun y => negb (in_class k y)) t) = filter (in_class k') t.
  Proof.
    intros N. induction t as [|z t IH]; [reflexivity|]. cbn [filter].
    destruct (in_class k z) eqn:E1; cbn [negb].
    - rewrite (in_class_excl k k' z N E1). exact IH.
    - cbn [filter]. rewrite IH. reflexivity.
  Qed.

  Lemma dedup_filter_class k t :
    filter (fun y => negb (str_eqb y k)) (dedup (map keyf t)) = dedup (map keyf (filter (fun y => negb (in_class k y)) t)).
  Proof.
    induction t as [|y t IH]; [reflexivity|]. cbn [map dedup filter].
    assert (C : forall a b zs, filter (fun y0 => negb (str_eqb y0 a)) (filter (fun y0 => negb (str_eqb y0 b)) zs) =
                               filter (fun y0 => negb (str_eqb y0 b)) (filter (fun y0 => negb (str_eqb y0 a)) zs)).
    { intros a b zs. induction zs as [|z zs IHz]; [reflexivity|]. cbn [filter].
      destruct (str_eqb z a) eqn:Ea, (str_eqb z b) eqn:Eb; cbn [negb filter]; rewrite ?Ea, ?Eb; cbn [negb]; rewrite ?IHz; reflexivity. }
    assert (I : forall a zs, filter (fun y0 => negb (str_eqb y0 a)) (filter (fun y0 => negb (str_eqb y0 a)) zs) =
                             filter (fun y0 => negb (str_eqb y0 a)) zs).
    { intros a zs. induction zs as [|z zs IHz]; [reflexivity|]. cbn [filter].
      destruct (str_eqb z a) eqn:Ea; cbn [negb filter]; rewrite ?Ea; cbn [negb]; rewrite ?IHz; reflexivity. }
    unfold in_class at 1. destruct (str_eqb (keyf y) k) eqn:E; cbn [negb].
    - apply str_eqb_eq in E. rewrite E. rewrite I. exact IH.
    - cbn [map dedup]. f_equal. rewrite C. rewrite IH. reflexivity.
  Qed.

  Lemma class_rest_perm k t : Permutation (filter (in_class k) t ++ filter (fun y => negb (in_class k y)) t) t.
  Proof.
    induction t as [|z t IH]; [constructor|]. cbn [filter].
    destruct (in_class k z); cbn [negb app]; [constructor; exact IH|].
    eapply perm_trans; [apply Permutation_sym, Permutation_middle|]. constructor. exact IH.
  Qed.

  Lemma filter_len_le {X} (p : X -> bool) l : (length (filter p l) <= length l)%nat.
  Proof. induction l as [|a l IH]; cbn; [lia|]. destruct (p a); cbn; lia. Qed.

  Lemma flat_map_ext_in' {X Y} (f g : X -> list Y) l : (forall a, In a l -> f a = g a) -> flat_map f l = flat_map g l.
  Proof. induction l as [|a l IH]; cbn; intros H; [reflexivity|]. rewrite (H a) by auto. f_equal. apply IH. intros; apply H; auto. Qed.

  Lemma groups_concat_perm l : Permutation (flat_map snd (groups l)) l.
  Proof.
    unfold groups. rewrite flat_map_concat_map, map_map. cbn [snd]. rewrite <- flat_map_concat_map.
    remember (length l) as n eqn:Hn. revert l Hn.
    induction n as [n IHn] using (well_founded_induction lt_wf). intros l Hn.
    destruct l as [|x t]; [constructor|]. cbn [map dedup flat_map].
    set (k := keyf x). rewrite dedup_filter_class.
    set (rest := filter (fun y => negb (in_class k y)) t).
    assert (Hrest : forall k', In k' (dedup (map keyf rest)) -> filter (in_class k') (x :: t) = filter (in_class k') rest).
    { intros k' Hk'. apply (proj1 (dedup_In _ _)) in Hk'. apply (proj1 (in_map_iff _ _ _)) in Hk'. destruct Hk' as [y [Ey Hy]].
      unfold rest in Hy. apply (proj1 (filter_In _ _ _)) in Hy. destruct Hy as [_ Hy].
      assert (Nk : str_eqb k k' = false).
      { unfold in_class in Hy. rewrite Ey in Hy. apply str_eqb_neq. intros X. rewrite X, str_eqb_refl in Hy. discriminate. }
      cbn [filter]. assert (in_class k' x = false) as ->.
      { apply (in_class_excl k k' x Nk). unfold in_class, k. apply str_eqb_refl. }
      unfold rest. rewrite (filter_filter_other k k' t Nk). reflexivity. }
    rewrite (flat_map_ext_in' _ (fun k' => filter (in_class k') rest) _ Hrest).
    eapply perm_trans; [apply Permutation_app_head; apply (IHn (length rest)); [|reflexivity]|].
    - subst n. unfold rest. cbn [length]. pose proof (filter_len_le (fun y => negb (in_class k y)) t). lia.
    - cbn [filter]. assert (in_class k x = true) as -> by (unfold in_class, k; apply str_eqb_refl).
      cbn [app]. constructor. apply class_rest_perm.
  Qed.
End BucketFacts.

(* ---- top_data *)
Lemma top_data_spec keyf n data :
  top_data keyf n data = flat_map (fun k => firstn (Z.to_nat n) (filter (in_class keyf k) data)) (dedup (map keyf data)).
Proof.
  unfold top_data. rewrite buckets_are_groups. unfold groups.
  rewrite !flat_map_concat_map, map_map. reflexivity.
Qed.

(* ---- aggregate_data *)
Lemma all_some_Forall2 {A} (l : list (option A)) r : all_some l = Some r -> Forall2 (fun o x => o = Some x) l r.
Proof.
  revert r. induction l as [|[x|] l IH]; cbn; intros r H; try discriminate.
  - injection H as <-. constructor.
  - destruct (all_some l) as [r'|]; cbn in H; [|discriminate]. injection H as <-. constructor; auto.
Qed.

Lemma Forall2_impl' {A B} (P Q : A -> B -> Prop) l r : (forall a b, P a b -> Q a b) -> Forall2 P l r -> Forall2 Q l r.
Proof. intros I H. induction H; constructor; auto. Qed.

Lemma Forall2_map_l {A B C} (P : B -> C -> Prop) (f : A -> B) l r : Forall2 P (map f l) r <-> Forall2 (fun a c => P (f a) c) l r.
Proof.
  revert r. induction l as [|a l IH]; intros r; cbn; split; intros H; inversion H; subst; constructor; auto; apply IH; auto.
Qed.

Lemma fold_row_set_assoc (r0 : row) cs acc c :
  assoc c (fold_left (fun acc c => row_set c (row_get r0 c) acc) cs acc) =
  if str_mem c cs then Some (row_get r0 c) else assoc c acc.
Proof.
  revert acc. induction cs as [|h t IH]; intros acc; cbn; [reflexivity|].
  rewrite IH. destruct (str_eqb c h) eqn:E; cbn.
  - apply str_eqb_eq in E. subst h. destruct (str_mem c t); [reflexivity|]. apply row_set_same.
  - destruct (str_mem c t); [reflexivity|]. apply row_set_other. apply str_eqb_neq. exact E.
Qed.

Lemma fold_row_set_keys (r0 : row) cs acc :
  NoDup (map fst acc) ->
  NoDup (map fst (fold_left (fun acc c => row_set c (row_get r0 c) acc) cs acc)) /\
  forall k, In k (map fst (fold_left (fun acc c => row_set c (row_get r0 c) acc) cs acc)) <-> In k (map fst acc) \/ In k cs.
Proof.
  revert acc. induction cs as [|h t IH]; intros acc ND; cbn; [split; [exact ND|tauto]|].
  destruct (IH (row_set h (row_get r0 h) acc) (row_set_nodup _ _ _ ND)) as [N1 N2]. split; [exact N1|].
  intros k. rewrite N2, row_set_keys. destruct (row_has h acc) eqn:E.
  - apply row_has_In in E. split; [tauto|]. intros [H|[H|H]]; auto. subst. auto.
  - rewrite in_app_iff. cbn. tauto.
Qed.

(* the category part of an aggregate row: exactly the category fields, each with the value the class's first row has *)
Lemma agg_cat_part_spec cs r0 :
  NoDup (map fst (agg_cat_part (Some cs) r0)) /\
  (forall c, In c (map fst (agg_cat_part (Some cs) r0)) <-> In c cs) /\
  (forall c, In c cs -> assoc c (agg_cat_part (Some cs) r0) = Some (row_get r0 c)).
Proof.
  unfold agg_cat_part. destruct (fold_row_set_keys r0 cs [] (NoDup_nil _)) as [N1 N2]. split; [exact N1|]. split.
  - intros c. rewrite N2. cbn. tauto.
  - intros c H. rewrite fold_row_set_assoc. apply (proj2 (str_mem_In _ _)) in H. rewrite H. reflexivity.
Qed.

Definition class_row_ok (cats : option (list str)) (ms : list measure) (rows : list row) (orow : list (str * acell)) : Prop :=
  exists r0 rest mcells, rows = r0 :: rest /\
    orow = map (fun kv => (fst kv, AV (snd kv))) (agg_cat_part cats r0) ++ mcells /\
    Forall2 (fun m cell => exists c, cell = (out_name m, c) /\ agg_measure (m_fn m) (measure_values (m_field m) rows) = Some c) ms mcells.

Lemma aggregate_spec keyf cats ms data out : aggregate_data keyf cats ms data = Some out ->
  agg_names_ok cats ms = true /\
  Forall2 (fun k orow => class_row_ok cats ms (filter (in_class keyf k) data) orow) (dedup (map keyf data)) out.
Proof.
  unfold aggregate_data. destruct (agg_names_ok cats ms); [|discriminate]. intros H. split; [reflexivity|].
  apply all_some_Forall2 in H. rewrite buckets_are_groups in H. unfold groups in H. rewrite map_map in H. cbn [snd] in H.
  apply Forall2_map_l in H. eapply Forall2_impl'; [|exact H]. cbn beta.
  intros k orow E. unfold agg_class_row in E. destruct (filter (in_class keyf k) data) as [|r0 rest] eqn:F; [discriminate|].
  destruct (all_some _) as [mcells|] eqn:M; [|discriminate]. injection E as <-.
  exists r0, rest, mcells. split; [reflexivity|]. split; [reflexivity|].
  apply all_some_Forall2 in M. apply Forall2_map_l in M. eapply Forall2_impl'; [|exact M]. cbn beta.
  intros m cell Hc. destruct (agg_measure _ _) as [c|]; cbn in Hc; [|discriminate]. injection Hc as <-. exists c. auto.
Qed.

(* the groups are a partition of the rows: every row is in exactly the class of its key (order kept inside a class) *)
Lemma classes_partition keyf (data : table) :
  NoDup (dedup (map keyf data)) /\
  (forall k, In k (dedup (map keyf data)) <-> exists r, In r data /\ keyf r = k) /\
  Permutation (flat_map (fun k => filter (in_class keyf k) data) (dedup (map keyf data))) data.
Proof.
  split; [apply dedup_NoDup|]. split.
  - intros k. rewrite dedup_In, in_map_iff. split; intros [r [H1 H2]]; exists r; auto.
  - pose proof (groups_concat_perm keyf data) as P. unfold groups in P.
    rewrite flat_map_concat_map, map_map in P. cbn [snd] in P. rewrite <- flat_map_concat_map in P. exact P.
Qed.

(* ---- the measures *)
Lemma agg_measure_empty fn : agg_measure fn [] = Some (AV CNull).
Proof. reflexivity. Qed.

Lemma agg_measure_count v t : agg_measure ACount (v :: t) = Some (AV (CNum (NInt (Z.of_nat (length (v :: t)))))).
Proof. reflexivity. Qed.

Lemma measure_values_spec field rows v :
  In v (measure_values field rows) <-> v <> CNull /\ exists r, In r rows /\ row_get r field = v.
Proof.
  unfold measure_values. rewrite filter_In, in_map_iff. split.
  - intros [[r [E H]] N]. split; [intros X; subst v; rewrite X in N; discriminate|]. exists r. auto.
  - intros [N [r [H E]]]. split; [exists r; auto|]. destruct v; try reflexivity. congruence.
Qed.

(* the integer a measure value denotes *)
Definition int_of (v : cv) : option Z :=
  match as_pynum v with
  | Some (NInt x) => Some x
  | Some (NFlt f) => sf_integral f
  | None => None
  end.

Lemma int_values_spec vs zs : int_values vs = Some zs -> Forall2 (fun v z => int_of v = Some z) vs zs.
Proof.
  revert zs. induction vs as [|v t IH]; cbn; intros zs H; [injection H as <-; constructor|].
  destruct (as_pynum v) as [[x|f]|] eqn:P; [| |discriminate].
  - destruct (int_values t) as [r|]; cbn in H; [|discriminate]. injection H as <-.
    constructor; [unfold int_of; rewrite P; reflexivity|apply IH; reflexivity].
  - destruct (sf_integral f) as [z|] eqn:E; [|discriminate]. destruct (int_values t) as [r|]; [|discriminate].
    injection H as <-. constructor; [unfold int_of; rewrite P; exact E|apply IH; reflexivity].
Qed.

(* sum: the exact integer sum; an int when every value is an int, else the float of it (exactly representable: within 2^53) *)
Lemma agg_sum_spec vs c : agg_sum vs = Some c ->
  exists zs, Forall2 (fun v z => int_of v = Some z) vs zs /\
    ((forallb is_int_num vs = true /\ c = CNum (NInt (zsum zs))) \/
     (forallb is_int_num vs = false /\ c = CNum (NFlt (Z_to_sf (zsum zs))) /\ Z.abs (zsum zs) <= two53)).
Proof.
  unfold agg_sum. destruct (int_values vs) as [zs|] eqn:E; [|discriminate]. intros H. exists zs.
  split; [apply int_values_spec; exact E|].
  destruct (forallb is_int_num vs); [left; injection H as <-; auto|].
  destruct (partial_sums_ok 0 zs) eqn:P; [|discriminate]. right. injection H as <-. split; [reflexivity|]. split; [reflexivity|].
  assert (G : forall acc l, Z.abs acc <= two53 -> partial_sums_ok acc l = true -> Z.abs (acc + zsum l) <= two53).
  { intros acc l. revert acc. induction l as [|z l IH]; cbn; intros acc Ha Hp; [rewrite Z.add_0_r; exact Ha|].
    apply andb_prop in Hp as [Hp H3]. apply andb_prop in Hp as [H1 H2].
    fold (zsum l). replace (acc + (z + zsum l)) with ((acc + z) + zsum l) by lia. apply IH; [lia|exact H3]. }
  apply (G 0 zs); [unfold two53; lia|exact P].
Qed.

(* ================================================================== 3. join_data *)
(* ---- the renaming loop *)
Lemma Z_to_str_inj a b : Z_to_str a = Z_to_str b -> a = b.
Proof.
  intros H. pose proof (BS.Proofs.C13.int_roundtrip a) as Ha. pose proof (BS.Proofs.C13.int_roundtrip b) as Hb.
  unfold BS.Model.NumText.value_string_int in *. rewrite H in Ha. congruence.
Qed.

Lemma Z_to_str_digits z : 0 <= z -> forallb is_dig (Z_to_str z) = true.
Proof.
  intros Hz. destruct (BS.Proofs.C13.int_text_shape z) as [_ H]. unfold BS.Model.NumText.value_string_int in H.
  assert (z <? 0 = false) as E by lia. rewrite E in H. exact H.
Qed.

Lemma unique_loop_result fuel taken name ix u : unique_loop fuel taken name ix = Some u ->
  taken u = false /\ exists i, u = name ++ Z_to_str (ix + Z.of_nat i).
Proof.
  revert ix. induction fuel as [|f IH]; intros ix; cbn.
  - destruct (taken (name ++ Z_to_str ix)) eqn:E; [discriminate|]. intros H. injection H as <-. split; [exact E|].
    exists O. rewrite Z.add_0_r. reflexivity.
  - destruct (taken (name ++ Z_to_str ix)) eqn:E.
    + intros H. apply IH in H as [H1 [i H2]]. split; [exact H1|]. exists (S i). rewrite H2. f_equal. f_equal. lia.
    + intros H. injection H as <-. split; [exact E|]. exists O. rewrite Z.add_0_r. reflexivity.
Qed.

Lemma unique_loop_some fuel taken name ix :
  (exists i, (i <= fuel)%nat /\ taken (name ++ Z_to_str (ix + Z.of_nat i)) = false) -> exists u, unique_loop fuel taken name ix = Some u.
Proof.
  revert ix. induction fuel as [|f IH]; intros ix [i [Hi Ht]]; cbn.
  - assert (i = O) by lia. subst i. rewrite Z.add_0_r in Ht. rewrite Ht. eauto.
  - destruct (taken (name ++ Z_to_str ix)) eqn:E; [|eauto].
    destruct i as [|i]; [rewrite Z.add_0_r in Ht; congruence|].
    apply IH. exists i. split; [lia|]. replace (ix + 1 + Z.of_nat i) with (ix + Z.of_nat (S i)) by lia. exact Ht.
Qed.

(* pigeonhole: among name2 .. name(2+n) one is not in a list of n strings *)
Lemma free_candidate (L : list str) name ix :
  exists i, (i <= length L)%nat /\ str_mem (name ++ Z_to_str (ix + Z.of_nat i)) L = false.
Proof.
  set (cand := map (fun i => name ++ Z_to_str (ix + Z.of_nat i)) (seq 0 (S (length L)))).
  assert (ND : NoDup cand).
  { unfold cand. apply FinFun.Injective_map_NoDup; [|apply seq_NoDup].
    intros a b H. apply app_inv_head in H. apply Z_to_str_inj in H. apply Nat2Z.inj. apply (Z.add_reg_l ix). exact H. }
  destruct (forallb (fun c => str_mem c L) cand) eqn:F.
  - exfalso. assert (I : incl cand L).
    { intros c Hc. rewrite forallb_forall in F. apply str_mem_In. apply F. exact Hc. }
    apply NoDup_incl_length in I; [|exact ND]. unfold cand in I. rewrite map_length, seq_length in I. exact (Nat.nle_succ_diag_l _ I).
  - assert (X : exists c, In c cand /\ str_mem c L = false).
    { clear ND. induction cand as [|c cs IH]; cbn in F; [discriminate|].
      destruct (str_mem c L) eqn:E; cbn in F.
      - destruct (IH F) as [c' [H1 H2]]. exists c'. split; [right; exact H1|exact H2].
      - exists c. split; [left; reflexivity|exact E]. }
    destruct X as [c [Hc Hm]]. unfold cand in Hc. apply in_map_iff in Hc as [i [Ei Hi]]. apply in_seq in Hi.
    exists i. split; [lia|]. rewrite Ei. exact Hm.
Qed.

Definition taken_fn (left : list str) (acc : list (str * str)) (raw : list str) (u : str) : bool :=
  str_mem u left || str_mem u (map fst acc) || str_mem u raw.

Lemma taken_fn_mem left acc raw u : incl (map fst acc) raw -> taken_fn left acc raw u = str_mem u (left ++ raw).
Proof.
  intros I. unfold taken_fn.
  destruct (str_mem u left) eqn:E1, (str_mem u (map fst acc)) eqn:E2, (str_mem u raw) eqn:E3; cbn;
    try (symmetry; apply str_mem_In; apply in_app_iff; first [left; apply str_mem_In; assumption | right; apply str_mem_In; assumption]).
  - exfalso. apply str_mem_In in E2. apply I in E2. apply str_mem_In in E2. congruence.
  - destruct (str_mem u (left ++ raw)) eqn:E4; [|reflexivity]. apply str_mem_In in E4. apply in_app_iff in E4 as [H|H]; apply str_mem_In in H; congruence.
Qed.

(* what the loop returns for the fields [todo], appended to [acc] *)
Definition names_ok (left raw : list str) (todo : list str) (added : list (str * str)) : Prop :=
  map fst added = todo /\
  Forall (fun fu => let '(f, u) := fu in
            (str_mem f left = false /\ u = f) \/
            (str_mem f left = true /\ str_mem u left = false /\ str_mem u raw = false /\ exists i, 0 <= i /\ u = f ++ Z_to_str i)) added.

Lemma right_names_loop_spec left raw todo acc :
  incl (map fst acc) raw -> incl todo raw ->
  exists added, right_names_loop (rename_fuel left raw) left raw todo acc = Some (acc ++ added) /\ names_ok left raw todo added.
Proof.
  revert acc. induction todo as [|f t IH]; intros acc Ia It; cbn [right_names_loop].
  - exists []. rewrite app_nil_r. split; [reflexivity|]. split; [reflexivity|constructor].
  - assert (It' : incl t raw) by (intros x Hx; apply It; right; exact Hx).
    assert (Hf : In f raw) by (apply It; left; reflexivity).
    destruct (str_mem f left) eqn:E; cbn [negb].
    + assert (HT : forall u, (str_mem u left || str_mem u (map fst acc) || str_mem u raw) = str_mem u (left ++ raw))
        by (intros u0; exact (taken_fn_mem left acc raw u0 Ia)).
      destruct (free_candidate (left ++ raw) f 2) as [i [Hi Hfree]].
      destruct (unique_loop _ _ f 2) as [u|] eqn:Hu.
      2: { exfalso. destruct (unique_loop_some (rename_fuel left raw) (fun u => str_mem u left || str_mem u (map fst acc) || str_mem u raw) f 2) as [u' Hu'].
           - exists i. split; [unfold rename_fuel; rewrite app_length in Hi; lia|]. rewrite HT. exact Hfree.
           - pose proof (eq_trans (eq_sym Hu') Hu) as X. discriminate X. }
      destruct (IH (acc ++ [(f, u)])) as [added [H1 [H2 H3]]].
      { rewrite map_app. cbn. intros x Hx. apply in_app_iff in Hx as [Hx|[<-|[]]]; auto. }
      { exact It'. }
      exists ((f, u) :: added). rewrite H1, <- app_assoc. split; [reflexivity|]. split; [cbn; rewrite H2; reflexivity|].
      constructor; [|exact H3]. right.
      apply unique_loop_result in Hu as [Ht [j Hj]].
      apply Bool.orb_false_iff in Ht as [Ht T3]. apply Bool.orb_false_iff in Ht as [T1 T2].
      split; [exact E|]. split; [exact T1|]. split; [exact T3|]. exists (2 + Z.of_nat j). split; [lia|exact Hj].
    + destruct (IH (acc ++ [(f, f)])) as [added [H1 [H2 H3]]].
      { rewrite map_app. cbn. intros x Hx. apply in_app_iff in Hx as [Hx|[<-|[]]]; auto. }
      { exact It'. }
      exists ((f, f) :: added). rewrite H1, <- app_assoc. split; [reflexivity|]. split; [cbn; rewrite H2; reflexivity|].
      constructor; [|exact H3]. left. auto.
Qed.

(* the renaming map of two tables: always computed (the loop never runs out of fuel), one entry per right field name *)
Lemma field_names_nodup_aux acc r : NoDup acc -> NoDup (add_names acc r).
Proof.
  unfold add_names. revert acc. induction r as [|[k v] t IH]; intros acc ND; cbn; [exact ND|].
  apply IH. destruct (str_mem k acc) eqn:E; [exact ND|]. apply NoDup_snoc; [exact ND|].
  intros H. apply (proj2 (str_mem_In _ _)) in H. congruence.
Qed.
Lemma field_names_nodup data : NoDup (field_names data).
Proof.
  unfold field_names. assert (G : forall acc, NoDup acc -> NoDup (fold_left add_names data acc)).
  { induction data as [|r t IH]; intros acc ND; cbn; [exact ND|]. apply IH. apply field_names_nodup_aux. exact ND. }
  apply G. constructor.
Qed.

Lemma add_names_In acc r k : In k (add_names acc r) <-> In k acc \/ In k (map fst r).
Proof.
  unfold add_names. revert acc. induction r as [|[k' v] t IH]; intros acc; cbn; [tauto|].
  rewrite IH. destruct (str_mem k' acc) eqn:E.
  - apply (proj1 (str_mem_In _ _)) in E. split; [tauto|]. intros [H|[H|H]]; auto. subst. auto.
  - rewrite in_app_iff. cbn. tauto.
Qed.
Lemma field_names_In data k : In k (field_names data) <-> exists r, In r data /\ In k (map fst r).
Proof.
  unfold field_names.
  assert (G : forall acc, In k (fold_left add_names data acc) <-> In k acc \/ exists r, In r data /\ In k (map fst r)).
  { induction data as [|r t IH]; intros acc; cbn.
    - split; [auto|]. intros [H|[r [[] _]]]. exact H.
    - rewrite IH, add_names_In. split.
      + intros [[H|H]|[r' [H1 H2]]]; eauto.
      + intros [H|[r' [[<-|H1] H2]]]; eauto. }
  rewrite G. cbn. split; [intros [[]|H]; exact H|auto].
Qed.

Lemma right_names_spec left_data right_data :
  exists names, right_names left_data right_data = Some names /\
                names_ok (field_names left_data) (field_names right_data) (field_names right_data) names.
Proof.
  unfold right_names.
  destruct (right_names_loop_spec (field_names left_data) (field_names right_data) (field_names right_data) [])
    as [added [H1 H2]]; [intros x []|apply incl_refl|].
  exists added. split; [exact H1|exact H2].
Qed.

Lemma names_ok_assoc left raw names f : NoDup raw -> names_ok left raw raw names -> In f raw ->
  exists u, assoc f names = Some u /\ In (f, u) names.
Proof.
  intros ND [Hk _] Hf. rewrite <- Hk in Hf. clear ND Hk.
  induction names as [|[f' u'] t IH]; cbn in *; [tauto|].
  destruct (str_eqb f f') eqn:E.
  - apply str_eqb_eq in E. subst. eauto.
  - destruct Hf as [->|Hf]; [rewrite str_eqb_refl in E; discriminate|]. destruct (IH Hf) as [u [H1 H2]]. eauto.
Qed.

(* never a left field name; never an un-renamed right field name unless it is that field itself *)
Lemma rename_not_left left raw names f : NoDup raw -> names_ok left raw raw names -> In f raw -> ~ In (rename names f) left.
Proof.
  intros ND OK Hf. destruct (names_ok_assoc _ _ _ _ ND OK Hf) as [u [H1 H2]]. unfold rename. rewrite H1.
  destruct OK as [_ F]. rewrite Forall_forall in F. specialize (F _ H2). cbn in F.
  destruct F as [[N ->]|[_ [N _]]]; intros X; apply (proj2 (str_mem_In _ _)) in X; congruence.
Qed.

Lemma str_prefix_app a b : str_prefix a (a ++ b) = true.
Proof. induction a as [|c a IH]; cbn; [destruct b; reflexivity|]. rewrite N.eqb_refl. exact IH. Qed.

Lemma digit_collision f1 f2 i j : 0 <= i -> 0 <= j -> f1 ++ Z_to_str i = f2 ++ Z_to_str j -> f1 <> f2 ->
  is_digit_ext f1 f2 = true \/ is_digit_ext f2 f1 = true.
Proof.
  intros Hi Hj H N. apply app_eq_app in H as [l [[E1 E2]|[E1 E2]]].
  - (* f1 = f2 ++ l, str j = l ++ str i *)
    right. unfold is_digit_ext. subst f1. rewrite str_prefix_app. cbn.
    assert (l <> []) by (intros ->; rewrite app_nil_r in N; congruence).
    rewrite app_length. assert ((length f2 + length l =? length f2)%nat = false) as -> by (destruct l; [congruence|cbn; apply Nat.eqb_neq; lia]).
    cbn. rewrite skipn_app, skipn_all, Nat.sub_diag. cbn.
    pose proof (Z_to_str_digits j Hj) as D. rewrite E2, forallb_app in D. apply andb_prop in D as [D _]. exact D.
  - left. unfold is_digit_ext. subst f2. rewrite str_prefix_app. cbn.
    assert (l <> []) by (intros ->; rewrite app_nil_r in N; congruence).
    rewrite app_length. assert ((length f1 + length l =? length f1)%nat = false) as -> by (destruct l; [congruence|cbn; apply Nat.eqb_neq; lia]).
    cbn. rewrite skipn_app, skipn_all, Nat.sub_diag. cbn.
    pose proof (Z_to_str_digits i Hi) as D. rewrite E2, forallb_app in D. apply andb_prop in D as [D _]. exact D.
Qed.

(* injective under the guard *)
Lemma rename_injective left raw names f1 f2 : NoDup raw -> names_ok left raw raw names -> rename_guard left raw = true ->
  In f1 raw -> In f2 raw -> rename names f1 = rename names f2 -> f1 = f2.
Proof.
  intros ND OK G H1 H2 E.
  destruct (names_ok_assoc _ _ _ _ ND OK H1) as [u1 [A1 I1]]. destruct (names_ok_assoc _ _ _ _ ND OK H2) as [u2 [A2 I2]].
  unfold rename in E. rewrite A1, A2 in E. subst u2.
  destruct OK as [_ F]. rewrite Forall_forall in F. pose proof (F _ I1) as F1. pose proof (F _ I2) as F2. cbn in F1, F2.
  destruct F1 as [[L1 ->]|[L1 [NL1 [NR1 [i [Hi E1]]]]]], F2 as [[L2 E2]|[L2 [NL2 [NR2 [j [Hj E2]]]]]].
  - exact E2.
  - exfalso. apply (proj2 (str_mem_In _ _)) in H1. congruence.
  - exfalso. subst u1. apply (proj2 (str_mem_In _ _)) in H2. congruence.
  - destruct (list_eq_dec N.eq_dec f1 f2) as [|NE]; [assumption|]. exfalso.
    rewrite E1 in E2. destruct (digit_collision f1 f2 i j Hi Hj E2 NE) as [X|X].
    + unfold rename_guard in G. rewrite forallb_forall in G.
      assert (C1 : In f1 (filter (fun f => str_mem f left) raw)) by (apply filter_In; auto).
      assert (C2 : In f2 (filter (fun f => str_mem f left) raw)) by (apply filter_In; auto).
      specialize (G f1 C1). rewrite forallb_forall in G. specialize (G f2 C2). rewrite X in G. discriminate.
    + unfold rename_guard in G. rewrite forallb_forall in G.
      assert (C1 : In f1 (filter (fun f => str_mem f left) raw)) by (apply filter_In; auto).
      assert (C2 : In f2 (filter (fun f => str_mem f left) raw)) by (apply filter_In; auto).
      specialize (G f2 C2). rewrite forallb_forall in G. specialize (G f1 C1). rewrite X in G. discriminate.
Qed.

(* ---- merged rows *)
Section Merge.
  Variable g : str -> str.
  Definition merge_g (l r : row) : row := fold_left (fun acc kv => row_set (g (fst kv)) (snd kv) acc) r l.

  Lemma merge_untouched r acc k : (forall f, In f (map fst r) -> g f <> k) -> assoc k (merge_g acc r) = assoc k acc.
  Proof.
    unfold merge_g. revert acc. induction r as [|[f v] t IH]; intros acc H; cbn; [reflexivity|].
    rewrite IH by (intros f' Hf'; apply H; right; exact Hf'). apply row_set_other. intros X. apply (H f); [left; reflexivity|]. auto.
  Qed.

  Lemma merge_set r acc f v : NoDup (map g (map fst r)) -> In (f, v) r -> assoc (g f) (merge_g acc r) = Some v.
  Proof.
    unfold merge_g. revert acc. induction r as [|[f' v'] t IH]; intros acc ND H; cbn in *; [tauto|].
    inversion ND as [|? ? N1 ND']; subst. destruct H as [H|H].
    - injection H as -> ->. fold (merge_g (row_set (g f) v acc) t). rewrite merge_untouched; [apply row_set_same|].
      intros f2 H2 X. apply N1. rewrite <- X. apply in_map. exact H2.
    - apply IH; assumption.
  Qed.

  Lemma merge_keys r acc k : In k (map fst (merge_g acc r)) <-> In k (map fst acc) \/ In k (map g (map fst r)).
  Proof.
    unfold merge_g. revert acc. induction r as [|[f v] t IH]; intros acc; cbn; [tauto|].
    rewrite IH, row_set_keys. destruct (row_has (g f) acc) eqn:E.
    - apply row_has_In in E. split; [tauto|]. intros [H|[H|H]]; auto. subst. auto.
    - rewrite in_app_iff. cbn. tauto.
  Qed.

  Lemma merge_nodup r acc : NoDup (map fst acc) -> NoDup (map fst (merge_g acc r)).
  Proof.
    unfold merge_g. revert acc. induction r as [|[f v] t IH]; intros acc ND; cbn; [exact ND|]. apply IH. apply row_set_nodup. exact ND.
  Qed.
End Merge.

Lemma merge_row_is names l r : merge_row names l r = merge_g (rename names) l r.
Proof. reflexivity. Qed.

(* ---- the output *)
Lemma assoc_map_keys {B} (F : str -> B) ks k : assoc k (map (fun k' => (k', F k')) ks) = if str_mem k ks then Some (F k) else None.
Proof.
  induction ks as [|h t IH]; cbn; [reflexivity|]. destruct (str_eqb k h) eqn:E; cbn; [apply str_eqb_eq in E; subst; reflexivity|exact IH].
Qed.

Lemma bucket_find_groups {A} (keyf : A -> str) l k :
  bucket_find k (buckets keyf l) = match filter (in_class keyf k) l with [] => None | x => Some x end.
Proof.
  unfold bucket_find. rewrite buckets_are_groups. unfold groups. rewrite assoc_map_keys.
  destruct (str_mem k (dedup (map keyf l))) eqn:E.
  - apply (proj1 (str_mem_In _ _)) in E. apply (proj1 (dedup_In _ _)) in E. apply in_map_iff in E as [x [E1 E2]].
    destruct (filter (in_class keyf k) l) eqn:F; [|reflexivity].
    exfalso. assert (In x (filter (in_class keyf k) l)) by (apply filter_In; split; [exact E2|unfold in_class; rewrite E1; apply str_eqb_refl]).
    rewrite F in H. exact H.
  - destruct (filter (in_class keyf k) l) as [|x t] eqn:F; [reflexivity|]. exfalso.
    assert (Hx : In x (filter (in_class keyf k) l)) by (rewrite F; left; reflexivity). apply filter_In in Hx as [H1 H2].
    unfold in_class in H2. apply str_eqb_eq in H2.
    assert (In k (dedup (map keyf l))) by (apply dedup_In; rewrite <- H2; apply in_map; exact H1).
    apply (proj2 (str_mem_In _ _)) in H. congruence.
Qed.

Lemma join_spec lkey rkey flag left_data right_data :
  exists names, right_names left_data right_data = Some names /\
    names_ok (field_names left_data) (field_names right_data) (field_names right_data) names /\
    join_data lkey rkey flag left_data right_data =
    Some (flat_map (fun l => match filter (fun r => str_eqb (rkey r) (lkey l)) right_data with
                             | [] => if negb flag then [l] else []
                             | matches => map (merge_row names l) matches
                             end) left_data).
Proof.
  destruct (right_names_spec left_data right_data) as [names [H1 H2]]. exists names. split; [exact H1|]. split; [exact H2|].
  unfold join_data. rewrite H1. f_equal. apply flat_map_ext_in'. intros l _.
  rewrite bucket_find_groups. unfold in_class. destruct (filter _ right_data); reflexivity.
Qed.

(* ================================================================== 4. grouping keys *)
Lemma forallb_map' {X Y} (f : X -> Y) (p : Y -> bool) l : forallb p (map f l) = forallb (fun x => p (f x)) l.
Proof. induction l as [|a l IH]; cbn; [reflexivity|]. rewrite IH. reflexivity. Qed.
Import BS.Proofs.C14a BS.Proofs.C14b.

Section KeyFacts.
  Variable num_tok : num -> jnum.
  Variable date_txt : hdate -> str.
  Notation tj := (to_json num_tok date_txt).
  Notation vjson := (value_json num_tok date_txt).

  (* equal key text <-> equal canonical JSON value (C14: the encoder is injective on canonical values) *)
  Lemma key_iff v1 v2 : wf (tj v1) = true -> wf (tj v2) = true -> (vjson v1 = vjson v2 <-> canon (tj v1) = canon (tj v2)).
  Proof.
    intros W1 W2. unfold value_json. split.
    - apply BS.Proofs.C14.encode_injective; assumption.
    - intros E. rewrite !BS.Proofs.C14.encode_is_render_canon by assumption. rewrite E. reflexivity.
  Qed.

  (* F23: a datetime and the string of its ISO text have the SAME key, whatever the datetime *)
  Lemma key_datetime_collides_with_its_text d : vjson (CDate d) = vjson (CStr (date_txt d)).
  Proof. reflexivity. Qed.

  (* the kind of JSON value a scalar becomes: values of different kinds never share a key *)
  Inductive jkind := KNull | KBool | KNum | KStr | KArr | KObj.
  Definition jkind_of (v : jvalue) : jkind :=
    match v with JNull => KNull | JBool _ => KBool | JNum _ => KNum | JStr _ => KStr | JArr _ => KArr | JObj _ => KObj end.
  Lemma canon_kind v : jkind_of (canon v) = jkind_of v.
  Proof. destruct v; reflexivity. Qed.
  Lemma same_key_same_kind v1 v2 : wf (tj v1) = true -> wf (tj v2) = true -> vjson v1 = vjson v2 -> jkind_of (tj v1) = jkind_of (tj v2).
  Proof. intros W1 W2 E. apply key_iff in E; auto. rewrite <- (canon_kind (tj v1)), <- (canon_kind (tj v2)), E. reflexivity. Qed.

  (* null, booleans and strings: same key <-> the same value;  numbers: <-> the same token up to a dropped zero fraction *)
  Lemma key_null_bool_str v1 v2 : wf (tj v1) = true -> wf (tj v2) = true ->
    match v1, v2 with
    | CNull, CNull => vjson v1 = vjson v2
    | CBool a, CBool b => vjson v1 = vjson v2 <-> a = b
    | CStr a, CStr b => vjson v1 = vjson v2 <-> a = b
    | CNum a, CNum b => vjson v1 = vjson v2 <-> strip_num (num_tok a) = strip_num (num_tok b)
    | CDate a, CDate b => vjson v1 = vjson v2 <-> date_txt a = date_txt b
    | CDate a, CStr b => vjson v1 = vjson v2 <-> date_txt a = b
    | _, _ => True
    end.
  Proof.
    intros W1 W2. destruct v1, v2; try exact I; try reflexivity; rewrite (key_iff _ _ W1 W2); cbn; split; congruence.
  Qed.

  (* lists of category values: same key <-> pointwise the same canonical JSON value *)
  Lemma cat_key_iff cats r1 r2 :
    forallb (fun v => wf (tj v)) (cat_values cats r1) = true -> forallb (fun v => wf (tj v)) (cat_values cats r2) = true ->
    (cat_key num_tok date_txt (Some cats) r1 = cat_key num_tok date_txt (Some cats) r2 <->
     map (fun v => canon (tj v)) (cat_values cats r1) = map (fun v => canon (tj v)) (cat_values cats r2)).
  Proof.
    intros W1 W2. unfold cat_key. rewrite key_iff.
    - cbn. unfold canon. cbn. rewrite !map_map. split; [intros H; injection H as H; exact H|intros ->; reflexivity].
    - cbn. rewrite forallb_map'. exact W1.
    - cbn. rewrite forallb_map'. exact W2.
  Qed.
End KeyFacts.

(* ---- min / max of a class: Python's max/min over values of one kind are value_compare's (C11) *)
Definition one_kind (vs : list cv) : Prop :=
  Forall (fun v => exists n, v = CNum n /\ num_is_nan n = false) vs \/
  Forall (fun v => exists s, v = CStr s) vs \/
  Forall (fun v => exists us, v = CDate (HNaive us)) vs.

Lemma py_lt_compare tz a b : one_kind [a; b] -> py_lt a b = Some (match compare tz a b with Lt => true | _ => false end).
Proof.
  intros [H|[H|H]]; inversion H as [|? ? Ha H']; inversion H' as [|? ? Hb _]; subst.
  - destruct Ha as [x [-> Nx]], Hb as [y [-> Ny]]. cbn. rewrite Nx, Ny. cbn. unfold Compare.num_compare, sign3.
    destruct (num_ltb x y); [reflexivity|]. destruct (num_eqvb x y); reflexivity.
  - destruct Ha as [x ->], Hb as [y ->]. cbn. unfold sign3. destruct (str_compare x y) eqn:E; try reflexivity.
    + destruct (str_eqb x y); reflexivity.
    + destruct (str_eqb x y); reflexivity.
  - destruct Ha as [x ->], Hb as [y ->]. cbn. unfold sign3. destruct (x <? y); [reflexivity|]. destruct (x =? y); reflexivity.
Qed.

Lemma one_kind_ok vs : one_kind vs -> Forall BS.Proofs.C11.ok vs.
Proof.
  intros [H|[H|H]]; eapply Forall_impl; try exact H; cbn; unfold BS.Proofs.C11.ok.
  - intros v [n [-> N]]. cbn. rewrite N. reflexivity.
  - intros v [x ->]. reflexivity.
  - intros v [x ->]. reflexivity.
Qed.

Lemma one_kind_pair vs a b : one_kind vs -> In a vs -> In b vs -> one_kind [a; b].
Proof.
  intros [H|[H|H]] Ha Hb; rewrite Forall_forall in H; [left|right; left|right; right]; repeat constructor; auto.
Qed.

Lemma py_max_is_math_max tz v t : one_kind (v :: t) -> py_max_loop v t = Some (math_max tz (v :: t)).
Proof.
  intros K. cbn [math_max].
  assert (G : forall best, In best (v :: t) -> forall l, incl l (v :: t) -> py_max_loop best l = Some (max_loop tz best l)).
  { intros best Hb l. revert best Hb. induction l as [|x l IH]; intros best Hb Hl; cbn; [reflexivity|].
    assert (Hx : In x (v :: t)) by (apply Hl; left; reflexivity).
    rewrite (py_lt_compare tz best x (one_kind_pair _ _ _ K Hb Hx)).
    pose proof (one_kind_ok _ K) as OK. rewrite Forall_forall in OK.
    rewrite (BS.Proofs.C11.g_anti _ _ (BS.Proofs.C11.compare_glaws tz) best x (OK _ Hb) (OK _ Hx)).
    assert (Hl' : incl l (v :: t)) by (intros y Hy; apply Hl; right; exact Hy).
    destruct (compare tz best x); cbn; apply IH; auto. }
  apply G; [left; reflexivity|]. intros y Hy. right. exact Hy.
Qed.

Lemma py_min_is_math_min tz v t : one_kind (v :: t) -> py_min_loop v t = Some (math_min tz (v :: t)).
Proof.
  intros K. cbn [math_min].
  assert (G : forall best, In best (v :: t) -> forall l, incl l (v :: t) -> py_min_loop best l = Some (min_loop tz best l)).
  { intros best Hb l. revert best Hb. induction l as [|x l IH]; intros best Hb Hl; cbn; [reflexivity|].
    assert (Hx : In x (v :: t)) by (apply Hl; left; reflexivity).
    rewrite (py_lt_compare tz x best (one_kind_pair _ _ _ K Hx Hb)).
    assert (Hl' : incl l (v :: t)) by (intros y Hy; apply Hl; right; exact Hy).
    destruct (compare tz x best); cbn; apply IH; auto. }
  apply G; [left; reflexivity|]. intros y Hy. right. exact Hy.
Qed.

Lemma map_NoDup_in {X Y} (f : X -> Y) l : (forall a b, In a l -> In b l -> f a = f b -> a = b) -> NoDup l -> NoDup (map f l).
Proof.
  intros I ND. induction ND as [|x l N ND IH]; cbn; constructor.
  - intros H. apply in_map_iff in H as [y [E Hy]]. apply N. rewrite (I x y); auto; [left; reflexivity|right; exact Hy].
  - apply IH. intros a b Ha Hb. apply I; right; assumption.
Qed.
