(* Proofs/C13Ratio.v — the correctly rounded conversions of Model/Num.v depend on the VALUE only.

   Proofs/FloatRound.v characterises [ratio_to_sf neg a b] by [rounds_to a b m e] (canonical mantissa/exponent, within half
   an ulp, ties to even, a quarter of an ulp just below a power of two).  Here:
     * [rounds_to] determines (m, e) uniquely;
     * it is invariant under scaling numerator and denominator, hence [ratio_to_sf] gives the same float for equal fractions;
     * the sign only sets the sign bit;
     * [dec_to_sf neg m e] depends only on the rational m * 10^e  (the third hypothesis of Section CPython in Proofs/C13.v,
       now a theorem about the model's conversion);
     * a decimal within the rounding interval of a canonical binary64 (m, e) converts to it ([dec_to_sf_of_rounds]).
   Z only, no axioms. *)
From Coq Require Import ZArith Lia Bool ZifyBool SpecFloat.
From BS Require Import Model.Base Model.Num Proofs.FloatFacts Proofs.FloatRound.
Local Open Scope Z_scope.

Lemma odd_2p53m1 : Z.even (2 ^ 53 - 1) = false.
Proof. vm_compute. reflexivity. Qed.

(* ------------------------------------------------------------------ uniqueness *)
Lemma rounds_to_unique_le a b m e m' e' : 0 < a -> 0 < b -> rounds_to a b m e -> rounds_to a b m' e' -> e <= e' ->
  m = m' /\ e = e'.
Proof.
  intros Ha Hb (Hm & He & Hcan & Hbd & Htie & Hfine) (Hm' & He' & Hcan' & Hbd' & Htie' & Hfine') Le.
  set (A := a * 2 ^ 1074) in *.
  set (U := 2 ^ (e + 1074)) in *. assert (PU : 0 < U) by (apply pow2_pos; lia).
  set (K := U * b) in *. assert (PK : 0 < K) by (unfold K; nia).
  replace (m * U * b) with (m * K) in * by (unfold K; ring).
  set (U' := 2 ^ (e' + 1074)) in *. assert (PU' : 0 < U') by (apply pow2_pos; lia).
  set (K' := U' * b) in *. assert (PK' : 0 < K') by (unfold K'; nia).
  replace (m' * U' * b) with (m' * K') in * by (unfold K'; ring).
  destruct (Z.eq_dec e e') as [E|NE].
  - split; [|exact E].
    assert (EK : K' = K) by (unfold K', K, U', U; rewrite E; reflexivity).
    rewrite EK in *. clear EK.
    destruct (Z.lt_trichotomy m m') as [L|[Eq|G]]; [|exact Eq|]; exfalso.
    + assert ((m + 1) * K <= m' * K) by (apply Z.mul_le_mono_nonneg_r; lia).
      destruct (Z.eq_dec m' (m + 1)) as [S|NS].
      * subst m'. assert (T1 : Z.even m = true) by (apply Htie; lia).
        assert (T2 : Z.even (m + 1) = true) by (apply Htie'; lia).
        replace (m + 1) with (Z.succ m) in T2 by lia. rewrite Z.even_succ, <- Z.negb_even, T1 in T2. discriminate.
      * assert ((m + 2) * K <= m' * K) by (apply Z.mul_le_mono_nonneg_r; lia). lia.
    + assert ((m' + 1) * K <= m * K) by (apply Z.mul_le_mono_nonneg_r; lia).
      destruct (Z.eq_dec m (m' + 1)) as [S|NS].
      * subst m. assert (T1 : Z.even m' = true) by (apply Htie'; lia).
        assert (T2 : Z.even (m' + 1) = true) by (apply Htie; lia).
        replace (m' + 1) with (Z.succ m') in T2 by lia. rewrite Z.even_succ, <- Z.negb_even, T1 in T2. discriminate.
      * assert ((m' + 2) * K <= m * K) by (apply Z.mul_le_mono_nonneg_r; lia). lia.
  - exfalso. assert (Lt : e < e') by lia.
    assert (Hm52 : 2 ^ 52 <= m') by lia.
    assert (EU : U' = U * 2 ^ (e' - e)).
    { unfold U, U'. replace (e' + 1074) with ((e + 1074) + (e' - e)) by lia. rewrite pow2_split by lia. reflexivity. }
    set (P := 2 ^ (e' - e)) in *.
    assert (P2 : 2 <= P) by (unfold P; change 2 with (2 ^ 1) at 1; apply Z.pow_le_mono_r; lia).
    assert (EK : K' = P * K) by (unfold K', K; rewrite EU; ring).
    assert (HK2 : 2 * K <= K') by (rewrite EK; apply Z.mul_le_mono_nonneg_r; lia).
    assert (HmK : m * K <= (2 ^ 53 - 1) * K) by (apply Z.mul_le_mono_nonneg_r; lia).
    destruct (Z.eq_dec m' (2 ^ 52)) as [E52|N52].
    + specialize (Hfine' E52 ltac:(lia)). subst m'.
      destruct (Z.eq_dec P 2) as [EP|NP].
      * rewrite EP in EK.
        destruct (Z_le_gt_dec m (2 ^ 53 - 2)) as [Lm|Gm].
        -- assert (m * K <= (2 ^ 53 - 2) * K) by (apply Z.mul_le_mono_nonneg_r; lia). lia.
        -- assert (m = 2 ^ 53 - 1) by lia. subst m.
           assert (T : Z.even (2 ^ 53 - 1) = true) by (apply Htie; lia).
           rewrite odd_2p53m1 in T. discriminate.
      * assert (3 * K <= K') by (rewrite EK; apply Z.mul_le_mono_nonneg_r; lia). lia.
    + assert ((2 ^ 52 + 1) * K' <= m' * K') by (apply Z.mul_le_mono_nonneg_r; lia). lia.
Qed.

Theorem rounds_to_unique a b m e m' e' : 0 < a -> 0 < b -> rounds_to a b m e -> rounds_to a b m' e' -> m = m' /\ e = e'.
Proof.
  intros Ha Hb R R'. destruct (Z_le_gt_dec e e') as [L|G].
  - apply (rounds_to_unique_le a b); auto.
  - destruct (rounds_to_unique_le a b m' e' m e Ha Hb R' R ltac:(lia)) as [-> ->]. split; reflexivity.
Qed.

(* ------------------------------------------------------------------ scaling *)
Lemma rounds_to_scale a b c m e : 0 < c -> rounds_to (a * c) (b * c) m e -> rounds_to a b m e.
Proof.
  intros Hc (Hm & He & Hcan & Hbd & Htie & Hfine).
  set (U := 2 ^ (e + 1074)) in *.
  set (X := a * 2 ^ 1074 - m * U * b). set (Y := U * b).
  assert (EX : a * c * 2 ^ 1074 - m * U * (b * c) = X * c) by (unfold X; ring).
  assert (EY : U * (b * c) = Y * c) by (unfold Y; ring).
  rewrite EX, EY in *. rewrite Z.abs_mul, (Z.abs_eq c) in * by lia.
  assert (EM : m * U * (b * c) - a * c * 2 ^ 1074 = - X * c) by (unfold X; ring).
  rewrite EM in Hfine.
  unfold rounds_to. fold U. fold X. fold Y.
  split; [exact Hm|]. split; [exact He|]. split; [exact Hcan|]. split; [|split].
  - apply (Z.mul_le_mono_pos_r _ _ c Hc). lia.
  - intros Eq. apply Htie. rewrite <- Eq. ring.
  - intros M52 HE. specialize (Hfine M52 HE).
    replace (m * U * b - a * 2 ^ 1074) with (- X) by (unfold X; ring).
    apply (Z.mul_le_mono_pos_r _ _ c Hc). lia.
Qed.

Theorem ratio_to_sf_scale neg a b c : 0 < a -> 0 < b -> 0 < c -> ratio_to_sf neg (a * c) (b * c) = ratio_to_sf neg a b.
Proof.
  intros Ha Hb Hc.
  destruct (ratio_to_sf_spec neg (a * c) (b * c) ltac:(nia) ltac:(nia)) as (m & e & R & E).
  destruct (ratio_to_sf_spec neg a b Ha Hb) as (m' & e' & R' & E').
  apply rounds_to_scale in R; [|exact Hc].
  destruct (rounds_to_unique a b m e m' e' Ha Hb R R') as [-> ->]. rewrite E, E'. reflexivity.
Qed.

(* equal fractions, same float *)
Theorem ratio_to_sf_cross neg a b a' b' : 0 < a -> 0 < b -> 0 < a' -> 0 < b' -> a * b' = a' * b ->
  ratio_to_sf neg a b = ratio_to_sf neg a' b'.
Proof.
  intros Ha Hb Ha' Hb' Eq.
  rewrite <- (ratio_to_sf_scale neg a b b') by auto. rewrite <- (ratio_to_sf_scale neg a' b' b) by auto.
  rewrite Eq, (Z.mul_comm b b'). reflexivity.
Qed.

(* the sign is only the sign bit *)
Theorem ratio_to_sf_sign neg a b M E : 0 < a -> 0 < b ->
  ratio_to_sf false a b = S754_finite false M E -> ratio_to_sf neg a b = S754_finite neg M E.
Proof.
  intros Ha Hb H.
  destruct (ratio_to_sf_spec false a b Ha Hb) as (m & e & R & Ef).
  destruct (ratio_to_sf_spec neg a b Ha Hb) as (m' & e' & R' & En).
  destruct (rounds_to_unique a b m e m' e' Ha Hb R R') as [<- <-].
  rewrite En. rewrite Ef in H. unfold sf_of in *.
  destruct (m =? 0); [discriminate|]. destruct (e <=? 971); [|discriminate].
  injection H as <- <-. reflexivity.
Qed.

(* a fraction inside the rounding interval of a canonical (m, e) converts to it *)
Theorem ratio_to_sf_of_rounds neg a b m e : 0 < a -> 0 < b -> rounds_to a b (Zpos m) e -> e <= 971 ->
  ratio_to_sf neg a b = S754_finite neg m e.
Proof.
  intros Ha Hb R Le.
  destruct (ratio_to_sf_spec neg a b Ha Hb) as (m' & e' & R' & E).
  destruct (rounds_to_unique a b _ _ _ _ Ha Hb R R') as [<- <-].
  rewrite E. unfold sf_of. change (Zpos m =? 0) with false. cbv iota.
  destruct (Z.leb_spec e 971); [|lia]. reflexivity.
Qed.

(* ------------------------------------------------------------------ dec_to_sf depends on m * 10^e only *)
Lemma pow10_pos k : 0 <= k -> 0 < 10 ^ k.
Proof. intros. apply Z.pow_pos_nonneg; lia. Qed.

Lemma dec_to_sf_zero neg e : dec_to_sf neg 0 e = S754_zero neg.
Proof. unfold dec_to_sf, ratio_to_sf. destruct (0 <=? e); reflexivity. Qed.

Lemma dec_to_sf_frac neg m e j : 0 < m -> 0 <= j -> 0 <= e + j ->
  dec_to_sf neg m e = ratio_to_sf neg (m * 10 ^ (e + j)) (10 ^ j).
Proof.
  intros Hm Hj Hej. unfold dec_to_sf.
  assert (Pj : 0 < 10 ^ j) by (apply pow10_pos; lia).
  assert (Pej : 0 < 10 ^ (e + j)) by (apply pow10_pos; lia).
  destruct (Z.leb_spec 0 e) as [L|G].
  - assert (Pe : 0 < 10 ^ e) by (apply pow10_pos; lia).
    apply ratio_to_sf_cross; try nia. rewrite Z.pow_add_r by lia. ring.
  - assert (Pe : 0 < 10 ^ (- e)) by (apply pow10_pos; lia).
    apply ratio_to_sf_cross; try nia.
    replace j with ((e + j) + (- e)) at 1 by lia. rewrite Z.pow_add_r by lia. ring.
Qed.

Theorem dec_to_sf_by_value neg m e m' e' j : 0 <= m -> 0 <= m' -> 0 <= j -> 0 <= e + j -> 0 <= e' + j ->
  m * 10 ^ (e + j) = m' * 10 ^ (e' + j) -> dec_to_sf neg m e = dec_to_sf neg m' e'.
Proof.
  intros Hm Hm' Hj He He' Eq.
  assert (P : 0 < 10 ^ (e + j)) by (apply pow10_pos; lia).
  assert (P' : 0 < 10 ^ (e' + j)) by (apply pow10_pos; lia).
  destruct (Z.eq_dec m 0) as [Z|NZ].
  - subst m. assert (m' = 0) by nia. subst m'. rewrite !dec_to_sf_zero. reflexivity.
  - assert (m' <> 0) by nia.
    rewrite (dec_to_sf_frac neg m e j), (dec_to_sf_frac neg m' e' j) by lia. rewrite Eq. reflexivity.
Qed.

(* the form used by Section CPython of Proofs/C13.v *)
Theorem dec_to_sf_shift neg m e k : 0 <= m -> 0 <= k -> dec_to_sf neg (m * 10 ^ k) (e - k) = dec_to_sf neg m e.
Proof.
  intros Hm Hk. assert (P : 0 < 10 ^ k) by (apply pow10_pos; lia).
  apply (dec_to_sf_by_value neg _ _ _ _ (Z.abs e + k)); try lia; try nia.
  replace (e + (Z.abs e + k)) with ((e - k + (Z.abs e + k)) + k) by lia.
  rewrite (Z.pow_add_r 10 (e - k + (Z.abs e + k)) k) by lia. ring.
Qed.

Theorem dec_to_sf_sign neg m e M E : 0 <= m ->
  dec_to_sf false m e = S754_finite false M E -> dec_to_sf neg m e = S754_finite neg M E.
Proof.
  intros Hm. destruct (Z.eq_dec m 0) as [Z|NZ]; [subst m; rewrite dec_to_sf_zero; discriminate|].
  unfold dec_to_sf. destruct (Z.leb_spec 0 e) as [L|G].
  - assert (0 < 10 ^ e) by (apply pow10_pos; lia). apply ratio_to_sf_sign; nia.
  - assert (0 < 10 ^ (- e)) by (apply pow10_pos; lia). apply ratio_to_sf_sign; lia.
Qed.
