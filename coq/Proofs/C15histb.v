(* Proofs/C15histb.v — C15 history, part 2: step lemmas for arraySlice and the object functions. *)
From Coq Require Import Lia ZifyBool SpecFloat.
From BS Require Import Model.Base Model.Num Model.LibVal Gen.ArgSpecs Model.LibSeq Proofs.BaseFacts Proofs.C15 Proofs.C15spec
  Proofs.C15hist.
Local Open Scope Z_scope.

(* ---- arraySlice *)
Lemma arg_index_zero : arg_index (vint 0) = Some 0.
Proof. reflexivity. Qed.

Lemma slice_core : forall h l n1 zs ve oe, integral n1 zs -> 0 <= zs ->
  match oe with None => ve = VNull | Some ze => exists n2, ve = VNum n2 /\ integral n2 ze /\ 0 <= ze end ->
  abs_call (k_arraySlice h [AV (VArr l); AV (VNum n1); AV ve]) =
  with_seq (abs h) l (fun xs =>
    let ze := match oe with Some z => z | None => len xs end in
    if (len xs <? zs) || (len xs <? ze) then fail (abs h)
    else alloc_ret (abs h) (ASeq (skipn (Z.to_nat zs) (firstn (Z.to_nat ze) xs)))).
Proof.
  intros h l n1 zs ve oe H1 Hs Hoe. unfold k_arraySlice. rewrite with_seq_abs.
  destruct (hget h l) as [[xs|kv]|]; try reflexivity.
  assert (exists n2 ze, (match ve with VNull => vint (len xs) | _ => ve end) = VNum n2 /\ integral n2 ze /\ 0 <= ze
                        /\ ze = match oe with Some z => z | None => len xs end) as (n2 & ze & -> & H2 & He & Eze).
  { destruct oe as [ze|].
    - destruct Hoe as (n2 & -> & H2 & He). exists n2, ze. auto.
    - subst ve. exists (NInt (len xs)), (len xs). repeat split; try apply integral_int. unfold len. lia. }
  cbv zeta. rewrite <- Eze. clear Eze Hoe oe. cbn [as_num].
  rewrite (num_gt_integral _ _ _ H1), (num_gt_integral _ _ _ H2).
  destruct (len xs <? zs) eqn:E1; [reflexivity|]. destruct (len xs <? ze) eqn:E2; [reflexivity|].
  destruct H1 as [-> _]. destruct H2 as [-> _]. unfold py_slice, halloc, len in *. rewrite !py_bound_in_range by lia.
  cbn [orb]. fin.
Qed.

Lemma step_arraySlice : refines (U "arraySlice") sp_arraySlice.
Proof.
  intros args h. destruct args as [|a1 [|a2 [|a3 [|a4 rest]]]].
  - lib_open (U "arraySlice") k_arraySlice. reflexivity.
  - bad_first (U "arraySlice") k_arraySlice a1.
    lib_open (U "arraySlice") k_arraySlice. unfold sp_arraySlice. rewrite arg_index_zero.
    apply (slice_core h l (NInt 0) 0 VNull None); [apply integral_int | lia | reflexivity].
  - bad_first (U "arraySlice") k_arraySlice a1. bad_first (U "arraySlice") k_arraySlice a2.
    lib_open (U "arraySlice") k_arraySlice. unfold sp_arraySlice. num_cases; try reflexivity.
    validate_step. apply (slice_core h l n z VNull None); auto.
  - bad_first (U "arraySlice") k_arraySlice a1. bad_first (U "arraySlice") k_arraySlice a2.
    lib_open (U "arraySlice") k_arraySlice. unfold sp_arraySlice. num_cases; try reflexivity.
    validate_step. destruct a3; validate_step; try reflexivity.
    + apply (slice_core h l n z VNull None); auto.
    + cbn [option_map]. num_cases; try reflexivity. validate_step. cbn [option_map].
      apply (slice_core h l n z (VNum n0) (Some z0)); eauto.
  - bad_first (U "arraySlice") k_arraySlice a1. destruct a2; lib_open (U "arraySlice") k_arraySlice; crunch.
    all: destruct a3; crunch.
Qed.

(* ---- arrayNewSize *)
Lemma newsize_core : forall h n z v, integral n z ->
  abs_call (k_arrayNewSize h [AV (VNum n); AV v]) = alloc_ret (abs h) (ASeq (repeat v (Z.to_nat z))).
Proof. intros h n z v H. unfold k_arrayNewSize. cbn [as_num]. destruct H as [-> _]. fin. Qed.

Lemma step_arrayNewSize : refines (U "arrayNewSize") sp_arrayNewSize.
Proof.
  intros args h. destruct args as [|a1 [|a2 [|a3 rest]]].
  - lib_open (U "arrayNewSize") k_arrayNewSize. unfold sp_arrayNewSize. rewrite arg_index_zero.
    apply (newsize_core h (NInt 0) 0). apply integral_int.
  - bad_first (U "arrayNewSize") k_arrayNewSize a1.
    lib_open (U "arrayNewSize") k_arrayNewSize. unfold sp_arrayNewSize. num_cases; try reflexivity.
    validate_step. apply newsize_core; auto.
  - bad_first (U "arrayNewSize") k_arrayNewSize a1.
    lib_open (U "arrayNewSize") k_arrayNewSize. unfold sp_arrayNewSize. num_cases; try reflexivity.
    validate_step. apply newsize_core; auto.
  - destruct a1; lib_open (U "arrayNewSize") k_arrayNewSize; crunch.
Qed.
