(* Proofs/C15spec3.v — C15 (definitions only): a CHECKABLE sufficient condition for "no call of the run answers LFuel":
   every search call runs on a well-formed heap that is acyclic (checked with a computed rank) with well-formed arguments. *)
From BS Require Import Model.Base Model.Num Model.LibVal Gen.ArgSpecs Model.LibSeq Proofs.C15spec Proofs.C15spec2.

(* nesting depth of a value, explored with a fuel (a candidate rank: exact on acyclic heaps when the fuel is the number of cells) *)
Fixpoint depth (h : heap) (fuel : nat) (v : value) : nat :=
  match fuel with
  | O => O
  | S f =>
    match v with
    | VArr l => match hget h l with
                | Some (CArr xs) => S (fold_right (fun x a => Nat.max (depth h f x) a) O xs)
                | _ => O end
    | VObj l => match hget h l with
                | Some (CObj kv) => S (fold_right (fun p a => Nat.max (depth h f (snd p)) a) O kv)
                | _ => O end
    | _ => O
    end
  end.
Definition cell_ref (l : loc) (c : cell) : value := match c with CArr _ => VArr l | CObj _ => VObj l end.
Definition numbered (h : heap) : list (loc * cell) := combine (seq 0 (length h)) h.
Definition rank_list (h : heap) : list nat := map (fun p => depth h (length h) (cell_ref (fst p) (snd p))) (numbered h).
(* the rank (position l -> nth l rk 0) strictly decreases along every stored reference *)
Definition rank_ok (h : heap) (rk : list nat) : bool :=
  forallb (fun p => forallb (fun x => match vloc x with
                                      | Some l' => Nat.ltb (nth l' rk O) (nth (fst p) rk O)
                                      | None => true end) (cell_values (snd p))) (numbered h).
Definition acyclic_b (h : heap) : bool := rank_ok h (rank_list h).

Definition op_fuel_safe (st : option (env * heap)) (o : op) : bool :=
  match st, o with
  | Some (e, h), OCall f l =>
      if is_search f then
        match eval_args e l with
        | Some vs => heap_ok h && acyclic_b h && forallb (val_ok h) vs
        | None => true
        end
      else true
  | _, _ => true
  end.
Fixpoint fuel_safe (ops : list op) (st : option (env * heap)) : bool :=
  match ops with [] => true | o :: t => op_fuel_safe st o && fuel_safe t (run_op st o) end.

(* ---- well-formed histories over OPS_X: as wf_op / wf_hist, and the needle of a search is not a function (callback form) *)
Definition needle_ok (vs : list value) : bool := match vs with _ :: VFun _ :: _ => false | _ => true end.
Definition wf_op_x (st : env * heap) (o : op) : bool :=
  match o with
  | OCall f l =>
      if is_search f then forallb (wf_arg st) l && match eval_args (fst st) l with Some vs => needle_ok vs | None => true end
      else in_OPS_s f && forallb (wf_arg st) l
  | OAlias n => Nat.ltb n (length (fst st))
  | OLit v => val_ok (snd st) v
  end.
Fixpoint wf_hist_x (ops : list op) (st : env * heap) : bool :=
  match ops with
  | [] => true
  | o :: t => wf_op_x st o && match run_op (Some st) o with Some st' => wf_hist_x t st' | None => true end
  end.
