(* Proofs/C12siml.v — property C12: argument validation over the generated table, and the whole call `lib`,
   preserve "equal up to the spelling of integral numbers". *)
From Coq Require Import Lia ZifyBool SpecFloat.
From BS Require Import Model.Base Model.Num Model.LibVal Gen.ArgSpecs Model.LibSeq Proofs.BaseFacts Proofs.C15 Proofs.C12
  Proofs.C12sim Proofs.C12simk.
Local Open Scope Z_scope.

Lemma vcons_sim : forall x x' r r', vasim x x' -> vrsim r r' -> vrsim (vcons x r) (vcons x' r').
Proof.
  intros x x' r r' X [l l' L|[l| | |]]; simpl; try apply vr_same; apply vr_ok; constructor; auto.
  apply F2_refl. intros [v|vs]; constructor; [apply vs_same | apply vssim_refl].
Qed.

Lemma args_validate_sim : forall h h' specs, hsim h h' -> Forall (fun sp => int_bounds sp = true) specs ->
  forall args args', Forall2 vsim args args' -> vrsim (args_validate h specs args) (args_validate h' specs args').
Proof.
  intros h h' specs Hh IB. induction IB as [|sp specs B IB IH]; intros args args' HA.
  - destruct HA; simpl; apply vr_same.
  - pose proof (IH [] [] (Forall2_nil _)) as IH0.
    destruct HA as [|a a' t t' A HA]; cbn [args_validate].
    + destruct (as_last sp); [apply vcons_sim; auto; constructor; constructor|].
      destruct (as_default sp); [apply vcons_sim; auto; constructor; apply vs_same|].
      destruct (as_type sp) as [[]|]; try (destruct (as_nullable sp); [|apply vr_same]);
        apply vcons_sim; auto; constructor; apply vs_same.
    + specialize (IH t t' HA).
      destruct (as_last sp); [apply vcons_sim; auto; constructor; constructor; auto|].
      destruct (as_type sp) as [ty|]; [|apply vcons_sim; auto; constructor; auto].
      assert (BOOL : ty = TBoolean -> vrsim
        (match value_boolean h a with Some b => vcons (AV (VBool b)) (args_validate h specs t) | None => VStuck end)
        (match value_boolean h' a' with Some b => vcons (AV (VBool b)) (args_validate h' specs t') | None => VStuck end)).
      { intros _. rewrite (value_boolean_sim h h' a a' Hh A). destruct (value_boolean h' a'); [|apply vr_same].
        apply vcons_sim; auto. constructor. apply vs_same. }
      destruct (vsim_inv _ _ A) as [(n1 & n2 & -> & -> & N)| ->].
      * destruct ty; auto; cbn [type_ok negb as_num]; try apply vr_same.
        rewrite (number_fails_sim sp n1 n2 B N). destruct (number_fails sp n2) as [[]|]; try apply vr_same.
        apply vcons_sim; auto. constructor. apply vs_num, N.
      * destruct ty; auto;
          (destruct a; cbn [type_ok negb as_num]; try apply vr_same;
           try (destruct (as_nullable sp); [|apply vr_same]);
           try (destruct (number_fails sp n) as [[]|]; try apply vr_same);
           apply vcons_sim; auto; constructor; apply vs_same).
Qed.

Lemma fail_value_sim : forall fv args args', Forall2 vsim args args' -> vsim (fail_value fv args) (fail_value fv args').
Proof.
  intros [|l|k] args args' H; simpl; try apply vs_same.
  pose proof (F2_nth_error _ _ _ k H) as N. destruct (nth_error args k), (nth_error args' k); simpl in N; try contradiction; auto.
  apply vs_same.
Qed.

Lemma assoc_spec_in : forall f l v, assoc_spec f l = Some v -> exists k, In (k, v) l.
Proof.
  intros f l v. induction l as [|[k w] t IH]; simpl; [discriminate|].
  destruct (str_eqb f k); intros H; [injection H as ->; eauto | destruct (IH H) as [k' I]; eauto].
Qed.
Lemma table_specs_int_bounds : forall f specs fv, assoc_spec f gen_arg_specs = Some (specs, fv) ->
  Forall (fun sp => int_bounds sp = true) specs.
Proof.
  intros f specs fv H. destruct (assoc_spec_in _ _ _ H) as [k I].
  pose proof (proj1 (forallb_forall _ _) table_bounds_are_integers _ I) as B. simpl in B.
  apply Forall_forall. apply (proj1 (forallb_forall _ _) B).
Qed.

Lemma assoc_Forall : forall {A} (P : A -> Prop) f (l : list (str * A)) v,
  Forall (fun p => P (snd p)) l -> assoc f l = Some v -> P v.
Proof.
  intros A P f l v H. induction H as [|[k w] t Pw H IH]; simpl; [discriminate|].
  destruct (str_eqb f k); intros E; [injection E as <-; exact Pw | auto].
Qed.

(* THE SIMULATION, for every function name: arguments and heaps equal up to spelling give results (or the same kind of
   failure) and heaps equal up to spelling.  (For a name outside the model both sides are LOutOfModel.) *)
Theorem lib_sim : forall f args args' h h', Forall2 vsim args args' -> hsim h h' -> osim (lib f args h) (lib f args' h').
Proof.
  intros f args args' h h' HA Hh. unfold lib.
  destruct (assoc f raw_table) as [g|] eqn:R.
  - exact (assoc_Forall rawsim f raw_table g raw_table_sim R h h' args args' Hh HA).
  - destruct (assoc f lib_table) as [k|] eqn:K; [|apply osim_mk; [apply rs_same | exact Hh]].
    pose proof (assoc_Forall ksim f lib_table k lib_table_sim K) as KS.
    unfold validated. destruct (assoc_spec f gen_arg_specs) as [[specs fv]|] eqn:S; [|apply osim_mk; [apply rs_same | exact Hh]].
    pose proof (args_validate_sim h h' specs Hh (table_specs_int_bounds f specs fv S) args args' HA) as V.
    destruct V as [l l' L|r].
    + apply KS; assumption.
    + destruct r; try (apply osim_mk; [apply rs_same | exact Hh]).
      * apply KS; auto. apply F2_refl. intros [v|vs0]; constructor; [apply vs_same | apply vssim_refl].
      * apply osim_mk; [apply rs_err, fail_value_sim, HA | exact Hh].
Qed.

(* respelling is harmless in the strongest sense when nothing is respelt: the relation is reflexive ... *)
Lemma rsim_refl : forall r, rsim r r. Proof. exact rs_same. Qed.
(* ... and it is an equivalence on values, so chains of calls compose *)
Lemma F2_sym : forall {A} (R : A -> A -> Prop), (forall x y, R x y -> R y x) -> forall l l', Forall2 R l l' -> Forall2 R l' l.
Proof. intros A R S l l' H. induction H; constructor; auto. Qed.
Lemma F2_trans : forall {A} (R : A -> A -> Prop), (forall x y z, R x y -> R y z -> R x z) ->
  forall l1 l2 l3, Forall2 R l1 l2 -> Forall2 R l2 l3 -> Forall2 R l1 l3.
Proof. intros A R T l1 l2 l3 H. revert l3. induction H; intros l3 G; inversion G; subst; constructor; eauto. Qed.
Lemma psim_sym : forall p q, psim p q -> psim q p.
Proof. intros p q [E V]. split; [auto | apply vsim_sym, V]. Qed.
Lemma csim_sym : forall c c', csim c c' -> csim c' c.
Proof. intros c c' [xs ys H|kv kv' H]; constructor; [apply (F2_sym vsim vsim_sym), H | apply (F2_sym psim psim_sym), H]. Qed.
Lemma hsim_sym : forall h h', hsim h h' -> hsim h' h.
Proof. apply (F2_sym csim csim_sym). Qed.
Lemma psim_trans : forall p q r, psim p q -> psim q r -> psim p r.
Proof. intros p q r [E V] [E' V']. split; [congruence | eapply vsim_trans; eauto]. Qed.
Lemma csim_trans : forall a b c, csim a b -> csim b c -> csim a c.
Proof.
  intros a b c H G. inversion H; subst; inversion G; subst; constructor.
  - eapply (F2_trans vsim vsim_trans); eauto.
  - eapply (F2_trans psim psim_trans); eauto.
Qed.
Lemma hsim_trans : forall a b c, hsim a b -> hsim b c -> hsim a c.
Proof. apply (F2_trans csim csim_trans). Qed.

(* ---- histories: a whole straight-line script of calls, run from environments / heaps equal up to spelling *)
Lemma wrapper_sim : forall r r', rsim r r' -> orel vsim (wrapper r) (wrapper r').
Proof. intros r r' [v v' V|v v' V|[]]; simpl; auto using vs_same. Qed.
Definition stsim (a b : option (env * heap)) : Prop :=
  orel (fun p q => Forall2 vsim (fst p) (fst q) /\ hsim (snd p) (snd q)) a b.
Inductive argsim : arg -> arg -> Prop :=
| as_var : forall n, argsim (AVar n) (AVar n)
| as_lit : forall v v', vsim v v' -> argsim (ALit v) (ALit v').
Inductive opsim : op -> op -> Prop :=
| os_call : forall f l l', Forall2 argsim l l' -> opsim (OCall f l) (OCall f l')
| os_alias : forall n, opsim (OAlias n) (OAlias n)
| os_lit : forall v v', vsim v v' -> opsim (OLit v) (OLit v').
Lemma eval_args_sim : forall e e' l l', Forall2 vsim e e' -> Forall2 argsim l l' ->
  orel (Forall2 vsim) (eval_args e l) (eval_args e' l').
Proof.
  intros e e' l l' E L. induction L as [|a a' l l' A L IH]; simpl; auto.
  assert (X : orel vsim (eval_arg e a) (eval_arg e' a')).
  { destruct A; simpl; auto. apply F2_nth_error, E. }
  destruct (eval_arg e a), (eval_arg e' a'); simpl in X; try contradiction; auto.
  destruct (eval_args e l), (eval_args e' l'); simpl in IH; try contradiction; simpl; auto.
Qed.
Lemma run_op_sim : forall st st' o o', stsim st st' -> opsim o o' -> stsim (run_op st o) (run_op st' o').
Proof.
  intros [[e h]|] [[e' h']|] o o' S O; simpl in S; try contradiction; [|exact I]. destruct S as [E H]. simpl in E, H.
  destruct O as [f l l' L|n|v v' V]; simpl.
  - pose proof (eval_args_sim e e' l l' E L) as X.
    destruct (eval_args e l) as [vs|], (eval_args e' l') as [vs'|]; simpl in X; try contradiction; [|exact I].
    pose proof (lib_sim f vs vs' h h' X H) as [R Hh].
    destruct (lib f vs h) as [r h1], (lib f vs' h') as [r' h1']. simpl in R, Hh.
    pose proof (wrapper_sim r r' R) as W. destruct (wrapper r), (wrapper r'); simpl in W; try contradiction; [|exact I].
    simpl. split; auto. apply Forall2_app; auto.
  - pose proof (F2_nth_error _ _ _ n E) as X. destruct (nth_error e n), (nth_error e' n); simpl in X; try contradiction; [|exact I].
    simpl. split; auto. apply Forall2_app; auto.
  - split; auto. simpl. apply Forall2_app; auto.
Qed.
Theorem run_ops_sim : forall ops ops' e e' h h', Forall2 opsim ops ops' -> Forall2 vsim e e' -> hsim h h' ->
  stsim (run_ops ops (e, h)) (run_ops ops' (e', h')).
Proof.
  unfold run_ops. intros ops ops' e e' h h' O E H.
  assert (G : forall st st', stsim st st' -> stsim (fold_left run_op ops st) (fold_left run_op ops' st')).
  { induction O as [|o o' t t' X O IH]; intros st st' S; cbn [fold_left]; auto.
    apply IH. apply run_op_sim; assumption. }
  apply G. split; assumption.
Qed.
