(* Proofs/C10stmtGaps8.v — INNER gaps, continued: function begin.

     classify n ([w0 async] w1 function w2 name w3 ( w4 [a1 (u , v a_i)*] [w5 ...] w6 ) w7 : w8)
       = ROk (KFnBegin name <the split of the argument text, or ROk None> <async?> <...?>)

   for ALL white runs (w2 non-empty), identifiers name a1 a_i.  The two optional groups are read by RegexEval.ev_opt, the
   star over the group `(?:\s*,\s*ID)*` by induction on the list of further arguments (each iteration succeeds, after the
   last one the body fails on `.` or `)`), and every greedy run by star_bt_longest. *)
From Coq Require Import Lia.
From BS Require Import Model.Base Model.Regex Model.Num Model.NumText Model.ExprParser Model.Script Model.Lower Gen.Unicode Gen.Regexes
  Proofs.RegexFacts Proofs.RegexComplete Proofs.RegexShift Proofs.RegexEval Proofs.C02rx Proofs.C10ws Proofs.C10wsExpr
  Proofs.C10wsFull Proofs.C10wsIndent Proofs.C10wsIndent2 Proofs.C10tokSpaced Proofs.RegexTrail Proofs.C10tokTrail Proofs.RegexTrail2
  Proofs.RegexTrail3 Proofs.C10stmtTrail Proofs.C10parseNoeq Proofs.C10classifyTrail Proofs.C10stmtGaps Proofs.C10stmtGaps2
  Proofs.C10stmtGaps3 Proofs.C10stmtGaps4 Proofs.C10stmtGaps5.

Definition IDS : regex := RIn false [CRange 65 90; CRange 97 122; CLit 95].
Definition IDW : regex := RRep 0 None (RIn false [CCat CatWord]).
Definition FB_B : regex := RCat rsp (RCat (RLit 44) (RCat rsp (RCat IDS IDW))).
Definition FB_ARGS : regex := RRep 0 (Some 1) (RGroup 3 (RCat IDS (RCat IDW (RRep 0 None FB_B)))).
Definition FB_DOTS : regex := RRep 0 (Some 1) (RGroup 4 (RCat rsp (RCat (RLit 46) (RCat (RLit 46) (RLit 46))))).
Definition FB_CLOSE : regex := RCat rsp (RCat (RLit 41) TAILC).
Definition FB_AFTER : regex := RCat rsp (RCat (RLit 40) (RCat rsp (RCat FB_ARGS (RCat FB_DOTS FB_CLOSE)))).
Definition KW_FUNCTION : str := [102; 117; 110; 99; 116; 105; 111; 110]%N.
Definition KW_ASYNC : str := [97; 115; 121; 110; 99]%N.
Definition FB_MAIN : regex := RCat rsp (lits KW_FUNCTION (RCat plus_sp (RCat (IDG 2) FB_AFTER))).
Definition FB_ASYNC : regex := RRep 0 (Some 1) (RGroup 1 (RCat rsp (lits [97; 115; 121; 110]%N (RLit 99)))).
Lemma shape_fn_begin : R_SCRIPT_FUNCTION_BEGIN = RCat RBol (RCat FB_ASYNC FB_MAIN). Proof. reflexivity. Qed.

Lemma sp46 : is_space UC 46 = false. Proof. vm_compute. reflexivity. Qed.
Lemma sp97 : is_space UC 97 = false. Proof. vm_compute. reflexivity. Qed.
Lemma word46 : is_word_u 46 = false. Proof. vm_compute. reflexivity. Qed.

(* a greedy run in front of a literal *)
Lemma rsp_lit_read x w r X p c k : is_space UC x = false -> white w ->
  ev UC (RCat rsp (RCat (RLit x) X)) p (w ++ x :: r) c k = ev UC X (S (p + length w)) r c k.
Proof.
  intros SX W. rewrite ev_cat. unfold rsp. rewrite (ev_star UC _ _ (one_in UC false _)). fold cmWs.
  rewrite star_bt_longest.
  - rewrite span_cmWs, (span_sp_stop w x r W SX). cbn [fst snd]. rewrite ev_cat, (ev_one UC _ _ (one_lit UC _)), N.eqb_refl. reflexivity.
  - right. intros q z t c' Sz. rewrite cmWs_is in Sz. rewrite ev_cat, (ev_one UC _ _ (one_lit UC _)).
    destruct (z =? x)%N eqn:E; [|reflexivity]. apply N.eqb_eq in E. subst z. unfold is_sp in Sz. rewrite SX in Sz. discriminate.
Qed.

Lemma rsp_lit_fail x w y r X p c k : is_space UC x = false -> white w -> is_sp y = false -> y <> x ->
  ev UC (RCat rsp (RCat (RLit x) X)) p (w ++ y :: r) c k = MNo.
Proof.
  intros SX W SY NE. rewrite ev_cat. unfold rsp. rewrite (ev_star UC _ _ (one_in UC false _)). fold cmWs.
  rewrite star_bt_longest.
  - rewrite span_cmWs, (span_sp_stop w y r W SY). cbn [fst snd]. rewrite ev_cat, (ev_one UC _ _ (one_lit UC _)).
    destruct (y =? x)%N eqn:E; [apply N.eqb_eq in E; congruence | reflexivity].
  - right. intros q z t c' Sz. rewrite cmWs_is in Sz. rewrite ev_cat, (ev_one UC _ _ (one_lit UC _)).
    destruct (z =? x)%N eqn:E; [|reflexivity]. apply N.eqb_eq in E. subst z. unfold is_sp in Sz. rewrite SX in Sz. discriminate.
Qed.

(* ---------- \s*\)\s*:\s*$ ---------- *)
Section Close.
Variables (w6 w7 w8 : str).
Hypothesis W6 : white w6.
Hypothesis W7 : white w7.
Hypothesis W8 : white w8.
Definition CL : str := w6 ++ 41%N :: w7 ++ 58%N :: w8.
Definition E (p : nat) : nat := p + length w6 + 1 + length w7 + 1 + length w8.

Lemma FB_CLOSE_read p c : ev UC FB_CLOSE p CL c kfin = MYes (E p) c.
Proof.
  unfold FB_CLOSE, CL. rewrite (rsp_lit_read 41 w6 _ _ p c kfin sp41 W6). unfold TAILC.
  rewrite (rsp_lit_read 58 w7 _ _ _ c kfin sp58 W7). rewrite ev_eol_tail, (white_forallb_sp w8 W8). unfold E. f_equal. lia.
Qed.

(* ---------- (\s*\.\.\.)? ---------- *)
Definition dtext (dots : option str) : str := match dots with Some w5 => w5 ++ [46; 46; 46]%N | None => [] end.
Definition dcap (dots : option str) (p : nat) (c : caps) : caps :=
  match dots with Some w5 => cap_set 4 (p, p + length w5 + 3) c | None => c end.
Definition dwhite (dots : option str) : Prop := match dots with Some w5 => white w5 | None => True end.

Lemma FB_DOTS_read dots p c : dwhite dots ->
  ev UC (RCat FB_DOTS FB_CLOSE) p (dtext dots ++ CL) c kfin = MYes (E (p + length (dtext dots))) (dcap dots p c).
Proof.
  intros DW. rewrite ev_cat. unfold FB_DOTS. rewrite ev_opt, ev_group. destruct dots as [w5|]; cbn [dtext dcap dwhite] in *.
  - rewrite <- app_assoc. cbn [app]. rewrite (rsp_lit_read 46 w5 _ _ p c _ sp46 DW).
    rewrite ev_cat, (ev_one UC _ _ (one_lit UC _)), N.eqb_refl. rewrite (ev_one UC _ _ (one_lit UC _)), N.eqb_refl.
    assert (NE : Nat.eqb (S (S (S (p + length w5)))) p = false) by (apply Nat.eqb_neq; lia). rewrite NE.
    rewrite FB_CLOSE_read. rewrite app_length. cbn [length].
    replace (S (S (S (p + length w5)))) with (p + (length w5 + 3)) by lia.
    replace (p + (length w5 + 3)) with (p + length w5 + 3) at 2 by lia. reflexivity.
  - cbn [app length]. rewrite Nat.add_0_r. unfold CL at 1.
    rewrite (rsp_lit_fail 46 w6 41 _ _ p c _ sp46 W6 sp41 ltac:(discriminate)). apply FB_CLOSE_read.
Qed.

(* ---------- the argument list ---------- *)
Definition arg3 := (str * str * str)%type.
Definition atext1 (x : arg3) : str := let '(u, v, a) := x in u ++ 44%N :: v ++ a.
Definition aok1 (x : arg3) : Prop := let '(u, v, a) := x in white u /\ white v /\ ident a = true.
Fixpoint mtext (more : list arg3) : str := match more with [] => [] | x :: t => atext1 x ++ mtext t end.
Fixpoint mok (more : list arg3) : Prop := match more with [] => True | x :: t => aok1 x /\ mok t end.

(* what follows the argument list: a dot or a closing parenthesis after a white run *)
Definition after_args (r : str) : Prop := exists w y t, r = w ++ y :: t /\ white w /\ is_sp y = false /\ y <> 44%N /\ is_word_u y = false.

Lemma FB_B_fail r p c k : after_args r -> ev UC FB_B p r c k = MNo.
Proof. intros (w & y & t & -> & W & SY & NE & _). unfold FB_B. exact (rsp_lit_fail 44 w y t _ p c k sp44 W SY NE). Qed.

Lemma after_args_hd r : after_args r -> hd_ok is_word_u r.
Proof.
  intros (w & y & t & -> & W & SY & NE & WY). destruct w as [|z w']; cbn [app hd_ok]; [exact WY|].
  destruct (white_cons _ _ W) as [S _]. exact (space_not_word z S).
Qed.

Lemma IDW_read nm r p c (k : kont) : forallb is_word_u nm = true -> hd_ok is_word_u r -> k (p + length nm) r c <> MNo ->
  ev UC IDW p (nm ++ r) c k = k (p + length nm) r c.
Proof.
  intros NM HR OK. unfold IDW. rewrite (ev_star UC _ _ (one_in UC false _)). fold cmWord.
  rewrite star_bt_longest; rewrite span_cmWord, (span_word_stop nm r NM HR); cbn [fst snd]; [reflexivity | left; exact OK].
Qed.

Lemma FB_B_read u v y nm r p c (k : kont) : white u -> white v -> idstart y = true -> forallb is_word_u nm = true -> hd_ok is_word_u r ->
  k (p + length u + 1 + length v + 1 + length nm) r c <> MNo ->
  ev UC FB_B p (u ++ 44%N :: v ++ y :: nm ++ r) c k = k (p + length u + 1 + length v + 1 + length nm) r c.
Proof.
  intros WU WV Y NM HR OK. unfold FB_B. rewrite (rsp_lit_read 44 u _ _ p c k sp44 WU).
  rewrite ev_cat. unfold rsp. rewrite (ev_star UC _ _ (one_in UC false _)). fold cmWs.
  rewrite star_bt_longest.
  2:{ right. intros q z t c' Sz. rewrite cmWs_is in Sz. rewrite ev_cat. unfold IDS. rewrite (ev_one UC _ _ (one_in UC false _)). fold idstart.
      unfold is_sp in Sz. rewrite (idstart_not_space z Sz). reflexivity. }
  rewrite span_cmWs, (span_sp_stop v y _ WV (idstart_sp y Y)). cbn [fst snd].
  rewrite ev_cat. unfold IDS. rewrite (ev_one UC _ _ (one_in UC false _)). fold idstart. rewrite Y.
  replace (p + length u + 1 + length v + 1 + length nm) with (S (S (p + length u) + length v) + length nm) in * by lia.
  apply IDW_read; assumption.
Qed.

Lemma args_star r c (K : kont) lo : after_args r -> (forall p, lo <= p -> K p r c <> MNo) ->
  forall more n pos, lo <= pos -> mok more -> length (mtext more ++ r) < n ->
  ev_rep (ev UC FB_B) n 0 None pos (mtext more ++ r) c K = K (pos + length (mtext more)) r c.
Proof.
  intros AR OK. induction more as [|[[u v] a] more IH]; intros n pos LO MO L; (destruct n as [|n]; [lia|]); rewrite ev_rep_S; cbn [pred option_map mtext app].
  - rewrite FB_B_fail by exact AR. cbn [length]. rewrite Nat.add_0_r. reflexivity.
  - cbn [mok aok1] in MO. destruct MO as ((WU & WV & IA) & MO). destruct a as [|y nm]; [discriminate|].
    cbn [ident] in IA. apply andb_true_iff in IA. destruct IA as [Y NM]. unfold atext1. repeat rewrite <- app_assoc. cbn [app].
    rewrite <- app_assoc.
    assert (HR : hd_ok is_word_u (mtext more ++ r)).
    { destruct more as [|[[u' v'] a'] more']; cbn [mtext app]; [exact (after_args_hd r AR)|].
      cbn [mok aok1] in MO. unfold atext1. repeat rewrite <- app_assoc. apply white_hd_word; [exact (proj1 (proj1 MO)) | exact word44]. }
    set (q := pos + length u + 1 + length v + 1 + length nm).
    assert (NQ : Nat.eqb q pos = false) by (apply Nat.eqb_neq; subst q; lia).
    assert (LQ : length (mtext more ++ r) < n).
    { cbn [mtext] in L. unfold atext1 in L. repeat rewrite app_length in L. cbn [length] in L. repeat rewrite app_length in L. cbn [length] in L.
      rewrite app_length. lia. }
    rewrite (FB_B_read u v y nm (mtext more ++ r) pos c _ WU WV Y NM HR); fold q; rewrite NQ; rewrite (IH n q ltac:(subst q; lia) MO LQ).
    + match goal with |- match K ?a r c with _ => _ end = K ?b r c =>
        replace b with a by (subst q; repeat rewrite app_length; cbn [length]; repeat rewrite app_length; cbn [length]; lia);
        pose proof (OK a ltac:(subst q; lia)) as O; destruct (K a r c); [congruence | reflexivity | reflexivity] end.
    + apply OK. subst q. lia.
Qed.

Definition atext (args : option (str * list arg3)) : str := match args with Some (a1, more) => a1 ++ mtext more | None => [] end.
Definition acap (args : option (str * list arg3)) (p : nat) (c : caps) : caps :=
  match args with Some _ => cap_set 3 (p, p + length (atext args)) c | None => c end.
Definition aok (args : option (str * list arg3)) : Prop := match args with Some (a1, more) => ident a1 = true /\ mok more | None => True end.
(* without arguments the run in front of the dots belongs to the run after the parenthesis *)
Definition adok (args : option (str * list arg3)) (dots : option str) : Prop :=
  match args, dots with None, Some w5 => w5 = [] | _, _ => True end.

Lemma dots_close_after dots : dwhite dots -> after_args (dtext dots ++ CL).
Proof.
  intros DW. destruct dots as [w5|]; cbn [dtext dwhite] in *.
  - exists w5, 46%N, (46%N :: 46%N :: CL). rewrite <- app_assoc. split; [reflexivity|]. split; [exact DW|].
    split; [exact sp46|]. split; [discriminate | exact word46].
  - exists w6, 41%N, (w7 ++ 58%N :: w8). split; [reflexivity|]. split; [exact W6|]. split; [exact sp41|]. split; [discriminate | exact word41].
Qed.

Lemma FB_ARGS_read args dots p c : aok args -> dwhite dots -> adok args dots ->
  ev UC (RCat FB_ARGS (RCat FB_DOTS FB_CLOSE)) p (atext args ++ dtext dots ++ CL) c kfin
  = MYes (E (p + length (atext args) + length (dtext dots))) (dcap dots (p + length (atext args)) (acap args p c)).
Proof.
  intros AO DW AD. rewrite ev_cat. unfold FB_ARGS. rewrite ev_opt, ev_group. destruct args as [[a1 more]|]; cbn [atext acap aok] in *.
  - destruct AO as [IA MO]. destruct a1 as [|y nm]; [discriminate|]. cbn [ident] in IA. apply andb_true_iff in IA. destruct IA as [Y NM].
    rewrite ev_cat. unfold IDS at 1. cbn [app]. rewrite (ev_one UC _ _ (one_in UC false _)). fold idstart. rewrite Y.
    rewrite ev_cat. rewrite <- app_assoc.
    set (r := dtext dots ++ CL). pose proof (dots_close_after dots DW) as AR. fold r in AR.
    set (pe := S p + length nm + length (mtext more)).
    assert (NE : Nat.eqb pe p = false) by (apply Nat.eqb_neq; subst pe; lia).
    set (K := fun (p0 : nat) (r' : str) (c' : caps) =>
                if Nat.eqb p0 p then MNo else ev UC (RCat FB_DOTS FB_CLOSE) p0 r' (cap_set 3 (p, p0) c') kfin).
    assert (KV : forall p0, Nat.eqb p0 p = false -> K p0 r c = MYes (E (p0 + length (dtext dots))) (dcap dots p0 (cap_set 3 (p, p0) c))).
    { intros p0 N0. subst K. cbv beta. rewrite N0. subst r. apply FB_DOTS_read. exact DW. }
    assert (HR : hd_ok is_word_u (mtext more ++ r)).
    { destruct more as [|[[u' v'] a'] more']; cbn [mtext app]; [exact (after_args_hd r AR)|].
      cbn [mok aok1] in MO. unfold atext1. repeat rewrite <- app_assoc. apply white_hd_word; [exact (proj1 (proj1 MO)) | exact word44]. }
    assert (ST : ev UC (RRep 0 None FB_B) (S p + length nm) (mtext more ++ r) c K = K pe r c).
    { cbn [ev]. apply (args_star r c K (S p) AR); [intros p0 L0; rewrite KV by (apply Nat.eqb_neq; lia); discriminate | lia | exact MO | lia]. }
    rewrite IDW_read; [| exact NM | exact HR | cbv beta; rewrite ST, (KV pe NE); discriminate].
    cbv beta. rewrite ST, (KV pe NE). subst pe.
    replace (p + length (y :: nm ++ mtext more)) with (S p + length nm + length (mtext more)) by (cbn [length]; rewrite app_length; lia).
    reflexivity.
  - cbn [app length]. rewrite Nat.add_0_r.
    assert (B : forall k, ev UC (RCat IDS (RCat IDW (RRep 0 None FB_B))) p (dtext dots ++ CL) c k = MNo).
    { intros k. rewrite ev_cat. unfold IDS. rewrite (ev_one UC _ _ (one_in UC false _)). fold idstart.
      destruct dots as [w5|]; cbn [dtext adok] in *.
      - subst w5. reflexivity.
      - unfold CL. destruct w6 as [|z w6']; cbn [app]; [reflexivity|]. destruct (white_cons _ _ W6) as [S _].
        rewrite (idstart_not_space z S). reflexivity. }
    rewrite B. apply FB_DOTS_read. exact DW.
Qed.
End Close.

(* ====================================================== the whole regex *)
Section FnShape.
Variables (w6 w7 w8 : str).
Hypothesis W6 : white w6.
Hypothesis W7 : white w7.
Hypothesis W8 : white w8.
Notation CLs := (CL w6 w7 w8).
Notation Es := (E w6 w7 w8).

Lemma adok_of_hd args dots : dwhite dots -> hd_ok is_sp (atext args ++ dtext dots ++ CLs) -> adok args dots.
Proof.
  intros DW H. destruct args as [[a1 more]|]; [exact I|]. destruct dots as [w5|]; [|exact I]. cbn [adok atext dtext app dwhite] in *.
  destruct w5 as [|z w5']; [reflexivity|]. cbn [app hd_ok] in H. destruct (white_cons _ _ DW) as [S _]. unfold is_sp in H. congruence.
Qed.

Lemma FB_AFTER_refuses_word q z t c : is_word_u z = true -> ev UC FB_AFTER q (z :: t) c kfin = MNo.
Proof.
  intros Wz. unfold FB_AFTER. rewrite ev_cat. unfold rsp at 1. rewrite (ev_star UC _ _ (one_in UC false _)). fold cmWs. cbn [star_bt].
  rewrite cmWs_is. unfold is_sp. change (is_space UC z) with (is_space_u z). rewrite (word_not_space z Wz).
  rewrite ev_cat, (ev_one UC _ _ (one_lit UC _)). destruct (z =? 40)%N eqn:E0; [|reflexivity].
  apply N.eqb_eq in E0. subst z. rewrite word40 in Wz. discriminate.
Qed.

Lemma FB_AFTER_read w3 w4 args dots p c : white w3 -> white w4 -> aok args -> dwhite dots ->
  hd_ok is_sp (atext args ++ dtext dots ++ CLs) ->
  let pa := p + length w3 + 1 + length w4 in
  ev UC FB_AFTER p (w3 ++ 40%N :: w4 ++ atext args ++ dtext dots ++ CLs) c kfin
  = MYes (Es (pa + length (atext args) + length (dtext dots))) (dcap dots (pa + length (atext args)) (acap args pa c)).
Proof.
  intros W3 W4 AO DW HD pa. unfold FB_AFTER. rewrite (rsp_lit_read 40 w3 _ _ p c kfin sp40 W3).
  rewrite ev_cat. unfold rsp. rewrite (ev_star UC _ _ (one_in UC false _)). fold cmWs.
  pose proof (FB_ARGS_read w6 w7 w8 W6 W7 W8 args dots pa c AO DW (adok_of_hd args dots DW HD)) as V.
  rewrite star_bt_longest; rewrite span_cmWs, (span_sp_stop' w4 _ W4 HD); cbn [fst snd];
    replace (S (p + length w3) + length w4) with pa by (subst pa; lia).
  - exact V.
  - left. rewrite V. discriminate.
Qed.

Lemma FB_MAIN_read w1 z2 w2 y nm R p c : white w1 -> white (z2 :: w2) -> idstart y = true -> forallb is_word_u nm = true ->
  hd_ok is_word_u R ->
  let pn := p + length w1 + 8 + length (z2 :: w2) in
  ev UC FB_MAIN p (w1 ++ KW_FUNCTION ++ (z2 :: w2) ++ (y :: nm) ++ R) c kfin
  = ev UC FB_AFTER (pn + 1 + length nm) R (cap_set 2 (pn, pn + 1 + length nm) c) kfin.
Proof.
  intros W1 W2 Y NM HR pn. unfold FB_MAIN. rewrite ev_cat. unfold rsp at 1. rewrite (ev_star UC _ _ (one_in UC false _)). fold cmWs.
  rewrite star_bt_longest.
  2:{ right. intros q z t c' Sz. rewrite cmWs_is in Sz. unfold KW_FUNCTION. apply lits_refuse. intros ->. unfold is_sp in Sz. rewrite sp102 in Sz. discriminate. }
  rewrite span_cmWs. rewrite (span_sp_stop' w1 _ W1) by (cbn [app hd_ok KW_FUNCTION]; exact sp102). cbn [fst snd].
  rewrite ev_lits. rewrite ev_cat. unfold plus_sp. rewrite (ev_plus UC _ _ (one_in UC false _)). fold cmWs.
  cbn [app]. rewrite cmWs_is. destruct (white_cons _ _ W2) as [S2 W2']. unfold is_sp at 1. rewrite S2.
  rewrite star_bt_longest.
  2:{ right. intros q z t c' Sz. rewrite cmWs_is in Sz. apply IDG_start. unfold is_sp in Sz. exact (idstart_not_space z Sz). }
  rewrite span_cmWs, (span_sp_stop w2 y _ W2' (idstart_sp y Y)). cbn [fst snd].
  rewrite ev_cat. rewrite (IDG_read 2 y nm R _ c _ Y NM HR).
  - replace (S (p + length w1 + length KW_FUNCTION) + length w2) with pn by (subst pn; cbn [length KW_FUNCTION]; lia). reflexivity.
  - intros q z t c' Wz. apply FB_AFTER_refuses_word. exact Wz.
Qed.

Definition astext (asy : option str) : str := match asy with Some w0 => w0 ++ KW_ASYNC | None => [] end.
Definition ascap (asy : option str) : caps := match asy with Some w0 => cap_set 1 (0, length w0 + 5) [] | None => [] end.
Definition awhite (asy : option str) : Prop := match asy with Some w0 => white w0 | None => True end.

Lemma FB_top asy w1 R : awhite asy -> white w1 -> ev UC FB_MAIN (length (astext asy)) (w1 ++ KW_FUNCTION ++ R) (ascap asy) kfin <> MNo ->
  rxm R_SCRIPT_FUNCTION_BEGIN (astext asy ++ w1 ++ KW_FUNCTION ++ R)
  = ev UC FB_MAIN (length (astext asy)) (w1 ++ KW_FUNCTION ++ R) (ascap asy) kfin.
Proof.
  intros AW W1 OK. unfold rxm. rewrite re_match_ev, shape_fn_begin, ev_cat, ev_bol. cbn [Nat.eqb]. rewrite ev_cat.
  unfold FB_ASYNC. rewrite ev_opt, ev_group. destruct asy as [w0|]; cbn [astext ascap awhite length] in *.
  - rewrite <- app_assoc. unfold KW_ASYNC at 1. cbn [app].
    rewrite ev_cat. unfold rsp at 1. rewrite (ev_star UC _ _ (one_in UC false _)). fold cmWs.
    rewrite star_bt_longest.
    2:{ right. intros q z t c' Sz. rewrite cmWs_is in Sz. apply lits_refuse. intros ->. unfold is_sp in Sz. rewrite sp97 in Sz. discriminate. }
    rewrite span_cmWs, (span_sp_stop w0 97 _ AW sp97). cbn [fst snd].
    change (97%N :: 115%N :: 121%N :: 110%N :: 99%N :: w1 ++ KW_FUNCTION ++ R) with ([97; 115; 121; 110]%N ++ 99%N :: w1 ++ KW_FUNCTION ++ R).
    rewrite ev_lits. rewrite (ev_one UC _ _ (one_lit UC _)), N.eqb_refl.
    rewrite app_length in OK. cbn [length KW_ASYNC] in OK. rewrite app_length. cbn [length KW_ASYNC Nat.eqb].
    replace (S (0 + length w0 + 4)) with (length w0 + 5) by lia.
    destruct (ev UC FB_MAIN (length w0 + 5) (w1 ++ KW_FUNCTION ++ R) (cap_set 1 (0, length w0 + 5) []) kfin); [congruence | reflexivity | reflexivity].
  - cbn [app].
    assert (B : forall k, ev UC (RCat rsp (lits [97; 115; 121; 110]%N (RLit 99))) 0 (w1 ++ KW_FUNCTION ++ R) [] k = MNo).
    { intros k. rewrite ev_cat. unfold rsp at 1. rewrite (ev_star UC _ _ (one_in UC false _)). fold cmWs.
      rewrite star_bt_longest.
      - rewrite span_cmWs. rewrite (span_sp_stop' w1 _ W1) by (cbn [app hd_ok KW_FUNCTION]; exact sp102). cbn [fst snd].
        unfold KW_FUNCTION. cbn [app]. apply lits_refuse. discriminate.
      - right. intros q z t c' Sz. rewrite cmWs_is in Sz. apply lits_refuse. intros ->. unfold is_sp in Sz. rewrite sp97 in Sz. discriminate. }
    rewrite B. reflexivity.
Qed.
End FnShape.

(* ====================================================== classify *)
Definition is_some {A} (o : option A) : bool := match o with Some _ => true | None => false end.
Definition fn_args (args : option (str * list arg3)) : sres (option (list str)) :=
  match args with
  | Some _ => match re_split UC R_SCRIPT_FUNCTION_ARG_SPLIT (atext args) with Some l => ROk (Some l) | None => RFuel end
  | None => ROk None
  end.

Theorem classify_fn_begin_shape n asy w1 w2 name w3 w4 args dots w6 w7 w8 :
  awhite asy -> white w1 -> white w2 -> w2 <> [] -> ident name = true -> white w3 -> white w4 -> aok args -> dwhite dots ->
  white w6 -> white w7 -> white w8 -> hd_ok is_sp (atext args ++ dtext dots ++ CL w6 w7 w8) ->
  classify n (astext asy ++ w1 ++ KW_FUNCTION ++ w2 ++ name ++ w3 ++ 40%N :: w4 ++ atext args ++ dtext dots ++ CL w6 w7 w8)
  = ROk (KFnBegin name (fn_args args) (is_some asy) (is_some dots)).
Proof.
  intros AW W1 W2 N2 ID W3 W4 AO DW W6 W7 W8 HD.
  destruct w2 as [|z2 w2']; [congruence|]. destruct name as [|y nm]; [discriminate|].
  cbn [ident] in ID. apply andb_true_iff in ID. destruct ID as [Y NM].
  set (X := atext args ++ dtext dots ++ CL w6 w7 w8) in *.
  set (R := w3 ++ 40%N :: w4 ++ X).
  assert (HR : hd_ok is_word_u R) by (subst R; apply white_hd_word; [exact W3 | exact word40]).
  set (p0 := length (astext asy)).
  set (pn := p0 + length w1 + 8 + length (z2 :: w2')).
  set (pa := pn + 1 + length nm + length w3 + 1 + length w4).
  set (cc := dcap dots (pa + length (atext args)) (acap args pa (cap_set 2 (pn, pn + 1 + length nm) (ascap asy)))).
  assert (EM : ev UC FB_MAIN p0 (w1 ++ KW_FUNCTION ++ (z2 :: w2') ++ (y :: nm) ++ R) (ascap asy) kfin
               = MYes (E w6 w7 w8 (pa + length (atext args) + length (dtext dots))) cc).
  { rewrite (FB_MAIN_read w1 z2 w2' y nm R p0 _ W1 W2 Y NM HR). fold pn. subst R X.
    exact (FB_AFTER_read w6 w7 w8 W6 W7 W8 w3 w4 args dots _ _ W3 W4 AO DW HD). }
  assert (EF : rxm R_SCRIPT_FUNCTION_BEGIN (astext asy ++ w1 ++ KW_FUNCTION ++ (z2 :: w2') ++ (y :: nm) ++ R)
               = MYes (E w6 w7 w8 (pa + length (atext args) + length (dtext dots))) cc).
  { rewrite (FB_top asy w1 ((z2 :: w2') ++ (y :: nm) ++ R) AW W1); fold p0; rewrite EM; [reflexivity | discriminate]. }
  assert (Y61 : y <> 61%N) by (intros ->; vm_compute in Y; discriminate).
  assert (EA : rxm R_SCRIPT_ASSIGNMENT (astext asy ++ w1 ++ KW_FUNCTION ++ (z2 :: w2') ++ (y :: nm) ++ R) = MNo).
  { destruct asy as [w0|]; cbn [astext awhite] in *.
    - rewrite <- app_assoc. destruct w1 as [|z1 w1'].
      + exact (assign_nomatch_kw w0 97 [115; 121; 110; 99; 102; 117; 110; 99; 116; 105; 111; 110]%N z2 w2' y (nm ++ R) AW eq_refl eq_refl W2 (idstart_sp y Y) Y61).
      + exact (assign_nomatch_kw w0 97 [115; 121; 110; 99]%N z1 w1' 102 ([117; 110; 99; 116; 105; 111; 110]%N ++ (z2 :: w2') ++ (y :: nm) ++ R)
                 AW eq_refl eq_refl W1 sp102 ltac:(discriminate)).
    - exact (assign_nomatch_kw w1 102 [117; 110; 99; 116; 105; 111; 110]%N z2 w2' y (nm ++ R) W1 eq_refl eq_refl W2 (idstart_sp y Y) Y61). }
  set (line := astext asy ++ w1 ++ KW_FUNCTION ++ (z2 :: w2') ++ (y :: nm) ++ R) in *.
  assert (G2 : gtext line cc R_SCRIPT_FUNCTION_BEGIN__name = y :: nm).
  { apply (gtext_at line cc 2 pn (pn + 1 + length nm) (astext asy ++ w1 ++ KW_FUNCTION ++ (z2 :: w2')) (y :: nm) R).
    - subst cc. destruct dots, args as [[? ?]|], asy; reflexivity.
    - subst line. repeat rewrite <- app_assoc. reflexivity.
    - subst pn p0. repeat rewrite app_length. cbn [length KW_FUNCTION]. lia.
    - cbn [length]. lia. }
  assert (H1 : ghas cc R_SCRIPT_FUNCTION_BEGIN__async = is_some asy) by (subst cc; destruct dots, args as [[? ?]|], asy; reflexivity).
  assert (H4 : ghas cc R_SCRIPT_FUNCTION_BEGIN__lastArgArray = is_some dots) by (subst cc; destruct dots, args as [[? ?]|], asy; reflexivity).
  assert (H3 : (if ghas cc R_SCRIPT_FUNCTION_BEGIN__args
                then match re_split UC R_SCRIPT_FUNCTION_ARG_SPLIT (gtext line cc R_SCRIPT_FUNCTION_BEGIN__args) with
                     | Some l => ROk (Some l) | None => RFuel end
                else ROk None) = fn_args args).
  { destruct args as [[a1 more]|] eqn:EArgs.
    - assert (G3 : gtext line cc R_SCRIPT_FUNCTION_BEGIN__args = atext (Some (a1, more))).
      { apply (gtext_at line cc 3 pa (pa + length (atext (Some (a1, more))))
                 (astext asy ++ w1 ++ KW_FUNCTION ++ (z2 :: w2') ++ (y :: nm) ++ w3 ++ [40%N] ++ w4) (atext (Some (a1, more))) (dtext dots ++ CL w6 w7 w8)).
        - subst cc. destruct dots, asy; reflexivity.
        - subst line R X. repeat rewrite <- app_assoc. reflexivity.
        - subst pa pn p0. repeat rewrite app_length. cbn [length KW_FUNCTION]. repeat rewrite app_length. cbn [length]. lia.
        - reflexivity. }
      assert (HG : ghas cc R_SCRIPT_FUNCTION_BEGIN__args = true) by (subst cc; destruct dots, asy; reflexivity).
      rewrite HG, G3. reflexivity.
    - assert (HG : ghas cc R_SCRIPT_FUNCTION_BEGIN__args = false) by (subst cc; destruct dots, asy; reflexivity).
      rewrite HG. reflexivity. }
  unfold classify. rewrite EA, EF. rewrite G2, H1, H4, H3. reflexivity.
Qed.

Lemma white1 : white (U " "). Proof. apply whiteb_white. reflexivity. Qed.
Lemma white2 : white (U "  "). Proof. apply whiteb_white. reflexivity. Qed.
Lemma whitet : white (U "\000009"). Proof. apply whiteb_white. reflexivity. Qed.

(* non-vacuity: `async function f(a, b...):` tight and loose, `function g():` *)
Lemma fn_begin_examples :
  classify 2 (U "  async \000009function  f1 ( a ,b1 \000009 , c  ... ) :  ")
    = ROk (KFnBegin (U "f1") (fn_args (Some (U "a", [(U " ", [], U "b1"); (U " \000009 ", U " ", U "c")]))) true true) /\
  fn_args (Some (U "a", [(U " ", [], U "b1"); (U " \000009 ", U " ", U "c")])) = ROk (Some [U "a"; U "b1"; U "c"]) /\
  classify 2 (U "async function f1(a,b1,c...):") = ROk (KFnBegin (U "f1") (ROk (Some [U "a"; U "b1"; U "c"])) true true) /\
  classify 2 (U "function g( ) :") = ROk (KFnBegin (U "g") (ROk None) false false) /\
  classify 2 (U "function g(  ...):") = ROk (KFnBegin (U "g") (ROk None) false true).
Proof.
  split.
  - change (U "  async \000009function  f1 ( a ,b1 \000009 , c  ... ) :  ")
      with (astext (Some (U "  ")) ++ U " \000009" ++ KW_FUNCTION ++ U "  " ++ U "f1" ++ U " " ++ 40%N :: U " "
            ++ atext (Some (U "a", [(U " ", [], U "b1"); (U " \000009 ", U " ", U "c")])) ++ dtext (Some (U "  ")) ++ CL (U " ") (U " ") (U "  ")).
    apply classify_fn_begin_shape; try (apply whiteb_white; reflexivity); try reflexivity; try discriminate.
    + repeat split; try (apply whiteb_white; reflexivity).
  - repeat split; vm_compute; reflexivity.
Qed.
