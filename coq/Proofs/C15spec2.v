(* Proofs/C15spec2.v — the ABSTRACT machine of property C15, EXTENDED (definitions only, no proofs).
   Part A: the string functions as PURE operations on code-point lists (nothing in the abstract state changes;
           stringSplit binds one fresh sequence), written with firstn / skipn / find / seq / concat / repeat / rev.
   Part B: an abstract deep equality `aeq` on abstract states (an inductive relation: NO fuel; a comparison that does not
           terminate has no derivation) and the declarative contracts of arrayIndexOf / arrayLastIndexOf over it.
   Part C: the machines: `spec_step_s` (OPS + strings, a function) and `stepR` (OPS + strings + the two searches, a
           deterministic relation).
   Part D: the side conditions of the search theorems (no LFuel answer; well-formed acyclic heaps). *)
From BS Require Import Model.Base Model.Num Model.LibVal Gen.ArgSpecs Model.LibSeq Proofs.C15spec.
Local Open Scope Z_scope.

(* ====================================================================== A. strings = immutable code-point sequences *)
(* p is a prefix / a suffix of s *)
Definition starts_with (p s : str) : bool := str_eqb (firstn (length p) s) p.
Definition ends_with (p s : str) : bool := (length p <=? length s)%nat && str_eqb (skipn (length s - length p) s) p.
(* sub occurs in s at position i (0 <= i <= length s) *)
Definition occurs_at (sub s : str) (i : nat) : bool := (i <=? length s)%nat && starts_with sub (skipn i s).
(* the LEAST position in [from, length s] at which sub occurs *)
Definition first_occ (sub s : str) (from : nat) : option nat := find (occurs_at sub s) (seq from (S (length s) - from)).
(* the GREATEST position in [0, upto] at which sub occurs *)
Definition last_occ (sub s : str) (upto : nat) : option nat := find (occurs_at sub s) (rev (seq 0 (S upto))).
Definition pos_or_minus1 (o : option nat) : Z := match o with Some i => Z.of_nat i | None => -1 end.

(* splitting on a NON-EMPTY separator: cut at the least occurrence, go on after it (the fuel is the length of the string:
   every cut removes at least one code point) *)
Fixpoint split_spec (fuel : nat) (sep s : str) : list str :=
  match fuel with
  | O => [s]
  | S f => match first_occ sep s 0 with
           | Some i => firstn i s :: split_spec f sep (skipn (i + length sep) s)
           | None => [s]
           end
  end.
Definition split_on (sep s : str) : list str := split_spec (length s) sep s.
(* replacing every (leftmost, non-overlapping) occurrence; an empty `old` matches before every code point and at the end *)
Definition replace_all (s old new : str) : str :=
  match old with
  | [] => concat (map (fun c => new ++ [c]) s) ++ new
  | _ => join_with new (split_on old s)
  end.
(* dropping the white code points (str.strip()'s set: Model/Num.v U_space, non-ASCII part regenerated) at both ends *)
Fixpoint drop_white (s : str) : str := match s with c :: t => if U_space c then drop_white t else s | [] => [] end.
Definition trim (s : str) : str := rev (drop_white (rev (drop_white s))).

(* an index argument that fails: an infinite / nan number makes int() raise (the call yields null) BEFORE anything else is
   looked at; anything else is an argument error with the documented failure value d *)
Definition nonfinite (v : value) : bool :=
  match v with VNum n => match py_int n with None => true | Some _ => false end | _ => false end.
Definition bad_index (vi d : value) (m : astate) : sout := if nonfinite vi then fail m else failv d m.
(* an optional (nullable) index / bound: null = not given *)
Definition opt_index (v : value) : option (option Z) :=
  match v with VNull => Some None | _ => option_map Some (arg_index v) end.

Definition sp_stringLength (args : list value) (m : astate) : sout :=
  match args with [VStr s] => ok (vint (len s)) m | _ => failv (vint 0) m end.

Definition sp_stringCharCodeAt (args : list value) (m : astate) : sout :=
  match args with
  | [VStr s; vi] => match arg_index vi with
                    | Some z => match nth_error s (Z.to_nat z) with Some c => ok (vint (Z.of_N c)) m | None => fail m end
                    | None => fail m
                    end
  | _ => fail m
  end.

Definition sp_stringStartsWith (args : list value) (m : astate) : sout :=
  match args with [VStr s; VStr p] => ok (VBool (starts_with p s)) m | _ => fail m end.
Definition sp_stringEndsWith (args : list value) (m : astate) : sout :=
  match args with [VStr s; VStr p] => ok (VBool (ends_with p s)) m | _ => fail m end.

(* stringIndexOf(s, sub, index = 0): the least position >= index; an index >= length is a failure (-1) *)
Definition sp_indexOf_at (s sub : str) (vi : value) (m : astate) : sout :=
  match arg_index vi with
  | Some z => if len s <=? z then failv (vint (-1)) m else ok (vint (pos_or_minus1 (first_occ sub s (Z.to_nat z)))) m
  | None => bad_index vi (vint (-1)) m
  end.
Definition sp_stringIndexOf (args : list value) (m : astate) : sout :=
  match args with
  | [VStr s; VStr sub] => sp_indexOf_at s sub (vint 0) m
  | [VStr s; VStr sub; vi] => sp_indexOf_at s sub vi m
  | VStr _ :: VStr _ :: vi :: _ :: _ => bad_index vi (vint (-1)) m            (* too many arguments *)
  | _ => failv (vint (-1)) m
  end.

(* stringLastIndexOf(s, sub, index = null -> length - 1): the greatest position <= index *)
Definition sp_lastIndexOf_at (s sub : str) (vi : value) (m : astate) : sout :=
  match opt_index vi with
  | Some oz => let z := match oz with Some z => z | None => len s - 1 end in
               if len s <=? z then failv (vint (-1)) m else ok (vint (pos_or_minus1 (last_occ sub s (Z.to_nat z)))) m
  | None => bad_index vi (vint (-1)) m
  end.
Definition sp_stringLastIndexOf (args : list value) (m : astate) : sout :=
  match args with
  | [VStr s; VStr sub] => sp_lastIndexOf_at s sub VNull m
  | [VStr s; VStr sub; vi] => sp_lastIndexOf_at s sub vi m
  | VStr _ :: VStr _ :: vi :: _ :: _ => bad_index vi (vint (-1)) m
  | _ => failv (vint (-1)) m
  end.

Definition sp_stringRepeat (args : list value) (m : astate) : sout :=
  match args with
  | [VStr s; vc] => match arg_index vc with Some z => ok (VStr (concat (repeat s (Z.to_nat z)))) m | None => fail m end
  | _ => fail m
  end.

Definition sp_stringReplace (args : list value) (m : astate) : sout :=
  match args with [VStr s; VStr old; VStr new] => ok (VStr (replace_all s old new)) m | _ => fail m end.

(* stringSlice(s, start, end = null -> length): a bound beyond the length is a failure *)
Definition sp_stringSlice (args : list value) (m : astate) : sout :=
  match args with
  | VStr s :: vs :: rest =>
      match (match rest with [] => Some VNull | [e] => Some e | _ => None end) with
      | None => fail m
      | Some e =>
          match arg_index vs, opt_index e with
          | Some zs, Some oe =>
              let ze := match oe with Some z => z | None => len s end in
              if (len s <? zs) || (len s <? ze) then fail m
              else ok (VStr (skipn (Z.to_nat zs) (firstn (Z.to_nat ze) s))) m
          | _, _ => fail m
          end
      end
  | _ => fail m
  end.

(* stringSplit(s, sep): ONE fresh sequence of strings; an empty separator is a failure *)
Definition sp_stringSplit (args : list value) (m : astate) : sout :=
  match args with
  | [VStr s; VStr sep] => match sep with [] => fail m | _ => alloc_ret m (ASeq (map VStr (split_on sep s))) end
  | _ => fail m
  end.

Definition sp_stringTrim (args : list value) (m : astate) : sout :=
  match args with [VStr s] => ok (VStr (trim s)) m | _ => fail m end.

(* stringFromCharCode(c1, c2, ...): every argument a code point (an integer >= 0, below 0x110000) *)
Fixpoint code_points (a : list value) : option (list Z) :=
  match a with
  | [] => Some []
  | v :: t => match arg_index v, code_points t with Some z, Some zs => Some (z :: zs) | _, _ => None end
  end.
Definition sp_stringFromCharCode (args : list value) (m : astate) : sout :=
  match code_points args with
  | Some zs => if forallb (fun z => z <? 1114112) zs then ok (VStr (map Z.to_N zs)) m else fail m
  | None => fail m
  end.

(* the three encoders: the abstract operation IS the encoder (regex_escape / url_quote over the regenerated tables); their
   independent characterisations are C15_regex_escape (exactness under the literal-pattern semantics) and C15_url_roundtrip *)
Definition sp_regexEscape (args : list value) (m : astate) : sout :=
  match args with [VStr s] => ok (VStr (regex_escape s)) m | _ => fail m end.
Definition sp_urlEncodeGen (f : str) (args : list value) (m : astate) : sout :=
  match args with
  | [VStr s] => match url_safe_of f with
                | Some safe => match url_quote safe s with Some r => ok (VStr r) m | None => fail m end   (* lone surrogate *)
                | None => None
                end
  | _ => fail m
  end.

Definition string_table : list (str * spfun) :=
  [(U "stringCharCodeAt", sp_stringCharCodeAt); (U "stringEndsWith", sp_stringEndsWith); (U "stringStartsWith", sp_stringStartsWith);
   (U "stringFromCharCode", sp_stringFromCharCode); (U "stringIndexOf", sp_stringIndexOf); (U "stringLastIndexOf", sp_stringLastIndexOf);
   (U "stringLength", sp_stringLength); (U "stringRepeat", sp_stringRepeat); (U "stringReplace", sp_stringReplace);
   (U "stringSlice", sp_stringSlice); (U "stringSplit", sp_stringSplit); (U "stringTrim", sp_stringTrim);
   (U "regexEscape", sp_regexEscape); (U "urlEncode", sp_urlEncodeGen (U "urlEncode"));
   (U "urlEncodeComponent", sp_urlEncodeGen (U "urlEncodeComponent"))].

(* ====================================================================== C (first half). the machine over any table *)
Definition call_in (tbl : list (str * spfun)) (f : str) (args : list value) (m : astate) : sout :=
  match assoc f tbl with Some g => g args m | None => None end.
Definition in_tbl (tbl : list (str * spfun)) (f : str) : bool := match assoc f tbl with Some _ => true | None => false end.
Definition op_in_tbl (tbl : list (str * spfun)) (o : op) : bool := match o with OCall f _ => in_tbl tbl f | _ => true end.
Definition step_in (tbl : list (str * spfun)) (st : option (env * astate)) (o : op) : option (env * astate) :=
  match st with
  | None => None
  | Some (e, m) =>
    match o with
    | OAlias n => match nth_error e n with Some v => Some (e ++ [v], m) | None => None end
    | OLit v => Some (e ++ [v], m)
    | OCall f l =>
      match eval_args e l with
      | None => None
      | Some vs => match call_in tbl f vs m with
                   | Some (r, m') => Some (e ++ [sres_value r], m')
                   | None => None
                   end
      end
    end
  end.

(* OPS_S = OPS (20 array / object functions) + the 15 string functions *)
Definition spec_table_s : list (str * spfun) := spec_table ++ string_table.
Definition spec_call_s := call_in spec_table_s.
Definition in_OPS_s := in_tbl spec_table_s.
Definition op_in_OPS_s := op_in_tbl spec_table_s.
Definition spec_step_s := step_in spec_table_s.
Definition spec_run_s (ops : list op) (st : env * astate) : option (env * astate) := fold_left spec_step_s ops (Some st).

(* ====================================================================== B. abstract deep equality and the two searches *)
Definition same_kind (a b : value) : bool :=
  match a, b with
  | VNull, VNull | VBool _, VBool _ | VNum _, VNum _ | VStr _, VStr _ | VDate _, VDate _
  | VArr _, VArr _ | VObj _, VObj _ | VFun _, VFun _ | VRegex _, VRegex _ => true
  | _, _ => false
  end.

(* `aeq m a b r`: comparing a with b in the abstract state m TERMINATES with answer r.  Sequences: the first differing pair
   decides (what follows it is not looked at), equal prefixes -> the lengths decide.  Maps: the same on the key-sorted
   association lists (keys first).  Numbers: exact numeric equality (1 = 1.0).  Two functions / two regexes compare equal
   (value_compare falls back on the type names).  A cyclic comparison has NO derivation. *)
Inductive aeq (m : astate) : value -> value -> bool -> Prop :=
| aeq_kind : forall a b, same_kind a b = false -> aeq m a b false
| aeq_null : aeq m VNull VNull true
| aeq_bool : forall b1 b2, aeq m (VBool b1) (VBool b2) (Bool.eqb b1 b2)
| aeq_num : forall n1 n2, aeq m (VNum n1) (VNum n2) (num_eq n1 n2)
| aeq_str : forall s1 s2, aeq m (VStr s1) (VStr s2) (str_eqb s1 s2)
| aeq_date : forall d1 d2, aeq m (VDate d1) (VDate d2) (d1 =? d2)
| aeq_fun : forall f1 f2, aeq m (VFun f1) (VFun f2) true
| aeq_regex : forall r1 r2, aeq m (VRegex r1) (VRegex r2) true
| aeq_arr : forall l1 l2 xs ys r, alookup m l1 = Some (ASeq xs) -> alookup m l2 = Some (ASeq ys) ->
    aeq_seq m xs ys r -> aeq m (VArr l1) (VArr l2) r
| aeq_obj : forall l1 l2 xs ys r, alookup m l1 = Some (AMap xs) -> alookup m l2 = Some (AMap ys) ->
    aeq_map m (sort_keys xs) (sort_keys ys) r -> aeq m (VObj l1) (VObj l2) r
with aeq_seq (m : astate) : list value -> list value -> bool -> Prop :=
| aeqs_nil : aeq_seq m [] [] true
| aeqs_short_l : forall y ys, aeq_seq m [] (y :: ys) false
| aeqs_short_r : forall x xs, aeq_seq m (x :: xs) [] false
| aeqs_diff : forall x y xs ys, aeq m x y false -> aeq_seq m (x :: xs) (y :: ys) false
| aeqs_same : forall x y xs ys r, aeq m x y true -> aeq_seq m xs ys r -> aeq_seq m (x :: xs) (y :: ys) r
with aeq_map (m : astate) : list (str * value) -> list (str * value) -> bool -> Prop :=
| aeqm_nil : aeq_map m [] [] true
| aeqm_short_l : forall y ys, aeq_map m [] (y :: ys) false
| aeqm_short_r : forall x xs, aeq_map m (x :: xs) [] false
| aeqm_key : forall k1 k2 x y xs ys, str_eqb k1 k2 = false -> aeq_map m ((k1, x) :: xs) ((k2, y) :: ys) false
| aeqm_diff : forall k1 k2 x y xs ys, str_eqb k1 k2 = true -> aeq m x y false -> aeq_map m ((k1, x) :: xs) ((k2, y) :: ys) false
| aeqm_same : forall k1 k2 x y xs ys r, str_eqb k1 k2 = true -> aeq m x y true -> aeq_map m xs ys r ->
    aeq_map m ((k1, x) :: xs) ((k2, y) :: ys) r.

(* arrayIndexOf: res is the LEAST position >= from whose element equals v (every earlier one from `from` on compares
   different), or -1 when every element from `from` on compares different *)
Definition first_match (m : astate) (xs : list value) (v : value) (from : nat) (res : Z) : Prop :=
  (res = -1 /\ forall i x, (from <= i)%nat -> nth_error xs i = Some x -> aeq m x v false)
  \/ (exists i x, res = Z.of_nat i /\ (from <= i)%nat /\ nth_error xs i = Some x /\ aeq m x v true
                  /\ forall j y, (from <= j < i)%nat -> nth_error xs j = Some y -> aeq m y v false).
(* arrayLastIndexOf: res is the GREATEST position <= upto whose element equals v, or -1 *)
Definition last_match (m : astate) (xs : list value) (v : value) (upto : nat) (res : Z) : Prop :=
  (res = -1 /\ forall i x, (i <= upto)%nat -> nth_error xs i = Some x -> aeq m x v false)
  \/ (exists i x, res = Z.of_nat i /\ (i <= upto)%nat /\ nth_error xs i = Some x /\ aeq m x v true
                  /\ forall j y, (i < j <= upto)%nat -> nth_error xs j = Some y -> aeq m y v false).

(* what a search call asks for: an immediate outcome (failures, stuck), or a search in a sequence *)
Inductive sreq := SNow (o : sout) | SFirst (xs : list value) (v : value) (from : nat) | SLast (xs : list value) (v : value) (upto : nat).

(* arrayIndexOf(array, value = null, index = 0).  A function as the needle is the callback form: outside the machine (None) *)
Definition rq_first (l : loc) (v vi : value) (m : astate) : sreq :=
  match arg_index vi with
  | None => SNow (bad_index vi (vint (-1)) m)
  | Some z =>
      match alookup m l with
      | Some (ASeq xs) => if len xs <=? z then SNow (failv (vint (-1)) m)
                          else match v with VFun _ => SNow None | _ => SFirst xs v (Z.to_nat z) end
      | _ => SNow None
      end
  end.
Definition rq_arrayIndexOf (args : list value) (m : astate) : sreq :=
  match args with
  | [VArr l] => rq_first l VNull (vint 0) m
  | [VArr l; v] => rq_first l v (vint 0) m
  | [VArr l; v; vi] => rq_first l v vi m
  | VArr _ :: _ :: vi :: _ :: _ => SNow (bad_index vi (vint (-1)) m)
  | _ => SNow (failv (vint (-1)) m)
  end.
(* arrayLastIndexOf(array, value = null, index = null -> length - 1) *)
Definition rq_last (l : loc) (v vi : value) (m : astate) : sreq :=
  match opt_index vi with
  | None => SNow (bad_index vi (vint (-1)) m)
  | Some oz =>
      match alookup m l with
      | Some (ASeq xs) =>
          let z := match oz with Some z => z | None => len xs - 1 end in
          if len xs <=? z then SNow (failv (vint (-1)) m)
          else match v with
               | VFun _ => SNow None
               | _ => if z <? 0 then SNow (ok (vint (-1)) m) else SLast xs v (Z.to_nat z)
               end
      | _ => SNow None
      end
  end.
Definition rq_arrayLastIndexOf (args : list value) (m : astate) : sreq :=
  match args with
  | [VArr l] => rq_last l VNull VNull m
  | [VArr l; v] => rq_last l v VNull m
  | [VArr l; v; vi] => rq_last l v vi m
  | VArr _ :: _ :: vi :: _ :: _ => SNow (bad_index vi (vint (-1)) m)
  | _ => SNow (failv (vint (-1)) m)
  end.

Inductive search_out (m : astate) : sreq -> sout -> Prop :=
| so_now : forall o, search_out m (SNow o) o
| so_first : forall xs v from res, first_match m xs v from res -> search_out m (SFirst xs v from) (ok (vint res) m)
| so_last : forall xs v upto res, last_match m xs v upto res -> search_out m (SLast xs v upto) (ok (vint res) m).

Definition search_rq (f : str) : option (list value -> astate -> sreq) :=
  if str_eqb f (U "arrayIndexOf") then Some rq_arrayIndexOf
  else if str_eqb f (U "arrayLastIndexOf") then Some rq_arrayLastIndexOf else None.
Definition is_search (f : str) : bool := match search_rq f with Some _ => true | None => false end.

(* ====================================================================== C (second half). the relational machine
   OPS_X = OPS_S + arrayIndexOf + arrayLastIndexOf.  `callR f args m out`: a function of OPS_S behaves as spec_call_s; a search
   behaves as its contract.  `stepR` / `runR` thread it through statements (deterministic: Proofs/C15histh.v). *)
Inductive callR (f : str) (args : list value) (m : astate) : sout -> Prop :=
| callR_fun : in_OPS_s f = true -> callR f args m (spec_call_s f args m)
| callR_search : forall rq out, search_rq f = Some rq -> search_out m (rq args m) out -> callR f args m out.

Definition bind_result (e : env) (out : sout) : option (env * astate) :=
  match out with Some (r, m') => Some (e ++ [sres_value r], m') | None => None end.
Inductive stepR : option (env * astate) -> op -> option (env * astate) -> Prop :=
| stepR_none : forall o, stepR None o None
| stepR_alias : forall e m n, stepR (Some (e, m)) (OAlias n) (match nth_error e n with Some v => Some (e ++ [v], m) | None => None end)
| stepR_lit : forall e m v, stepR (Some (e, m)) (OLit v) (Some (e ++ [v], m))
| stepR_noargs : forall e m f l, eval_args e l = None -> stepR (Some (e, m)) (OCall f l) None
| stepR_call : forall e m f l vs out, eval_args e l = Some vs -> callR f vs m out -> stepR (Some (e, m)) (OCall f l) (bind_result e out).
Inductive runR : option (env * astate) -> list op -> option (env * astate) -> Prop :=
| runR_nil : forall st, runR st [] st
| runR_cons : forall st o st1 ops st2, stepR st o st1 -> runR st1 ops st2 -> runR st (o :: ops) st2.

Definition in_OPS_x (f : str) : bool := in_OPS_s f || is_search f.
Definition op_in_OPS_x (o : op) : bool := match o with OCall f _ => in_OPS_x f | _ => true end.

(* ====================================================================== D. side conditions of the search theorems *)
(* no call of the run answers LFuel (the model's comparison gave up: out of fuel, or a dangling reference met while comparing) *)
Definition op_no_fuel (st : option (env * heap)) (o : op) : Prop :=
  match st, o with
  | Some (e, h), OCall f l => match eval_args e l with Some vs => fst (lib f vs h) <> LFuel | None => True end
  | _, _ => True
  end.
Fixpoint no_fuel (ops : list op) (st : option (env * heap)) : Prop :=
  match ops with [] => True | o :: t => op_no_fuel st o /\ no_fuel t (run_op st o) end.

(* acyclic heaps: some rank strictly decreases along every stored reference *)
Definition cell_values (c : cell) : list value := match c with CArr xs => xs | CObj kv => map snd kv end.
Definition vloc (v : value) : option loc := match v with VArr l | VObj l => Some l | _ => None end.
Definition acyclic (h : heap) : Prop :=
  exists rank : loc -> nat, forall l c x l', hget h l = Some c -> In x (cell_values c) -> vloc x = Some l' -> (rank l' < rank l)%nat.
Definition heap_ok (h : heap) : bool := forallb (cell_ok h) h.

(* ====================================================================== E. well-formed histories over a table (as wf_op / wf_hist of
   Proofs/C15spec.v, with the table of operations a parameter) *)
Definition wf_op_in (tbl : list (str * spfun)) (st : env * heap) (o : op) : bool :=
  match o with
  | OCall f l => in_tbl tbl f && forallb (wf_arg st) l
  | OAlias n => Nat.ltb n (length (fst st))
  | OLit v => val_ok (snd st) v
  end.
Fixpoint wf_hist_in (tbl : list (str * spfun)) (ops : list op) (st : env * heap) : bool :=
  match ops with
  | [] => true
  | o :: t => wf_op_in tbl st o && match run_op (Some st) o with Some st' => wf_hist_in tbl t st' | None => true end
  end.
Definition wf_hist_s := wf_hist_in spec_table_s.
