(* Proofs/C09clLib.v — the closure invariant (Proofs/C09clInv.v) is preserved by the library functions that do not call back:
   every function of Model/LibCore.v (libcore_pres) and systemPartial itself (partial_new_pres: the hidden array it
   allocates is well-shaped and its location joins the hidden set). *)
From Coq Require Import List Lia ZArith Bool NArith.
From BS Require Import Model.Base Model.Num Model.Arith Model.ExprParser Model.Script Model.Interp Model.LibCore Model.LibCall
                       Model.LibMore Model.LibAll Model.LibPartial Proofs.BaseFacts Proofs.C09termClosure Proofs.C09clInv.
Import ListNotations.

Definition varg_ok (H : hid) (na : nat) (a : varg) : Prop :=
  match a with AV v => val_ok H na v | AL l => Forall (val_ok H na) l end.

Lemma vcons_ok a r va : vcons a r = VOk va -> exists va', r = VOk va' /\ va = a :: va'.
Proof. destruct r; cbn; intros E; try discriminate. injection E as <-. eauto. Qed.

Lemma validate_ok H w : forall specs args va,
  Forall (val_ok H (nA w)) args -> validate w specs args = VOk va -> Forall (varg_ok H (nA w)) va.
Proof.
  induction specs as [|sp rest IH]; intros args va F E; cbn [validate] in E.
  - destruct args; [injection E as <-; constructor|discriminate].
  - destruct args as [|a t].
    + repeat match type of E with
             | context [if ?c then _ else _] => destruct c
             | context [match a_type ?x with _ => _ end] => destruct (a_type x)
             end; try discriminate;
        apply vcons_ok in E; destruct E as (va' & E' & ->); (constructor; [cbn; auto|apply (IH [] va'); [constructor|exact E']]).
    + apply Forall_cons_iff in F. destruct F as [Ha Ft].
      assert (K : forall X Y va, (X = AV a \/ X = AL (a :: t) \/ (exists b, X = AV (VBool b))) -> (Y = t \/ Y = []) ->
                  vcons X (validate w rest Y) = VOk va -> Forall (varg_ok H (nA w)) va).
      { intros X Y va0 HX HY E0. apply vcons_ok in E0. destruct E0 as (va' & E' & ->). constructor.
        - destruct HX as [->|[->|[b ->]]]; cbn; auto.
        - apply (IH Y va'); [destruct HY as [->| ->]; auto|exact E']. }
      destruct (a_last sp); [eapply K; [| |exact E]; auto|].
      destruct (a_type sp);
        try (eapply K; [| |exact E]; eauto; fail);
        (destruct a; try discriminate;
         repeat match type of E with
                | context [if ?c then _ else _] => destruct c
                | context [match ?x with _ => _ end] => destruct x
                end; try discriminate; (eapply K; [| |exact E]; eauto)).
Qed.

Lemma lres_ok_ret_of H na r v : val_ok H na v -> lres_ok H na (ret_of r v).
Proof. intros Hv. destruct r; cbn; auto. Qed.

(* ---- leaves ---- *)
Lemma goodL_alloc_arr H w xs : wf H w -> Forall (val_ok H (nA w)) xs ->
  GoodL H w (LVal (VArr (length (w_arrs w))), upd_arrs w (w_arrs w ++ [xs])).
Proof.
  intros Hw F. destruct (wf_alloc_arr H w xs Hw F) as [W V]. exists H. cbn [fst snd].
  assert (L : nA (upd_arrs w (w_arrs w ++ [xs])) = S (nA w)) by (unfold nA; cbn; rewrite app_length; cbn; lia).
  rewrite L. split; [apply ext_grow; lia|]. split; [exact W|exact V].
Qed.

Lemma goodL_set_arr H w l xs r : wf H w -> val_ok H (nA w) (VArr l) -> Forall (val_ok H (nA w)) xs -> lres_ok H (nA w) r ->
  GoodL H w (r, set_arr w l xs).
Proof.
  intros Hw [_ Hn] F Hr. apply goodL_here; [apply nA_set_arr|apply wf_set_arr; assumption|rewrite nA_set_arr; exact Hr].
Qed.

Lemma goodL_alloc_obj H w kv : wf H w -> env_ok H (nA w) kv ->
  GoodL H w (LVal (VObj (length (w_objs w))), upd_objs w (w_objs w ++ [kv])).
Proof. intros Hw F. apply goodL_here; [reflexivity|apply wf_alloc_obj; assumption|exact I]. Qed.

Lemma goodL_set_obj H w l kv r : wf H w -> env_ok H (nA w) kv -> lres_ok H (nA w) r -> GoodL H w (r, set_obj w l kv).
Proof. intros Hw F Hr. apply goodL_here; [reflexivity|apply wf_set_obj; assumption|exact Hr]. Qed.

Lemma goodL_globals H w g r : wf H w -> env_ok H (nA w) g -> lres_ok H (nA w) r -> GoodL H w (r, upd_globals w g).
Proof. intros Hw F Hr. apply goodL_here; [reflexivity|apply wf_upd_globals; assumption|exact Hr]. Qed.

Lemma goodL_log H w s r : wf H w -> lres_ok H (nA w) r -> GoodL H w (r, add_log w s).
Proof. intros Hw Hr. apply goodL_here; [reflexivity|eapply wf_same; [| | |exact Hw]; reflexivity|exact Hr]. Qed.

Lemma goodL_id H w r : wf H w -> lres_ok H (nA w) r -> GoodL H w (r, w).
Proof. intros Hw Hr. apply goodL_here; [reflexivity|exact Hw|exact Hr]. Qed.

Lemma objnew_ok H na : forall fuel args acc o, Forall (val_ok H na) args -> env_ok H na acc ->
  objnew args acc fuel = Some o -> env_ok H na o.
Proof.
  induction fuel as [|f IH]; intros args acc o F A E; [destruct args; cbn in E; injection E as <-; exact A|].
  destruct args as [|a t]; cbn [objnew] in E; [injection E as <-; exact A|]. destruct a; try discriminate.
  destruct t as [|v t]; [injection E as <-; apply env_set_ok; [exact A|exact I]|].
  apply Forall_cons_iff in F. destruct F as [_ F]. apply Forall_cons_iff in F. destruct F as [Hv F].
  apply (IH t (env_set s v acc) o F); [apply env_set_ok; assumption|exact E].
Qed.

Lemma minmax_ok H na w want : forall vals cur r, Forall (val_ok H na) vals ->
  match cur with Some c => val_ok H na c | None => True end ->
  minmax w want vals cur = Some r -> match r with Some v => val_ok H na v | None => True end.
Proof.
  induction vals as [|v t IH]; intros cur r F C E; cbn [minmax] in E; [injection E as <-; exact C|].
  apply Forall_cons_iff in F. destruct F as [Hv F]. destruct cur as [c|]; [|apply (IH (Some v) r F Hv E)].
  destruct (vcompare (cmp_fuel w) w v c) as [cmp|]; [|discriminate].
  apply (IH _ r F) in E; [exact E|]. destruct cmp, want; assumption.
Qed.

Ltac inv_ok := repeat match goal with
  | F : Forall _ (_ :: _) |- _ => apply Forall_cons_iff in F; destruct F
  | F : varg_ok _ _ (AV _) |- _ => cbn [varg_ok] in F
  | F : varg_ok _ _ (AL _) |- _ => cbn [varg_ok] in F
  end.

Ltac lstep Hargs := match goal with
  | |- GoodL _ _ (if ?c then _ else _) => destruct c eqn:?
  | |- GoodL _ _ (match validate ?w ?s ?a with _ => _ end) =>
      let Ev := fresh "Ev" in destruct (validate w s a) as [?va| |] eqn:Ev; [apply (validate_ok _ _ _ _ _ Hargs) in Ev|..]
  | |- GoodL _ _ (match ?x with _ => _ end) => is_var x; destruct x; inv_ok
  | |- GoodL _ _ (match ?x with _ => _ end) => destruct x eqn:?
  end.

Theorem libcore_pres cfg (cb : caller) H name args w : wf H w -> Forall (val_ok H (nA w)) args ->
  GoodL H w (libcore cfg cb name args w).
Proof.
  intros Hw Hargs. unfold libcore, alloc_arr, alloc_obj.
  repeat lstep Hargs;
  try (apply goodL_id; [exact Hw|first [apply lres_ok_ret_of; cbn; auto; apply nth_ok; exact Hargs | cbn; auto]]; fail).
  all: try (apply goodL_log; [exact Hw|exact I]).
  all: try (apply goodL_alloc_arr; [exact Hw|first [exact Hargs|apply wf_get_arr; exact Hw]]).
  - (* arrayPush *) apply goodL_set_arr; auto. apply Forall_app. split; [apply wf_get_arr; exact Hw|assumption].
  - (* arrayGet *) apply goodL_id; [exact Hw|]. cbn. eapply nth_error_ok; [apply wf_get_arr; exact Hw|eassumption].
  - (* arraySet *) apply goodL_set_arr; auto. apply Forall_set_nth; [apply wf_get_arr; exact Hw|assumption].
  - (* objectNew *) apply goodL_alloc_obj; [exact Hw|]. eapply objnew_ok; [exact Hargs|constructor|eassumption].
  - (* objectGet *) apply goodL_id; [exact Hw|]. cbn. destruct (env_get s (get_obj w l)) eqn:E; [|assumption].
    eapply env_get_ok; [apply wf_get_obj; exact Hw|exact E].
  - (* objectSet *) apply goodL_set_obj; [exact Hw| |assumption]. apply env_set_ok; [apply wf_get_obj; exact Hw|assumption].
  - (* systemGlobalGet *) apply goodL_id; [exact Hw|]. cbn. destruct (env_get s (w_globals w)) eqn:E; [|assumption].
    eapply env_get_ok; [apply wf_globals; exact Hw|exact E].
  - (* systemGlobalSet *) apply goodL_globals; [exact Hw| |assumption]. apply env_set_ok; [apply wf_globals; exact Hw|assumption].
  - (* mathMax / mathMin *) apply goodL_id; [exact Hw|]. cbn.
    match goal with E : minmax _ _ _ _ = _ |- _ => exact (minmax_ok H (nA w) _ _ _ None _ Hargs I E) end.
  - (* __hostFirst *) apply goodL_id; [exact Hw|]. cbn. apply nth_ok. exact Hargs.
Qed.

(* ---- systemPartial: the fresh hidden array ---- *)
Lemma partial_loc_name l : partial_loc (partial_name l) = Some l.
Proof. unfold partial_loc, partial_name. rewrite Nnat.Nat2N.id. reflexivity. Qed.

Theorem partial_new_pres H args w : wf H w -> Forall (val_ok H (nA w)) args -> GoodL H w (lib_partial_new args w).
Proof.
  intros Hw Hargs. unfold lib_partial_new.
  destruct (validate w [A TFunction; ALast] args) as [va| |] eqn:Ev; try (apply goodL_id; [exact Hw|exact I]).
  apply (validate_ok _ _ _ _ _ Hargs) in Ev.
  destruct va as [|[f|] va]; try (apply goodL_id; [exact Hw|exact I]).
  destruct va as [|[|rest] va]; try (apply goodL_id; [exact Hw|exact I]).
  destruct va; try (apply goodL_id; [exact Hw|exact I]).
  inv_ok. destruct rest as [|b bs]; [apply goodL_id; [exact Hw|exact I]|].
  unfold alloc_arr. cbv beta iota zeta. exists (hid_add H (nA w)). cbn [fst snd].
  assert (L : nA (upd_arrs w (w_arrs w ++ [f :: b :: bs])) = S (nA w)) by (unfold nA; cbn; rewrite app_length; cbn; lia).
  rewrite L. split; [apply ext_add; exact Hw|]. split; [apply wf_alloc_hidden; [exact Hw|constructor; assumption]|].
  cbn [lres_ok val_ok fn_ok]. rewrite partial_loc_name. right. reflexivity.
Qed.
