(* Proofs/C01side.v — the `for` rules that Proofs/C01u.v does not have, and the definedness side conditions of its `for`
   rules made switchable.

   Proofs/C01u.v gives the block-structured language [unistmt] a structured reading [UExec] / [ULoop] whose `for` rules carry
   DEFINEDNESS side conditions (arrayLength / arrayGet still resolve to the library functions: [is_lib]; the body leaves the three
   bookkeeping variables alone: [Inv3]; element i exists when iteration i starts; the loop expression's value is an array).
   Two behaviours of the real lowering have NO rule there:

     (1) the loop expression's value is NOT an array: `arrayLength` fails its argument check, the call wrapper returns the
         function's fallback value 0 (and logs in debug mode), so the lowered code jumps to the done label: the body never runs,
         the value variable is not bound, but the values / length temporaries ARE assigned;
     (2) the body SHRINKS the array under the index: `arrayGet` out of range fails, the wrapper returns null (and logs in debug
         mode); the loop still runs the number of iterations taken at the start, the value variable is null from there on.

   This file defines [XExec EV chk] / [XLoop EV chk]: ALL rules of UExec / ULoop plus rules for (1) and (2).  The flag [chk]
   switches the remaining side conditions ([is_lib], [Inv3]): [XExec EV true] has them (and, for EV = Ev, contains UExec:
   [UExec_XExec]); [XExec EV false] is the reading WITHOUT them ("the expression evaluates; iterate over the live array").
   [EV] is the evaluation relation of expressions: [Ev], or [EvQ Q] = Ev restricted to evaluations satisfying Q.
   Proofs/C01side2.v proves that under a syntactic criterion XExec (EvQ ..) false implies XExec Ev true.

   [xsim]: the simulation theorem of Proofs/C01u.v ([usim]) for [XExec Ev true]: a fresh mutual induction with the same four
   invariants; the per-iteration machine lemmas of Proofs/C01forN.v ([to_inc_g], [advance_g], [iter_g], [head_*]) are reused, the
   two new machine facts are [head_notarr] and [iter_gone].
   New premises on the library: [arrayLength_fail_contract], [arrayGet_range_contract] (proved for Model/LibCore.v libcore below).
   [xexec qb] / [xexec_sound]: executable reading (qb: a decision procedure for the restriction Q of the evaluation relation). *)
From Coq Require Import Lia List Bool ZArith.
From BS Require Import Model.Base Model.Num Model.Arith Model.ExprParser Model.Script Model.Interp
                       Proofs.BaseFacts Proofs.InterpEq Proofs.Fuel Proofs.C08 Proofs.C01 Proofs.C01b Proofs.Blind Proofs.C01for Proofs.C01forN
                       Proofs.C01u.
Import ListNotations.

Definition not_arr (v : value) : bool := match v with VArr _ => false | _ => true end.

(* ---------------------------------------------------------------- contracts of the two library functions, failing cases *)
(* arrayLength of a non-array: the argument check fails; fallback value 0; the message the wrapper logs in debug mode is [msg] *)
Definition arrayLength_fail_contract (lib : caller -> str -> list value -> world -> lres * world) (msg : str) : Prop :=
  forall cb v w, not_arr v = true -> lib cb ARRLEN [v] w = (LArgs (int_v 0) msg, w).
(* arrayGet past the end of the array as it is now: fallback value null *)
Definition arrayGet_range_contract (lib : caller -> str -> list value -> world -> lres * world) (msg : str) : Prop :=
  forall cb l i w elems, nth_error (w_arrs w) l = Some elems -> nth_error elems i = None ->
    lib cb ARRGET [VArr l; int_v i] w = (LArgs VNull msg, w).

(* an evaluation relation for expressions (the reading is parametrized by it: [Ev] itself, or [Ev] restricted - Proofs/C01side2.v) *)
Definition evrel := expr -> option env -> world -> outcome -> world -> Prop.

(* a side condition that is only required when the flag is on *)
Definition sc (chk : bool) (P : Prop) : Prop := chk = true -> P.

Section Side.
Variable cfg : config.
Hypothesis Hunl : c_max cfg = 0%Z.
Variable lib : caller -> str -> list value -> world -> lres * world.
Variable url_rel : str -> str -> str.
Variable lint_lines : script -> list str.
Hypothesis Hlib : lib_fuel_monotone lib.
Variable um : umode.
Variable lab : lkind -> nat -> str.
Variable labc : nat -> str.
Variables len_msg get_msg : str.            (* the texts of the two failures (Model/LibCore.v: "args", "index") *)

Notation Ev := (C01.Ev cfg lib url_rel lint_lines um).
Notation Run := (C01.Run cfg lib url_rel lint_lines um).
Notation post := (C01.post cfg lib url_rel lint_lines um).
Notation eval := (eval cfg lib url_rel lint_lines).
Notation call := (call cfg lib url_rel lint_lines).
Notation for_code := (for_code lab labc).
Notation ucompile := (ucompile lab labc).
Notation ucrest := (ucrest lab labc).
Notation UPP := (UPP cfg lib url_rel lint_lines um lab labc).
Notation UIFB := (UIFB cfg lib url_rel lint_lines um lab labc).
Notation UQQ := (UQQ cfg lib url_rel lint_lines um lab labc).
Notation UWW := (UWW cfg lib url_rel lint_lines um lab labc).
Notation UALL := (UALL cfg lib url_rel lint_lines um lab labc).
Notation UPL := (UPL cfg lib url_rel lint_lines um lab labc).
Notation BodySim := (BodySim cfg lib url_rel lint_lines um).

Local Notation rlabel := (C01.run_label cfg Hunl lib url_rel lint_lines um).
Local Notation rexpr := (C01.run_expr cfg Hunl lib url_rel lint_lines Hlib um).
Local Notation rexpr_stop := (C01.run_expr_stop cfg Hunl lib url_rel lint_lines um).
Local Notation rreturn := (C01.run_return cfg Hunl lib url_rel lint_lines um).
Local Notation rreturn_none := (C01.run_return_none cfg Hunl lib url_rel lint_lines um).
Local Notation rjump := (C01.run_jump cfg Hunl lib url_rel lint_lines um).
Local Notation rjumpif := (C01.run_jumpif cfg Hunl lib url_rel lint_lines Hlib um).
Local Notation rjumpif_stop := (C01.run_jumpif_stop cfg Hunl lib url_rel lint_lines um).
Local Notation uif_PQ := (C01u.uif_PQ cfg lib url_rel lint_lines um lab labc).
Local Notation ucrest_shape := (C01u.ucrest_shape lab labc).
Local Notation uwhile_layout := (C01u.uwhile_layout lab labc).
Local Notation body_sim_of_UPP := (C01u.body_sim_of_UPP cfg lib url_rel lint_lines um lab labc).

Ltac run_at H := match type of H with C01.Run _ _ _ _ _ ?code ?p ?l ?w ?r =>
  match goal with |- C01.Run _ _ _ _ _ code ?q l w r => replace q with p by lia; exact H end end.
Ltac nth_at H := match type of H with nth_error ?code ?p = ?x =>
  match goal with |- nth_error code ?q = x => replace q with p by lia; exact H end end.

(* the wrapper's debug log line, on a state *)
Definition logw (w : world) (name msg : str) : world := log_if cfg (c_debug cfg) w (msg_fn_failed name msg).
Definition logst (name msg : str) (st : sstate) : sstate := (fst st, logw (snd st) name msg).

(* what iteration i finds in the array as it is now: element i, or nothing (then the value is null and the failure is logged) *)
Inductive IterX (arr i : nat) (st : sstate) : value -> sstate -> Prop :=
| IX_elem elems v : nth_error (w_arrs (snd st)) arr = Some elems -> nth_error elems i = Some v -> IterX arr i st v st
| IX_gone elems : nth_error (w_arrs (snd st)) arr = Some elems -> nth_error elems i = None ->
    IterX arr i st VNull (logst ARRGET get_msg st).

(* ---------------------------------------------------------------- the structured big-step reading, extended *)
Inductive XExec (EV : evrel) (chk : bool) : unistmt -> sstate -> sout -> sstate -> Prop :=
| Y_Skip s : XExec EV chk NSkip s SNormal s
| Y_SeqN a b s s1 o s2 : XExec EV chk a s SNormal s1 -> XExec EV chk b s1 o s2 -> XExec EV chk (NSeq a b) s o s2
| Y_SeqA a b s o s1 : XExec EV chk a s o s1 -> o <> SNormal -> XExec EV chk (NSeq a b) s o s1
| Y_Assign x e loc w v w1 : EV e loc w (OVal v) w1 -> XExec EV chk (NAssign x e) (loc, w) SNormal (assign x v loc w1)
| Y_AssignStop x e loc w o w1 : EV e loc w o w1 -> is_val o = false -> XExec EV chk (NAssign x e) (loc, w) (SStop o) (loc, w1)
| Y_Expr e loc w v w1 : EV e loc w (OVal v) w1 -> XExec EV chk (NExpr e) (loc, w) SNormal (loc, w1)
| Y_ExprStop e loc w o w1 : EV e loc w o w1 -> is_val o = false -> XExec EV chk (NExpr e) (loc, w) (SStop o) (loc, w1)
| Y_Return e loc w o w1 : EV e loc w o w1 -> XExec EV chk (NReturn (Some e)) (loc, w) (SStop o) (loc, w1)
| Y_ReturnNone s : XExec EV chk (NReturn None) s (SStop (OVal VNull)) s
| Y_Break s : XExec EV chk NBreak s SBreak s
| Y_Continue s : XExec EV chk NContinue s SContinue s
| Y_IfT c a rest loc w v w1 o s2 : EV c loc w (OVal v) w1 -> truthy w1 v = true -> XExec EV chk a (loc, w1) o s2 -> XExec EV chk (NIf c a rest) (loc, w) o s2
| Y_IfF c a rest loc w v w1 o s2 : EV c loc w (OVal v) w1 -> truthy w1 v = false -> XExec EV chk rest (loc, w1) o s2 -> XExec EV chk (NIf c a rest) (loc, w) o s2
| Y_IfStop c a rest loc w o w1 : EV c loc w o w1 -> is_val o = false -> XExec EV chk (NIf c a rest) (loc, w) (SStop o) (loc, w1)
| Y_Else b s o s1 : XExec EV chk b s o s1 -> XExec EV chk (NElse b) s o s1
| Y_WhileF c b loc w v w1 : EV c loc w (OVal v) w1 -> truthy w1 v = false -> XExec EV chk (NWhile c b) (loc, w) SNormal (loc, w1)
| Y_WhileStop c b loc w o w1 : EV c loc w o w1 -> is_val o = false -> XExec EV chk (NWhile c b) (loc, w) (SStop o) (loc, w1)
| Y_WhileT c b loc w v w1 o s2 o3 s3 : EV c loc w (OVal v) w1 -> truthy w1 v = true -> XExec EV chk b (loc, w1) o s2 ->
    (o = SNormal \/ o = SContinue) -> XExec EV chk (NWhile c b) s2 o3 s3 -> XExec EV chk (NWhile c b) (loc, w) o3 s3
| Y_WhileB c b loc w v w1 s2 : EV c loc w (OVal v) w1 -> truthy w1 v = true -> XExec EV chk b (loc, w1) SBreak s2 ->
    XExec EV chk (NWhile c b) (loc, w) SNormal s2
| Y_WhileS c b loc w v w1 o s2 : EV c loc w (OVal v) w1 -> truthy w1 v = true -> XExec EV chk b (loc, w1) (SStop o) s2 ->
    XExec EV chk (NWhile c b) (loc, w) (SStop o) s2
(* for: the expression is evaluated once and the length is taken once; the bookkeeping variables are recorded in the scope *)
| Y_ForStop vals len idx x e body loc w o w1 : EV e loc w o w1 -> is_val o = false ->
    XExec EV chk (NFor vals len idx x e body) (loc, w) (SStop o) (loc, w1)
(* NEW (1): the value is not an array: the body never runs and x is not bound; values / length temporaries are assigned *)
| Y_ForNotArr vals len idx x e body loc w v w1 : EV e loc w (OVal v) w1 -> not_arr v = true ->
    sc chk (is_lib ARRLEN (assign' vals v (loc, w1))) ->
    XExec EV chk (NFor vals len idx x e body) (loc, w) SNormal
          (assign' len (int_v 0) (logst ARRLEN len_msg (assign' vals v (loc, w1))))
| Y_ForEmpty vals len idx x e body loc w l w1 : EV e loc w (OVal (VArr l)) w1 -> nth_error (w_arrs w1) l = Some [] ->
    sc chk (is_lib ARRLEN (assign' vals (VArr l) (loc, w1))) ->
    XExec EV chk (NFor vals len idx x e body) (loc, w) SNormal (assign' len (int_v 0) (assign' vals (VArr l) (loc, w1)))
| Y_ForLoop vals len idx x e body loc w l w1 elems o st' :
    EV e loc w (OVal (VArr l)) w1 -> nth_error (w_arrs w1) l = Some elems -> elems <> [] ->
    sc chk (is_lib ARRLEN (assign' vals (VArr l) (loc, w1))) ->
    XLoop EV chk vals len idx x body l (length elems) 0
          (assign' idx (int_v 0) (assign' len (int_v (length elems)) (assign' vals (VArr l) (loc, w1)))) o st' ->
    XExec EV chk (NFor vals len idx x e body) (loc, w) o st'
(* iteration i binds x to element i of the array as it is in the heap then - NEW (2): to null when there is no element i any more *)
with XLoop (EV : evrel) (chk : bool) : str -> str -> str -> str -> unistmt -> nat -> nat -> nat -> sstate -> sout -> sstate -> Prop :=
| YL_stop vals len idx x body arr m i st v st_g out st_b : sc chk (is_lib ARRGET st) -> IterX arr i st v st_g ->
    XExec EV chk body (assign' x v st_g) (SStop out) st_b ->
    XLoop EV chk vals len idx x body arr m i st (SStop out) st_b
| YL_break vals len idx x body arr m i st v st_g st_b : sc chk (is_lib ARRGET st) -> IterX arr i st v st_g ->
    XExec EV chk body (assign' x v st_g) SBreak st_b ->
    XLoop EV chk vals len idx x body arr m i st SNormal st_b
| YL_next vals len idx x body arr m i st v st_g ob st_b o st' : sc chk (is_lib ARRGET st) -> IterX arr i st v st_g ->
    XExec EV chk body (assign' x v st_g) ob st_b ->
    (ob = SNormal \/ ob = SContinue) -> sc chk (Inv3 vals len idx arr m i st_b) -> S i < m ->
    XLoop EV chk vals len idx x body arr m (S i) (assign' idx (int_v (S i)) st_b) o st' ->
    XLoop EV chk vals len idx x body arr m i st o st'
| YL_last vals len idx x body arr m i st v st_g ob st_b : sc chk (is_lib ARRGET st) -> IterX arr i st v st_g ->
    XExec EV chk body (assign' x v st_g) ob st_b ->
    (ob = SNormal \/ ob = SContinue) -> sc chk (Inv3 vals len idx arr m i st_b) -> m <= S i ->
    XLoop EV chk vals len idx x body arr m i st SNormal (assign' idx (int_v (S i)) st_b).

Scheme XExec_mut := Minimality for XExec Sort Prop
  with XLoop_mut := Minimality for XLoop Sort Prop.
Combined Scheme X_both from XExec_mut, XLoop_mut.

(* the reading of Proofs/C01u.v is contained in the one with the side conditions on *)
Lemma UExec_XExec_both :
  (forall s st o st', UExec cfg lib url_rel lint_lines um s st o st' -> XExec Ev true s st o st') /\
  (forall vals len idx x body arr m i st o st', ULoop cfg lib url_rel lint_lines um vals len idx x body arr m i st o st' ->
     XLoop Ev true vals len idx x body arr m i st o st').
Proof.
  assert (HI : forall arr i st v, IterPre arr i st v -> sc true (is_lib ARRGET st) /\ IterX arr i st v st).
  { intros arr i st v (elems & Hf & Ha & He). split; [intros _; exact Hf|econstructor; eassumption]. }
  apply U_both; intros;
    try match goal with H : IterPre _ _ _ _ |- _ => apply HI in H; destruct H end;
    try (econstructor; solve [eauto | intros _; eauto]).
Qed.
Lemma UExec_XExec s st o st' : UExec cfg lib url_rel lint_lines um s st o st' -> XExec Ev true s st o st'.
Proof. apply UExec_XExec_both. Qed.

(* dropping side conditions *)
Lemma XExec_weaken_both EV :
  (forall s st o st', XExec EV true s st o st' -> XExec EV false s st o st') /\
  (forall vals len idx x body arr m i st o st', XLoop EV true vals len idx x body arr m i st o st' -> XLoop EV false vals len idx x body arr m i st o st').
Proof. apply X_both; intros; try (econstructor; solve [eauto | intros E; discriminate E]). Qed.

(* a larger evaluation relation *)
Lemma XExec_mono_both (EV EV' : evrel) chk : (forall e loc w o w1, EV e loc w o w1 -> EV' e loc w o w1) ->
  (forall s st o st', XExec EV chk s st o st' -> XExec EV' chk s st o st') /\
  (forall vals len idx x body arr m i st o st', XLoop EV chk vals len idx x body arr m i st o st' -> XLoop EV' chk vals len idx x body arr m i st o st').
Proof. intros HE. apply X_both; intros; try (econstructor; solve [eauto]). Qed.

(* ---------------------------------------------------------------- facts about `continue` *)
Lemma xhas_cont_sound EV chk :
  (forall s st o st', XExec EV chk s st o st' -> uhas_cont s = false -> o <> SContinue) /\
  (forall vals len idx x body arr m i st o st', XLoop EV chk vals len idx x body arr m i st o st' -> o <> SContinue).
Proof.
  apply X_both; intros; cbn [uhas_cont] in *; try discriminate; auto;
    repeat match goal with H : (_ || _)%bool = false |- _ => apply orb_false_elim in H; destruct H end; auto.
Qed.

(* ---------------------------------------------------------------- machine facts for the two new behaviours *)
Lemma weq_logw a b name msg : weq a b -> weq (logw a name msg) (logw b name msg).
Proof.
  unfold logw, log_if. intros H. destruct (c_debug cfg && c_haslog cfg)%bool; [|exact H].
  unfold weq in *. change (upd_count (add_log a (msg_fn_failed name msg)) 0) with (add_log (upd_count a 0) (msg_fn_failed name msg)).
  change (upd_count (add_log b (msg_fn_failed name msg)) 0) with (add_log (upd_count b 0) (msg_fn_failed name msg)).
  rewrite H. reflexivity.
Qed.
Lemma arrs_logw w name msg : w_arrs (logw w name msg) = w_arrs w.
Proof. unfold logw, log_if. destruct (c_debug cfg && c_haslog cfg)%bool; reflexivity. Qed.
Lemma globals_logw w name msg : w_globals (logw w name msg) = w_globals w.
Proof. unfold logw, log_if. destruct (c_debug cfg && c_haslog cfg)%bool; reflexivity. Qed.
Lemma slook_logst y name msg st : slook y (logst name msg st) = slook y st.
Proof. unfold slook, logst, lookup_var. cbn [fst snd]. rewrite globals_logw. reflexivity. Qed.

(* a call of a library function on variables whose wrapper catches a failure: fallback value, debug log *)
Lemma Ev_call_args name xs loc w ret msg :
  op_is name "if" = false -> lookup_fn name loc false w = Some (VFun (FLib name)) ->
  (forall cb, lib cb name (map (fun y => lookup_var y loc w) xs) w = (LArgs ret msg, w)) ->
  Ev (ECall name (map EVar xs)) loc w (OVal ret) (logw w name msg).
Proof.
  intros Hif Hfn Hl. exists 3. split; [|discriminate].
  rewrite eval_S. cbn [eval_body]. rewrite Hif. rewrite (eval_args_vars cfg lib url_rel lint_lines um). cbn [rev app]. rewrite Hfn.
  rewrite call_S. cbn [call_body]. rewrite Hl. reflexivity.
Qed.

(* one assignment statement whose right-hand side may change the world *)
Lemma step_assign_w code p y ex loc w2 wm wm2 v :
  nth_error code p = Some (SExpr (Some y) ex) -> Ev ex loc (tick wm) (OVal v) wm2 -> weq w2 wm2 ->
  exists wm', weq (snd (assign y v loc w2)) wm' /\ forall r, Run code (S p) (fst (assign y v loc w2)) wm' r -> Run code p loc wm r.
Proof.
  intros Hn He Hw. destruct (assign_weq y v loc _ _ Hw) as [Ef Ew].
  exists (snd (assign y v loc wm2)). split; [exact Ew|]. intros r Hr.
  eapply rexpr; [exact Hn|exact He|]. cbn beta iota. rewrite Ef in Hr. exact Hr.
Qed.

(* PREMISES on the library *)
Hypothesis Ev_blind : forall e loc w o w' wm, Ev e loc w o w' -> weq w wm -> exists wm', Ev e loc wm o wm' /\ weq w' wm'.
Hypothesis Hlen : arrayLength_contract lib.
Hypothesis Hget : arrayGet_contract lib.
Hypothesis Hlenf : arrayLength_fail_contract lib len_msg.
Hypothesis Hgetr : arrayGet_range_contract lib get_msg.

Section Layout.
Variables (vals len idx x : str) (e : expr).
Hypothesis Hnames : names_okb vals len idx = true.
Variables (code : list stmt) (pc n L c : nat) (hc : bool).
Hypothesis HN : NoDup (labels code).
Hypothesis Hc : c = if hc then 1 else 0.
Hypothesis P0 : nth_error code pc = Some (SExpr (Some vals) e).
Hypothesis P1 : nth_error code (pc + 1) = Some (SExpr (Some len) (ECall ARRLEN [EVar vals])).
Hypothesis P2 : nth_error code (pc + 2) = Some (SJump (lab KDone n) (Some (e_not (EVar len)))).
Hypothesis P4 : nth_error code (pc + 4) = Some (SLabel (lab KLoop n)).
Hypothesis P5 : nth_error code (pc + 5) = Some (SExpr (Some x) (ECall ARRGET [EVar vals; EVar idx])).
Hypothesis Pc : hc = true -> nth_error code (pc + 6 + L) = Some (SLabel (labc n)).
Hypothesis P6 : nth_error code (pc + 6 + L + c) = Some (SExpr (Some idx) (EBin (U "+") (EVar idx) (ENum (NInt 1)))).
Hypothesis P7 : nth_error code (pc + 7 + L + c) = Some (SJump (lab KLoop n) (Some (EBin (U "<") (EVar idx) (EVar len)))).
Hypothesis P8 : nth_error code (pc + 8 + L + c) = Some (SLabel (lab KDone n)).

Local Notation bpos := (Some (pc + 8 + L + c, if hc then pc + 6 + L else pc + 8 + L + c)).

(* (1) values = e; length = arrayLength(values) [fails: 0]; jumpif !length done *)
Lemma head_notarr loc w v w1 wm : Ev e loc w (OVal v) w1 -> not_arr v = true ->
  is_lib ARRLEN (assign' vals v (loc, w1)) -> weq w wm ->
  exists wm', weq (snd (assign' len (int_v 0) (logst ARRLEN len_msg (assign' vals v (loc, w1))))) wm' /\
    forall r, Run code (pc + 9 + L + c) (fst (assign' len (int_v 0) (logst ARRLEN len_msg (assign' vals v (loc, w1))))) wm' r -> Run code pc loc wm r.
Proof.
  destruct (names_facts _ _ _ Hnames) as (N1 & N2 & N3 & Q1 & Q2 & Q3). intros He Hna Hfn Hw.
  destruct (Ev_blind _ _ _ _ _ (tick wm) He (C01.weq_tick _ _ Hw)) as (wm1 & He1 & Hw1).
  destruct (assign_weq vals v loc _ _ Hw1) as [Ef Ew].
  set (st1 := assign' vals v (loc, w1)) in *.
  set (wm1' := snd (assign vals v loc wm1)) in *.
  assert (Ew' : weq (snd st1) wm1') by exact Ew.
  assert (Hel : Ev (ECall ARRLEN [EVar vals]) (fst st1) (tick wm1') (OVal (int_v 0)) (logw (tick wm1') ARRLEN len_msg)).
  { apply (Ev_call_args ARRLEN [vals]); [reflexivity| |].
    - rewrite <- (lookup_fn_weq _ _ _ _ _ (C01.weq_tick _ _ Ew')). exact Hfn.
    - intros cb0. cbn [map]. rewrite (slook_weq _ _ _ Ew'). unfold st1. rewrite slook_same by exact Q1. apply Hlenf. exact Hna. }
  destruct (step_assign_w code (pc + 1) len _ (fst st1) (logw (snd st1) ARRLEN len_msg) wm1' _ (int_v 0) P1 Hel
              (weq_logw _ _ _ _ (C01.weq_tick _ _ Ew'))) as (wm2 & Hw2 & Hr2).
  change (assign len (int_v 0) (fst st1) (logw (snd st1) ARRLEN len_msg)) with (assign' len (int_v 0) (logst ARRLEN len_msg st1)) in *.
  set (st2 := assign' len (int_v 0) (logst ARRLEN len_msg st1)) in *.
  assert (Hl2 : slook len st2 = int_v 0) by (unfold st2; apply slook_same; exact Q2).
  exists (tick wm2). split; [apply C01.weq_tick; exact Hw2|]. intros r Hr.
  eapply rexpr; [exact P0|exact He1|]. cbn beta iota.
  rewrite <- Ef. change (fst (assign vals v loc w1)) with (fst st1). change (snd (assign vals v loc wm1)) with wm1'.
  replace (S pc) with (pc + 1) by lia. apply Hr2. replace (S (pc + 1)) with (pc + 2) by lia.
  eapply rjumpif; [exact P2|apply Ev_not; apply (Ev_var cfg lib url_rel lint_lines um)|].
  rewrite (slook_weq _ _ _ Hw2). rewrite Hl2. rewrite truthy_int. cbn [negb truthy].
  exists (pc + 8 + L + c). split; [apply find_unique; [exact HN|exact P8]|]. run_at Hr.
Qed.

(* (2) x = arrayGet(values, index) [fails: null]; body *)
Lemma iter_gone arr m i st elems ob st_b wm : is_lib ARRGET st ->
  nth_error (w_arrs (snd st)) arr = Some elems -> nth_error elems i = None ->
  BodySim code pc L c hc (assign' x VNull (logst ARRGET get_msg st)) ob st_b ->
  Inv3 vals len idx arr m i st -> weq (snd st) wm ->
  exists wm_b, weq (snd st_b) wm_b /\ post code bpos (pc + 6 + L) ob (fst st_b) wm_b (pc + 5) (fst st) wm.
Proof.
  intros Hfn Harr Hel HB (Iv & Il & Ii) Hw.
  assert (He : Ev (ECall ARRGET [EVar vals; EVar idx]) (fst st) (tick wm) (OVal VNull) (logw (tick wm) ARRGET get_msg)).
  { apply (Ev_call_args ARRGET [vals; idx]); [reflexivity| |].
    - rewrite <- (lookup_fn_weq _ _ _ _ _ (C01.weq_tick _ _ Hw)). exact Hfn.
    - intros cb0. cbn [map]. rewrite !(slook_weq _ _ _ Hw). rewrite Iv, Ii. apply Hgetr with (elems := elems); [|exact Hel].
      rewrite <- (arrs_weq _ _ (C01.weq_tick _ _ Hw)). exact Harr. }
  destruct (step_assign_w code (pc + 5) x _ (fst st) (logw (snd st) ARRGET get_msg) wm _ VNull P5 He
              (weq_logw _ _ _ _ (C01.weq_tick _ _ Hw))) as (wm_a & Hwa & Hra).
  change (assign x VNull (fst st) (logw (snd st) ARRGET get_msg)) with (assign' x VNull (logst ARRGET get_msg st)) in *.
  destruct (HB wm_a Hwa) as (wm_b & Hwb & Hp).
  exists wm_b. split; [exact Hwb|]. eapply post_pre; [|exact Hp]. intros r Hr. apply Hra. run_at Hr.
Qed.

(* x = arrayGet(values, index); body - either way *)
Lemma iter_x arr m i st v st_g ob st_b wm : is_lib ARRGET st -> IterX arr i st v st_g ->
  BodySim code pc L c hc (assign' x v st_g) ob st_b -> Inv3 vals len idx arr m i st -> weq (snd st) wm ->
  exists wm_b, weq (snd st_b) wm_b /\ post code bpos (pc + 6 + L) ob (fst st_b) wm_b (pc + 5) (fst st) wm.
Proof.
  intros Hfn [elems v' Ha He|elems Ha He] HB HI Hw.
  - refine (iter_g cfg Hunl lib url_rel lint_lines Hlib um Hget vals len idx x code pc L c hc Hc P5 arr m i st v' ob st_b wm _ HB HI Hw).
    exists elems. auto.
  - eapply iter_gone; eassumption.
Qed.

Variable cpos : option (nat * nat).
Local Notation LoopSim := (LoopSim cfg lib url_rel lint_lines um vals len idx code pc L c cpos).
Local Notation to_inc := (to_inc_g cfg Hunl lib url_rel lint_lines um labc code pc n L c hc Hc Pc).
Local Notation advance := (advance_g cfg Hunl lib url_rel lint_lines Hlib um lab vals len idx Hnames code pc n L c hc HN Hc P4 P6 P7).

Lemma xloop_stop arr m i st v st_g out st_b : is_lib ARRGET st -> IterX arr i st v st_g ->
  BodySim code pc L c hc (assign' x v st_g) (SStop out) st_b -> LoopSim arr m i st (SStop out) st_b.
Proof.
  intros Hfn Hit HB HI0 wm Hw. destruct (iter_x _ _ _ _ _ _ _ _ _ Hfn Hit HB HI0 Hw) as (wm_b & Hwb & Hp).
  exists wm_b. split; [exact Hwb|exact Hp].
Qed.
Lemma xloop_break arr m i st v st_g st_b : is_lib ARRGET st -> IterX arr i st v st_g ->
  BodySim code pc L c hc (assign' x v st_g) SBreak st_b -> LoopSim arr m i st SNormal st_b.
Proof.
  intros Hfn Hit HB HI0 wm Hw. destruct (iter_x _ _ _ _ _ _ _ _ _ Hfn Hit HB HI0 Hw) as (wm_b & Hwb & Hp).
  exists wm_b. split; [exact Hwb|]. cbn [C01.post] in *. intros r Hr. apply Hp. run_at Hr.
Qed.
Lemma xloop_next arr m i st v st_g ob st_b o st' : is_lib ARRGET st -> IterX arr i st v st_g ->
  BodySim code pc L c hc (assign' x v st_g) ob st_b ->
  (ob = SNormal \/ ob = SContinue) -> (ob = SContinue -> hc = true) -> Inv3 vals len idx arr m i st_b -> S i < m ->
  LoopSim arr m (S i) (assign' idx (int_v (S i)) st_b) o st' -> LoopSim arr m i st o st'.
Proof.
  intros Hfn Hit HB Ho Hhc HI Hlt IH HI0 wm Hw. destruct (iter_x _ _ _ _ _ _ _ _ _ Hfn Hit HB HI0 Hw) as (wm_b & Hwb & Hp).
  destruct (to_inc _ _ _ _ _ _ Ho Hhc Hp) as (wm2 & Hw2 & Hr2).
  destruct (advance _ _ _ _ wm2 HI (weq_trans _ _ _ Hwb Hw2)) as (wm_c & Hwc & Hrc).
  apply Nat.ltb_lt in Hlt. rewrite Hlt in Hrc.
  destruct (IH (Inv3_next _ _ _ Hnames _ _ _ _ HI) wm_c Hwc) as (wm' & Hw' & Hp'). exists wm'. split; [exact Hw'|].
  eapply post_pre; [|exact Hp']. intros r Hr. apply Hr2. apply Hrc. exact Hr.
Qed.
Lemma xloop_last arr m i st v st_g ob st_b : is_lib ARRGET st -> IterX arr i st v st_g ->
  BodySim code pc L c hc (assign' x v st_g) ob st_b ->
  (ob = SNormal \/ ob = SContinue) -> (ob = SContinue -> hc = true) -> Inv3 vals len idx arr m i st_b -> m <= S i ->
  LoopSim arr m i st SNormal (assign' idx (int_v (S i)) st_b).
Proof.
  intros Hfn Hit HB Ho Hhc HI Hge HI0 wm Hw. destruct (iter_x _ _ _ _ _ _ _ _ _ Hfn Hit HB HI0 Hw) as (wm_b & Hwb & Hp).
  destruct (to_inc _ _ _ _ _ _ Ho Hhc Hp) as (wm2 & Hw2 & Hr2).
  destruct (advance _ _ _ _ wm2 HI (weq_trans _ _ _ Hwb Hw2)) as (wm_c & Hwc & Hrc).
  apply Nat.ltb_ge in Hge. rewrite Hge in Hrc.
  exists (tick wm_c). split; [apply C01.weq_tick; exact Hwc|]. cbn [C01.post]. intros r Hr. apply Hr2. apply Hrc.
  eapply rlabel; [exact P8|]. run_at Hr.
Qed.

End Layout.

(* ---------------------------------------------------------------- the simulation *)
Ltac triv_Q := let Hr := fresh in intros ? ? ? ? ? ? ? ? _ _ _ _ Hr; discriminate Hr.
Ltac triv_W := let E := fresh in intros ? ? E; discriminate E.
Ltac leaf := split; [|split; [triv_Q|triv_W]].


Theorem xsim_both :
  (forall s st o st', XExec Ev true s st o st' -> UALL s st o st') /\
  (forall vals len idx x body arr m i st o st', XLoop Ev true vals len idx x body arr m i st o st' -> UPL vals len idx x body arr m i st o st').
Proof.
  assert (Hhc : forall body st_a ob st_b, XExec Ev true body st_a ob st_b -> ob = SContinue -> uhas_cont body = true).
  { intros body st_a ob st_b Hb ->. destruct (uhas_cont body) eqn:E; [reflexivity|].
    exfalso. exact (proj1 (xhas_cont_sound Ev true) _ _ _ _ Hb E eq_refl). }
  apply (X_both Ev true); unfold C01u.UALL.
  - (* Skip *)
    intros st. split; [|split; [|triv_W]].
    + intros code ctx cpos n pc wm _ _ _ _ _ Hw. exists wm. split; [exact Hw|]. cbn. rewrite PeanoNat.Nat.add_0_r. auto.
    + intros code ctx cpos done jl n pc wm _ _ _ _ _ Hne. congruence.
  - (* Seq, first part normal *)
    intros a b st st1 o st2 Ha IHa Hb IHb.
    destruct IHa as [IHa _]. destruct IHb as [IHb _]. leaf.
    intros code ctx cpos n pc wm HN Hc Hwf Hg Hat Hw. cbn [uwf uguard] in *. rewrite ucompile_seq_eq in Hat |- *.
    apply andb_prop in Hwf. destruct Hwf as [Hwa Hwb]. apply andb_prop in Hg. destruct Hg as [Hga Hgb].
    specialize (IHa code ctx cpos n pc wm HN Hc Hwa Hga).
    destruct (ucompile ctx n a) as [ca n1]. cbn [fst snd] in *.
    specialize (IHb code ctx cpos n1 (pc + length ca)).
    destruct (ucompile ctx n1 b) as [cb n2]. cbn [fst snd] in *.
    apply code_at_app in Hat. destruct Hat as [Hata Hatb].
    destruct (IHa Hata Hw) as (wm1 & Hw1 & Hp1). cbn [C01.post] in Hp1.
    destruct (IHb wm1 HN Hc Hwb Hgb Hatb Hw1) as (wm2 & Hw2 & Hp2).
    exists wm2. split; [exact Hw2|]. rewrite app_length. rewrite PeanoNat.Nat.add_assoc.
    eapply post_pre; [exact Hp1|exact Hp2].
  - (* Seq, first part abrupt *)
    intros a b st o st1 Ha IHa Hno.
    destruct IHa as [IHa _]. leaf.
    intros code ctx cpos n pc wm HN Hc Hwf Hg Hat Hw. cbn [uwf uguard] in *. rewrite ucompile_seq_eq in Hat |- *.
    apply andb_prop in Hwf. destruct Hwf as [Hwa Hwb]. apply andb_prop in Hg. destruct Hg as [Hga Hgb].
    specialize (IHa code ctx cpos n pc wm HN Hc Hwa Hga).
    destruct (ucompile ctx n a) as [ca n1]. cbn [fst snd] in *. destruct (ucompile ctx n1 b) as [cb n2]. cbn [fst snd] in *.
    apply code_at_app in Hat. destruct Hat as [Hata _].
    destruct (IHa Hata Hw) as (wm1 & Hw1 & Hp1). exists wm1. split; [exact Hw1|].
    eapply post_end_irrel; [exact Hno|exact Hp1].
  - (* Assign *)
    intros x e loc w v w1 He. leaf.
    intros code ctx cpos n pc wm _ _ _ _ Hat Hw. cbn [ucompile fst length] in *. apply code_at_cons in Hat. destruct Hat as [Hn _].
    destruct (Ev_blind _ _ _ _ _ (tick wm) He (C01.weq_tick _ _ Hw)) as (wm1 & He1 & Hw1).
    destruct (assign_weq x v loc _ _ Hw1) as [Ef Ew].
    exists (snd (assign x v loc wm1)). split; [exact Ew|]. cbn [C01.post]. rewrite Ef. cbn [fst].
    intros r Hr. eapply rexpr; [exact Hn|exact He1|]. cbn beta iota. replace (pc + 1) with (S pc) in Hr by lia. exact Hr.
  - (* Assign, evaluation stops *)
    intros x e loc w o w1 He Hv. leaf.
    intros code ctx cpos n pc wm _ _ _ _ Hat Hw. cbn [ucompile fst length] in *. apply code_at_cons in Hat. destruct Hat as [Hn _].
    destruct (Ev_blind _ _ _ _ _ (tick wm) He (C01.weq_tick _ _ Hw)) as (wm1 & He1 & Hw1).
    exists wm1. split; [exact Hw1|]. cbn [C01.post fst]. eapply rexpr_stop; eassumption.
  - (* Expr *)
    intros e loc w v w1 He. leaf.
    intros code ctx cpos n pc wm _ _ _ _ Hat Hw. cbn [ucompile fst length] in *. apply code_at_cons in Hat. destruct Hat as [Hn _].
    destruct (Ev_blind _ _ _ _ _ (tick wm) He (C01.weq_tick _ _ Hw)) as (wm1 & He1 & Hw1).
    exists wm1. split; [exact Hw1|]. cbn [C01.post fst]. intros r Hr. eapply rexpr; [exact Hn|exact He1|].
    cbn beta iota. replace (pc + 1) with (S pc) in Hr by lia. exact Hr.
  - (* Expr, evaluation stops *)
    intros e loc w o w1 He Hv. leaf.
    intros code ctx cpos n pc wm _ _ _ _ Hat Hw. cbn [ucompile fst length] in *. apply code_at_cons in Hat. destruct Hat as [Hn _].
    destruct (Ev_blind _ _ _ _ _ (tick wm) He (C01.weq_tick _ _ Hw)) as (wm1 & He1 & Hw1).
    exists wm1. split; [exact Hw1|]. cbn [C01.post fst]. eapply rexpr_stop; eassumption.
  - (* Return e *)
    intros e loc w o w1 He. leaf.
    intros code ctx cpos n pc wm _ _ _ _ Hat Hw. cbn [ucompile fst length] in *. apply code_at_cons in Hat. destruct Hat as [Hn _].
    destruct (Ev_blind _ _ _ _ _ (tick wm) He (C01.weq_tick _ _ Hw)) as (wm1 & He1 & Hw1).
    exists wm1. split; [exact Hw1|]. cbn [C01.post fst]. eapply rreturn; eassumption.
  - (* Return *)
    intros st. leaf.
    intros code ctx cpos n pc wm _ _ _ _ Hat Hw. cbn [ucompile fst length] in *. apply code_at_cons in Hat. destruct Hat as [Hn _].
    exists (tick wm). split; [apply C01.weq_tick; exact Hw|]. cbn [C01.post]. apply rreturn_none. exact Hn.
  - (* Break *)
    intros st. leaf.
    intros code ctx cpos n pc wm HN Hc Hwf _ Hat Hw. cbn [uwf] in Hwf.
    destruct ctx as [[brk cnt]|]; [|discriminate]. destruct cpos as [[ib ic]|]; [|contradiction]. destruct Hc as [Hib Hic].
    cbn [ucompile fst length] in *. apply code_at_cons in Hat. destruct Hat as [Hn _].
    exists (tick wm). split; [apply C01.weq_tick; exact Hw|]. cbn [C01.post]. intros r Hr.
    eapply rjump; [exact Hn|apply find_unique; eassumption|exact Hr].
  - (* Continue *)
    intros st. leaf.
    intros code ctx cpos n pc wm HN Hc Hwf _ Hat Hw. cbn [uwf] in Hwf.
    destruct ctx as [[brk cnt]|]; [|discriminate]. destruct cpos as [[ib ic]|]; [|contradiction]. destruct Hc as [Hib Hic].
    cbn [ucompile fst length] in *. apply code_at_cons in Hat. destruct Hat as [Hn _].
    exists (tick wm). split; [apply C01.weq_tick; exact Hw|]. cbn [C01.post]. intros r Hr.
    eapply rjump; [exact Hn|apply find_unique; eassumption|exact Hr].
  - (* If, condition truthy *)
    intros c a rest loc w v w1 o st2 He Ht Ha IHa.
    destruct IHa as [IHa _].
    assert (HB : UIFB c a rest (loc, w) o st2).
    { intros code ctx cpos done jl n pc wm HN Hc Hwf Hg Hat Hw. cbn [uwf uguard] in Hwf, Hg.
      apply andb_prop in Hwf. destruct Hwf as [Hwf Hro]. apply andb_prop in Hwf. destruct Hwf as [Hwa Hwr].
      apply andb_prop in Hg. destruct Hg as [Hga Hgr]. cbn [fst snd] in *.
      specialize (IHa code ctx cpos (S n) (S pc)).
      destruct (ucompile ctx (S n) a) as [ca n1]. cbn [fst snd] in *.
      remember (ucrest ctx done jl n1 rest) as crp eqn:Ecr. destruct crp as [cr n2]. cbn [fst snd] in *.
      apply code_at_cons in Hat. destruct Hat as [Hhead Hat]. apply code_at_app in Hat. destruct Hat as [Hata Hatr].
      destruct (Ev_blind _ _ _ _ _ (tick wm) He (C01.weq_tick _ _ Hw)) as (wm1 & He1 & Hw1).
      rewrite (truthy_weq _ _ v Hw1) in Ht.
      destruct (IHa wm1 HN Hc Hwa Hga Hata Hw1) as (wm2 & Hw2 & Hp2).
      assert (Hin : forall r, Run code (S pc) loc wm1 r -> Run code pc loc wm r).
      { intros r Hr. unfold ubranch_head in Hhead. eapply rjumpif; [exact Hhead|apply Ev_not; exact He1|].
        rewrite Ht. cbn [negb truthy]. exact Hr. }
      (* after the taken branch: to the end of the chain *)
      assert (Hout : forall loc2 r, Run code (pc + S (length ca + length cr + 1)) loc2 (tick wm2) r -> Run code (S pc + length ca) loc2 wm2 r).
      { intros loc2 r Hr. destruct (unistmt_skip_dec rest) as [Hs|Hne].
        - (* endif *) subst rest. cbn [ucrest] in Ecr. injection Ecr as -> ->. cbn [app length] in *.
          apply code_at_cons in Hatr. destruct Hatr as [Hd _].
          eapply rlabel; [exact Hd|]. run_at Hr.
        - (* elif / else: jump over the rest of the chain *)
          destruct (ucrest_shape ctx done jl n1 rest Hro Hne) as (tl & Etl). rewrite <- Ecr in Etl. cbn [fst] in Etl.
          destruct (rest_layout _ _ _ _ _ _ Etl Hatr) as (Hj & _ & Hd).
          eapply rjump; [exact Hj|apply find_unique; [exact HN|exact Hd]|].
          run_at Hr. }
      destruct o.
      - exists (tick wm2). split; [apply C01.weq_tick; exact Hw2|]. cbn [C01.post] in *. intros r Hr. apply Hin. apply Hp2. apply Hout. exact Hr.
      - exists wm2. split; [exact Hw2|]. eapply post_pre; [exact Hin|]. eapply post_end_irrel; [discriminate|exact Hp2].
      - exists wm2. split; [exact Hw2|]. eapply post_pre; [exact Hin|]. eapply post_end_irrel; [discriminate|exact Hp2].
      - exists wm2. split; [exact Hw2|]. eapply post_pre; [exact Hin|]. eapply post_end_irrel; [discriminate|exact Hp2]. }
    destruct (uif_PQ _ _ _ _ _ _ HB) as [HP HQ]. split; [exact HP|split; [exact HQ|triv_W]].
  - (* If, condition falsy: the rest of the chain *)
    intros c a rest loc w v w1 o st2 He Ht Hr IHr.
    destruct IHr as (IHrP & IHrQ & _).
    assert (HB : UIFB c a rest (loc, w) o st2).
    { intros code ctx cpos done jl n pc wm HN Hc Hwf Hg Hat Hw. cbn [uwf uguard] in Hwf, Hg.
      apply andb_prop in Hwf. destruct Hwf as [Hwf Hro]. apply andb_prop in Hwf. destruct Hwf as [Hwa Hwr].
      apply andb_prop in Hg. destruct Hg as [Hga Hgr]. cbn [fst snd] in *.
      destruct (ucompile ctx (S n) a) as [ca n1]. cbn [fst snd] in *.
      specialize (IHrQ code ctx cpos done jl n1 (S pc + length ca)).
      remember (ucrest ctx done jl n1 rest) as crp eqn:Ecr. destruct crp as [cr n2]. cbn [fst snd] in *.
      apply code_at_cons in Hat. destruct Hat as [Hhead Hat]. apply code_at_app in Hat. destruct Hat as [Hata Hatr].
      destruct (Ev_blind _ _ _ _ _ (tick wm) He (C01.weq_tick _ _ Hw)) as (wm1 & He1 & Hw1).
      rewrite (truthy_weq _ _ v Hw1) in Ht.
      destruct (unistmt_skip_dec rest) as [Hs|Hne].
      - (* endif: the retargeted jump goes to the done label *)
        subst rest. inversion Hr; subst. cbn [ucrest] in Ecr. injection Ecr as -> ->. cbn [app length] in *.
        apply code_at_cons in Hatr. destruct Hatr as [Hd _].
        exists wm1. split; [exact Hw1|]. cbn [C01.post fst]. intros r Hr'.
        unfold ubranch_head in Hhead. eapply rjumpif; [exact Hhead|apply Ev_not; exact He1|].
        rewrite Ht. cbn [negb truthy]. eexists; split; [apply find_unique; [exact HN|exact Hd]|].
        run_at Hr'.
      - (* elif / else: the jump goes to this branch's If label, right before the rest of the chain *)
        destruct (IHrQ wm1 HN Hc Hwr Hgr Hro Hne Hatr Hw1) as (wm2 & Hw2 & Hp2).
        exists wm2. split; [exact Hw2|].
        replace (pc + S (length ca + length cr + 1)) with (S pc + length ca + length cr + 1) by lia.
        eapply post_pre; [|exact Hp2]. intros r Hr'.
        destruct (ucrest_shape ctx done jl n1 rest Hro Hne) as (tl & Etl). rewrite <- Ecr in Etl. cbn [fst] in Etl.
        destruct (rest_layout _ _ _ _ _ _ Etl Hatr) as (_ & Hl & _).
        assert (Hh : nth_error code pc = Some (SJump jl (Some (e_not c)))).
        { unfold ubranch_head in Hhead. destruct rest; try exact Hhead. congruence. }
        eapply rjumpif; [exact Hh|apply Ev_not; exact He1|].
        rewrite Ht. cbn [negb truthy]. eexists; split; [apply find_unique; [exact HN|exact Hl]|].
        run_at Hr'. }
    destruct (uif_PQ _ _ _ _ _ _ HB) as [HP HQ]. split; [exact HP|split; [exact HQ|triv_W]].
  - (* If, the condition's evaluation stops *)
    intros c a rest loc w o w1 He Hv.
    assert (HB : UIFB c a rest (loc, w) (SStop o) (loc, w1)).
    { intros code ctx cpos done jl n pc wm HN Hc Hwf Hg Hat Hw. cbn [fst snd] in *.
      apply code_at_cons in Hat. destruct Hat as [Hhead _].
      destruct (Ev_blind _ _ _ _ _ (tick wm) He (C01.weq_tick _ _ Hw)) as (wm1 & He1 & Hw1).
      exists wm1. split; [exact Hw1|]. cbn [C01.post]. unfold ubranch_head in Hhead.
      eapply rjumpif_stop; [exact Hhead|apply Ev_not_stop; eassumption|exact Hv]. }
    destruct (uif_PQ _ _ _ _ _ _ HB) as [HP HQ]. split; [exact HP|split; [exact HQ|triv_W]].
  - (* Else *)
    intros b st o st1 Hb IHb.
    destruct IHb as [IHb _]. split; [|split; [|triv_W]].
    + intros code ctx cpos n pc wm HN Hc Hwf Hg Hat Hw. cbn [uwf uguard] in *. rewrite ucompile_else_eq in Hat |- *. apply IHb; assumption.
    + intros code ctx cpos done jl n pc wm HN Hc Hwf Hg _ _ Hat Hw. cbn [uwf uguard] in *. rewrite ucrest_else_eq in Hat |- *.
      specialize (IHb code ctx cpos n (pc + 2) wm HN Hc Hwf Hg).
      destruct (ucompile ctx n b) as [cb n2]. cbn [fst snd] in *.
      rewrite <- app_assoc in Hat. apply code_at_app in Hat. destruct Hat as [_ Hat]. cbn [length] in Hat.
      apply code_at_app in Hat. destruct Hat as [Hatb Hd]. apply code_at_cons in Hd. destruct Hd as [Hd _].
      destruct (IHb Hatb Hw) as (wm1 & Hw1 & Hp1).
      destruct (sout_normal_dec o) as [->|Hno].
      * exists (tick wm1). split; [apply C01.weq_tick; exact Hw1|]. cbn [C01.post] in *. intros r Hr. apply Hp1.
        eapply rlabel; [exact Hd|]. rewrite app_length in Hr. cbn [length] in Hr.
        run_at Hr.
      * exists wm1. split; [exact Hw1|]. eapply post_end_irrel; [exact Hno|exact Hp1].
  - (* While, condition falsy *)
    intros c b loc w v w1 He Ht.
    assert (HW : UWW (NWhile c b) (loc, w) SNormal (loc, w1) /\ UPP (NWhile c b) (loc, w) SNormal (loc, w1)).
    { split.
      - intros c' b' E code ctx cpos n pc wm HN Hc Hwb Hnc Hgb Hat Hw. injection E as <- <-.
        destruct (uwhile_layout _ _ _ _ _ _ Hat) as (H0 & H1 & Hb & H2 & H3 & Hlen'). cbn zeta in *.
        destruct (Ev_blind _ _ _ _ _ (tick wm) He (C01.weq_tick _ _ Hw)) as (wm1 & He1 & Hw1).
        rewrite (truthy_weq _ _ v Hw1) in Ht. cbn [fst snd].
        exists (tick wm1). split; [apply C01.weq_tick; exact Hw1|]. cbn [C01.post]. intros r Hr.
        eapply rjumpif; [exact H2|exact He1|]. rewrite Ht.
        eapply rlabel; [exact H3|].
        rewrite Hlen' in Hr. run_at Hr.
      - intros code ctx cpos n pc wm HN Hc Hwf Hg Hat Hw. cbn [uwf uguard] in Hwf, Hg.
        destruct (uwhile_layout _ _ _ _ _ _ Hat) as (H0 & H1 & Hb & H2 & H3 & Hlen'). cbn zeta in *.
        destruct (Ev_blind _ _ _ _ _ (tick wm) He (C01.weq_tick _ _ Hw)) as (wm1 & He1 & Hw1).
        rewrite (truthy_weq _ _ v Hw1) in Ht. cbn [fst snd].
        exists wm1. split; [exact Hw1|]. cbn [C01.post]. intros r Hr.
        eapply rjumpif; [exact H0|apply Ev_not; exact He1|]. rewrite Ht. cbn [negb truthy].
        eexists; split; [apply find_unique; [exact HN|exact H3]|].
        rewrite Hlen' in Hr. run_at Hr. }
    destruct HW as [HW HP]. split; [exact HP|split; [triv_Q|exact HW]].
  - (* While, the condition's evaluation stops *)
    intros c b loc w o w1 He Hv.
    split; [|split; [triv_Q|]].
    + intros code ctx cpos n pc wm HN Hc Hwf Hg Hat Hw.
      destruct (uwhile_layout _ _ _ _ _ _ Hat) as (H0 & _). cbn zeta in *.
      destruct (Ev_blind _ _ _ _ _ (tick wm) He (C01.weq_tick _ _ Hw)) as (wm1 & He1 & Hw1).
      exists wm1. split; [exact Hw1|]. cbn [C01.post fst]. eapply rjumpif_stop; [exact H0|apply Ev_not_stop; eassumption|exact Hv].
    + intros c' b' E code ctx cpos n pc wm HN Hc Hwb Hnc Hgb Hat Hw. injection E as <- <-.
      destruct (uwhile_layout _ _ _ _ _ _ Hat) as (_ & _ & _ & H2 & _). cbn zeta in *.
      destruct (Ev_blind _ _ _ _ _ (tick wm) He (C01.weq_tick _ _ Hw)) as (wm1 & He1 & Hw1).
      exists wm1. split; [exact Hw1|]. cbn [C01.post fst]. eapply rjumpif_stop; eassumption.
  - (* While, one more iteration *)
    intros c b loc w v w1 o st2 o3 st3 He Ht Hb IHb Ho Hwh IHw.
    destruct IHb as [IHb _]. destruct IHw as (_ & _ & IHw).
    assert (Hcore : forall code ctx cpos n pc wm1, NoDup (labels code) -> uwf true b = true -> uhas_cont b = false -> uguard b = true ->
              code_at code pc (fst (ucompile ctx n (NWhile c b))) -> weq w1 wm1 -> cont_ok code ctx cpos ->
              exists wm', weq (snd st3) wm' /\ post code cpos (pc + length (fst (ucompile ctx n (NWhile c b)))) o3 (fst st3) wm' (pc + 2) loc wm1).
    { intros code ctx cpos n pc wm1 HN Hwb Hnc Hgb Hat Hw1 Hc.
      destruct (uwhile_layout _ _ _ _ _ _ Hat) as (H0 & H1 & Hatb & H2 & H3 & Hlen'). cbn zeta in *.
      assert (Hcb : cont_ok code (Some (lab KDone n, lab KLoop n)) (Some (S (pc + 2 + length (fst (ucompile (Some (lab KDone n, lab KLoop n)) (S n) b))), S pc))).
      { split; assumption. }
      destruct (IHb code _ _ (S n) (pc + 2) wm1 HN Hcb Hwb Hgb Hatb Hw1) as (wm2 & Hw2 & Hp2).
      assert (Hoc : o = SNormal).
      { destruct Ho as [->| ->]; [reflexivity|]. exfalso. exact (proj1 (xhas_cont_sound Ev true) _ _ _ _ Hb Hnc eq_refl). }
      subst o. cbn [C01.post] in Hp2.
      destruct (IHw c b eq_refl code ctx cpos n pc wm2 HN Hc Hwb Hnc Hgb Hat Hw2) as (wm3 & Hw3 & Hp3).
      exists wm3. split; [exact Hw3|]. eapply post_pre; [exact Hp2|exact Hp3]. }
    split; [|split; [triv_Q|]].
    + intros code ctx cpos n pc wm HN Hc Hwf Hg Hat Hw. cbn [uwf uguard] in Hwf, Hg. apply andb_prop in Hg. destruct Hg as [Hnc Hgb].
      apply negb_true_iff in Hnc.
      destruct (uwhile_layout _ _ _ _ _ _ Hat) as (H0 & H1 & _). cbn zeta in *.
      destruct (Ev_blind _ _ _ _ _ (tick wm) He (C01.weq_tick _ _ Hw)) as (wm1 & He1 & Hw1).
      rewrite (truthy_weq _ _ v Hw1) in Ht.
      destruct (Hcore code ctx cpos n pc (tick wm1) HN Hwf Hnc Hgb Hat (C01.weq_tick _ _ Hw1) Hc) as (wm3 & Hw3 & Hp3).
      exists wm3. split; [exact Hw3|]. cbn [fst snd] in *. eapply post_pre; [|exact Hp3]. intros r Hr.
      eapply rjumpif; [exact H0|apply Ev_not; exact He1|]. rewrite Ht. cbn [negb truthy].
      eapply rlabel; [exact H1|]. run_at Hr.
    + intros c' b' E code ctx cpos n pc wm HN Hc Hwb Hnc Hgb Hat Hw. injection E as <- <-.
      destruct (uwhile_layout _ _ _ _ _ _ Hat) as (_ & H1 & _ & H2 & _). cbn zeta in *.
      destruct (Ev_blind _ _ _ _ _ (tick wm) He (C01.weq_tick _ _ Hw)) as (wm1 & He1 & Hw1).
      rewrite (truthy_weq _ _ v Hw1) in Ht.
      destruct (Hcore code ctx cpos n pc wm1 HN Hwb Hnc Hgb Hat Hw1 Hc) as (wm3 & Hw3 & Hp3).
      exists wm3. split; [exact Hw3|]. cbn [fst snd] in *. eapply post_pre; [|exact Hp3]. intros r Hr.
      eapply rjumpif; [exact H2|exact He1|]. rewrite Ht. eexists; split; [apply find_unique; [exact HN|exact H1]|].
      run_at Hr.
  - (* While, the body breaks *)
    intros c b loc w v w1 st2 He Ht Hb IHb.
    destruct IHb as [IHb _].
    assert (Hcore : forall code ctx n pc wm1, NoDup (labels code) -> uwf true b = true -> uguard b = true ->
              code_at code pc (fst (ucompile ctx n (NWhile c b))) -> weq w1 wm1 ->
              exists wm', weq (snd st2) wm' /\ forall r, Run code (pc + length (fst (ucompile ctx n (NWhile c b)))) (fst st2) wm' r -> Run code (pc + 2) loc wm1 r).
    { intros code ctx n pc wm1 HN Hwb Hgb Hat Hw1.
      destruct (uwhile_layout _ _ _ _ _ _ Hat) as (H0 & H1 & Hatb & H2 & H3 & Hlen'). cbn zeta in *.
      assert (Hcb : cont_ok code (Some (lab KDone n, lab KLoop n)) (Some (S (pc + 2 + length (fst (ucompile (Some (lab KDone n, lab KLoop n)) (S n) b))), S pc))).
      { split; assumption. }
      destruct (IHb code _ _ (S n) (pc + 2) wm1 HN Hcb Hwb Hgb Hatb Hw1) as (wm2 & Hw2 & Hp2). cbn [C01.post] in Hp2.
      exists wm2. split; [exact Hw2|]. intros r Hr. apply Hp2. rewrite Hlen' in Hr.
      run_at Hr. }
    split; [|split; [triv_Q|]].
    + intros code ctx cpos n pc wm HN Hc Hwf Hg Hat Hw. cbn [uwf uguard] in Hwf, Hg. apply andb_prop in Hg. destruct Hg as [Hnc Hgb].
      destruct (uwhile_layout _ _ _ _ _ _ Hat) as (H0 & H1 & _). cbn zeta in *.
      destruct (Ev_blind _ _ _ _ _ (tick wm) He (C01.weq_tick _ _ Hw)) as (wm1 & He1 & Hw1).
      rewrite (truthy_weq _ _ v Hw1) in Ht.
      destruct (Hcore code ctx n pc (tick wm1) HN Hwf Hgb Hat (C01.weq_tick _ _ Hw1)) as (wm3 & Hw3 & Hp3).
      exists wm3. split; [exact Hw3|]. cbn [C01.post fst snd] in *. intros r Hr.
      eapply rjumpif; [exact H0|apply Ev_not; exact He1|]. rewrite Ht. cbn [negb truthy].
      eapply rlabel; [exact H1|]. replace (S (S pc)) with (pc + 2) by lia. apply Hp3. exact Hr.
    + intros c' b' E code ctx cpos n pc wm HN Hc Hwb Hnc Hgb Hat Hw. injection E as <- <-.
      destruct (uwhile_layout _ _ _ _ _ _ Hat) as (_ & H1 & _ & H2 & _). cbn zeta in *.
      destruct (Ev_blind _ _ _ _ _ (tick wm) He (C01.weq_tick _ _ Hw)) as (wm1 & He1 & Hw1).
      rewrite (truthy_weq _ _ v Hw1) in Ht.
      destruct (Hcore code ctx n pc wm1 HN Hwb Hgb Hat Hw1) as (wm3 & Hw3 & Hp3).
      exists wm3. split; [exact Hw3|]. cbn [C01.post fst snd] in *. intros r Hr.
      eapply rjumpif; [exact H2|exact He1|]. rewrite Ht. eexists; split; [apply find_unique; [exact HN|exact H1]|].
      replace (S (S pc)) with (pc + 2) by lia. apply Hp3. exact Hr.
  - (* While, the body stops (return / error) *)
    intros c b loc w v w1 o st2 He Ht Hb IHb.
    destruct IHb as [IHb _].
    assert (Hcore : forall code ctx n pc wm1, NoDup (labels code) -> uwf true b = true -> uguard b = true ->
              code_at code pc (fst (ucompile ctx n (NWhile c b))) -> weq w1 wm1 ->
              exists wm', weq (snd st2) wm' /\ Run code (pc + 2) loc wm1 (o, fst st2, wm')).
    { intros code ctx n pc wm1 HN Hwb Hgb Hat Hw1.
      destruct (uwhile_layout _ _ _ _ _ _ Hat) as (H0 & H1 & Hatb & H2 & H3 & Hlen'). cbn zeta in *.
      assert (Hcb : cont_ok code (Some (lab KDone n, lab KLoop n)) (Some (S (pc + 2 + length (fst (ucompile (Some (lab KDone n, lab KLoop n)) (S n) b))), S pc))).
      { split; assumption. }
      destruct (IHb code _ _ (S n) (pc + 2) wm1 HN Hcb Hwb Hgb Hatb Hw1) as (wm2 & Hw2 & Hp2). cbn [C01.post] in Hp2.
      exists wm2. split; [exact Hw2|exact Hp2]. }
    split; [|split; [triv_Q|]].
    + intros code ctx cpos n pc wm HN Hc Hwf Hg Hat Hw. cbn [uwf uguard] in Hwf, Hg. apply andb_prop in Hg. destruct Hg as [Hnc Hgb].
      destruct (uwhile_layout _ _ _ _ _ _ Hat) as (H0 & H1 & _). cbn zeta in *.
      destruct (Ev_blind _ _ _ _ _ (tick wm) He (C01.weq_tick _ _ Hw)) as (wm1 & He1 & Hw1).
      rewrite (truthy_weq _ _ v Hw1) in Ht.
      destruct (Hcore code ctx n pc (tick wm1) HN Hwf Hgb Hat (C01.weq_tick _ _ Hw1)) as (wm3 & Hw3 & Hp3).
      exists wm3. split; [exact Hw3|]. cbn [C01.post fst snd] in *.
      eapply rjumpif; [exact H0|apply Ev_not; exact He1|]. rewrite Ht. cbn [negb truthy].
      eapply rlabel; [exact H1|]. run_at Hp3.
    + intros c' b' E code ctx cpos n pc wm HN Hc Hwb Hnc Hgb Hat Hw. injection E as <- <-.
      destruct (uwhile_layout _ _ _ _ _ _ Hat) as (_ & H1 & _ & H2 & _). cbn zeta in *.
      destruct (Ev_blind _ _ _ _ _ (tick wm) He (C01.weq_tick _ _ Hw)) as (wm1 & He1 & Hw1).
      rewrite (truthy_weq _ _ v Hw1) in Ht.
      destruct (Hcore code ctx n pc wm1 HN Hwb Hgb Hat Hw1) as (wm3 & Hw3 & Hp3).
      exists wm3. split; [exact Hw3|]. cbn [C01.post fst snd] in *.
      eapply rjumpif; [exact H2|exact He1|]. rewrite Ht. eexists; split; [apply find_unique; [exact HN|exact H1]|].
      run_at Hp3.
  - (* For, the expression stops *)
    intros vals len idx x e body loc w o w1 He Hv. leaf.
    intros code ctx cpos n pc wm HN Hc Hwf Hg Hat Hw. cbn [uwf uguard fst snd] in *. rewrite ucompile_for_eq in Hat |- *.
    destruct (ucompile (Some (lab KDone n, labc n)) (S n) body) as [cb n1]. cbn [fst snd] in *.
    destruct (for_layout_g lab labc _ _ _ _ _ _ _ _ _ _ Hat) as (H0 & _).
    destruct (head_stop cfg Hunl lib url_rel lint_lines um Ev_blind vals e code pc H0 loc w o w1 wm He Hv Hw) as (wm' & Hw' & Hr).
    exists wm'. split; [exact Hw'|exact Hr].
  - (* For, NEW: the value is not an array *)
    intros vals len idx x e body loc w v w1 He Hna Hfn. leaf.
    intros code ctx cpos n pc wm HN Hc Hwf Hg Hat Hw. cbn [uwf uguard fst snd] in *. rewrite ucompile_for_eq in Hat |- *.
    apply andb_prop in Hwf. destruct Hwf as [Hnm Hwb].
    destruct (ucompile (Some (lab KDone n, labc n)) (S n) body) as [cb n1]. cbn [fst snd] in *.
    destruct (for_layout_g lab labc _ _ _ _ _ _ _ _ _ _ Hat) as (H0 & H1 & H2 & H3 & H4 & H5 & Hb & Hcc & H6 & H7 & H8 & Hlen'). cbv zeta in *.
    rewrite Hlen'.
    destruct (head_notarr vals len idx e Hnm code pc n (length cb) _ (uhas_cont body) HN eq_refl H0 H1 H2 H8 loc w v w1 wm He Hna (Hfn eq_refl) Hw)
      as (wm' & Hw' & Hr).
    exists wm'. split; [exact Hw'|]. cbn [C01.post]. intros r Hr'. apply Hr. run_at Hr'.
  - (* For, empty array *)
    intros vals len idx x e body loc w l w1 He Harr Hfn. leaf.
    intros code ctx cpos n pc wm HN Hc Hwf Hg Hat Hw. cbn [uwf uguard fst snd] in *. rewrite ucompile_for_eq in Hat |- *.
    apply andb_prop in Hwf. destruct Hwf as [Hnm Hwb].
    destruct (ucompile (Some (lab KDone n, labc n)) (S n) body) as [cb n1]. cbn [fst snd] in *.
    destruct (for_layout_g lab labc _ _ _ _ _ _ _ _ _ _ Hat) as (H0 & H1 & H2 & H3 & H4 & H5 & Hb & Hcc & H6 & H7 & H8 & Hlen'). cbv zeta in *.
    rewrite Hlen'.
    destruct (head_empty cfg Hunl lib url_rel lint_lines Hlib um lab labc Ev_blind Hlen vals len idx e Hnm code pc n (length cb) _ (uhas_cont body)
                HN eq_refl H0 H1 H2 H8 loc w l w1 wm He Harr (Hfn eq_refl) Hw) as (wm' & Hw' & Hr).
    exists wm'. split; [exact Hw'|]. cbn [C01.post]. intros r Hr'. apply Hr. run_at Hr'.
  - (* For, the loop *)
    intros vals len idx x e body loc w l w1 elems o st' He Harr Hne Hfn _ IH. leaf.
    intros code ctx cpos n pc wm HN Hc Hwf Hg Hat Hw.
    cbn [uwf uguard fst snd] in *. rewrite ucompile_for_eq in Hat |- *. apply andb_prop in Hwf. destruct Hwf as [Hnm Hwb].
    specialize (IH code cpos n pc e).
    destruct (ucompile (Some (lab KDone n, labc n)) (S n) body) as [cb n1]. cbn [fst snd] in *.
    destruct (for_layout_g lab labc _ _ _ _ _ _ _ _ _ _ Hat) as (H0 & H1 & H2 & H3 & H4 & H5 & Hb & Hcc & H6 & H7 & H8 & Hlen'). cbv zeta in *.
    rewrite Hlen'.
    destruct (head_loop cfg Hunl lib url_rel lint_lines Hlib um lab labc Ev_blind Hlen vals len idx e Hnm code pc n _ (uhas_cont body) eq_refl
                H0 H1 H2 H3 H4 loc w l w1 elems wm He Harr Hne (Hfn eq_refl) Hw) as (HI & wm3 & Hw3 & Hr3).
    destruct (IH wm3 HN Hnm Hwb Hg Hat HI Hw3) as (wm' & Hw' & Hp').
    exists wm'. split; [exact Hw'|].
    match goal with |- C01.post _ _ _ _ _ _ _ ?q _ _ _ _ _ _ => match type of Hp' with C01.post _ _ _ _ _ _ _ ?p _ _ _ _ _ _ => replace q with p by lia end end.
    eapply post_pre; [|exact Hp']. exact Hr3.
  - (* loop: the body stops *)
    intros vals len idx x body arr m i st v st_g out st_b Hfn Hit Hb IHb code cpos n pc e wm HN Hnm Hwb Hg Hat HI Hw.
    destruct IHb as [IHb _].
    destruct (for_layout_g lab labc _ _ _ _ _ _ _ _ _ _ Hat) as (H0 & H1 & H2 & H3 & H4 & H5 & Hb' & Hcc & H6 & H7 & H8 & Hlen'). cbv zeta in *.
    refine (xloop_stop vals len idx x code pc _ _ (uhas_cont body) eq_refl H5 cpos arr m i st v st_g out st_b (Hfn eq_refl) Hit _ HI wm Hw).
    apply (body_sim_of_UPP body _ _ _ code n pc IHb HN Hwb Hg Hb' Hcc H8).
  - (* loop: the body breaks *)
    intros vals len idx x body arr m i st v st_g st_b Hfn Hit Hb IHb code cpos n pc e wm HN Hnm Hwb Hg Hat HI Hw.
    destruct IHb as [IHb _].
    destruct (for_layout_g lab labc _ _ _ _ _ _ _ _ _ _ Hat) as (H0 & H1 & H2 & H3 & H4 & H5 & Hb' & Hcc & H6 & H7 & H8 & Hlen'). cbv zeta in *.
    refine (xloop_break vals len idx x code pc _ _ (uhas_cont body) eq_refl H5 cpos arr m i st v st_g st_b (Hfn eq_refl) Hit _ HI wm Hw).
    apply (body_sim_of_UPP body _ _ _ code n pc IHb HN Hwb Hg Hb' Hcc H8).
  - (* loop: next iteration *)
    intros vals len idx x body arr m i st v st_g ob st_b o st' Hfn Hit Hb IHb Ho HI' Hlt _ IHl code cpos n pc e wm HN Hnm Hwb Hg Hat HI Hw.
    destruct IHb as [IHb _].
    destruct (for_layout_g lab labc _ _ _ _ _ _ _ _ _ _ Hat) as (H0 & H1 & H2 & H3 & H4 & H5 & Hb' & Hcc & H6 & H7 & H8 & Hlen'). cbv zeta in *.
    refine (xloop_next vals len idx x Hnm code pc n _ _ (uhas_cont body) HN eq_refl H4 H5 Hcc H6 H7
              cpos arr m i st v st_g ob st_b o st' (Hfn eq_refl) Hit _ Ho (Hhc _ _ _ _ Hb) (HI' eq_refl) Hlt _ HI wm Hw).
    + apply (body_sim_of_UPP body _ _ _ code n pc IHb HN Hwb Hg Hb' Hcc H8).
    + intros HIn wmn Hwn. exact (IHl code cpos n pc e wmn HN Hnm Hwb Hg Hat HIn Hwn).
  - (* loop: last iteration *)
    intros vals len idx x body arr m i st v st_g ob st_b Hfn Hit Hb IHb Ho HI' Hge code cpos n pc e wm HN Hnm Hwb Hg Hat HI Hw.
    destruct IHb as [IHb _].
    destruct (for_layout_g lab labc _ _ _ _ _ _ _ _ _ _ Hat) as (H0 & H1 & H2 & H3 & H4 & H5 & Hb' & Hcc & H6 & H7 & H8 & Hlen'). cbv zeta in *.
    refine (xloop_last vals len idx x Hnm code pc n _ _ (uhas_cont body) HN eq_refl H4 H5 Hcc H6 H7 H8
              cpos arr m i st v st_g ob st_b (Hfn eq_refl) Hit _ Ho (Hhc _ _ _ _ Hb) (HI' eq_refl) Hge HI wm Hw).
    apply (body_sim_of_UPP body _ _ _ code n pc IHb HN Hwb Hg Hb' Hcc H8).
Qed.


(* THE SIMULATION for the extended reading (side conditions on), at any position of a statement list with unique labels *)
Theorem xsim : forall s st o st', XExec Ev true s st o st' -> UPP s st o st'.
Proof. intros s st o st' H. exact (proj1 (proj1 xsim_both s st o st' H)). Qed.

(* the whole scope: run from statement 0 *)
Theorem xscope_sim : forall s loc w o loc' w', XExec Ev true s (loc, w) o (loc', w') ->
  uwf false s = true -> uguard s = true ->
  forall n wm, NoDup (labels (fst (ucompile None n s))) -> weq w wm ->
  exists out wm', scope_result o = Some out /\ weq w' wm' /\ Run (fst (ucompile None n s)) 0 loc wm (out, loc', wm').
Proof.
  intros s loc w o loc' w' H Hwf Hg n wm HN Hw.
  destruct (xsim _ _ _ _ H (fst (ucompile None n s)) None None n 0 wm HN I Hwf Hg (code_at_whole _) Hw) as (wm' & Hw' & Hp).
  cbn [fst snd] in *. destruct o; cbn [C01.post] in Hp.
  - exists (OVal VNull), wm'. split; [reflexivity|split; [exact Hw'|]]. apply Hp.
    apply (run_end cfg lib url_rel lint_lines um). apply nth_error_None. cbn. lia.
  - contradiction.
  - contradiction.
  - exists o, wm'. split; [reflexivity|split; [exact Hw'|exact Hp]].
Qed.

(* ---------------------------------------------------------------- an executable interpreter for the extended reading *)
(* an evaluation relation restricted by a predicate on the evaluation *)
Definition EvQ (Q : evrel) : evrel := fun e loc w o w1 => Ev e loc w o w1 /\ Q e loc w o w1.

Section Exec.
Variable Q : evrel.
Variable qb : expr -> option env -> world -> outcome -> world -> bool.       (* a decision procedure for Q *)
Hypothesis Hqb : forall e loc w o w1, qb e loc w o w1 = true -> Q e loc w o w1.

Definition evq (f : nat) (e : expr) (loc : option env) (w0 : world) : option (outcome * world) :=
  match eval f e loc false um w0 with
  | (OFuel, _) => None
  | (o, w1) => if qb e loc w0 o w1 then Some (o, w1) else None
  end.

Lemma evq_sound f e loc w o w1 : evq f e loc w = Some (o, w1) -> EvQ Q e loc w o w1.
Proof.
  unfold evq. destruct (eval f e loc false um w) as [o' w'] eqn:E. intros H.
  assert (H' : o' <> OFuel /\ (if qb e loc w o' w' then Some (o', w') else None) = Some (o, w1)).
  { destruct o'; try (split; [discriminate|exact H]). discriminate H. }
  destruct H' as [Hn H']. destruct (qb e loc w o' w') eqn:Eq; [|discriminate]. injection H' as <- <-.
  split; [exists f; split; [exact E|exact Hn]|apply Hqb; exact Eq].
Qed.

Fixpoint xexec (chk : bool) (fuel : nat) (s : unistmt) (st : sstate) {struct fuel} : option (sout * sstate) :=
  match fuel with
  | O => None
  | S f =>
    let '(loc, w) := st in
    match s with
    | NSkip => Some (SNormal, st)
    | NSeq a b =>
      match xexec chk f a st with
      | Some (SNormal, st1) => xexec chk f b st1
      | r => r
      end
    | NAssign x e =>
      match evq f e loc w with
      | Some (OVal v, w1) => Some (SNormal, assign x v loc w1)
      | Some (o, w1) => Some (SStop o, (loc, w1))
      | None => None
      end
    | NExpr e =>
      match evq f e loc w with
      | Some (OVal v, w1) => Some (SNormal, (loc, w1))
      | Some (o, w1) => Some (SStop o, (loc, w1))
      | None => None
      end
    | NReturn (Some e) => match evq f e loc w with Some (o, w1) => Some (SStop o, (loc, w1)) | None => None end
    | NReturn None => Some (SStop (OVal VNull), st)
    | NBreak => Some (SBreak, st)
    | NContinue => Some (SContinue, st)
    | NIf c a rest =>
      match evq f c loc w with
      | Some (OVal v, w1) => if truthy w1 v then xexec chk f a (loc, w1) else xexec chk f rest (loc, w1)
      | Some (o, w1) => Some (SStop o, (loc, w1))
      | None => None
      end
    | NElse b => xexec chk f b st
    | NWhile c b =>
      match evq f c loc w with
      | Some (OVal v, w1) =>
        if truthy w1 v then
          match xexec chk f b (loc, w1) with
          | Some (SNormal, st2) | Some (SContinue, st2) => xexec chk f s st2
          | Some (SBreak, st2) => Some (SNormal, st2)
          | Some (SStop o, st2) => Some (SStop o, st2)
          | None => None
          end
        else Some (SNormal, (loc, w1))
      | Some (o, w1) => Some (SStop o, (loc, w1))
      | None => None
      end
    | NFor vals len idx x e body =>
      match evq f e loc w with
      | None => None
      | Some (OVal v, w1) =>
        if negb chk || is_libb ARRLEN (assign' vals v (loc, w1)) then
          match v with
          | VArr l =>
            match nth_error (w_arrs w1) l with
            | Some [] => Some (SNormal, assign' len (int_v 0) (assign' vals v (loc, w1)))
            | Some elems => xloop chk f vals len idx x body l (length elems) 0
                                  (assign' idx (int_v 0) (assign' len (int_v (length elems)) (assign' vals v (loc, w1))))
            | None => None                    (* a dangling array reference: no rule *)
            end
          | _ => Some (SNormal, assign' len (int_v 0) (logst ARRLEN len_msg (assign' vals v (loc, w1))))
          end
        else None
      | Some (o, w1) => Some (SStop o, (loc, w1))
      end
    end
  end
with xloop (chk : bool) (fuel : nat) (vals len idx x : str) (body : unistmt) (l m i : nat) (st : sstate) {struct fuel} : option (sout * sstate) :=
  match fuel with
  | O => None
  | S k =>
    if negb chk || is_libb ARRGET st then
      match nth_error (w_arrs (snd st)) l with
      | Some elems =>
        let vg := match nth_error elems i with Some v => (v, st) | None => (VNull, logst ARRGET get_msg st) end in
        match xexec chk k body (assign' x (fst vg) (snd vg)) with
        | Some (SStop out, st_b) => Some (SStop out, st_b)
        | Some (SBreak, st_b) => Some (SNormal, st_b)
        | Some (_, st_b) =>
          if negb chk || inv3b vals len idx l m i st_b then
            if S i <? m then xloop chk k vals len idx x body l m (S i) (assign' idx (int_v (S i)) st_b)
            else Some (SNormal, assign' idx (int_v (S i)) st_b)
          else None
        | None => None
        end
      | None => None
      end
    else None
  end.

Lemma sc_of chk b (P : Prop) : (b = true -> P) -> negb chk || b = true -> sc chk P.
Proof. intros H E Hc. rewrite Hc in E. cbn in E. apply H. exact E. Qed.

Theorem xexec_sound_both chk : forall fuel,
  (forall s st o st', xexec chk fuel s st = Some (o, st') -> XExec (EvQ Q) chk s st o st') /\
  (forall vals len idx x body l m i st o st', xloop chk fuel vals len idx x body l m i st = Some (o, st') ->
     XLoop (EvQ Q) chk vals len idx x body l m i st o st').
Proof.
  induction fuel as [|f [IH IHl]]; [split; intros; discriminate|]. split.
  - intros s [loc w] o st' H. cbn [xexec] in H.
    destruct s as [ |a b|x e|e|[e|]| | |c a rest|b|c b|vals len idx x e body].
    + injection H as <- <-. constructor.
    + destruct (xexec chk f a (loc, w)) as [[oa st1]|] eqn:Ea; [|discriminate].
      destruct oa; try (injection H as <- <-; apply Y_SeqA; [apply IH; exact Ea|discriminate]).
      eapply Y_SeqN; [apply IH; exact Ea|apply IH; exact H].
    + destruct (evq f e loc w) as [[oe w1]|] eqn:Ee; [|discriminate].
      apply evq_sound in Ee. destruct oe; injection H as <- <-; try (apply Y_AssignStop; [exact Ee|reflexivity]). apply Y_Assign. exact Ee.
    + destruct (evq f e loc w) as [[oe w1]|] eqn:Ee; [|discriminate].
      apply evq_sound in Ee. destruct oe; injection H as <- <-; try (apply Y_ExprStop; [exact Ee|reflexivity]). eapply Y_Expr. exact Ee.
    + destruct (evq f e loc w) as [[oe w1]|] eqn:Ee; [|discriminate].
      apply evq_sound in Ee. injection H as <- <-. apply Y_Return. exact Ee.
    + injection H as <- <-. constructor.
    + injection H as <- <-. constructor.
    + injection H as <- <-. constructor.
    + destruct (evq f c loc w) as [[oe w1]|] eqn:Ee; [|discriminate].
      apply evq_sound in Ee. destruct oe; try (injection H as <- <-; apply Y_IfStop; [exact Ee|reflexivity]).
      destruct (truthy w1 v) eqn:Et; [eapply Y_IfT|eapply Y_IfF]; eauto.
    + apply Y_Else. apply IH. exact H.
    + destruct (evq f c loc w) as [[oe w1]|] eqn:Ee; [|discriminate].
      apply evq_sound in Ee. destruct oe; try (injection H as <- <-; apply Y_WhileStop; [exact Ee|reflexivity]).
      destruct (truthy w1 v) eqn:Et; [|injection H as <- <-; eapply Y_WhileF; eauto].
      destruct (xexec chk f b (loc, w1)) as [[ob st2]|] eqn:Eb; [|discriminate]. apply IH in Eb.
      destruct ob.
      * eapply Y_WhileT; [exact Ee|exact Et|exact Eb|left; reflexivity|apply IH; exact H].
      * injection H as <- <-. eapply Y_WhileB; eauto.
      * eapply Y_WhileT; [exact Ee|exact Et|exact Eb|right; reflexivity|apply IH; exact H].
      * injection H as <- <-. eapply Y_WhileS; eauto.
    + destruct (evq f e loc w) as [[oe w1]|] eqn:Ee; [|discriminate].
      apply evq_sound in Ee.
      destruct oe as [v| | | | |];
        try (injection H as <- <-; apply Y_ForStop; [exact Ee|reflexivity]).
      destruct (negb chk || is_libb ARRLEN (assign' vals v (loc, w1))) eqn:Efn; [|discriminate].
      apply (sc_of _ _ _ (is_libb_sound ARRLEN _)) in Efn.
      destruct v;
        try (injection H as <- <-; apply Y_ForNotArr; [exact Ee|reflexivity|exact Efn]).
      destruct (nth_error (w_arrs w1) l) as [elems|] eqn:Ea; [|discriminate].
      destruct elems as [|e0 et].
      * injection H as <- <-. apply Y_ForEmpty; [exact Ee|exact Ea|exact Efn].
      * apply IHl in H. eapply Y_ForLoop; [exact Ee|exact Ea|discriminate|exact Efn|exact H].
  - intros vals len idx x body l m i st o st' H. cbn [xloop] in H.
    destruct (negb chk || is_libb ARRGET st) eqn:Efn; [|discriminate]. apply (sc_of _ _ _ (is_libb_sound ARRGET _)) in Efn.
    destruct (nth_error (w_arrs (snd st)) l) as [elems|] eqn:Ea; [|discriminate].
    cbv zeta in H.
    assert (Hit : IterX l i st (fst (match nth_error elems i with Some v => (v, st) | None => (VNull, logst ARRGET get_msg st) end))
                               (snd (match nth_error elems i with Some v => (v, st) | None => (VNull, logst ARRGET get_msg st) end))).
    { destruct (nth_error elems i) as [v|] eqn:Ev'; cbn [fst snd]; [eapply IX_elem; eassumption|eapply IX_gone; eassumption]. }
    destruct (match nth_error elems i with Some v => (v, st) | None => (VNull, logst ARRGET get_msg st) end) as [v st_g]. cbn [fst snd] in *.
    destruct (xexec chk f body (assign' x v st_g)) as [[ob st_b]|] eqn:Eb; [|discriminate].
    apply IH in Eb.
    destruct ob.
    + destruct (negb chk || inv3b vals len idx l m i st_b) eqn:EI; [|discriminate]. apply (sc_of _ _ _ (inv3b_sound vals len idx l m i st_b)) in EI.
      destruct (S i <? m) eqn:El.
      * apply Nat.ltb_lt in El. eapply YL_next; [exact Efn|exact Hit|exact Eb|left; reflexivity|exact EI|exact El|apply IHl; exact H].
      * apply Nat.ltb_ge in El. injection H as <- <-. eapply YL_last; [exact Efn|exact Hit|exact Eb|left; reflexivity|exact EI|exact El].
    + injection H as <- <-. eapply YL_break; [exact Efn|exact Hit|exact Eb].
    + destruct (negb chk || inv3b vals len idx l m i st_b) eqn:EI; [|discriminate]. apply (sc_of _ _ _ (inv3b_sound vals len idx l m i st_b)) in EI.
      destruct (S i <? m) eqn:El.
      * apply Nat.ltb_lt in El. eapply YL_next; [exact Efn|exact Hit|exact Eb|right; reflexivity|exact EI|exact El|apply IHl; exact H].
      * apply Nat.ltb_ge in El. injection H as <- <-. eapply YL_last; [exact Efn|exact Hit|exact Eb|right; reflexivity|exact EI|exact El].
    + injection H as <- <-. eapply YL_stop; [exact Efn|exact Hit|exact Eb].
Qed.

Theorem xexec_sound chk : forall fuel s st o st', xexec chk fuel s st = Some (o, st') -> XExec (EvQ Q) chk s st o st'.
Proof. intros fuel. exact (proj1 (xexec_sound_both chk fuel)). Qed.

(* ... and hence a derivation over the unrestricted evaluation relation *)
Theorem xexec_sound_Ev chk : forall fuel s st o st', xexec chk fuel s st = Some (o, st') -> XExec Ev chk s st o st'.
Proof.
  intros fuel s st o st' H. apply xexec_sound in H. revert H.
  apply (XExec_mono_both (EvQ Q) Ev chk). intros e loc w o0 w1 [He _]. exact He.
Qed.
End Exec.

End Side.


(* ---------------------------------------------------------------- the two new contracts hold for the modelled library *)
From BS Require Import Model.LibCore.

Lemma libcore_arrayLength_fail cfg : arrayLength_fail_contract (libcore cfg) (U "args").
Proof.
  intros cb v w Hv. unfold libcore, ARRLEN. eval_ops. cbn [orb]. cbv iota.
  destruct v; try discriminate Hv; reflexivity.
Qed.

Lemma libcore_arrayGet_range cfg : arrayGet_range_contract (libcore cfg) (U "index").
Proof.
  intros cb l i w elems H Hi. unfold libcore, ARRGET. eval_ops. cbn [orb]. cbv iota.
  assert (Hv : validate w [A TArray; AIndex] [VArr l; int_v i] = VOk [AV (VArr l); AV (int_v i)]).
  { unfold int_v. cbn [validate A AIndex a_last a_type a_nullable a_int a_gte0 type_ok negb not_integral andb vcons].
    unfold num_neg_p. cbn [num_compare]. destruct (Z.of_nat i ?= 0)%Z eqn:E; try reflexivity.
    exfalso. assert (Hlt : (Z.of_nat i < 0)%Z) by exact E. lia. }
  rewrite Hv. cbv iota. unfold int_v. cbn [num_to_nat].
  replace (0 <=? Z.of_nat i)%Z with true by (symmetry; apply Z.leb_le; lia). rewrite Nat2Z.id.
  unfold get_arr. rewrite H, Hi. reflexivity.
Qed.
