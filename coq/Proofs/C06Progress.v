(* Proofs/C06Progress.v — no logical line is dropped silently: every successful step ADDS to the model
   (statement weight: 1 per statement, 1 per include url, 1 + body for a function), except endfunction, which moves the
   already counted open function into the script. *)
From Coq Require Import Lia.
From BS Require Import Model.Base Model.Regex Model.Num Model.ExprParser Model.Script Model.ScriptX
  Gen.Unicode Gen.Regexes Proofs.ScriptFacts.

Lemma stmts_weight_app a b : stmts_weight (a ++ b) = stmts_weight a + stmts_weight b.
Proof. unfold stmts_weight. rewrite map_app, list_sum_app. reflexivity. Qed.

Lemma retarget_weight pos lab : forall l l', retarget pos lab l = Some l' -> stmts_weight l' = stmts_weight l.
Proof.
  induction pos as [|p IH]; intros l l' H; destruct l as [|x t]; cbn in H; try discriminate.
  - destruct x; try discriminate. inversion H; subst. reflexivity.
  - assert (H' : option_map (cons x) (retarget p lab t) = Some l') by (destruct x; exact H). clear H.
    destruct (retarget p lab t) eqn:E; cbn in H'; [|discriminate]. inversion H'; subst.
    unfold stmts_weight in *. cbn. erewrite IH by exact E. reflexivity.
Qed.

Lemma last_is_include_inv l front incs : last_is_include l = Some (front, incs) -> l = front ++ [SInclude incs].
Proof.
  unfold last_is_include. destruct (rev l) as [|x t] eqn:E; [discriminate|].
  destruct x; try discriminate. intros H. inversion H; subst.
  rewrite <- (rev_involutive l), E. reflexivity.
Qed.

Local Arguments U : simpl never.
Local Arguments lbl : simpl never.
Local Arguments Nat.ltb : simpl never.
Local Arguments Nat.leb : simpl never.
Local Arguments retarget : simpl never.
Local Arguments last_is_include : simpl never.
Local Arguments find_loop : simpl never.
Local Arguments stmts_weight : simpl never.

Theorem apply_kind_progress ps n line k ps' :
  apply_kind ps n line k = ROk ps' ->
  ps_weight ps < ps_weight ps' \/ (k = KFnEnd /\ ps_weight ps' = ps_weight ps /\ ps_fn ps <> None /\ ps_fn ps' = None).
Proof.
  intros H. destruct ps as [gl [fo|] d fr ix]; destruct k; cbn in H; hsplit H.
  all: inversion H; subst; clear H; unfold ps_weight; cbn.
  all: repeat match goal with
       | E : retarget _ _ _ = Some _ |- _ => apply retarget_weight in E
       | E : last_is_include _ = Some _ |- _ => apply last_is_include_inv in E
       end.
  all: subst; rewrite ?stmts_weight_app in *; unfold stmts_weight in *; cbn in *; rewrite ?app_length; cbn.
  all: try lia.
  all: try (right; repeat split; try congruence; lia).
  left. match goal with E : fo_body _ = _ |- _ => rewrite E end. rewrite map_app, list_sum_app. cbn. lia.
Qed.

From BS Require Import Proofs.C06.

Definition is_fnend (line : str) : bool := match classify line with ROk KFnEnd => true | _ => false end.

Theorem pstep_progress ps n line ps' :
  pstep ps n line = ROk ps' ->
  ps_weight ps < ps_weight ps' \/ (is_fnend line = true /\ ps_weight ps' = ps_weight ps /\ ps_fn ps <> None /\ ps_fn ps' = None).
Proof.
  rewrite pstep_is_classify_apply. unfold pstep2, is_fnend. intros H.
  destruct (classify line) as [k| | |]; try discriminate.
  apply apply_kind_progress in H. destruct H as [H|(-> & H)]; [left; exact H | right; split; [reflexivity | exact H]].
Qed.

Definition counted (lls : list (nat * str)) : nat := length (filter (fun il => negb (is_fnend (snd il))) lls).

Lemma pfold_weight lls : forall ps start ps', pfold lls ps start = ROk ps' -> ps_weight ps + counted lls <= ps_weight ps'.
Proof.
  induction lls as [|[i line] t IH]; intros ps start ps' H; cbn [pfold] in H.
  - inversion H; subst. unfold counted. cbn. lia.
  - destruct (pstep ps (start + i) line) as [ps1| | |] eqn:E; try discriminate.
    apply IH in H. apply pstep_progress in E. unfold counted in *. cbn [filter snd].
    destruct E as [E|(E & E2 & _)].
    + destruct (negb (is_fnend line)); cbn [length]; lia.
    + rewrite E. cbn [negb]. lia.
Qed.

(* an accepted script's model weighs at least one unit per logical line that is not an `endfunction` line *)
Theorem parse_script_no_dropped_line chunks start s :
  parse_script chunks start = ROk s ->
  exists lines, split_chunks chunks = ROk lines /\ counted (fst (llines lines 0 ls_init)) <= stmts_weight s.
Proof.
  intros H. apply parse_script_accounts in H.
  destruct H as (lines & ls & ps & A & _ & _ & _ & G & -> & _ & P & _).
  exists lines. split; [exact A|]. apply pfold_weight in P. unfold ps_weight in P. rewrite G in P. cbn in P. lia.
Qed.
