(* Proofs/C09clInv.v — the reachability invariant for systemPartial closures (Model/LibPartial.v).

   A closure is the function value  VFun (FLib [0; l]) ; its data lives in the hidden heap array l.  The invariant is stated
   relative to a set H of HIDDEN array locations (a ghost: the world does not say which arrays are hidden):

     [wf H w]    * every l in H is an array of w of the shape systemPartial gives it: a head, at least one bound argument, and a
                   head that is itself a closure is a closure of a SMALLER location  (= C09termClosure.closure_ok w l);
                 * every value stored in w - globals, array cells (those of the hidden arrays too), object cells - is [val_ok]:
                     VArr l              : l is an array of w and NOT hidden  (no script value names a hidden array, none dangles);
                     VFun (FLib [0; l])  : l is hidden;
                     VFun (FLib nm), nm not a closure name : nm is a sane name (every code point + 1 < LibLift.enc_base - what the
                                           lifting's numeral encoding of function values needs to give the name back).

   [closures_wf w] = exists H, wf H w.  It is inductive because it also says that no value NAMES a hidden array: then no
   library function can be handed one to write into.  Hidden arrays need not stay unchanged (lift_seq re-encodes every array);
   they stay well-shaped.  From state to state H only grows, and only by fresh locations ([ext]); under [ext] every [val_ok]
   value stays [val_ok], which is what lets interpreter locals, argument lists in flight and the list arraySort is permuting
   be carried along. *)
From Coq Require Import List Lia ZArith Bool NArith.
From BS Require Import Model.Base Model.Num Model.Arith Model.ExprParser Model.Script Model.Interp Model.LibCore Model.LibCall
                       Model.LibMore Model.LibAll Model.LibPartial Proofs.BaseFacts Proofs.C09termClosure.
Import ListNotations.

Definition name_sane (nm : str) : Prop := Forall (fun c => (c + 1 < enc_base)%N) nm.

Definition hid := nat -> Prop.

Definition fn_ok (H : hid) (f : fnref) : Prop :=
  match f with
  | FLib nm => match partial_loc nm with Some l => H l | None => name_sane nm end
  | FScript _ => True
  end.

Definition val_ok (H : hid) (na : nat) (v : value) : Prop :=
  match v with
  | VArr l => (l < na)%nat /\ ~ H l
  | VFun f => fn_ok H f
  | _ => True
  end.

Definition env_ok (H : hid) (na : nat) (e : env) : Prop := Forall (fun p => val_ok H na (snd p)) e.
Definition loc_ok (H : hid) (na : nat) (loc : option env) : Prop := match loc with Some l => env_ok H na l | None => True end.

Definition hid_ok (arrs : list (list value)) (l : nat) : Prop :=
  exists f b bs, nth_error arrs l = Some (f :: b :: bs) /\
    forall nm l', f = VFun (FLib nm) -> partial_loc nm = Some l' -> (l' < l)%nat.

Definition wf3 (H : hid) (g : env) (arrs : list (list value)) (objs : list (list (str * value))) : Prop :=
  (forall l, H l -> hid_ok arrs l) /\
  env_ok H (length arrs) g /\
  Forall (Forall (val_ok H (length arrs))) arrs /\
  Forall (env_ok H (length arrs)) objs.

Definition wf (H : hid) (w : world) : Prop := wf3 H (w_globals w) (w_arrs w) (w_objs w).
Definition closures_wf (w : world) : Prop := exists H, wf H w.

Definition nA (w : world) : nat := length (w_arrs w).

(* H only grows, and only by locations that did not exist *)
Definition ext (H : hid) (na : nat) (H' : hid) (na' : nat) : Prop :=
  (forall l, H l -> H' l) /\ (na <= na')%nat /\ (forall l, H' l -> (l < na)%nat -> H l).

Lemma ext_refl H na : ext H na H na.
Proof. repeat split; auto. Qed.
Lemma ext_trans H1 n1 H2 n2 H3 n3 : ext H1 n1 H2 n2 -> ext H2 n2 H3 n3 -> ext H1 n1 H3 n3.
Proof.
  intros (A1 & B1 & C1) (A2 & B2 & C2). repeat split; [auto|lia|].
  intros l H3l Hl. apply C1; [|exact Hl]. apply C2; [exact H3l|lia].
Qed.
Lemma ext_grow H na na' : (na <= na')%nat -> ext H na H na'.
Proof. intros. repeat split; auto. Qed.

Lemma val_ok_mono H na H' na' v : ext H na H' na' -> val_ok H na v -> val_ok H' na' v.
Proof.
  intros (A & B & C). destruct v; cbn; auto.
  - intros [Hl Hn]. split; [lia|]. intros Hh. apply Hn. apply C; assumption.
  - destruct f as [nm|id]; cbn; [|auto]. destruct (partial_loc nm); auto.
Qed.
Lemma vals_ok_mono H na H' na' vs : ext H na H' na' -> Forall (val_ok H na) vs -> Forall (val_ok H' na') vs.
Proof. intros E F. eapply Forall_impl; [|exact F]. intros v. apply val_ok_mono. exact E. Qed.
Lemma env_ok_mono H na H' na' e : ext H na H' na' -> env_ok H na e -> env_ok H' na' e.
Proof. intros E F. eapply Forall_impl; [|exact F]. intros v. apply val_ok_mono. exact E. Qed.
Lemma loc_ok_mono H na H' na' loc : ext H na H' na' -> loc_ok H na loc -> loc_ok H' na' loc.
Proof. destruct loc; cbn; [apply env_ok_mono|auto]. Qed.

(* ---- the hidden arrays are closure_ok ---- *)
Lemma hid_ok_lt arrs l : hid_ok arrs l -> (l < length arrs)%nat.
Proof. intros (f & b & bs & E & _). apply nth_error_Some. rewrite E. discriminate. Qed.

Lemma wf_hidden_lt H w l : wf H w -> H l -> (l < nA w)%nat.
Proof. intros (A & _) Hl. apply hid_ok_lt. apply A. exact Hl. Qed.

Lemma hid_ok_closure_ok w l : hid_ok (w_arrs w) l -> closure_ok w l = true.
Proof.
  intros (f & b & bs & E & O). unfold closure_ok, get_arr. rewrite E.
  destruct f; try reflexivity. destruct f as [nm|id]; [|reflexivity].
  destruct (partial_loc nm) as [l'|] eqn:P; [|reflexivity]. apply Nat.ltb_lt. apply (O nm l' eq_refl P).
Qed.

Lemma wf_closure_ok H w l : wf H w -> H l -> closure_ok w l = true.
Proof. intros (A & _) Hl. apply hid_ok_closure_ok. apply A. exact Hl. Qed.

(* ---- reading ---- *)
Lemma wf_get_arr H w l : wf H w -> Forall (val_ok H (nA w)) (get_arr w l).
Proof.
  intros (_ & _ & A & _). unfold get_arr. destruct (nth_error (w_arrs w) l) as [x|] eqn:E; [|constructor].
  apply nth_error_In in E. rewrite Forall_forall in A. apply A. exact E.
Qed.
Lemma wf_get_obj H w l : wf H w -> env_ok H (nA w) (get_obj w l).
Proof.
  intros (_ & _ & _ & A). unfold get_obj. destruct (nth_error (w_objs w) l) as [x|] eqn:E; [|constructor].
  apply nth_error_In in E. rewrite Forall_forall in A. apply A. exact E.
Qed.
Lemma wf_globals H w : wf H w -> env_ok H (nA w) (w_globals w).
Proof. intros (_ & A & _). exact A. Qed.

Lemma env_get_ok H na k (e : env) v : env_ok H na e -> env_get k e = Some v -> val_ok H na v.
Proof.
  intros F E. unfold env_get in E. apply assoc_In in E. unfold env_ok in F. rewrite Forall_forall in F. apply (F _ E).
Qed.
Lemma env_set_ok H na k v (e : env) : env_ok H na e -> val_ok H na v -> env_ok H na (env_set k v e).
Proof.
  intros F Hv. induction e as [|[k' v'] t IH]; cbn [env_set]; [constructor; [exact Hv|constructor]|].
  inversion F as [|? ? F1 F2]; subst. destruct (str_eqb k k'); constructor; auto. apply IH. exact F2.
Qed.
Lemma nth_ok H na vs i : Forall (val_ok H na) vs -> val_ok H na (nth i vs VNull).
Proof.
  intros F. destruct (nth_in_or_default i vs VNull) as [I|E]; [|rewrite E; exact I].
  rewrite Forall_forall in F. apply F. exact I.
Qed.
Lemma nth_error_ok H na vs i v : Forall (val_ok H na) vs -> nth_error vs i = Some v -> val_ok H na v.
Proof. intros F E. apply nth_error_In in E. rewrite Forall_forall in F. apply F. exact E. Qed.

(* ---- writing ---- *)
Lemma set_nth_length {A} (l : list A) n x : length (set_nth l n x) = length l.
Proof. revert n. induction l as [|y t IH]; intros [|n]; cbn; auto. Qed.
Lemma set_nth_other {A} (l : list A) n m x : n <> m -> nth_error (set_nth l n x) m = nth_error l m.
Proof. revert n m. induction l as [|y t IH]; intros [|n] [|m] Hn; cbn; try reflexivity; try contradiction. apply IH. lia. Qed.
Lemma Forall_set_nth {A} (P : A -> Prop) (l : list A) n x : Forall P l -> P x -> Forall P (set_nth l n x).
Proof.
  intros F Px. revert n. induction F as [|y t Py Ft IH]; intros [|n]; cbn; constructor; auto.
Qed.

Lemma wf_same H w w' : w_globals w' = w_globals w -> w_arrs w' = w_arrs w -> w_objs w' = w_objs w -> wf H w -> wf H w'.
Proof. unfold wf. intros -> -> ->. auto. Qed.

Lemma wf_set_arr H w l xs : wf H w -> ~ H l -> Forall (val_ok H (nA w)) xs -> wf H (set_arr w l xs).
Proof.
  intros (A & B & C & D) Hn F. unfold wf, wf3, set_arr, nA in *. cbn [w_globals w_arrs w_objs upd_arrs].
  rewrite set_nth_length. repeat split; auto.
  - intros l' Hl'. destruct (A l' Hl') as (f & b & bs & E & O). exists f, b, bs. split; [|exact O].
    rewrite set_nth_other; [exact E|]. intros ->. contradiction.
  - apply Forall_set_nth; assumption.
Qed.

Lemma nA_set_arr w l xs : nA (set_arr w l xs) = nA w.
Proof. unfold nA, set_arr. cbn. apply set_nth_length. Qed.

Lemma wf_set_obj H w l kv : wf H w -> env_ok H (nA w) kv -> wf H (set_obj w l kv).
Proof.
  intros (A & B & C & D) F. unfold wf, wf3, set_obj, nA in *. cbn [w_globals w_arrs w_objs upd_objs].
  repeat split; auto. apply Forall_set_nth; assumption.
Qed.

Lemma wf_upd_globals H w g : wf H w -> env_ok H (nA w) g -> wf H (upd_globals w g).
Proof. intros (A & B & C & D) F. unfold wf, wf3, nA in *. cbn. repeat split; auto. Qed.

Lemma wf_grow_vals H w :
  wf H w -> forall n', (nA w <= n')%nat ->
  env_ok H n' (w_globals w) /\ Forall (Forall (val_ok H n')) (w_arrs w) /\ Forall (env_ok H n') (w_objs w).
Proof.
  intros (A & B & C & D) n' Hn. pose proof (ext_grow H _ _ Hn) as E. repeat split.
  - eapply env_ok_mono; eassumption.
  - eapply Forall_impl; [|exact C]. intros a. apply vals_ok_mono. exact E.
  - eapply Forall_impl; [|exact D]. intros a. apply env_ok_mono. exact E.
Qed.

Lemma hid_ok_app arrs l x : hid_ok arrs l -> hid_ok (arrs ++ [x]) l.
Proof.
  intros Hh. pose proof (hid_ok_lt _ _ Hh) as Hl. destruct Hh as (f & b & bs & E & O). exists f, b, bs. split; [|exact O].
  rewrite nth_error_app1; assumption.
Qed.

(* a visible array is allocated *)
Lemma wf_alloc_arr H w xs : wf H w -> Forall (val_ok H (nA w)) xs ->
  wf H (upd_arrs w (w_arrs w ++ [xs])) /\ val_ok H (S (nA w)) (VArr (nA w)).
Proof.
  intros Hw F. destruct (wf_grow_vals H w Hw (S (nA w)) (Nat.le_succ_diag_r _)) as (B' & C' & D').
  pose proof Hw as (A & B & C & D). unfold wf, wf3, nA in *. cbn [w_globals w_arrs w_objs upd_arrs]. rewrite app_length. cbn [length].
  rewrite Nat.add_1_r. split; [repeat split; auto|].
  - intros l Hl. apply hid_ok_app. apply A. exact Hl.
  - apply Forall_app. split; [exact C'|]. constructor; [|constructor].
    eapply vals_ok_mono; [|exact F]. apply ext_grow. lia.
  - cbn. split; [lia|]. intros Hh. apply A in Hh. apply hid_ok_lt in Hh. lia.
Qed.

Lemma wf_alloc_obj H w kv : wf H w -> env_ok H (nA w) kv -> wf H (upd_objs w (w_objs w ++ [kv])).
Proof.
  intros (A & B & C & D) F. unfold wf, wf3, nA in *. cbn [w_globals w_arrs w_objs upd_objs]. repeat split; auto.
  apply Forall_app. split; [exact D|]. constructor; [exact F|constructor].
Qed.

(* a hidden array is allocated *)
Definition hid_add (H : hid) (n : nat) : hid := fun l => H l \/ l = n.

Lemma ext_add H w : wf H w -> ext H (nA w) (hid_add H (nA w)) (S (nA w)).
Proof.
  intros Hw. repeat split; [left; assumption|lia|]. intros l [Hl| ->] Hlt; [exact Hl|lia].
Qed.

Lemma wf_alloc_hidden H w f b bs : wf H w -> Forall (val_ok H (nA w)) (f :: b :: bs) ->
  wf (hid_add H (nA w)) (upd_arrs w (w_arrs w ++ [f :: b :: bs])).
Proof.
  intros Hw F. pose proof (ext_add H w Hw) as E.
  pose proof Hw as (A & B & C & D). unfold wf, wf3. cbn [w_globals w_arrs w_objs upd_arrs].
  assert (L : length (w_arrs w ++ [f :: b :: bs]) = S (nA w)) by (rewrite app_length; cbn; unfold nA; lia).
  rewrite L. repeat split.
  - intros l [Hl| ->].
    + apply hid_ok_app. apply A. exact Hl.
    + exists f, b, bs. split; [unfold nA; rewrite nth_error_app2 by lia; rewrite Nat.sub_diag; reflexivity|].
      intros nm l' -> P. inversion F as [|? ? Hf _]; subst. cbn in Hf. rewrite P in Hf. apply (wf_hidden_lt H w l' Hw Hf).
  - eapply env_ok_mono; eassumption.
  - apply Forall_app. split.
    + eapply Forall_impl; [|exact C]. intros a. apply vals_ok_mono. exact E.
    + constructor; [|constructor]. eapply vals_ok_mono; eassumption.
  - eapply Forall_impl; [|exact D]. intros a. apply env_ok_mono. exact E.
Qed.

(* ---- results ---- *)
Definition lres_ok (H : hid) (na : nat) (r : lres) : Prop :=
  match r with LVal v => val_ok H na v | LArgs ret _ => val_ok H na ret | _ => True end.
Definition out_ok (H : hid) (na : nat) (o : outcome) : Prop :=
  match o with OVal v => val_ok H na v | OExc ret _ => val_ok H na ret | _ => True end.

(* the answer of a step started in (H, w): a later hidden set, a well-formed world, a well-formed result *)
Definition GoodL (H : hid) (w : world) (r : lres * world) : Prop :=
  exists H', ext H (nA w) H' (nA (snd r)) /\ wf H' (snd r) /\ lres_ok H' (nA (snd r)) (fst r).
Definition Good2 (H : hid) (w : world) (r : outcome * world) : Prop :=
  exists H', ext H (nA w) H' (nA (snd r)) /\ wf H' (snd r) /\ out_ok H' (nA (snd r)) (fst r).
Definition Good3 (H : hid) (w : world) (r : xres) : Prop :=
  exists H', ext H (nA w) H' (nA (snd r)) /\ wf H' (snd r) /\ out_ok H' (nA (snd r)) (fst (fst r)) /\
             loc_ok H' (nA (snd r)) (snd (fst r)).

Lemma goodL_here H w r w' : nA w' = nA w -> wf H w' -> lres_ok H (nA w') r -> GoodL H w (r, w').
Proof. intros E Hw Hr. exists H. cbn [fst snd]. split; [rewrite E; apply ext_refl|]. split; assumption. Qed.

(* ---- the initial worlds ---- *)
Definition plain_val (na : nat) (v : value) : Prop :=
  match v with
  | VArr l => (l < na)%nat
  | VFun (FLib nm) => partial_loc nm = None /\ name_sane nm
  | _ => True
  end.
(* no closure value anywhere, no dangling array reference, sane function names *)
Definition closure_free (w : world) : Prop :=
  Forall (fun p => plain_val (nA w) (snd p)) (w_globals w) /\
  Forall (Forall (plain_val (nA w))) (w_arrs w) /\
  Forall (Forall (fun p => plain_val (nA w) (snd p))) (w_objs w).

Lemma plain_val_ok na v : plain_val na v -> val_ok (fun _ => False) na v.
Proof.
  destruct v; cbn; auto. destruct f as [nm|id]; cbn; [|auto]. intros [-> S]. exact S.
Qed.

Lemma closure_free_wf w : closure_free w -> wf (fun _ => False) w.
Proof.
  intros (A & B & C). unfold wf, wf3, wf3. fold (nA w). repeat split.
  - intros l [].
  - eapply Forall_impl; [|exact A]. intros p. apply plain_val_ok.
  - eapply Forall_impl; [|exact B]. intros a Fa. eapply Forall_impl; [|exact Fa]. intros p. apply plain_val_ok.
  - eapply Forall_impl; [|exact C]. intros a Fa. eapply Forall_impl; [|exact Fa]. intros p. apply plain_val_ok.
Qed.
