(* Proofs/C13Total.v — the model's repr(float) is TOTAL on valid finite non-zero doubles: short_digits always accepts a
   candidate, at 17 significant digits at the latest (the classical bound: 10^16 > 2^53).

     * [dec_exponent_ge]   the decimal exponent E chosen by dec_exponent satisfies 10^E <= m * 2^e  (the four tested
                           candidates by their own test; the fallback E0 - 2 by a table over the 2098 binary exponents
                           log2 m + e in [-1074, 1023], checked by computation);
     * [cand_rounds]       with k = E - 16: the nearer of the two 17-digit decimals  c * 10^k  around x = m * 2^e is within
                           10^k / 2 of x, and 10^16 * 10^k <= x < 2^53 * ulp gives 10^k < ulp  (2 * 10^k <= ulp when m = 2^52),
                           so x is the correctly rounded value of c * 10^k  (Proofs/C13Ratio.v: [ratio_to_sf_of_rounds]);
     * [short_digits_total], [repr_float_total], [num_text_full_total].
   Z only, no axioms. *)
From Coq Require Import Lia ZifyBool SpecFloat.
From BS Require Import Model.Base Model.Num Model.Regex Model.NumText Model.Arith Model.LibMore Gen.Unicode
  Proofs.BaseFacts Proofs.FloatFacts Proofs.FloatRound Proofs.C13 Proofs.C13Ratio Proofs.C13Repr Proofs.C13NumStr.
Local Open Scope Z_scope.

Definition Xof (m : positive) (e : Z) : Z := if 0 <=? e then Zpos m * 2 ^ e else Zpos m.
Definition Yof (e : Z) : Z := if 0 <=? e then 1 else 2 ^ (- e).

Lemma XY_pos m e : 0 < Xof m e /\ 0 < Yof e.
Proof.
  unfold Xof, Yof. destruct (Z.leb_spec 0 e).
  - assert (0 < 2 ^ e) by (apply pow2_pos; lia). split; nia.
  - assert (0 < 2 ^ (- e)) by (apply pow2_pos; lia). split; lia.
Qed.

(* x = X / Y, scaled by 2^1074 *)
Lemma XY_value m e : -1074 <= e -> Xof m e * 2 ^ 1074 = Zpos m * 2 ^ (e + 1074) * Yof e.
Proof.
  intros He. unfold Xof, Yof. destruct (Z.leb_spec 0 e).
  - rewrite pow2_split by lia. ring.
  - replace 1074 with ((e + 1074) + (- e)) at 1 by lia. rewrite pow2_split by lia. ring.
Qed.

(* ------------------------------------------------------------------ the decimal exponent is not too large *)
Lemma ge_pow10_alt X Y E : ge_pow10 X Y E = (10 ^ Z.max E 0 * Y <=? X * 10 ^ Z.max (- E) 0).
Proof.
  unfold ge_pow10. destruct (Z.leb_spec 0 E).
  - rewrite Z.max_l, (Z.max_r (- E)) by lia. rewrite Z.pow_0_r, Z.mul_1_r. reflexivity.
  - rewrite Z.max_r, (Z.max_l (- E)) by lia. rewrite Z.pow_0_r, Z.mul_1_l. reflexivity.
Qed.

Definition e0_of (L : Z) : Z := L * 30103 / 100000.
Definition tab_ok (L : Z) : bool :=
  let E := e0_of L - 2 in 10 ^ Z.max E 0 * 2 ^ Z.max (- L) 0 <=? 2 ^ Z.max L 0 * 10 ^ Z.max (- E) 0.
Lemma tab_all : forallb tab_ok (map (fun i => Z.of_nat i - 1074) (seq 0 2098)) = true.
Proof. vm_compute. reflexivity. Qed.
Lemma tab L : -1074 <= L <= 1023 -> tab_ok L = true.
Proof.
  intros H. pose proof tab_all as A. rewrite forallb_forall in A. apply A.
  apply in_map_iff. exists (Z.to_nat (L + 1074)). split; [lia|]. apply in_seq. lia.
Qed.

Lemma fallback_ge m e : Zpos m < 2 ^ 53 -> -1074 <= e <= 971 ->
  ge_pow10 (Xof m e) (Yof e) (e0_of (Z.log2 (Zpos m) + e) - 2) = true.
Proof.
  intros Hm He. set (l := Z.log2 (Zpos m)). set (L := l + e).
  destruct (Z.log2_spec (Zpos m) ltac:(lia)) as [Ll Lu]. fold l in Ll, Lu.
  assert (Hl0 : 0 <= l) by apply Z.log2_nonneg.
  assert (Hl : l <= 52).
  { destruct (Z_le_gt_dec l 52) as [X|X]; [exact X|exfalso].
    assert (2 ^ 53 <= 2 ^ l) by (apply Z.pow_le_mono_r; lia). lia. }
  pose proof (tab L ltac:(unfold L; lia)) as T. unfold tab_ok in T. cbv zeta in T.
  rewrite ge_pow10_alt. set (E := e0_of L - 2) in *.
  set (a := 10 ^ Z.max E 0) in *. set (f := 10 ^ Z.max (- E) 0) in *.
  assert (Pa : 0 < a) by (apply pow10_pos; lia). assert (Pf : 0 < f) by (apply pow10_pos; lia).
  set (c := 2 ^ Z.max (- L) 0) in *. set (d := 2 ^ Z.max L 0) in *.
  assert (Pc : 0 < c) by (apply pow2_pos; lia). assert (Pd : 0 < d) by (apply pow2_pos; lia).
  set (g := 2 ^ l) in *. assert (Pg : 0 < g) by (apply pow2_pos; lia).
  set (h := 2 ^ Z.max e 0). set (b := 2 ^ Z.max (- e) 0).
  assert (Ph : 0 < h) by (apply pow2_pos; lia). assert (Pb : 0 < b) by (apply pow2_pos; lia).
  assert (EX : Xof m e = Zpos m * h).
  { unfold Xof, h. destruct (Z.leb_spec 0 e); [rewrite Z.max_l by lia; reflexivity|rewrite Z.max_r by lia; rewrite Z.pow_0_r; lia]. }
  assert (EY : Yof e = b).
  { unfold Yof, b. destruct (Z.leb_spec 0 e); [rewrite Z.max_r by lia; reflexivity|rewrite Z.max_l by lia; reflexivity]. }
  assert (ID : d * b = g * h * c).
  { unfold d, b, g, h, c. rewrite <- !pow2_split by lia. f_equal. unfold L. lia. }
  rewrite EX, EY. apply Z.leb_le. apply Z.leb_le in T.
  (* a c <= d f ;  g <= m ;  d b = g h c   |-   a b <= m h f *)
  apply (Z.mul_le_mono_pos_r _ _ c Pc).
  apply Z.le_trans with (d * f * b).
  - replace (a * b * c) with (a * c * b) by ring. apply Z.mul_le_mono_nonneg_r; lia.
  - replace (d * f * b) with (g * (h * c * f)) by (replace (d * f * b) with (d * b * f) by ring; rewrite ID; ring).
    replace (Zpos m * h * f * c) with (Zpos m * (h * c * f)) by ring.
    apply Z.mul_le_mono_nonneg_r; [|lia]. assert (0 < h * c) by nia. nia.
Qed.

Theorem dec_exponent_ge m e : Zpos m < 2 ^ 53 -> -1074 <= e <= 971 ->
  ge_pow10 (Xof m e) (Yof e) (dec_exponent m e) = true.
Proof.
  intros Hm He. pose proof (fallback_ge m e Hm He) as F. unfold dec_exponent. cbv zeta.
  fold (Xof m e) (Yof e). fold (e0_of (Z.log2 (Zpos m) + e)). set (E0 := e0_of (Z.log2 (Zpos m) + e)) in *.
  destruct (ge_pow10 (Xof m e) (Yof e) (E0 + 2)) eqn:G2; [exact G2|].
  destruct (ge_pow10 (Xof m e) (Yof e) (E0 + 1)) eqn:G1; [exact G1|].
  destruct (ge_pow10 (Xof m e) (Yof e) E0) eqn:G0; [exact G0|].
  destruct (ge_pow10 (Xof m e) (Yof e) (E0 - 1)) eqn:G9; [exact G9|]. exact F.
Qed.

(* ------------------------------------------------------------------ 17 digits: the nearer candidate rounds to x *)
Lemma cand_rounds m e X Y P Q c : 0 < m < 2 ^ 53 -> -1074 <= e -> (m < 2 ^ 52 -> e = -1074) ->
  0 < X -> 0 < Y -> 0 < P -> 0 < Q ->
  X * 2 ^ 1074 = m * 2 ^ (e + 1074) * Y -> 10 ^ 16 * Q * Y <= X * P ->
  2 * Z.abs (c * (Y * Q) - X * P) <= Y * Q -> rounds_to (c * Q) P m e.
Proof.
  intros Hm He Hcan PX PY PP PQ I1 I2 Hc.
  set (T := 2 ^ 1074) in *. assert (PT : 0 < T) by (apply pow2_pos; lia).
  set (U := 2 ^ (e + 1074)) in *. assert (PU : 0 < U) by (apply pow2_pos; lia).
  set (D := c * Q * T - m * U * P).
  assert (HY : Y * D = T * (c * (Y * Q) - X * P)).
  { unfold D. replace (Y * (c * Q * T - m * U * P)) with (c * Q * T * Y - (m * U * Y) * P) by ring. rewrite <- I1. ring. }
  set (TQ := T * Q). assert (PTQ : 0 < TQ) by (unfold TQ; nia).
  set (UP := U * P). assert (PUP : 0 < UP) by (unfold UP; nia).
  assert (B1 : 2 * Z.abs D <= TQ).
  { apply (Z.mul_le_mono_pos_r _ _ Y PY).
    replace (2 * Z.abs D * Y) with (2 * Z.abs (Y * D)) by (rewrite Z.abs_mul, (Z.abs_eq Y) by lia; ring).
    rewrite HY, Z.abs_mul, (Z.abs_eq T) by lia.
    replace (TQ * Y) with (T * (Y * Q)) by (unfold TQ; ring).
    replace (2 * (T * Z.abs (c * (Y * Q) - X * P))) with (T * (2 * Z.abs (c * (Y * Q) - X * P))) by ring.
    apply Z.mul_le_mono_nonneg_l; lia. }
  assert (W0 : 10 ^ 16 * TQ <= m * UP).
  { apply (Z.mul_le_mono_pos_r _ _ Y PY).
    replace (10 ^ 16 * TQ * Y) with ((10 ^ 16 * Q * Y) * T) by (unfold TQ; ring).
    replace (m * UP * Y) with ((X * P) * T) by (unfold UP; replace (X * P * T) with (X * T * P) by ring; rewrite I1; ring).
    apply Z.mul_le_mono_nonneg_r; lia. }
  assert (W1 : m * UP <= (2 ^ 53 - 1) * UP) by (apply Z.mul_le_mono_nonneg_r; lia).
  unfold rounds_to. fold T U D. replace (U * P) with UP by reflexivity.
  split; [lia|]. split; [exact He|]. split; [exact Hcan|]. split; [lia|]. split; [intros; exfalso; lia|].
  intros M52 _. replace (m * U * P - c * Q * T) with (- D) by (unfold D; ring).
  rewrite M52 in W0. lia.
Qed.

Lemma sf_eqb_refl f : sf_eqb f f = true.
Proof. destruct f as [s|s| |s m e]; cbn; try reflexivity; try apply Bool.eqb_reflx. rewrite Bool.eqb_reflx, Pos.eqb_refl, Z.eqb_refl. reflexivity. Qed.

Lemma seventeen m e E : valid_binary prec emax (S754_finite false m e) = true ->
  ge_pow10 (Xof m e) (Yof e) E = true ->
  let k := E - 16 in
  let num := Xof m e * (if 0 <=? k then 1 else 10 ^ (- k)) in
  let den := Yof e * (if 0 <=? k then 10 ^ k else 1) in
  (2 * (num mod den) <= den -> dec_to_sf false (num / den) k = S754_finite false m e) /\
  (den < 2 * (num mod den) -> dec_to_sf false (num / den + 1) k = S754_finite false m e).
Proof.
  intros V G k num den. destruct (canonical_of_valid false m e V) as (Hm & He & Hcan).
  destruct (XY_pos m e) as [PX PY]. pose proof (XY_value m e ltac:(lia)) as I1.
  set (X := Xof m e) in *. set (Y := Yof e) in *.
  set (P := if 0 <=? k then 1 else 10 ^ (- k)) in *. set (Q := if 0 <=? k then 10 ^ k else 1) in *.
  assert (PP : 0 < P) by (unfold P; destruct (Z.leb_spec 0 k); [lia|apply pow10_pos; lia]).
  assert (PQ : 0 < Q) by (unfold Q; destruct (Z.leb_spec 0 k); [apply pow10_pos; lia|lia]).
  assert (I2 : 10 ^ 16 * Q * Y <= X * P).
  { rewrite ge_pow10_alt in G. apply Z.leb_le in G. unfold P, Q. destruct (Z.leb_spec 0 k) as [K|K].
    - rewrite Z.max_l, (Z.max_r (- E)) in G by lia. rewrite Z.pow_0_r in G.
      replace E with (16 + k) in G by (unfold k; lia). rewrite Z.pow_add_r in G by lia. lia.
    - destruct (Z.leb_spec 0 E) as [E0|E0].
      + rewrite Z.max_l, (Z.max_r (- E)) in G by lia. rewrite Z.pow_0_r in G.
        assert (P10 : 0 < 10 ^ (- k)) by (apply pow10_pos; lia).
        replace 16 with (E + - k) by (unfold k; lia). rewrite Z.pow_add_r by lia.
        replace (10 ^ E * 10 ^ (- k) * 1 * Y) with ((10 ^ E * Y) * 10 ^ (- k)) by ring.
        apply Z.mul_le_mono_nonneg_r; lia.
      + rewrite Z.max_r, (Z.max_l (- E)) in G by lia. rewrite Z.pow_0_r in G.
        replace (- k) with (16 + - E) by (unfold k; lia). rewrite Z.pow_add_r by lia.
        replace (X * (10 ^ 16 * 10 ^ (- E))) with (10 ^ 16 * (X * 10 ^ (- E))) by ring.
        replace (10 ^ 16 * 1 * Y) with (10 ^ 16 * (1 * Y)) by ring.
        apply Z.mul_le_mono_nonneg_l; lia. }
  assert (Pden : 0 < den) by (unfold den; nia).
  assert (Eden : den = Y * Q) by reflexivity. assert (Enum : num = X * P) by reflexivity.
  pose proof (Z.div_mod num den ltac:(lia)) as DM. pose proof (Z.mod_pos_bound num den Pden) as MB.
  assert (Hlo : 10 ^ 16 <= num / den).
  { apply Z.div_le_lower_bound; [lia|]. rewrite Eden, Enum. lia. }
  set (lo := num / den) in *. set (r := num mod den) in *.
  assert (R : forall c, 0 < c -> 2 * Z.abs (c * (Y * Q) - X * P) <= Y * Q -> dec_to_sf false c k = S754_finite false m e).
  { intros c Pc Hc. pose proof (cand_rounds (Zpos m) e X Y P Q c ltac:(lia) ltac:(lia) Hcan PX PY PP PQ I1 I2 Hc) as RT.
    unfold dec_to_sf. unfold P, Q in RT. destruct (Z.leb_spec 0 k) as [K|K].
    - assert (0 < 10 ^ k) by (apply pow10_pos; lia). apply ratio_to_sf_of_rounds; [nia|lia|exact RT|lia].
    - rewrite Z.mul_1_r in RT. apply ratio_to_sf_of_rounds; [lia|apply pow10_pos; lia|exact RT|lia]. }
  rewrite <- Eden, <- Enum in R. split; intros H.
  - apply R; [lia|]. replace (lo * den - num) with (- r) by lia. lia.
  - apply R; [lia|]. replace ((lo + 1) * den - num) with (den - r) by lia. lia.
Qed.

(* ------------------------------------------------------------------ the search ends *)
Lemma short_digits_from_17 t m e E : valid_binary prec emax (S754_finite false m e) = true ->
  ge_pow10 (Xof m e) (Yof e) E = true -> short_digits_from (S t) 17 m e E <> None.
Proof.
  intros V G. destruct (seventeen m e E V G) as [A B]. cbv zeta in A, B.
  rewrite short_digits_from_step. cbv zeta. replace (E - (17 - 1)) with (E - 16) by lia.
  fold (Xof m e) (Yof e).
  set (num := Xof m e * (if 0 <=? E - 16 then 1 else 10 ^ (- (E - 16)))) in *.
  set (den := Yof e * (if 0 <=? E - 16 then 10 ^ (E - 16) else 1)) in *.
  assert (Pden : 0 < den).
  { destruct (XY_pos m e) as [_ PY]. unfold den. destruct (Z.leb_spec 0 (E - 16)); [|lia].
    assert (0 < 10 ^ (E - 16)) by (apply pow10_pos; lia). nia. }
  set (lo := num / den) in *. set (r := num mod den) in *. clearbody lo r num den.
  assert (OK : sf_eqb (dec_to_sf false lo (E - 16)) (S754_finite false m e) = true \/
               negb (r =? 0) && sf_eqb (dec_to_sf false (lo + 1) (E - 16)) (S754_finite false m e) = true).
  { destruct (Z_le_gt_dec (2 * r) den) as [L|Gt].
    - left. rewrite (A L). apply sf_eqb_refl.
    - right. rewrite (B ltac:(lia)), sf_eqb_refl.
      destruct (Z.eqb_spec r 0) as [Z|NZ]; [exfalso; lia|reflexivity]. }
  destruct (sf_eqb (dec_to_sf false lo (E - 16)) (S754_finite false m e));
    destruct (negb (r =? 0) && sf_eqb (dec_to_sf false (lo + 1) (E - 16)) (S754_finite false m e)); cbn [andb].
  - destruct (2 * r <? den); [discriminate|]. destruct (den <? 2 * r); discriminate.
  - discriminate.
  - discriminate.
  - destruct OK; discriminate.
Qed.

Lemma short_digits_from_total todo : forall n m e E, valid_binary prec emax (S754_finite false m e) = true ->
  ge_pow10 (Xof m e) (Yof e) E = true -> n <= 17 -> 17 < n + Z.of_nat todo -> short_digits_from todo n m e E <> None.
Proof.
  induction todo as [|t IH]; intros n m e E V G Hn Ht; [lia|].
  destruct (Z.eq_dec n 17) as [->|NE]; [apply short_digits_from_17; assumption|].
  rewrite short_digits_from_step. cbv zeta.
  match goal with |- (if ?a && ?b then _ else _) <> None => destruct a; destruct b; cbn [andb] end.
  - match goal with |- (if ?c then _ else if ?d then _ else _) <> None => destruct c; [discriminate|destruct d; discriminate] end.
  - discriminate.
  - discriminate.
  - apply IH; try assumption; lia.
Qed.

Theorem short_digits_total m e : valid_binary prec emax (S754_finite false m e) = true -> short_digits m e <> None.
Proof.
  intros V. destruct (canonical_of_valid false m e V) as (Hm & He & _).
  unfold short_digits. apply short_digits_from_total; [exact V|apply dec_exponent_ge; assumption|lia|lia].
Qed.

Lemma valid_sign s m e : valid_binary prec emax (S754_finite s m e) = valid_binary prec emax (S754_finite false m e).
Proof. reflexivity. Qed.

Theorem repr_float_total s m e : valid_binary prec emax (S754_finite s m e) = true ->
  exists t, repr_float (S754_finite s m e) = ARes t.
Proof.
  intros V. rewrite valid_sign in V. pose proof (short_digits_total m e V) as T. cbn [repr_float].
  destruct (short_digits m e) as [[d k]|]; [|congruence]. eexists. reflexivity.
Qed.

(* value_string always has a text for a valid double, and the text reads back *)
Theorem num_text_full_total f : valid_binary prec emax f = true ->
  exists t, num_text_full (NFlt f) = ARes t /\ py_float t = Some f.
Proof.
  intros V.
  assert (T : exists t, num_text_full (NFlt f) = ARes t).
  { unfold num_text_full. destruct (num_to_str (NFlt f)) as [r| |] eqn:N.
    - eexists. reflexivity.
    - exfalso. destruct f as [s|s| |s m e]; cbn [num_to_str] in N; try discriminate.
      destruct (sf_integral (S754_finite s m e)); [destruct (Z.abs z <? 10 ^ 16); discriminate|].
      unfold dyadic_text in N. cbv zeta in N.
      match type of N with (if ?c then _ else _) = _ => destruct c; discriminate end.
    - destruct f as [s|s| |s m e]; cbn [num_to_str] in N; try discriminate.
      destruct (repr_float_total s m e V) as [t R]. rewrite R. eexists. reflexivity. }
  destruct T as [t T]. exists t. split; [exact T|]. apply num_text_full_roundtrip; assumption.
Qed.

(* ------------------------------------------------------------------ the contract of Section CPython (Proofs/C13.v), for the model's repr *)
Theorem repr_float_contract s m e : valid_binary prec emax (S754_finite s m e) = true ->
  exists t, repr_float (S754_finite s m e) = ARes t /\ repr_ok t = true /\
            float_with dec_to_sf t = Some (S754_finite s m e) /\
            value_parse_number (value_string_float t) = Some (S754_finite s m e).
Proof.
  intros V. destruct (repr_float_total s m e V) as [t R]. exists t. split; [exact R|]. split; [exact (repr_float_repr_ok _ _ R)|].
  split; [rewrite <- py_float_factors; exact (repr_float_roundtrip _ _ R)|].
  unfold value_parse_number, value_string_float. rewrite (repr_float_cleanup_roundtrip _ _ R). reflexivity.
Qed.

Theorem repr_float_parse_number f t : repr_float f = ARes t -> value_parse_number (value_string_float t) = Some f.
Proof.
  intros R. destruct (repr_float_finite f t R) as (s & m & e & ->).
  unfold value_parse_number, value_string_float. rewrite (repr_float_cleanup_roundtrip _ _ R). reflexivity.
Qed.

Theorem repr_float_literal f t : repr_float f = ARes t -> is_neg_text t = false ->
  let text := value_string_float t in lit_match text = Some (O, length text) /\ py_float text = Some f.
Proof.
  intros R N text. split; [apply cleanup_is_literal; [exact (repr_float_in_grammar f t R)|exact N]|].
  exact (repr_float_cleanup_roundtrip _ _ R).
Qed.

Theorem num_text_full_total_parse f : valid_binary prec emax f = true -> NumText.sf_is_finite f = true ->
  exists t, num_text_full (NFlt f) = ARes t /\ value_parse_number t = Some f.
Proof.
  intros V F. destruct (num_text_full_total f V) as (t & T & _). exists t. split; [exact T|].
  apply num_text_full_parse_number; assumption.
Qed.

(* non-vacuity: 0.1, 1e22, 5e-324, the largest double, 123456789.123, -2.5e-07, 1e16, 0.0001, 123456.0, the smallest normal *)
Definition fl (s : bool) (m : positive) (e : Z) : flt := S754_finite s m e.
Definition repr_samples_model : list (flt * str * str) :=
  [ (fl false 7205759403792794 (-56), U "0.1", U "0.1");
    (fl false 4768371582031250 21, U "1e+22", U "1e+22");
    (fl false 1 (-1074), U "5e-324", U "5e-324");
    (fl false 9007199254740991 971, U "1.7976931348623157e+308", U "1.7976931348623157e+308");
    (fl false 8285044871132086 (-26), U "123456789.123", U "123456789.123");
    (fl true 4722366482869645 (-74), U "-2.5e-07", U "-2.5e-07");
    (fl false 5000000000000000 1, U "1e+16", U "1e+16");
    (fl false 7378697629483821 (-66), U "0.0001", U "0.0001");
    (fl false 8483831719919616 (-36), U "123456.0", U "123456");
    (fl false 4503599627370496 (-1074), U "2.2250738585072014e-308", U "2.2250738585072014e-308") ].
Definition ares_is (a : ares str) (s : str) : bool := match a with ARes t => str_eqb t s | _ => false end.
Definition sample_ok (x : flt * str * str) : bool :=
  let '(f, r, t) := x in
  valid_binary prec emax f && ares_is (repr_float f) r && ares_is (num_text_full (NFlt f)) t &&
  match py_float r, value_parse_number t with Some g, Some h => sf_eqb g f && sf_eqb h f | _, _ => false end.
Example repr_samples_model_ok : forallb sample_ok repr_samples_model = true.
Proof. vm_compute. reflexivity. Qed.
