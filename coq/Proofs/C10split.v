(* Proofs/C10split.v — the regex-based line splitter of the shared model IS the direct splitter, for EVERY text:

     split_lines text   = ROk (split_direct text)
     split_chunks cs    = ROk (concat (map split_direct cs))

   split_lines (Model/Script.v) runs the regenerated regex  \r?\n  (Gen/Regexes.v, R_SCRIPT_LINE_SPLIT) through the
   backtracking engine's re_split; split_direct (Model/ScriptX.v) is "split at LF, drop one CR in front of it".  All the
   C10 / C06 layout theorems are about split_direct; before this file the tie was only checked case by case.

   The proof:
     line_split_ev     what the engine answers for  \r?\n  at a suffix of the subject (by RegexEval.m_at_ev the call of
                       re_split_from is the fuel-free evaluator ev, which unfolds on the regex): CR LF is read as a
                       two-character separator, LF as a one-character one, anything else is no separator.  A CR that is
                       not followed by LF (also CR CR LF: the first CR) is refused after the backtrack of the greedy `?`.
     split_walk_lines  re_split_from walks the text in step with split_direct_aux.  The two differ in WHEN the CR goes
                       away: the engine closes the piece in front of CR LF, the direct splitter pushes the CR and drops
                       it at the LF.  They agree as long as the engine is never at an LF with a CR just pushed — the
                       invariant [cr_lf_free]: a CR is only pushed when the next character is not LF.
     no fuel side condition: re_split gives S |text| units, every step of the walk eats at least one character. *)
From Coq Require Import Lia.
From BS Require Import Model.Base Model.Regex Model.Num Model.ExprParser Model.Script Model.ScriptX
  Gen.Unicode Gen.Regexes Proofs.RegexFacts Proofs.RegexComplete Proofs.RegexShift Proofs.RegexEval Proofs.C06 Proofs.C10.

(* ---------- the regex at a suffix of the subject ---------- *)
Lemma shape_line_split : R_SCRIPT_LINE_SPLIT = RCat (RRep 0 (Some 1) (RLit 13)) (RLit 10).
Proof. reflexivity. Qed.

(* the direct reading of  \r?\n  *)
Definition line_sep (pos : nat) (rest : str) : mres :=
  match rest with
  | y :: t =>
    if (y =? 10)%N then MYes (S pos) []
    else if (y =? 13)%N then match t with z :: _ => if (z =? 10)%N then MYes (S (S pos)) [] else MNo | [] => MNo end
    else MNo
  | [] => MNo
  end.

Lemma line_split_ev pos rest : ev UC R_SCRIPT_LINE_SPLIT pos rest [] kfin = line_sep pos rest.
Proof.
  rewrite shape_line_split, ev_cat, ev_opt. unfold line_sep. cbn [ev].
  destruct rest as [|y t]; [reflexivity|].
  destruct (N.eqb_spec y 13) as [->|N13].
  - (* CR: the greedy ? takes it; LF must follow, the backtrack (LF where the CR is) fails *)
    rewrite neq_succ. change (13 =? 10)%N with false. cbv iota.
    destruct t as [|z t']; [reflexivity|]. destruct (z =? 10)%N; reflexivity.
  - destruct (y =? 10)%N; reflexivity.
Qed.

Lemma line_split_m whole pos rest : length rest <= length whole ->
  m UC (fuel_for R_SCRIPT_LINE_SPLIT whole) R_SCRIPT_LINE_SPLIT pos rest [] (fun p _ c => MYes p c) = line_sep pos rest.
Proof. intros L. rewrite (m_at_ev UC R_SCRIPT_LINE_SPLIT whole pos rest L). apply line_split_ev. Qed.

(* ---------- the direct splitter, one step ---------- *)
Definition drop_cr (cur : str) : str := match cur with 13%N :: cur' => cur' | _ => cur end.

Lemma split_aux_lf t cur : split_direct_aux (10%N :: t) cur = rev (drop_cr cur) :: split_direct_aux t [].
Proof. reflexivity. Qed.

(* the engine is never at an LF with a CR just pushed on the current piece *)
Definition cr_lf_free (cur rest : str) : Prop :=
  match rest with
  | y :: _ => (y =? 10)%N = true -> drop_cr cur = cur
  | [] => True
  end.

Lemma drop_cr_not13 y cur : y <> 13%N -> drop_cr (y :: cur) = y :: cur.
Proof.
  intros N. unfold drop_cr. destruct y as [|p]; [reflexivity|].
  repeat (destruct p as [p|p|]; try reflexivity). congruence.
Qed.

(* ---------- the walk ---------- *)
Lemma split_walk_lines whole : forall fuel pos rest cur,
  length rest < fuel -> length rest <= length whole -> cr_lf_free cur rest ->
  re_split_from UC R_SCRIPT_LINE_SPLIT whole fuel pos rest cur = Some (split_direct_aux rest cur).
Proof.
  induction fuel as [|fuel IH]; intros pos rest cur LF LW INV; [lia|].
  destruct rest as [|y t]; [reflexivity|].
  cbn [re_split_from]. rewrite (line_split_m whole pos (y :: t) LW). unfold line_sep.
  cbn [length] in LF, LW.
  destruct (N.eqb_spec y 10) as [->|N10].
  - (* LF: the piece is closed; no CR was pushed just before *)
    assert (LT : Nat.ltb pos (S pos) = true) by (apply Nat.ltb_lt; lia). rewrite LT.
    replace (S pos - pos) with 1 by lia. cbn [skipn].
    rewrite IH; [|lia|lia|].
    + cbn [option_map]. rewrite split_aux_lf. cbn [cr_lf_free] in INV. rewrite (INV eq_refl). reflexivity.
    + destruct t as [|z t']; [exact I|]. intros _. reflexivity.
  - destruct (N.eqb_spec y 13) as [->|N13].
    + destruct t as [|z t'].
      * (* a final CR stays in the piece *)
        rewrite IH; [|cbn [length]; lia|cbn [length]; lia|exact I]. reflexivity.
      * destruct (N.eqb_spec z 10) as [->|Z10].
        -- (* CR LF: the engine closes the piece here, the direct splitter pushes the CR and drops it at the LF *)
           assert (LT : Nat.ltb pos (S (S pos)) = true) by (apply Nat.ltb_lt; lia). rewrite LT.
           replace (S (S pos) - pos) with 2 by lia. cbn [skipn]. cbn [length] in LF, LW.
           rewrite IH; [|lia|lia|].
           ++ cbn [option_map]. rewrite (split_aux_cons 13 (10%N :: t') cur) by discriminate.
              rewrite split_aux_lf. reflexivity.
           ++ destruct t' as [|w t'']; [exact I|]. intros _. reflexivity.
        -- (* CR, no LF behind it: the CR joins the piece *)
           rewrite IH; [|lia|lia|].
           ++ rewrite (split_aux_cons 13 (z :: t') cur) by discriminate. reflexivity.
           ++ cbn [cr_lf_free]. intros E. apply N.eqb_eq in E. congruence.
    + (* any other character joins the piece *)
      rewrite IH; [|lia|lia|].
      * rewrite (split_aux_cons y t cur N10). reflexivity.
      * destruct t as [|z t']; [exact I|]. cbn [cr_lf_free]. intros _. apply drop_cr_not13. exact N13.
Qed.

(* ---------- the theorems ---------- *)
Theorem re_split_lines_direct text : re_split UC R_SCRIPT_LINE_SPLIT text = Some (split_direct text).
Proof.
  unfold re_split, split_direct. apply split_walk_lines; [lia | lia |].
  destruct text as [|y t]; [exact I|]. intros _. reflexivity.
Qed.

Theorem split_lines_is_split_direct : forall text, split_lines text = ROk (split_direct text).
Proof. intros text. unfold split_lines. rewrite re_split_lines_direct. reflexivity. Qed.

Theorem split_chunks_is_split_direct : forall chunks, split_chunks chunks = ROk (concat (map split_direct chunks)).
Proof.
  induction chunks as [|c t IH]; [reflexivity|].
  change (split_chunks (c :: t)) with
    (match split_lines c, split_chunks t with
     | ROk x, ROk y => ROk (x ++ y)
     | RFuel, _ | _, RFuel => RFuel
     | RHost w, _ | _, RHost w => RHost w
     | RErr e, _ | _, RErr e => RErr e
     end).
  rewrite split_lines_is_split_direct, IH. reflexivity.
Qed.

(* ---------- what the splitter of the shared model produces is LF-free ---------- *)
Theorem split_lines_no_lf : forall text lines, split_lines text = ROk lines -> Forall no_lf lines.
Proof.
  intros text lines E. rewrite split_lines_is_split_direct in E. inversion E; subst. apply split_direct_no_lf.
Qed.

Theorem split_chunks_no_lf : forall chunks lines, split_chunks chunks = ROk lines -> Forall no_lf lines.
Proof.
  intros chunks lines E. rewrite split_chunks_is_split_direct in E. inversion E; subst. clear E.
  induction chunks as [|c t IH]; [constructor|].
  cbn [map concat]. apply Forall_app. split; [apply split_direct_no_lf | exact IH].
Qed.

(* the physical lines never fail and are never out of fuel *)
Corollary split_lines_total : forall text, exists lines, split_lines text = ROk lines.
Proof. intros text. eexists. apply split_lines_is_split_direct. Qed.

(* ---------- logical lines: through the continuation join as well ---------- *)
(* A logical line is a physical line, or the parts of a continued line — each with its continuation removed by
   re.sub(`\\\s*$`, '') and stripped — joined by one space.  None of these steps can create an LF: a substitution by the
   empty string only deletes characters (for ANY regex), strip only deletes characters, the separator is a space. *)
Lemma skipn_In {A} (x : A) : forall n l, In x (skipn n l) -> In x l.
Proof.
  induction n as [|n IH]; intros l H; [exact H|]. destruct l as [|y t]; [exact H|]. right. apply IH. exact H.
Qed.

Lemma re_sub_from_deletes r whole : forall fuel pos rest out,
  re_sub_from UC r (fun _ => []) whole fuel pos rest = Some out -> forall x, In x out -> In x rest.
Proof.
  induction fuel as [|f IH]; intros pos rest out E x I; cbn [re_sub_from] in E.
  - inversion E; subst. exact I.
  - assert (STEP : match rest with [] => Some [] | y :: t => option_map (cons y) (re_sub_from UC r (fun _ => []) whole f (S pos) t) end = Some out
                   -> In x rest).
    { destruct rest as [|y t]; intros E'.
      - inversion E'; subst. destruct I.
      - destruct (re_sub_from UC r (fun _ => []) whole f (S pos) t) as [o|] eqn:Eo; [|discriminate].
        cbn [option_map] in E'. inversion E'; subst. destruct I as [<-|I]; [left; reflexivity | right; exact (IH _ _ _ Eo x I)]. }
    destruct (m UC (fuel_for r whole) r pos rest [] (fun p _ c => MYes p c)) as [|p c|]; [exact (STEP E) | | discriminate].
    destruct (Nat.ltb pos p); [|exact (STEP E)].
    destruct (re_sub_from UC r (fun _ => []) whole f p (skipn (p - pos) rest)) as [o|] eqn:Eo; [|discriminate].
    cbn [option_map app] in E. inversion E; subst. apply (skipn_In x (p - pos)). exact (IH _ _ _ Eo x I).
Qed.

Lemma strip_continuation_deletes line s : strip_continuation line = ROk s -> forall x, In x s -> In x line.
Proof.
  unfold strip_continuation, re_sub. intros E.
  destruct (re_sub_from UC R_SCRIPT_CONTINUATION (fun _ => []) line (S (length line)) 0 line) as [o|] eqn:Eo; [|discriminate].
  inversion E; subst. exact (re_sub_from_deletes _ _ _ _ _ _ Eo).
Qed.

Lemma lstrip_deletes x : forall s, In x (lstrip s) -> In x s.
Proof.
  induction s as [|c t IH]; cbn [lstrip]; [intros []|]. destruct (U_space c); [|intros H; exact H].
  intros H. right. apply IH. exact H.
Qed.
Lemma rstrip_deletes x s : In x (rstrip s) -> In x s.
Proof. unfold rstrip. intros H. apply in_rev in H. apply lstrip_deletes in H. apply in_rev in H. exact H. Qed.
Lemma strip_deletes x s : In x (strip s) -> In x s.
Proof. unfold strip. intros H. apply rstrip_deletes in H. apply lstrip_deletes in H. exact H. Qed.

Lemma join_space_no_lf parts : Forall no_lf parts -> no_lf (join_with [32%N] parts).
Proof.
  induction parts as [|p t IH]; intros F; [intros []|]. inversion F as [|? ? F1 F2]; subst.
  destruct t as [|p2 t]; [exact F1|].
  change (join_with [32%N] (p :: p2 :: t)) with (p ++ 32%N :: join_with [32%N] (p2 :: t)).
  intros I. apply in_app_or in I. destruct I as [I|[I|I]]; [exact (F1 I) | discriminate | exact (IH F2 I)].
Qed.

Lemma lstep_no_lf st ix part : Forall no_lf (l_cont st) -> no_lf part ->
  match lstep st ix part with
  | LSkip st' => Forall no_lf (l_cont st')
  | LLine st' _ line => Forall no_lf (l_cont st') /\ no_lf line
  | LBad _ => True
  end.
Proof.
  intros FC NP. unfold lstep.
  destruct (is_comment part) as [[|]| | |]; try exact I; [exact FC|].
  destruct (strip_continuation part) as [nc| | |] eqn:ES; try exact I.
  assert (NC : no_lf nc) by (intros H; exact (NP (strip_continuation_deletes part nc ES _ H))).
  assert (N1 : no_lf (strip nc)) by (intros H; exact (NC (strip_deletes _ _ H))).
  assert (N2 : no_lf (rstrip nc)) by (intros H; exact (NC (rstrip_deletes _ _ H))).
  destruct (negb (str_eqb part nc)).
  - cbn [l_cont]. apply Forall_app. split; [exact FC|]. constructor; [|constructor].
    destruct (negb match l_cont st with [] => true | _ :: _ => false end); assumption.
  - destruct (negb match l_cont st with [] => true | _ :: _ => false end).
    + cbn [l_cont]. split; [constructor|]. apply join_space_no_lf. apply Forall_app. split; [exact FC|].
      constructor; [exact N1 | constructor].
    + cbn [l_cont]. split; [constructor | exact NP].
Qed.

Lemma llines_no_lf : forall lines ix ls, Forall no_lf lines -> Forall no_lf (l_cont ls) ->
  Forall (fun p => no_lf (snd p)) (fst (llines lines ix ls)).
Proof.
  induction lines as [|part rest IH]; intros ix ls FL FC; [constructor|].
  inversion FL as [|? ? F1 F2]; subst. cbn [llines].
  pose proof (lstep_no_lf ls ix part FC F1) as ST.
  destruct (lstep ls ix part) as [ls'|ls' i line|r].
  - apply IH; assumption.
  - destruct ST as [FC' NL]. specialize (IH (S ix) ls' F2 FC').
    destruct (llines rest (S ix) ls') as [l t]. cbn [fst] in *. constructor; [exact NL | exact IH].
  - constructor.
Qed.

(* every logical line of parse_script's front end — regex split of the chunks, comment filter, continuation join — is LF-free *)
Theorem logical_lines_no_lf : forall chunks lines, split_chunks chunks = ROk lines ->
  forall ix line, In (ix, line) (fst (llines lines 0 ls_init)) -> no_lf line.
Proof.
  intros chunks lines E ix line I.
  pose proof (llines_no_lf lines 0 ls_init (split_chunks_no_lf chunks lines E) (Forall_nil _)) as F.
  rewrite Forall_forall in F. exact (F (ix, line) I).
Qed.
