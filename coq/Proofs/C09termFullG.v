(* Proofs/C09termFullG.v — the weaker termination premise of Proofs/C09termG.v ([lib_post], [lib_wf]) holds for the combined
   library Model/LibAll.v libfull (LibCore + arraySort with ANY comparator + every lifted function), in every world.

   The only library function of libfull that calls back is arraySort, so a statement-free recursion through the library is a
   nest  arraySort(X1, arraySort) -> arraySort(X2, arraySort) -> ...  where each level is the FIRST comparison of the level
   above: the comparator arraySort answers with an array (or fails), `array < 0` is a TypeError, so a level whose comparator
   is arraySort makes exactly one comparator call.  While a list is being sorted it is empty, so every level takes one list
   of two or more elements out of the heap: the measure of  arraySort(X, arraySort)  in world w is 1 + the measure of that
   first comparison in w with X emptied, by recursion on the number of lists of length >= 2 in the heap.
     mu   = [mu_sort]     (0 for every other function: they never call back)
     Post = [post_sort]   (arraySort answers with an array or not with a value)

   What is NOT covered: libfull2 = libfull + systemPartial closures.  See the end of this file: over ARBITRARY worlds the
   termination statement is FALSE for libfull2 (a forged hidden array that holds its own closure), so any instance needs
   the invariant "a closure's hidden array was allocated before the closure value existed and is never written", an
   invariant of the reachable states of whole runs (interpreter locals included), which is not established here. *)
From Coq Require Import List Lia ZArith Bool.
From BS Require Import Model.Base Model.Num Model.Arith Model.ExprParser Model.Script Model.Interp Model.LibCore Model.LibCall
                       Model.LibMore Model.LibAll Model.LibPartial Model.Run
                       Proofs.BaseFacts Proofs.InterpEq Proofs.C09 Proofs.C09term Proofs.LibCall Proofs.LibAll Proofs.LibPartial
                       Proofs.C09termFull Proofs.C09termG.
Local Open Scope Z_scope.

(* ---- the measure ---- *)
Definition big (a : list value) : bool := Nat.leb 2 (length a).
Definition nbig (w : world) : nat := length (filter big (w_arrs w)).

Fixpoint ms (fuel : nat) (args : list value) (w : world) : nat :=
  match fuel with
  | O => O
  | S k =>
    match args with
    | [VArr l; VFun (FLib nm)] =>
      if op_is nm "arraySort" then
        match get_arr w l with
        | x0 :: x1 :: _ => S (ms k [x1; x0] (set_arr w l []))
        | _ => 1%nat
        end
      else 1%nat
    | _ => 1%nat
    end
  end.

Definition mu_sort (name : str) (args : list value) (w : world) : nat :=
  if op_is name "arraySort" then ms (S (nbig w)) args w else O.

Definition post_sort (name : str) (r : outcome * world) : Prop :=
  op_is name "arraySort" = true -> forall v, fst r = OVal v -> exists l, v = VArr l.

(* emptying a list of two or more elements takes one out of the count *)
Lemma filter_set_nth_empty : forall (arrs : list (list value)) l a, nth_error arrs l = Some a -> big a = true ->
  length (filter big arrs) = S (length (filter big (set_nth arrs l []))).
Proof.
  induction arrs as [|h t IH]; intros [|l] a E Hb; cbn in E; try discriminate E.
  - injection E as ->. cbn [set_nth filter]. rewrite Hb. reflexivity.
  - cbn [set_nth filter]. destruct (big h); cbn [length]; rewrite (IH l a E Hb); reflexivity.
Qed.

Lemma nbig_set_empty w l x0 x1 rest : get_arr w l = x0 :: x1 :: rest -> nbig w = S (nbig (set_arr w l [])).
Proof.
  unfold get_arr, nbig, set_arr. intros E. destruct (nth_error (w_arrs w) l) as [a|] eqn:En; [|discriminate E]. subst a.
  cbn [w_arrs upd_arrs]. apply (filter_set_nth_empty _ l _ En). reflexivity.
Qed.

(* ---- arraySort: shape of the arguments, answers ---- *)
Lemma validate_sort_inv w args l fv :
  validate w [A TArray; AFunN] args = VOk [AV (VArr l); AV fv] -> fv <> VNull -> args = [VArr l; fv].
Proof.
  intros Ev Hn. destruct args as [|x0 [|x1 rest]].
  - discriminate Ev.
  - destruct x0; try discriminate Ev. cbn in Ev. injection Ev as _ E. congruence.
  - destruct x0; try discriminate Ev.
    destruct x1; try discriminate Ev; destruct rest; try discriminate Ev; cbn in Ev;
      injection Ev as E1 E2; subst; try reflexivity; congruence.
Qed.

(* either the call has the shape arraySort(array, non-null), or the callback plays no part *)
Lemma lib_sort_shape cfg args w :
  (exists l fv, args = [VArr l; fv] /\ fv <> VNull) \/ (forall cb1 cb2 : caller, lib_sort cfg cb1 args w = lib_sort cfg cb2 args w).
Proof.
  destruct (validate w [A TArray; AFunN] args) as [va| |] eqn:Ev;
    try (right; intros; unfold lib_sort; rewrite Ev; reflexivity).
  destruct va as [|[a0|] va]; try (right; intros; unfold lib_sort; rewrite Ev; reflexivity).
  destruct a0 as [| | | | |l| | |]; try (right; intros; unfold lib_sort; rewrite Ev; reflexivity).
  destruct va as [|[fv|] va]; try (right; intros; unfold lib_sort; rewrite Ev; reflexivity).
  destruct va; try (right; intros; unfold lib_sort; rewrite Ev; reflexivity).
  assert (D : fv = VNull \/ fv <> VNull) by (destruct fv; (left; reflexivity) || (right; discriminate)).
  destruct D as [->|Hn]; [right; intros; unfold lib_sort; rewrite Ev; reflexivity|].
  left. exists l, fv. split; [exact (validate_sort_inv w args l fv Ev Hn)|exact Hn].
Qed.

Lemma validate_sort_ok w l fv : fv <> VNull -> (exists fr, fv = VFun fr) ->
  validate w [A TArray; AFunN] [VArr l; fv] = VOk [AV (VArr l); AV fv].
Proof. intros Hn [fr ->]. reflexivity. Qed.

(* arraySort answers with its array, or not with a value *)
Lemma lib_sort_val cfg cb args w v : fst (lib_sort cfg cb args w) = LVal v -> exists l, v = VArr l.
Proof.
  unfold lib_sort.
  destruct (validate w [A TArray; AFunN] args) as [va| |]; try (cbn; discriminate).
  destruct va as [|[a0|] va]; try (cbn; discriminate). destruct a0 as [| | | | |l| | |]; try (cbn; discriminate).
  destruct va as [|[fv|] va]; try (cbn; discriminate). destruct va; try (cbn; discriminate).
  assert (Hpure : fst (match small_sort islt_cmp (get_arr w l) w with
     | (cur, None, w1) => (LVal (VArr l), set_arr w1 l cur) | (cur, Some r, w1) => (r, set_arr w1 l cur) end) = LVal v -> exists l0, v = VArr l0).
  { assert (Hs : forall xs w0, match snd (fst (small_sort islt_cmp xs w0)) with Some r => r = LRaise msg_recursion | None => True end).
    { assert (Hi : forall x y w0, match fst (islt_cmp x y w0) with CStop r => r = LRaise msg_recursion | CLt _ => True end).
      { intros x y w0. unfold islt_cmp. destruct (vcompare (cmp_fuel w0) w0 x y) as [[| |]|]; cbn; auto. }
      assert (Hr : forall desc rest prev n w0, match fst (run_ext islt_cmp desc prev rest n w0) with inr r => r = LRaise msg_recursion | inl _ => True end).
      { intros desc. induction rest as [|x t IH]; intros prev n w0; cbn [run_ext]; [exact Logic.I|].
        pose proof (Hi x prev w0) as H. destruct (islt_cmp x prev w0) as [cr w1]. cbn [fst] in H.
        destruct cr as [b|r]; [|exact H]. destruct (Bool.eqb b desc); [apply IH|exact Logic.I]. }
      assert (Hb : forall fuel pivot pre lo hi w0, match fst (bsearch islt_cmp fuel pivot pre lo hi w0) with inr r => r = LRaise msg_recursion | inl _ => True end).
      { induction fuel as [|fu IH]; intros pivot pre lo hi w0; cbn [bsearch]; [exact Logic.I|].
        destruct (Nat.ltb lo hi); [|exact Logic.I].
        pose proof (Hi pivot (nth (lo + Nat.div2 (hi - lo)) pre VNull) w0) as H.
        destruct (islt_cmp pivot (nth (lo + Nat.div2 (hi - lo)) pre VNull) w0) as [cr w1]. cbn [fst] in H.
        destruct cr as [[|]|r]; [apply IH|apply IH|exact H]. }
      assert (Hbs : forall todo sorted w0, match snd (fst (binsort islt_cmp sorted todo w0)) with Some r => r = LRaise msg_recursion | None => True end).
      { induction todo as [|pivot t IH]; intros sorted w0; cbn [binsort]; [exact Logic.I|].
        pose proof (Hb (S (length sorted)) pivot sorted 0%nat (length sorted) w0) as H.
        destruct (bsearch islt_cmp (S (length sorted)) pivot sorted 0 (length sorted) w0) as [[pos|r] w1]; cbn [fst] in H; [apply IH|exact H]. }
      intros xs w0. unfold small_sort. destruct xs as [|x0 [|x1 rest]]; try exact Logic.I.
      pose proof (Hi x1 x0 w0) as H. destruct (islt_cmp x1 x0 w0) as [cr w1]. cbn [fst] in H.
      destruct cr as [desc|r]; [|exact H].
      pose proof (Hr desc rest x1 2%nat w1) as H2. destruct (run_ext islt_cmp desc x1 rest 2 w1) as [[n|r] w2]; cbn [fst] in H2; [apply Hbs|exact H2]. }
    specialize (Hs (get_arr w l) w). destruct (small_sort islt_cmp (get_arr w l) w) as [[cur s] w1]. cbn [fst snd] in Hs.
    destruct s as [r|]; cbn [fst]; [subst r; discriminate|]. intros E. injection E as <-. exists l. reflexivity. }
  assert (Hcall : fst (
     if Nat.leb 64 (length (get_arr w l)) then (LOracle, w) else
     match small_sort (islt_cb cb fv) (get_arr w l) (set_arr w l []) with
     | (cur, Some r, w1) => match r with LRaise _ => if c_debug cfg then (LOracle, w1) else (r, set_arr w1 l cur) | _ => (r, set_arr w1 l cur) end
     | (cur, None, w1) => if is_nil (get_arr w1 l) then (LVal (VArr l), set_arr w1 l cur)
                          else if c_debug cfg then (LOracle, w1) else (LRaise (U "list modified during sort"), set_arr w1 l cur)
     end) = LVal v -> exists l0, v = VArr l0).
  { destruct (Nat.leb 64 (length (get_arr w l))); [cbn; discriminate|].
    (* a stop of a comparison through a comparator is never a value *)
    assert (Hi : forall x y w0, match fst (islt_cb cb fv x y w0) with CStop (LVal _) => False | _ => True end).
    { intros x y w0. unfold islt_cb. destruct (cb fv [x; y] w0) as [o w1]. destruct o as [u| | | | |]; cbn; auto. destruct u; cbn; auto. }
    assert (Hr : forall desc rest prev n w0, match fst (run_ext (islt_cb cb fv) desc prev rest n w0) with inr (LVal _) => False | _ => True end).
    { intros desc. induction rest as [|x t IH]; intros prev n w0; cbn [run_ext]; [exact Logic.I|].
      pose proof (Hi x prev w0) as H. destruct (islt_cb cb fv x prev w0) as [cr w1]. cbn [fst] in H.
      destruct cr as [b|r]; [|exact H]. destruct (Bool.eqb b desc); [apply IH|exact Logic.I]. }
    assert (Hb : forall fuel pivot pre lo hi w0, match fst (bsearch (islt_cb cb fv) fuel pivot pre lo hi w0) with inr (LVal _) => False | _ => True end).
    { induction fuel as [|fu IH]; intros pivot pre lo hi w0; cbn [bsearch]; [exact Logic.I|].
      destruct (Nat.ltb lo hi); [|exact Logic.I].
      pose proof (Hi pivot (nth (lo + Nat.div2 (hi - lo)) pre VNull) w0) as H.
      destruct (islt_cb cb fv pivot (nth (lo + Nat.div2 (hi - lo)) pre VNull) w0) as [cr w1]. cbn [fst] in H.
      destruct cr as [[|]|r]; [apply IH|apply IH|exact H]. }
    assert (Hbs : forall todo sorted w0, match snd (fst (binsort (islt_cb cb fv) sorted todo w0)) with Some (LVal _) => False | _ => True end).
    { induction todo as [|pivot t IH]; intros sorted w0; cbn [binsort]; [exact Logic.I|].
      pose proof (Hb (S (length sorted)) pivot sorted 0%nat (length sorted) w0) as H.
      destruct (bsearch (islt_cb cb fv) (S (length sorted)) pivot sorted 0 (length sorted) w0) as [[pos|r] w1]; cbn [fst] in H; [apply IH|exact H]. }
    assert (Hs : forall xs w0, match snd (fst (small_sort (islt_cb cb fv) xs w0)) with Some (LVal _) => False | _ => True end).
    { intros xs w0. unfold small_sort. destruct xs as [|x0 [|x1 rest]]; try exact Logic.I.
      pose proof (Hi x1 x0 w0) as H. destruct (islt_cb cb fv x1 x0 w0) as [cr w1]. cbn [fst] in H.
      destruct cr as [desc|r]; [|exact H].
      pose proof (Hr desc rest x1 2%nat w1) as H2. destruct (run_ext (islt_cb cb fv) desc x1 rest 2 w1) as [[n|r] w2]; cbn [fst] in H2; [apply Hbs|exact H2]. }
    specialize (Hs (get_arr w l) (set_arr w l [])).
    destruct (small_sort (islt_cb cb fv) (get_arr w l) (set_arr w l [])) as [[cur s] w1]. cbn [fst snd] in Hs.
    destruct s as [r|].
    - destruct r; try (cbn; discriminate); try contradiction. destruct (c_debug cfg); cbn; discriminate.
    - destruct (is_nil (get_arr w1 l)); [cbn; intros E; injection E as <-; exists l; reflexivity|].
      destruct (c_debug cfg); cbn; discriminate. }
  destruct fv; try exact Hcall. exact Hpure.
Qed.

(* a comparator that answers neither a number nor a boolean: the sort makes ONE comparator call *)
Definition no_order (r : outcome * world) : Prop := forall v, fst r = OVal v -> exists l, v = VArr l.

Lemma lib_sort_first cfg (cb : caller) l fr x0 x1 rest w r :
  get_arr w l = x0 :: x1 :: rest -> cb (VFun fr) [x1; x0] (set_arr w l []) = r -> no_order r ->
  lib_sort cfg cb [VArr l; VFun fr] w = lib_sort cfg (fun _ _ _ => r) [VArr l; VFun fr] w /\
  (w_count w <= w_count (snd r) -> w_count w <= w_count (snd (lib_sort cfg (fun _ _ _ => r) [VArr l; VFun fr] w))).
Proof.
  intros Eg Er Hno. unfold lib_sort.
  rewrite (validate_sort_ok w l (VFun fr)) by (try discriminate; eexists; reflexivity).
  rewrite Eg. destruct (Nat.leb 64 (length (x0 :: x1 :: rest))); [split; [reflexivity|cbn; lia]|].
  unfold small_sort, islt_cb. rewrite Er. destruct r as [o w1]. unfold no_order in Hno. cbn [fst snd] in *.
  destruct o as [v| | | | |].
  - destruct (Hno v eq_refl) as [l0 ->]. split; [reflexivity|]. destruct (c_debug cfg); cbn [snd]; rewrite ?set_arr_count; auto.
  - split; [reflexivity|]. cbn [snd]; rewrite ?set_arr_count; auto.
  - split; [reflexivity|]. cbn [snd]; rewrite ?set_arr_count; auto.
  - split; [reflexivity|]. cbn [snd]; rewrite ?set_arr_count; auto.
  - split; [reflexivity|]. cbn [snd]; rewrite ?set_arr_count; auto.
  - split; [reflexivity|]. cbn [snd]; rewrite ?set_arr_count; auto.
Qed.

(* a list of fewer than two elements: no comparator call *)
Lemma lib_sort_short cfg (cb1 cb2 : caller) l fr w : (length (get_arr w l) < 2)%nat ->
  lib_sort cfg cb1 [VArr l; VFun fr] w = lib_sort cfg cb2 [VArr l; VFun fr] w.
Proof.
  intros Hl. unfold lib_sort.
  rewrite (validate_sort_ok w l (VFun fr)) by (try discriminate; eexists; reflexivity).
  destruct (get_arr w l) as [|x0 [|x1 rest]]; [reflexivity|reflexivity|cbn in Hl; lia].
Qed.

Lemma sort_names name : op_is name "arraySort" = true ->
  forall args, text_override name args = false /\ str_mem name core_names = false.
Proof.
  intros H args. unfold op_is in H. apply str_eqb_eq in H. subst name. split; [|reflexivity].
  unfold text_override. replace (op_is (U "arraySort") "stringNew" || op_is (U "arraySort") "systemLog" || op_is (U "arraySort") "systemLogDebug")%bool
    with false by reflexivity. reflexivity.
Qed.

Lemma libfull_sort cfg cb name args w : op_is name "arraySort" = true -> libfull cfg cb name args w = lib_sort cfg cb args w.
Proof. intros H. rewrite libfull_unfold. destruct (sort_names name H args) as [-> ->]. rewrite H. reflexivity. Qed.

Theorem libfull_post cfg : lib_post (libfull cfg) post_sort.
Proof.
  intros cb name args w Hs v E. rewrite (libfull_sort cfg cb name args w Hs) in E.
  destruct (lib_sort cfg cb args w) as [lr w1] eqn:El. destruct lr; cbn in E; try discriminate E. injection E as <-.
  apply (lib_sort_val cfg cb args w). rewrite El. reflexivity.
Qed.

Theorem libfull_wf cfg : lib_wf (libfull cfg) mu_sort post_sort.
Proof.
  intros J c cb name args w Hc Hnon Hlow.
  destruct (op_is name "arraySort") eqn:Hs; [|apply libfull_nocb_T; exact Hs].
  apply (T_ext _ _ _ (fun j f => lib_sort cfg (cb j f) args w)); [intros; apply libfull_sort; exact Hs|].
  destruct (lib_sort_shape cfg args w) as [(l & fv & -> & Hn)|Hsame].
  2:{ apply (T_ext _ _ _ (fun _ _ => lib_sort cfg (fun _ _ w' => (OFuel, w')) args w)); [intros; apply Hsame|].
      apply T_const. apply lib_sort_monotone. intros; cbn; lia. }
  assert (Hmu : forall nm, mu_sort name [VArr l; VFun (FLib nm)] w =
                 if op_is nm "arraySort" then match get_arr w l with x0 :: x1 :: _ => S (ms (nbig w) [x1; x0] (set_arr w l [])) | _ => 1%nat end
                 else 1%nat).
  { intros nm. unfold mu_sort. rewrite Hs. reflexivity. }
  (* comparators that are not library functions, and library functions other than arraySort: every call is covered *)
  assert (Hother : (forall x y w', c <= w_count w' -> T (w_count w') (fun j f => cb j f fv [x; y] w')) ->
                   T (w_count w) (fun j f => lib_sort cfg (cb j f) [VArr l; fv] w)).
  { intros H. apply (lib_sort_T_at cfg J c cb); [exact Hc|]. intros fv' x y w' E Hc'. cbn in E. injection E as <-. apply H. exact Hc'. }
  destruct fv as [ |b|n|s|us|l1|l1|fr|id]; try (apply Hother; intros; apply Hnon; [assumption|intros nm; discriminate]).
  destruct fr as [nm|id]; [|apply Hother; intros; apply Hnon; [assumption|intros nm; discriminate]].
  destruct (op_is nm "arraySort") eqn:Hnm.
  2:{ apply Hother. intros x y w' Hc'. eapply TP_T. apply Hlow; [exact Hc'|].
      rewrite Hmu, Hnm. unfold mu_sort. rewrite Hnm. lia. }
  (* the comparator is arraySort itself *)
  destruct (get_arr w l) as [|x0 [|x1 rest]] eqn:Eg.
  - apply (T_ext _ _ _ (fun _ _ => lib_sort cfg (fun _ _ w' => (OFuel, w')) [VArr l; VFun (FLib nm)] w)).
    { intros. apply lib_sort_short. rewrite Eg. cbn. lia. }
    apply T_const. apply lib_sort_monotone. intros; cbn; lia.
  - apply (T_ext _ _ _ (fun _ _ => lib_sort cfg (fun _ _ w' => (OFuel, w')) [VArr l; VFun (FLib nm)] w)).
    { intros. apply lib_sort_short. rewrite Eg. cbn. lia. }
    apply T_const. apply lib_sort_monotone. intros; cbn; lia.
  - assert (Hlt : (mu_sort nm [x1; x0] (set_arr w l []) < mu_sort name [VArr l; VFun (FLib nm)] w)%nat).
    { rewrite Hmu, Hnm. unfold mu_sort at 1. rewrite Hnm. rewrite (nbig_set_empty w l x0 x1 rest Eg). lia. }
    destruct (Hlow nm [x1; x0] (set_arr w l []) Hc Hlt) as (r & (f0 & S0) & M0 & Q0).
    assert (Hno : no_order r) by (intros v Ev; exact (Q0 Hnm v Ev)).
    exists (lib_sort cfg (fun _ _ _ => r) [VArr l; VFun (FLib nm)] w). split.
    + exists f0. intros j f Hf. apply (lib_sort_first cfg (cb j f) l (FLib nm) x0 x1 rest w r Eg (S0 j f Hf) Hno).
    + apply (lib_sort_first cfg (fun _ _ _ => r) l (FLib nm) x0 x1 rest w r Eg eq_refl Hno). exact M0.
Qed.

(* ---- so every run with the combined library libfull terminates: no premise on the library left ---- *)
Theorem libfull_run_terminates cfg cfg' url_rel lint_lines : 0 < c_max cfg ->
  forall sc w, exists fuel r, forall bot fuel', (fuel <= fuel')%nat ->
    execute_script_bot cfg (libfull cfg') url_rel lint_lines bot fuel' sc w = r.
Proof.
  intros Hpos. apply (terminatesG cfg (libfull cfg') url_rel lint_lines mu_sort post_sort Hpos (libfull_post cfg') (libfull_wf cfg')).
Qed.

(* lib_ranked fails for libfull whatever the ranks: arraySort's answer depends on its callback at arraySort *)
Theorem libfull_not_ranked cfg rank : ~ lib_ranked (libfull cfg) rank.
Proof.
  intros H.
  pose (w := upd_arrs (world0 []) [[VNull; VNull]]).
  pose (mk := fun (m : str) (fv : value) (_ : list value) (w' : world) =>
                match fv with
                | VFun (FLib nm) => if str_eqb nm (U "arraySort") then (ORt m, w') else (OVal VNull, w')
                | _ => (OVal VNull, w')
                end).
  assert (E : libfull cfg (mk (U "one")) (U "arraySort") [VArr 0; VFun (FLib (U "arraySort"))] w =
              libfull cfg (mk (U "two")) (U "arraySort") [VArr 0; VFun (FLib (U "arraySort"))] w).
  { apply H. intros fv a w' Hb. unfold mk. destruct fv as [ |b|n|s|us|l|l|fr|id]; try reflexivity.
    destruct fr as [nm|id]; [|reflexivity]. destruct (str_eqb nm (U "arraySort")) eqn:En; [|reflexivity].
    apply str_eqb_eq in En. subst nm. cbn [below] in Hb. lia. }
  vm_compute in E. discriminate E.
Qed.

(* ======================= closures: what is false ======================= *)
(* libfull2 = libfull + systemPartial closures.  A closure is the function value FLib [0; l]; calling it fetches the hidden
   array l = [func; bound args] and calls func.  In a world where the hidden array 0 holds ITS OWN closure - no run from
   an empty heap builds it (the hidden array is allocated before the closure value exists and no script value refers to
   it), but it is a world - the call never comes back: at every fuel the answer of the tower is its depth-0 answer.  So
   the termination statement, which holds for libfull in EVERY world, is false for libfull2 over arbitrary worlds, and
   NO measure makes lib_wf true of libfull2. *)
Definition forged_pv : value := VFun (FLib (partial_name 0)).
Definition forged_world : world := upd_arrs (upd_globals (world0 []) [(U "p", forged_pv)]) [[forged_pv]].
Definition forged_prog : script := [SReturn (Some (ECall (U "p") []))].
Definition forged_cfg : config := mkcfg 10 false true.

Definition passes (bot : outcome) : Prop := match bot with OFuel | OVal _ => True | _ => False end.

Lemma forged_call_loops bot : passes bot -> forall f um w, get_arr w 0 = [forged_pv] ->
  callB forged_cfg (libfull2 forged_cfg) no_url no_lint bot f forged_pv [] um w = (bot, w).
Proof.
  intros Hb. induction f as [|f IH]; intros um w Hg; [reflexivity|].
  change (callB forged_cfg (libfull2 forged_cfg) no_url no_lint bot (S f) forged_pv [] um w)
    with (call_body (libfull2 forged_cfg)
            (fun fv' a' um' w' => callB forged_cfg (libfull2 forged_cfg) no_url no_lint bot f fv' a' um' w')
            (fun c' p' k' l' um' w' => execB forged_cfg (libfull2 forged_cfg) no_url no_lint bot f c' p' k' l' um' w')
            forged_pv [] um w).
  unfold call_body, forged_pv at 1.
  change (libfull2 forged_cfg (fun fv' a' w' => callB forged_cfg (libfull2 forged_cfg) no_url no_lint bot f fv' a' um w') (partial_name 0) [] w)
    with (lib_partial_call (fun fv' a' w' => callB forged_cfg (libfull2 forged_cfg) no_url no_lint bot f fv' a' um w') 0 [] w).
  unfold lib_partial_call. rewrite Hg. cbv beta iota. cbn [app]. rewrite (IH um w Hg).
  destruct bot; try reflexivity; destruct Hb.
Qed.

Definition forged_w1 : world := upd_count (upd_globals forged_world (inject_library (w_globals forged_world))) 0.
Definition forged_w2 : world := upd_count forged_w1 1.

Lemma forged_step (ev' ev : evalT) (cl : callT) (ex : execT) o :
  (forall e loc bi um w, ev' e loc bi um w = eval_body forged_cfg ev cl e loc bi um w) ->
  cl forged_pv [] UHost forged_w2 = (o, forged_w2) -> passes o ->
  exec_body forged_cfg no_url no_lint ev' ex forged_prog 0%nat [] None UHost forged_w1 = (o, None, forged_w2).
Proof.
  intros Hev Hcl Ho. vm_compute. rewrite Hev. vm_compute. vm_compute in Hcl. rewrite Hcl. destruct o; try reflexivity; destruct Ho.
Qed.

Lemma forged_run bot k : passes bot ->
  execute_script_bot forged_cfg (libfull2 forged_cfg) no_url no_lint bot (3 + k) forged_prog forged_world = (bot, forged_w2).
Proof.
  intros Hb. unfold execute_script_bot. cbv zeta. fold forged_w1.
  change (execB forged_cfg (libfull2 forged_cfg) no_url no_lint bot (3 + k) forged_prog 0%nat [] None UHost forged_w1)
    with (exec_body forged_cfg no_url no_lint
            (fun e' loc' bi' um' w' => evalB forged_cfg (libfull2 forged_cfg) no_url no_lint bot (S (S k)) e' loc' bi' um' w')
            (fun c' p' k' l' um' w' => execB forged_cfg (libfull2 forged_cfg) no_url no_lint bot (S (S k)) c' p' k' l' um' w')
            forged_prog 0%nat [] None UHost forged_w1).
  rewrite (forged_step _
             (fun e' loc' bi' um' w' => evalB forged_cfg (libfull2 forged_cfg) no_url no_lint bot (S k) e' loc' bi' um' w')
             (fun fv' a' um' w' => callB forged_cfg (libfull2 forged_cfg) no_url no_lint bot (S k) fv' a' um' w')
             _ bot).
  - reflexivity.
  - intros. reflexivity.
  - apply forged_call_loops; [exact Hb|reflexivity].
  - exact Hb.
Qed.

(* the conclusion of the termination theorem fails for libfull2 in this world: the answer follows the depth-0 answer at every fuel *)
Theorem libfull2_forged_world_never_terminates :
  ~ exists fuel r, forall bot fuel', (fuel <= fuel')%nat ->
      execute_script_bot forged_cfg (libfull2 forged_cfg) no_url no_lint bot fuel' forged_prog forged_world = r.
Proof.
  intros (fuel & r & H).
  pose proof (H OFuel (3 + fuel)%nat ltac:(lia)) as H1. pose proof (H (OVal VNull) (3 + fuel)%nat ltac:(lia)) as H2.
  rewrite (forged_run OFuel fuel Logic.I) in H1. rewrite (forged_run (OVal VNull) fuel Logic.I) in H2.
  rewrite <- H2 in H1. discriminate H1.
Qed.

(* hence no measure / answer predicate makes the generalised premise true of libfull2 *)
Corollary libfull2_not_wf mu Post : ~ (lib_post (libfull2 forged_cfg) Post /\ lib_wf (libfull2 forged_cfg) mu Post).
Proof.
  intros [Hp Hw]. apply libfull2_forged_world_never_terminates.
  apply (terminatesG forged_cfg (libfull2 forged_cfg) no_url no_lint mu Post ltac:(reflexivity) Hp Hw).
Qed.

(* lib_ranked fails for libfull2 as well (on arraySort it is libfull) *)
Theorem libfull2_not_ranked cfg rank : ~ lib_ranked (libfull2 cfg) rank.
Proof.
  intros H. apply (libfull_not_ranked cfg rank). intros name cb cb' Hb args w.
  destruct (op_is name "systemPartial" || match partial_loc name with Some _ => true | None => false end)%bool eqn:E.
  - (* not a name of libfull: it declines, whatever the callback *)
    rewrite !libfull_unfold.
    assert (Hn : text_override name args = false /\ str_mem name core_names = false /\ op_is name "arraySort" = false /\
                 str_mem name Q.modelled_functions = false /\ str_mem name more_names = false).
    { apply orb_true_iff in E. destruct E as [E|E].
      - unfold op_is in E. apply str_eqb_eq in E. subst name. repeat split; try reflexivity.
      - unfold partial_loc in E. destruct name as [|c0 rest]; [discriminate E|]. destruct c0; [|discriminate E].
        destruct rest as [|c1 [|c2 t]]; try discriminate E. repeat split; reflexivity. }
    destruct Hn as (-> & -> & -> & -> & ->). reflexivity.
  - apply orb_false_iff in E. destruct E as [E1 E2].
    pose proof (H name cb cb' Hb args w) as H0. unfold libfull2 in H0. rewrite E1 in H0.
    destruct (partial_loc name); [discriminate E2|exact H0].
Qed.

(* the nest at work, under maxStatements = 10:   b = arrayNew(3, 1, 2)   a = arrayNew(arraySort, b)   return arraySort(a, arraySort)
   the outer sort's first comparison is arraySort(b, arraySort), whose first comparison arraySort(1, 3) fails on its arguments;
   the failure passes through both sorts to the call handler: null, 3 statements, b and a as they were *)
Definition nest_prog : script :=
  [ SExpr (Some (U "b")) (ECall (U "arrayNew") [ENum (NInt 3); ENum (NInt 1); ENum (NInt 2)]);
    SExpr (Some (U "a")) (ECall (U "arrayNew") [EVar (U "arraySort"); EVar (U "b")]);
    SReturn (Some (ECall (U "arraySort") [EVar (U "a"); EVar (U "arraySort")])) ].

Lemma nest_example : forall bot fuel,
  let cfg := mkcfg 10 false true in
  let r := execute_script_bot cfg (libfull2 cfg) no_url no_lint bot (20 + fuel) nest_prog (world0 []) in
  fst r = OVal VNull /\ w_count (snd r) = 3 /\
  w_arrs (snd r) = [[VNum (NInt 3); VNum (NInt 1); VNum (NInt 2)]; [VFun (FLib (U "arraySort")); VArr 0]].
Proof. intros bot fuel. vm_compute. repeat split. Qed.
