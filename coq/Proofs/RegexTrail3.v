(* Proofs/RegexTrail3.v — Proofs/RegexTrail2.v m_trail2 generalised twice, for the statement regexes whose LAST part absorbs
   an appended white run (`(?P<expr>.+)$` of the assignment, `\S.*` of return):

     m_trail3 / ev_trail3   the engine on  rest ++ ws  and on  rest, for a regex A without `$`/look-ahead, when the two
                            continuations are related by an ARBITRARY relation Rel that keeps "no match" apart from "match"
                            (Rel_ok) — instead of "same captures" — and only at the subjects the engine can reach from a
                            start satisfying an invariant P (closed under "drop the first character": P_tl), e.g.
                            "position + remaining length = |line|, no LF, does not end with `=`";
     cut_at / ev_cut_at     splitting a right-nested concatenation at depth n;
     lasts / Matches_last   the LAST character a match reads (the mirror image of RegexShift.firsts / Matches_first);
     ends_eol / Matches_ends_eol   a regex that ends with `$` matches up to the end of the subject (or its final LF);
     noeq_of_match          hence: a subject matched by a regex that ends with `$` and whose last characters cannot be `=`
                            does not end with `=`. *)
From Coq Require Import Lia.
From BS Require Import Model.Base Model.Regex Model.Script Gen.Unicode Gen.Regexes Proofs.RegexFacts Proofs.RegexComplete
  Proofs.RegexShift Proofs.RegexEval Proofs.C10ws Proofs.RegexTrail Proofs.RegexTrail2.

Section Trail3.
Variable ws : str.
Hypothesis Wws : white ws.
Variable Rel : mres -> mres -> Prop.
Hypothesis Rel_no : Rel MNo MNo.
Hypothesis Rel_ok : forall a b, Rel a b ->
  match a, b with MNo, MNo => True | MYes _ _, MYes _ _ => True | _, _ => False end.
Variable P : nat -> str -> Prop.
Hypothesis P_tl : forall p y t, P p (y :: t) -> P (S p) t.

Definition agree3 (a b : mres) : Prop := a = MFuel \/ b = MFuel \/ Rel a b.

Lemma m_trail3 : forall f r pos rest c k k', no_look r = true -> no_eol r = true -> P pos rest ->
  (forall p r' c', P p r' -> agree3 (k' p (r' ++ ws) c') (k p r' c')) ->
  (forall p u c', white u -> nf (k' p u c')) ->
  agree3 (m UC f r pos (rest ++ ws) c k') (m UC f r pos rest c k).
Proof.
  induction f as [|f IH]; intros r pos rest c k k' NL NE PR K1 K2; [left; reflexivity|].
  assert (AT : forall (p : N -> bool),
    agree3 (match rest ++ ws with y :: t => if p y then k' (S pos) t c else MNo | [] => MNo end)
           (match rest with y :: t => if p y then k (S pos) t c else MNo | [] => MNo end)).
  { intros p. destruct rest as [|y t]; cbn [app].
    - destruct ws as [|y u]; [right; right; exact Rel_no|]. destruct (p y); [|right; right; exact Rel_no].
      destruct (K2 (S pos) u c (white_tail _ _ Wws)) as [A|A]; rewrite A; [right; right; exact Rel_no | left; reflexivity].
    - destruct (p y); [apply K1; exact (P_tl _ _ _ PR) | right; right; exact Rel_no]. }
  destruct r; cbn [m]; cbn [no_look] in NL; cbn [no_eol] in NE.
  - apply K1. exact PR.
  - exact (AT (fun y => (y =? c0)%N)).
  - pose proof (AT (fun y => negb (y =? c0)%N)) as A.
    destruct (rest ++ ws) as [|y t], rest as [|y2 t2]; try exact A;
      try (destruct (y =? c0)%N); try (destruct (y2 =? c0)%N); exact A.
  - pose proof (AT (fun y => negb (y =? 10)%N)) as A.
    destruct (rest ++ ws) as [|y t], rest as [|y2 t2]; try exact A;
      try (destruct (y =? 10)%N); try (destruct (y2 =? 10)%N); exact A.
  - exact (AT (class_match UC neg items)).
  - destruct (Nat.eqb pos 0); [apply K1; exact PR | right; right; exact Rel_no].
  - discriminate.
  - apply andb_true_iff in NL. destruct NL as [LA LB]. apply andb_true_iff in NE. destruct NE as [EA EB].
    apply IH; [exact LA | exact EA | exact PR | |].
    + intros p r' c' PP. apply IH; assumption.
    + intros p u c' W. apply m_white_no; assumption.
  - apply andb_true_iff in NL. destruct NL as [LA LB]. apply andb_true_iff in NE. destruct NE as [EA EB].
    destruct (IH r1 pos rest c k k' LA EA PR K1 K2) as [A|[A|A]].
    + rewrite A. left; reflexivity.
    + rewrite A. right; left; reflexivity.
    + pose proof (Rel_ok _ _ A) as OK.
      destruct (m UC f r1 pos (rest ++ ws) c k') as [|e1 c1|], (m UC f r1 pos rest c k) as [|e2 c2|];
        try contradiction; [apply IH; assumption | right; right; exact A].
  - set (more := match mx with
                 | Some 0 => MNo
                 | _ => m UC f r pos rest c (fun p r' c' => if Nat.eqb p pos then MNo
                           else m UC f (RRep (pred mn) (option_map pred mx) r) p r' c' k)
                 end).
    set (more' := match mx with
                 | Some 0 => MNo
                 | _ => m UC f r pos (rest ++ ws) c (fun p r' c' => if Nat.eqb p pos then MNo
                           else m UC f (RRep (pred mn) (option_map pred mx) r) p r' c' k')
                 end).
    assert (A : agree3 more' more).
    { subst more more'. destruct mx as [[|?]|]; [right; right; exact Rel_no| |];
        (apply IH; [exact NL | exact NE | exact PR | |];
         [ intros p r' c' PP; destruct (Nat.eqb p pos); [right; right; exact Rel_no|]; apply IH; assumption
         | intros p u c' W; destruct (Nat.eqb p pos); [left; reflexivity|]; apply m_white_no; assumption ]). }
    destruct A as [A|[A|A]].
    + rewrite A. left; reflexivity.
    + rewrite A. right; left; reflexivity.
    + pose proof (Rel_ok _ _ A) as OK.
      destruct more' as [|e1 c1|], more as [|e2 c2|]; try contradiction;
        [destruct mn; [apply K1; exact PR | right; right; exact Rel_no] | right; right; exact A].
  - apply IH; [exact NL | exact NE | exact PR | |].
    + intros p r' c' PP. apply K1. exact PP.
    + intros p u c' W. apply K2. exact W.
  - discriminate.
Qed.

Lemma ev_trail3 r pos rest c k k' : no_look r = true -> no_eol r = true -> P pos rest ->
  (forall p r' c', P p r' -> Rel (k' p (r' ++ ws) c') (k p r' c')) ->
  (forall p u c', white u -> k' p u c' = MNo) ->
  (forall p r' c', k p r' c' <> MFuel) -> (forall p r' c', k' p r' c' <> MFuel) ->
  Rel (ev UC r pos (rest ++ ws) c k') (ev UC r pos rest c k).
Proof.
  intros NL NE PR K1 K2 F F'.
  set (G := rsize r * (length (rest ++ ws) + 1)).
  assert (G1 : rsize r * (length rest + 1) <= G) by (subst G; rewrite app_length; nia).
  rewrite <- (m_ev UC G r pos (rest ++ ws) c k') by (try (intros; apply F'); subst G; lia).
  rewrite <- (m_ev UC G r pos rest c k) by (try (intros; apply F); exact G1).
  pose proof (m_no_fuel UC G r pos (rest ++ ws) c k' (le_n _) (fun p r' c' _ _ => F' p r' c')) as N1.
  pose proof (m_no_fuel UC G r pos rest c k G1 (fun p r' c' _ _ => F p r' c')) as N2.
  destruct (m_trail3 G r pos rest c k k' NL NE PR) as [A|[A|A]].
  - intros p r' c' PP. right; right. apply K1. exact PP.
  - intros p u c' W. left. apply K2. exact W.
  - congruence.
  - congruence.
  - exact A.
Qed.
End Trail3.

(* the evaluator never runs out of fuel by itself *)
Lemma ev_nofuel r pos rest c k : (forall p r' c', k p r' c' <> MFuel) -> ev UC r pos rest c k <> MFuel.
Proof.
  intros F. rewrite <- (m_ev UC (rsize r * (length rest + 1)) r pos rest c k) by (try (intros; apply F); lia).
  apply m_no_fuel; [lia|]. intros p r' c' _ _. apply F.
Qed.

(* ---------- cutting a right-nested concatenation at depth n ---------- *)
Fixpoint cut_at (n : nat) (r : regex) : option (regex * regex) :=
  match r with
  | RCat a b =>
      match n with
      | O => Some (a, b)
      | S n' => match cut_at n' b with Some (a', t) => Some (RCat a a', t) | None => None end
      end
  | _ => None
  end.

Lemma ev_cut_at : forall n r A T, cut_at n r = Some (A, T) ->
  forall pos rest c k, ev UC r pos rest c k = ev UC A pos rest c (fun p r' c' => ev UC T p r' c' k).
Proof.
  induction n as [|n IH]; intros r A T H pos rest cc k; destruct r; cbn [cut_at] in H; try discriminate.
  - inversion H; subst. reflexivity.
  - destruct (cut_at n r2) as [[a' t]|] eqn:E; [|discriminate]. inversion H; subst. rewrite !ev_cat.
    apply ev_ext. intros p r' c'. apply (IH r2 a' T E).
Qed.

(* ---------- the last character of a match ---------- *)
Fixpoint lasts (r : regex) : list atom :=
  match r with
  | RLit x => [ALit x]
  | RNotLit x => [ANotLit x]
  | RAny => [AAny]
  | RIn neg items => [AIn neg items]
  | RCat a b => if nullable b then lasts b ++ lasts a else lasts b
  | RAlt a b => lasts a ++ lasts b
  | RRep _ _ a => lasts a
  | RGroup _ a => lasts a
  | _ => []
  end.

Lemma Matches_nullable s r pos p c c' : Matches UC s r pos p c c' -> nullable r = false -> pos < p.
Proof.
  intros M N. destruct (Matches_first UC _ _ _ _ _ _ M) as [A _]. pose proof (Matches_le UC _ _ _ _ _ _ M).
  destruct (Nat.eq_dec p pos) as [E|E]; [|lia]. rewrite (A E) in N. discriminate.
Qed.

Lemma Matches_last s r pos p c c' : Matches UC s r pos p c c' -> pos < p ->
  exists y a, nth_error s (p - 1) = Some y /\ In a (lasts r) /\ atom_ok UC a y = true.
Proof.
  induction 1; cbn [lasts]; intros L; try lia.
  - exists x, (ALit x). replace (S pos - 1) with pos by lia. split; [exact H|]. split; [left; reflexivity|].
    cbn [atom_ok]. apply N.eqb_refl.
  - exists y, (ANotLit x). replace (S pos - 1) with pos by lia. split; [exact H|]. split; [left; reflexivity|].
    cbn [atom_ok]. rewrite H0. reflexivity.
  - exists y, AAny. replace (S pos - 1) with pos by lia. split; [exact H|]. split; [left; reflexivity|].
    cbn [atom_ok]. rewrite H0. reflexivity.
  - exists y, (AIn neg items). replace (S pos - 1) with pos by lia. split; [exact H|]. split; [left; reflexivity|].
    cbn [atom_ok]. exact H0.
  - pose proof (Matches_le UC _ _ _ _ _ _ H). pose proof (Matches_le UC _ _ _ _ _ _ H0).
    destruct (Nat.eq_dec p mid) as [E|E].
    + subst p. destruct (nullable b) eqn:NB.
      * destruct (IHMatches1 L) as (y & a0 & N1 & I1 & A1). exists y, a0. split; [exact N1|]. split; [|exact A1].
        apply in_or_app. right. exact I1.
      * pose proof (Matches_nullable _ _ _ _ _ _ H0 NB). lia.
    + destruct (IHMatches2 ltac:(lia)) as (y & a0 & N1 & I1 & A1). exists y, a0. split; [exact N1|]. split; [|exact A1].
      destruct (nullable b); [apply in_or_app; left; exact I1 | exact I1].
  - destruct (IHMatches L) as (y & a0 & N1 & I1 & A1). exists y, a0. split; [exact N1|]. split; [|exact A1].
    apply in_or_app. left. exact I1.
  - destruct (IHMatches L) as (y & a0 & N1 & I1 & A1). exists y, a0. split; [exact N1|]. split; [|exact A1].
    apply in_or_app. right. exact I1.
  - pose proof (Matches_le UC _ _ _ _ _ _ H0). pose proof (Matches_le UC _ _ _ _ _ _ H2).
    destruct (Nat.eq_dec p mid) as [E|E].
    + subst p. apply IHMatches1. lia.
    + apply IHMatches2. lia.
  - apply IHMatches. exact L.
Qed.

Fixpoint ends_eol (r : regex) : bool :=
  match r with
  | REol => true
  | RCat _ b => ends_eol b
  | _ => false
  end.

Lemma Matches_ends_eol s r pos p c c' : Matches UC s r pos p c c' -> ends_eol r = true ->
  p = length s \/ (S p = length s /\ nth_error s p = Some 10%N).
Proof.
  induction 1; cbn [ends_eol]; intros E; try discriminate.
  - exact H.
  - apply IHMatches2. exact E.
Qed.

(* does not end with `=` *)
Definition noeq_end (s : str) : Prop := forall pre, s <> pre ++ [61%N].

Lemma noeq_end_tl y t : noeq_end (y :: t) -> noeq_end t.
Proof. intros H pre E. apply (H (y :: pre)). rewrite E. reflexivity. Qed.

Lemma nth_error_last_app {A} (pre : list A) x : nth_error (pre ++ [x]) (length pre) = Some x.
Proof. induction pre as [|y t IH]; [reflexivity | exact IH]. Qed.

Lemma noeq_of_match R line e c : rxm R line = MYes e c -> ends_eol R = true ->
  forallb (fun a => negb (atom_ok UC a 61%N)) (lasts R) = true -> noeq_end line.
Proof.
  intros H EE LA pre E. unfold rxm in H. apply re_match_sound in H.
  pose proof (Matches_ends_eol _ _ _ _ _ _ H EE) as EP.
  assert (LL : length line = S (length pre)) by (rewrite E, app_length; cbn [length]; lia).
  destruct EP as [EP|[EP1 EP2]].
  - destruct (Matches_last _ _ _ _ _ _ H ltac:(lia)) as (y & a & N1 & I1 & A1).
    replace (e - 1) with (length pre) in N1 by lia. rewrite E, nth_error_last_app in N1. inversion N1; subst y.
    rewrite forallb_forall in LA. specialize (LA a I1). rewrite A1 in LA. discriminate.
  - replace e with (length pre) in EP2 by lia. rewrite E, nth_error_last_app in EP2. discriminate.
Qed.
