(* Proofs/C01d.v — composition: whenever the logical lines of a text classify (regexes + expression parser) to the line
   kinds of a statement tree, the parser model's output for that text IS [compile] of the tree.
   Uses: ploop = logical lines ; fold of pstep (Proofs/C06, ploop_factor), pstep = classify ; kstep (Proofs/C07eq,
   pstep_classify), fold of kstep over the kinds of a tree = compile (Proofs/C01c). *)
From Coq Require Import Lia List Bool.
From BS Require Import Model.Base Model.Num Model.ExprParser Model.Script Model.ScriptX Model.Lower Model.RunC01
                       Proofs.C01 Proofs.C01c Proofs.ScriptFacts Proofs.C07eq.
Import ListNotations.

Lemma pfold_is_kfold start : forall lls ks pre ps,
  Forall2 (fun il k => classify (start + fst il) (snd il) = ROk k) lls ks ->
  pfold lls ps start =
  kfold (fun j => let il := nth j (pre ++ lls) (0, []) in (start + fst il, snd il)) (length pre) ps ks.
Proof.
  induction lls as [|[ix line] t IH]; intros ks pre ps H; inversion H as [|? k ? ks' Hc Ht]; subst; [reflexivity|].
  cbn [pfold kfold]. rewrite app_nth2 by lia. rewrite PeanoNat.Nat.sub_diag. cbn [nth fst snd].
  rewrite pstep_classify. cbn [fst snd] in Hc. rewrite Hc. cbn [sbind].
  destruct (kstep ps (start + ix) line k) as [ps1| | |]; try reflexivity.
  specialize (IH ks' (pre ++ [(ix, line)]) ps1 Ht). rewrite <- app_assoc in IH. cbn [app] in IH.
  rewrite app_length in IH. cbn [length] in IH. replace (length pre + 1) with (S (length pre)) in IH by lia. exact IH.
Qed.

(* the parser model on a list of physical lines *)
Theorem parse_is_compile : forall lines start s lls ls',
  wf false s = true -> guard s = true ->
  llines lines 0 {| l_cont := []; l_ix := 0 |} = (lls, LDone ls') -> l_cont ls' = [] ->
  Forall2 (fun il k => classify (start + fst il) (snd il) = ROk k) lls (kinds s) ->
  match ploop lines 0 {| l_cont := []; l_ix := 0 |} ps_init start with
  | ROk (ls, ps) => pfinish ls ps start
  | RErr e => RErr e | RHost w => RHost w | RFuel => RFuel
  end = ROk (fst (compile real_lab None 0 s)).
Proof.
  intros lines start s lls ls' Hwf Hg Hll Hcont Hcl.
  rewrite ploop_factor. unfold ploop2. rewrite Hll.
  rewrite (pfold_is_kfold start lls (kinds s) [] ps_init Hcl). cbn [length app].
  rewrite (lowering_of_a_scope _ s Hwf (guard_wf_no_continue s Hwf Hg)).
  unfold pfinish. rewrite Hcont. reflexivity.
Qed.
