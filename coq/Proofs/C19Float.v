(* Proofs/C19Float.v — the aggregation measures `average` and `stddev` of Model/Data.v against exact rational arithmetic.

   average:  the model's float is [ratio_to_sf] of the exact dyadic sum over the count; by Proofs/FloatRound.v it is a binary64
             NEAREST to the exact rational mean (ties to even), on the whole range: subnormal, normal, overflow to infinity.
   stddev:   the model returns the exact population variance as a fraction V/D (V >= 0) and the check tests the
             implementation's float with [sqrt_is]; here is what that test means.
   Z only, no real numbers, no axioms. *)
From Coq Require Import ZArith Lia Bool ZifyBool SpecFloat List.
From BS Require Import Model.Base Model.Num Model.Compare Model.Data Proofs.FloatFacts Proofs.FloatRound.
Import ListNotations.
Local Open Scope Z_scope.

(* ------------------------------------------------------------------ a nearest binary64 to num/den, for any sign *)
Definition nearest_binary64 (num den : Z) (f : flt) : Prop :=
  ((2 ^ 1024 - 2 ^ 970) * den <= Z.abs num -> f = S754_infinity (num <? 0)) /\
  (Z.abs num < (2 ^ 1024 - 2 ^ 970) * den ->
     valid_binary prec emax f = true /\
     (exists m e, rounds_to (Z.abs num) den m e /\ e <= 971 /\
                  f = if m =? 0 then S754_zero (num <? 0) else S754_finite (num <? 0) (Z.to_pos m) e) /\
     forall g, valid_binary prec emax g = true ->
       Z.abs (num * 2 ^ 1074 - sfZs f * den) <= Z.abs (num * 2 ^ 1074 - sfZs g * den)).

Theorem ratio_to_sf_nearest_signed num den : 0 < den ->
  nearest_binary64 num den (ratio_to_sf (num <? 0) (Z.abs num) den).
Proof.
  intros Hd. destruct (Z.eq_dec num 0) as [Z|NZ].
  - subst num. assert (PC : 0 < 2 ^ 1024 - 2 ^ 970) by (vm_compute; reflexivity).
    split; [intros H; change (Z.abs 0) with 0 in H; nia|]. intros _. cbn [Z.abs Z.ltb Z.compare].
    unfold ratio_to_sf. cbn [Z.eqb]. split; [reflexivity|]. split.
    + exists 0, (-1074). split; [|split; [lia|reflexivity]].
      unfold rounds_to. change (2 ^ (-1074 + 1074)) with 1. repeat split; lia.
    + intros g _. cbn [sfZs]. lia.
  - assert (Ha : 0 < Z.abs num) by lia. split.
    + intros H. apply ratio_to_sf_overflow; auto.
    + intros H. destruct (ratio_to_sf_nearest (num <? 0) (Z.abs num) den Ha Hd H) as (V & R & N).
      split; [exact V|]. split; [exact R|]. intros g Vg. specialize (N g Vg).
      replace (if num <? 0 then - Z.abs num else Z.abs num) with num in N by (destruct (Z.ltb_spec num 0); lia).
      exact N.
Qed.

(* ------------------------------------------------------------------ the exact sum *)
Lemma min_exp_le ds : min_exp ds <= 0 /\ forall d, In d ds -> min_exp ds <= snd d.
Proof.
  induction ds as [|d t [IH0 IH]]; cbn [min_exp fold_right]; [split; [lia|intros d []]|].
  fold (min_exp t). split; [lia|]. intros d' [<-|H]; [lia|]. specialize (IH d' H). lia.
Qed.

Lemma dyadics_length vs : forall ds, dyadics vs = Some ds -> length ds = length vs.
Proof.
  induction vs as [|v t IH]; cbn [dyadics]; intros ds H; [injection H as <-; reflexivity|].
  destruct (as_pynum v); [|discriminate]. destruct (num_dyadic n); [|discriminate].
  destruct (dyadics t) as [r|]; [|discriminate]. injection H as <-. cbn [length]. rewrite (IH r); reflexivity.
Qed.

(* each entry of [dyadics] is the exact value of its number *)
Lemma dyadics_values vs : forall ds, dyadics vs = Some ds ->
  Forall2 (fun v d => exists n, as_pynum v = Some n /\ num_dyadic n = Some d) vs ds.
Proof.
  induction vs as [|v t IH]; cbn [dyadics]; intros ds H; [injection H as <-; constructor|].
  destruct (as_pynum v) eqn:E1; [|discriminate]. destruct (num_dyadic n) eqn:E2; [|discriminate].
  destruct (dyadics t) as [r|]; [|discriminate]. injection H as <-. constructor; [|apply IH; reflexivity].
  exists n. auto.
Qed.

Lemma dyadics_ints vs : forall ds, dyadics vs = Some ds -> forallb is_int_num vs = true -> min_exp ds = 0.
Proof.
  induction vs as [|v t IH]; cbn [dyadics forallb]; intros ds H I; [injection H as <-; reflexivity|].
  apply andb_true_iff in I. destruct I as [I1 I2].
  destruct (as_pynum v) eqn:E1; [|discriminate]. destruct (num_dyadic n) eqn:E2; [|discriminate].
  destruct (dyadics t) as [r|]; [|discriminate]. injection H as <-. cbn [min_exp fold_right]. fold (min_exp r).
  rewrite (IH r eq_refl I2).
  assert (snd p = 0).
  { destruct v as [ |b0|n0| | | | | | ]; try discriminate I1; cbn in E1.
    - injection E1 as <-. cbn in E2. injection E2 as <-. reflexivity.
    - destruct n0; try discriminate I1. injection E1 as <-. cbn in E2. injection E2 as <-. reflexivity. }
  lia.
Qed.

Theorem agg_average_spec vs ds : dyadics vs = Some ds -> vs <> [] ->
  let n := Z.of_nat (length vs) in
  let E := min_exp ds in
  let S := zsum (scaled E ds) in
  let den := n * 2 ^ (- E) in
  Forall2 (fun v d => exists x, as_pynum v = Some x /\ num_dyadic x = Some d) vs ds /\
  E <= 0 /\ (forall d, In d ds -> E <= snd d) /\ 0 < den /\
  ((forallb is_int_num vs = true /\ S mod n = 0 /\ E = 0 /\ agg_average vs = Some (CNum (NInt (S / n)))) \/
   ((forallb is_int_num vs = false \/ S mod n <> 0) /\
    exists f, agg_average vs = Some (CNum (NFlt f)) /\ nearest_binary64 S den f)).
Proof.
  intros H NE n E S den. destruct (min_exp_le ds) as [E0 EL]. fold E in E0, EL.
  assert (Hn : 0 < n) by (unfold n; destruct vs; [congruence|cbn [length]; lia]).
  assert (Hden : 0 < den) by (unfold den; assert (0 < 2 ^ (- E)) by (apply pow2_pos; lia); nia).
  split; [exact (dyadics_values vs ds H)|].
  split; [exact E0|]. split; [exact EL|]. split; [exact Hden|].
  unfold agg_average. rewrite H. fold n E S den.
  destruct (forallb is_int_num vs) eqn:I; cbn [andb].
  - destruct (Z.eqb_spec (S mod n) 0) as [M|M].
    + left. split; [reflexivity|]. split; [exact M|]. split; [|reflexivity]. exact (dyadics_ints vs ds H I).
    + right. split; [right; exact M|]. eexists. split; [reflexivity|]. apply ratio_to_sf_nearest_signed. exact Hden.
  - right. split; [left; reflexivity|]. eexists. split; [reflexivity|]. apply ratio_to_sf_nearest_signed. exact Hden.
Qed.

(* ------------------------------------------------------------------ stddev *)
Lemma sum_sq_shift l x : 0 <= zsum (map (fun a => a * a) l) - 2 * x * zsum l + Z.of_nat (length l) * (x * x).
Proof.
  induction l as [|a t IH]; cbn [map zsum fold_right length]; [lia|].
  fold (zsum (map (fun a => a * a) t)) (zsum t). rewrite Nat2Z.inj_succ.
  pose proof (Z.square_nonneg (a - x)). nia.
Qed.

(* the numerator of the population variance is not negative *)
Lemma variance_nonneg l : 0 <= Z.of_nat (length l) * zsum (map (fun a => a * a) l) - zsum l * zsum l.
Proof.
  induction l as [|a t IH]; cbn [map zsum fold_right length]; [lia|].
  fold (zsum (map (fun a => a * a) t)) (zsum t). rewrite Nat2Z.inj_succ.
  pose proof (sum_sq_shift t a). nia.
Qed.

Theorem agg_stddev_spec vs ds : dyadics vs = Some ds -> vs <> [] ->
  let n := Z.of_nat (length vs) in
  let E := min_exp ds in
  let a := scaled E ds in
  let V := n * zsum (map (fun x => x * x) a) - zsum a * zsum a in
  E <= 0 /\ (forall d, In d ds -> E <= snd d) /\ 0 <= V /\ 0 < n * n * 2 ^ (- 2 * E) /\
  agg_stddev vs = Some (ASqrt V (n * n * 2 ^ (- 2 * E))).
Proof.
  intros H NE n E a V. destruct (min_exp_le ds) as [E0 EL]. fold E in E0, EL.
  assert (Hn : 0 < n) by (unfold n; destruct vs; [congruence|cbn [length]; lia]).
  split; [exact E0|]. split; [exact EL|]. split; [|split].
  - unfold V, n. rewrite <- (dyadics_length vs ds H).
    replace (length ds) with (length a) by (unfold a, scaled; apply map_length). apply variance_nonneg.
  - assert (0 < 2 ^ (- 2 * E)) by (apply pow2_pos; lia). nia.
  - unfold agg_stddev. rewrite H. reflexivity.
Qed.

(* what the half-ulp test says: with F = x * 2^1074 and U = ulp(x) * 2^1074 (integers),
   (x - ulp/2)^2 <= num/den <= (x + ulp/2)^2   is   (2F - U)^2 den <= num 2^2150 <= (2F + U)^2 den *)
Lemma sqrt_is_finite m e num den : -1074 <= e ->
  sqrt_is (S754_finite false m e) num den = true <->
  (2 * (Zpos m * 2 ^ (e + 1074)) - 2 ^ (e + 1074)) ^ 2 * den <= num * 2 ^ 2150 <=
  (2 * (Zpos m * 2 ^ (e + 1074)) + 2 ^ (e + 1074)) ^ 2 * den.
Proof.
  intros L. cbn [sqrt_is].
  set (U := 2 ^ (e + 1074)). assert (PU : 0 < U) by (apply pow2_pos; lia).
  set (lo := (2 * Z.pos m - 1) * (2 * Z.pos m - 1)). set (hi := (2 * Z.pos m + 1) * (2 * Z.pos m + 1)).
  assert (Elo : (2 * (Z.pos m * U) - U) ^ 2 = lo * (U * U)) by (unfold lo; ring).
  assert (Ehi : (2 * (Z.pos m * U) + U) ^ 2 = hi * (U * U)) by (unfold hi; ring).
  rewrite Elo, Ehi.
  assert (EUU : U * U = 2 ^ (2 * e + 2148)) by (unfold U; rewrite <- pow2_split by lia; f_equal; lia).
  destruct (Z.leb_spec 0 (2 * e - 2)) as [K|K].
  - set (k := 2 * e - 2) in *. set (P := 2 ^ k). assert (PP : 0 < P) by (apply pow2_pos; lia).
    assert (EQ : U * U = P * 2 ^ 2150).
    { rewrite EUU. unfold P, k. rewrite <- pow2_split by lia. f_equal. lia. }
    rewrite EQ. assert (PC : 0 < 2 ^ 2150) by (apply pow2_pos; lia). set (C := 2 ^ 2150) in *.
    rewrite andb_true_iff, !Z.leb_le.
    replace (lo * (P * C) * den) with ((lo * P * den) * C) by ring.
    replace (hi * (P * C) * den) with ((hi * P * den) * C) by ring.
    split.
    + intros [A B]. split; apply Z.mul_le_mono_nonneg_r; lia.
    + intros [A B]. apply Z.mul_le_mono_pos_r in A; [|lia]. apply Z.mul_le_mono_pos_r in B; [|lia]. tauto.
  - set (j := - (2 * e - 2)) in *. set (P := 2 ^ j). assert (PP : 0 < P) by (apply pow2_pos; lia).
    assert (EQ : 2 ^ 2150 = P * (U * U)).
    { rewrite EUU. unfold P, j. rewrite <- pow2_split by lia. f_equal. lia. }
    rewrite EQ. assert (PC : 0 < U * U) by nia. set (C := U * U) in *.
    rewrite andb_true_iff, !Z.leb_le.
    replace (lo * C * den) with ((lo * den) * C) by ring.
    replace (hi * C * den) with ((hi * den) * C) by ring.
    replace (num * (P * C)) with ((num * P) * C) by ring.
    split.
    + intros [A B]. split; apply Z.mul_le_mono_nonneg_r; lia.
    + intros [A B]. apply Z.mul_le_mono_pos_r in A; [|lia]. apply Z.mul_le_mono_pos_r in B; [|lia]. tauto.
Qed.

Theorem sqrt_is_meaning x num den : valid_binary prec emax x = true ->
  (sqrt_is x num den = true <->
   match x with
   | S754_zero _ => num = 0
   | S754_finite s m e =>
       s = false /\
       (2 * (Zpos m * 2 ^ (e + 1074)) - 2 ^ (e + 1074)) ^ 2 * den <= num * 2 ^ 2150 <=
       (2 * (Zpos m * 2 ^ (e + 1074)) + 2 ^ (e + 1074)) ^ 2 * den
   | _ => False
   end).
Proof.
  intros V. destruct x as [s|s| |s m e].
  - cbn [sqrt_is]. apply Z.eqb_eq.
  - cbn [sqrt_is]. split; [discriminate|tauto].
  - cbn [sqrt_is]. split; [discriminate|tauto].
  - destruct (valid_bounds s m e V) as [_ [L _]]. destruct s.
    + cbn [sqrt_is]. split; [discriminate|intros [X _]; discriminate X].
    + rewrite (sqrt_is_finite m e num den L). split; [intros H; split; [reflexivity|exact H]|intros [_ H]; exact H].
Qed.

(* ------------------------------------------------------------------ the bracket singles out the nearest float *)
(* For x = m 2^e accepted by the bracket and any other binary64 g >= 0: the midpoint (x + g)/2 lies on the far side of sqrt(num/den),
   i.e. x is at least as close to the square root as g — written without square roots:
       g > x :  num/den <= ((x + g)/2)^2          g < x :  ((x + g)/2)^2 <= num/den
   (F = x 2^1074, G = g 2^1074; 4 * 2^2148 = 2^2150).  Excluded: m = 2^52 above the subnormals, where the float just below x is half an ulp away and the
   bracket accepts it too.  (A negative g is farther from the non-negative root than 0 is.) *)
Theorem sqrt_is_nearest m e num den g : 0 < den ->
  valid_binary prec emax (S754_finite false m e) = true -> (Zpos m <> 2 ^ 52 \/ e = -1074) ->
  sqrt_is (S754_finite false m e) num den = true ->
  valid_binary prec emax g = true -> 0 <= sfZs g ->
  let F := sfZs (S754_finite false m e) in let G := sfZs g in
  (F < G -> num * 2 ^ 2150 <= (F + G) ^ 2 * den) /\ (G < F -> (F + G) ^ 2 * den <= num * 2 ^ 2150).
Proof.
  intros Hden Vx Hnb Hs Vg HG0 F G.
  destruct (valid_bounds false m e Vx) as (Hm & He & _).
  apply (sqrt_is_finite m e num den He) in Hs. destruct Hs as [Hlo Hhi].
  (* the mantissa of x is canonical *)
  assert (Hcan : 2 ^ 52 <= Zpos m \/ e = -1074).
  { unfold valid_binary, bounded, canonical_mantissa in Vx. rewrite andb_true_iff, Zeq_bool_is_eqb in Vx.
    unfold fexp, emin, prec, emax in Vx. destruct Vx as [C _]. pose proof (digits2_pos_bounds m) as B.
    destruct (Z.eq_dec e (-1074)) as [E|NE]; [right; exact E|left].
    assert (Zpos (digits2_pos m) = 53) by lia. rewrite H in B. exact (proj1 B). }
  set (U := 2 ^ (e + 1074)) in *. assert (PU : 0 < U) by (apply pow2_pos; lia).
  assert (EF : F = Zpos m * U) by reflexivity.
  rewrite <- EF in Hlo, Hhi.
  assert (FU : U <= F) by (rewrite EF; nia).
  (* any other float is at least one unit of x away *)
  assert (Far : (F < G -> F + U <= G) /\ (G < F -> G <= F - U)).
  { clear Hlo Hhi. unfold G. destruct g as [sg|sg| |sg mg eg]; cbn [sfZs] in *; try (split; intros; lia).
    destruct (valid_bounds sg mg eg Vg) as (Hmg & Heg & _).
    destruct sg; [assert (0 < Zpos mg * 2 ^ (eg + 1074)) by (assert (0 < 2 ^ (eg + 1074)) by (apply pow2_pos; lia); nia); lia|].
    set (Ug := 2 ^ (eg + 1074)) in *. assert (PUg : 0 < Ug) by (apply pow2_pos; lia).
    destruct (Z_le_gt_dec e eg) as [L|Gt].
    - set (k := Zpos mg * 2 ^ (eg - e)).
      assert (EG : Zpos mg * Ug = k * U).
      { unfold k, Ug, U. replace (eg + 1074) with ((eg - e) + (e + 1074)) by lia. rewrite pow2_split by lia. ring. }
      rewrite EG, EF. split; intros H.
      + assert (Zpos m + 1 <= k) by nia. nia.
      + assert (k <= Zpos m - 1) by nia. nia.
    - assert (Hm52 : 2 ^ 52 < Zpos m) by lia.
      assert (EU : U = Ug * 2 ^ (e - eg)).
      { unfold U, Ug. replace (e + 1074) with ((eg + 1074) + (e - eg)) by lia. rewrite pow2_split by lia. reflexivity. }
      assert (P2 : 2 <= 2 ^ (e - eg)) by (change 2 with (2 ^ 1) at 1; apply Z.pow_le_mono_r; lia).
      assert (H2U : 2 * Ug <= U) by (rewrite EU; nia).
      assert (HG1 : Zpos mg * Ug <= (2 ^ 53 - 1) * Ug) by (apply Z.mul_le_mono_nonneg_r; lia).
      assert (HF1 : (2 ^ 52 + 1) * U <= F) by (rewrite EF; apply Z.mul_le_mono_nonneg_r; lia).
      split; intros H; lia. }
  destruct Far as [Far1 Far2]. split; intros H.
  - specialize (Far1 H). apply Z.le_trans with ((2 * F + U) ^ 2 * den); [exact Hhi|].
    apply Z.mul_le_mono_nonneg_r; [lia|]. apply Z.pow_le_mono_l. lia.
  - specialize (Far2 H). apply Z.le_trans with ((2 * F - U) ^ 2 * den); [|exact Hlo].
    apply Z.mul_le_mono_nonneg_r; [lia|]. apply Z.pow_le_mono_l. unfold G in *. lia.
Qed.
