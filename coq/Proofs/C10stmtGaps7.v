(* Proofs/C10stmtGaps7.v — INNER gaps, continued: the quoted include  include 'url'.

     classify_include_quoted_shape   classify n (w1 ++ "include" ++ w2 ++ "'" ++ body ++ "'" ++ w4) = ROk (KInclude u false)

   for all white runs w1 w2 w4 (w2 non-empty), every body in which every quote is escaped (quotes_escaped: the greedy
   reading `\'` | [^'] never meets a bare quote) and  unesc R_EXPR_STRING_ESCAPE body = ROk u.
   The regex group is a BACKTRACKING star over the alternation  \\' | [^']  followed by  '\s*$ :
   * body not ending with a backslash: the greedy reading stops in front of the closing quote (no alternative reads a
     bare quote) and the tail  '\s*$  succeeds;
   * body ending with a backslash (`include 'a\'`): the greedy reading takes that backslash and the CLOSING quote as the
     pair `\'`, runs through w4 to the end of the line, fails there and at every character of w4 on the way back, and the
     second alternative re-reads the backslash as an ordinary character; the tail then succeeds at the closing quote.
   Either way group 2 is exactly body. *)
From Coq Require Import Lia.
From BS Require Import Model.Base Model.Regex Model.Num Model.NumText Model.ExprParser Model.Script Model.Lower Gen.Unicode Gen.Regexes
  Proofs.RegexFacts Proofs.RegexComplete Proofs.RegexShift Proofs.RegexEval Proofs.C02rx Proofs.C10ws Proofs.C10wsExpr
  Proofs.C10wsFull Proofs.C10wsIndent Proofs.C10wsIndent2 Proofs.C10tokSpaced Proofs.RegexTrail Proofs.C10tokTrail Proofs.RegexTrail2
  Proofs.RegexTrail3 Proofs.C10stmtTrail Proofs.C10parseNoeq Proofs.C10classifyTrail Proofs.C10stmtGaps Proofs.C10stmtGaps2
  Proofs.C10stmtGaps3 Proofs.C10stmtGaps4 Proofs.C10stmtGaps5 Proofs.C02str.

(* every quote of the body is escaped: the greedy reading  \' | [^']  of the body never meets a bare quote *)
Fixpoint quotes_escaped (s : str) : bool :=
  match s with
  | [] => true
  | y :: t => if (y =? 39)%N then false
              else if (y =? 92)%N then match t with z :: t' => if (z =? 39)%N then quotes_escaped t' else quotes_escaped t | [] => true end
              else quotes_escaped t
  end.

Definition QALT : regex := RAlt (RCat (RLit 92) (RLit 39)) (RNotLit 39).
Definition QTAIL : regex := RCat (RLit 39) (RCat rsp REol).
Definition KQ (p : nat) (r : str) (c : caps) : mres := ev UC QTAIL p r c kfin.

Lemma KQ_read p r c : KQ p r c = match r with y :: t => if (y =? 39)%N then (if forallb is_sp t then MYes (S p + length t) c else MNo) else MNo | [] => MNo end.
Proof.
  unfold KQ, QTAIL. rewrite ev_cat, (ev_one UC _ _ (one_lit UC 39)). destruct r as [|y t]; [reflexivity|].
  destruct (y =? 39)%N; [|reflexivity]. apply ev_eol_tail.
Qed.

Lemma QALT_read pos rest c k : ev UC QALT pos rest c k =
  match rest with
  | y :: t => match (if (y =? 92)%N then match t with z :: t' => if (z =? 39)%N then k (S (S pos)) t' c else MNo | [] => MNo end else MNo) with
              | MNo => if (y =? 39)%N then MNo else k (S pos) t c
              | res => res
              end
  | [] => MNo
  end.
Proof.
  unfold QALT. rewrite ev_alt, ev_cat. rewrite (ev_one UC _ _ (one_lit UC 92)). cbn [ev].
  destruct rest as [|y t]; [reflexivity|]. reflexivity.
Qed.

Lemma neq_SS pos : Nat.eqb (S (S pos)) pos = false. Proof. apply Nat.eqb_neq. lia. Qed.

Lemma sp92 : is_space UC 92 = false. Proof. vm_compute. reflexivity. Qed.

Lemma TQ_body p body w4 c : quotes_escaped body = true -> white w4 ->
  ev UC TQ p (39%N :: body ++ 39%N :: w4) c kfin
  = MYes (p + 1 + length body + 1 + length w4) (cap_set 2 (p + 1, p + 1 + length body) (cap_set 1 (p, p + 1) c)).
Proof.
  intros Q W4. unfold TQ. rewrite ev_cat, ev_group. rewrite (ev_one UC _ _ (one_lit UC _)), N.eqb_refl.
  rewrite ev_cat, ev_group. cbn [ev]. fold QALT.
  change (fun (p0 : nat) (r' : str) (c' : caps) =>
            match r' with y :: t => if (y =? 39)%N then ev UC (RCat rsp REol) (S p0) t (cap_set 2 (S p, p0) c') kfin else MNo | [] => MNo end)
    with (fun (p0 : nat) (r' : str) (c' : caps) => ev UC QTAIL p0 r' (cap_set 2 (S p, p0) c') kfin).
  (* the continuation records the group end: compare with G KQ through the success position *)
  set (K2 := fun (p0 : nat) (r' : str) (c' : caps) => ev UC QTAIL p0 r' (cap_set 2 (S p, p0) c') kfin).
  assert (H : forall n body' pos, length (body' ++ 39%N :: w4) < n -> quotes_escaped body' = true ->
            ev_rep (ev UC QALT) n 0 None pos (body' ++ 39%N :: w4) (cap_set 1 (p, S p) c) K2
            = MYes (pos + length body' + 1 + length w4) (cap_set 2 (S p, pos + length body') (cap_set 1 (p, S p) c))).
  { assert (WH : forall w n pos c0, white w -> length w < n -> ev_rep (ev UC QALT) n 0 None pos w c0 K2 = MNo).
    { induction w as [|z w IHw]; intros n pos c0 W L; (destruct n as [|n]; [lia|]); rewrite ev_rep_S, QALT_read.
      - subst K2. cbv beta. fold (KQ pos [] (cap_set 2 (S p, pos) c0)). rewrite KQ_read. reflexivity.
      - destruct (white_cons _ _ W) as [Sz Ww].
        assert (Z92 : (z =? 92)%N = false) by (destruct (z =? 92)%N eqn:E; [apply N.eqb_eq in E; subst z; rewrite sp92 in Sz; discriminate | reflexivity]).
        assert (Z39 : (z =? 39)%N = false) by (destruct (z =? 39)%N eqn:E; [apply N.eqb_eq in E; subst z; rewrite sp39 in Sz; discriminate | reflexivity]).
        rewrite Z92, Z39, neq_succ. cbn [pred option_map]. rewrite IHw by (try exact Ww; cbn [length] in L; lia).
        subst K2. cbv beta. fold (KQ pos (z :: w) (cap_set 2 (S p, pos) c0)). rewrite KQ_read, Z39. reflexivity. }
    induction n as [|n IH]; intros body' pos L Q'; [lia|]. rewrite ev_rep_S, QALT_read. cbn [pred option_map].
    destruct body' as [|y t]; cbn [app].
    - cbn [N.eqb Pos.eqb]. subst K2. cbv beta. fold (KQ pos (39%N :: w4) (cap_set 2 (S p, pos) (cap_set 1 (p, S p) c))).
      rewrite KQ_read, N.eqb_refl, (white_forallb_sp w4 W4). cbn [length]. f_equal; [lia | f_equal; f_equal; lia].
    - cbn [quotes_escaped] in Q'. destruct (y =? 39)%N eqn:E39; [discriminate|].
      destruct (y =? 92)%N eqn:E92.
      + destruct t as [|z t']; cbn [app].
        * rewrite N.eqb_refl, neq_SS. rewrite (WH w4 n (S (S pos)) _ W4) by (cbn [app length] in L; lia).
          rewrite neq_succ. change (39%N :: w4) with ([] ++ 39%N :: w4). rewrite (IH [] (S pos)) by (try reflexivity; cbn [app length] in *; lia).
          cbn [length]. f_equal; [lia | f_equal; f_equal; lia].
        * destruct (z =? 39)%N eqn:Z39.
          -- rewrite neq_SS. rewrite (IH t' (S (S pos))) by (try exact Q'; cbn [app length] in *; lia).
             cbn [length]. f_equal; [lia | f_equal; f_equal; lia].
          -- rewrite neq_succ. change (z :: t' ++ 39%N :: w4) with ((z :: t') ++ 39%N :: w4).
             rewrite (IH (z :: t') (S pos)) by (try exact Q'; cbn [app length] in *; lia).
             cbn [length]. f_equal; [lia | f_equal; f_equal; lia].
      + rewrite neq_succ. rewrite (IH t (S pos)) by (try exact Q'; cbn [app length] in *; lia).
        cbn [length]. f_equal; [lia | f_equal; f_equal; lia]. }
  rewrite H by (try exact Q; lia). unfold cap_set. repeat (f_equal; try lia).
Qed.

Theorem classify_include_quoted_shape n w1 w2 body w4 u : white w1 -> white w2 -> w2 <> [] -> white w4 ->
  quotes_escaped body = true -> unesc R_EXPR_STRING_ESCAPE body = ROk u ->
  classify n (w1 ++ U "include" ++ w2 ++ U "'" ++ body ++ U "'" ++ w4) = ROk (KInclude u false).
Proof.
  intros W1 W2 N2 W4 Q HU.
  destruct w2 as [|z2 w2']; [congruence|].
  change (U "include") with KW_INCLUDE. change (U "'") with [39%N].
  set (r0 := body ++ [39%N] ++ w4).
  pose proof (assign_nomatch_kw w1 105 [110; 99; 108; 117; 100; 101]%N z2 w2' 39 r0 W1 eq_refl eq_refl W2 sp39 ltac:(discriminate)) as EA.
  assert (EL : rxm R_SCRIPT_LABEL (w1 ++ KW_INCLUDE ++ (z2 :: w2') ++ 39%N :: r0) = MNo).
  { apply label_nomatch; try assumption; try reflexivity; [|discriminate].
    cbn [app hd_ok]. destruct (white_cons _ _ W2) as [S _]. exact (space_not_word z2 S). }
  set (p0 := length w1 + 7 + length (z2 :: w2')).
  assert (EQ : rxm R_SCRIPT_INCLUDE (w1 ++ KW_INCLUDE ++ (z2 :: w2') ++ 39%N :: r0)
               = MYes (p0 + 1 + length body + 1 + length w4) (cap_set 2 (p0 + 1, p0 + 1 + length body) (cap_set 1 (p0, p0 + 1) []))).
  { unfold rxm. rewrite re_match_ev, shape_include. rewrite (include_prefix_read TQ w1 z2 w2' (39%N :: r0) W1 W2 sp39).
    - subst r0. exact (TQ_body p0 body w4 [] Q W4).
    - intros q z t c Sz. rewrite TQ_read. destruct (z =? 39)%N eqn:E; [|reflexivity]. apply N.eqb_eq in E. subst z.
      unfold is_sp in Sz. rewrite sp39 in Sz. discriminate. }
  set (cc := cap_set 2 (p0 + 1, p0 + 1 + length body) (cap_set 1 (p0, p0 + 1) [])) in *.
  assert (G2 : gtext (w1 ++ KW_INCLUDE ++ (z2 :: w2') ++ 39%N :: r0) cc R_SCRIPT_INCLUDE__url = body).
  { apply (gtext_at _ cc 2 (p0 + 1) (p0 + 1 + length body) (w1 ++ KW_INCLUDE ++ (z2 :: w2') ++ [39%N]) body ([39%N] ++ w4)).
    - reflexivity.
    - subst r0. repeat rewrite <- app_assoc. reflexivity.
    - subst p0. repeat rewrite app_length. cbn [length KW_INCLUDE]. lia.
    - reflexivity. }
  subst r0. unfold KW_INCLUDE in *. cbn [app] in *.
  set (t1 := 99%N :: 108%N :: 117%N :: 100%N :: 101%N :: z2 :: w2' ++ 39%N :: body ++ 39%N :: w4) in *.
  set (t0 := 110%N :: t1) in *.
  assert (EB : rxm R_SCRIPT_FUNCTION_BEGIN (w1 ++ 105%N :: t0) = MNo) by (apply fn_begin_nomatch; [exact W1 | apply rxm_rejects; reflexivity]).
  assert (E1 : rxm R_SCRIPT_FUNCTION_END (w1 ++ 105%N :: t0) = MNo) by tokno R_SCRIPT_FUNCTION_END W1.
  assert (E2 : rxm R_SCRIPT_IF_BEGIN (w1 ++ 105%N :: t0) = MNo).
  { rewrite (rxm_tok R_SCRIPT_IF_BEGIN _ w1 _ eq_refl eq_refl W1).
    assert (Z : rxm R_SCRIPT_IF_BEGIN (105%N :: 110%N :: t1) = MNo) by (unfold rxm; rewrite re_match_ev; vm_compute; reflexivity).
    subst t0. rewrite Z. reflexivity. }
  assert (E3 : rxm R_SCRIPT_IF_ELSE_IF (w1 ++ 105%N :: t0) = MNo) by tokno R_SCRIPT_IF_ELSE_IF W1.
  assert (E4 : rxm R_SCRIPT_IF_ELSE (w1 ++ 105%N :: t0) = MNo) by tokno R_SCRIPT_IF_ELSE W1.
  assert (E5 : rxm R_SCRIPT_IF_END (w1 ++ 105%N :: t0) = MNo) by tokno R_SCRIPT_IF_END W1.
  assert (E6 : rxm R_SCRIPT_WHILE_BEGIN (w1 ++ 105%N :: t0) = MNo) by tokno R_SCRIPT_WHILE_BEGIN W1.
  assert (E7 : rxm R_SCRIPT_WHILE_END (w1 ++ 105%N :: t0) = MNo) by tokno R_SCRIPT_WHILE_END W1.
  assert (E8 : rxm R_SCRIPT_FOR_BEGIN (w1 ++ 105%N :: t0) = MNo) by tokno R_SCRIPT_FOR_BEGIN W1.
  assert (E9 : rxm R_SCRIPT_FOR_END (w1 ++ 105%N :: t0) = MNo) by tokno R_SCRIPT_FOR_END W1.
  assert (E10 : rxm R_SCRIPT_BREAK (w1 ++ 105%N :: t0) = MNo) by tokno R_SCRIPT_BREAK W1.
  assert (E11 : rxm R_SCRIPT_CONTINUE (w1 ++ 105%N :: t0) = MNo) by tokno R_SCRIPT_CONTINUE W1.
  assert (EJ : rxm R_SCRIPT_JUMP (w1 ++ 105%N :: t0) = MNo) by (apply jump_nomatch; [exact W1 | apply rxm_rejects; reflexivity]).
  assert (ER : rxm R_SCRIPT_RETURN (w1 ++ 105%N :: t0) = MNo) by (apply return_nomatch; [exact W1 | apply rxm_rejects; reflexivity]).
  unfold classify. rewrite EA, EB, E1, E2, E3, E4, E5, E6, E7, E8, E9, E10, E11, EL, EJ, ER, EQ. rewrite G2, HU. reflexivity.
Qed.

(* the un-escape pass read directly (Proofs/C02str.v): the url is the body with `\\` and `\'` replaced by their second character *)
Lemma unesc_direct body : unesc R_EXPR_STRING_ESCAPE body = ROk (unescape_direct 39 body).
Proof.
  change (unesc R_EXPR_STRING_ESCAPE body) with (match unescape R_EXPR_STRING_ESCAPE body with Some t => ROk t | None => RFuel end).
  rewrite string_unescape_answer. reflexivity.
Qed.

Theorem classify_include_quoted_direct n w1 w2 body w4 : white w1 -> white w2 -> w2 <> [] -> white w4 -> quotes_escaped body = true ->
  classify n (w1 ++ U "include" ++ w2 ++ U "'" ++ body ++ U "'" ++ w4) = ROk (KInclude (unescape_direct 39 body) false).
Proof. intros W1 W2 N2 W4 Q. apply classify_include_quoted_shape; try assumption. apply unesc_direct. Qed.

Lemma include_quoted_examples :
  quotes_escaped (U "a b.bare") = true /\ quotes_escaped (U "it\00005c's") = true /\ quotes_escaped (U "a\00005c") = true /\
  quotes_escaped (U "it's") = false /\
  unesc R_EXPR_STRING_ESCAPE (U "it\00005c's") = ROk (U "it's") /\ unesc R_EXPR_STRING_ESCAPE (U "a\00005c") = ROk (U "a\00005c") /\
  classify 2 (U "include 'it\00005c's'") = ROk (KInclude (U "it's") false) /\
  classify 2 (U "  include \000009 'it\00005c's'  ") = ROk (KInclude (U "it's") false) /\
  classify 2 (U "include 'a\00005c'") = ROk (KInclude (U "a\00005c") false) /\
  classify 2 (U " include  'a\00005c' ") = ROk (KInclude (U "a\00005c") false).
Proof. repeat split; vm_compute; reflexivity. Qed.
