(* Proofs/C15hists.v — C15 history, strings: each string function of the model REFINES its pure abstract operation
   (Proofs/C15spec2.v), for EVERY argument list (missing / extra / wrong-typed arguments, any spelling of an index,
   non-integral / negative / inf / nan indices) and every heap. *)
From Coq Require Import Lia ZifyBool SpecFloat.
From BS Require Import Model.Base Model.Num Model.LibVal Gen.ArgSpecs Model.LibSeq Proofs.BaseFacts Proofs.C15 Proofs.C15spec
  Proofs.C15hist Proofs.C15spec2 Proofs.C15str Proofs.C15tac.
Local Open Scope Z_scope.

(* ---- one string argument *)
Lemma step_stringLength : refines (U "stringLength") sp_stringLength.
Proof.
  intros args h. destruct args as [|a1 [|a2 rest]].
  - go (U "stringLength") k_stringLength.
  - destruct a1; go (U "stringLength") k_stringLength.
  - destruct a1; go (U "stringLength") k_stringLength.
Qed.

Lemma step_stringTrim : refines (U "stringTrim") sp_stringTrim.
Proof.
  intros args h. destruct args as [|a1 [|a2 rest]].
  - go (U "stringTrim") k_stringTrim.
  - destruct a1; go (U "stringTrim") k_stringTrim.          (* strip = trim: Proofs/C15str.v strip_trim, here by conversion *)
  - destruct a1; go (U "stringTrim") k_stringTrim.
Qed.

Lemma step_regexEscape : refines (U "regexEscape") sp_regexEscape.
Proof.
  intros args h. destruct args as [|a1 [|a2 rest]].
  - go (U "regexEscape") k_regexEscape.
  - destruct a1; go (U "regexEscape") k_regexEscape.
  - destruct a1; go (U "regexEscape") k_regexEscape.
Qed.

Lemma step_urlEncode : refines (U "urlEncode") (sp_urlEncodeGen (U "urlEncode")).
Proof.
  intros args h. destruct args as [|a1 [|a2 rest]].
  - go (U "urlEncode") (k_urlEncodeGen (U "urlEncode")).
  - destruct a1; go (U "urlEncode") (k_urlEncodeGen (U "urlEncode")).
    unfold k_urlEncodeGen, sp_urlEncodeGen. destruct (url_safe_of (U "urlEncode")); [|reflexivity]. destruct (url_quote s0 s); reflexivity.
  - destruct a1; go (U "urlEncode") (k_urlEncodeGen (U "urlEncode")).
Qed.
Lemma step_urlEncodeComponent : refines (U "urlEncodeComponent") (sp_urlEncodeGen (U "urlEncodeComponent")).
Proof.
  intros args h. destruct args as [|a1 [|a2 rest]].
  - go (U "urlEncodeComponent") (k_urlEncodeGen (U "urlEncodeComponent")).
  - destruct a1; go (U "urlEncodeComponent") (k_urlEncodeGen (U "urlEncodeComponent")).
    unfold k_urlEncodeGen, sp_urlEncodeGen. destruct (url_safe_of (U "urlEncodeComponent")); [|reflexivity]. destruct (url_quote s0 s); reflexivity.
  - destruct a1; go (U "urlEncodeComponent") (k_urlEncodeGen (U "urlEncodeComponent")).
Qed.

(* ---- two string arguments *)
Lemma step_stringStartsWith : refines (U "stringStartsWith") sp_stringStartsWith.
Proof.
  intros args h. destruct args as [|a1 [|a2 [|a3 rest]]].
  - go (U "stringStartsWith") k_stringStartsWith.
  - destruct a1; go (U "stringStartsWith") k_stringStartsWith.
  - destruct a1; try (go (U "stringStartsWith") k_stringStartsWith; fail).
    destruct a2; go (U "stringStartsWith") k_stringStartsWith.
    unfold k_stringStartsWith, sp_stringStartsWith. rewrite str_prefix_starts. reflexivity.
  - destruct a1; try (go (U "stringStartsWith") k_stringStartsWith; fail). destruct a2; go (U "stringStartsWith") k_stringStartsWith.
Qed.
Lemma step_stringEndsWith : refines (U "stringEndsWith") sp_stringEndsWith.
Proof.
  intros args h. destruct args as [|a1 [|a2 [|a3 rest]]].
  - go (U "stringEndsWith") k_stringEndsWith.
  - destruct a1; go (U "stringEndsWith") k_stringEndsWith.
  - destruct a1; try (go (U "stringEndsWith") k_stringEndsWith; fail).
    destruct a2; go (U "stringEndsWith") k_stringEndsWith.
    unfold k_stringEndsWith, sp_stringEndsWith. rewrite str_suffix_ends. reflexivity.
  - destruct a1; try (go (U "stringEndsWith") k_stringEndsWith; fail). destruct a2; go (U "stringEndsWith") k_stringEndsWith.
Qed.
Lemma step_stringSplit : refines (U "stringSplit") sp_stringSplit.
Proof.
  intros args h. destruct args as [|a1 [|a2 [|a3 rest]]].
  - go (U "stringSplit") k_stringSplit.
  - destruct a1; go (U "stringSplit") k_stringSplit.
  - destruct a1; try (go (U "stringSplit") k_stringSplit; fail).
    destruct a2; go (U "stringSplit") k_stringSplit.
    unfold k_stringSplit, sp_stringSplit. destruct s0 as [|x sep]; [reflexivity|].
    rewrite py_split_spec by discriminate. fin.
  - destruct a1; try (go (U "stringSplit") k_stringSplit; fail). destruct a2; go (U "stringSplit") k_stringSplit.
Qed.
Lemma step_stringReplace : refines (U "stringReplace") sp_stringReplace.
Proof.
  intros args h. destruct args as [|a1 [|a2 [|a3 [|a4 rest]]]].
  - go (U "stringReplace") k_stringReplace.
  - destruct a1; go (U "stringReplace") k_stringReplace.
  - destruct a1; try (go (U "stringReplace") k_stringReplace; fail). destruct a2; go (U "stringReplace") k_stringReplace.
  - destruct a1; try (go (U "stringReplace") k_stringReplace; fail). destruct a2; try (go (U "stringReplace") k_stringReplace; fail).
    destruct a3; go (U "stringReplace") k_stringReplace.
    unfold k_stringReplace, sp_stringReplace. rewrite py_replace_spec. reflexivity.
  - destruct a1; try (go (U "stringReplace") k_stringReplace; fail). destruct a2; try (go (U "stringReplace") k_stringReplace; fail).
    destruct a3; go (U "stringReplace") k_stringReplace.
Qed.

(* ---- a string and an index / a count *)
Lemma step_stringCharCodeAt : refines (U "stringCharCodeAt") sp_stringCharCodeAt.
Proof.
  intros args h. destruct args as [|a1 [|a2 [|a3 rest]]].
  - go (U "stringCharCodeAt") k_stringCharCodeAt.
  - destruct a1; go (U "stringCharCodeAt") k_stringCharCodeAt.
  - destruct a1; try (go (U "stringCharCodeAt") k_stringCharCodeAt; fail).
    destruct a2; try (go (U "stringCharCodeAt") k_stringCharCodeAt; fail).
    lib_open (U "stringCharCodeAt") k_stringCharCodeAt. unfold sp_stringCharCodeAt. num_cases; try reflexivity.
    validate_step. unfold k_stringCharCodeAt. rewrite (index_guard_integral n z _ Hi).
    destruct (Z.leb_spec (Z.of_nat (length s)) z).
    + rewrite nth_error_none_ge by lia. reflexivity.
    + rewrite py_index_in_range by lia. destruct (nth_error s (Z.to_nat z)) eqn:E; [reflexivity|].
      apply nth_error_None in E. lia.
  - destruct a1; try (go (U "stringCharCodeAt") k_stringCharCodeAt; fail). destruct a2; go (U "stringCharCodeAt") k_stringCharCodeAt.
Qed.

Lemma step_stringRepeat : refines (U "stringRepeat") sp_stringRepeat.
Proof.
  intros args h. destruct args as [|a1 [|a2 [|a3 rest]]].
  - go (U "stringRepeat") k_stringRepeat.
  - destruct a1; go (U "stringRepeat") k_stringRepeat.
  - destruct a1; try (go (U "stringRepeat") k_stringRepeat; fail).
    destruct a2; try (go (U "stringRepeat") k_stringRepeat; fail).
    lib_open (U "stringRepeat") k_stringRepeat. unfold sp_stringRepeat. num_cases; try reflexivity.
    validate_step. unfold k_stringRepeat. cbn [as_num]. destruct Hi as [-> _]. rewrite repeat_str_concat. reflexivity.
  - destruct a1; try (go (U "stringRepeat") k_stringRepeat; fail). destruct a2; go (U "stringRepeat") k_stringRepeat.
Qed.

(* ---- stringSlice *)
Lemma sslice_core : forall h s n1 zs ve oe, integral n1 zs -> 0 <= zs ->
  match oe with None => ve = VNull | Some ze => exists n2, ve = VNum n2 /\ integral n2 ze /\ 0 <= ze end ->
  abs_call (k_stringSlice h [AV (VStr s); AV (VNum n1); AV ve]) =
  (let ze := match oe with Some z => z | None => len s end in
   if (len s <? zs) || (len s <? ze) then fail (abs h)
   else ok (VStr (skipn (Z.to_nat zs) (firstn (Z.to_nat ze) s))) (abs h)).
Proof.
  intros h s n1 zs ve oe H1 Hs Hoe. unfold k_stringSlice.
  assert (exists n2 ze, (match ve with VNull => vint (len s) | _ => ve end) = VNum n2 /\ integral n2 ze /\ 0 <= ze
                        /\ ze = match oe with Some z => z | None => len s end) as (n2 & ze & -> & H2 & He & Eze).
  { destruct oe as [ze|].
    - destruct Hoe as (n2 & -> & H2 & He). exists n2, ze. auto.
    - subst ve. exists (NInt (len s)), (len s). repeat split; try apply integral_int. unfold len. lia. }
  cbv zeta. rewrite <- Eze. clear Eze Hoe oe. cbn [as_num].
  rewrite (num_gt_integral _ _ _ H1), (num_gt_integral _ _ _ H2).
  destruct (len s <? zs) eqn:E1; [reflexivity|]. destruct (len s <? ze) eqn:E2; [reflexivity|].
  destruct H1 as [-> _]. destruct H2 as [-> _]. unfold py_slice, len in *. rewrite !py_bound_in_range by lia.
  reflexivity.
Qed.

Lemma step_stringSlice : refines (U "stringSlice") sp_stringSlice.
Proof.
  intros args h. destruct args as [|a1 [|a2 [|a3 [|a4 rest]]]].
  - go (U "stringSlice") k_stringSlice.
  - destruct a1; go (U "stringSlice") k_stringSlice.
  - destruct a1; try (go (U "stringSlice") k_stringSlice; fail). destruct a2; try (go (U "stringSlice") k_stringSlice; fail).
    lib_open (U "stringSlice") k_stringSlice. unfold sp_stringSlice. num_cases; try reflexivity.
    validate_step. apply (sslice_core h s n z VNull None); auto.
  - destruct a1; try (go (U "stringSlice") k_stringSlice; fail). destruct a2; try (go (U "stringSlice") k_stringSlice; fail).
    lib_open (U "stringSlice") k_stringSlice. unfold sp_stringSlice. num_cases; try reflexivity.
    validate_step. destruct a3; validate_step; try reflexivity.
    + apply (sslice_core h s n z VNull None); auto.
    + unfold opt_index. cbn [option_map]. num_cases; try reflexivity. validate_step. cbn [option_map].
      apply (sslice_core h s n z (VNum n0) (Some z0)); eauto.
  - destruct a1; try (go (U "stringSlice") k_stringSlice; fail). destruct a2; go (U "stringSlice") k_stringSlice.
    all: destruct a3; crunch.
Qed.
