(* Proofs/RegexTrail.v — appending white space to the SUBJECT does not change what the backtracking engine answers, for a
   regex without `$` and look-ahead, as long as the continuation refuses to stop inside the appended run:

     m_white_no   on a subject of white space only, with a continuation that refuses every white subject, the engine
                  answers MNo (or runs out of fuel);
     m_trail      the engine's answers on  rest ++ ws  and on  rest  agree (up to running out of fuel), when the two
                  continuations agree on  r' ++ ws / r'  and the first one refuses every white subject;
     ev_trail     the same for the fuel-free evaluator of Proofs/RegexEval.v, as an equality;
     trail_last_lit   hence  re_match (A x) (s ++ ws) = re_match (A x) s  for a regex that ENDS with a literal non-space
                  character x (a match cannot end inside ws: its last character is x).
   Operational (about the engine's own search order), so it also covers the token regexes with backtracking stars over
   alternations ('...' "..." [...]) for which there is no direct reading. *)
From Coq Require Import Lia.
From BS Require Import Model.Base Model.Regex Gen.Unicode Proofs.RegexFacts Proofs.RegexComplete Proofs.RegexShift
  Proofs.RegexEval Proofs.C10ws.

Fixpoint no_eol (r : regex) : bool :=
  match r with
  | REol => false
  | RCat a b | RAlt a b => no_eol a && no_eol b
  | RRep _ _ a | RGroup _ a | RLook a => no_eol a
  | _ => true
  end.

Definition nf (a : mres) : Prop := a = MNo \/ a = MFuel.
Definition agree (a b : mres) : Prop := a = MFuel \/ b = MFuel \/ a = b.

Lemma white_tail y u : white (y :: u) -> white u.
Proof. intros W. exact (proj2 (white_cons _ _ W)). Qed.

Lemma m_white_no : forall f r pos u c k, no_look r = true -> white u ->
  (forall p u' c', white u' -> nf (k p u' c')) -> nf (m UC f r pos u c k).
Proof.
  induction f as [|f IH]; intros r pos u c k NL W K; [right; reflexivity|].
  destruct r; cbn [m]; cbn [no_look] in NL.
  - apply K; exact W.
  - destruct u as [|y t]; [left; reflexivity|]. destruct (y =? c0)%N; [apply K; exact (white_tail _ _ W) | left; reflexivity].
  - destruct u as [|y t]; [left; reflexivity|]. destruct (y =? c0)%N; [left; reflexivity | apply K; exact (white_tail _ _ W)].
  - destruct u as [|y t]; [left; reflexivity|]. destruct (y =? 10)%N; [left; reflexivity | apply K; exact (white_tail _ _ W)].
  - destruct u as [|y t]; [left; reflexivity|].
    destruct (class_match UC neg items y); [apply K; exact (white_tail _ _ W) | left; reflexivity].
  - destruct (Nat.eqb pos 0); [apply K; exact W | left; reflexivity].
  - destruct u as [|y [|z t]]; [apply K; exact W | destruct (y =? 10)%N; [apply K; exact W | left; reflexivity] | left; reflexivity].
  - apply andb_true_iff in NL. destruct NL as [NA NB].
    apply IH; [exact NA | exact W|]. intros p u' c' W'. apply IH; [exact NB | exact W' | exact K].
  - apply andb_true_iff in NL. destruct NL as [NA NB].
    destruct (IH r1 pos u c k NA W K) as [A|A]; rewrite A; [apply IH; assumption | right; reflexivity].
  - set (more := match mx with
                 | Some 0 => MNo
                 | _ => m UC f r pos u c (fun p r' c' => if Nat.eqb p pos then MNo
                           else m UC f (RRep (pred mn) (option_map pred mx) r) p r' c' k)
                 end).
    assert (A : nf more).
    { subst more. destruct mx as [[|?]|]; [left; reflexivity| |];
        (apply IH; [exact NL | exact W|]; intros p u' c' W'; destruct (Nat.eqb p pos); [left; reflexivity|];
         apply IH; [exact NL | exact W' | exact K]). }
    destruct A as [A|A]; rewrite A; [destruct mn; [apply K; exact W | left; reflexivity] | right; reflexivity].
  - apply IH; [exact NL | exact W|]. intros p u' c' W'. apply K. exact W'.
  - discriminate.
Qed.

Section Trail.
Variable ws : str.
Hypothesis Wws : white ws.

Lemma m_trail : forall f r pos rest c k k', no_look r = true -> no_eol r = true ->
  (forall p r' c', agree (k' p (r' ++ ws) c') (k p r' c')) ->
  (forall p u c', white u -> nf (k' p u c')) ->
  agree (m UC f r pos (rest ++ ws) c k') (m UC f r pos rest c k).
Proof.
  induction f as [|f IH]; intros r pos rest c k k' NL NE K1 K2; [left; reflexivity|].
  assert (AT : forall (p : N -> bool),
    agree (match rest ++ ws with y :: t => if p y then k' (S pos) t c else MNo | [] => MNo end)
          (match rest with y :: t => if p y then k (S pos) t c else MNo | [] => MNo end)).
  { intros p. destruct rest as [|y t]; cbn [app].
    - destruct ws as [|y u]; [right; right; reflexivity|]. destruct (p y); [|right; right; reflexivity].
      destruct (K2 (S pos) u c (white_tail _ _ Wws)) as [A|A]; rewrite A; [right; right; reflexivity | left; reflexivity].
    - destruct (p y); [apply K1 | right; right; reflexivity]. }
  destruct r; cbn [m]; cbn [no_look] in NL; cbn [no_eol] in NE.
  - apply K1.
  - exact (AT (fun y => (y =? c0)%N)).
  - pose proof (AT (fun y => negb (y =? c0)%N)) as A.
    destruct (rest ++ ws) as [|y t], rest as [|y2 t2]; try exact A;
      try (destruct (y =? c0)%N); try (destruct (y2 =? c0)%N); exact A.
  - pose proof (AT (fun y => negb (y =? 10)%N)) as A.
    destruct (rest ++ ws) as [|y t], rest as [|y2 t2]; try exact A;
      try (destruct (y =? 10)%N); try (destruct (y2 =? 10)%N); exact A.
  - exact (AT (class_match UC neg items)).
  - destruct (Nat.eqb pos 0); [apply K1 | right; right; reflexivity].
  - discriminate.
  - apply andb_true_iff in NL. destruct NL as [LA LB]. apply andb_true_iff in NE. destruct NE as [EA EB].
    apply IH; [exact LA | exact EA | |].
    + intros p r' c'. apply IH; assumption.
    + intros p u c' W. apply m_white_no; assumption.
  - apply andb_true_iff in NL. destruct NL as [LA LB]. apply andb_true_iff in NE. destruct NE as [EA EB].
    destruct (IH r1 pos rest c k k' LA EA K1 K2) as [A|[A|A]].
    + rewrite A. left; reflexivity.
    + rewrite A. right; left; reflexivity.
    + rewrite A. destruct (m UC f r1 pos rest c k); [apply IH; assumption | right; right; reflexivity | right; right; reflexivity].
  - set (more := match mx with
                 | Some 0 => MNo
                 | _ => m UC f r pos rest c (fun p r' c' => if Nat.eqb p pos then MNo
                           else m UC f (RRep (pred mn) (option_map pred mx) r) p r' c' k)
                 end).
    set (more' := match mx with
                 | Some 0 => MNo
                 | _ => m UC f r pos (rest ++ ws) c (fun p r' c' => if Nat.eqb p pos then MNo
                           else m UC f (RRep (pred mn) (option_map pred mx) r) p r' c' k')
                 end).
    assert (A : agree more' more).
    { subst more more'. destruct mx as [[|?]|]; [right; right; reflexivity| |];
        (apply IH; [exact NL | exact NE | |];
         [ intros p r' c'; destruct (Nat.eqb p pos); [right; right; reflexivity|]; apply IH; assumption
         | intros p u c' W; destruct (Nat.eqb p pos); [left; reflexivity|]; apply m_white_no; assumption ]). }
    destruct A as [A|[A|A]].
    + rewrite A. left; reflexivity.
    + rewrite A. right; left; reflexivity.
    + rewrite A. destruct more; [destruct mn; [apply K1 | right; right; reflexivity] | right; right; reflexivity | right; right; reflexivity].
  - apply IH; [exact NL | exact NE | |].
    + intros p r' c'. apply K1.
    + intros p u c' W. apply K2. exact W.
  - discriminate.
Qed.

(* the fuel-free evaluator: an equality *)
Lemma ev_trail r pos rest c k k' : no_look r = true -> no_eol r = true ->
  (forall p r' c', k' p (r' ++ ws) c' = k p r' c') ->
  (forall p u c', white u -> k' p u c' = MNo) ->
  (forall p r' c', k p r' c' <> MFuel) -> (forall p r' c', k' p r' c' <> MFuel) ->
  ev UC r pos (rest ++ ws) c k' = ev UC r pos rest c k.
Proof.
  intros NL NE K1 K2 F F'.
  set (G := rsize r * (length (rest ++ ws) + 1)).
  assert (G1 : rsize r * (length rest + 1) <= G) by (subst G; rewrite app_length; nia).
  rewrite <- (m_ev UC G r pos (rest ++ ws) c k') by (try (intros; apply F'); subst G; lia).
  rewrite <- (m_ev UC G r pos rest c k) by (try (intros; apply F); exact G1).
  pose proof (m_no_fuel UC G r pos (rest ++ ws) c k' (le_n _) (fun p r' c' _ _ => F' p r' c')) as N1.
  pose proof (m_no_fuel UC G r pos rest c k G1 (fun p r' c' _ _ => F p r' c')) as N2.
  destruct (m_trail G r pos rest c k k' NL NE) as [A|[A|A]].
  - intros p r' c'. right; right. apply K1.
  - intros p u c' W. left. apply K2. exact W.
  - congruence.
  - congruence.
  - exact A.
Qed.

(* a regex that ends with a final part L which (1) answers the same on r' ++ ws and r', (2) refuses white subjects *)
Lemma trail_last A L s : no_look A = true -> no_eol A = true ->
  (forall p r' c', ev UC L p (r' ++ ws) c' kfin = ev UC L p r' c' kfin) ->
  (forall p u c', white u -> ev UC L p u c' kfin = MNo) ->
  (forall p r' c', ev UC L p r' c' kfin <> MFuel) ->
  ev UC (RCat A L) 0 (s ++ ws) [] kfin = ev UC (RCat A L) 0 s [] kfin.
Proof.
  intros NL NE H1 H2 H3. rewrite !ev_cat. apply ev_trail; try assumption; intros; apply H3.
Qed.

Lemma trail_last_lit A x s : no_look A = true -> no_eol A = true -> is_space UC x = false ->
  ev UC (RCat A (RLit x)) 0 (s ++ ws) [] kfin = ev UC (RCat A (RLit x)) 0 s [] kfin.
Proof.
  intros NL NE NX.
  assert (NW : forall y u, white (y :: u) -> (y =? x)%N = false).
  { intros y u W. destruct (white_cons _ _ W) as [S _]. destruct (y =? x)%N eqn:E; [|reflexivity].
    apply N.eqb_eq in E. subst. congruence. }
  apply trail_last; try assumption.
  - intros p r' c'. cbn [ev]. destruct r' as [|y t]; cbn [app]; [|reflexivity].
    destruct ws as [|y u]; [reflexivity|]. rewrite (NW y u Wws). reflexivity.
  - intros p u c' W. cbn [ev]. destruct u as [|y t]; [reflexivity|]. rewrite (NW y t W). reflexivity.
  - intros p r' c'. cbn [ev]. destruct r' as [|y t]; [discriminate|]. destruct (y =? x)%N; discriminate.
Qed.
End Trail.
