(* Proofs/C02.v — the expression parser builds THE tree dictated by operator precedence.

   Layers:
   1. table facts (vm_compute on the table REGENERATED from BINARY_REORDER):
        lower a b  <->  level a < level b   for the 14 documented operators;
   2. tree facts about [insert] (the in-place right-spine rotation): it preserves the
      left-to-right token sequence and well-precedencedness, and folding it over the
      (operator, operand) pairs of any well-precedenced tree rebuilds that tree;
   3. parser facts: [parse_binary] IS the left fold of [insert] over the chain it reads,
      operands come from [parse_unary] and are never bare binary nodes; hence every tree
      returned by [parse_expression] is well-precedenced, recursively. *)
From Coq Require Import Lia.
From BS Require Import Model.Base Model.Regex Model.Num Model.ExprParser Gen.Tables Gen.Regexes Proofs.BaseFacts.

(* ---------- the specification: the seven documented precedence levels ---------- *)
Definition level (o : str) : nat :=
  if str_eqb o (U "**") then 7
  else if str_mem o [U "*"; U "/"; U "%"] then 6
  else if str_mem o [U "+"; U "-"] then 5
  else if str_mem o [U "<="; U "<"; U ">="; U ">"] then 4
  else if str_mem o [U "=="; U "!="] then 3
  else if str_eqb o (U "&&") then 2
  else if str_eqb o (U "||") then 1
  else 0.

Definition spec_ops : list str :=
  [U "**"; U "*"; U "/"; U "%"; U "+"; U "-"; U "<="; U "<"; U ">="; U ">"; U "=="; U "!="; U "&&"; U "||"].

Definition known_ops : list str := map fst gen_binary_reorder.
Definition known (o : str) : bool := str_mem o known_ops.

(* ---------- 1. obligations on the GENERATED table (finite, decided by computation) ---------- *)
Lemma table_ops_are_the_documented_ones :
  forallb known spec_ops = true /\ forallb (fun o => str_mem o spec_ops) known_ops = true.
Proof. split; vm_compute; reflexivity. Qed.

Lemma table_sets_closed : forallb (fun row => forallb known (snd row)) gen_binary_reorder = true.
Proof. vm_compute. reflexivity. Qed.

Lemma reorder_is_strict_level_order_b :
  forallb (fun a => forallb (fun b => Bool.eqb (lower a b) (level a <? level b)) known_ops) known_ops = true.
Proof. vm_compute. reflexivity. Qed.

Lemma lower_known a b : lower a b = true -> known a = true /\ known b = true.
Proof.
  unfold lower. destruct (assoc b gen_binary_reorder) as [l|] eqn:E; [|discriminate].
  intros H. split.
  - pose proof table_sets_closed as T. rewrite forallb_forall in T.
    specialize (T (b, l) (assoc_In _ _ _ E)). cbn in T. rewrite forallb_forall in T.
    apply T. apply str_mem_In. exact H.
  - unfold known. apply str_mem_In. eapply assoc_In_fst. exact E.
Qed.

Theorem reorder_is_strict_level_order a b :
  known a = true -> known b = true -> (lower a b = true <-> level a < level b).
Proof.
  intros Ka Kb. pose proof reorder_is_strict_level_order_b as T.
  rewrite forallb_forall in T. apply str_mem_In in Ka, Kb.
  specialize (T a Ka). rewrite forallb_forall in T. specialize (T b Kb).
  apply Bool.eqb_prop in T. rewrite T. apply Nat.ltb_lt.
Qed.

(* ---------- 2. trees ---------- *)
Definition is_bin (t : expr) : bool := match t with EBin _ _ _ => true | _ => false end.

Definition root_ge (n : nat) (t : expr) : Prop := match t with EBin o _ _ => n <= level o | _ => True end.
Definition root_gt (n : nat) (t : expr) : Prop := match t with EBin o _ _ => n < level o | _ => True end.

(* well-precedenced, recursively (also below groups, unary operators and call arguments):
   - a left child that is a binary node has level >= its parent (left associativity),
   - a right child that is a binary node has level > its parent,
   - the operand of a unary operator is never a bare binary node (unary binds tightest),
   - every operator is one of the known ones. *)
Fixpoint WP (t : expr) : Prop :=
  match t with
  | EBin o l r => known o = true /\ WP l /\ WP r /\ root_ge (level o) l /\ root_gt (level o) r
  | EUn _ e => WP e /\ is_bin e = false
  | EGroup e => WP e
  | ECall _ args => (fix all (l : list expr) : Prop := match l with [] => True | x :: t => WP x /\ all t end) args
  | _ => True
  end.

Fixpoint ops_known (t : expr) : Prop :=
  match t with
  | EBin o l r => known o = true /\ ops_known l /\ ops_known r
  | EUn _ e => ops_known e
  | EGroup e => ops_known e
  | ECall _ args => (fix all (l : list expr) : Prop := match l with [] => True | x :: t => ops_known x /\ all t end) args
  | _ => True
  end.

Lemma WP_call_Forall n args : WP (ECall n args) <-> Forall WP args.
Proof.
  cbn. induction args as [|x t IH]; [split; [constructor | exact (fun _ => I)]|].
  split.
  - intros [Hx Ht]. constructor; [exact Hx | apply IH, Ht].
  - intros H. inversion H; subst. split; [assumption | apply IH; assumption].
Qed.
Lemma ops_known_call_Forall n args : ops_known (ECall n args) <-> Forall ops_known args.
Proof.
  cbn. induction args as [|x t IH]; [split; [constructor | exact (fun _ => I)]|].
  split.
  - intros [Hx Ht]. constructor; [exact Hx | apply IH, Ht].
  - intros H. inversion H; subst. split; [assumption | apply IH; assumption].
Qed.

(* token view of the top-level chain of a tree: operands (non-binary subtrees) and operators *)
Inductive tok := TA (a : expr) | TO (o : str).
Fixpoint flatten (t : expr) : list tok :=
  match t with
  | EBin o l r => flatten l ++ TO o :: flatten r
  | a => [TA a]
  end.

Lemma insert_flatten t o r : flatten (insert t o r) = flatten t ++ TO o :: flatten r.
Proof.
  induction t as [x|s|n|n args|o' l IHl rt IHr|o' e IH|e IH]; cbn; try reflexivity.
  destruct (lower o' o); cbn; [rewrite IHr, <- app_assoc; reflexivity | reflexivity].
Qed.

Lemma insert_root_gt n t o r : root_gt n t -> n < level o -> root_gt n (insert t o r).
Proof.
  destruct t as [x|s|nm|nm args|o' l rt|o' e|e]; cbn; intros; try assumption.
  destruct (lower o' o); cbn; assumption.
Qed.

(* inserting a well-precedenced, non-binary operand keeps the tree well-precedenced *)
Lemma insert_WP t o a : known o = true -> is_bin a = false -> WP a -> WP t -> WP (insert t o a).
Proof.
  intros Ko Ha Wa.
  assert (Ra : forall n, root_gt n a) by (intros n; destruct a; cbn in *; try exact I; discriminate).
  assert (Atom : forall t0, is_bin t0 = false -> WP t0 -> WP (EBin o t0 a)).
  { intros t0 Ht Wt. cbn [WP]. repeat split; auto. destruct t0; cbn in *; try exact I; discriminate. }
  induction t as [x|s|n|n args|o' l IHl rt IHr|o' e IH|e IH]; intros W;
    try (cbn [insert]; apply Atom; [reflexivity | exact W]).
  cbn [insert]. destruct W as (Ko' & Wl & Wr & Gl & Gr).
  destruct (lower o' o) eqn:E.
  - apply (reorder_is_strict_level_order _ _ Ko' Ko) in E.
    cbn [WP]. repeat split; auto. apply insert_root_gt; assumption.
  - assert (~ level o' < level o) by (intro C; apply (reorder_is_strict_level_order _ _ Ko' Ko) in C; congruence).
    cbn [WP]. repeat split; auto; try (cbn; lia); try apply Ra.
Qed.

Lemma insert_ops_known t o a : ops_known (insert t o a) <-> ops_known t /\ known o = true /\ ops_known a.
Proof.
  induction t as [x|s|n|n args|o' l IHl rt IHr|o' e IH|e IH]; try (cbn; tauto).
  cbn [insert]. destruct (lower o' o); cbn [ops_known]; [rewrite IHr|]; tauto.
Qed.

(* -- completeness: the fold rebuilds every well-precedenced tree from its own token chain -- *)
Definition ins (t : expr) (oa : str * expr) : expr := insert t (fst oa) (snd oa).

Fixpoint pairs (t : expr) : expr * list (str * expr) :=
  match t with
  | EBin o l r => let '(a0, rl) := pairs l in let '(b0, rr) := pairs r in (a0, rl ++ (o, b0) :: rr)
  | a => (a, [])
  end.

Lemma insert_assoc T o x p r : known o = true -> known p = true -> level o < level p ->
  ops_known T ->
  insert (insert T o x) p r = insert T o (insert x p r).
Proof.
  intros Ko Kp H. assert (E : lower o p = true) by (apply reorder_is_strict_level_order; assumption).
  induction T as [a|s|n|n args|o' l IHl rt IHr|o' e IH|e IH]; intros KT; try (cbn; rewrite E; reflexivity).
  cbn [insert]. destruct KT as (Ko' & Kl & Kr).
  destruct (lower o' o) eqn:E'; cbn [insert].
  - apply (reorder_is_strict_level_order _ _ Ko' Ko) in E'.
    assert (E2 : lower o' p = true) by (apply reorder_is_strict_level_order; try assumption; lia).
    rewrite E2, IHr by assumption. reflexivity.
  - rewrite E. reflexivity.
Qed.

Lemma fold_into T o : known o = true -> ops_known T -> forall rest x,
  Forall (fun oa => known (fst oa) = true /\ level o < level (fst oa)) rest ->
  fold_left ins rest (insert T o x) = insert T o (fold_left ins rest x).
Proof.
  intros Ko KT. induction rest as [|[p a] rest IH]; cbn; intros x H; [reflexivity|].
  inversion H as [|? ? [Kp Hp] Hr]; subst. cbn in Kp, Hp.
  unfold ins at 2; cbn [fst snd]. unfold ins at 1; cbn [fst snd]. rewrite insert_assoc by assumption. apply IH. exact Hr.
Qed.

Lemma pairs_ops_ge n t : WP t -> root_ge n t ->
  Forall (fun oa => known (fst oa) = true /\ n <= level (fst oa)) (snd (pairs t)).
Proof.
  revert n. induction t as [a|s|nm|nm args|o l IHl r IHr|o e IH|e IH]; cbn [pairs snd]; intros n W G; try constructor.
  destruct W as (Ko & Wl & Wr & Gl & Gr).
  destruct (pairs l) as [a0 rl] eqn:El, (pairs r) as [b0 rr] eqn:Er. cbn [snd].
  apply Forall_app; split.
  - specialize (IHl (level o) Wl Gl). cbn in IHl.
    eapply Forall_impl; [|exact IHl]. cbn. intros ? [? ?]. cbn in G. split; [assumption|lia].
  - constructor; [cbn; split; [exact Ko | exact G]|].
    assert (G' : root_ge (S (level o)) r) by (destruct r; cbn in *; try exact I; lia).
    specialize (IHr (S (level o)) Wr G'). cbn in IHr.
    eapply Forall_impl; [|exact IHr]. cbn. intros ? [? ?]. cbn in G. split; [assumption|lia].
Qed.


(* induction principle with the nested call-argument case *)
Section ExprInd.
  Variable P : expr -> Prop.
  Hypothesis Hnum : forall x, P (ENum x).
  Hypothesis Hstr : forall s, P (EStr s).
  Hypothesis Hvar : forall n, P (EVar n).
  Hypothesis Hcall : forall n args, Forall P args -> P (ECall n args).
  Hypothesis Hbin : forall o l r, P l -> P r -> P (EBin o l r).
  Hypothesis Hun : forall o e, P e -> P (EUn o e).
  Hypothesis Hgroup : forall e, P e -> P (EGroup e).
  Fixpoint expr_ind' (t : expr) : P t :=
    match t with
    | ENum x => Hnum x
    | EStr s => Hstr s
    | EVar n => Hvar n
    | ECall n args =>
      Hcall n args ((fix go (l : list expr) : Forall P l :=
                       match l with [] => Forall_nil P | x :: t => Forall_cons x (expr_ind' x) (go t) end) args)
    | EBin o l r => Hbin o l r (expr_ind' l) (expr_ind' r)
    | EUn o e => Hun o e (expr_ind' e)
    | EGroup e => Hgroup e (expr_ind' e)
    end.
End ExprInd.

Lemma WP_ops_known t : WP t -> ops_known t.
Proof.
  induction t as [x|s|n|n args IH|o l r IHl IHr|o e IH|e IH] using expr_ind'; try (cbn; tauto).
  - rewrite WP_call_Forall, ops_known_call_Forall. intros W.
    induction W as [|x t Wx Wt IHW]; constructor; inversion IH; subst; auto.
Qed.

Theorem fold_rebuilds t : WP t -> fold_left ins (snd (pairs t)) (fst (pairs t)) = t.
Proof.
  induction t as [a|s|nm|nm args|o l IHl r IHr|o e IH|e IH]; cbn [pairs]; intros W; try reflexivity.
  destruct W as (Ko & Wl & Wr & Gl & Gr).
  pose proof (pairs_ops_ge (S (level o)) r Wr) as Hops.
  destruct (pairs l) as [a0 rl] eqn:El, (pairs r) as [b0 rr] eqn:Er. cbn [fst snd] in *.
  rewrite fold_left_app. rewrite (IHl Wl). cbn [fold_left]. unfold ins at 2; cbn [fst snd].
  assert (Hroot : forall x, insert l o x = EBin o l x).
  { intros x. destruct l as [y|s|n|n a|o' l1 l2|o' e|e]; cbn; try reflexivity.
    cbn in Gl. destruct Wl as (Ko' & _).
    destruct (lower o' o) eqn:E; [apply (reorder_is_strict_level_order _ _ Ko' Ko) in E; lia | reflexivity]. }
  rewrite fold_into.
  - rewrite (IHr Wr). apply Hroot.
  - exact Ko.
  - apply WP_ops_known, Wl.
  - assert (G' : root_ge (S (level o)) r) by (destruct r; cbn in *; try exact I; lia).
    specialize (Hops G'). eapply Forall_impl; [|exact Hops]. cbn. intros ? [? ?]. split; [assumption|lia].
Qed.

(* uniqueness: a token chain has at most one well-precedenced tree *)
Corollary WP_unique t1 t2 : WP t1 -> WP t2 -> pairs t1 = pairs t2 -> t1 = t2.
Proof. intros W1 W2 E. rewrite <- (fold_rebuilds t1 W1), <- (fold_rebuilds t2 W2), E. reflexivity. Qed.

(* the fold over any chain of well-precedenced non-binary operands is well-precedenced and
   keeps the left-to-right token order *)
Definition operand_ok (a : expr) : Prop := is_bin a = false /\ WP a.

Lemma fold_WP rest : forall t, WP t ->
  Forall (fun oa => known (fst oa) = true /\ operand_ok (snd oa)) rest ->
  WP (fold_left ins rest t) /\
  flatten (fold_left ins rest t) = flatten t ++ flat_map (fun oa => [TO (fst oa); TA (snd oa)]) rest.
Proof.
  induction rest as [|[o a] rest IH]; cbn [fold_left flat_map]; intros t Wt H.
  - split; [assumption | rewrite app_nil_r; reflexivity].
  - inversion H as [|? ? [Ko [Ha Wa]] Hr]; subst. cbn in Ko, Ha, Wa.
    destruct (IH (ins t (o, a))) as [W F]; [apply insert_WP; assumption | assumption |].
    split; [exact W|]. rewrite F. unfold ins; cbn [fst snd]. rewrite insert_flatten.
    rewrite <- app_assoc. cbn [app]. f_equal. f_equal.
    destruct a; cbn in Ha; try discriminate; reflexivity.
Qed.

(* ---------- 3. the parser ---------- *)
(* what the three mutually recursive functions return, for every amount of fuel *)
Definition unary_post (r : pres (expr * str)) : Prop :=
  match r with POk (e, _) => is_bin e = false /\ (ops_known e -> WP e) | _ => True end.
Definition binary_post (left : option expr) (r : pres (expr * str)) : Prop :=
  match r with
  | POk (e, _) => ops_known e -> (match left with Some l => ops_known l /\ (WP l -> WP e) | None => WP e end)
  | _ => True
  end.
Definition args_post (acc : list expr) (r : pres (list expr * str)) : Prop :=
  match r with
  | POk (args, _) => Forall ops_known args -> Forall ops_known acc /\ (Forall WP acc -> Forall WP args)
  | _ => True
  end.

Lemma Forall_rev' {A} (P : A -> Prop) l : Forall P (rev l) <-> Forall P l.
Proof. rewrite !Forall_forall. split; intros H x Hx; apply H; [apply -> in_rev | apply <- in_rev]; exact Hx. Qed.

Lemma parser_post : forall fuel,
  (forall text left, binary_post left (parse_binary fuel text left)) /\
  (forall text, unary_post (parse_unary fuel text)) /\
  (forall text acc, args_post acc (parse_args fuel text acc)).
Proof.
  induction fuel as [|f (IHb & IHu & IHa)]; [repeat split; intros; exact I|].
  split; [|split].
  - (* parse_binary *)
    intros text left. cbn [parse_binary].
    assert (Hleft : match (match left with Some l => POk (l, text) | None => parse_unary f text end) with
                    | POk (le, _) => (match left with Some l => le = l | None => is_bin le = false /\ (ops_known le -> WP le) end)
                    | _ => True end).
    { destruct left as [l|]; [reflexivity|]. specialize (IHu text). destruct (parse_unary f text) as [[e r]| | |]; cbn in *; auto. }
    destruct (match left with Some l => POk (l, text) | None => parse_unary f text end) as [[le bt]|msg n|w|]; try exact I.
    destruct (rx R_EXPR_BINARY_OP bt) as [|e c|]; try exact I.
    + (* no operator: return the left expression *)
      cbn. intros K. destruct left as [l|]; [subst; split; [exact K | exact (fun w => w)] | apply Hleft, K].
    + specialize (IHu (skipn e bt)).
      destruct (parse_unary f (skipn e bt)) as [[re nt]|msg n|w|]; try exact I.
      cbn in IHu. destruct IHu as [Hre Wre].
      specialize (IHb nt (Some (insert le (grp bt c 1) re))).
      destruct (parse_binary f nt (Some (insert le (grp bt c 1) re))) as [[res rest]|msg n|w|]; try exact I.
      cbn in IHb |- *. intros K. destruct (IHb K) as [Kins Wins].
      apply insert_ops_known in Kins. destruct Kins as (Kle & Kop & Kre).
      destruct left as [l|].
      * subst le. split; [exact Kle|]. intros Wl. apply Wins. apply insert_WP; auto.
      * destruct Hleft as [_ Wle]. apply Wins. apply insert_WP; auto.
  - (* parse_unary *)
    intros text. cbn [parse_unary].
    destruct (rx R_EXPR_GROUP_OPEN text) as [|e c|]; try exact I.
    2:{ specialize (IHb (skipn e text) None).
        destruct (parse_binary f (skipn e text) None) as [[ex nt]|msg n|w|]; try exact I.
        destruct (rx R_EXPR_GROUP_CLOSE nt) as [|e2 c2|]; try exact I.
        cbn in *. split; [reflexivity|]. intros K. apply IHb, K. }
    destruct (rx R_EXPR_UNARY_OP text) as [|e c|]; try exact I.
    2:{ specialize (IHu (skipn e text)).
        destruct (parse_unary f (skipn e text)) as [[ex nt]|msg n|w|]; try exact I.
        cbn in *. destruct IHu as [Hb W]. split; [reflexivity|]. intros K. split; [apply W, K | exact Hb]. }
    destruct (rx R_EXPR_FUNCTION_OPEN text) as [|e c|]; try exact I.
    2:{ specialize (IHa (skipn e text) []).
        destruct (parse_args f (skipn e text) []) as [[args rest]|msg n|w|]; try exact I.
        cbn [unary_post args_post] in *. split; [reflexivity|]. intros K.
        apply ops_known_call_Forall in K. apply WP_call_Forall. apply IHa; [exact K | constructor]. }
    destruct (rx R_EXPR_NUMBER text) as [|e c|]; try exact I.
    2:{ destruct (py_float (grp text c 1)); cbn; auto. }
    destruct (rx R_EXPR_STRING text) as [|e c|]; try exact I.
    2:{ destruct (unescape R_EXPR_STRING_ESCAPE (grp text c 1)); cbn; auto. }
    destruct (rx R_EXPR_STRING_DOUBLE text) as [|e c|]; try exact I.
    2:{ destruct (unescape R_EXPR_STRING_DOUBLE_ESCAPE (grp text c 1)); cbn; auto. }
    destruct (rx R_EXPR_VARIABLE text) as [|e c|]; try exact I.
    2:{ cbn; auto. }
    destruct (rx R_EXPR_VARIABLE_EX text) as [|e c|]; try exact I.
    destruct (unescape R_EXPR_VARIABLE_EX_ESCAPE (grp text c 1)); cbn; auto.
  - (* parse_args *)
    intros text acc. cbn [parse_args].
    destruct (rx R_EXPR_FUNCTION_CLOSE text) as [|e c|]; try exact I.
    2:{ cbn. intros K. apply (proj1 (Forall_rev' ops_known acc)) in K. split; [exact K|]. intros W. apply (proj2 (Forall_rev' WP acc)). exact W. }
    set (sep := match acc with
                | [] => POk text
                | _ :: _ => match rx R_EXPR_FUNCTION_SEPARATOR text with
                            | MNo => PErr syntax_error (length text)
                            | MYes e _ => POk (skipn e text)
                            | MFuel => PFuel
                            end
                end).
    destruct sep as [t'|msg n|w|]; try exact I.
    specialize (IHb t' None).
    destruct (parse_binary f t' None) as [[a nt]|msg n|w|]; try exact I.
    specialize (IHa nt (a :: acc)).
    destruct (parse_args f nt (a :: acc)) as [[args rest]|msg n|w|]; try exact I.
    cbn in *. intros K. destruct (IHa K) as [Kacc Wargs].
    inversion Kacc as [|? ? Ka Kacc']; subst. split; [exact Kacc'|].
    intros Wacc. apply Wargs. constructor; [apply IHb, Ka | exact Wacc].
Qed.

(* C02, soundness: every tree the parser returns is well-precedenced at every depth,
   provided its operators are the documented ones (which is checked on the output). *)
Theorem parse_expression_WP text e : parse_expression text = EOk e -> ops_known e -> WP e.
Proof.
  unfold parse_expression. intros H K.
  destruct (parser_post (expr_fuel text)) as (Hb & _ & _). specialize (Hb text None).
  destruct (parse_binary (expr_fuel text) text None) as [[e' nt]|msg n|w|]; try discriminate.
  destruct (strip nt); [|discriminate]. inversion H; subst. apply Hb, K.
Qed.

(* the chain view: parse_binary is the left fold of [insert] over the operands and operators it
   reads, in reading order *)
Inductive Reads (f : nat) : str -> list (str * expr) -> str -> Prop :=
| Reads_stop text : rx R_EXPR_BINARY_OP text = MNo -> Reads f text [] text
| Reads_step text e c re nt rest final :
    rx R_EXPR_BINARY_OP text = MYes e c ->
    parse_unary f (skipn e text) = POk (re, nt) ->
    Reads f nt rest final ->
    Reads f text ((grp text c 1, re) :: rest) final.

(* every successful parse_binary call decomposes into: the chain it read (each operand by a
   parse_unary call with some fuel) and the fold of insert over that chain *)
Inductive ReadsAny : str -> list (str * expr) -> str -> Prop :=
| RA_stop text : rx R_EXPR_BINARY_OP text = MNo -> ReadsAny text [] text
| RA_step text e c f re nt rest final :
    rx R_EXPR_BINARY_OP text = MYes e c ->
    parse_unary f (skipn e text) = POk (re, nt) ->
    ReadsAny nt rest final ->
    ReadsAny text ((grp text c 1, re) :: rest) final.

Theorem parse_binary_is_fold : forall fuel text l e rest,
  parse_binary fuel text (Some l) = POk (e, rest) ->
  exists chain, ReadsAny text chain rest /\ e = fold_left ins chain l.
Proof.
  induction fuel as [|f IH]; intros text l e rest H; [discriminate|].
  cbn [parse_binary] in H.
  destruct (rx R_EXPR_BINARY_OP text) as [|en c|] eqn:Eop; try discriminate.
  - inversion H; subst. exists []. split; [constructor; exact Eop | reflexivity].
  - destruct (parse_unary f (skipn en text)) as [[re nt]|msg n|w|] eqn:Eu; try discriminate.
    apply IH in H. destruct H as (chain & HR & ->).
    exists ((grp text c 1, re) :: chain). split; [econstructor; eassumption | reflexivity].
Qed.

Theorem parse_binary_first_is_fold : forall fuel text e rest,
  parse_binary (S fuel) text None = POk (e, rest) ->
  exists a0 bt chain, parse_unary fuel text = POk (a0, bt) /\ ReadsAny bt chain rest /\ e = fold_left ins chain a0.
Proof.
  intros fuel text e rest H.
  cbn [parse_binary] in H.
  destruct (parse_unary fuel text) as [[a0 bt]|msg n|w|] eqn:Eu; try discriminate.
  exists a0, bt.
  assert (H' : parse_binary (S fuel) bt (Some a0) = POk (e, rest)) by (cbn [parse_binary]; exact H).
  apply parse_binary_is_fold in H'. destruct H' as (chain & HR & ->).
  exists chain. repeat split; assumption.
Qed.

(* non-vacuity: a chain hitting all seven levels *)
Example nonvacuous :
  exists e, parse_expression (U "a || b && c == d < e + f * g ** h * i - j") = EOk e /\ ops_known e /\ WP e.
Proof.
  eexists. split; [vm_compute; reflexivity|].
  split; cbn; repeat split; try reflexivity; try lia.
Qed.
