(* Proofs/C01side2.v — the definedness side conditions of the `for` rules follow from a SYNTACTIC criterion.

   Proofs/C01side.v: [XExec EV true] = the structured reading with the side conditions of every `for` ([is_lib]: arrayLength /
   arrayGet still resolve to the library functions when the loop calls them; [Inv3]: after the body of an iteration the three
   bookkeeping variables still hold array / length / index); [XExec EV false] = the reading WITHOUT them; EV = the evaluation
   relation of expressions.  Here:

     XExec (EvQ (Keeps (protected (fscope st) s))) false s st o st'  ->  no_temp_assign s = true  ->  no_shadow s = true  ->  LibOK st
       ->  XExec Ev true s st o st'                                                       ([side_conditions_automatic])

   * [no_temp_assign s] (syntactic): for every `for` of the tree, its three bookkeeping names are pairwise distinct plain names,
     the value variable is none of them, and no assignment statement of its body and no nested `for` (through ITS bookkeeping
     names, value variable or index variable) targets one of them.  (With the parser's names - __bareScriptValues<N> etc., the
     index variable being the user's when there is one - this says: the program assigns no reserved name, and a nested loop
     does not reuse the index variable of an enclosing loop nor assign it: Proofs/C01side3.v.)
   * [no_shadow s] (syntactic): nothing in the tree assigns `arrayLength` or `arrayGet`.
   * [LibOK st] (initial scope): the two names resolve to the library functions at the start (in a function: no parameter /
     local of that name and the globals bind them to the library functions).
   * the RESIDUAL, semantic premise sits in the evaluation relation [EvQ (Keeps P)]: every expression evaluation OF THE RUN leaves
     the GLOBAL variables named in P as they are (calls inside expressions can reach systemGlobalSet, function definitions,
     includes).  P = [protected fs s] = `arrayLength`, `arrayGet`, and ONLY AT TOP LEVEL (fs = false: the bookkeeping variables are
     globals) the bookkeeping names of the tree's loops.  Inside a function (fs = true) the bookkeeping variables are locals of
     the frame, which no callee can touch: nothing is asked about them.  ([Keeps P] holds for every evaluation of an expression
     without calls: [call_free_keeps].)  It is a premise on the evaluations that occur, not on all worlds: in SOME world any callee
     name is bound to a function that writes the global.

   Proof: a frame property of the reading ([frame_both]: a statement changes the binding that a name resolves to only by
   assigning it or by an evaluation writing that global), then a mutual induction. *)
From Coq Require Import Lia List Bool ZArith.
From BS Require Import Model.Base Model.Num Model.Arith Model.ExprParser Model.Script Model.Interp
                       Proofs.BaseFacts Proofs.InterpEq Proofs.Fuel Proofs.C08 Proofs.C01 Proofs.C01b Proofs.Blind Proofs.C01for Proofs.C01forN
                       Proofs.C01u Proofs.C01side.
Import ListNotations.

(* ---------------------------------------------------------------- the syntactic criterion *)
(* every name the tree assigns: assignment statements, and per `for` its three bookkeeping variables and its value variable *)
Fixpoint assigned (s : unistmt) : list str :=
  match s with
  | NSeq a b => assigned a ++ assigned b
  | NAssign x _ => [x]
  | NIf _ a rest => assigned a ++ assigned rest
  | NElse b | NWhile _ b => assigned b
  | NFor vals len idx x _ body => vals :: len :: idx :: x :: assigned body
  | _ => []
  end.

(* every expression the tree evaluates *)
Fixpoint uexprs (s : unistmt) : list expr :=
  match s with
  | NSeq a b => uexprs a ++ uexprs b
  | NAssign _ e | NExpr e | NReturn (Some e) => [e]
  | NIf c a rest => c :: uexprs a ++ uexprs rest
  | NElse b => uexprs b
  | NWhile c b => c :: uexprs b
  | NFor _ _ _ _ e body => e :: uexprs body
  | _ => []
  end.

(* the bookkeeping names of the tree's loops *)
Fixpoint utemps (s : unistmt) : list str :=
  match s with
  | NSeq a b => utemps a ++ utemps b
  | NIf _ a rest => utemps a ++ utemps rest
  | NElse b | NWhile _ b => utemps b
  | NFor vals len idx _ _ body => vals :: len :: idx :: utemps body
  | _ => []
  end.

Fixpoint no_temp_assign (s : unistmt) : bool :=
  match s with
  | NSeq a b => no_temp_assign a && no_temp_assign b
  | NIf _ a rest => no_temp_assign a && no_temp_assign rest
  | NElse b | NWhile _ b => no_temp_assign b
  | NFor vals len idx x _ body =>
    names_okb vals len idx && negb (str_mem x [vals; len; idx]) &&
    negb (str_mem vals (assigned body)) && negb (str_mem len (assigned body)) && negb (str_mem idx (assigned body)) &&
    no_temp_assign body
  | _ => true
  end.

Definition no_shadow (s : unistmt) : bool := negb (str_mem ARRLEN (assigned s)) && negb (str_mem ARRGET (assigned s)).

Lemma str_mem_false y l : str_mem y l = false <-> ~ In y l.
Proof. rewrite <- str_mem_In. destruct (str_mem y l); split; intros H; congruence. Qed.
Lemma negb_mem y l : negb (str_mem y l) = true <-> ~ In y l.
Proof. rewrite negb_true_iff. apply str_mem_false. Qed.

Lemma no_shadow_iff s : no_shadow s = true <-> ~ In ARRLEN (assigned s) /\ ~ In ARRGET (assigned s).
Proof. unfold no_shadow. rewrite andb_true_iff, !negb_mem. tauto. Qed.

Lemma no_temp_for vals len idx x e body : no_temp_assign (NFor vals len idx x e body) = true ->
  names_okb vals len idx = true /\ ~ In x [vals; len; idx] /\
  ~ In vals (assigned body) /\ ~ In len (assigned body) /\ ~ In idx (assigned body) /\ no_temp_assign body = true.
Proof. cbn [no_temp_assign]. rewrite !andb_true_iff, !negb_mem. tauto. Qed.

(* ---------------------------------------------------------------- what a name resolves to *)
Definition flook (y : str) (st : sstate) : option value := lookup_fn y (fst st) false (snd st).
Definition lbound (y : str) (st : sstate) : Prop := match fst st with Some l => env_get y l <> None | None => False end.
Definition fscope (st : sstate) : bool := match fst st with Some _ => true | None => false end.
Definition LibOK (st : sstate) : Prop := is_lib ARRLEN st /\ is_lib ARRGET st.

Lemma is_lib_flook name st : is_lib name st <-> flook name st = Some (VFun (FLib name)).
Proof. reflexivity. Qed.

Lemma lookup_var_fn y loc w : lookup_var y loc w =
  if op_is y "null" then VNull else if op_is y "false" then VBool false else if op_is y "true" then VBool true
  else match lookup_fn y loc false w with Some v => v | None => VNull end.
Proof.
  unfold lookup_var, lookup_fn. destruct (op_is y "null"), (op_is y "false"), (op_is y "true"); try reflexivity.
  destruct (match loc with Some l => env_get y l | None => None end); [reflexivity|].
  destruct (env_get y (w_globals w)); reflexivity.
Qed.
Lemma slook_flook y st st' : flook y st' = flook y st -> slook y st' = slook y st.
Proof. unfold slook, flook. intros H. rewrite !lookup_var_fn, H. reflexivity. Qed.

Lemma flook_assign_other y z v st : z <> y -> flook y (assign' z v st) = flook y st.
Proof.
  intros H. unfold flook, lookup_fn. destruct st as [[l|] w]; unfold assign', env_get; cbn [assign fst snd w_globals upd_globals];
    rewrite (assoc_set_other z y) by (intros E; apply H; symmetry; exact E); reflexivity.
Qed.
Lemma fscope_assign z v st : fscope (assign' z v st) = fscope st.
Proof. destruct st as [[l|] w]; reflexivity. Qed.
Lemma lbound_assign y z v st : lbound y st -> lbound y (assign' z v st).
Proof.
  destruct st as [[l|] w]; unfold lbound, assign', env_get; cbn [assign fst snd]; [|tauto]. intros H.
  destruct (str_eqb y z) eqn:E.
  - apply str_eqb_eq in E. subst z. rewrite assoc_set_same. discriminate.
  - apply str_eqb_neq in E. rewrite (assoc_set_other z y) by exact E. exact H.
Qed.
Lemma lbound_assign_same y v st : fscope st = true -> lbound y (assign' y v st).
Proof.
  destruct st as [[l|] w]; unfold lbound, assign', env_get, fscope; cbn [assign fst snd]; [|discriminate].
  intros _. rewrite assoc_set_same. discriminate.
Qed.

(* ---------------------------------------------------------------- the residual premise *)
(* an evaluation that leaves the GLOBAL variables named in P as they are *)
Definition Keeps (P : list str) : evrel :=
  fun e loc w o w1 => forall y, In y P -> env_get y (w_globals w1) = env_get y (w_globals w).

(* the globals that the expressions of a run must leave alone: arrayLength and arrayGet; at top level also the bookkeeping
   variables of the tree's loops (inside a function they are locals of the frame) *)
Definition protected (fs : bool) (s : unistmt) : list str := ARRLEN :: ARRGET :: (if fs then [] else utemps s).

Section Crit.
Variable cfg : config.
Variable lib : caller -> str -> list value -> world -> lres * world.
Variable url_rel : str -> str -> str.
Variable lint_lines : script -> list str.
Variable um : umode.
Variables len_msg get_msg : str.
Variable P : list str.

Notation Ev := (C01.Ev cfg lib url_rel lint_lines um).
Notation EvK := (EvQ cfg lib url_rel lint_lines um (Keeps P)).
Notation XExec := (XExec cfg len_msg get_msg).
Notation XLoop := (XLoop cfg len_msg get_msg).
Notation IterX := (IterX cfg get_msg).
Notation logst := (logst cfg).

Lemma flook_logst y name msg st : flook y (logst name msg st) = flook y st.
Proof. unfold flook, C01side.logst, lookup_fn. cbn [fst snd]. rewrite globals_logw. reflexivity. Qed.

Lemma flook_ev y e loc w o w1 : EvK e loc w o w1 -> lbound y (loc, w) \/ In y P -> flook y (loc, w1) = flook y (loc, w).
Proof.
  intros [_ Hk] [Hl|Hp]; unfold flook, lookup_fn; cbn [fst snd].
  - destruct loc as [l|]; [|contradiction]. unfold lbound in Hl. cbn [fst] in Hl. destruct (env_get y l); [reflexivity|congruence].
  - rewrite (Hk y Hp). reflexivity.
Qed.

(* ---------------------------------------------------------------- the frame property *)
(* from st to st': same kind of scope; local bindings only grow; a name outside A resolves to the same binding, provided it is a
   local or one of the protected globals *)
Definition step_ok (A : list str) (st st' : sstate) : Prop :=
  fscope st' = fscope st /\ (forall y, lbound y st -> lbound y st') /\
  (forall y, ~ In y A -> lbound y st \/ In y P -> flook y st' = flook y st).

Lemma step_refl A st : step_ok A st st.
Proof. repeat split; auto. Qed.
Lemma step_trans A st st1 st2 : step_ok A st st1 -> step_ok A st1 st2 -> step_ok A st st2.
Proof.
  intros (F1 & L1 & K1) (F2 & L2 & K2). split; [congruence|split; [auto|]].
  intros y Hy Hk. rewrite K2; [apply K1; assumption|exact Hy|]. destruct Hk as [Hl|Hk]; [left; auto|right; exact Hk].
Qed.
Lemma step_weaken A A' st st' : incl A A' -> step_ok A st st' -> step_ok A' st st'.
Proof.
  intros HA (F & L & K). split; [exact F|split; [exact L|]]. intros y Hy Hk. apply K; [|exact Hk].
  intros Hin. apply Hy. apply HA. exact Hin.
Qed.
Lemma step_assign A x v st : In x A -> step_ok A st (assign' x v st).
Proof.
  intros Hx. split; [apply fscope_assign|split; [intros y; apply lbound_assign|]].
  intros y Hy _. apply flook_assign_other. intros ->. exact (Hy Hx).
Qed.
Lemma step_logst A name msg st : step_ok A st (logst name msg st).
Proof. split; [reflexivity|split; [intros y H; exact H|]]. intros y _ _. apply flook_logst. Qed.
Lemma step_ev A e loc w o w1 : EvK e loc w o w1 -> step_ok A (loc, w) (loc, w1).
Proof. intros He. split; [reflexivity|split; [intros y H; exact H|]]. intros y _ Hk. eapply flook_ev; eassumption. Qed.
Lemma step_iter A arr i st v st_g : IterX arr i st v st_g -> step_ok A st st_g.
Proof. intros [elems v' _ _|elems _ _]; [apply step_refl|apply step_logst]. Qed.

Ltac incl_tac := let z := fresh in let Hz := fresh in
  intros z Hz; cbn [assigned uexprs utemps In app] in *; rewrite ?in_app_iff in *; cbn [In]; tauto.

Definition FR (s : unistmt) (st : sstate) (o : sout) (st' : sstate) : Prop := step_ok (assigned s) st st'.
Definition FRL (vals len idx x : str) (body : unistmt) (arr m i : nat) (st : sstate) (o : sout) (st' : sstate) : Prop :=
  step_ok (idx :: x :: assigned body) st st'.

Lemma frame_both chk :
  (forall s st o st', XExec EvK chk s st o st' -> FR s st o st') /\
  (forall vals len idx x body arr m i st o st', XLoop EvK chk vals len idx x body arr m i st o st' -> FRL vals len idx x body arr m i st o st').
Proof.
  apply X_both; unfold FR, FRL; intros;
    repeat match goal with H : C01side.EvQ _ _ _ _ _ _ ?e ?loc ?w ?o ?w1 |- _ =>
      let H' := fresh "Hev" in pose proof (fun A => step_ev A e loc w o w1 H) as H'; clear H end;
    repeat match goal with H : C01side.IterX _ _ _ _ ?st ?v ?stg |- _ =>
      let H' := fresh "Hit" in pose proof (fun A => step_iter A _ _ st v stg H) as H'; clear H end.
  - apply step_refl.
  - eapply step_trans; (eapply step_weaken; [|eassumption]; incl_tac).
  - eapply step_weaken; [|eassumption]; incl_tac.
  - eapply step_trans; [apply Hev|]. change (assign x v loc w1) with (assign' x v (loc, w1)). apply step_assign. cbn; auto.
  - apply Hev.
  - apply Hev.
  - apply Hev.
  - apply Hev.
  - apply step_refl.
  - apply step_refl.
  - apply step_refl.
  - eapply step_trans; [apply Hev|]. eapply step_weaken; [|eassumption]; incl_tac.
  - eapply step_trans; [apply Hev|]. eapply step_weaken; [|eassumption]; incl_tac.
  - apply Hev.
  - assumption.
  - apply Hev.
  - apply Hev.
  - eapply step_trans; [apply Hev|]. eapply step_trans; [|eassumption]. eapply step_weaken; [|eassumption]; incl_tac.
  - eapply step_trans; [apply Hev|]. eapply step_weaken; [|eassumption]; incl_tac.
  - eapply step_trans; [apply Hev|]. eapply step_weaken; [|eassumption]; incl_tac.
  - apply Hev.
  - (* not an array *)
    eapply step_trans; [apply Hev|]. eapply step_trans; [apply step_assign with (x := vals); cbn; auto|].
    eapply step_trans; [apply step_logst|]. apply step_assign. cbn; auto.
  - eapply step_trans; [apply Hev|]. eapply step_trans; [apply step_assign with (x := vals); cbn; auto|].
    apply step_assign. cbn; auto.
  - eapply step_trans; [apply Hev|]. eapply step_trans; [apply step_assign with (x := vals); cbn; auto|].
    eapply step_trans; [apply step_assign with (x := len); cbn; auto|]. eapply step_trans; [apply step_assign with (x := idx); cbn; auto|].
    eapply step_weaken; [|eassumption]; incl_tac.
  - (* loop: stop *)
    eapply step_trans; [apply Hit|]. eapply step_trans; [apply step_assign with (x := x); cbn; auto|].
    eapply step_weaken; [|eassumption]; incl_tac.
  - eapply step_trans; [apply Hit|]. eapply step_trans; [apply step_assign with (x := x); cbn; auto|].
    eapply step_weaken; [|eassumption]; incl_tac.
  - eapply step_trans; [apply Hit|]. eapply step_trans; [apply step_assign with (x := x); cbn; auto|].
    eapply step_trans; [eapply step_weaken; [|eassumption]; incl_tac|].
    eapply step_trans; [apply step_assign with (x := idx); cbn; auto|]. eassumption.
  - eapply step_trans; [apply Hit|]. eapply step_trans; [apply step_assign with (x := x); cbn; auto|].
    eapply step_trans; [eapply step_weaken; [|eassumption]; incl_tac|].
    apply step_assign. cbn; auto.
Qed.

Lemma frame_exec chk s st o st' : XExec EvK chk s st o st' -> step_ok (assigned s) st st'.
Proof. apply frame_both. Qed.

(* ---------------------------------------------------------------- the side conditions hold along every derivation *)
(* the static criterion for the tree and the dynamic invariant at the current state *)
Definition OK (s : unistmt) (st : sstate) : Prop :=
  no_temp_assign s = true /\ no_shadow s = true /\ LibOK st /\ incl (protected (fscope st) s) P.

(* the bookkeeping names of a loop are locals of the frame, or protected globals *)
Definition TK (vals len idx : str) (st : sstate) : Prop := forall y, In y [vals; len; idx] -> lbound y st \/ In y P.

Lemma libok_step A st st' : step_ok A st st' -> ~ In ARRLEN A -> ~ In ARRGET A -> In ARRLEN P -> In ARRGET P -> LibOK st -> LibOK st'.
Proof.
  intros (_ & _ & K) H1 H2 P1 P2 [L1 L2]. split; unfold is_lib.
  - change (flook ARRLEN st' = Some (VFun (FLib ARRLEN))). rewrite K; [exact L1|exact H1|right; exact P1].
  - change (flook ARRGET st' = Some (VFun (FLib ARRGET))). rewrite K; [exact L2|exact H2|right; exact P2].
Qed.

Lemma OK_step s st A st' : OK s st -> step_ok A st st' -> incl A (assigned s) -> OK s st'.
Proof.
  intros (T & N & L & R) Hs HA. split; [exact T|split; [exact N|]]. apply no_shadow_iff in N. destruct N as [N1 N2]. split.
  - eapply libok_step; [exact Hs| | | | |exact L].
    + intros H. apply N1. apply HA. exact H.
    + intros H. apply N2. apply HA. exact H.
    + apply R. cbn; auto.
    + apply R. cbn; auto.
  - destruct Hs as (F & _). rewrite F. exact R.
Qed.

Lemma OK_sub s s' st : OK s st -> no_temp_assign s' = true -> incl (assigned s') (assigned s) -> incl (utemps s') (utemps s) -> OK s' st.
Proof.
  intros (T & N & L & R) T' HA HT. split; [exact T'|split; [|split; [exact L|]]].
  - apply no_shadow_iff in N. apply no_shadow_iff. destruct N as [N1 N2]. split; intros H; [apply N1|apply N2]; apply HA; exact H.
  - intros y Hy. apply R. unfold protected in *. destruct (fscope st); [exact Hy|].
    destruct Hy as [<-|[<-|Hy]]; [cbn; auto|cbn; auto|]. right. right. apply HT. exact Hy.
Qed.

Lemma TK_step vals len idx A st st' : step_ok A st st' -> TK vals len idx st -> TK vals len idx st'.
Proof. intros (_ & Lm & _) H y Hy. destruct (H y Hy) as [Hl|Hk]; [left; apply Lm; exact Hl|right; exact Hk]. Qed.

Lemma inv3_step A vals len idx arr m i st st' : step_ok A st st' -> ~ In vals A -> ~ In len A -> ~ In idx A ->
  TK vals len idx st -> Inv3 vals len idx arr m i st -> Inv3 vals len idx arr m i st'.
Proof.
  intros (_ & _ & K) Hv Hl Hi Hk (Iv & Il & Ii). repeat split.
  - rewrite (slook_flook vals st st'); [exact Iv|]. apply K; [exact Hv|apply Hk; cbn; auto].
  - rewrite (slook_flook len st st'); [exact Il|]. apply K; [exact Hl|apply Hk; cbn; auto].
  - rewrite (slook_flook idx st st'); [exact Ii|]. apply K; [exact Hi|apply Hk; cbn; auto].
Qed.

Lemma Inv3_init vals len idx l m st : names_okb vals len idx = true ->
  Inv3 vals len idx l m 0 (assign' idx (int_v 0) (assign' len (int_v m) (assign' vals (VArr l) st))).
Proof.
  intros Hn. destruct (names_facts _ _ _ Hn) as (N1 & N2 & N3 & Q1 & Q2 & Q3). repeat split.
  - rewrite slook_other by (intros E; apply N2; symmetry; exact E). rewrite slook_other by (intros E; apply N1; symmetry; exact E).
    apply slook_same. exact Q1.
  - rewrite slook_other by (intros E; apply N3; symmetry; exact E). apply slook_same. exact Q2.
  - apply slook_same. exact Q3.
Qed.

Section OneLoop.
Variables (vals len idx x : str) (e : expr) (body : unistmt).
Local Notation F := (NFor vals len idx x e body).

Lemma TK_intro st : OK F st -> (fscope st = true -> lbound vals st /\ lbound len st /\ lbound idx st) -> TK vals len idx st.
Proof.
  intros (_ & _ & _ & R) Hl y Hy. destruct (fscope st) eqn:Ef.
  - left. destruct (Hl eq_refl) as (A & B & C). destruct Hy as [<-|[<-|[<-|[]]]]; assumption.
  - right. apply R. unfold protected. destruct Hy as [<-|[<-|[<-|[]]]]; cbn; auto 10.
Qed.

(* the state in which the body of an iteration starts *)
Lemma iter_facts arr m i st v st_g : OK F st -> TK vals len idx st -> Inv3 vals len idx arr m i st ->
  IterX arr i st v st_g ->
  OK F (assign' x v st_g) /\ TK vals len idx (assign' x v st_g) /\ Inv3 vals len idx arr m i (assign' x v st_g).
Proof.
  intros HO HT HI Hit.
  assert (Hs : step_ok [x] st (assign' x v st_g)).
  { eapply step_trans; [eapply step_iter; exact Hit|apply step_assign; cbn; auto]. }
  destruct HO as (T & HO'). pose proof (no_temp_for _ _ _ _ _ _ T) as (_ & Hx & _).
  split; [|split].
  - eapply OK_step; [exact (conj T HO')|exact Hs|incl_tac].
  - eapply TK_step; [exact Hs|exact HT].
  - eapply inv3_step; [exact Hs| | | |exact HT|exact HI];
      intros [E|[]]; apply Hx; subst x; cbn; auto.
Qed.

(* the state in which it ends *)
Lemma body_facts chk arr m i st_a ob st_b : OK F st_a -> TK vals len idx st_a -> Inv3 vals len idx arr m i st_a ->
  XExec EvK chk body st_a ob st_b ->
  OK F st_b /\ TK vals len idx st_b /\ Inv3 vals len idx arr m i st_b.
Proof.
  intros HO HT HI Hb. pose proof (frame_exec _ _ _ _ _ Hb) as Hs.
  destruct HO as (T & HO'). pose proof (no_temp_for _ _ _ _ _ _ T) as (_ & _ & Hv & Hl & Hi & _).
  split; [|split].
  - eapply OK_step; [exact (conj T HO')|exact Hs|incl_tac].
  - eapply TK_step; [exact Hs|exact HT].
  - eapply inv3_step; [exact Hs|exact Hv|exact Hl|exact Hi|exact HT|exact HI].
Qed.

(* the increment *)
Lemma next_facts arr m i st_b : OK F st_b -> TK vals len idx st_b -> Inv3 vals len idx arr m i st_b ->
  OK F (assign' idx (int_v (S i)) st_b) /\ TK vals len idx (assign' idx (int_v (S i)) st_b) /\
  Inv3 vals len idx arr m (S i) (assign' idx (int_v (S i)) st_b).
Proof.
  intros HO HT HI.
  assert (Hs : step_ok [idx] st_b (assign' idx (int_v (S i)) st_b)) by (apply step_assign; cbn; auto).
  destruct HO as (T & HO'). pose proof (no_temp_for _ _ _ _ _ _ T) as (Hn & _).
  split; [|split].
  - eapply OK_step; [exact (conj T HO')|exact Hs|incl_tac].
  - eapply TK_step; [exact Hs|exact HT].
  - apply Inv3_next; assumption.
Qed.

Lemma OK_body st : OK F st -> OK body st.
Proof.
  intros HO. pose proof HO as (T & _). pose proof (no_temp_for _ _ _ _ _ _ T) as (_ & _ & _ & _ & _ & Tb).
  eapply OK_sub; [exact HO|exact Tb|incl_tac|incl_tac].
Qed.

(* the header: values, then (array case) length and index *)
Lemma head_facts loc w o w1 v : OK F (loc, w) -> EvK e loc w o w1 -> OK F (assign' vals v (loc, w1)).
Proof.
  intros HO He. eapply OK_step; [exact HO| |apply incl_refl].
  eapply step_trans; [eapply step_ev; exact He|apply step_assign; cbn; auto].
Qed.

Lemma head3_facts loc w o w1 l m : OK F (loc, w) -> EvK e loc w o w1 ->
  let st3 := assign' idx (int_v 0) (assign' len (int_v m) (assign' vals (VArr l) (loc, w1))) in
  OK F st3 /\ TK vals len idx st3 /\ Inv3 vals len idx l m 0 st3.
Proof.
  intros HO He st3. pose proof HO as (T & _). pose proof (no_temp_for _ _ _ _ _ _ T) as (Hn & _).
  assert (HO1 := head_facts _ _ _ _ (VArr l) HO He).
  assert (HO3 : OK F st3).
  { eapply OK_step; [exact HO1| |apply incl_refl].
    eapply step_trans; [apply step_assign with (x := len); cbn; auto|apply step_assign; cbn; auto]. }
  split; [exact HO3|split; [|apply Inv3_init; exact Hn]].
  apply TK_intro; [exact HO3|]. intros Hf. unfold st3 in *. rewrite !fscope_assign in Hf. repeat split.
  - apply lbound_assign. apply lbound_assign. apply lbound_assign_same. exact Hf.
  - apply lbound_assign. apply lbound_assign_same. rewrite fscope_assign. exact Hf.
  - apply lbound_assign_same. rewrite !fscope_assign. exact Hf.
Qed.
End OneLoop.

Definition PA (s : unistmt) (st : sstate) (o : sout) (st' : sstate) : Prop := OK s st -> XExec Ev true s st o st'.
Definition PLp (vals len idx x : str) (body : unistmt) (arr m i : nat) (st : sstate) (o : sout) (st' : sstate) : Prop :=
  forall e, OK (NFor vals len idx x e body) st -> TK vals len idx st -> Inv3 vals len idx arr m i st ->
    XLoop Ev true vals len idx x body arr m i st o st'.

Ltac tok H := let T := fresh "T" in pose proof H as (T & _); cbn [no_temp_assign] in T; rewrite ?andb_true_iff in T.
Ltac sub_ok H := eapply OK_sub; [exact H|tauto|incl_tac|incl_tac].
(* OK of the same statement after evaluating one of its expressions *)
Ltac ev_ok H He := match type of H with OK ?s _ =>
  eapply (OK_step s _ (@nil str)); [exact H|eapply step_ev; exact He|apply incl_nil_l] end.
Ltac leaf_rule := intros; econstructor; try eassumption;
  match goal with H : C01side.EvQ _ _ _ _ _ _ _ _ _ _ _ |- _ => exact (proj1 H) end.

Theorem side_conditions_automatic_both :
  (forall s st o st', XExec EvK false s st o st' -> PA s st o st') /\
  (forall vals len idx x body arr m i st o st', XLoop EvK false vals len idx x body arr m i st o st' -> PLp vals len idx x body arr m i st o st').
Proof.
  apply X_both; unfold PA, PLp.
  - intros; constructor.
  - intros a b st st1 o st2 Ha IHa Hb IHb HO. tok HO.
    assert (HOa : OK a st) by sub_ok HO.
    eapply Y_SeqN; [apply IHa; exact HOa|apply IHb].
    assert (HO1 : OK (NSeq a b) st1).
    { eapply OK_step; [exact HO|exact (frame_exec _ _ _ _ _ Ha)|incl_tac]. }
    sub_ok HO1.
  - intros a b st o st1 Ha IHa Hno HO. tok HO. apply Y_SeqA; [apply IHa; sub_ok HO|exact Hno].
  - leaf_rule.
  - leaf_rule.
  - leaf_rule.
  - leaf_rule.
  - leaf_rule.
  - intros; constructor.
  - intros; constructor.
  - intros; constructor.
  - intros c a rest loc w v w1 o st2 He Ht Ha IHa HO. tok HO.
    assert (HO1 : OK (NIf c a rest) (loc, w1)) by ev_ok HO He.
    eapply Y_IfT; [exact (proj1 He)|exact Ht|apply IHa; sub_ok HO1].
  - intros c a rest loc w v w1 o st2 He Ht Hr IHr HO. tok HO.
    assert (HO1 : OK (NIf c a rest) (loc, w1)) by ev_ok HO He.
    eapply Y_IfF; [exact (proj1 He)|exact Ht|apply IHr; sub_ok HO1].
  - leaf_rule.
  - intros b st o st1 Hb IHb HO. tok HO. apply Y_Else. apply IHb. sub_ok HO.
  - leaf_rule.
  - leaf_rule.
  - intros c b loc w v w1 o st2 o3 st3 He Ht Hb IHb Ho Hw IHw HO. tok HO.
    assert (HO1 : OK (NWhile c b) (loc, w1)) by ev_ok HO He.
    assert (HO2 : OK (NWhile c b) st2).
    { eapply OK_step; [exact HO1|exact (frame_exec _ _ _ _ _ Hb)|incl_tac]. }
    eapply Y_WhileT; [exact (proj1 He)|exact Ht|apply IHb; sub_ok HO1|exact Ho|apply IHw; exact HO2].
  - intros c b loc w v w1 st2 He Ht Hb IHb HO. tok HO.
    assert (HO1 : OK (NWhile c b) (loc, w1)) by ev_ok HO He.
    eapply Y_WhileB; [exact (proj1 He)|exact Ht|apply IHb; sub_ok HO1].
  - intros c b loc w v w1 o st2 He Ht Hb IHb HO. tok HO.
    assert (HO1 : OK (NWhile c b) (loc, w1)) by ev_ok HO He.
    eapply Y_WhileS; [exact (proj1 He)|exact Ht|apply IHb; sub_ok HO1].
  - leaf_rule.
  - (* not an array *)
    intros vals len idx x e body loc w v w1 He Hna _ HO.
    apply Y_ForNotArr; [exact (proj1 He)|exact Hna|]. intros _.
    destruct (head_facts _ _ _ _ _ _ _ _ _ _ v HO He) as (_ & _ & [L _] & _). exact L.
  - intros vals len idx x e body loc w l w1 He Harr _ HO.
    apply Y_ForEmpty; [exact (proj1 He)|exact Harr|]. intros _.
    destruct (head_facts _ _ _ _ _ _ _ _ _ _ (VArr l) HO He) as (_ & _ & [L _] & _). exact L.
  - intros vals len idx x e body loc w l w1 elems o st' He Harr Hne _ Hloop IH HO.
    destruct (head3_facts _ _ _ _ _ _ _ _ _ _ l (length elems) HO He) as (HO3 & HT3 & HI3).
    eapply Y_ForLoop; [exact (proj1 He)|exact Harr|exact Hne| |exact (IH e HO3 HT3 HI3)]. intros _.
    destruct (head_facts _ _ _ _ _ _ _ _ _ _ (VArr l) HO He) as (_ & _ & [L _] & _). exact L.
  - (* loop: stop *)
    intros vals len idx x body arr m i st v st_g out st_b _ Hit Hb IHb e HO HT HI.
    destruct (iter_facts _ _ _ _ _ _ _ _ _ _ _ _ HO HT HI Hit) as (HOa & HTa & HIa).
    eapply YL_stop; [intros _; exact (proj2 (proj1 (proj2 (proj2 HO))))|exact Hit|apply IHb; exact (OK_body _ _ _ _ _ _ _ HOa)].
  - intros vals len idx x body arr m i st v st_g st_b _ Hit Hb IHb e HO HT HI.
    destruct (iter_facts _ _ _ _ _ _ _ _ _ _ _ _ HO HT HI Hit) as (HOa & HTa & HIa).
    eapply YL_break; [intros _; exact (proj2 (proj1 (proj2 (proj2 HO))))|exact Hit|apply IHb; exact (OK_body _ _ _ _ _ _ _ HOa)].
  - intros vals len idx x body arr m i st v st_g ob st_b o st' _ Hit Hb IHb Ho _ Hlt Hl IHl e HO HT HI.
    destruct (iter_facts _ _ _ _ _ _ _ _ _ _ _ _ HO HT HI Hit) as (HOa & HTa & HIa).
    destruct (body_facts _ _ _ _ _ _ _ _ _ _ _ _ _ HOa HTa HIa Hb) as (HOb & HTb & HIb).
    destruct (next_facts _ _ _ _ _ _ _ _ _ _ HOb HTb HIb) as (HOn & HTn & HIn).
    eapply YL_next; [intros _; exact (proj2 (proj1 (proj2 (proj2 HO))))|exact Hit|apply IHb; exact (OK_body _ _ _ _ _ _ _ HOa)|exact Ho
                    |intros _; exact HIb|exact Hlt|exact (IHl e HOn HTn HIn)].
  - intros vals len idx x body arr m i st v st_g ob st_b _ Hit Hb IHb Ho _ Hge e HO HT HI.
    destruct (iter_facts _ _ _ _ _ _ _ _ _ _ _ _ HO HT HI Hit) as (HOa & HTa & HIa).
    destruct (body_facts _ _ _ _ _ _ _ _ _ _ _ _ _ HOa HTa HIa Hb) as (HOb & HTb & HIb).
    eapply YL_last; [intros _; exact (proj2 (proj1 (proj2 (proj2 HO))))|exact Hit|apply IHb; exact (OK_body _ _ _ _ _ _ _ HOa)|exact Ho
                    |intros _; exact HIb|exact Hge].
Qed.

End Crit.

Section Crit2.
Variable cfg : config.
Variable lib : caller -> str -> list value -> world -> lres * world.
Variable url_rel : str -> str -> str.
Variable lint_lines : script -> list str.
Variable um : umode.
Variables len_msg get_msg : str.
Notation Ev := (C01.Ev cfg lib url_rel lint_lines um).
Notation XExec := (XExec cfg len_msg get_msg).

(* THE CRITERION: a run of the reading WITHOUT side conditions whose expression evaluations leave the protected globals alone is,
   under the syntactic conditions and the start condition, a run of the reading WITH them *)
Theorem side_conditions_automatic : forall s st o st',
  XExec (EvQ cfg lib url_rel lint_lines um (Keeps (protected (fscope st) s))) false s st o st' ->
  no_temp_assign s = true -> no_shadow s = true -> LibOK st -> XExec Ev true s st o st'.
Proof.
  intros s st o st' H T N L.
  exact (proj1 (side_conditions_automatic_both cfg lib url_rel lint_lines um len_msg get_msg _) s st o st' H
           (conj T (conj N (conj L (incl_refl _))))).
Qed.

(* the converse is XExec_weaken_both / XExec_mono_both of Proofs/C01side.v: the two readings coincide on such runs *)

(* an expression without calls does not touch the world: every evaluation of it keeps every global *)
Fixpoint call_free (e : expr) : bool :=
  match e with
  | ENum _ | EStr _ | EVar _ => true
  | ECall _ _ => false
  | EBin _ a b => call_free a && call_free b
  | EUn _ a | EGroup a => call_free a
  end.

Lemma call_free_same : forall f e loc bi w o w1, call_free e = true -> eval cfg lib url_rel lint_lines f e loc bi um w = (o, w1) -> o <> OFuel -> w1 = w.
Proof.
  induction f as [|f IH]; intros e loc bi w o w1 Hc He Hn; [cbn in He; injection He as <- <-; congruence|].
  rewrite eval_S in He. destruct e as [k|s|y|name args|op a b|op a|a]; cbn [eval_body call_free] in *; try discriminate Hc.
  - injection He as <- <-. reflexivity.
  - injection He as <- <-. reflexivity.
  - injection He as <- <-. reflexivity.
  - apply andb_prop in Hc. destruct Hc as [Ha Hb].
    destruct (eval cfg lib url_rel lint_lines f a loc bi um w) as [oa wa] eqn:Ea.
    assert (Hwa : oa <> OFuel -> wa = w) by (intros Hx; exact (IH a loc bi w oa wa ltac:(assumption) Ea Hx)).
    destruct oa as [lv| | | | |]; try (injection He as <- <-; apply Hwa; first [discriminate|exact Hn]).
    specialize (Hwa ltac:(discriminate)). subst wa.
    destruct (op_is op "&&").
    { destruct (truthy w lv); [exact (IH b loc bi w o w1 Hb He Hn)|injection He as <- <-; reflexivity]. }
    destruct (op_is op "||").
    { destruct (truthy w lv); [injection He as <- <-; reflexivity|exact (IH b loc bi w o w1 Hb He Hn)]. }
    destruct (eval cfg lib url_rel lint_lines f b loc bi um w) as [ob wb] eqn:Eb.
    assert (Hwb : ob <> OFuel -> wb = w) by (intros Hx; exact (IH b loc bi w ob wb Hb Eb Hx)).
    destruct ob as [rv| | | | |]; injection He as <- <-; apply Hwb; first [discriminate|exact Hn].
  - destruct (eval cfg lib url_rel lint_lines f a loc bi um w) as [oa wa] eqn:Ea.
    assert (Hwa : oa <> OFuel -> wa = w) by (intros Hx; exact (IH a loc bi w oa wa ltac:(assumption) Ea Hx)).
    destruct oa; injection He as <- <-; apply Hwa; first [discriminate|exact Hn].
  - eapply IH; eassumption.
Qed.

Lemma call_free_keeps P e loc w o w1 : call_free e = true -> Ev e loc w o w1 -> Keeps P e loc w o w1.
Proof. intros Hc (f & He & Hn) y _. rewrite (call_free_same f e loc false w o w1 Hc He Hn). reflexivity. Qed.


End Crit2.

(* ---------------------------------------------------------------- a decision procedure for [Keeps] (for running examples) *)
Definition value_eq_dec : forall a b : value, {a = b} + {a <> b}.
Proof. repeat decide equality. Defined.

Definition keepsb (P : list str) : expr -> option env -> world -> outcome -> world -> bool :=
  fun _ _ w _ w1 =>
    forallb (fun y => match env_get y (w_globals w1), env_get y (w_globals w) with
                      | Some a, Some b => if value_eq_dec a b then true else false
                      | None, None => true
                      | _, _ => false
                      end) P.

Lemma keepsb_sound P e loc w o w1 : keepsb P e loc w o w1 = true -> Keeps P e loc w o w1.
Proof.
  unfold keepsb, Keeps. rewrite forallb_forall. intros H y Hy. specialize (H y Hy).
  destruct (env_get y (w_globals w1)) as [a|], (env_get y (w_globals w)) as [b|]; try discriminate H; [|reflexivity].
  destruct (value_eq_dec a b) as [->|]; [reflexivity|discriminate H].
Qed.
