(* Proofs/C10wsIndent.v — INDENTATION of a statement line does not change its classification (Model/Lower.v classify):
       classify n line = ROk k  ->  classify n (ws ++ line) = ROk k          (ws whitespace)
   for every kind k except function-begin, jump/jumpif and return (indent_kind).  15 of the 18 statement regexes are
   `^\s*B` with B `^`-free, not nullable, starting with a non-space: tok_rx gives the engine's answer on the indented line
   exactly (shifted).  The three others (`^(\s*async)?\s*function`, `^(\s*jump..)`, `^(\s*return..)`: the whitespace is
   INSIDE a group) are only shown to keep NOT matching (declaratively: a match of the indented line gives a match of the
   line), which is what the statements after them in the cascade need; their own kinds are left out. *)
From Coq Require Import Lia.
From BS Require Import Model.Base Model.Regex Model.Num Model.ExprParser Model.Script Model.Lower Gen.Unicode Gen.Regexes
  Proofs.RegexFacts Proofs.RegexComplete Proofs.RegexShift Proofs.C10ws Proofs.C10wsExpr.

(* ================= declarative: a match to the right of a prefix is a match of the text without the prefix ========== *)
Lemma Matches_unshift ws text r P Q c c' : Matches UC (ws ++ text) r P Q c c' -> no_bol r = true -> length ws <= P ->
  forall c1, exists c1', Matches UC text r (P - length ws) (Q - length ws) c1 c1'.
Proof.
  set (d := length ws).
  assert (NT : forall pos x, d <= pos -> nth_error (ws ++ text) pos = Some x -> nth_error text (pos - d) = Some x).
  { intros pos x L H. rewrite nth_error_app2 in H by exact L. exact H. }
  induction 1; cbn [no_bol]; intros NB L c1.
  - eexists. apply M_Eps.
  - eexists. replace (S pos - d) with (S (pos - d)) by lia. apply M_Lit. apply NT; assumption.
  - eexists. replace (S pos - d) with (S (pos - d)) by lia. eapply M_NotLit; [apply NT; eassumption | assumption].
  - eexists. replace (S pos - d) with (S (pos - d)) by lia. eapply M_Any; [apply NT; eassumption | assumption].
  - eexists. replace (S pos - d) with (S (pos - d)) by lia. eapply M_In; [apply NT; eassumption | assumption].
  - discriminate.
  - eexists. apply M_Eol. rewrite app_length in H. fold d in H. destruct H as [H|[H1 H2]].
    + left. lia.
    + right. split; [lia | apply NT; assumption].
  - apply andb_true_iff in NB. destruct NB as [NA NB].
    pose proof (Matches_le _ _ _ _ _ _ _ H).
    destruct (IHMatches1 NA L c1) as (cm1 & M1). destruct (IHMatches2 NB ltac:(lia) cm1) as (c1' & M2).
    exists c1'. eapply M_Cat; eassumption.
  - apply andb_true_iff in NB. destruct NB as [NA NB]. destruct (IHMatches NA L c1) as (c1' & M1). exists c1'. apply M_AltL. exact M1.
  - apply andb_true_iff in NB. destruct NB as [NA NB]. destruct (IHMatches NB L c1) as (c1' & M1). exists c1'. apply M_AltR. exact M1.
  - eexists. apply M_Rep0.
  - pose proof (Matches_le _ _ _ _ _ _ _ H0).
    destruct (IHMatches1 NB L c1) as (cm1 & M1). destruct (IHMatches2 NB ltac:(lia) cm1) as (c1' & M2).
    exists c1'. eapply M_RepS; [exact H | exact M1 | lia | exact M2].
  - destruct (IHMatches NB L c1) as (c1' & M1). eexists. apply M_Group. exact M1.
  - destruct (IHMatches NB L c1) as (c1' & M1). eexists. eapply M_Look. exact M1.
Qed.

(* a suffix of a run matched by \s* is matched by \s* *)
Lemma sp_suffix s r pos p c c' : Matches UC s r pos p c c' -> r = rsp ->
  forall q c1, pos <= q <= p -> Matches UC s rsp q p c1 c1.
Proof.
  induction 1; intros E q c1 B; try discriminate E.
  - assert (q = pos) by lia. subst q. apply M_Rep0.
  - unfold rsp in E. injection E as -> -> ->. cbn [pred option_map] in *.
    specialize (IHMatches2 eq_refl).
    inversion H0; subst.
    destruct (Nat.eq_dec q pos) as [->|NE].
    + eapply (M_RepS UC s 0 None _ pos (S pos) p c1 c1 c1); [discriminate | | lia | ].
      * eapply M_In; eassumption.
      * apply IHMatches2. pose proof (Matches_le _ _ _ _ _ _ _ H2). lia.
    + apply IHMatches2. lia.
Qed.

Lemma inv_cat s a b pos p c c' : Matches UC s (RCat a b) pos p c c' ->
  exists mid cm, Matches UC s a pos mid c cm /\ Matches UC s b mid p cm c'.
Proof. intros H. inversion H; subst. eauto. Qed.
Lemma inv_group s n a pos p c c' : Matches UC s (RGroup n a) pos p c c' -> exists c0, Matches UC s a pos p c c0.
Proof. intros H. inversion H; subst. eauto. Qed.
Lemma inv_bol s pos p c c' : Matches UC s RBol pos p c c' -> pos = 0 /\ p = 0.
Proof. intros H. inversion H; subst. split; reflexivity. Qed.
Lemma inv_rep01 s a pos p c c' :
  Matches UC s (RRep 0 (Some 1) a) pos p c c' -> p = pos \/ exists c0, Matches UC s a pos p c c0.
Proof.
  intros H. inversion H; subst; [left; reflexivity|]. right. cbn [pred option_map] in *.
  match goal with H2 : Matches _ _ (RRep 0 (Some 0) _) _ _ _ _ |- _ => inversion H2; subst; [eauto | congruence] end.
Qed.

(* \s*B at the start of an indented line: the \s* run covers the indentation *)
Lemma sp_tok_unshift ws line B P Q c c' : white ws -> tok_ok B = true ->
  Matches UC (ws ++ line) (RCat rsp B) P Q c c' -> P = 0 \/ length ws <= P ->
  length ws <= Q /\ forall c1, exists c1', Matches UC line (RCat rsp B) (P - length ws) (Q - length ws) c1 c1'.
Proof.
  intros W TB M HP. set (d := length ws).
  assert (NB : no_bol B = true).
  { unfold tok_ok in TB. apply andb_true_iff in TB. destruct TB as [TB _]. apply andb_true_iff in TB. tauto. }
  apply inv_cat in M. destruct M as (j & cj & MS & MB).
  pose proof (Matches_le _ _ _ _ _ _ _ MS) as L1. pose proof (Matches_le _ _ _ _ _ _ _ MB) as L2.
  assert (Lj : d <= j).
  { destruct (le_lt_dec d j) as [|Lt]; [assumption|exfalso].
    destruct (nth_error ws j) as [y|] eqn:Ny; [|apply nth_error_None in Ny; fold d in Ny; lia].
    assert (Ny' : nth_error (ws ++ line) j = Some y) by (rewrite nth_error_app1 by exact Lt; exact Ny).
    exact (tok_ok_fails B TB _ _ _ _ _ _ MB Ny' (W y (nth_error_In _ _ Ny))). }
  split; [lia|]. intros c1.
  assert (MS' : Matches UC (ws ++ line) rsp (Nat.max P d) j c1 c1) by (apply (sp_suffix _ _ _ _ _ _ MS eq_refl); lia).
  destruct (Matches_unshift ws line _ _ _ _ _ MS' eq_refl ltac:(fold d; lia) c1) as (c2 & S1).
  destruct (Matches_unshift ws line _ _ _ _ _ MB NB Lj c2) as (c3 & B1).
  exists c3. eapply M_Cat; [|exact B1].
  fold d in S1. replace (Nat.max P d - d) with (P - d) in S1 by lia. exact S1.
Qed.

Lemma complete_contra R line : no_look R = true -> rxm R line = MNo -> forall e c, ~ Matches UC line R 0 e [] c.
Proof.
  intros NL H e c M. destruct (re_match_complete UC line R e c NL M) as (e' & c' & Y). unfold rxm in H. congruence.
Qed.

(* ^(\s*Y)Z  — jump, return *)
Lemma odd_group_nomatch g Y Z ws line :
  no_look (RCat RBol (RCat (RGroup g (RCat rsp Y)) Z)) = true -> tok_ok Y = true -> no_bol Z = true -> white ws ->
  rxm (RCat RBol (RCat (RGroup g (RCat rsp Y)) Z)) line = MNo ->
  rxm (RCat RBol (RCat (RGroup g (RCat rsp Y)) Z)) (ws ++ line) = MNo.
Proof.
  intros NL TY NZ W H. apply re_match_none. intros e c M.
  apply inv_cat in M. destruct M as (m0 & c0 & M0 & M). apply inv_bol in M0. destruct M0 as [_ ->].
  apply inv_cat in M. destruct M as (p1 & c1 & MG & MZ). apply inv_group in MG. destruct MG as (cg & MG).
  destruct (sp_tok_unshift ws line Y 0 p1 _ _ W TY MG (or_introl eq_refl)) as (Lp & UG).
  destruct (UG []) as (a1 & G1). cbn [Nat.sub] in G1.
  destruct (Matches_unshift ws line _ _ _ _ _ MZ NZ Lp (cap_set g (0, p1 - length ws) a1)) as (a2 & Z1).
  apply (complete_contra _ line NL H (e - length ws) a2).
  eapply M_Cat; [apply M_Bol|]. eapply M_Cat; [apply M_Group; exact G1 | exact Z1].
Qed.

(* ^(\s*A)?\s*F  — function begin *)
Lemma odd_opt_nomatch g A F ws line :
  no_look (RCat RBol (RCat (RRep 0 (Some 1) (RGroup g (RCat rsp A))) (RCat rsp F))) = true ->
  tok_ok A = true -> tok_ok F = true -> white ws ->
  rxm (RCat RBol (RCat (RRep 0 (Some 1) (RGroup g (RCat rsp A))) (RCat rsp F))) line = MNo ->
  rxm (RCat RBol (RCat (RRep 0 (Some 1) (RGroup g (RCat rsp A))) (RCat rsp F))) (ws ++ line) = MNo.
Proof.
  intros NL TA TF W H. apply re_match_none. intros e c M.
  apply inv_cat in M. destruct M as (m0 & c0 & M0 & M). apply inv_bol in M0. destruct M0 as [_ ->].
  apply inv_cat in M. destruct M as (p1 & c1 & MR & MT). apply inv_rep01 in MR. destruct MR as [->|(cg & MG)].
  - destruct (sp_tok_unshift ws line F 0 e _ _ W TF MT (or_introl eq_refl)) as (Le & UT).
    destruct (UT []) as (a1 & T1). cbn [Nat.sub] in T1.
    apply (complete_contra _ line NL H (e - length ws) a1).
    eapply M_Cat; [apply M_Bol|]. eapply M_Cat; [apply M_Rep0 | exact T1].
  - apply inv_group in MG. destruct MG as (cg' & MG).
    destruct (sp_tok_unshift ws line A 0 p1 _ _ W TA MG (or_introl eq_refl)) as (Lp & UG).
    destruct (UG []) as (a1 & G1). cbn [Nat.sub] in G1.
    destruct (sp_tok_unshift ws line F p1 e _ _ W TF MT (or_intror Lp)) as (Le & UT).
    destruct (UT (cap_set g (0, p1 - length ws) a1)) as (a2 & T1).
    assert (NZ : p1 - length ws <> 0).
    { (* \s*A is not empty: A is not nullable *)
      apply inv_cat in G1. destruct G1 as (j & cj & S1 & A1).
      pose proof (Matches_le _ _ _ _ _ _ _ S1). pose proof (Matches_le _ _ _ _ _ _ _ A1).
      destruct (Matches_first UC _ _ _ _ _ _ A1) as [N1 _].
      unfold tok_ok in TA. apply andb_true_iff in TA. destruct TA as [TA _]. apply andb_true_iff in TA. destruct TA as [_ TA].
      apply negb_true_iff in TA. intros E. rewrite N1 in TA by lia. discriminate. }
    apply (complete_contra _ line NL H (e - length ws) a2).
    eapply M_Cat; [apply M_Bol|]. eapply M_Cat; [|exact T1].
    eapply (M_RepS UC line 0 (Some 1) _ 0 (p1 - length ws) (p1 - length ws)); [discriminate | apply M_Group; exact G1 | exact NZ | apply M_Rep0].
Qed.

(* ================= the statement regexes ================= *)
Lemma gtext_shift ws line c n : gtext (ws ++ line) (shiftc (length ws) c) n = gtext line c n.
Proof. unfold gtext. rewrite group_text_shift. reflexivity. Qed.

Lemma stmt_expr_ok ex l1 o1 l2 o2 n e : stmt_expr ex l1 o1 n = ROk e -> stmt_expr ex l2 o2 n = ROk e.
Proof. unfold stmt_expr. destruct (parse_expression ex); intros H; try discriminate H. exact H. Qed.

Lemma rxm_tok R B ws line : R = RCat RBol (RCat rsp B) -> tok_ok B = true -> white ws ->
  rxm R (ws ++ line) = shiftr (length ws) (rxm R line).
Proof. exact (tok_rx R B ws line). Qed.

Lemma fn_begin_nomatch ws line : white ws ->
  rxm R_SCRIPT_FUNCTION_BEGIN line = MNo -> rxm R_SCRIPT_FUNCTION_BEGIN (ws ++ line) = MNo.
Proof. intros W. apply odd_opt_nomatch; [reflexivity | reflexivity | reflexivity | exact W]. Qed.
Lemma jump_nomatch ws line : white ws -> rxm R_SCRIPT_JUMP line = MNo -> rxm R_SCRIPT_JUMP (ws ++ line) = MNo.
Proof. intros W. apply odd_group_nomatch; [reflexivity | reflexivity | reflexivity | exact W]. Qed.
Lemma return_nomatch ws line : white ws -> rxm R_SCRIPT_RETURN line = MNo -> rxm R_SCRIPT_RETURN (ws ++ line) = MNo.
Proof. intros W. apply odd_group_nomatch; [reflexivity | reflexivity | reflexivity | exact W]. Qed.

(* the kinds covered *)
Definition indent_kind (k : line_kind) : bool :=
  match k with
  | KFnBegin _ _ _ _ | KJump _ _ | KReturn _ => false
  | KElif (ROk _) => true
  | KElif _ => false
  | _ => true
  end.

Ltac tokrw R W := rewrite (rxm_tok R _ _ _ eq_refl eq_refl W).

Theorem classify_indent n ws line k : white ws -> indent_kind k = true ->
  classify n line = ROk k -> classify n (ws ++ line) = ROk k.
Proof.
  intros W IK. unfold classify.
  tokrw R_SCRIPT_ASSIGNMENT W. tokrw R_SCRIPT_FUNCTION_END W. tokrw R_SCRIPT_IF_BEGIN W. tokrw R_SCRIPT_IF_ELSE_IF W.
  tokrw R_SCRIPT_IF_ELSE W. tokrw R_SCRIPT_IF_END W. tokrw R_SCRIPT_WHILE_BEGIN W. tokrw R_SCRIPT_WHILE_END W.
  tokrw R_SCRIPT_FOR_BEGIN W. tokrw R_SCRIPT_FOR_END W. tokrw R_SCRIPT_BREAK W. tokrw R_SCRIPT_CONTINUE W.
  tokrw R_SCRIPT_LABEL W. tokrw R_SCRIPT_INCLUDE W. tokrw R_SCRIPT_INCLUDE_SYSTEM W.
  (* assignment *)
  destruct (rxm R_SCRIPT_ASSIGNMENT line) as [|e c|]; cbn [shiftr]; [| |discriminate].
  2:{ rewrite !gtext_shift. destruct (stmt_expr _ line _ n) as [ex| | |] eqn:E; intros H; try discriminate H.
      rewrite (stmt_expr_ok _ _ _ (ws ++ line) (length (ws ++ line) - length (gtext line c R_SCRIPT_ASSIGNMENT__expr)) _ _ E). exact H. }
  (* function begin *)
  destruct (rxm R_SCRIPT_FUNCTION_BEGIN line) as [|e c|] eqn:FB; [| |discriminate].
  2:{ intros H. injection H as <-. discriminate IK. }
  rewrite (fn_begin_nomatch ws line W FB).
  destruct (rxm R_SCRIPT_FUNCTION_END line) as [|e c|]; cbn [shiftr]; [|exact (fun H => H)|discriminate].
  (* if *)
  destruct (rxm R_SCRIPT_IF_BEGIN line) as [|e c|]; cbn [shiftr]; [| |discriminate].
  2:{ rewrite !gtext_shift. destruct (stmt_expr _ line _ n) as [ex| | |] eqn:E; intros H; try discriminate H.
      rewrite (stmt_expr_ok _ _ _ (ws ++ line) (gstart (shiftc (length ws) c) R_SCRIPT_IF_BEGIN__expr) _ _ E). exact H. }
  (* elif *)
  destruct (rxm R_SCRIPT_IF_ELSE_IF line) as [|e c|]; cbn [shiftr]; [| |discriminate].
  2:{ rewrite !gtext_shift. intros H. injection H as <-. cbn [indent_kind] in IK.
      destruct (stmt_expr _ line _ n) as [ex| | |] eqn:E; try discriminate IK.
      rewrite (stmt_expr_ok _ _ _ (ws ++ line) (gstart (shiftc (length ws) c) R_SCRIPT_IF_ELSE_IF__expr) _ _ E). reflexivity. }
  destruct (rxm R_SCRIPT_IF_ELSE line) as [|e c|]; cbn [shiftr]; [|exact (fun H => H)|discriminate].
  destruct (rxm R_SCRIPT_IF_END line) as [|e c|]; cbn [shiftr]; [|exact (fun H => H)|discriminate].
  (* while *)
  destruct (rxm R_SCRIPT_WHILE_BEGIN line) as [|e c|]; cbn [shiftr]; [| |discriminate].
  2:{ rewrite !gtext_shift. destruct (stmt_expr _ line _ n) as [ex| | |] eqn:E; intros H; try discriminate H.
      rewrite (stmt_expr_ok _ _ _ (ws ++ line) (gstart (shiftc (length ws) c) R_SCRIPT_WHILE_BEGIN__expr) _ _ E). exact H. }
  destruct (rxm R_SCRIPT_WHILE_END line) as [|e c|]; cbn [shiftr]; [|exact (fun H => H)|discriminate].
  (* for *)
  destruct (rxm R_SCRIPT_FOR_BEGIN line) as [|e c|]; cbn [shiftr]; [| |discriminate].
  2:{ rewrite !gtext_shift. destruct (stmt_expr _ line _ n) as [ex| | |] eqn:E; intros H; try discriminate H.
      rewrite (stmt_expr_ok _ _ _ (ws ++ line) (gstart (shiftc (length ws) c) R_SCRIPT_FOR_BEGIN__values) _ _ E). exact H. }
  destruct (rxm R_SCRIPT_FOR_END line) as [|e c|]; cbn [shiftr]; [|exact (fun H => H)|discriminate].
  destruct (rxm R_SCRIPT_BREAK line) as [|e c|]; cbn [shiftr]; [|exact (fun H => H)|discriminate].
  destruct (rxm R_SCRIPT_CONTINUE line) as [|e c|]; cbn [shiftr]; [|exact (fun H => H)|discriminate].
  (* label *)
  destruct (rxm R_SCRIPT_LABEL line) as [|e c|]; cbn [shiftr]; [| |discriminate].
  2:{ rewrite gtext_shift. exact (fun H => H). }
  (* jump, return *)
  destruct (rxm R_SCRIPT_JUMP line) as [|e c|] eqn:JM; [| |discriminate].
  2:{ intros H. exfalso. destruct (gtext line c R_SCRIPT_JUMP__expr); [|destruct (stmt_expr _ _ _ _)];
        try discriminate H; injection H as <-; discriminate IK. }
  rewrite (jump_nomatch ws line W JM).
  destruct (rxm R_SCRIPT_RETURN line) as [|e c|] eqn:RT; [| |discriminate].
  2:{ intros H. exfalso. destruct (gtext line c R_SCRIPT_RETURN__expr); [|destruct (stmt_expr _ _ _ _)];
        try discriminate H; injection H as <-; discriminate IK. }
  rewrite (return_nomatch ws line W RT).
  (* include *)
  destruct (rxm R_SCRIPT_INCLUDE line) as [|e c|]; cbn [shiftr].
  - destruct (rxm R_SCRIPT_INCLUDE_SYSTEM line) as [|e c|]; cbn [shiftr]; [| |discriminate].
    + destruct (parse_expression line) as [ex| | |] eqn:E; intros H; try discriminate H.
      rewrite (parse_expression_ws_ok ws line ex W E). exact H.
    + rewrite gtext_shift. exact (fun H => H).
  - rewrite gtext_shift. destruct (unesc _ _); intros H; try discriminate H; exact H.
  - discriminate.
Qed.
