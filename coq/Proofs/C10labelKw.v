(* Proofs/C10labelKw.v — the label lines whose name is  if / elif / while :   w1 KW w2 : w3   (all runs white).

   classify tries the keyword regex `^\s*KW\s+(.+)\s*:\s*$` BEFORE the label regex.  On such a line it matches exactly when
   the run w2 can be cut into  a x rest  with  a  non-empty (the `\s+`), x a character that is not LF (the `.+`), i.e.

       the line is a LABEL          iff   every character of w2 behind the first is LF        (all_lf (tl w2) = true)
       otherwise it is the keyword statement with the one-character expression text [x], x = the LAST non-LF character of
       w2 (the greedy `\s+` backs off to it; behind it only LF follow, which `.` does not read and `\s*` does), and this
       text never parses:  if / while : RErr (Syntax error, column = offset of x + 1);  elif : ROk (KElif (RErr ...)).

   For an LF-free run (every line parse_script produces): label iff |w2| <= 1.  (So `if :` is a label, `if  :` is a syntax
   error, `if<LF> :` is a syntax error too although the run has a single non-LF character, `if <LF><LF>:` is a label.) *)
From Coq Require Import Lia.
From BS Require Import Model.Base Model.Regex Model.Num Model.NumText Model.ExprParser Model.Script Model.Lower Gen.Unicode Gen.Regexes
  Proofs.RegexFacts Proofs.RegexComplete Proofs.RegexShift Proofs.RegexEval Proofs.C02rx Proofs.C10ws Proofs.C10wsExpr
  Proofs.C10wsFull Proofs.C10wsIndent Proofs.C10wsIndent2 Proofs.C10tokSpaced Proofs.RegexTrail Proofs.C10tokTrail Proofs.RegexTrail2
  Proofs.RegexTrail3 Proofs.C10stmtTrail Proofs.C10parseNoeq Proofs.C10classifyTrail Proofs.C10stmtGaps Proofs.C10stmtGaps2
  Proofs.C10stmtGaps3 Proofs.C10stmtGaps4 Proofs.C10stmtGaps5 Proofs.C10stmtGaps8.

Definition isLF (y : N) : bool := (y =? 10)%N.
Definition all_lf (s : str) : bool := forallb isLF s.

Lemma sp10 : is_space UC 10 = true. Proof. vm_compute. reflexivity. Qed.

Lemma all_lf_white s : all_lf s = true -> white s.
Proof.
  intros H c I. unfold all_lf in H. rewrite forallb_forall in H. specialize (H c I). unfold isLF in H. apply N.eqb_eq in H. subst c. exact sp10.
Qed.

Lemma white_suffix (u b1 b2 : str) : u = b1 ++ b2 -> white u -> white b2.
Proof. intros -> W c I. apply W. apply in_or_app. right. exact I. Qed.

Lemma white_prefix (u b1 b2 : str) : u = b1 ++ b2 -> white u -> white b1.
Proof. intros -> W c I. apply W. apply in_or_app. left. exact I. Qed.

Lemma white_forallb_cmWs w : white w -> forallb cmWs w = true.
Proof. intros W. apply forallb_forall. intros y I. rewrite cmWs_is. unfold is_sp. exact (W y I). Qed.

(* every attempt of a backtracking star fails *)
Lemma star_bt_none p (K : kont) s pos c : (forall b1 b2, s = b1 ++ b2 -> K (pos + length b1) b2 c = MNo) -> star_bt p K pos s c = MNo.
Proof.
  intros H. rewrite star_bt_all_no.
  - pose proof (H [] s eq_refl) as E. cbn [length] in E. rewrite Nat.add_0_r in E. exact E.
  - intros b1 b2 E _. exact (H b1 b2 E).
Qed.

(* ---------- (.+)\s*:\s*$ ---------- *)
Definition KT : regex := RCat (RGroup 1 (RRep 1 None RAny)) TAILC.
Definition PK : regex := RCat plus_sp KT.
Lemma shape_kwc kw : kwc_re kw = RCat RBol (RCat rsp (lits kw PK)). Proof. reflexivity. Qed.

Lemma KT_read q r c : ev UC KT q r c kfin =
  match r with
  | y :: t => if notLF y then star_bt notLF (fun p r' c' => ev UC TAILC p r' (cap_set 1 (q, p) c') kfin) (S q) t c else MNo
  | [] => MNo
  end.
Proof. unfold KT. rewrite ev_cat, ev_group. rewrite (ev_plus UC _ _ (one_any UC)). reflexivity. Qed.

(* one character and then a white rest: the colon is missing *)
Lemma KT_one_white q y u c : white u -> ev UC KT q (y :: u) c kfin = MNo.
Proof.
  intros W. rewrite KT_read. destruct (notLF y); [|reflexivity]. apply star_bt_none. intros b1 b2 E. apply KC_white.
  exact (white_suffix u b1 b2 E W).
Qed.

Lemma KT_white q u c : white u -> ev UC KT q u c kfin = MNo.
Proof.
  intros W. destruct u as [|y t]; [rewrite KT_read; reflexivity|]. apply KT_one_white. exact (white_suffix (y :: t) [y] t eq_refl W).
Qed.

Lemma KT_lf q t c : ev UC KT q (10%N :: t) c kfin = MNo.
Proof. rewrite KT_read. reflexivity. Qed.

(* at every suffix of  <LF>* : w3  the group-and-tail fails *)
Lemma KT_suffix_no w3 : white w3 -> forall lfs, all_lf lfs = true -> forall b1 b2, lfs ++ 58%N :: w3 = b1 ++ b2 ->
  forall q c, ev UC KT q b2 c kfin = MNo.
Proof.
  intros W3. induction lfs as [|l lfs IH]; intros LF b1 b2 E q c.
  - cbn [app] in E. destruct b1 as [|z b1']; cbn [app] in E.
    + subst b2. apply KT_one_white. exact W3.
    + inversion E; subst. apply KT_white. exact (white_suffix _ b1' b2 eq_refl W3).
  - cbn [all_lf forallb] in LF. apply andb_true_iff in LF. destruct LF as [L1 LF]. unfold isLF in L1. apply N.eqb_eq in L1. subst l.
    cbn [app] in E. destruct b1 as [|z b1']; cbn [app] in E.
    + subst b2. apply KT_lf.
    + inversion E as [[E1 E2]]. exact (IH LF b1' b2 E2 q c).
Qed.

Lemma TAILC_run_colon p w w3 c : white w -> white w3 -> ev UC TAILC p (w ++ 58%N :: w3) c kfin = MYes (p + length w + 1 + length w3) c.
Proof.
  intros W W3. unfold TAILC. rewrite (rsp_lit_read 58 w w3 _ p c kfin sp58 W). rewrite ev_eol_tail, (white_forallb_sp w3 W3). f_equal. lia.
Qed.

Lemma KT_yes q x lfs w3 c : notLF x = true -> all_lf lfs = true -> white w3 ->
  ev UC KT q (x :: lfs ++ 58%N :: w3) c kfin = MYes (S q + length lfs + 1 + length w3) (cap_set 1 (q, S q) c).
Proof.
  intros X LF W3. rewrite KT_read, X.
  set (K' := fun (p : nat) (r' : str) (c' : caps) => ev UC TAILC p r' (cap_set 1 (q, p) c') kfin).
  assert (EQ : star_bt notLF K' (S q) (lfs ++ 58%N :: w3) c = K' (S q) (lfs ++ 58%N :: w3) c).
  { destruct lfs as [|l lfs']; cbn [app star_bt].
    - change (notLF 58) with true. cbv iota. rewrite star_bt_none; [reflexivity|].
      intros b1 b2 E. subst K'. cbv beta. apply KC_white. exact (white_suffix w3 b1 b2 E W3).
    - cbn [all_lf forallb] in LF. apply andb_true_iff in LF. destruct LF as [L1 _]. unfold isLF in L1. apply N.eqb_eq in L1. subst l.
      reflexivity. }
  rewrite EQ. subst K'. cbv beta. exact (TAILC_run_colon (S q) lfs w3 _ (all_lf_white lfs LF) W3).
Qed.

(* \s+(.+)\s*:\s*$  on  w2 : w3 *)
Lemma PK_no p w2 w3 c : white w2 -> white w3 -> all_lf (tl w2) = true -> ev UC PK p (w2 ++ 58%N :: w3) c kfin = MNo.
Proof.
  intros W2 W3 LF. unfold PK. rewrite ev_cat. unfold plus_sp. rewrite (ev_plus UC _ _ (one_in UC false _)). fold cmWs.
  destruct w2 as [|z2 lfs]; cbn [app tl] in *.
  - rewrite cmWs_is. unfold is_sp. rewrite sp58. reflexivity.
  - destruct (white_cons _ _ W2) as [S2 _]. rewrite cmWs_is. unfold is_sp. rewrite S2.
    apply star_bt_none. intros b1 b2 E. exact (KT_suffix_no w3 W3 lfs LF b1 b2 E _ c).
Qed.

Lemma PK_yes p a x lfs w3 c : white a -> a <> [] -> is_sp x = true -> x <> 10%N -> all_lf lfs = true -> white w3 ->
  ev UC PK p (a ++ x :: lfs ++ 58%N :: w3) c kfin
  = MYes (p + length a + 1 + length lfs + 1 + length w3) (cap_set 1 (p + length a, p + length a + 1) c).
Proof.
  intros WA NA SX NX LF W3. unfold PK. rewrite ev_cat. unfold plus_sp. rewrite (ev_plus UC _ _ (one_in UC false _)). fold cmWs.
  destruct a as [|z2 a']; [congruence|]. cbn [app]. destruct (white_cons _ _ WA) as [S2 WA']. rewrite cmWs_is. unfold is_sp at 1. rewrite S2.
  assert (X : notLF x = true) by (unfold notLF; apply negb_true_iff; apply N.eqb_neq; exact NX).
  pose proof (KT_yes (S p + length a') x lfs w3 c X LF W3) as V.
  rewrite star_bt_back.
  - rewrite V. cbn [length]. f_equal; [lia | f_equal; f_equal; lia].
  - exact (white_forallb_cmWs a' WA').
  - rewrite V. discriminate.
  - intros b1 b2 E NE. destruct b1 as [|z b1']; [congruence|]. cbn [app] in E. inversion E as [[E1 E2]].
    exact (KT_suffix_no w3 W3 lfs LF b1' b2 E2 _ c).
Qed.

(* ---------- the keyword regex on  w1 KW w2 : w3 ---------- *)
Lemma rxm_kwc_read k0 kw w1 r : is_sp k0 = false -> white w1 ->
  rxm (kwc_re (k0 :: kw)) (w1 ++ (k0 :: kw) ++ r) = ev UC PK (length w1 + length (k0 :: kw)) r [] kfin.
Proof.
  intros K0 W1. unfold rxm. rewrite re_match_ev, shape_kwc, ev_cat, ev_bol. cbn [Nat.eqb]. rewrite ev_cat.
  unfold rsp at 1. rewrite (ev_star UC _ _ (one_in UC false _)). fold cmWs.
  rewrite star_bt_longest.
  2:{ right. intros q z t c Sz. rewrite cmWs_is in Sz. apply lits_refuse. intros ->. congruence. }
  rewrite span_cmWs. rewrite (span_sp_stop' w1 _ W1) by (cbn [app hd_ok]; exact K0). cbn [fst snd].
  rewrite ev_lits. reflexivity.
Qed.

Lemma rxm_kwc_colon_no k0 kw w1 w2 w3 : is_sp k0 = false -> white w1 -> white w2 -> white w3 -> all_lf (tl w2) = true ->
  rxm (kwc_re (k0 :: kw)) (w1 ++ (k0 :: kw) ++ w2 ++ 58%N :: w3) = MNo.
Proof. intros K0 W1 W2 W3 LF. rewrite (rxm_kwc_read k0 kw w1 _ K0 W1). exact (PK_no _ w2 w3 [] W2 W3 LF). Qed.

Lemma rxm_kwc_colon_yes k0 kw w1 a x lfs w3 : is_sp k0 = false -> white w1 -> white a -> a <> [] -> is_sp x = true -> x <> 10%N ->
  all_lf lfs = true -> white w3 ->
  rxm (kwc_re (k0 :: kw)) (w1 ++ (k0 :: kw) ++ (a ++ x :: lfs) ++ 58%N :: w3)
  = MYes (length w1 + length (k0 :: kw) + length a + 1 + length lfs + 1 + length w3)
         (cap_set 1 (length w1 + length (k0 :: kw) + length a, length w1 + length (k0 :: kw) + length a + 1) []).
Proof.
  intros K0 W1 WA NA SX NX LF W3. rewrite (rxm_kwc_read k0 kw w1 _ K0 W1). rewrite <- app_assoc. cbn [app].
  exact (PK_yes _ a x lfs w3 [] WA NA SX NX LF W3).
Qed.

(* ====================================================== label with an arbitrary name, the three keyword regexes given *)
Lemma classify_label_gen n name w2 w3 : white w2 -> white w3 -> ident name = true -> name <> KW_ELSE ->
  rxm R_SCRIPT_IF_BEGIN (name ++ w2 ++ 58%N :: w3) = MNo -> rxm R_SCRIPT_IF_ELSE_IF (name ++ w2 ++ 58%N :: w3) = MNo ->
  rxm R_SCRIPT_WHILE_BEGIN (name ++ w2 ++ 58%N :: w3) = MNo ->
  classify n (name ++ w2 ++ 58%N :: w3) = ROk (KLabel name).
Proof.
  intros W2 W3 ID NE E2 E3 E6.
  destruct name as [|y nm]; [discriminate|]. cbn [ident] in ID. apply andb_true_iff in ID. destruct ID as [Y NM].
  assert (Ysp : is_sp y = false) by exact (idstart_sp y Y).
  assert (NMW : forallb is_word_u (y :: nm) = true) by (cbn [forallb]; rewrite (idstart_word y Y), NM; reflexivity).
  assert (HR : hd_ok is_word_u (w2 ++ 58%N :: w3)).
  { destruct w2 as [|z w2']; cbn [app hd_ok]; [exact word58|]. destruct (white_cons _ _ W2) as [S _]. exact (space_not_word z S). }
  set (line := (y :: nm) ++ w2 ++ 58%N :: w3) in *.
  assert (EA : rxm R_SCRIPT_ASSIGNMENT line = MNo).
  { pose proof (rxm_assign_read [] y nm w2 (58%N :: w3) white_nil Y NM W2 HR sp58) as H. cbn [app] in H. subst line. cbn [app].
    rewrite H. rewrite kA_read. reflexivity. }
  assert (N40 : ~ In 40%N line).
  { subst line. intros I. apply in_app_or in I. destruct I as [I|I].
    - rewrite forallb_forall in NMW. specialize (NMW _ I). rewrite word40 in NMW. discriminate.
    - apply in_app_or in I. destruct I as [I|[I|I]]; [| discriminate I |].
      + pose proof (W2 _ I) as S. rewrite sp40 in S. discriminate.
      + pose proof (W3 _ I) as S. rewrite sp40 in S. discriminate. }
  assert (EB : rxm R_SCRIPT_FUNCTION_BEGIN line = MNo).
  { unfold rxm. apply (re_match_req_missing UC line R_SCRIPT_FUNCTION_BEGIN 40%N); [vm_compute; tauto | exact N40]. }
  destruct (kwonly_colon ((y :: nm) ++ w2) w3) as (E1 & E5 & E7 & E9 & E10 & E11).
  rewrite <- app_assoc in E1, E5, E7, E9, E10, E11. fold line in E1, E5, E7, E9, E10, E11.
  assert (E4 : rxm R_SCRIPT_IF_ELSE line = MNo).
  { rewrite shape_else. subst line. cbn [app]. rewrite rxm_kw_start by exact Ysp.
    exact (lits_name_refuse KW_ELSE _ eq_refl TAILC_refuses_word (y :: nm) _ 0 [] kfin NMW HR NE). }
  assert (E8 : rxm R_SCRIPT_FOR_BEGIN line = MNo).
  { rewrite shape_for. subst line. cbn [app]. rewrite rxm_kw_start by exact Ysp.
    destruct (list_eq_dec N.eq_dec (y :: nm) KW_FOR) as [E|NF].
    - change (y :: nm ++ w2 ++ 58%N :: w3) with ((y :: nm) ++ w2 ++ 58%N :: w3). rewrite E. rewrite ev_lits.
      apply for_colon_nomatch. exact W2.
    - exact (lits_name_refuse KW_FOR _ eq_refl (plus_sp_refuses_word _) (y :: nm) _ 0 [] kfin NMW HR NF). }
  assert (EL : rxm R_SCRIPT_LABEL line
               = MYes (length (@nil N) + 1 + length nm + length w2 + 1 + length w3) (cap_set 1 (0, 0 + 1 + length nm) [])).
  { exact (rxm_label_shape [] y nm w2 w3 white_nil Y NM W2 W3). }
  assert (G1 : gtext line (cap_set 1 (0, 0 + 1 + length nm) []) R_SCRIPT_LABEL__name = y :: nm).
  { unfold gtext, group_text. change R_SCRIPT_LABEL__name with 1. cbn [cap_get cap_set Nat.eqb].
    replace (0 + 1 + length nm - 0) with (length (y :: nm)) by (cbn [length]; lia).
    subst line. exact (sub_list_at [] (y :: nm) (w2 ++ 58%N :: w3)). }
  unfold classify. rewrite EA, EB, E1, E2, E3, E4, E5, E6, E7, E8, E9, E10, E11, EL, G1. reflexivity.
Qed.

(* a keyword regex on a line that starts with ANOTHER word *)
Lemma rxm_kwc_other kw name rest : forallb is_word_u kw = true -> ident name = true -> hd_ok is_word_u rest -> name <> kw ->
  rxm (kwc_re kw) (name ++ rest) = MNo.
Proof.
  intros KW ID HR NE. destruct name as [|y nm]; [discriminate|]. cbn [ident] in ID. apply andb_true_iff in ID. destruct ID as [Y NM].
  assert (NMW : forallb is_word_u (y :: nm) = true) by (cbn [forallb]; rewrite (idstart_word y Y), NM; reflexivity).
  unfold kwc_re. cbn [app]. rewrite rxm_kw_start by exact (idstart_sp y Y).
  exact (lits_name_refuse kw _ KW (plus_sp_refuses_word _) (y :: nm) rest 0 [] kfin NMW HR NE).
Qed.

Definition kw_names : list str := [KW_IF; KW_ELIF; KW_WHILE].

Lemma colon_hd_word w2 w3 : white w2 -> hd_ok is_word_u (w2 ++ 58%N :: w3).
Proof.
  intros W2. destruct w2 as [|z w2']; cbn [app hd_ok]; [exact word58|]. destruct (white_cons _ _ W2) as [S _]. exact (space_not_word z S).
Qed.

Theorem classify_label_kw_label n kw w1 w2 w3 : In kw kw_names -> white w1 -> white w2 -> white w3 -> all_lf (tl w2) = true ->
  classify n (w1 ++ kw ++ w2 ++ 58%N :: w3) = ROk (KLabel kw).
Proof.
  intros IK W1 W2 W3 LF. apply classify_indent_all; [exact W1 | reflexivity|].
  pose proof (colon_hd_word w2 w3 W2) as HR.
  assert (SELF : forall k0 k1, kw = k0 :: k1 -> is_sp k0 = false -> rxm (kwc_re kw) (kw ++ w2 ++ 58%N :: w3) = MNo).
  { intros k0 k1 -> K0. exact (rxm_kwc_colon_no k0 k1 [] w2 w3 K0 white_nil W2 W3 LF). }
  unfold kw_names in IK. destruct IK as [<-|[<-|[<-|[]]]].
  - apply classify_label_gen; [exact W2 | exact W3 | reflexivity | discriminate | | |].
    + rewrite shape_if. exact (SELF _ _ eq_refl eq_refl).
    + rewrite shape_elif. apply rxm_kwc_other; [reflexivity | reflexivity | exact HR | discriminate].
    + rewrite shape_while. apply rxm_kwc_other; [reflexivity | reflexivity | exact HR | discriminate].
  - apply classify_label_gen; [exact W2 | exact W3 | reflexivity | discriminate | | |].
    + rewrite shape_if. apply rxm_kwc_other; [reflexivity | reflexivity | exact HR | discriminate].
    + rewrite shape_elif. exact (SELF _ _ eq_refl eq_refl).
    + rewrite shape_while. apply rxm_kwc_other; [reflexivity | reflexivity | exact HR | discriminate].
  - apply classify_label_gen; [exact W2 | exact W3 | reflexivity | discriminate | | |].
    + rewrite shape_if. apply rxm_kwc_other; [reflexivity | reflexivity | exact HR | discriminate].
    + rewrite shape_elif. apply rxm_kwc_other; [reflexivity | reflexivity | exact HR | discriminate].
    + rewrite shape_while. exact (SELF _ _ eq_refl eq_refl).
Qed.

(* ====================================================== the keyword statement with a white expression text *)
Definition SYNTAX_ERROR : str := [83; 121; 110; 116; 97; 120; 32; 101; 114; 114; 111; 114]%N.

Lemma parse_one_white x : is_sp x = true -> parse_expression [x] = EErr SYNTAX_ERROR 1.
Proof.
  intros SX. change [x] with ([] ++ [x]). rewrite (parse_expression_trail [] [x]).
  - vm_compute. reflexivity.
  - intros c [<-|[]]. exact SX.
Qed.

Definition kw_stmt (kw : str) (e : perr) : sres line_kind :=
  if list_eq_dec N.eq_dec kw KW_ELIF then ROk (KElif (RErr e)) else RErr e.

Section KwStmt.
Variables (n : nat) (w1 a : str) (x : N) (lfs w3 : str).
Hypothesis W1 : white w1.
Hypothesis WA : white a.
Hypothesis NA : a <> [].
Hypothesis SX : is_sp x = true.
Hypothesis NX : x <> 10%N.
Hypothesis LF : all_lf lfs = true.
Hypothesis W3 : white w3.

Let run : str := a ++ x :: lfs.
Let Wrun : white run.
Proof.
  subst run. intros c I. apply in_app_or in I. destruct I as [I|[<-|I]]; [exact (WA c I) | exact SX | exact (all_lf_white lfs LF c I)].
Qed.

Lemma kw_line_assign y nm : idstart y = true -> forallb is_word_u nm = true ->
  rxm R_SCRIPT_ASSIGNMENT (w1 ++ (y :: nm) ++ run ++ 58%N :: w3) = MNo.
Proof.
  intros Y NM. destruct run as [|z2 r'] eqn:ER; [subst run; destruct a; discriminate|].
  exact (assign_nomatch_kw w1 y nm z2 r' 58 w3 W1 Y NM Wrun sp58 ltac:(discriminate)).
Qed.

Lemma kw_line_gtext (kw : str) :
  gtext (w1 ++ kw ++ run ++ 58%N :: w3)
        (cap_set 1 (length w1 + length kw + length a, length w1 + length kw + length a + 1) []) 1 = [x].
Proof.
  apply (gtext_at _ _ 1 (length w1 + length kw + length a) (length w1 + length kw + length a + 1) (w1 ++ kw ++ a) [x] (lfs ++ 58%N :: w3)).
  - reflexivity.
  - subst run. repeat rewrite <- app_assoc. reflexivity.
  - repeat rewrite app_length. lia.
  - reflexivity.
Qed.

Lemma kw_line_stmt_expr (kw line : str) :
  stmt_expr [x] line (length w1 + length kw + length a) n = RErr (err SYNTAX_ERROR line (length w1 + length kw + length a + 1) n).
Proof. unfold stmt_expr. rewrite (parse_one_white x SX). reflexivity. Qed.

Theorem classify_kw_if_white :
  classify n (w1 ++ KW_IF ++ run ++ 58%N :: w3)
  = RErr (err SYNTAX_ERROR (w1 ++ KW_IF ++ run ++ 58%N :: w3) (length w1 + length KW_IF + length a + 1) n).
Proof.
  set (line := w1 ++ KW_IF ++ run ++ 58%N :: w3).
  assert (EA : rxm R_SCRIPT_ASSIGNMENT line = MNo) by exact (kw_line_assign 105 [102]%N eq_refl eq_refl).
  assert (EB : rxm R_SCRIPT_FUNCTION_BEGIN line = MNo) by (apply fn_begin_nomatch; [exact W1 | apply rxm_rejects; reflexivity]).
  destruct (kwonly_colon (w1 ++ KW_IF ++ run) w3) as (E1 & _).
  repeat rewrite <- app_assoc in E1. fold line in E1.
  pose proof (rxm_kwc_colon_yes 105 [102]%N w1 a x lfs w3 eq_refl W1 WA NA SX NX LF W3) as EI. rewrite <- shape_if in EI.
  fold run in EI. change (105%N :: [102%N]) with KW_IF in EI. fold line in EI.
  unfold classify. rewrite EA, EB, E1, EI. change R_SCRIPT_IF_BEGIN__expr with 1.
  unfold line at 1. rewrite (kw_line_gtext KW_IF). cbn [gstart cap_get cap_set Nat.eqb].
  rewrite (kw_line_stmt_expr KW_IF line). reflexivity.
Qed.

Theorem classify_kw_elif_white :
  classify n (w1 ++ KW_ELIF ++ run ++ 58%N :: w3)
  = ROk (KElif (RErr (err SYNTAX_ERROR (w1 ++ KW_ELIF ++ run ++ 58%N :: w3) (length w1 + length KW_ELIF + length a + 1) n))).
Proof.
  set (line := w1 ++ KW_ELIF ++ run ++ 58%N :: w3).
  assert (EA : rxm R_SCRIPT_ASSIGNMENT line = MNo) by exact (kw_line_assign 101 [108; 105; 102]%N eq_refl eq_refl).
  assert (EB : rxm R_SCRIPT_FUNCTION_BEGIN line = MNo) by (apply fn_begin_nomatch; [exact W1 | apply rxm_rejects; reflexivity]).
  destruct (kwonly_colon (w1 ++ KW_ELIF ++ run) w3) as (E1 & _).
  repeat rewrite <- app_assoc in E1. fold line in E1.
  assert (E2 : rxm R_SCRIPT_IF_BEGIN line = MNo) by (eapply tok_nomatch; [reflexivity | reflexivity | exact W1 | reflexivity]).
  pose proof (rxm_kwc_colon_yes 101 [108; 105; 102]%N w1 a x lfs w3 eq_refl W1 WA NA SX NX LF W3) as EI. rewrite <- shape_elif in EI.
  fold run in EI. change (101%N :: [108; 105; 102]%N) with KW_ELIF in EI. fold line in EI.
  unfold classify. rewrite EA, EB, E1, E2, EI. change R_SCRIPT_IF_ELSE_IF__expr with 1.
  unfold line at 1. rewrite (kw_line_gtext KW_ELIF). cbn [gstart cap_get cap_set Nat.eqb].
  rewrite (kw_line_stmt_expr KW_ELIF line). reflexivity.
Qed.

Theorem classify_kw_while_white :
  classify n (w1 ++ KW_WHILE ++ run ++ 58%N :: w3)
  = RErr (err SYNTAX_ERROR (w1 ++ KW_WHILE ++ run ++ 58%N :: w3) (length w1 + length KW_WHILE + length a + 1) n).
Proof.
  set (line := w1 ++ KW_WHILE ++ run ++ 58%N :: w3).
  assert (EA : rxm R_SCRIPT_ASSIGNMENT line = MNo) by exact (kw_line_assign 119 [104; 105; 108; 101]%N eq_refl eq_refl).
  assert (EB : rxm R_SCRIPT_FUNCTION_BEGIN line = MNo) by (apply fn_begin_nomatch; [exact W1 | apply rxm_rejects; reflexivity]).
  destruct (kwonly_colon (w1 ++ KW_WHILE ++ run) w3) as (E1 & E5 & _).
  repeat rewrite <- app_assoc in E1, E5. fold line in E1, E5.
  assert (E2 : rxm R_SCRIPT_IF_BEGIN line = MNo) by (eapply tok_nomatch; [reflexivity | reflexivity | exact W1 | reflexivity]).
  assert (E3 : rxm R_SCRIPT_IF_ELSE_IF line = MNo) by (eapply tok_nomatch; [reflexivity | reflexivity | exact W1 | reflexivity]).
  assert (E4 : rxm R_SCRIPT_IF_ELSE line = MNo) by (eapply tok_nomatch; [reflexivity | reflexivity | exact W1 | reflexivity]).
  pose proof (rxm_kwc_colon_yes 119 [104; 105; 108; 101]%N w1 a x lfs w3 eq_refl W1 WA NA SX NX LF W3) as EI. rewrite <- shape_while in EI.
  fold run in EI. change (119%N :: [104; 105; 108; 101]%N) with KW_WHILE in EI. fold line in EI.
  unfold classify. rewrite EA, EB, E1, E2, E3, E4, E5, EI. change R_SCRIPT_WHILE_BEGIN__expr with 1.
  unfold line at 1. rewrite (kw_line_gtext KW_WHILE). cbn [gstart cap_get cap_set Nat.eqb].
  rewrite (kw_line_stmt_expr KW_WHILE line). reflexivity.
Qed.

Theorem classify_kw_white kw : In kw kw_names ->
  classify n (w1 ++ kw ++ (a ++ x :: lfs) ++ 58%N :: w3)
  = kw_stmt kw (err SYNTAX_ERROR (w1 ++ kw ++ (a ++ x :: lfs) ++ 58%N :: w3) (length w1 + length kw + length a + 1) n).
Proof.
  unfold kw_names. intros [<-|[<-|[<-|[]]]]; unfold kw_stmt.
  - destruct (list_eq_dec N.eq_dec KW_IF KW_ELIF) as [E|_]; [discriminate E|]. exact classify_kw_if_white.
  - destruct (list_eq_dec N.eq_dec KW_ELIF KW_ELIF) as [_|E]; [|congruence]. exact classify_kw_elif_white.
  - destruct (list_eq_dec N.eq_dec KW_WHILE KW_ELIF) as [E|_]; [discriminate E|]. exact classify_kw_while_white.
Qed.
End KwStmt.

(* ---------- cutting the run at its last character that is not LF ---------- *)
Lemma last_nonlf : forall t, all_lf t = false -> exists a' x lfs, t = a' ++ x :: lfs /\ x <> 10%N /\ all_lf lfs = true.
Proof.
  induction t as [|y t IH]; intros H; [discriminate|].
  destruct (all_lf t) eqn:T.
  - exists [], y, t. split; [reflexivity|]. split; [|exact T]. intros ->. cbn [all_lf forallb isLF] in H. fold (all_lf t) in H.
    rewrite T in H. discriminate.
  - destruct (IH eq_refl) as (a' & x & lfs & -> & NX & LF). exists (y :: a'), x, lfs. split; [reflexivity | split; assumption].
Qed.

Lemma run_cut w2 : all_lf (tl w2) = false -> exists a x lfs, w2 = a ++ x :: lfs /\ a <> [] /\ x <> 10%N /\ all_lf lfs = true.
Proof.
  destruct w2 as [|z t]; [discriminate|]. cbn [tl]. intros H. destruct (last_nonlf t H) as (a' & x & lfs & -> & NX & LF).
  exists (z :: a'), x, lfs. split; [reflexivity|]. split; [discriminate | split; assumption].
Qed.

(* the cut is the only one: a run  a x <LF>*  with a non-empty has a non-LF character behind its first *)
Lemma cut_not_all_lf a x lfs : a <> [] -> x <> 10%N -> all_lf (tl (a ++ x :: lfs)) = false.
Proof.
  intros NA NX. destruct a as [|z a']; [congruence|]. cbn [app tl]. unfold all_lf. rewrite forallb_app. cbn [forallb].
  assert (E : isLF x = false) by (unfold isLF; apply N.eqb_neq; exact NX). rewrite E. cbn [andb]. apply andb_false_r.
Qed.

Theorem classify_label_kw n kw w1 w2 w3 : In kw kw_names -> white w1 -> white w2 -> white w3 ->
  (all_lf (tl w2) = true -> classify n (w1 ++ kw ++ w2 ++ 58%N :: w3) = ROk (KLabel kw)) /\
  (all_lf (tl w2) = false ->
     exists a x lfs, w2 = a ++ x :: lfs /\ a <> [] /\ x <> 10%N /\ all_lf lfs = true /\
       classify n (w1 ++ kw ++ w2 ++ 58%N :: w3)
       = kw_stmt kw (err SYNTAX_ERROR (w1 ++ kw ++ w2 ++ 58%N :: w3) (length w1 + length kw + length a + 1) n)).
Proof.
  intros IK W1 W2 W3. split; [exact (classify_label_kw_label n kw w1 w2 w3 IK W1 W2 W3)|].
  intros H. destruct (run_cut w2 H) as (a & x & lfs & E & NA & NX & LF). exists a, x, lfs.
  split; [exact E|]. split; [exact NA|]. split; [exact NX|]. split; [exact LF|]. subst w2.
  assert (WA : white a) by exact (white_prefix _ a (x :: lfs) eq_refl W2).
  assert (SX : is_sp x = true) by (apply W2; apply in_or_app; right; left; reflexivity).
  exact (classify_kw_white n w1 a x lfs w3 W1 WA NA SX NX LF W3 kw IK).
Qed.

Lemma kw_stmt_not_label kw e k : In kw kw_names -> kw_stmt kw e <> ROk (KLabel k).
Proof. intros _. unfold kw_stmt. destruct (list_eq_dec N.eq_dec kw KW_ELIF); discriminate. Qed.

Theorem classify_label_kw_iff n kw w1 w2 w3 : In kw kw_names -> white w1 -> white w2 -> white w3 ->
  (classify n (w1 ++ kw ++ w2 ++ 58%N :: w3) = ROk (KLabel kw) <-> all_lf (tl w2) = true).
Proof.
  intros IK W1 W2 W3. destruct (classify_label_kw n kw w1 w2 w3 IK W1 W2 W3) as [L S]. split; [|exact L].
  intros C. destruct (all_lf (tl w2)) eqn:T; [reflexivity|]. destruct (S eq_refl) as (a & x & lfs & _ & _ & _ & _ & E).
  rewrite E in C. exfalso. exact (kw_stmt_not_label kw _ kw IK C).
Qed.

(* an LF-free run: label iff at most one character *)
Lemma all_lf_nolf t : nolf t -> (all_lf t = true <-> t = []).
Proof.
  intros NL. split; [|intros ->; reflexivity]. destruct t as [|y t']; [reflexivity|]. intros H.
  unfold nolf in NL. cbn [forallb all_lf] in *. apply andb_true_iff in NL. apply andb_true_iff in H.
  destruct NL as [N1 _]. destruct H as [H1 _]. unfold notLF in N1. unfold isLF in H1. rewrite H1 in N1. discriminate.
Qed.

Theorem classify_label_kw_nolf n kw w1 w2 w3 : In kw kw_names -> white w1 -> white w2 -> white w3 -> nolf w2 ->
  (classify n (w1 ++ kw ++ w2 ++ 58%N :: w3) = ROk (KLabel kw) <-> length w2 <= 1).
Proof.
  intros IK W1 W2 W3 NL. rewrite (classify_label_kw_iff n kw w1 w2 w3 IK W1 W2 W3).
  assert (NT : nolf (tl w2)) by (destruct w2 as [|z t]; [reflexivity | exact (nolf_tl z t NL)]).
  rewrite (all_lf_nolf (tl w2) NT). destruct w2 as [|z [|z' t]]; cbn [tl length]; split; intros H; try reflexivity; try lia; try discriminate.
Qed.

(* non-vacuity, computed: both sides of the criterion for each keyword, LF in the run *)
Lemma label_kw_names_examples :
  classify 7 (U "if :") = ROk (KLabel (U "if")) /\ classify 7 (U " elif\000009: ") = ROk (KLabel (U "elif")) /\
  classify 7 (U "while \00000a\00000a:") = ROk (KLabel (U "while")) /\
  classify 7 (U " if  :") = kw_stmt KW_IF (err SYNTAX_ERROR (U " if  :") 5 7) /\
  classify 7 (U "elif \000009\00000a: ") = ROk (KElif (RErr (err SYNTAX_ERROR (U "elif \000009\00000a: ") 6 7))) /\
  classify 7 (U "while\00000a :") = RErr (err SYNTAX_ERROR (U "while\00000a :") 7 7) /\
  all_lf (tl (U " \00000a\00000a")) = true /\ all_lf (tl (U "\00000a ")) = false.
Proof. repeat split; vm_compute; reflexivity. Qed.
