(* Proofs/C15strb.v — C15, strings: more about what the list specifications of Proofs/C15spec2.v MEAN (independent of the model):
   last_occ is the greatest occurrence, the pieces of split_on join back to the string. *)
From Coq Require Import Lia.
From BS Require Import Model.Base Model.Num Model.LibVal Model.LibSeq Proofs.BaseFacts Proofs.C15 Proofs.C15spec Proofs.C15spec2
  Proofs.C15str.
Local Open Scope nat_scope.

Lemma find_rev_seq : forall (P : nat -> bool) u,
  match find P (rev (seq 0 (S u))) with
  | Some i => i <= u /\ P i = true /\ forall j, i < j <= u -> P j = false
  | None => forall j, j <= u -> P j = false
  end.
Proof.
  intros P. induction u as [|u IH].
  - simpl. destruct (P 0) eqn:E.
    + repeat split; auto. intros; lia.
    + intros j Hj. replace j with 0 by lia. exact E.
  - rewrite seq_S, rev_app_distr. cbn [rev app find Nat.add]. destruct (P (S u)) eqn:E.
    + repeat split; auto. intros; lia.
    + destruct (find P (rev (seq 0 (S u)))) as [i|].
      * destruct IH as (L & Pi & F). repeat split; auto. intros j Hj. destruct (Nat.eq_dec j (S u)) as [->|N]; [exact E | apply F; lia].
      * intros j Hj. destruct (Nat.eq_dec j (S u)) as [->|N]; [exact E | apply IH; lia].
Qed.

Theorem last_occ_greatest : forall sub s upto,
  match last_occ sub s upto with
  | Some i => i <= upto /\ i <= length s /\ (exists t, skipn i s = sub ++ t)
              /\ forall j, i < j <= upto -> j <= length s -> ~ exists t, skipn j s = sub ++ t
  | None => forall j, j <= upto -> j <= length s -> ~ exists t, skipn j s = sub ++ t
  end.
Proof.
  intros sub s upto. unfold last_occ. pose proof (find_rev_seq (occurs_at sub s) upto) as H.
  destruct (find (occurs_at sub s) (rev (seq 0 (S upto)))) as [i|].
  - destruct H as (L & Pi & F). unfold occurs_at in Pi. apply andb_true_iff in Pi. destruct Pi as [Li Pi].
    apply Nat.leb_le in Li. apply starts_with_iff in Pi. repeat split; auto.
    intros j Hj Lj X. specialize (F j Hj). unfold occurs_at in F. apply starts_with_iff in X. rewrite X, andb_true_r in F.
    apply Nat.leb_gt in F. lia.
  - intros j Hj Lj X. specialize (H j Hj). unfold occurs_at in H. apply starts_with_iff in X. rewrite X, andb_true_r in H.
    apply Nat.leb_gt in H. lia.
Qed.

Theorem split_on_join : forall sep s, sep <> [] -> join_with sep (split_on sep s) = s.
Proof. intros sep s NE. rewrite <- (py_split_spec s sep NE). apply split_join. exact NE. Qed.

(* replacing with the separator itself changes nothing; replacing in a string without any occurrence changes nothing *)
Theorem replace_all_same : forall s old, old <> [] -> replace_all s old old = s.
Proof. intros s old NE. unfold replace_all. destruct old as [|x o]; [congruence|]. apply split_on_join. discriminate. Qed.
Theorem replace_all_absent : forall s old new, old <> [] -> first_occ old s 0 = None -> replace_all s old new = s.
Proof.
  intros s old new NE H. unfold replace_all. destruct old as [|x o]; [congruence|]. unfold split_on.
  destruct (length s) eqn:L; simpl; [reflexivity|]. rewrite H. reflexivity.
Qed.
