(* Proofs/C15histe.v — C15 history, part 5: well-formed abstract states stay well-formed and never get stuck.
   Everything here is about the ABSTRACT machine (Proofs/C15spec.v); the model inherits it through the
   commuting square (Proofs/C15histf.v). *)
From Coq Require Import Lia.
From BS Require Import Model.Base Model.Num Model.LibVal Model.LibSeq Proofs.BaseFacts Proofs.C15spec.
Local Open Scope Z_scope.

Definition aval_ok (m : astate) (v : value) : bool :=
  match v with
  | VArr l => match alookup m l with Some (ASeq _) => true | _ => false end
  | VObj l => match alookup m l with Some (AMap _) => true | _ => false end
  | _ => true
  end.
Definition acell_ok (m : astate) (c : acell) : bool :=
  match c with ASeq xs => forallb (aval_ok m) xs | AMap kv => forallb (fun p => aval_ok m (snd p)) kv end.
Definition awf (m : astate) : bool := forallb (fun p => (fst p <? length m)%nat && acell_ok m (snd p)) m.
Definition akind (c : acell) : bool := match c with ASeq _ => true | AMap _ => false end.
(* references only grow, and keep their kind *)
Definition aext (m m' : astate) : Prop :=
  forall l c, alookup m l = Some c -> exists c', alookup m' l = Some c' /\ akind c' = akind c.

Lemma aext_refl : forall m, aext m m.
Proof. intros m l c H. eauto. Qed.
Lemma aext_trans : forall a b c, aext a b -> aext b c -> aext a c.
Proof. intros a b c H1 H2 l x H. destruct (H1 _ _ H) as (y & Hy & K1). destruct (H2 _ _ Hy) as (z & Hz & K2). exists z. split; congruence. Qed.

Lemma aval_ok_ext : forall m m' v, aext m m' -> aval_ok m v = true -> aval_ok m' v = true.
Proof.
  intros m m' v X H. destruct v; simpl in *; auto; destruct (alookup m l) as [c|] eqn:E; try discriminate;
    destruct (X _ _ E) as (c' & -> & K); destruct c, c'; simpl in K; congruence.
Qed.
Lemma acell_ok_ext : forall m m' c, aext m m' -> acell_ok m c = true -> acell_ok m' c = true.
Proof.
  intros m m' c X H. destruct c; simpl in *; rewrite forallb_forall in *; intros x I; eapply aval_ok_ext; eauto.
Qed.

(* ---- finite-map facts *)
Lemma alookup_In : forall m l c, alookup m l = Some c -> In (l, c) m.
Proof.
  induction m as [|[k c0] m IH]; intros l c H; simpl in *; [discriminate|].
  destruct (Nat.eqb_spec l k); [inversion H; subst; auto | auto].
Qed.
Lemma alookup_aupdate_same : forall m l c c0, alookup m l = Some c0 -> alookup (aupdate m l c) l = Some c.
Proof.
  induction m as [|[k x] m IH]; intros l c c0 H; simpl in *; [discriminate|].
  destruct (Nat.eqb_spec l k); simpl.
  - subst. rewrite Nat.eqb_refl. reflexivity.
  - destruct (Nat.eqb_spec l k); [contradiction|]. eauto.
Qed.
Lemma alookup_aupdate_other : forall m l l' c, l' <> l -> alookup (aupdate m l c) l' = alookup m l'.
Proof.
  induction m as [|[k x] m IH]; intros l l' c N; simpl; [reflexivity|].
  destruct (Nat.eqb_spec l k); simpl.
  - subst. destruct (Nat.eqb_spec l' k); [contradiction|reflexivity].
  - destruct (Nat.eqb_spec l' k); auto.
Qed.
Lemma aupdate_length : forall m l c, length (aupdate m l c) = length m.
Proof. induction m as [|[k x] m IH]; intros; simpl; [reflexivity|]. destruct (l =? k)%nat; simpl; auto. Qed.
Lemma In_aupdate : forall m l c p, In p (aupdate m l c) -> In p m \/ p = (l, c).
Proof.
  induction m as [|[k x] m IH]; intros l c p H; simpl in *; [tauto|].
  destruct (Nat.eqb_spec l k); simpl in H.
  - subst. destruct H; auto.
  - destruct H; auto. apply IH in H. tauto.
Qed.
Lemma alookup_app_old : forall m t l c, alookup m l = Some c -> alookup (m ++ t) l = Some c.
Proof. induction m as [|[k x] m IH]; intros t l c H; simpl in *; [discriminate|]. destruct (l =? k)%nat; auto. Qed.
Lemma alookup_none_app : forall m k c, alookup m k = None -> alookup (m ++ [(k, c)]) k = Some c.
Proof.
  induction m as [|[k0 x] m IH]; intros k c H; simpl in *; [rewrite Nat.eqb_refl; reflexivity|].
  destruct (k =? k0)%nat; [discriminate|auto].
Qed.
Lemma alookup_not_key : forall m l, (forall p, In p m -> (fst p < l)%nat) -> alookup m l = None.
Proof.
  induction m as [|[k x] m IH]; intros l H; simpl; [reflexivity|].
  destruct (Nat.eqb_spec l k).
  - subst. specialize (H (k, x) (or_introl eq_refl)). simpl in H. lia.
  - apply IH. intros p I. apply H. right. exact I.
Qed.

Lemma awf_In : forall m p, awf m = true -> In p m -> (fst p < length m)%nat /\ acell_ok m (snd p) = true.
Proof.
  unfold awf. intros m p W I. rewrite forallb_forall in W. apply W in I. apply andb_true_iff in I.
  destruct I as [L C]. apply Nat.ltb_lt in L. auto.
Qed.
Lemma awf_cell : forall m l c, awf m = true -> alookup m l = Some c -> acell_ok m c = true.
Proof. intros m l c W H. apply alookup_In in H. apply (awf_In _ _ W) in H. tauto. Qed.
Lemma awf_fresh : forall m, awf m = true -> alookup m (length m) = None.
Proof. intros m W. apply alookup_not_key. intros p I. apply (awf_In _ _ W) in I. tauto. Qed.

(* ---- the three things an operation can do to a well-formed state *)
Inductive outcome (m : astate) (r : sres) (m' : astate) : Prop :=
| O_same : m' = m -> aval_ok m (sres_value r) = true -> outcome m r m'
| O_upd : forall l c0 c, m' = aupdate m l c -> alookup m l = Some c0 -> akind c = akind c0 ->
    acell_ok m c = true -> aval_ok m (sres_value r) = true -> outcome m r m'
| O_new : forall c, m' = m ++ [(length m, c)] -> acell_ok m c = true ->
    sres_value r = (if akind c then VArr (length m) else VObj (length m)) -> outcome m r m'.

Lemma outcome_sound : forall m r m', awf m = true -> outcome m r m' ->
  awf m' = true /\ aext m m' /\ aval_ok m' (sres_value r) = true /\ (length m <= length m')%nat.
Proof.
  intros m r m' W [-> V | l c0 c -> L K C V | c -> C R].
  - auto using aext_refl.
  - assert (X : aext m (aupdate m l c)).
    { intros l' c' H. destruct (Nat.eq_dec l' l) as [->|N].
      - exists c. split; [eapply alookup_aupdate_same; eauto | congruence].
      - exists c'. split; [rewrite alookup_aupdate_other by exact N; exact H | reflexivity]. }
    split; [|split; [exact X | split; [eapply aval_ok_ext; eauto | rewrite aupdate_length; lia]]].
    unfold awf. rewrite forallb_forall. intros p I. rewrite aupdate_length. apply In_aupdate in I.
    apply andb_true_iff. destruct I as [I| ->].
    + destruct (awf_In _ _ W I) as [Lt Ok]. split; [apply Nat.ltb_lt; exact Lt | eapply acell_ok_ext; eauto].
    + simpl. split; [|eapply acell_ok_ext; eauto]. apply alookup_In in L. apply (awf_In _ _ W) in L. apply Nat.ltb_lt. tauto.
  - assert (X : aext m (m ++ [(length m, c)])).
    { intros l' c' H. exists c'. split; [apply alookup_app_old; exact H | reflexivity]. }
    split; [|split; [exact X | split; [|rewrite app_length; simpl; lia]]].
    + unfold awf. rewrite forallb_forall. intros p I. rewrite app_length. simpl length. apply in_app_or in I.
      apply andb_true_iff. destruct I as [I|[<-|[]]].
      * destruct (awf_In _ _ W I) as [Lt Ok]. split; [apply Nat.ltb_lt; unfold loc in *; lia | eapply acell_ok_ext; eauto].
      * simpl. split; [apply Nat.ltb_lt; unfold loc in *; lia | eapply acell_ok_ext; eauto].
    + rewrite R. pose proof (alookup_none_app m (length m) c (awf_fresh m W)) as F.
      unfold loc in *. destruct c; simpl; rewrite F; reflexivity.
Qed.

(* ---- closure of "all values are well-formed references" under the list / map operations the spec uses *)
Definition all_ok (m : astate) (xs : list value) : Prop := forall x, In x xs -> aval_ok m x = true.
Definition all_okv (m : astate) (kv : list (str * value)) : Prop := forall p, In p kv -> aval_ok m (snd p) = true.
Lemma all_ok_b : forall m xs, forallb (aval_ok m) xs = true <-> all_ok m xs.
Proof. intros. apply forallb_forall. Qed.
Lemma all_okv_b : forall m kv, forallb (fun p => aval_ok m (snd p)) kv = true <-> all_okv m kv.
Proof. intros. apply forallb_forall. Qed.

Lemma In_set_nth : forall {A} (xs : list A) i v x, In x (set_nth xs i v) -> x = v \/ In x xs.
Proof. induction xs as [|y xs IH]; intros [|i] v x H; simpl in *; try tauto; destruct H; auto; apply IH in H; tauto. Qed.
Lemma In_remove_nth : forall {A} (xs : list A) i x, In x (remove_nth xs i) -> In x xs.
Proof. induction xs as [|y xs IH]; intros [|i] x H; simpl in *; try tauto. destruct H; eauto. Qed.
Lemma In_firstn' : forall {A} n (xs : list A) x, In x (firstn n xs) -> In x xs.
Proof. induction n; intros [|y xs] x H; simpl in *; try tauto. destruct H; eauto. Qed.
Lemma In_skipn' : forall {A} n (xs : list A) x, In x (skipn n xs) -> In x xs.
Proof. induction n; intros [|y xs] x H; simpl in *; try tauto. eauto. Qed.
Lemma In_dict_set : forall kv k v p, In p (dict_set kv k v) -> snd p = v \/ In p kv.
Proof.
  induction kv as [|[k0 v0] kv IH]; intros k v p H; simpl in *.
  - destruct H as [<-|[]]; auto.
  - destruct (str_eqb k k0); simpl in H; destruct H as [<-|H]; auto. apply IH in H. tauto.
Qed.
Lemma In_dict_del : forall kv k p, In p (dict_del kv k) -> In p kv.
Proof.
  induction kv as [|[k0 v0] kv IH]; intros k p H; simpl in *; [tauto|].
  destruct (str_eqb k k0); simpl in H; auto. destruct H; eauto.
Qed.
Lemma all_okv_dict_set : forall m kv k v, all_okv m kv -> aval_ok m v = true -> all_okv m (dict_set kv k v).
Proof. intros m kv k v H V p I. apply In_dict_set in I. destruct I as [->|I]; auto. Qed.
Lemma all_okv_dict_update : forall m kv2 kv, all_okv m kv -> all_okv m kv2 -> all_okv m (dict_update kv kv2).
Proof.
  unfold dict_update. induction kv2 as [|[k v] kv2 IH]; intros kv H H2; simpl; [exact H|].
  apply IH.
  - apply all_okv_dict_set; [exact H|]. apply (H2 (k, v)). left. reflexivity.
  - intros p I. apply H2. right. exact I.
Qed.
Lemma all_okv_kv_of_args : forall m args acc kv, all_ok m args -> all_okv m acc -> kv_of_args args acc = Some kv -> all_okv m kv.
Proof.
  intros m args. remember (length args) as n eqn:L. revert args L.
  induction n as [n IH] using lt_wf_ind. intros args L acc kv A C H.
  destruct args as [|x t]; simpl in H; [inversion H; subst; exact C|].
  destruct x; try discriminate. destruct t as [|v t'].
  - inversion H; subst. apply all_okv_dict_set; auto.
  - eapply (IH (length t')); [simpl in L; lia | reflexivity | | | exact H].
    + intros y I. apply A. right. right. exact I.
    + apply all_okv_dict_set; [exact C|]. apply A. right. left. reflexivity.
Qed.

Lemma seq_ok : forall m l, aval_ok m (VArr l) = true -> exists xs, alookup m l = Some (ASeq xs).
Proof. intros m l H. simpl in H. destruct (alookup m l) as [[xs|kv]|]; try discriminate. eauto. Qed.
Lemma map_ok : forall m l, aval_ok m (VObj l) = true -> exists kv, alookup m l = Some (AMap kv).
Proof. intros m l H. simpl in H. destruct (alookup m l) as [[xs|kv]|]; try discriminate. eauto. Qed.

(* ====================================================================== every operation of OPS, on a well-formed state with
   well-formed arguments: defined (never stuck), and one of the three outcomes *)
Definition sp_good (g : spfun) : Prop := forall args m, awf m = true -> forallb (aval_ok m) args = true ->
  exists r m', g args m = Some (r, m') /\ outcome m r m'.

Ltac case_args := repeat match goal with |- context [match ?x with _ => _ end] => is_var x; destruct x end.
Ltac split_A A := cbn [forallb] in A; repeat (let H := fresh "V" in apply andb_true_iff in A; destruct A as [H A]).
Ltac t_fail := do 2 eexists; split; [reflexivity | apply O_same; reflexivity].
Ltac ok_auto := first [assumption | reflexivity].
Ltac use_seq W := match goal with
  | H : aval_ok ?m (VArr ?l) = true |- context [with_seq ?m ?l _] =>
      let xs := fresh "xs" in let E := fresh "E" in let C := fresh "C" in
      destruct (seq_ok _ _ H) as (xs & E); unfold with_seq at 1; rewrite E;
      pose proof (awf_cell _ _ _ W E) as C; cbn [acell_ok] in C
  end.
Ltac use_map W := match goal with
  | H : aval_ok ?m (VObj ?l) = true |- context [with_map ?m ?l _] =>
      let kv := fresh "kv" in let E := fresh "E" in let C := fresh "C" in
      destruct (map_ok _ _ H) as (kv & E); unfold with_map at 1; rewrite E;
      pose proof (awf_cell _ _ _ W E) as C; cbn [acell_ok] in C
  end.
Ltac fin_new := unfold alloc_ret, aalloc; do 2 eexists; split; [reflexivity | eapply O_new; [reflexivity | cbn [acell_ok] | reflexivity]].
Ltac fin_upd E := do 2 eexists; split; [reflexivity | eapply O_upd; [reflexivity | exact E | reflexivity | cbn [acell_ok] | cbn [sres_value]; try ok_auto]].
Ltac fin_same := do 2 eexists; split; [reflexivity | apply O_same; [reflexivity | cbn [sres_value]; try ok_auto]].

Lemma good_arrayNew : sp_good sp_arrayNew.
Proof. intros args m W A. unfold sp_arrayNew. fin_new. exact A. Qed.

Lemma good_arrayNewSize : sp_good sp_arrayNewSize.
Proof.
  intros args m W A. unfold sp_arrayNewSize. case_args; try t_fail; split_A A.
  all: destruct (arg_index _); [|t_fail]; fin_new.
  all: apply all_ok_b; intros x I; apply repeat_spec in I; subst x; ok_auto.
Qed.

Lemma good_arrayCopy : sp_good sp_arrayCopy.
Proof. intros args m W A. unfold sp_arrayCopy. case_args; try t_fail. split_A A. use_seq W. fin_new. exact C. Qed.

Lemma good_arrayLength : sp_good sp_arrayLength.
Proof. intros args m W A. unfold sp_arrayLength. case_args; try t_fail. split_A A. use_seq W. fin_same. Qed.

Lemma good_arrayGet : sp_good sp_arrayGet.
Proof.
  intros args m W A. unfold sp_arrayGet. case_args; try t_fail. split_A A.
  destruct (arg_index _); [|t_fail]. use_seq W. destruct (nth_error xs _) eqn:N; [|t_fail]. fin_same.
  apply nth_error_In in N. apply all_ok_b in C. auto.
Qed.

Lemma good_arraySet : sp_good sp_arraySet.
Proof.
  intros args m W A. unfold sp_arraySet, sp_arraySet_at. case_args; try t_fail; split_A A.
  all: destruct (arg_index _); [|t_fail]; use_seq W; destruct (_ <? _); [|t_fail]; fin_upd E.
  all: apply all_ok_b; intros x I; apply In_set_nth in I; destruct I as [->|I]; [ok_auto | apply all_ok_b in C; auto].
Qed.

Lemma good_arrayDelete : sp_good sp_arrayDelete.
Proof.
  intros args m W A. unfold sp_arrayDelete. case_args; try t_fail; split_A A.
  destruct (arg_index _); [|t_fail]; use_seq W; destruct (_ <? _); [|t_fail]; fin_upd E.
  apply all_ok_b; intros x I; apply In_remove_nth in I. apply all_ok_b in C; auto.
Qed.

Lemma good_arrayPush : sp_good sp_arrayPush.
Proof.
  intros args m W A. unfold sp_arrayPush. case_args; try t_fail; split_A A.
  use_seq W. fin_upd E. rewrite forallb_app, C, A. reflexivity.
Qed.

Lemma good_arrayPop : sp_good sp_arrayPop.
Proof.
  intros args m W A. unfold sp_arrayPop. case_args; try t_fail; split_A A.
  use_seq W. apply all_ok_b in C. destruct (rev xs) as [|v r] eqn:R; [t_fail|]. fin_upd E.
  - apply all_ok_b. intros x I. rewrite <- in_rev in I. apply C. rewrite in_rev, R. right. exact I.
  - apply C. rewrite in_rev, R. left. reflexivity.
Qed.

Lemma good_arrayShift : sp_good sp_arrayShift.
Proof.
  intros args m W A. unfold sp_arrayShift. case_args; try t_fail; split_A A.
  use_seq W. destruct xs as [|v t]; [t_fail|]. cbn [forallb] in C. apply andb_true_iff in C. destruct C as [Cv Ct].
  fin_upd E. exact Ct.
Qed.

Lemma good_arrayExtend : sp_good sp_arrayExtend.
Proof.
  intros args m W A. unfold sp_arrayExtend. case_args; try t_fail; split_A A.
  use_seq W. use_seq W. fin_upd E. rewrite forallb_app, C, C0. reflexivity.
Qed.

Lemma good_arraySlice : sp_good sp_arraySlice.
Proof.
  intros args m W A. unfold sp_arraySlice. case_args; try t_fail; split_A A.
  all: repeat match goal with |- context [arg_index ?v] => destruct (arg_index v) end; cbn [option_map]; try t_fail.
  all: use_seq W; cbv zeta; destruct (_ || _); [t_fail|]; fin_new.
  all: apply all_ok_b; intros x I; apply In_skipn' in I; apply In_firstn' in I; apply all_ok_b in C; auto.
Qed.

Lemma good_objectNew : sp_good sp_objectNew.
Proof.
  intros args m W A. unfold sp_objectNew. destruct (kv_of_args args []) as [kv|] eqn:K; [|t_fail]. fin_new.
  apply all_okv_b. apply (all_okv_kv_of_args m args [] kv); [apply all_ok_b; exact A | intros p I; simpl in I; contradiction | exact K].
Qed.

Lemma good_objectCopy : sp_good sp_objectCopy.
Proof. intros args m W A. unfold sp_objectCopy. case_args; try t_fail. split_A A. use_map W. fin_new. exact C. Qed.

Lemma good_objectKeys : sp_good sp_objectKeys.
Proof.
  intros args m W A. unfold sp_objectKeys. case_args; try t_fail. split_A A. use_map W. fin_new.
  apply all_ok_b. intros x I. apply in_map_iff in I. destruct I as (p & <- & _). reflexivity.
Qed.

Lemma good_objectGet : sp_good sp_objectGet.
Proof.
  intros args m W A.
  assert (D : aval_ok m (match nth_error args 2 with Some d => d | None => VNull end) = true).
  { destruct (nth_error args 2) eqn:N; [|reflexivity]. apply nth_error_In in N. apply all_ok_b in A. auto. }
  unfold sp_objectGet. case_args; try t_fail; split_A A.
  all: try (use_map W; fin_same; destruct (assoc _ kv) eqn:G; [apply assoc_In in G; apply all_okv_b in C; apply (C _ G) | ok_auto]).
  all: do 2 eexists; (split; [reflexivity | apply O_same; [reflexivity | exact D]]).
Qed.

Lemma good_objectHas : sp_good sp_objectHas.
Proof. intros args m W A. unfold sp_objectHas. case_args; try t_fail. split_A A. use_map W. fin_same. Qed.

Lemma good_objectSet : sp_good sp_objectSet.
Proof.
  intros args m W A. unfold sp_objectSet. case_args; try t_fail; split_A A.
  all: use_map W; fin_upd E; apply all_okv_b; apply all_okv_dict_set; [apply all_okv_b; exact C | ok_auto].
Qed.

Lemma good_objectDelete : sp_good sp_objectDelete.
Proof.
  intros args m W A. unfold sp_objectDelete. case_args; try t_fail; split_A A.
  use_map W; fin_upd E. apply all_okv_b. intros p I. apply In_dict_del in I. apply all_okv_b in C. auto.
Qed.

Lemma good_objectAssign : sp_good sp_objectAssign.
Proof.
  intros args m W A. unfold sp_objectAssign. case_args; try t_fail; split_A A.
  use_map W. use_map W. fin_upd E. apply all_okv_b. apply all_okv_dict_update; apply all_okv_b; assumption.
Qed.

Theorem spec_call_good : forall f, in_OPS f = true -> sp_good (spec_call f).
Proof.
  intros f. unfold in_OPS, spec_call, spec_table. cbn [assoc].
  repeat match goal with
  | |- context [str_eqb f ?s] =>
      let E := fresh "E" in
      destruct (str_eqb f s) eqn:E;
      [ intros _;
        first [ exact good_arrayNew | exact good_arrayNewSize | exact good_arrayCopy | exact good_arrayLength | exact good_arrayGet | exact good_arraySet
              | exact good_arrayDelete | exact good_arrayPush | exact good_arrayPop | exact good_arrayShift | exact good_arrayExtend
              | exact good_arraySlice | exact good_objectNew | exact good_objectCopy | exact good_objectKeys | exact good_objectGet
              | exact good_objectHas | exact good_objectSet | exact good_objectDelete | exact good_objectAssign ]
      | clear E ]
  end.
  discriminate.
Qed.
