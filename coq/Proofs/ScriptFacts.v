(* ScriptFacts.v — the views of Model/ScriptX.v are the shared model of Model/Script.v. *)
From Coq Require Import Lia.
From BS Require Import Model.Base Model.Regex Model.Num Model.ExprParser Model.Script Model.ScriptX Gen.Unicode Gen.Regexes.

Lemma stmt_expr_lift text line off lineno : stmt_expr text line off lineno = lift (parse_expression text) line off lineno.
Proof. reflexivity. Qed.

Ltac step_rx :=
  match goal with
  | |- context [match rxm ?r ?l with _ => _ end] => destruct (rxm r l)
  end.

Theorem pstep_is_classify_apply ps lineno line : pstep ps lineno line = pstep2 ps lineno line.
Proof.
  unfold pstep, pstep2, classify.
  repeat (step_rx; [ | try reflexivity | reflexivity ]).
  all: cbv beta iota zeta delta [apply_kind stmt_expr lift].
  all: repeat match goal with
       | |- context [match re_split ?a ?b ?c with _ => _ end] => destruct (re_split a b c)
       | |- context [if ghas ?a ?b then _ else _] => destruct (ghas a b)
       | |- context [match ps_fn ?a with _ => _ end] => destruct (ps_fn a)
       | |- context [match unesc ?a ?b with _ => _ end] => destruct (unesc a b)
       | |- context [match gtext ?a ?b ?c with _ => _ end] => destruct (gtext a b c)
       | |- context [match parse_expression ?t with _ => _ end] => destruct (parse_expression t)
       end; try reflexivity.
Qed.

(* ---- the line loop is: logical lines first, then the fold of pstep over them ---- *)
Theorem ploop_factor lines : forall ix ls ps start, ploop lines ix ls ps start = ploop2 lines ix ls ps start.
Proof.
  induction lines as [|part rest IH]; intros ix ls ps start; [reflexivity|].
  unfold ploop2. cbn [ploop llines].
  destruct (lstep ls ix part) as [ls'|ls' i line|r].
  - rewrite IH. reflexivity.
  - destruct (llines rest (S ix) ls') as [l t] eqn:E. cbn [pfold].
    destruct (pstep ps (start + i) line) as [ps'| | |]; try reflexivity.
    rewrite IH. unfold ploop2. rewrite E. reflexivity.
  - cbn [pfold]. destruct r as [[]| | |]; reflexivity.
Qed.

Lemma ploop_count_fst lines : forall ix ls ps start n, fst (ploop_count lines ix ls ps start n) = ploop lines ix ls ps start.
Proof.
  induction lines as [|part rest IH]; intros ix ls ps start n; [reflexivity|].
  cbn [ploop ploop_count].
  destruct (lstep ls ix part) as [ls'|ls' i line|r].
  - apply IH.
  - destruct (pstep ps (start + i) line); try reflexivity. apply IH.
  - destruct r as [[]| | |]; reflexivity.
Qed.

(* on success the number of pstep applications is the number of logical lines *)
Lemma ploop_count_snd lines : forall ix ls ps start n r,
  fst (ploop_count lines ix ls ps start n) = ROk r ->
  snd (ploop_count lines ix ls ps start n) = n + length (fst (llines lines ix ls)).
Proof.
  induction lines as [|part rest IH]; intros ix ls ps start n r H; [cbn; lia|].
  cbn [ploop_count llines] in *.
  destruct (lstep ls ix part) as [ls'|ls' i line|[| | |]].
  - eapply IH. exact H.
  - destruct (llines rest (S ix) ls') as [l t] eqn:E.
    destruct (pstep ps (start + i) line); try discriminate.
    erewrite IH by exact H. rewrite E. cbn. lia.
  - discriminate.
  - discriminate.
  - discriminate.
  - discriminate.
Qed.

(* ---- line numbers are only stored and copied: the step commutes with ANY renumbering ---- *)
Section Renumber.
Variable g : nat -> nat.

Definition map_frame (f : frame) : frame :=
  match f with
  | FIf p jl d h l n => FIf p jl d h l (g n)
  | FWhile a b c e h l n => FWhile a b c e h l (g n)
  | FFor a b c d e i j h l n => FFor a b c d e i j h l (g n)
  end.
Definition map_fo (fo : fn_open) : fn_open :=
  {| fo_name := fo_name fo; fo_args := fo_args fo; fo_async := fo_async fo; fo_lastarg := fo_lastarg fo;
     fo_body := fo_body fo; fo_line := fo_line fo; fo_lineno := g (fo_lineno fo) |}.
Definition map_ps (ps : pstate) : pstate :=
  {| ps_global := ps_global ps; ps_fn := option_map map_fo (ps_fn ps); ps_fn_depth := ps_fn_depth ps;
     ps_frames := map map_frame (ps_frames ps); ps_index := ps_index ps |}.
Definition map_err (e : perr) : perr :=
  {| e_msg := e_msg e; e_line := e_line e; e_col := e_col e; e_lineno := option_map g (e_lineno e) |}.
Definition map_sres {A} (f : A -> A) (r : sres A) : sres A :=
  match r with ROk a => ROk (f a) | RErr e => RErr (map_err e) | RHost w => RHost w | RFuel => RFuel end.

Lemma find_loop_map fr : forall k,
  find_loop (map map_frame fr) k = option_map (fun kf => (fst kf, map_frame (snd kf))) (find_loop fr k).
Proof.
  induction fr as [|f fr IH]; intros k; [reflexivity|].
  cbn [map find_loop]. destruct f; cbn; try reflexivity. apply IH.
Qed.

Lemma set_nth_frame_map fr : forall k f,
  set_nth_frame (map map_frame fr) k (map_frame f) = map map_frame (set_nth_frame fr k f).
Proof.
  induction fr as [|x fr IH]; intros k f; destruct k; cbn; try reflexivity. rewrite IH. reflexivity.
Qed.

Lemma lift_map pe line off n : lift pe line off (g n) = map_sres (fun e => e) (lift pe line off n).
Proof. destruct pe; reflexivity. Qed.

Lemma mark_continue_map f : mark_continue (map_frame f) = map_frame (mark_continue f).
Proof. destruct f; reflexivity. Qed.
Lemma frame_done_map f : frame_done (map_frame f) = frame_done f.
Proof. destruct f; reflexivity. Qed.
Lemma frame_continue_map f : frame_continue (map_frame f) = frame_continue f.
Proof. destruct f; reflexivity. Qed.

Local Arguments U : simpl never.
Local Arguments lbl : simpl never.
Local Arguments Nat.ltb : simpl never.
Local Arguments Nat.leb : simpl never.
Local Arguments retarget : simpl never.
Local Arguments last_is_include : simpl never.

Ltac crush :=
  cbn; rewrite ?map_length, ?lift_map;
  repeat first
    [ reflexivity
    | rewrite lift_map
    | match goal with
      | |- context [match lift ?a ?b ?c ?d with _ => _ end] => destruct (lift a b c d)
      | f : frame |- _ => destruct f
      | |- context [if ?b then _ else _] => destruct b
      | |- context [match ?x with _ => _ end] => is_var x; destruct x
      | |- context [match retarget ?a ?b ?c with _ => _ end] => destruct (retarget a b c)
      | |- context [match last_is_include ?a with _ => _ end] => destruct (last_is_include a) as [[? ?]|]
      end; cbn ].

Theorem apply_kind_map ps n line k :
  apply_kind (map_ps ps) (g n) line k = map_sres map_ps (apply_kind ps n line k).
Proof.
  destruct ps as [gl fn d fr ix]. destruct k.
  12: { (* break *) destruct fn; cbn; rewrite ?map_length, find_loop_map; destruct (find_loop fr 0) as [[kk ff]|]; cbn;
        rewrite ?frame_done_map; crush. }
  12: { (* continue *) destruct fn; cbn; rewrite ?map_length, find_loop_map; destruct (find_loop fr 0) as [[kk ff]|]; cbn;
        rewrite ?frame_continue_map, ?mark_continue_map, ?set_nth_frame_map; crush. }
  all: destruct fn; crush.
Qed.
End Renumber.
