(* ScriptFacts.v — the views of Model/ScriptX.v are the shared model of Model/Script.v. *)
From Coq Require Import Lia.
From BS Require Import Model.Base Model.Regex Model.Num Model.ExprParser Model.Script Model.ScriptX Gen.Unicode Gen.Regexes.

Lemma stmt_expr_lift text line off lineno : stmt_expr text line off lineno = lift (parse_expression text) line off lineno.
Proof. reflexivity. Qed.

Ltac step_rx :=
  match goal with
  | |- context [match rxm ?r ?l with _ => _ end] => destruct (rxm r l)
  end.

Theorem pstep_is_classify_apply ps lineno line : pstep ps lineno line = pstep2 ps lineno line.
Proof.
  unfold pstep, pstep2, classify.
  repeat (step_rx; [ | try reflexivity | reflexivity ]).
  all: cbv beta iota zeta delta [apply_kind stmt_expr lift].
  all: repeat match goal with
       | |- context [match re_split ?a ?b ?c with _ => _ end] => destruct (re_split a b c)
       | |- context [if ghas ?a ?b then _ else _] => destruct (ghas a b)
       | |- context [match ps_fn ?a with _ => _ end] => destruct (ps_fn a)
       | |- context [match unesc ?a ?b with _ => _ end] => destruct (unesc a b)
       | |- context [match gtext ?a ?b ?c with _ => _ end] => destruct (gtext a b c)
       | |- context [match parse_expression ?t with _ => _ end] => destruct (parse_expression t)
       end; try reflexivity.
Qed.

(* ---- the line loop is: logical lines first, then the fold of pstep over them ---- *)
Theorem ploop_factor lines : forall ix ls ps start, ploop lines ix ls ps start = ploop2 lines ix ls ps start.
Proof.
  induction lines as [|part rest IH]; intros ix ls ps start; [reflexivity|].
  unfold ploop2. cbn [ploop llines].
  destruct (lstep ls ix part) as [ls'|ls' i line|r].
  - rewrite IH. reflexivity.
  - destruct (llines rest (S ix) ls') as [l t] eqn:E. cbn [pfold].
    destruct (pstep ps (start + i) line) as [ps'| | |]; try reflexivity.
    rewrite IH. unfold ploop2. rewrite E. reflexivity.
  - cbn [pfold]. destruct r as [[]| | |]; reflexivity.
Qed.

Lemma ploop_count_fst lines : forall ix ls ps start n, fst (ploop_count lines ix ls ps start n) = ploop lines ix ls ps start.
Proof.
  induction lines as [|part rest IH]; intros ix ls ps start n; [reflexivity|].
  cbn [ploop ploop_count].
  destruct (lstep ls ix part) as [ls'|ls' i line|r].
  - apply IH.
  - destruct (pstep ps (start + i) line); try reflexivity. apply IH.
  - destruct r as [[]| | |]; reflexivity.
Qed.

(* on success the number of pstep applications is the number of logical lines *)
Lemma ploop_count_snd lines : forall ix ls ps start n r,
  fst (ploop_count lines ix ls ps start n) = ROk r ->
  snd (ploop_count lines ix ls ps start n) = n + length (fst (llines lines ix ls)).
Proof.
  induction lines as [|part rest IH]; intros ix ls ps start n r H; [cbn; lia|].
  cbn [ploop_count llines] in *.
  destruct (lstep ls ix part) as [ls'|ls' i line|[| | |]].
  - eapply IH. exact H.
  - destruct (llines rest (S ix) ls') as [l t] eqn:E.
    destruct (pstep ps (start + i) line); try discriminate.
    erewrite IH by exact H. rewrite E. cbn. lia.
  - discriminate.
  - discriminate.
  - discriminate.
  - discriminate.
Qed.

(* ---- line numbers are only stored and copied: the step commutes with ANY renumbering ---- *)
Section Renumber.
Variable g : nat -> nat.

Definition map_frame (f : frame) : frame :=
  match f with
  | FIf p jl d h l n => FIf p jl d h l (g n)
  | FWhile a b c e h l n => FWhile a b c e h l (g n)
  | FFor a b c d e i j h l n => FFor a b c d e i j h l (g n)
  end.
Definition map_fo (fo : fn_open) : fn_open :=
  {| fo_name := fo_name fo; fo_args := fo_args fo; fo_async := fo_async fo; fo_lastarg := fo_lastarg fo;
     fo_body := fo_body fo; fo_line := fo_line fo; fo_lineno := g (fo_lineno fo) |}.
Definition map_ps (ps : pstate) : pstate :=
  {| ps_global := ps_global ps; ps_fn := option_map map_fo (ps_fn ps); ps_fn_depth := ps_fn_depth ps;
     ps_frames := map map_frame (ps_frames ps); ps_index := ps_index ps |}.
Definition map_err (e : perr) : perr :=
  {| e_msg := e_msg e; e_line := e_line e; e_col := e_col e; e_lineno := option_map g (e_lineno e) |}.
Definition map_sres {A} (f : A -> A) (r : sres A) : sres A :=
  match r with ROk a => ROk (f a) | RErr e => RErr (map_err e) | RHost w => RHost w | RFuel => RFuel end.

Lemma find_loop_map fr : forall k,
  find_loop (map map_frame fr) k = option_map (fun kf => (fst kf, map_frame (snd kf))) (find_loop fr k).
Proof.
  induction fr as [|f fr IH]; intros k; [reflexivity|].
  cbn [map find_loop]. destruct f; cbn; try reflexivity. apply IH.
Qed.

Lemma set_nth_frame_map fr : forall k f,
  set_nth_frame (map map_frame fr) k (map_frame f) = map map_frame (set_nth_frame fr k f).
Proof.
  induction fr as [|x fr IH]; intros k f; destruct k; cbn; try reflexivity. rewrite IH. reflexivity.
Qed.

Lemma lift_map pe line off n : lift pe line off (g n) = map_sres (fun e => e) (lift pe line off n).
Proof. destruct pe; reflexivity. Qed.

Lemma mark_continue_map f : mark_continue (map_frame f) = map_frame (mark_continue f).
Proof. destruct f; reflexivity. Qed.
Lemma frame_done_map f : frame_done (map_frame f) = frame_done f.
Proof. destruct f; reflexivity. Qed.
Lemma frame_continue_map f : frame_continue (map_frame f) = frame_continue f.
Proof. destruct f; reflexivity. Qed.

Local Arguments U : simpl never.
Local Arguments lbl : simpl never.
Local Arguments Nat.ltb : simpl never.
Local Arguments Nat.leb : simpl never.
Local Arguments retarget : simpl never.
Local Arguments last_is_include : simpl never.

Ltac crush :=
  cbn; rewrite ?map_length, ?lift_map;
  repeat first
    [ reflexivity
    | rewrite lift_map
    | match goal with
      | |- context [match lift ?a ?b ?c ?d with _ => _ end] => destruct (lift a b c d)
      | f : frame |- _ => destruct f
      | |- context [if ?b then _ else _] => destruct b
      | |- context [match ?x with _ => _ end] => is_var x; destruct x
      | |- context [match retarget ?a ?b ?c with _ => _ end] => destruct (retarget a b c)
      | |- context [match last_is_include ?a with _ => _ end] => destruct (last_is_include a) as [[? ?]|]
      end; cbn ].

Theorem apply_kind_map ps n line k :
  apply_kind (map_ps ps) (g n) line k = map_sres map_ps (apply_kind ps n line k).
Proof.
  destruct ps as [gl fn d fr ix]. destruct k.
  12: { (* break *) destruct fn; cbn; rewrite ?map_length, find_loop_map; destruct (find_loop fr 0) as [[kk ff]|]; cbn;
        rewrite ?frame_done_map; crush. }
  12: { (* continue *) destruct fn; cbn; rewrite ?map_length, find_loop_map; destruct (find_loop fr 0) as [[kk ff]|]; cbn;
        rewrite ?frame_continue_map, ?mark_continue_map, ?set_nth_frame_map; crush. }
  all: destruct fn; crush.
Qed.
End Renumber.

(* ---- classify never produces a parser error by itself, and the offsets it computes keep every
        reported column inside the line ---- *)
Lemma classify_not_err line e : classify line <> RErr e.
Proof.
  unfold classify.
  repeat (step_rx; [ | try discriminate | discriminate ]).
  - discriminate.
  - unfold unesc. destruct (re_sub _ _ _ _); discriminate.
Qed.

Definition pe_col_ok (line : str) (pe : eres) (off : nat) : Prop :=
  forall msg c, pe = EErr msg c -> 1 <= off + c <= length line + 1.

Definition kind_cols_ok (line : str) (k : lkind) : Prop :=
  match k with
  | KAssign _ pe off | KIf pe off | KElif pe off | KWhile pe off | KFor _ _ pe off => pe_col_ok line pe off
  | KJump _ (Some pe) off | KReturn (Some pe) off => pe_col_ok line pe off
  | KExpr pe => pe_col_ok line pe 0
  | _ => True
  end.

From BS Require Import Proofs.RegexFacts Proofs.ExprFacts.

Lemma sub_list_length {A} (l : list A) a n : length (sub_list l a n) <= length l - a.
Proof. unfold sub_list. rewrite firstn_length, skipn_length. lia. Qed.

Lemma gtext_length line c g : length (gtext line c g) <= length line.
Proof.
  unfold gtext, group_text. destruct (cap_get g c) as [[a b]|]; cbn; [|lia].
  pose proof (sub_list_length line a (b - a)). lia.
Qed.

Lemma gstart_gtext_length line c g :
  caps_in (length line) c -> gstart c g + length (gtext line c g) <= length line.
Proof.
  intros C. unfold gstart, gtext, group_text. destruct (cap_get g c) as [[a b]|] eqn:E; cbn; [|lia].
  pose proof (sub_list_length line a (b - a)). specialize (C _ _ _ E). lia.
Qed.

Lemma pe_col_ok_intro line text off :
  off + length text <= length line -> pe_col_ok line (parse_expression text) off.
Proof.
  intros H msg c E. apply parse_expression_column_range in E. lia.
Qed.

Lemma rxm_caps_in r line e c : rxm r line = MYes e c -> caps_in (length line) c.
Proof. intros H. apply (re_match_bounds UC line r e c H). Qed.

Theorem classify_cols_ok line k : classify line = ROk k -> kind_cols_ok line k.
Proof.
  unfold classify.
  repeat (match goal with
          | |- context [match rxm ?r ?l with _ => _ end] => destruct (rxm r l) as [|? ?|] eqn:?
          end; [ | | discriminate ]).
  all: intros H; try (inversion H; subst k; clear H; cbn [kind_cols_ok]; try exact I).
  all: try (apply pe_col_ok_intro;
            match goal with
            | E : rxm _ ?l = MYes _ ?c |- context [gstart ?c ?g] =>
              apply gstart_gtext_length; eapply rxm_caps_in; exact E
            end).
  - (* expression statement *) apply pe_col_ok_intro. lia.
  - (* include '...' *) unfold unesc in H. destruct (re_sub _ _ _ _); inversion H. exact I.
  - (* return *)
    destruct (gtext line c R_SCRIPT_RETURN__expr) eqn:G; [exact I|]. rewrite <- G.
    apply pe_col_ok_intro.
    pose proof (gtext_length line c R_SCRIPT_RETURN__expr). pose proof (gtext_length line c R_SCRIPT_RETURN__return). lia.
  - (* jump *)
    destruct (gtext line c R_SCRIPT_JUMP__expr) eqn:G; [exact I|]. rewrite <- G.
    intros msg col E. apply parse_expression_column_range in E.
    pose proof (gtext_length line c R_SCRIPT_JUMP__expr). pose proof (gtext_length line c R_SCRIPT_JUMP__jump). lia.
  - (* assignment *)
    apply pe_col_ok_intro. pose proof (gtext_length line c R_SCRIPT_ASSIGNMENT__expr). lia.
Qed.

(* ---- what a failing step reports, and what a successful step records ---- *)
Definition recorded (ps : pstate) : list (nat * str) :=
  map (fun f => (frame_lineno f, frame_line f)) (ps_frames ps) ++
  match ps_fn ps with Some fo => [(fo_lineno fo, fo_line fo)] | None => [] end.

Local Arguments U : simpl never.
Local Arguments lbl : simpl never.
Local Arguments Nat.ltb : simpl never.
Local Arguments Nat.leb : simpl never.
Local Arguments retarget : simpl never.
Local Arguments last_is_include : simpl never.
Local Arguments find_loop : simpl never.

Lemma lift_err pe line off n e :
  lift pe line off n = RErr e -> pe_col_ok line pe off ->
  1 <= e_col e <= length line + 1 /\ e_lineno e = Some n /\ e_line e = line.
Proof.
  destruct pe as [x|m c|w|]; cbn; intros H K; try discriminate. inversion H; subst e; cbn.
  split; [eapply K; reflexivity | split; reflexivity].
Qed.

Ltac hsplit H :=
  repeat match type of H with
         | context [match lift ?a ?b ?c ?d with _ => _ end] => destruct (lift a b c d) eqn:?
         | context [if ?b then _ else _] => destruct b eqn:?
         | context [match ?x with _ => _ end] => destruct x eqn:?
         end; try discriminate H.

Theorem apply_kind_err ps n line k e :
  apply_kind ps n line k = RErr e -> kind_cols_ok line k ->
  1 <= e_col e <= length (e_line e) + 1 /\
  ((e_lineno e = Some n /\ e_line e = line) \/
   (exists f, In f (ps_frames ps) /\ e_lineno e = Some (frame_lineno f) /\ e_line e = frame_line f)).
Proof.
  intros H K. destruct ps as [gl fn d fr ix]. destruct k; cbn in H, K; hsplit H.
  all: inversion H; subst; clear H; cbn.
  all: try (split; [lia | left; split; reflexivity]).
  all: try (match goal with L : lift _ _ _ _ = RErr _ |- _ => apply lift_err in L; [|assumption]; destruct L as (L1 & L2 & L3) end;
            rewrite L3; split; [exact L1 | left; split; [exact L2 | reflexivity]]).
  (* endfunction with an open block: the recorded header *)
  split; [lia|]. right. eexists. split; [left; reflexivity | split; reflexivity].
Qed.

Definition fpair (f : frame) : nat * str := (frame_lineno f, frame_line f).

Lemma fpair_mark f : fpair (mark_continue f) = fpair f.
Proof. destruct f; reflexivity. Qed.

Lemma find_loop_set_fpair fr : forall k0 k f,
  find_loop fr k0 = Some (k, f) ->
  k0 <= k /\ map fpair (set_nth_frame fr (k - k0) (mark_continue f)) = map fpair fr.
Proof.
  induction fr as [|x fr IH]; intros k0 k f H; [discriminate|].
  change (find_loop (x :: fr) k0) with (if is_if_frame x then find_loop fr (S k0) else Some (k0, x)) in H.
  destruct (is_if_frame x).
  - apply IH in H. destruct H as [L E]. split; [lia|].
    replace (k - k0) with (S (k - S k0)) by lia. cbn. rewrite E. reflexivity.
  - inversion H; subst. split; [lia|]. rewrite Nat.sub_diag. cbn. rewrite fpair_mark. reflexivity.
Qed.

Ltac incl_solve :=
  cbn; intros x Hx; cbn in Hx |- *;
  repeat (rewrite ?in_app_iff in *; cbn in Hx |- *); tauto.

Theorem apply_kind_recorded ps n line k ps' :
  apply_kind ps n line k = ROk ps' -> incl (recorded ps') ((n, line) :: recorded ps).
Proof.
  intros H. destruct ps as [gl fn d fr ix]. unfold recorded. destruct k; destruct fn as [fo|]; cbn in H.
  25,26: (destruct (find_loop fr 0) as [[kk ff]|] eqn:F; [|discriminate];
          destruct (Nat.ltb _ _); [discriminate|]; apply find_loop_set_fpair in F; destruct F as [_ F]; rewrite Nat.sub_0_r in F;
          inversion H; subst; cbn; change (fun f => (frame_lineno f, frame_line f)) with fpair; rewrite F; incl_solve).
  all: hsplit H; inversion H; subst; clear H; incl_solve.
Qed.

(* host exceptions of a step: only what the expression parser reports (float() on a number
   literal) and the model's own "pending jump not found" marker at endif *)
Definition kind_host (k : lkind) (w : str) : Prop :=
  match k with
  | KAssign _ pe _ | KIf pe _ | KElif pe _ | KWhile pe _ | KFor _ _ pe _ | KExpr pe => pe = EHost w
  | KJump _ (Some pe) _ | KReturn (Some pe) _ => pe = EHost w
  | _ => False
  end.

Lemma lift_host pe line off n w : lift pe line off n = RHost w -> pe = EHost w.
Proof. destruct pe; cbn; intros H; try discriminate. inversion H. reflexivity. Qed.

Theorem apply_kind_host ps n line k w :
  apply_kind ps n line k = RHost w ->
  kind_host k w \/ (k = KEndIf /\ w = U "model: pending jump not found").
Proof.
  intros H. destruct ps as [gl fn d fr ix]. destruct k; cbn in H; hsplit H.
  all: try (match goal with L : lift _ _ _ _ = RHost _ |- _ => apply lift_host in L end; inversion H; subst; left; reflexivity).
  all: inversion H; subst; clear H.
  - (* endfunction: label_defs.pop() on an empty list is unreachable: the guard says the list is longer than the depth *)
    exfalso. cbn in *. match goal with E : Nat.ltb _ _ = true |- _ => apply Nat.ltb_lt in E; cbn in E; lia end.
  - right. split; reflexivity.
Qed.
