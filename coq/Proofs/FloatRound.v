(* Proofs/FloatRound.v — what the standard library's [binary_round_aux] and Model/Num.v's [ratio_to_sf] compute, on the
   WHOLE range (subnormal, normal, overflow), in integer arithmetic only (no real numbers, no axioms):

     ratio_to_sf neg a b   (0 < a, 0 < b)   is  +-m * 2^e  with  0 <= m < 2^53,  -1074 <= e,  m < 2^52 -> e = -1074  (canonical),
       |a/b - m 2^e| <= 2^e / 2            (half an ulp; written  2 |a 2^1074 - m 2^(e+1074) b| <= 2^(e+1074) b),
       equality  ->  m even                (ties to even),
       m = 2^52, e > -1074  ->  m 2^e - a/b <= 2^e / 4   (just above a power of two the spacing below is half as wide),
     the result is zero when m = 0, infinity when e > 971 (exactly when a/b >= 2^1024 - 2^970), finite otherwise;
     and it is a NEAREST binary64: no finite binary64 number is closer to a/b ([ratio_to_sf_nearest]).

   Builds on Proofs/FloatFacts.v (the round/sticky invariant [repr] of [shr]). *)
From Coq Require Import ZArith Lia Bool ZifyBool SpecFloat.
From BS Require Import Model.Base Model.Num Proofs.FloatFacts.
Local Open Scope Z_scope.

Lemma Zeq_bool_is_eqb x y : Zeq_bool x y = (x =? y).
Proof. unfold Zeq_bool. rewrite Z.eqb_compare. reflexivity. Qed.

Lemma pow2_pos k : 0 <= k -> 0 < 2 ^ k.
Proof. intros. apply Z.pow_pos_nonneg; lia. Qed.

Lemma pow2_split a b : 0 <= a -> 0 <= b -> 2 ^ (a + b) = 2 ^ a * 2 ^ b.
Proof. intros. apply Z.pow_add_r; lia. Qed.

(* ------------------------------------------------------------------ the location computed by the division *)
Lemma new_location_loc_of N D : 0 < D -> new_location D (N mod D) = loc_of N D.
Proof.
  intros HD. pose proof (Z.mod_pos_bound N D HD) as B. unfold new_location, loc_of.
  destruct (Z.even D) eqn:Ev.
  - unfold new_location_even. rewrite Zeq_bool_is_eqb. reflexivity.
  - unfold new_location_odd. rewrite Zeq_bool_is_eqb. destruct (N mod D =? 0); [reflexivity|]. f_equal.
    assert (O : Z.odd D = true) by (rewrite <- Z.negb_even, Ev; reflexivity).
    apply Z.odd_spec in O. destruct O as [k Hk].
    destruct (Z.compare_spec (2 * (N mod D) + 1) D), (Z.compare_spec (2 * (N mod D)) D); try reflexivity; exfalso; lia.
Qed.

(* ------------------------------------------------------------------ round to nearest, ties to even *)
Lemma rne_repr_tie N D mrs : 0 <= N -> 0 < D -> repr N D mrs ->
  let m1 := round_nearest_even (shr_m mrs) (loc_of_shr_record mrs) in
  N / D <= m1 <= N / D + 1 /\ 2 * Z.abs (N - m1 * D) <= D /\ (2 * Z.abs (N - m1 * D) = D -> Z.even m1 = true).
Proof.
  intros HN HD. destruct mrs as [m r s]. unfold repr. cbn [shr_m shr_r shr_s]. intros (Hm & Hr & Hs).
  pose proof (Z.mod_pos_bound N D HD). pose proof (Z.div_mod N D ltac:(lia)) as E.
  set (q := N mod D) in *. rewrite <- Hm in *. clear Hm.
  destruct r, s; cbn [loc_of_shr_record round_nearest_even].
  - repeat split; lia.
  - destruct (Z.even m) eqn:Ev; repeat split; try lia.
    intros _. replace (m + 1) with (Z.succ m) by lia. rewrite Z.even_succ, <- Z.negb_even, Ev. reflexivity.
  - repeat split; lia.
  - repeat split; lia.
Qed.

(* ------------------------------------------------------------------ the second normalisation of binary_round_aux *)
Lemma bra_phase2_full (sx : bool) m1 e1 : 0 <= m1 <= 2 ^ 53 -> -1074 <= e1 ->
  (let '(mrs'', e'') := shr_fexp prec emax m1 e1 loc_Exact in
   match shr_m mrs'' with
   | Z0 => S754_zero sx
   | Zpos m => if Zle_bool e'' (emax - prec) then S754_finite sx m e'' else S754_infinity sx
   | _ => S754_nan
   end) =
  if m1 =? 0 then S754_zero sx
  else if m1 <? 2 ^ 53 then (if e1 <=? 971 then S754_finite sx (Z.to_pos m1) e1 else S754_infinity sx)
  else (if e1 + 1 <=? 971 then S754_finite sx (Z.to_pos (2 ^ 52)) (e1 + 1) else S754_infinity sx).
Proof.
  intros Hm He. unfold shr_fexp. destruct (Z.eqb_spec m1 0) as [Z|NZ].
  - subst m1. change (Zdigits2 0) with 0. unfold fexp, emin, prec, emax.
    destruct (Z.max (0 + e1 - 53) (3 - 1024 - 53) - e1) as [|p|p] eqn:E; try lia; reflexivity.
  - destruct (Z.ltb_spec m1 (2 ^ 53)) as [L|G].
    + assert (D : Zdigits2 m1 <= 53) by (apply Zdigits2_le; lia).
      unfold fexp, emin, prec, emax.
      destruct (Z.max (Zdigits2 m1 + e1 - 53) (3 - 1024 - 53) - e1) as [|p|p] eqn:E; try lia;
        cbn [shr shr_record_of_loc shr_m]; destruct m1 as [|q|q]; try lia; reflexivity.
    + assert (m1 = 2 ^ 53) by lia. subst m1. change (Zdigits2 (2 ^ 53)) with 54. rewrite fexp_normal by lia.
      replace (54 + e1 - 53 - e1) with 1 by lia. cbn. reflexivity.
Qed.

(* ------------------------------------------------------------------ binary_round_aux, every case *)
(* The exact value is N/D * 2^ex; the mantissa handed over is its integer part with the location of the rest.  The
   caller guarantees enough digits: 53 of them, or the smallest exponent. *)
Lemma bra_full sx N D ex : 0 <= N -> 0 < D -> -1074 <= ex -> (53 <= Zdigits2 (N / D) \/ ex = -1074) ->
  exists m e, 0 <= m < 2 ^ 53 /\ ex <= e /\ -1074 <= e /\ (m < 2 ^ 52 -> e = -1074) /\
    2 * Z.abs (N - m * (D * 2 ^ (e - ex))) <= D * 2 ^ (e - ex) /\
    (2 * Z.abs (N - m * (D * 2 ^ (e - ex))) = D * 2 ^ (e - ex) -> Z.even m = true) /\
    (m = 2 ^ 52 -> -1074 < e -> 4 * (m * (D * 2 ^ (e - ex)) - N) <= D * 2 ^ (e - ex)) /\
    binary_round_aux prec emax sx (N / D) ex (loc_of N D) =
      if m =? 0 then S754_zero sx else if e <=? 971 then S754_finite sx (Z.to_pos m) e else S754_infinity sx.
Proof.
  intros HN HD Hex Hdig. unfold binary_round_aux.
  assert (Hq0 : 0 <= N / D) by (apply Z.div_pos; lia).
  set (q := N / D) in *. set (d := Zdigits2 q) in *.
  assert (Hd0 : 0 <= d /\ q < 2 ^ d).
  { destruct (Z.eq_dec q 0) as [Z|NZ]; [unfold d; rewrite Z; cbn; lia|].
    destruct (Zdigits2_bounds q ltac:(lia)) as (A & _ & B). fold d in A, B. lia. }
  set (E1 := fexp prec emax (d + ex)). set (n1 := E1 - ex).
  assert (HE1 : E1 = Z.max (d + ex - 53) (-1074)) by (unfold E1, fexp, emin, prec, emax; lia).
  assert (Hn1 : 0 <= n1) by (unfold n1; lia).
  assert (P1 : 0 < 2 ^ n1) by (apply pow2_pos; lia).
  unfold shr_fexp at 1. fold d E1 n1.
  destruct (shr_repr N D (shr_record_of_loc q (loc_of N D)) ex n1 HN HD Hn1 (repr_init N D HN HD)) as (mrs' & Es & R1).
  rewrite Es. replace (ex + n1) with E1 by (unfold n1; lia).
  set (W1 := D * 2 ^ n1) in *. assert (HW1 : 0 < W1) by (unfold W1; nia).
  destruct (rne_repr_tie N W1 mrs' HN HW1 R1) as (Hfl & Hb & Htie).
  set (m1 := round_nearest_even (shr_m mrs') (loc_of_shr_record mrs')) in *.
  assert (Hq1 : N / W1 = q / 2 ^ n1) by (unfold W1, q; rewrite Z.div_div by lia; reflexivity).
  assert (Hq1nn : 0 <= N / W1) by (apply Z.div_pos; lia).
  assert (Hup : N / W1 < 2 ^ 53 /\ (E1 = -1074 \/ 2 ^ 52 <= N / W1) /\ (-1074 < E1 -> 2 ^ 52 <= N / W1)).
  { destruct (Z_le_gt_dec (-1074) (d + ex - 53)) as [X|Y].
    - assert (n1 = d - 53) by (unfold n1; lia).
      assert (B2 : 2 ^ (d - 1) <= q).
      { destruct (Zdigits2_bounds q) as (_ & B & _); [|exact B].
        destruct (Z.eq_dec q 0) as [Z|NZ]; [|lia]. exfalso. unfold d in *. rewrite Z in *. cbn in *. lia. }
      assert (2 ^ 52 <= N / W1 < 2 ^ 53).
      { rewrite Hq1. split.
        - apply Z.div_le_lower_bound; [lia|]. replace (d - 1) with (n1 + 52) in B2 by lia.
          rewrite pow2_split in B2 by lia. lia.
        - apply Z.div_lt_upper_bound; [lia|]. replace d with (n1 + 53) in Hd0 by lia.
          rewrite pow2_split in Hd0 by lia. lia. }
      lia.
    - assert (E1 = -1074) by lia. assert (d <= 52 + n1) by (unfold n1; lia).
      assert (N / W1 < 2 ^ 52).
      { rewrite Hq1. apply Z.div_lt_upper_bound; [lia|].
        assert (2 ^ d <= 2 ^ (n1 + 52)) by (apply Z.pow_le_mono_r; lia).
        rewrite pow2_split in * by lia. lia. }
      lia. }
  destruct Hup as (Hup1 & Hup2 & Hup3).
  assert (HE1lo : -1074 <= E1) by lia.
  rewrite (bra_phase2_full sx m1 E1) by lia.
  assert (Hfloor : N / W1 * W1 <= N) by (rewrite Z.mul_comm; apply Z.mul_div_le; lia).
  destruct (Z.ltb_spec m1 (2 ^ 53)) as [L|G].
  - exists m1, E1. fold n1. fold W1.
    split; [lia|]. split; [lia|]. split; [lia|]. split; [lia|]. split; [exact Hb|]. split; [exact Htie|].
    split; [|reflexivity].
    intros M52 HE. specialize (Hup3 HE). nia.
  - assert (M : m1 = 2 ^ 53) by lia. exists (2 ^ 52), (E1 + 1).
    replace (E1 + 1 - ex) with (n1 + 1) by (unfold n1; lia). rewrite (pow2_split n1 1) by lia. change (2 ^ 1) with 2.
    replace (D * (2 ^ n1 * 2)) with (2 * W1) by (unfold W1; lia).
    replace (2 ^ 52 * (2 * W1)) with (m1 * W1) by (rewrite M; lia).
    split; [lia|]. split; [lia|]. split; [lia|]. split; [lia|]. split; [lia|]. split; [intros; exfalso; lia|].
    split; [intros; lia|].
    change (2 ^ 52 =? 0) with false. cbv iota. rewrite M. reflexivity.
Qed.

(* ------------------------------------------------------------------ ratio_to_sf *)
Lemma ratio_core a b : 0 < a -> 0 < b ->
  let ex := Z.min (Z.max (Zdigits2 a - Zdigits2 b - 53) (-1074)) 0 in
  let N := a * 2 ^ (- ex) in
  SFdiv_core_binary prec emax a 0 b 0 = (N / b, ex, loc_of N b) /\ -1074 <= ex <= 0 /\
  (53 <= Zdigits2 (N / b) \/ ex = -1074).
Proof.
  intros Ha Hb ex N.
  destruct (Zdigits2_bounds a Ha) as (Da & Al & Au). destruct (Zdigits2_bounds b Hb) as (Db & Bl & Bu).
  assert (Hex : -1074 <= ex <= 0) by (unfold ex; lia).
  split; [|split; [exact Hex|]].
  - unfold SFdiv_core_binary.
    assert (E : Z.min (fexp prec emax (Zdigits2 a + 0 - (Zdigits2 b + 0))) (0 - 0) = ex)
      by (unfold ex, fexp, emin, prec, emax; lia).
    rewrite E.
    assert (M : match 0 - 0 - ex with Z.pos _ => Z.shiftl a (0 - 0 - ex) | 0 => a | Z.neg _ => 0 end = N).
    { unfold N. destruct (0 - 0 - ex) as [|p|p] eqn:Es; try lia.
      - replace (- ex) with 0 by lia. lia.
      - rewrite Z.shiftl_mul_pow2 by lia. rewrite <- Es. f_equal; f_equal; lia. }
    rewrite M.
    assert (EQ : Z.div_eucl N b = (N / b, N mod b))
      by (unfold Z.div, Z.modulo; destruct (Z.div_eucl N b); reflexivity).
    rewrite EQ, new_location_loc_of by lia. reflexivity.
  - destruct (Z.eq_dec ex (-1074)) as [Y|X]; [right; exact Y|left].
    set (k := - ex) in *. assert (Hk : 0 <= k) by (unfold k; lia).
    assert (Hk2 : 53 - (Zdigits2 a - Zdigits2 b) <= k) by (unfold k, ex in *; lia).
    apply (Zdigits2_ge _ 52); [lia|]. apply Z.div_le_lower_bound; [lia|]. unfold N. fold k.
    assert (2 ^ (52 + Zdigits2 b) <= 2 ^ (Zdigits2 a - 1 + k)) by (apply Z.pow_le_mono_r; lia).
    rewrite !pow2_split in * by lia.
    assert (0 < 2 ^ k) by (apply pow2_pos; lia).
    assert (2 ^ (Zdigits2 a - 1) * 2 ^ k <= a * 2 ^ k) by (apply Z.mul_le_mono_nonneg_r; lia).
    assert (b * 2 ^ 52 <= 2 ^ Zdigits2 b * 2 ^ 52) by (apply Z.mul_le_mono_nonneg_r; lia).
    lia.
Qed.

(* the rounded mantissa and exponent of a/b, values scaled by 2^1074 *)
Definition rounds_to (a b m e : Z) : Prop :=
  0 <= m < 2 ^ 53 /\ -1074 <= e /\ (m < 2 ^ 52 -> e = -1074) /\
  2 * Z.abs (a * 2 ^ 1074 - m * 2 ^ (e + 1074) * b) <= 2 ^ (e + 1074) * b /\
  (2 * Z.abs (a * 2 ^ 1074 - m * 2 ^ (e + 1074) * b) = 2 ^ (e + 1074) * b -> Z.even m = true) /\
  (m = 2 ^ 52 -> -1074 < e -> 4 * (m * 2 ^ (e + 1074) * b - a * 2 ^ 1074) <= 2 ^ (e + 1074) * b).

Definition sf_of (neg : bool) (m e : Z) : flt :=
  if m =? 0 then S754_zero neg else if e <=? 971 then S754_finite neg (Z.to_pos m) e else S754_infinity neg.

Theorem ratio_to_sf_spec neg a b : 0 < a -> 0 < b ->
  exists m e, rounds_to a b m e /\ ratio_to_sf neg a b = sf_of neg m e.
Proof.
  intros Ha Hb. unfold ratio_to_sf. destruct (Z.eqb_spec a 0) as [Z|_]; [lia|].
  destruct (ratio_core a b Ha Hb) as (Ec & Hex & Hdig). cbv zeta in Ec, Hdig. rewrite Ec.
  set (ex := Z.min (Z.max (Zdigits2 a - Zdigits2 b - 53) (-1074)) 0) in *.
  set (N := a * 2 ^ (- ex)) in *.
  assert (HN : 0 <= N) by (unfold N; assert (0 < 2 ^ (- ex)) by (apply pow2_pos; lia); nia).
  destruct (bra_full neg N b ex HN Hb ltac:(lia) Hdig) as (m & e & Hm & Hee & He & Hcan & Hb1 & Htie & Hfine & R).
  exists m, e. split; [|exact R].
  set (T := 2 ^ (ex + 1074)). assert (PT : 0 < T) by (apply pow2_pos; lia).
  set (W := b * 2 ^ (e - ex)) in *.
  assert (PW : 0 < W) by (unfold W; assert (0 < 2 ^ (e - ex)) by (apply pow2_pos; lia); nia).
  assert (EA : a * 2 ^ 1074 = N * T).
  { unfold N, T. rewrite <- Z.mul_assoc, <- pow2_split by lia. do 2 f_equal. lia. }
  assert (EU : 2 ^ (e + 1074) * b = W * T).
  { unfold W, T. replace (e + 1074) with ((e - ex) + (ex + 1074)) by lia. rewrite pow2_split by lia. ring. }
  assert (EX : a * 2 ^ 1074 - m * 2 ^ (e + 1074) * b = (N - m * W) * T).
  { rewrite EA. replace (m * 2 ^ (e + 1074) * b) with (m * (2 ^ (e + 1074) * b)) by ring. rewrite EU. ring. }
  unfold rounds_to. rewrite EX, EU, Z.abs_mul, (Z.abs_eq T) by lia.
  set (X := Z.abs (N - m * W)) in *.
  split; [exact Hm|]. split; [exact He|]. split; [exact Hcan|]. split; [|split].
  - replace (2 * (X * T)) with ((2 * X) * T) by ring. apply Z.mul_le_mono_nonneg_r; lia.
  - intros Eq. apply Htie. replace (2 * (X * T)) with ((2 * X) * T) in Eq by ring.
    apply Z.mul_reg_r in Eq; lia.
  - intros M52 HE. specialize (Hfine M52 HE).
    replace (m * 2 ^ (e + 1074) * b) with (m * (2 ^ (e + 1074) * b)) by ring. rewrite EU, EA.
    replace (4 * (m * (W * T) - N * T)) with ((4 * (m * W - N)) * T) by ring.
    apply Z.mul_le_mono_nonneg_r; lia.
Qed.

(* ------------------------------------------------------------------ overflow: exactly when a/b >= 2^1024 - 2^970 *)
Lemma rounds_to_exp a b m e : 0 < a -> 0 < b -> rounds_to a b m e ->
  (e <= 971 <-> a < (2 ^ 1024 - 2 ^ 970) * b).
Proof.
  intros Ha Hb (Hm & He & Hcan & Hbd & Htie & Hfine).
  set (U := 2 ^ (e + 1074)) in *. assert (PU : 0 < U) by (apply pow2_pos; lia).
  set (K := U * b) in *. assert (PK : 0 < K) by (unfold K; nia).
  replace (m * U * b) with (m * K) in * by (unfold K; ring).
  set (A := a * 2 ^ 1074) in *.
  split.
  - intros Hle. destruct (Z_lt_ge_dec a ((2 ^ 1024 - 2 ^ 970) * b)) as [L|G]; [exact L|exfalso].
    assert (HU : U <= 2 ^ 2045) by (apply Z.pow_le_mono_r; lia).
    assert (HK : K <= 2 ^ 2045 * b) by (apply Z.mul_le_mono_nonneg_r; lia).
    assert (HA : (2 ^ 1024 - 2 ^ 970) * b * 2 ^ 1074 <= A) by (apply Z.mul_le_mono_nonneg_r; lia).
    destruct (Z_le_gt_dec m (2 ^ 53 - 2)) as [Lm|Gm].
    + assert ((2 * m + 1) * K <= (2 ^ 54 - 3) * K) by (apply Z.mul_le_mono_nonneg_r; lia). lia.
    + assert (m = 2 ^ 53 - 1) by lia. subst m.
      assert (T : Z.even (2 ^ 53 - 1) = true) by (apply Htie; lia).
      vm_compute in T. discriminate T.
  - intros L. destruct (Z_le_gt_dec e 971) as [Le|Ge]; [exact Le|exfalso].
    assert (HU : 2 ^ 2046 <= U) by (apply Z.pow_le_mono_r; lia).
    assert (HK : 2 ^ 2046 * b <= K) by (apply Z.mul_le_mono_nonneg_r; lia).
    assert (HA : A < (2 ^ 1024 - 2 ^ 970) * b * 2 ^ 1074) by (apply Z.mul_lt_mono_pos_r; lia).
    assert (Hm52 : 2 ^ 52 <= m) by lia.
    destruct (Z.eq_dec m (2 ^ 52)) as [E|NE].
    + specialize (Hfine E ltac:(lia)). subst m. lia.
    + assert ((2 ^ 52 + 1) * K <= m * K) by (apply Z.mul_le_mono_nonneg_r; lia). lia.
Qed.

Theorem ratio_to_sf_overflow neg a b : 0 < a -> 0 < b -> (2 ^ 1024 - 2 ^ 970) * b <= a ->
  ratio_to_sf neg a b = S754_infinity neg.
Proof.
  intros Ha Hb H. destruct (ratio_to_sf_spec neg a b Ha Hb) as (m & e & R & E). rewrite E.
  pose proof (rounds_to_exp a b m e Ha Hb R) as X. destruct R as (Hm & He & Hcan & _).
  assert (971 < e) by lia. unfold sf_of.
  destruct (Z.eqb_spec m 0) as [Z|_]; [lia|]. destruct (Z.leb_spec e 971); [lia|reflexivity].
Qed.

Theorem ratio_to_sf_finite neg a b : 0 < a -> 0 < b -> a < (2 ^ 1024 - 2 ^ 970) * b ->
  exists m e, rounds_to a b m e /\ e <= 971 /\
    ratio_to_sf neg a b = if m =? 0 then S754_zero neg else S754_finite neg (Z.to_pos m) e.
Proof.
  intros Ha Hb H. destruct (ratio_to_sf_spec neg a b Ha Hb) as (m & e & R & E). exists m, e.
  pose proof (rounds_to_exp a b m e Ha Hb R) as X. split; [exact R|]. split; [lia|]. rewrite E. unfold sf_of.
  destruct (m =? 0); [reflexivity|]. destruct (Z.leb_spec e 971); [reflexivity|lia].
Qed.

(* on the normal range the mantissa has its 53 bits *)
Lemma rounds_to_normal a b m e : 0 < b -> rounds_to a b m e -> b <= a * 2 ^ 1022 -> 2 ^ 52 <= m.
Proof.
  intros Hb (Hm & He & Hcan & Hbd & _) Hn. destruct (Z_le_gt_dec (2 ^ 52) m) as [L|G]; [exact L|exfalso].
  rewrite (Hcan ltac:(lia)) in Hbd. change (2 ^ (-1074 + 1074)) with 1 in Hbd.
  assert (b * 2 ^ 52 <= a * 2 ^ 1022 * 2 ^ 52) by (apply Z.mul_le_mono_nonneg_r; lia).
  assert (m * b <= (2 ^ 52 - 1) * b) by (apply Z.mul_le_mono_nonneg_r; lia).
  lia.
Qed.

(* ------------------------------------------------------------------ a nearest binary64 *)
(* the signed value of a float, scaled by 2^1074 (an integer for every binary64 number) *)
Definition sfZs (f : flt) : Z :=
  match f with
  | S754_finite s m e => if s then - (Zpos m * 2 ^ (e + 1074)) else Zpos m * 2 ^ (e + 1074)
  | _ => 0
  end.

Lemma nearest_core a b m e mg eg : 0 < a -> 0 < b -> rounds_to a b m e -> 0 <= mg < 2 ^ 53 -> -1074 <= eg ->
  Z.abs (a * 2 ^ 1074 - m * 2 ^ (e + 1074) * b) <= Z.abs (a * 2 ^ 1074 - mg * 2 ^ (eg + 1074) * b) /\
  Z.abs (a * 2 ^ 1074 - m * 2 ^ (e + 1074) * b) <= Z.abs (a * 2 ^ 1074 + mg * 2 ^ (eg + 1074) * b).
Proof.
  intros Ha Hb (Hm & He & Hcan & Hbd & Htie & Hfine) Hmg Heg.
  set (U := 2 ^ (e + 1074)) in *. assert (PU : 0 < U) by (apply pow2_pos; lia).
  set (K := U * b) in *. assert (PK : 0 < K) by (unfold K; nia).
  replace (m * U * b) with (m * K) in * by (unfold K; ring).
  set (A := a * 2 ^ 1074) in *. assert (PA : 0 < A) by (unfold A; assert (0 < 2 ^ 1074) by (apply pow2_pos; lia); nia).
  set (Ug := 2 ^ (eg + 1074)). assert (PUg : 0 < Ug) by (apply pow2_pos; lia).
  set (Gb := mg * Ug * b). assert (PG : 0 <= Gb) by (unfold Gb; nia).
  split.
  - destruct (Z_le_gt_dec e eg) as [L|G].
    + (* g is a multiple of the unit of f *)
      set (k := mg * 2 ^ (eg - e)).
      assert (EG : Gb = k * K).
      { unfold Gb, k, K, Ug, U. replace (eg + 1074) with ((eg - e) + (e + 1074)) by lia. rewrite pow2_split by lia. ring. }
      rewrite EG. destruct (Z.eq_dec k m) as [E|NE]; [rewrite E; lia|].
      destruct (Z_le_gt_dec k (m - 1)) as [L1|G1].
      * assert (k * K <= (m - 1) * K) by (apply Z.mul_le_mono_nonneg_r; lia). lia.
      * assert ((m + 1) * K <= k * K) by (apply Z.mul_le_mono_nonneg_r; lia). lia.
    + (* g lies below the binade of f *)
      assert (Hm52 : 2 ^ 52 <= m) by lia.
      assert (EU : U = Ug * 2 ^ (e - eg)).
      { unfold U, Ug. replace (e + 1074) with ((eg + 1074) + (e - eg)) by lia. rewrite pow2_split by lia. reflexivity. }
      assert (P2 : 2 <= 2 ^ (e - eg)) by (change 2 with (2 ^ 1) at 1; apply Z.pow_le_mono_r; lia).
      assert (H2U : 2 * Ug <= U) by (rewrite EU; nia).
      assert (HG1 : mg * Ug <= (2 ^ 53 - 1) * Ug) by (apply Z.mul_le_mono_nonneg_r; lia).
      assert (HG2 : 2 * Gb <= (2 ^ 53 - 1) * K).
      { unfold Gb, K. replace (2 * (mg * Ug * b)) with ((2 * (mg * Ug)) * b) by ring.
        replace ((2 ^ 53 - 1) * (U * b)) with (((2 ^ 53 - 1) * U) * b) by ring.
        apply Z.mul_le_mono_nonneg_r; [lia|]. nia. }
      destruct (Z.eq_dec m (2 ^ 52)) as [E|NE].
      * specialize (Hfine E ltac:(lia)). subst m. lia.
      * assert ((2 ^ 52 + 1) * K <= m * K) by (apply Z.mul_le_mono_nonneg_r; lia). lia.
  - destruct (Z.eq_dec m 0) as [Z|NZ]; [subst m; lia|].
    assert (1 * K <= m * K) by (apply Z.mul_le_mono_nonneg_r; lia). lia.
Qed.

Lemma valid_bounds s m e : valid_binary prec emax (S754_finite s m e) = true -> Zpos m < 2 ^ 53 /\ -1074 <= e <= 971.
Proof.
  unfold valid_binary, bounded, canonical_mantissa. rewrite Bool.andb_true_iff, Zeq_bool_is_eqb.
  unfold fexp, emin, prec, emax. intros [C B]. pose proof (digits2_pos_bounds m) as D.
  assert (Zpos (digits2_pos m) <= 53) by lia.
  assert (2 ^ Zpos (digits2_pos m) <= 2 ^ 53) by (apply Z.pow_le_mono_r; lia). lia.
Qed.

Lemma valid_of_rounds s a b m e : rounds_to a b m e -> 0 < m -> e <= 971 ->
  valid_binary prec emax (S754_finite s (Z.to_pos m) e) = true.
Proof.
  intros (Hm & He & Hcan & _) Pm Le. unfold valid_binary, bounded, canonical_mantissa.
  rewrite Bool.andb_true_iff, Zeq_bool_is_eqb. unfold fexp, emin, prec, emax.
  assert (D : Zpos (digits2_pos (Z.to_pos m)) = Zdigits2 m) by (destruct m; try lia; reflexivity).
  rewrite D. split; [|lia].
  destruct (Z_le_gt_dec (2 ^ 52) m) as [L|G].
  - rewrite (Zdigits2_unique m 53) by lia. lia.
  - assert (Zdigits2 m <= 52) by (apply Zdigits2_le; lia). rewrite (Hcan ltac:(lia)). lia.
Qed.

(* no binary64 number is closer to the quotient than the result ([sfZs] of an infinity or a NaN is 0, itself a binary64) *)
Theorem ratio_to_sf_nearest neg a b : 0 < a -> 0 < b -> a < (2 ^ 1024 - 2 ^ 970) * b ->
  let f := ratio_to_sf neg a b in
  let q := if neg then - a else a in
  valid_binary prec emax f = true /\
  (exists m e, rounds_to a b m e /\ e <= 971 /\ f = if m =? 0 then S754_zero neg else S754_finite neg (Z.to_pos m) e) /\
  forall g, valid_binary prec emax g = true ->
    Z.abs (q * 2 ^ 1074 - sfZs f * b) <= Z.abs (q * 2 ^ 1074 - sfZs g * b).
Proof.
  intros Ha Hb H f q. destruct (ratio_to_sf_finite neg a b Ha Hb H) as (m & e & R & Le & E). fold f in E.
  assert (Hm : 0 <= m) by (destruct R as ((X & _) & _); exact X).
  split; [|split].
  - rewrite E. destruct (Z.eqb_spec m 0); [reflexivity|]. apply (valid_of_rounds neg a b); auto. lia.
  - exists m, e. auto.
  - intros g Vg.
    assert (EF : sfZs f = if neg then - (m * 2 ^ (e + 1074)) else m * 2 ^ (e + 1074)).
    { rewrite E. destruct (Z.eqb_spec m 0) as [Z|NZ]; [subst m; destruct neg; reflexivity|].
      cbn [sfZs]. rewrite Z2Pos.id by lia. reflexivity. }
    assert (G : exists mg eg sg, 0 <= mg < 2 ^ 53 /\ -1074 <= eg /\
                  sfZs g = if (sg : bool) then - (mg * 2 ^ (eg + 1074)) else mg * 2 ^ (eg + 1074)).
    { destruct g as [s| s | |s mg eg]; try (exists 0, 0, false; cbn; lia).
      destruct (valid_bounds s mg eg Vg). exists (Zpos mg), eg, s. cbn [sfZs]. split; [lia|]. split; [lia|reflexivity]. }
    destruct G as (mg & eg & sg & Hmg & Heg & EG).
    destruct (nearest_core a b m e mg eg Ha Hb R Hmg Heg) as (N1 & N2).
    rewrite EF, EG. unfold q.
    destruct neg, sg.
    + replace (- a * 2 ^ 1074 - - (m * 2 ^ (e + 1074)) * b) with (- (a * 2 ^ 1074 - m * 2 ^ (e + 1074) * b)) by ring.
      replace (- a * 2 ^ 1074 - - (mg * 2 ^ (eg + 1074)) * b) with (- (a * 2 ^ 1074 - mg * 2 ^ (eg + 1074) * b)) by ring.
      rewrite !Z.abs_opp. exact N1.
    + replace (- a * 2 ^ 1074 - - (m * 2 ^ (e + 1074)) * b) with (- (a * 2 ^ 1074 - m * 2 ^ (e + 1074) * b)) by ring.
      replace (- a * 2 ^ 1074 - mg * 2 ^ (eg + 1074) * b) with (- (a * 2 ^ 1074 + mg * 2 ^ (eg + 1074) * b)) by ring.
      rewrite !Z.abs_opp. exact N2.
    + replace (a * 2 ^ 1074 - - (mg * 2 ^ (eg + 1074)) * b) with (a * 2 ^ 1074 + mg * 2 ^ (eg + 1074) * b) by ring.
      exact N2.
    + exact N1.
Qed.

(* everything about [ratio_to_sf] in one statement *)
Theorem ratio_to_sf_nearest_full neg a b : 0 < a -> 0 < b ->
  ((2 ^ 1024 - 2 ^ 970) * b <= a -> ratio_to_sf neg a b = S754_infinity neg) /\
  (a < (2 ^ 1024 - 2 ^ 970) * b ->
     valid_binary prec emax (ratio_to_sf neg a b) = true /\
     (exists m e, rounds_to a b m e /\ e <= 971 /\ (b <= a * 2 ^ 1022 -> 2 ^ 52 <= m) /\
        ratio_to_sf neg a b = if m =? 0 then S754_zero neg else S754_finite neg (Z.to_pos m) e) /\
     forall g, valid_binary prec emax g = true ->
       Z.abs ((if neg then - a else a) * 2 ^ 1074 - sfZs (ratio_to_sf neg a b) * b) <=
       Z.abs ((if neg then - a else a) * 2 ^ 1074 - sfZs g * b)).
Proof.
  intros Ha Hb. split; [apply ratio_to_sf_overflow; auto|]. intros H.
  destruct (ratio_to_sf_nearest neg a b Ha Hb H) as (V & (m & e & R & Le & E) & N).
  split; [exact V|]. split; [|exact N]. exists m, e. split; [exact R|]. split; [exact Le|]. split; [|exact E].
  apply (rounds_to_normal a b m e Hb R).
Qed.
