(* Proofs/C10wsExpr.v — leading whitespace in front of an expression does not change what parse_expression returns:
   the same tree; an error keeps its text and its column moves with the text (or stays 1 when the very first token is
   rejected: parser.py reports the whole text as the remainder there).
   Route: every token regex tried first by _parse_unary_expression is  ^\s*B  with B `^`-free, not nullable and starting
   with a non-space character (checked on the REGENERATED values), so by Proofs/RegexShift.v:tok_shift the engine's answer
   on  ws ++ text  is its answer on  text  shifted by |ws|: same captured text, same remainder.  The parser then
   continues on identical remainders.  The fuel of parse_expression grows with the text; parser fuel monotonicity
   (parser_mono) bridges the two fuels. *)
From Coq Require Import Lia.
From BS Require Import Model.Base Model.Regex Model.Num Model.ExprParser Gen.Unicode Gen.Regexes
  Proofs.RegexFacts Proofs.RegexComplete Proofs.RegexShift Proofs.NumLit Proofs.ExprFacts Proofs.C10ws.

(* ================= A. characters: a first atom that accepts no whitespace ================= *)
Definition ascii_spaces : list N := [9; 10; 11; 12; 13; 28; 29; 30; 31; 32]%N.

Lemma space_ascii y : (y <? 128)%N = true -> is_space UC y = true -> In y ascii_spaces.
Proof.
  unfold is_space. intros L. rewrite L. intros H. apply orb_true_iff in H.
  cbn [In ascii_spaces].
  destruct H as [H|H]; apply andb_true_iff in H; destruct H as [H1 H2]; apply N.leb_le in H1; apply N.leb_le in H2; lia.
Qed.

Lemma space_not_digit y : is_space UC y = true -> is_digit UC y = false.
Proof.
  intros S. destruct (is_digit UC y) eqn:D; [|reflexivity]. exfalso.
  destruct (isdig_facts y D) as [S' _]. change (U_space y) with (is_space UC y) in S'. congruence.
Qed.

Definition item_nonspace (i : citem) : bool :=
  match i with
  | CLit x => negb (is_space UC x)
  | CRange a b => (b <? 128)%N && forallb (fun x => negb ((a <=? x) && (x <=? b))%N) ascii_spaces
  | CCat CatDigit => true
  | CCat _ => false
  end.

Lemma item_nonspace_ok i y : item_nonspace i = true -> is_space UC y = true -> item_match UC i y = false.
Proof.
  destruct i as [x|a b|k]; cbn [item_nonspace item_match]; intros H S.
  - apply negb_true_iff in H. destruct (y =? x)%N eqn:E; [|reflexivity]. apply N.eqb_eq in E. subst. congruence.
  - apply andb_true_iff in H. destruct H as [Hb Hf].
    destruct ((a <=? y)%N && (y <=? b)%N) eqn:E; [|reflexivity]. exfalso.
    pose proof E as E'. apply andb_true_iff in E'. destruct E' as [E1 E2]. apply N.leb_le in E2. apply N.ltb_lt in Hb.
    assert (L : (y <? 128)%N = true) by (apply N.ltb_lt; lia).
    pose proof (space_ascii y L S) as I. rewrite forallb_forall in Hf. specialize (Hf y I). rewrite E in Hf. discriminate.
  - destruct k; try discriminate. cbn [cat_match]. apply space_not_digit. exact S.
Qed.

Definition atom_nonspace (a : atom) : bool :=
  match a with
  | ALit x => negb (is_space UC x)
  | AIn false items => forallb item_nonspace items
  | _ => false
  end.

Lemma atom_nonspace_ok a y : atom_nonspace a = true -> is_space UC y = true -> atom_ok UC a y = false.
Proof.
  destruct a as [x|x| |neg items]; cbn [atom_nonspace atom_ok]; intros H S; try discriminate.
  - apply negb_true_iff in H. destruct (y =? x)%N eqn:E; [|reflexivity]. apply N.eqb_eq in E. subst. congruence.
  - destruct neg; [discriminate|]. unfold class_match. cbn [xorb].
    destruct (existsb (fun i => item_match UC i y) items) eqn:E; [|reflexivity]. exfalso.
    apply existsb_exists in E. destruct E as (i & Ii & Mi). rewrite forallb_forall in H.
    rewrite (item_nonspace_ok i y (H i Ii) S) in Mi. discriminate.
Qed.

(* the body of a token regex ^\s*B *)
Definition tok_ok (B : regex) : bool := no_bol B && negb (nullable B) && forallb atom_nonspace (firsts B).

Lemma tok_ok_fails B : tok_ok B = true -> fails_on_space UC B.
Proof.
  unfold tok_ok. intros H. apply andb_true_iff in H. destruct H as [H H3]. apply andb_true_iff in H. destruct H as [H1 H2].
  apply negb_true_iff in H2. rewrite forallb_forall in H3.
  intros s pos p c c' y M Hy S. eapply (Matches_rejects UC s B pos p c c' y M H2 Hy).
  intros a Ia. apply atom_nonspace_ok; [apply H3; exact Ia | exact S].
Qed.

Lemma tok_rx R B ws text : R = RCat RBol (RCat rsp B) -> tok_ok B = true -> white ws ->
  rx R (ws ++ text) = shiftr (length ws) (rx R text).
Proof.
  intros -> H W. unfold rx. apply tok_shift; [| apply tok_ok_fails; exact H | exact W].
  unfold tok_ok in H. apply andb_true_iff in H. destruct H as [H _]. apply andb_true_iff in H. tauto.
Qed.

Lemma grp_shift ws text c n : grp (ws ++ text) (shiftc (length ws) c) n = grp text c n.
Proof. unfold grp. rewrite group_text_shift. reflexivity. Qed.

(* ================= B. fuel monotonicity of the expression parser ================= *)
Definition lep {A} (a b : pres A) : Prop := a = PFuel \/ a = b.

Ltac stepm IH := let A := fresh "A" in destruct IH as [A|A]; rewrite A; [left; reflexivity|].

Lemma parser_mono : forall f f', f <= f' ->
  (forall text left, lep (parse_binary f text left) (parse_binary f' text left)) /\
  (forall text, lep (parse_unary f text) (parse_unary f' text)) /\
  (forall text acc, lep (parse_args f text acc) (parse_args f' text acc)).
Proof.
  induction f as [|f IH]; intros f' L; [repeat split; intros; left; reflexivity|].
  destruct f' as [|f']; [lia|]. destruct (IH f' ltac:(lia)) as (IHb & IHu & IHa). clear IH.
  split; [|split].
  - intros text left. cbn [parse_binary].
    assert (T : forall le bt,
      lep (match rx R_EXPR_BINARY_OP bt with
           | MNo => POk (le, bt)
           | MYes e c => match parse_unary f (skipn e bt) with
                         | POk (right_expr, next_text) => parse_binary f next_text (Some (insert le (grp bt c 1) right_expr))
                         | PErr msg n => PErr msg n | PHost w => PHost w | PFuel => PFuel end
           | MFuel => PFuel end)
          (match rx R_EXPR_BINARY_OP bt with
           | MNo => POk (le, bt)
           | MYes e c => match parse_unary f' (skipn e bt) with
                         | POk (right_expr, next_text) => parse_binary f' next_text (Some (insert le (grp bt c 1) right_expr))
                         | PErr msg n => PErr msg n | PHost w => PHost w | PFuel => PFuel end
           | MFuel => PFuel end)).
    { intros le bt. destruct (rx R_EXPR_BINARY_OP bt) as [|e c|]; try (right; reflexivity).
      stepm (IHu (skipn e bt)). destruct (parse_unary f' (skipn e bt)) as [[re nt]|? ?|?|]; try (right; reflexivity). apply IHb. }
    destruct left as [l|].
    + apply T.
    + stepm (IHu text). destruct (parse_unary f' text) as [[le bt]|? ?|?|]; try (right; reflexivity). apply T.
  - intros text. cbn [parse_unary].
    destruct (rx R_EXPR_GROUP_OPEN text) as [|e c|]; [| |right; reflexivity].
    2:{ stepm (IHb (skipn e text) None). right; reflexivity. }
    destruct (rx R_EXPR_UNARY_OP text) as [|e c|]; [| |right; reflexivity].
    2:{ stepm (IHu (skipn e text)). right; reflexivity. }
    destruct (rx R_EXPR_FUNCTION_OPEN text) as [|e c|]; [| |right; reflexivity].
    2:{ stepm (IHa (skipn e text) []). right; reflexivity. }
    right; reflexivity.
  - intros text acc. cbn [parse_args].
    destruct (rx R_EXPR_FUNCTION_CLOSE text) as [|e c|]; [|right; reflexivity|right; reflexivity].
    assert (T : forall t', lep (match parse_binary f t' None with
                                | POk (a, next) => parse_args f next (a :: acc)
                                | PErr msg n => PErr msg n | PHost w => PHost w | PFuel => PFuel end)
                               (match parse_binary f' t' None with
                                | POk (a, next) => parse_args f' next (a :: acc)
                                | PErr msg n => PErr msg n | PHost w => PHost w | PFuel => PFuel end)).
    { intros t'. stepm (IHb t' None). destruct (parse_binary f' t' None) as [[a nt]|? ?|?|]; try (right; reflexivity). apply IHa. }
    destruct acc as [|a0 acc0]; [apply T|].
    destruct (rx R_EXPR_FUNCTION_SEPARATOR text) as [|e c|]; try (right; reflexivity). apply T.
Qed.

Lemma parse_binary_mono f f' text left : f <= f' -> parse_binary f text left <> PFuel ->
  parse_binary f' text left = parse_binary f text left.
Proof.
  intros L N. destruct (parser_mono f f' L) as (B & _ & _). destruct (B text left) as [A|A]; congruence.
Qed.

(* ================= C. the first token with a whitespace prefix ================= *)
(* a : the result on text, b : the result on ws ++ text *)
Definition prel {A} (ws text : str) (a b : pres A) : Prop :=
  match a, b with
  | POk x, POk y => x = y
  | PErr m1 n1, PErr m2 n2 => m1 = m2 /\ (n2 = n1 \/ (n1 = length text /\ n2 = length ws + length text))
  | PHost w1, PHost w2 => w1 = w2
  | PFuel, PFuel => True
  | _, _ => False
  end.

Lemma prel_refl {A} ws text (a : pres A) : prel ws text a a.
Proof. destruct a; cbn [prel]; auto. Qed.

Lemma unary_ws f ws text : white ws -> prel ws text (parse_unary f text) (parse_unary f (ws ++ text)).
Proof.
  intros W. destruct f as [|f]; [exact I|]. cbn [parse_unary].
  rewrite (tok_rx R_EXPR_GROUP_OPEN _ ws text eq_refl eq_refl W).
  rewrite (tok_rx R_EXPR_UNARY_OP _ ws text eq_refl eq_refl W).
  rewrite (tok_rx R_EXPR_FUNCTION_OPEN _ ws text eq_refl eq_refl W).
  rewrite (tok_rx R_EXPR_NUMBER _ ws text eq_refl eq_refl W).
  rewrite (tok_rx R_EXPR_STRING _ ws text eq_refl eq_refl W).
  rewrite (tok_rx R_EXPR_STRING_DOUBLE _ ws text eq_refl eq_refl W).
  rewrite (tok_rx R_EXPR_VARIABLE _ ws text eq_refl eq_refl W).
  rewrite (tok_rx R_EXPR_VARIABLE_EX _ ws text eq_refl eq_refl W).
  destruct (rx R_EXPR_GROUP_OPEN text) as [|e c|]; cbn [shiftr]; [| |exact I].
  2:{ rewrite skipn_pad. destruct (parse_binary f (skipn e text) None) as [[ex nt]|? ?|?|]; try apply prel_refl.
      destruct (rx R_EXPR_GROUP_CLOSE nt) as [|e2 c2|]; try apply prel_refl.
      cbn [prel]. split; [reflexivity|]. right. split; [reflexivity | apply app_length]. }
  destruct (rx R_EXPR_UNARY_OP text) as [|e c|]; cbn [shiftr]; [| |exact I].
  2:{ rewrite skipn_pad, grp_shift. apply prel_refl. }
  destruct (rx R_EXPR_FUNCTION_OPEN text) as [|e c|]; cbn [shiftr]; [| |exact I].
  2:{ rewrite skipn_pad, grp_shift. apply prel_refl. }
  destruct (rx R_EXPR_NUMBER text) as [|e c|]; cbn [shiftr]; [| |exact I].
  2:{ rewrite skipn_pad, grp_shift. apply prel_refl. }
  destruct (rx R_EXPR_STRING text) as [|e c|]; cbn [shiftr]; [| |exact I].
  2:{ rewrite skipn_pad, grp_shift. apply prel_refl. }
  destruct (rx R_EXPR_STRING_DOUBLE text) as [|e c|]; cbn [shiftr]; [| |exact I].
  2:{ rewrite skipn_pad, grp_shift. apply prel_refl. }
  destruct (rx R_EXPR_VARIABLE text) as [|e c|]; cbn [shiftr]; [| |exact I].
  2:{ rewrite skipn_pad, grp_shift. apply prel_refl. }
  destruct (rx R_EXPR_VARIABLE_EX text) as [|e c|]; cbn [shiftr]; [| |exact I].
  2:{ rewrite skipn_pad, grp_shift. apply prel_refl. }
  cbn [prel]. split; [reflexivity|]. right. split; [reflexivity | apply app_length].
Qed.

Lemma binary_ws f ws text : white ws ->
  prel ws text (parse_binary f text None) (parse_binary f (ws ++ text) None).
Proof.
  intros W. destruct f as [|f]; [exact I|]. cbn [parse_binary].
  pose proof (unary_ws f ws text W) as U.
  destruct (parse_unary f text) as [[le bt]|m1 n1|w1|], (parse_unary f (ws ++ text)) as [[le' bt']|m2 n2|w2|];
    cbn [prel] in U; try contradiction.
  - inversion U; subst. apply prel_refl.
  - exact U.
  - exact U.
  - exact I.
Qed.

(* ================= D. parse_expression ================= *)
(* a : parse_expression text, b : parse_expression (ws ++ text), d = |ws| *)
Definition eres_ws (d : nat) (a b : eres) : Prop :=
  match a, b with
  | EOk x, EOk y => x = y
  | EErr m1 c1, EErr m2 c2 => m1 = m2 /\ (c2 = c1 + d \/ (c1 = 1 /\ c2 = 1))
  | EHost w1, EHost w2 => w1 = w2
  | _, _ => False
  end.

Theorem parse_expression_ws ws text : white ws -> parse_expression text <> EFuel ->
  eres_ws (length ws) (parse_expression text) (parse_expression (ws ++ text)).
Proof.
  intros W NF. unfold parse_expression in *.
  assert (LF : expr_fuel text <= expr_fuel (ws ++ text)) by (unfold expr_fuel; rewrite app_length; lia).
  assert (N : parse_binary (expr_fuel text) text None <> PFuel).
  { intros E. rewrite E in NF. congruence. }
  pose proof (parse_binary_mono _ _ text None LF N) as Mo.
  pose proof (binary_ws (expr_fuel (ws ++ text)) ws text W) as R. rewrite Mo in R.
  destruct (parser_len (expr_fuel text)) as (PL & _ & _). specialize (PL text None).
  destruct (parse_binary (expr_fuel text) text None) as [[e nt]|m1 n1|w1|],
           (parse_binary (expr_fuel (ws ++ text)) (ws ++ text) None) as [[e' nt']|m2 n2|w2|];
    cbn [prel] in R; try contradiction; cbn [len_post] in PL.
  - inversion R; subst e' nt'. destruct (strip nt); cbn [eres_ws]; [reflexivity|].
    split; [reflexivity|]. left. rewrite app_length. lia.
  - destruct R as [-> [->|[-> ->]]]; cbn [eres_ws]; (split; [reflexivity|]).
    + left. rewrite app_length. lia.
    + right. rewrite app_length. lia.
  - exact R.
Qed.

Corollary parse_expression_ws_ok ws text e : white ws ->
  parse_expression text = EOk e -> parse_expression (ws ++ text) = EOk e.
Proof.
  intros W H. assert (NF : parse_expression text <> EFuel) by congruence.
  pose proof (parse_expression_ws ws text W NF) as R. rewrite H in R.
  destruct (parse_expression (ws ++ text)); cbn [eres_ws] in R; try contradiction. subst. reflexivity.
Qed.
