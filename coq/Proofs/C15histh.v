(* Proofs/C15histh.v — C15 history, searches: arrayIndexOf / arrayLastIndexOf refine their declarative contracts over the
   abstract deep equality `aeq` whenever the model does not answer LFuel; never LFuel on well-formed acyclic heaps;
   the relational machine `stepR` is deterministic; the history theorem for OPS_X = OPS_S + the two searches. *)
From Coq Require Import Lia ZifyBool SpecFloat.
From BS Require Import Model.Base Model.Num Model.LibVal Gen.ArgSpecs Model.LibSeq Proofs.BaseFacts Proofs.C15 Proofs.C15spec
  Proofs.C15hist Proofs.C15spec2 Proofs.C15aeq.
Local Open Scope Z_scope.
Local Opaque compare_fuel.

(* ====================================================================== list facts *)
Lemma skipn_cons_nth : forall {A} n (l : list A) x t, skipn n l = x :: t -> nth_error l n = Some x /\ skipn (S n) l = t.
Proof.
  induction n as [|n IH]; intros [|a l] x t H; simpl in *; try discriminate.
  - inv H. auto.
  - apply IH. exact H.
Qed.
Lemma skipn_nil_nth : forall {A} n (l : list A), skipn n l = [] -> forall i, (n <= i)%nat -> nth_error l i = None.
Proof. intros A n l H i L. apply nth_error_None. pose proof (skipn_length n l) as E. rewrite H in E. simpl in E. lia. Qed.
Lemma nth_error_firstn' : forall {A} n (l : list A) i, (i < n)%nat -> nth_error (firstn n l) i = nth_error l i.
Proof.
  induction n as [|n IH]; intros l i L; [lia|]. destruct l as [|a l]; [destruct i; reflexivity|].
  destruct i; simpl; [reflexivity|]. apply IH. lia.
Qed.

(* ====================================================================== the scans compute the contracts *)
Lemma index_of_spec : forall h v xs t st, t = skipn st xs ->
  match index_of h t v (Z.of_nat st) with
  | None => True
  | Some r => first_match (abs h) xs v st (match r with Some p => p | None => -1 end)
  end.
Proof.
  intros h v xs. induction t as [|x t IH]; intros st H.
  - simpl. left. split; [reflexivity|]. intros i y L N. rewrite (skipn_nil_nth st xs (eq_sym H) i L) in N. discriminate.
  - symmetry in H. apply skipn_cons_nth in H. destruct H as [Nx Sk]. cbn [index_of].
    destruct (veq (compare_fuel h) h x v) as [[]|] eqn:E; [| |exact I].
    + right. exists st, x. repeat split; auto; [apply (veq_sound _ _ _ _ _ E) | intros; lia].
    + specialize (IH (S st) (eq_sym Sk)). replace (Z.of_nat st + 1) with (Z.of_nat (S st)) by lia.
      destruct (index_of h t v (Z.of_nat (S st))) as [r|]; [|exact I].
      set (res := match r with Some p => p | None => -1 end) in *.
      destruct IH as [[Er A]|(i & y & Er & Li & Ni & Ti & Fi)].
      * left. split; [exact Er|]. intros i y L N. destruct (Nat.eq_dec i st) as [->|D].
        -- rewrite Nx in N. inv N. apply (veq_sound _ _ _ _ _ E).
        -- apply (A i y); [lia|exact N].
      * right. exists i, y. repeat split; auto; [lia|]. intros j w L N. destruct (Nat.eq_dec j st) as [->|D].
        -- rewrite Nx in N. inv N. apply (veq_sound _ _ _ _ _ E).
        -- apply (Fi j w); [lia|exact N].
Qed.

Definition last_inv (m : astate) (w : list value) (v : value) (bound : nat) (r : option Z) : Prop :=
  match r with
  | None => forall i x, (i < bound)%nat -> nth_error w i = Some x -> aeq m x v false
  | Some b => exists i x, b = Z.of_nat i /\ (i < bound)%nat /\ nth_error w i = Some x /\ aeq m x v true
                          /\ forall j y, (i < j < bound)%nat -> nth_error w j = Some y -> aeq m y v false
  end.
Lemma last_index_of_spec : forall h v w t st best, t = skipn st w -> last_inv (abs h) w v st best ->
  match last_index_of h t v (Z.of_nat st) best with None => True | Some r => last_inv (abs h) w v (length w) r end.
Proof.
  intros h v w. induction t as [|x t IH]; intros st best H Inv.
  - simpl. assert (L : (length w <= st)%nat). { pose proof (skipn_length st w) as E. rewrite <- H in E. simpl in E. lia. }
    destruct best as [b|]; simpl in *.
    + destruct Inv as (i & y & Eb & Li & Ni & Ti & Fi). exists i, y. repeat split; auto.
      * apply nth_error_Some. congruence.
      * intros j z Lj. apply Fi. lia.
    + intros i y Li. apply Inv. lia.
  - symmetry in H. apply skipn_cons_nth in H. destruct H as [Nx Sk]. cbn [last_index_of].
    destruct (veq (compare_fuel h) h x v) as [[]|] eqn:E; [| |exact I];
      replace (Z.of_nat st + 1) with (Z.of_nat (S st)) by lia; apply IH; auto.
    + simpl. exists st, x. repeat split; auto; [apply (veq_sound _ _ _ _ _ E) | intros; lia].
    + destruct best as [b|]; simpl in *.
      * destruct Inv as (i & y & Eb & Li & Ni & Ti & Fi). exists i, y. repeat split; auto.
        intros j z Lj N. destruct (Nat.eq_dec j st) as [->|D].
        -- rewrite Nx in N. inv N. apply (veq_sound _ _ _ _ _ E).
        -- apply (Fi j z); [lia|exact N].
      * intros i y Li N. destruct (Nat.eq_dec i st) as [->|D].
        -- rewrite Nx in N. inv N. apply (veq_sound _ _ _ _ _ E).
        -- apply (Inv i y); [lia|exact N].
Qed.
Lemma last_inv_window : forall m xs v u r, last_inv m (firstn (S u) xs) v (length (firstn (S u) xs)) r ->
  last_match m xs v u (match r with Some b => b | None => -1 end).
Proof.
  intros m xs v u r H. pose proof (firstn_le_length (S u) xs) as LL. destruct r as [b|]; unfold last_inv in H.
  - destruct H as (i & x & -> & Li & Ni & Ti & Fi). right. exists i, x.
    rewrite nth_error_firstn' in Ni by lia. repeat split; auto; [lia|].
    intros j y Lj N. apply (Fi j y); [|rewrite nth_error_firstn' by lia; exact N].
    split; [lia|]. apply nth_error_Some. rewrite nth_error_firstn' by lia. congruence.
  - left. split; [reflexivity|]. intros i x Li N. apply (H i x); [|rewrite nth_error_firstn' by lia; exact N].
    apply nth_error_Some. rewrite nth_error_firstn' by lia. congruence.
Qed.

(* ====================================================================== the core of the two calls *)
Lemma fun_or_not : forall v, (exists id, v = VFun id) \/ (forall id, v <> VFun id).
Proof. destruct v; eauto; right; discriminate. Qed.
Lemma not_fun_match : forall {T} v (A B : T), (forall id, v <> VFun id) -> match v with VFun _ => A | _ => B end = B.
Proof. intros T v A B N. destruct v; try reflexivity. exfalso. apply (N id). reflexivity. Qed.

Definition rq_first_at (l : loc) (v : value) (z : Z) (m : astate) : sreq :=
  match alookup m l with
  | Some (ASeq xs) => if len xs <=? z then SNow (failv (vint (-1)) m)
                      else match v with VFun _ => SNow None | _ => SFirst xs v (Z.to_nat z) end
  | _ => SNow None
  end.
Lemma first_core : forall h l v n z, integral n z -> 0 <= z ->
  fst (k_arrayIndexOf h [AV (VArr l); AV v; AV (VNum n)]) <> LFuel ->
  search_out (abs h) (rq_first_at l v z (abs h)) (abs_call (k_arrayIndexOf h [AV (VArr l); AV v; AV (VNum n)])).
Proof.
  intros h l v n z Hi Hz. unfold k_arrayIndexOf, rq_first_at. rewrite alookup_abs.
  destruct (hget h l) as [[xs|kv]|]; cbn [option_map abs_cell]; try (intros _; apply so_now).
  rewrite (index_guard_integral n z _ Hi). unfold len.
  destruct (Z.leb_spec (Z.of_nat (length xs)) z); [intros _; apply so_now|].
  destruct (fun_or_not v) as [[id ->]|NFn]; [intros _; apply so_now|].
  rewrite !(not_fun_match v) by exact NFn.
  replace (z <? 0) with false by lia. rewrite (Z2Nat.id z) by lia.
  pose proof (index_of_spec h v xs (skipn (Z.to_nat z) xs) (Z.to_nat z) eq_refl) as Sp.
  rewrite Z2Nat.id in Sp by lia.
  destruct (index_of h (skipn (Z.to_nat z) xs) v z) as [[p|]|]; intros NF.
  - apply so_first. exact Sp.
  - apply (so_first (abs h) xs v (Z.to_nat z) (-1)). exact Sp.
  - exfalso. apply NF. reflexivity.
Qed.

Definition rq_last_at (l : loc) (v : value) (oz : option Z) (m : astate) : sreq :=
  match alookup m l with
  | Some (ASeq xs) =>
      let z := match oz with Some z => z | None => len xs - 1 end in
      if len xs <=? z then SNow (failv (vint (-1)) m)
      else match v with
           | VFun _ => SNow None
           | _ => if z <? 0 then SNow (ok (vint (-1)) m) else SLast xs v (Z.to_nat z)
           end
  | _ => SNow None
  end.
Lemma last_core : forall h l v ve oz,
  match oz with None => ve = VNull | Some z => exists n, ve = VNum n /\ integral n z /\ 0 <= z end ->
  fst (k_arrayLastIndexOf h [AV (VArr l); AV v; AV ve]) <> LFuel ->
  search_out (abs h) (rq_last_at l v oz (abs h)) (abs_call (k_arrayLastIndexOf h [AV (VArr l); AV v; AV ve])).
Proof.
  intros h l v ve oz Hoz. unfold k_arrayLastIndexOf, rq_last_at. rewrite alookup_abs.
  destruct (hget h l) as [[xs|kv]|]; cbn [option_map abs_cell]; try (intros _; apply so_now).
  assert (exists n z, (match ve with VNull => vint (len xs - 1) | _ => ve end) = VNum n /\ integral n z
                      /\ z = match oz with Some z => z | None => len xs - 1 end) as (n & z & -> & Hi & Ez).
  { destruct oz as [z|].
    - destruct Hoz as (n & -> & Hi & Hz). exists n, z. auto.
    - subst ve. exists (NInt (len xs - 1)), (len xs - 1). split; [reflexivity|]. split; [apply integral_int|reflexivity]. }
  cbv zeta. rewrite <- Ez. clear Ez Hoz oz.
  rewrite (index_guard_integral n z _ Hi). unfold len.
  destruct (Z.leb_spec (Z.of_nat (length xs)) z); [intros _; apply so_now|].
  destruct (fun_or_not v) as [[id ->]|NFn]; [intros _; apply so_now|].
  rewrite !(not_fun_match v) by exact NFn.
  destruct (Z.ltb_spec z 0); [intros _; apply so_now|].
  pose proof (last_index_of_spec h v (firstn (S (Z.to_nat z)) xs) (firstn (S (Z.to_nat z)) xs) 0 None eq_refl) as Sp.
  change (Z.of_nat 0) with 0 in Sp.
  destruct (last_index_of h (firstn (S (Z.to_nat z)) xs) v 0 None) as [r|]; intros NF.
  - assert (S' : last_inv (abs h) (firstn (S (Z.to_nat z)) xs) v (length (firstn (S (Z.to_nat z)) xs)) r).
    { apply Sp. simpl. intros; lia. }
    apply last_inv_window in S'. destruct r as [p|]; [apply so_last; exact S' | apply (so_last (abs h) xs v (Z.to_nat z) (-1)); exact S'].
  - exfalso. apply NF. reflexivity.
Qed.
