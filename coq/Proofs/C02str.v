(* Proofs/C02str.v — the DIRECT reading of the two string-literal token regexes of the expression parser

       _R_EXPR_STRING         ^\s*'((?:\\\\|\\'|[^'])* )'
       _R_EXPR_STRING_DOUBLE  the same with the double quote (code point 34) in place of ' (39)

   and of the un-escape pass  re.sub(r'\\([\\'])', r'\1', body)  that follows them: what the backtracking engine of
   Model/Regex.v answers, as a structural function of the text, for EVERY text.

   The body  \\ | \q | [^q]  is ambiguous (a backslash is also a [^q] character), so the answer depends on the engine's
   order (greedy star, alternatives in order, backtrack to the most recent choice).  The result is the left-to-right
   scanner [scan]: the literal closes at the FIRST quote that is not escaped under the "pairs" reading (\\ and \q read as
   pairs); if there is no such quote it closes at the LAST quote of the text (whose backslash is then re-read as an
   ordinary character); no quote at all: no match  (scan_words).

   Section E does the same for the bracketed variable name  ^\s*\[\s*((?:\\\]|[^\]])+)\s*\]  (scanner [scanv], the
   white-space run after the bracket with its backtracking, variable_ex_answer) and its un-escape pass.

   Everything is generic in the quote character q (q <> 92, q not white space) and instantiated at 39 and 34 on the
   generated constants of Gen/Regexes.v: a changed pattern breaks the proofs. *)
From Coq Require Import Lia.
From BS Require Import Model.Base Model.Num Model.Regex Model.NumText Model.ExprParser Gen.Unicode Gen.Regexes
  Proofs.BaseFacts Proofs.RegexFacts Proofs.RegexComplete Proofs.RegexShift Proofs.RegexEval Proofs.C13rx Proofs.C02rx.

(* ================================================================== A. the direct functions *)
(* position of the closing quote; [pos] = position of the first character of [rest] *)
Fixpoint scan (q : N) (pos : nat) (rest : str) {struct rest} : option nat :=
  match rest with
  | [] => None
  | y :: t =>
    if (y =? q)%N then Some pos
    else if (y =? 92)%N then
      match t with
      | z :: t' =>
        if (z =? 92)%N then scan q (S (S pos)) t'
        else if (z =? q)%N then match scan q (S (S pos)) t' with Some e => Some e | None => Some (S pos) end
        else scan q (S pos) t
      | [] => None
      end
    else scan q (S pos) t
  end.

(* the token after the white space: an opening quote, then the scanner; the result is the LENGTH of the body *)
Definition str_body (q : N) (r : str) : option nat :=
  match r with y :: t => if (y =? q)%N then scan q 0 t else None | [] => None end.

(* the two readings the scanner combines *)
(* first quote that is not escaped when \\ and \q are read as pairs *)
Fixpoint first_unescaped (q : N) (pos : nat) (rest : str) {struct rest} : option nat :=
  match rest with
  | [] => None
  | y :: t =>
    if (y =? q)%N then Some pos
    else if (y =? 92)%N then
      match t with
      | z :: t' => if ((z =? 92) || (z =? q))%N then first_unescaped q (S (S pos)) t' else first_unescaped q (S pos) t
      | [] => None
      end
    else first_unescaped q (S pos) t
  end.
(* last occurrence of the quote character *)
Fixpoint last_quote (q : N) (pos : nat) (rest : str) : option nat :=
  match rest with
  | [] => None
  | y :: t => match last_quote q (S pos) t with Some e => Some e | None => if (y =? q)%N then Some pos else None end
  end.
Definition has_quote (q : N) (rest : str) : bool := existsb (fun y => (y =? q)%N) rest.

(* the un-escape pass: a backslash followed by a backslash or by the quote emits that second character *)
Fixpoint unescape_direct (q : N) (s : str) {struct s} : str :=
  match s with
  | [] => []
  | y :: t =>
    if (y =? 92)%N then
      match t with
      | z :: t' => if ((z =? 92) || (z =? q))%N then z :: unescape_direct q t' else y :: unescape_direct q t
      | [] => [y]
      end
    else y :: unescape_direct q t
  end.

(* ================================================================== B. facts about the scanner *)
Lemma last_quote_none q : forall rest pos, last_quote q pos rest = None <-> has_quote q rest = false.
Proof.
  induction rest as [|y t IH]; intros pos; cbn [last_quote has_quote existsb]; [split; reflexivity|].
  fold (has_quote q t). specialize (IH (S pos)). destruct (last_quote q (S pos) t) as [e|].
  - split; [discriminate|]. intros H. apply orb_false_iff in H. destruct H as [_ H].
    apply (proj2 IH) in H. discriminate.
  - rewrite (proj1 IH eq_refl). rewrite orb_false_r. destruct (y =? q)%N; split; try reflexivity; discriminate.
Qed.

(* the scanner = first unescaped quote, else the last quote *)
Lemma scan_words_n q : forall n rest pos, length rest < n ->
  scan q pos rest = match first_unescaped q pos rest with Some e => Some e | None => last_quote q pos rest end.
Proof.
  induction n as [|n IH]; intros rest pos L; [lia|].
  destruct rest as [|y t]; [reflexivity|]. cbn [length] in L.
  cbn [scan first_unescaped last_quote].
  destruct (y =? q)%N eqn:Eq; [reflexivity|].
  destruct (y =? 92)%N eqn:E92.
  - destruct t as [|z t']; [reflexivity|]. cbn [length] in L.
    destruct (z =? 92)%N eqn:Z92.
    + cbn [orb]. rewrite (IH t' (S (S pos))) by lia.
      destruct (first_unescaped q (S (S pos)) t') as [e|]; [reflexivity|].
      cbn [last_quote]. destruct (last_quote q (S (S pos)) t') as [e|]; [reflexivity|].
      destruct (z =? q)%N eqn:Zq; [|reflexivity].
      apply N.eqb_eq in Zq. apply N.eqb_eq in Z92. subst z. apply N.eqb_neq in Eq.
      apply N.eqb_eq in E92. congruence.
    + cbn [orb]. destruct (z =? q)%N eqn:Zq.
      * rewrite (IH t' (S (S pos))) by lia.
        destruct (first_unescaped q (S (S pos)) t') as [e|]; [reflexivity|].
        cbn [last_quote]. rewrite Zq. destruct (last_quote q (S (S pos)) t'); reflexivity.
      * rewrite (IH (z :: t') (S pos)) by (cbn [length]; lia).
        destruct (first_unescaped q (S pos) (z :: t')) as [e|]; [reflexivity|].
        destruct (last_quote q (S pos) (z :: t')); reflexivity.
  - rewrite (IH t (S pos)) by lia.
    destruct (first_unescaped q (S pos) t) as [e|]; [reflexivity|].
    destruct (last_quote q (S pos) t); reflexivity.
Qed.

Theorem scan_words q rest pos :
  scan q pos rest = match first_unescaped q pos rest with Some e => Some e | None => last_quote q pos rest end.
Proof. apply (scan_words_n q (S (length rest))). lia. Qed.

Lemma first_unescaped_has_n q : forall n rest pos e, length rest < n ->
  first_unescaped q pos rest = Some e -> has_quote q rest = true.
Proof.
  induction n as [|n IH]; intros rest pos e L; [lia|].
  destruct rest as [|y t]; [discriminate|]. cbn [length] in L. cbn [first_unescaped has_quote existsb].
  destruct (y =? q)%N; [reflexivity|]. cbn [orb]. fold (has_quote q t).
  destruct (y =? 92)%N.
  - destruct t as [|z t']; [discriminate|]. cbn [length] in L.
    destruct ((z =? 92) || (z =? q))%N.
    + intros H. cbn [has_quote existsb]. fold (has_quote q t'). rewrite (IH t' _ _ ltac:(lia) H). apply orb_true_r.
    + apply IH. cbn [length]. lia.
  - apply IH. lia.
Qed.

(* no match exactly when the text after the opening quote contains no quote at all *)
Theorem scan_none q rest pos : scan q pos rest = None <-> has_quote q rest = false.
Proof.
  rewrite scan_words. destruct (first_unescaped q pos rest) as [e|] eqn:F.
  - split; [discriminate|]. intros H.
    rewrite (first_unescaped_has_n q (S (length rest)) rest pos e ltac:(lia) F) in H. discriminate.
  - apply last_quote_none.
Qed.

(* positions are relative *)
Lemma scan_shift_n q : forall n rest pos, length rest < n ->
  scan q pos rest = option_map (fun e => pos + e) (scan q 0 rest).
Proof.
  induction n as [|n IH]; intros rest pos L; [lia|].
  destruct rest as [|y t]; [reflexivity|]. cbn [length] in L. cbn [scan].
  destruct (y =? q)%N; [cbn [option_map]; rewrite Nat.add_0_r; reflexivity|].
  assert (T : scan q (S pos) t = option_map (fun e => pos + e) (scan q 1 t)).
  { rewrite (IH t (S pos)) by lia. rewrite (IH t 1) by lia. destruct (scan q 0 t); cbn [option_map]; [f_equal; lia | reflexivity]. }
  destruct (y =? 92)%N; [|exact T].
  destruct t as [|z t']; [reflexivity|]. cbn [length] in L.
  assert (T2 : scan q (S (S pos)) t' = option_map (fun e => pos + e) (scan q 2 t')).
  { rewrite (IH t' (S (S pos))) by lia. rewrite (IH t' 2) by lia. destruct (scan q 0 t'); cbn [option_map]; [f_equal; lia | reflexivity]. }
  destruct (z =? 92)%N; [exact T2|].
  destruct (z =? q)%N; [|exact T].
  rewrite T2. destruct (scan q 2 t'); cbn [option_map]; [reflexivity | f_equal; lia].
Qed.
Lemma scan_shift q rest pos : scan q pos rest = option_map (fun e => pos + e) (scan q 0 rest).
Proof. apply (scan_shift_n q (S (length rest))). lia. Qed.

(* the closing position is inside the text and holds a quote *)
Lemma scan_sound_n q : forall n rest pos e, length rest < n -> scan q pos rest = Some e ->
  pos <= e /\ nth_error rest (e - pos) = Some q.
Proof.
  induction n as [|n IH]; intros rest pos e L; [lia|].
  destruct rest as [|y t]; [discriminate|]. cbn [length] in L. cbn [scan].
  destruct (y =? q)%N eqn:Eq.
  { intros H. inversion H; subst e. apply N.eqb_eq in Eq. subst y. rewrite Nat.sub_diag. split; [lia | reflexivity]. }
  assert (T : scan q (S pos) t = Some e -> pos <= e /\ nth_error (y :: t) (e - pos) = Some q).
  { intros H. destruct (IH t (S pos) e ltac:(lia) H) as [A B]. split; [lia|].
    replace (e - pos) with (S (e - S pos)) by lia. exact B. }
  destruct (y =? 92)%N; [|exact T].
  destruct t as [|z t']; [discriminate|]. cbn [length] in L.
  assert (T2 : scan q (S (S pos)) t' = Some e -> pos <= e /\ nth_error (y :: z :: t') (e - pos) = Some q).
  { intros H. destruct (IH t' (S (S pos)) e ltac:(lia) H) as [A B]. split; [lia|].
    replace (e - pos) with (S (S (e - S (S pos)))) by lia. exact B. }
  destruct (z =? 92)%N; [exact T2|].
  destruct (z =? q)%N eqn:Zq; [|exact T].
  destruct (scan q (S (S pos)) t') as [e'|] eqn:S2.
  - intros H. inversion H; subst e'. apply T2. reflexivity.
  - intros H. inversion H; subst e. apply N.eqb_eq in Zq. subst z. split; [lia|].
    replace (S pos - pos) with 1 by lia. reflexivity.
Qed.
Theorem scan_sound q rest pos e : scan q pos rest = Some e -> pos <= e /\ nth_error rest (e - pos) = Some q.
Proof. apply (scan_sound_n q (S (length rest))). lia. Qed.

(* ================================================================== C. the engine on the string-literal shape *)
Definition str_alt (q : N) : regex := RAlt (RCat (RLit 92) (RLit 92)) (RAlt (RCat (RLit 92) (RLit q)) (RNotLit q)).
Definition str_tok (q : N) : regex := RCat (RLit q) (RCat (RGroup 1 (RRep 0 None (str_alt q))) (RLit q)).
Definition str_regex (q : N) : regex := RCat RBol (RCat rspW (str_tok q)).

Lemma string_regex_shape : R_EXPR_STRING = str_regex 39.
Proof. reflexivity. Qed.
Lemma string_double_regex_shape : R_EXPR_STRING_DOUBLE = str_regex 34.
Proof. reflexivity. Qed.

Lemma ev_rep_unfold a mn mx pos rest c k :
  ev UC (RRep mn mx a) pos rest c k = ev_rep (ev UC a) (S (S (length rest))) mn mx pos rest c k.
Proof. reflexivity. Qed.

Lemma neq_succ2 pos : Nat.eqb (S (S pos)) pos = false.
Proof. apply Nat.eqb_neq. lia. Qed.

Section Quote.
Variable q : N.
Hypothesis q92 : q <> 92%N.

(* one iteration of the body, for any continuation *)
Lemma str_alt_step pos rest c (k : kont) :
  ev UC (str_alt q) pos rest c k =
  match rest with
  | [] => MNo
  | y :: t =>
    if (y =? 92)%N then
      match (match t with z :: t' => if (z =? 92)%N then k (S (S pos)) t' c else MNo | [] => MNo end) with
      | MNo => match (match t with z :: t' => if (z =? q)%N then k (S (S pos)) t' c else MNo | [] => MNo end) with
               | MNo => if (y =? q)%N then MNo else k (S pos) t c
               | res => res
               end
      | res => res
      end
    else if (y =? q)%N then MNo else k (S pos) t c
  end.
Proof.
  unfold str_alt. cbn [ev].
  destruct rest as [|y t]; [reflexivity|].
  destruct (y =? 92)%N; [|reflexivity].
  destruct t as [|z t']; [reflexivity|].
  destruct (z =? 92)%N; destruct (z =? q)%N; reflexivity.
Qed.

(* the star with the continuation "read the closing quote, record group 1 from p0, succeed" *)
Lemma str_star p0 (k : kont) :
  (forall p r' c', k p r' c' = match r' with y :: _ => if (y =? q)%N then MYes (S p) (cap_set 1 (p0, p) c') else MNo | [] => MNo end) ->
  forall n pos rest c, length rest < n ->
  ev_rep (ev UC (str_alt q)) n 0 None pos rest c k =
  match scan q pos rest with Some e => MYes (S e) (cap_set 1 (p0, e) c) | None => MNo end.
Proof.
  intros K. induction n as [|n IH]; intros pos rest c L; [lia|].
  rewrite ev_rep_S. cbn [pred option_map]. rewrite str_alt_step.
  destruct rest as [|y t].
  { rewrite K. reflexivity. }
  cbn [length] in L. rewrite K. cbn [scan].
  destruct (y =? q)%N eqn:Eq.
  { (* a bare quote: no alternative reads it, the star stops and the literal closes *)
    destruct (y =? 92)%N eqn:E92; [|reflexivity].
    apply N.eqb_eq in Eq. apply N.eqb_eq in E92. congruence. }
  rewrite neq_succ.
  assert (T : ev_rep (ev UC (str_alt q)) n 0 None (S pos) t c k =
              match scan q (S pos) t with Some e => MYes (S e) (cap_set 1 (p0, e) c) | None => MNo end).
  { apply IH. lia. }
  destruct (y =? 92)%N eqn:E92.
  2:{ rewrite T. destruct (scan q (S pos) t); reflexivity. }
  destruct t as [|z t'].
  { (* a final backslash *) rewrite T. reflexivity. }
  cbn [length] in L. rewrite neq_succ2.
  assert (T2 : ev_rep (ev UC (str_alt q)) n 0 None (S (S pos)) t' c k =
               match scan q (S (S pos)) t' with Some e => MYes (S e) (cap_set 1 (p0, e) c) | None => MNo end).
  { apply IH. lia. }
  destruct (z =? 92)%N eqn:Z92.
  - (* \\ : the pair, else the second backslash read alone -- which cannot succeed where the pair failed *)
    assert (Zq : (z =? q)%N = false).
    { apply N.eqb_neq. apply N.eqb_eq in Z92. congruence. }
    rewrite Zq. rewrite T2. destruct (scan q (S (S pos)) t') as [e|] eqn:S2; [reflexivity|].
    assert (N1 : scan q (S pos) (z :: t') = None).
    { apply scan_none. cbn [has_quote existsb]. rewrite Zq. exact (proj1 (scan_none q t' _) S2). }
    rewrite T, N1. reflexivity.
  - destruct (z =? q)%N eqn:Zq.
    + (* \q : the pair; else the backslash is an ordinary character and the literal closes at THIS quote *)
      rewrite T2. destruct (scan q (S (S pos)) t') as [e|]; [reflexivity|].
      rewrite T. cbn [scan]. rewrite Zq. reflexivity.
    + (* backslash + anything else *)
      rewrite T. destruct (scan q (S pos) (z :: t')); reflexivity.
Qed.

Definition str_spec (p : nat) (r : str) : mres :=
  match str_body q r with Some n => MYes (p + n + 2) [(1%nat, (p + 1, p + 1 + n))] | None => MNo end.

Lemma ev_str_tok p r : ev UC (str_tok q) p r [] kfin = str_spec p r.
Proof.
  unfold str_tok, str_spec, str_body. rewrite ev_cat. rewrite (ev_one UC _ _ (one_lit UC q)).
  destruct r as [|y t]; [reflexivity|]. destruct (y =? q)%N; [|reflexivity].
  rewrite ev_cat, ev_group, ev_rep_unfold.
  rewrite (str_star (S p) _ (fun p1 r1 c1 => eq_refl)) by lia.
  rewrite scan_shift. destruct (scan q 0 t) as [e|]; cbn [option_map]; [|reflexivity].
  unfold cap_set. replace (S (S p + e)) with (p + e + 2) by lia. replace (S p) with (p + 1) by lia. reflexivity.
Qed.

Hypothesis q_not_space : is_space UC q = false.

Theorem str_answer s : re_match UC (str_regex q) s = str_spec (fst (span_p is_space_u s)) (snd (span_p is_space_u s)).
Proof.
  unfold str_regex. apply tok_answer_gen.
  - exact ev_str_tok.
  - intros p y t S. unfold str_spec, str_body. destruct (y =? q)%N eqn:E; [|reflexivity].
    apply N.eqb_eq in E. subst y. unfold is_space_u in S. congruence.
Qed.
End Quote.

Theorem string_answer : forall s,
  re_match UC R_EXPR_STRING s =
  match str_body 39 (snd (span_p is_space_u s)) with
  | Some n => MYes (fst (span_p is_space_u s) + n + 2) [(1%nat, (fst (span_p is_space_u s) + 1, fst (span_p is_space_u s) + 1 + n))]
  | None => MNo
  end.
Proof. intros s. rewrite string_regex_shape. apply (str_answer 39); [discriminate | reflexivity]. Qed.

Theorem string_double_answer : forall s,
  re_match UC R_EXPR_STRING_DOUBLE s =
  match str_body 34 (snd (span_p is_space_u s)) with
  | Some n => MYes (fst (span_p is_space_u s) + n + 2) [(1%nat, (fst (span_p is_space_u s) + 1, fst (span_p is_space_u s) + 1 + n))]
  | None => MNo
  end.
Proof. intros s. rewrite string_double_regex_shape. apply (str_answer 34); [discriminate | reflexivity]. Qed.

(* ================================================================== D. the un-escape pass  re.sub(r'\\([\\q])', r'\1', body) *)
Definition esc_regex (q : N) : regex := RCat (RLit 92) (RGroup 1 (RIn false [CLit 92%N; CLit q])).

Lemma string_escape_shape : R_EXPR_STRING_ESCAPE = esc_regex 39.
Proof. reflexivity. Qed.
Lemma string_double_escape_shape : R_EXPR_STRING_DOUBLE_ESCAPE = esc_regex 34.
Proof. reflexivity. Qed.

(* the engine's answer for the escape pattern at any position of any text *)
Lemma ev_esc q pos rest :
  ev UC (esc_regex q) pos rest [] kfin =
  match rest with
  | y :: z :: _ => if ((y =? 92) && ((z =? 92) || (z =? q)))%N then MYes (S (S pos)) [(1%nat, (S pos, S (S pos)))] else MNo
  | _ => MNo
  end.
Proof.
  unfold esc_regex. rewrite ev_cat. rewrite (ev_one UC _ _ (one_lit UC 92)).
  destruct rest as [|y t]; [reflexivity|]. destruct (y =? 92)%N; [|destruct t; reflexivity].
  cbv beta. rewrite ev_group. rewrite (ev_one UC _ _ (one_in UC false _)). destruct t as [|z t']; [reflexivity|].
  unfold class_match. rewrite Bool.xorb_false_l. cbn [existsb item_match]. rewrite orb_false_r. cbn [andb].
  destruct ((z =? 92) || (z =? q))%N; reflexivity.
Qed.

Lemma skipn_cons_tl {A} : forall pos (whole : list A) y t, skipn pos whole = y :: t -> skipn (S pos) whole = t.
Proof.
  induction pos as [|pos IH]; intros whole y t H; destruct whole as [|a w]; try discriminate.
  - cbn [skipn] in *. inversion H. reflexivity.
  - cbn [skipn] in H. change (skipn (S (S pos)) (a :: w)) with (skipn (S pos) w). exact (IH w y t H).
Qed.

Lemma sub_unescape q whole : forall f pos rest, length rest < f -> skipn pos whole = rest ->
  re_sub_from UC (esc_regex q) (fun c => grp whole c 1) whole f pos rest = Some (unescape_direct q rest).
Proof.
  induction f as [|f IH]; intros pos rest L E; [lia|].
  cbn [re_sub_from]. rewrite m_at_ev by (rewrite <- E, skipn_length; lia). rewrite ev_esc.
  destruct rest as [|y t]; [reflexivity|].
  cbn [length] in L. pose proof (skipn_cons_tl _ _ _ _ E) as E1. cbn [unescape_direct].
  destruct t as [|z t'].
  { rewrite (IH (S pos) []) by (cbn [length]; lia || exact E1). cbn [unescape_direct option_map].
    destruct (y =? 92)%N; reflexivity. }
  cbn [length] in L. pose proof (skipn_cons_tl _ _ _ _ E1) as E2.
  destruct (y =? 92)%N.
  - cbn [andb]. destruct ((z =? 92) || (z =? q))%N.
    + assert (Hlt : Nat.ltb pos (S (S pos)) = true) by (apply Nat.ltb_lt; lia).
      rewrite Hlt. replace (S (S pos) - pos) with 2 by lia. cbn [skipn].
      rewrite (IH (S (S pos)) t') by (lia || exact E2). cbn [option_map]. f_equal.
      unfold grp, group_text, cap_set. cbn [cap_get Nat.eqb].
      replace (S (S pos) - S pos) with 1 by lia. unfold sub_list. rewrite E1. reflexivity.
    + rewrite (IH (S pos) (z :: t')) by (cbn [length]; lia || exact E1). reflexivity.
  - cbn [andb]. rewrite (IH (S pos) (z :: t')) by (cbn [length]; lia || exact E1). reflexivity.
Qed.

Theorem unescape_answer q s : unescape (esc_regex q) s = Some (unescape_direct q s).
Proof. unfold unescape, re_sub. apply sub_unescape; [lia | reflexivity]. Qed.

Theorem string_unescape_answer : forall t, unescape R_EXPR_STRING_ESCAPE t = Some (unescape_direct 39 t).
Proof. intros t. rewrite string_escape_shape. apply unescape_answer. Qed.
Theorem string_double_unescape_answer : forall t, unescape R_EXPR_STRING_DOUBLE_ESCAPE t = Some (unescape_direct 34 t).
Proof. intros t. rewrite string_double_escape_shape. apply unescape_answer. Qed.

Theorem variable_ex_unescape_answer : forall t, unescape R_EXPR_VARIABLE_EX_ESCAPE t = Some (unescape_direct 93 t).
Proof. intros t. change R_EXPR_VARIABLE_EX_ESCAPE with (esc_regex 93). apply unescape_answer. Qed.

(* ================================================================== E. the bracketed variable name  ^\s*\[\s*((?:\\\]|[^\]])+)\s*\]
   After the bracket the engine skips white space (greedily, giving characters back when the rest fails), reads the name
   -- at least one iteration of  \] | [^\]]  -- then  \s*\] .  White space is also a [^\]] character, so the greedy name
   swallows the white space before the closing bracket (the final \s* always reads nothing), and the name may start inside
   the leading white space when nothing else is there ( "[ ]" has the name " " ). *)
(* position of the closing bracket, for a name that starts at [pos] *)
Fixpoint scanv (pos : nat) (rest : str) {struct rest} : option nat :=
  match rest with
  | [] => None
  | y :: t =>
    if (y =? 93)%N then Some pos
    else if (y =? 92)%N then
      match t with
      | z :: t' => if (z =? 93)%N then match scanv (S (S pos)) t' with Some e => Some e | None => Some (S pos) end
                   else scanv (S pos) t
      | [] => None
      end
    else scanv (S pos) t
  end.
(* the name must not be empty *)
Definition varex_name (pos : nat) (rest : str) : option nat :=
  match rest with y :: _ => if (y =? 93)%N then None else scanv pos rest | [] => None end.
(* after the opening bracket (at position pos - 1): (start of the name, position of the closing bracket) *)
Definition varex_after (pos : nat) (r : str) : option (nat * nat) :=
  match snd (span_p is_space_u r) with
  | [] => None
  | y :: _ =>
    if (y =? 93)%N then match fst (span_p is_space_u r) with O => None | S m => Some (pos + m, pos + S m) end
    else option_map (fun e => (pos + fst (span_p is_space_u r), e)) (scanv (pos + fst (span_p is_space_u r)) (snd (span_p is_space_u r)))
  end.
(* the token after the leading white space of length p *)
Definition varex_tok (p : nat) (r : str) : option (nat * nat) :=
  match r with y :: t => if (y =? 91)%N then varex_after (S p) t else None | [] => None end.

Lemma scanv_none_n : forall n rest pos, length rest < n -> (scanv pos rest = None <-> has_quote 93 rest = false).
Proof.
  induction n as [|n IH]; intros rest pos L; [lia|].
  destruct rest as [|y t]; [split; reflexivity|]. cbn [length] in L. cbn [scanv has_quote existsb]. fold (has_quote 93 t).
  destruct (y =? 93)%N; [split; discriminate|]. cbn [orb].
  destruct (y =? 92)%N; [|apply IH; lia].
  destruct t as [|z t']; [split; reflexivity|]. cbn [length] in L.
  destruct (z =? 93)%N eqn:Z; [|apply IH; cbn [length]; lia].
  cbn [has_quote existsb]. rewrite Z. destruct (scanv (S (S pos)) t'); split; discriminate.
Qed.
Theorem scanv_none rest pos : scanv pos rest = None <-> has_quote 93 rest = false.
Proof. apply (scanv_none_n (S (length rest))). lia. Qed.

Lemma scanv_sound_n : forall n rest pos e, length rest < n -> scanv pos rest = Some e ->
  pos <= e /\ nth_error rest (e - pos) = Some 93%N.
Proof.
  induction n as [|n IH]; intros rest pos e L; [lia|].
  destruct rest as [|y t]; [discriminate|]. cbn [length] in L. cbn [scanv].
  destruct (y =? 93)%N eqn:Eq.
  { intros H. inversion H; subst e. apply N.eqb_eq in Eq. subst y. rewrite Nat.sub_diag. split; [lia | reflexivity]. }
  assert (T : scanv (S pos) t = Some e -> pos <= e /\ nth_error (y :: t) (e - pos) = Some 93%N).
  { intros H. destruct (IH t (S pos) e ltac:(lia) H) as [A B]. split; [lia|].
    replace (e - pos) with (S (e - S pos)) by lia. exact B. }
  destruct (y =? 92)%N; [|exact T].
  destruct t as [|z t']; [discriminate|]. cbn [length] in L.
  destruct (z =? 93)%N eqn:Zq; [|exact T].
  destruct (scanv (S (S pos)) t') as [e'|] eqn:S2.
  - intros H. inversion H; subst e'. destruct (IH t' (S (S pos)) e ltac:(lia) S2) as [A B]. split; [lia|].
    replace (e - pos) with (S (S (e - S (S pos)))) by lia. exact B.
  - intros H. inversion H; subst e. apply N.eqb_eq in Zq. subst z. split; [lia|].
    replace (S pos - pos) with 1 by lia. reflexivity.
Qed.
Theorem scanv_sound rest pos e : scanv pos rest = Some e -> pos <= e /\ nth_error rest (e - pos) = Some 93%N.
Proof. apply (scanv_sound_n (S (length rest))). lia. Qed.

Lemma space_not_93 y : is_space_u y = true -> (y =? 93)%N = false.
Proof. intros S. destruct (y =? 93)%N eqn:E; [|reflexivity]. apply N.eqb_eq in E. subst y. discriminate. Qed.
Lemma space_not_92 y : is_space_u y = true -> (y =? 92)%N = false.
Proof. intros S. destruct (y =? 92)%N eqn:E; [|reflexivity]. apply N.eqb_eq in E. subst y. discriminate. Qed.
Lemma space_not_91 y : is_space_u y = true -> (y =? 91)%N = false.
Proof. intros S. destruct (y =? 91)%N eqn:E; [|reflexivity]. apply N.eqb_eq in E. subst y. discriminate. Qed.

(* white space is skipped by the scanner like any other character *)
Lemma scanv_span : forall r pos, scanv pos r = scanv (pos + fst (span_p is_space_u r)) (snd (span_p is_space_u r)).
Proof.
  induction r as [|y t IH]; intros pos; cbn [span_p].
  - cbn [fst snd]. rewrite Nat.add_0_r. reflexivity.
  - destruct (is_space_u y) eqn:Sy.
    + cbn [scanv]. rewrite (space_not_93 y Sy), (space_not_92 y Sy). rewrite IH.
      destruct (span_p is_space_u t) as [n r']. cbn [fst snd]. replace (pos + S n) with (S pos + n) by lia. reflexivity.
    + cbn [fst snd]. rewrite Nat.add_0_r. reflexivity.
Qed.

(* \s*\]  *)
Definition close_after_space (r : str) : option nat :=
  match snd (span_p is_space_u r) with
  | y :: _ => if (y =? 93)%N then Some (S (fst (span_p is_space_u r))) else None
  | [] => None
  end.
Lemma ev_close p r c : ev UC (RCat rspW (RLit 93%N)) p r c kfin =
  match close_after_space r with Some m => MYes (p + m) c | None => MNo end.
Proof.
  rewrite ev_cat. unfold rspW. rewrite (ev_star UC _ _ (one_in UC false _)). fold cmW.
  rewrite star_bt_longest.
  2:{ right. intros p' y t c' Hy. rewrite (ev_one UC _ _ (one_lit UC 93)).
      rewrite cmW_is in Hy. rewrite (space_not_93 y Hy). reflexivity. }
  rewrite (ev_one UC _ _ (one_lit UC 93)). unfold close_after_space. rewrite spanW.
  destruct (snd (span_p is_space_u r)) as [|y t]; [reflexivity|]. destruct (y =? 93)%N; [|reflexivity].
  unfold kfin. replace (S (p + fst (span_p is_space_u r))) with (p + S (fst (span_p is_space_u r))) by lia. reflexivity.
Qed.
Lemma close_none : forall r, has_quote 93 r = false -> close_after_space r = None.
Proof.
  unfold close_after_space. induction r as [|y t IH]; [reflexivity|]. cbn [has_quote existsb]. fold (has_quote 93 t).
  intros H. apply orb_false_iff in H. destruct H as [Y T]. cbn [span_p]. destruct (is_space_u y).
  - specialize (IH T). destruct (span_p is_space_u t) as [n r']. cbn [fst snd] in *.
    destruct r' as [|y' t']; [reflexivity|]. destruct (y' =? 93)%N; [discriminate | reflexivity].
  - cbn [fst snd]. rewrite Y. reflexivity.
Qed.

Definition var_alt : regex := RAlt (RCat (RLit 92) (RLit 93)) (RNotLit 93).
Definition var_tail : regex := RCat (RGroup 1 (RRep 1 None var_alt)) (RCat rspW (RLit 93%N)).
Definition var_tok : regex := RCat (RLit 91%N) (RCat rspW var_tail).

Lemma variable_ex_regex_shape : R_EXPR_VARIABLE_EX = RCat RBol (RCat rspW var_tok).
Proof. reflexivity. Qed.

Lemma var_alt_step pos rest c (k : kont) :
  ev UC var_alt pos rest c k =
  match rest with
  | [] => MNo
  | y :: t =>
    match (if (y =? 92)%N then match t with z :: t' => if (z =? 93)%N then k (S (S pos)) t' c else MNo | [] => MNo end else MNo) with
    | MNo => if (y =? 93)%N then MNo else k (S pos) t c
    | res => res
    end
  end.
Proof.
  unfold var_alt. cbn [ev]. destruct rest as [|y t]; [reflexivity|].
  destruct (y =? 92)%N; [|reflexivity]. destruct t as [|z t']; [reflexivity|]. destruct (z =? 93)%N; reflexivity.
Qed.

Section VarEx.
Variable p0 : nat.
Variable k : kont.
Hypothesis K : forall p r' c', k p r' c' = ev UC (RCat rspW (RLit 93%N)) p r' (cap_set 1 (p0, p) c') kfin.

Lemma k_close p t c : k p (93%N :: t) c = MYes (S p) (cap_set 1 (p0, p) c).
Proof.
  rewrite K, ev_close. unfold close_after_space. cbn [span_p]. change (is_space_u 93) with false. cbn [fst snd N.eqb Pos.eqb].
  replace (p + 1) with (S p) by lia. reflexivity.
Qed.
Lemma k_refuses p r c : has_quote 93 r = false -> k p r c = MNo.
Proof. intros H. rewrite K, ev_close, (close_none r H). reflexivity. Qed.

Lemma var_star : forall n pos rest c, length rest < n ->
  ev_rep (ev UC var_alt) n 0 None pos rest c k =
  match scanv pos rest with Some e => MYes (S e) (cap_set 1 (p0, e) c) | None => MNo end.
Proof.
  induction n as [|n IH]; intros pos rest c L; [lia|].
  rewrite ev_rep_S. cbn [pred option_map]. rewrite var_alt_step.
  destruct rest as [|y t].
  { rewrite k_refuses by reflexivity. reflexivity. }
  cbn [length] in L. cbn [scanv].
  destruct (y =? 93)%N eqn:Eq.
  { assert (E92 : (y =? 92)%N = false) by (apply N.eqb_eq in Eq; subst y; reflexivity).
    rewrite E92. apply N.eqb_eq in Eq. subst y. apply k_close. }
  rewrite neq_succ.
  assert (T : ev_rep (ev UC var_alt) n 0 None (S pos) t c k =
              match scanv (S pos) t with Some e => MYes (S e) (cap_set 1 (p0, e) c) | None => MNo end).
  { apply IH. lia. }
  (* when the rest does not close, neither does the continuation tried here *)
  assert (F : scanv (S pos) t = None -> k pos (y :: t) c = MNo).
  { intros H. apply k_refuses. cbn [has_quote existsb]. rewrite Eq. exact (proj1 (scanv_none t _) H). }
  destruct (y =? 92)%N eqn:E92.
  2:{ rewrite T. destruct (scanv (S pos) t) eqn:S1; [reflexivity | exact (F eq_refl)]. }
  destruct t as [|z t'].
  { rewrite T. cbn [scanv]. exact (F eq_refl). }
  cbn [length] in L. rewrite neq_succ2.
  destruct (z =? 93)%N eqn:Z93.
  - rewrite (IH (S (S pos)) t') by lia.
    destruct (scanv (S (S pos)) t') as [e|]; [reflexivity|].
    rewrite T. cbn [scanv]. rewrite Z93. reflexivity.
  - rewrite T. destruct (scanv (S pos) (z :: t')) eqn:S1; [reflexivity | exact (F eq_refl)].
Qed.

Lemma var_plus : forall n pos rest c, length rest < n ->
  ev_rep (ev UC var_alt) (S n) 1 None pos rest c k =
  match varex_name pos rest with Some e => MYes (S e) (cap_set 1 (p0, e) c) | None => MNo end.
Proof.
  intros n pos rest c L. rewrite ev_rep_S. cbn [pred option_map]. rewrite var_alt_step. unfold varex_name.
  destruct rest as [|y t]; [reflexivity|]. cbn [length] in L. cbn [scanv].
  destruct (y =? 93)%N eqn:Eq.
  { assert (E92 : (y =? 92)%N = false) by (apply N.eqb_eq in Eq; subst y; reflexivity). rewrite E92. reflexivity. }
  rewrite neq_succ.
  assert (T : ev_rep (ev UC var_alt) n 0 None (S pos) t c k =
              match scanv (S pos) t with Some e => MYes (S e) (cap_set 1 (p0, e) c) | None => MNo end).
  { apply var_star. lia. }
  destruct (y =? 92)%N eqn:E92.
  2:{ rewrite T. destruct (scanv (S pos) t); reflexivity. }
  destruct t as [|z t'].
  { rewrite T. reflexivity. }
  cbn [length] in L. rewrite neq_succ2.
  destruct (z =? 93)%N eqn:Z93.
  - rewrite (var_star n (S (S pos)) t') by lia.
    destruct (scanv (S (S pos)) t') as [e|]; [reflexivity|].
    rewrite T. cbn [scanv]. rewrite Z93. reflexivity.
  - rewrite T. destruct (scanv (S pos) (z :: t')); reflexivity.
Qed.
End VarEx.

Lemma ev_var_tail p r : ev UC var_tail p r [] kfin =
  match varex_name p r with Some e => MYes (S e) [(1%nat, (p, e))] | None => MNo end.
Proof.
  unfold var_tail. rewrite ev_cat, ev_group, ev_rep_unfold.
  rewrite (var_plus p _ (fun p1 r1 c1 => eq_refl)) by lia. reflexivity.
Qed.

Definition varex_spec (o : option (nat * nat)) : mres :=
  match o with Some (a, e) => MYes (S e) [(1%nat, (a, e))] | None => MNo end.

(* the white space after the bracket: longest run first, then shorter ones *)
Lemma var_after_space : forall r pos,
  star_bt cmW (fun p r' c' => ev UC var_tail p r' c' kfin) pos r [] = varex_spec (varex_after pos r).
Proof.
  induction r as [|y t IH]; intros pos; cbn [star_bt].
  - rewrite ev_var_tail. reflexivity.
  - rewrite cmW_is. unfold varex_after. cbn [span_p]. destruct (is_space_u y) eqn:Sy.
    + rewrite IH. unfold varex_after.
      assert (Back : ev UC var_tail pos (y :: t) [] kfin =
                     match scanv (pos + S (fst (span_p is_space_u t))) (snd (span_p is_space_u t)) with
                     | Some e => MYes (S e) [(1%nat, (pos, e))] | None => MNo end).
      { rewrite ev_var_tail. unfold varex_name. rewrite (space_not_93 y Sy). rewrite scanv_span. cbn [span_p]. rewrite Sy.
        destruct (span_p is_space_u t) as [n r']. reflexivity. }
      destruct (span_p is_space_u t) as [n r']. cbn [fst snd] in *.
      destruct r' as [|y' t']; [rewrite Back; reflexivity|].
      destruct (y' =? 93)%N eqn:E93.
      * destruct n as [|m].
        -- cbn [varex_spec]. rewrite Back. cbn [scanv]. rewrite E93. cbn [varex_spec].
           replace (pos + 0) with pos by lia. replace (pos + 1) with (S pos) by lia. reflexivity.
        -- cbn [varex_spec]. replace (S pos + S m) with (pos + S (S m)) by lia. replace (S pos + m) with (pos + S m) by lia.
           reflexivity.
      * replace (S pos + n) with (pos + S n) by lia.
        destruct (scanv (pos + S n) (y' :: t')) as [e|] eqn:S1; cbn [option_map varex_spec].
        -- reflexivity.
        -- rewrite Back. reflexivity.
    + cbn [fst snd]. rewrite ev_var_tail. unfold varex_name. rewrite Nat.add_0_r.
      destruct (y =? 93)%N; [reflexivity|]. destruct (scanv pos (y :: t)); reflexivity.
Qed.

Lemma ev_var_tok p r : ev UC var_tok p r [] kfin = varex_spec (varex_tok p r).
Proof.
  unfold var_tok, varex_tok. rewrite ev_cat. rewrite (ev_one UC _ _ (one_lit UC 91)).
  destruct r as [|y t]; [reflexivity|]. destruct (y =? 91)%N; [|reflexivity].
  cbv beta. rewrite ev_cat. unfold rspW. rewrite (ev_star UC _ _ (one_in UC false _)). fold cmW.
  apply var_after_space.
Qed.

Theorem variable_ex_answer : forall s,
  re_match UC R_EXPR_VARIABLE_EX s =
  match varex_tok (fst (span_p is_space_u s)) (snd (span_p is_space_u s)) with
  | Some (a, e) => MYes (S e) [(1%nat, (a, e))]
  | None => MNo
  end.
Proof.
  intros s. rewrite variable_ex_regex_shape.
  apply (tok_answer_gen var_tok (fun p r => varex_spec (varex_tok p r))).
  - exact ev_var_tok.
  - intros p y t S. unfold varex_tok. rewrite (space_not_91 y S). reflexivity.
Qed.
