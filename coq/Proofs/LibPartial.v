(* Proofs/LibPartial.v — the library premises of the interpreter theorems hold for libfull2 = libfull + systemPartial
   closures (Model/LibPartial.v): creating a closure ignores the callback and the counter; calling one is ONE raw call
   through the callback. *)
From Coq Require Import List ZArith Lia Bool.
From BS Require Import Model.Base Model.Num Model.Arith Model.ExprParser Model.Script Model.Interp Model.LibCore Model.LibAll Model.LibPartial
                       Proofs.Fuel Proofs.C01 Proofs.Blind Proofs.C09 Proofs.LibAll Proofs.C01for.
Local Open Scope Z_scope.

Lemma snd_lres_of_outcome r : snd (lres_of_outcome r) = snd r.
Proof. destruct r as [o w]. destruct o; reflexivity. Qed.

Lemma partial_new_count args w : w_count (snd (lib_partial_new args w)) = w_count w.
Proof.
  unfold lib_partial_new, alloc_arr.
  destruct (validate w [A TFunction; ALast] args) as [va| |]; try reflexivity.
  destruct va as [|[f|] va]; try reflexivity. destruct va as [|[|rest] va]; try reflexivity.
  destruct va; try reflexivity. destruct rest; reflexivity.
Qed.

Lemma partial_new_frame args w k :
  lib_partial_new args (upd_count w k) = (fst (lib_partial_new args w), upd_count (snd (lib_partial_new args w)) k).
Proof.
  unfold lib_partial_new, alloc_arr. rewrite validate_blind. cbn [w_arrs upd_count].
  destruct (validate w [A TFunction; ALast] args) as [va| |]; try reflexivity.
  destruct va as [|[f|] va]; try reflexivity. destruct va as [|[|rest] va]; try reflexivity.
  destruct va; try reflexivity. destruct rest; reflexivity.
Qed.

Theorem libfull2_fuel_monotone cfg : lib_fuel_monotone (libfull2 cfg).
Proof.
  intros cb1 cb2 Hcb name args w. unfold libfull2.
  destruct (op_is name "systemPartial"); [left; reflexivity|].
  destruct (partial_loc name) as [l|]; [|apply libfull_fuel_monotone; exact Hcb].
  unfold lib_partial_call. destruct (get_arr w l) as [|f bound]; [left; reflexivity|].
  destruct (Hcb f (bound ++ args) w) as [E|E]; [left; rewrite E; reflexivity|].
  right. destruct (cb1 f (bound ++ args) w) as [o w1]. cbn [fst] in E. subst o. reflexivity.
Qed.

Theorem libfull2_monotone cfg : lib_monotone (libfull2 cfg).
Proof.
  intros cb Hcb name args w. unfold libfull2.
  destruct (op_is name "systemPartial"); [rewrite partial_new_count; lia|].
  destruct (partial_loc name) as [l|]; [|apply libfull_monotone; exact Hcb].
  unfold lib_partial_call. destruct (get_arr w l) as [|f bound]; [cbn; lia|].
  rewrite snd_lres_of_outcome. apply Hcb.
Qed.

Theorem libfull2_lockstep cfg : lib_lockstep (libfull2 cfg) cfg.
Proof.
  intros cb1 cb2 Hcb Hm name args w. unfold libfull2.
  destruct (op_is name "systemPartial"); [left; reflexivity|].
  destruct (partial_loc name) as [l|]; [|apply libfull_lockstep; assumption].
  unfold lib_partial_call. destruct (get_arr w l) as [|f bound]; [left; reflexivity|].
  destruct (Hcb f (bound ++ args) w) as [E|[E1 E2]]; [left; rewrite E; reflexivity|].
  right. rewrite snd_lres_of_outcome. split; [|exact E2].
  destruct (cb1 f (bound ++ args) w) as [o w1]. cbn [fst] in E1. subst o. reflexivity.
Qed.

Theorem libfull2_count_blind cfg : lib_count_blind (libfull2 cfg).
Proof.
  intros cb1 cb2 Hcb name args w wm Hw. unfold libfull2.
  destruct (op_is name "systemPartial").
  { rewrite (weq_repr _ _ Hw). rewrite partial_new_frame. split; [reflexivity|]. cbn [snd]. apply weq_upd. }
  destruct (partial_loc name) as [l|]; [|apply libfull_count_blind; assumption].
  unfold lib_partial_call.
  assert (Hg : get_arr w l = get_arr wm l).
  { unfold get_arr. destruct (weq_fields _ _ Hw) as (_ & Ha & _). rewrite Ha. reflexivity. }
  rewrite Hg. destruct (get_arr wm l) as [|f bound]; [split; [reflexivity|exact Hw]|].
  destruct (Hcb f (bound ++ args) w wm Hw) as [Ho Hw1].
  destruct (cb1 f (bound ++ args) w) as [o1 w1]. destruct (cb2 f (bound ++ args) wm) as [o2 w2]. cbn [fst snd] in *. subst o2.
  destruct o1; split; try reflexivity; exact Hw1.
Qed.

Lemma libfull2_arrayLength cfg : arrayLength_contract (libfull2 cfg).
Proof.
  intros cb l w elems H.
  change (libfull2 cfg cb ARRLEN [VArr l] w) with (libfull cfg cb ARRLEN [VArr l] w).
  apply libfull_arrayLength. exact H.
Qed.

Lemma libfull2_arrayGet cfg : arrayGet_contract (libfull2 cfg).
Proof.
  intros cb l i w elems v H Hi.
  change (libfull2 cfg cb ARRGET [VArr l; int_v i] w) with (libfull cfg cb ARRGET [VArr l; int_v i] w).
  apply (libfull_arrayGet cfg cb l i w elems v H Hi).
Qed.
